import MythVerif.Proofs.Env
import MythVerif.Proofs.CpuList
import MythVerif.Proofs.InitOnce
import MythVerif.Proofs.WorkerBarrier
/-!
# C15 — initialisation, worker count, finalisation and configuration parsing

Models: `MythVerif.Env` (glibc `atoi`, the `myth_globalattr_default_*` readers with their C
types), `MythVerif.CpuList` (`myth_parse_cpu_list` and helpers, `myth_get_available_cpus`),
`MythVerif.InitOnce` (the init-once protocol as a transition system over unboundedly many
callers, the rank arithmetic of the steal-victim choice).  The theorems are about the current
source; the pinned snapshot's readers (`stacksizePinned`, the parser with `chk = true`) are kept
with their refutations (`C15_pinned_*`).
Quantification: every string (`List Char`, so every byte string), every capacity, every
interleaving of any number of callers, every init/fini history.
-/
namespace MythVerif.C15
open MythVerif MythVerif.Env MythVerif.CpuList MythVerif.InitOnce

/-! ## configuration strings -/

/-- whatever `MYTH_DEF_STKSIZE`, `MYTH_NUM_WORKERS` and the superseded `MYTH_WORKER_NUM` contain
    (or unset), the default stack size and the worker count used are positive (the CPU count is
    positive) -/
theorem C15_env_positive (stk nw old : Option CStr) (ncpu : Int) (hc : 0 < ncpu) :
    0 < stacksize stk ∧ 0 < (numWorkers nw old ncpu).1 :=
  ⟨stacksize_pos stk, numWorkers_pos nw old ncpu hc⟩

/-- a value that is empty, non-numeric (no digit after white space and an optional sign) or not
    positive is ignored: the default stack size resp. the CPU count is used -/
theorem C15_env_malformed_ignored (s : CStr) (old : Option CStr) (ncpu : Int)
    (h : s = [] ∨ NonNumeric s ∨ atoi s ≤ 0) :
    stacksize (some s) = defStack ∧ (numWorkers (some s) old ncpu).1 = ncpu ∧
    stacksize none = defStack ∧ (numWorkers none none ncpu).1 = ncpu := by
  have h0 : atoi s ≤ 0 := by
    rcases h with h | h | h
    · subst h; rw [atoi_nonNumeric [] nonNumeric_nil]; exact Int.le_refl 0
    · rw [atoi_nonNumeric s h]; exact Int.le_refl 0
    · exact h
  refine ⟨stacksize_default s h0, ?_, stacksize_unset, numWorkers_unset ncpu⟩
  rw [numWorkers_set]
  have : ¬ atoi s > 0 := by omega
  simp [this]

/-- the worker count is the requested one if it is positive, else the CPU count -/
theorem C15_workers_requested_or_cpus (s : CStr) (old : Option CStr) (ncpu : Int) :
    (numWorkers (some s) old ncpu).1 = if atoi s > 0 then atoi s else ncpu :=
  numWorkers_set s old ncpu

/-- a plain positive decimal number (below 2^31), whatever non-digit follows it, is taken as it
    is — as worker count and as stack size -/
theorem C15_env_number_used (ds rest : CStr) (old : Option CStr) (ncpu : Int) (hne : ds ≠ [])
    (hd : AllDigits ds) (hr : NoDigitHead rest) (h0 : 0 < digitsVal ds 0) (hv : digitsVal ds 0 < 2 ^ 31) :
    (numWorkers (some (ds ++ rest)) old ncpu).1 = digitsVal ds 0 ∧
    stacksize (some (ds ++ rest)) = digitsVal ds 0 := by
  have ha := atoi_digits ds rest hne hd hr hv
  have hp : atoi (ds ++ rest) > 0 := by rw [ha]; omega
  constructor
  · rw [numWorkers_set, if_pos hp, ha]
  · have := stacksize_value (ds ++ rest) hp; rw [ha] at this; omega

/-- `MYTH_BIND_WORKERS`: unset means the compiled-in default (bind), a non-numeric value means
    "do not bind"; no value can do anything else than switch binding on or off -/
theorem C15_bind_total (s : CStr) :
    bindingOn none = true ∧ (NonNumeric s → bindingOn (some s) = false) ∧
    (bindingOn (some s) = true ↔ 0 < atoi s) := by
  refine ⟨by decide, ?_, ?_⟩
  · intro h; simp [bindingOn, bindWorkers, atoi_nonNumeric s h]
  · simp [bindingOn, bindWorkers]

/-- **the pinned snapshot violated C15** (defect D5): `MYTH_DEF_STKSIZE=-5` is not ignored; the
    unsigned comparison lets it through as a default stack size of 2^64 - 5 bytes (the first
    stack allocation then aborts in `myth_mmap`) -/
theorem C15_pinned_stacksize_minus5 :
    stacksizePinned (some ['-', '5']) = 2 ^ 64 - 5 ∧ stacksize (some ['-', '5']) = defStack := by
  decide

/-- … and so for every negative value -/
theorem C15_pinned_stacksize_negative (s : CStr) (h : atoi s < 0) :
    (stacksizePinned (some s) : Int) = 2 ^ 64 + atoi s := by
  have hl := atoi_lo s
  unfold stacksizePinned toSizeT
  simp only []
  have h1 : atoi s % 2 ^ 64 = 2 ^ 64 + atoi s := by omega
  rw [h1]
  have h2 : ¬ (2 ^ 64 + atoi s).toNat ≤ 0 := by omega
  simp only [h2, if_false]
  omega

/-! ## the CPU list -/

/-- for every value of `MYTH_CPU_LIST` (or unset) and every capacity the parser terminates (it is
    a total function: structural recursion on the digits and on the free slots, well-founded
    recursion on the remaining suffix for the comma loop), never trips an assertion, never reads
    past the terminating NUL, writes at most `cap` entries, and returns -1 or the number of entries -/
theorem C15_cpulist_total (env : Option CStr) (cap : Nat) :
    ∃ r written d, parseCpuList false env cap = .ret r written d ∧ written.length ≤ cap ∧
      (r = -1 ∨ r = written.length) := by
  unfold parseCpuList
  cases env with
  | none => exact ⟨0, [], none, rfl, Nat.zero_le _, Or.inr rfl⟩
  | some str =>
    simp only []
    have hs := parseRangeList_safe cap { rest := str, i := 0, ok := 0 }
    generalize parseRangeList false cap { rest := str, i := 0, ok := 0 } [] = res at hs
    cases hs with
    | ok s out hl _ => exact ⟨out.length, out, none, rfl, hl, Or.inr rfl⟩
    | ng d out hl _ => exact ⟨-1, out, d, rfl, hl, Or.inl rfl⟩

/-- a list of the grammar `range(,range)*`, `range ::= a | a-b | a-b:c` (numbers below 2^31,
    positive stride, room for the result) yields exactly the CPUs it denotes, in order, without a
    diagnostic — with and without the pinned assertion -/
theorem C15_cpulist_wellformed (chk : Bool) (cap : Nat) (r0 : RangeS) (rs : List RangeS)
    (hv : ∀ r ∈ r0 :: rs, r.Valid) (hl : (cpusOf (r0 :: rs)).length ≤ cap) :
    parseCpuList chk (some (renderList r0 rs)) cap =
      .ret (cpusOf (r0 :: rs)).length (cpusOf (r0 :: rs)) none := by
  obtain ⟨s', hs'⟩ := parseRangeList_valid chk cap r0 rs hv hl
  simp [parseCpuList, hs']

/-- what a range denotes: `a-b:c` is exactly the set `{a + k*c | a + k*c < b}` (`a-b` is `a-b:1`) -/
theorem C15_cpulist_range_members (a b c : CStr) (hc : 1 ≤ numVal c) (v : Int) :
    v ∈ (RangeS.stride a b c).cpus ↔
      ∃ k : Nat, v = ((numVal a + k * numVal c : Nat) : Int) ∧ numVal a + k * numVal c < numVal b :=
  mem_steps (numVal c) hc _ _ _ (Nat.le_refl _) v

/-- conversely, a string (without an embedded NUL) for which the parser does not return -1 is a
    list of the grammar: every ill-formed list is rejected -/
theorem C15_cpulist_illformed_error (chk : Bool) (str : CStr) (cap : Nat) (r : Int)
    (written : List Int) (d : Option Diag) (hn : nul ∉ str)
    (h : parseCpuList chk (some str) cap = .ret r written d) (hr : r ≠ -1) :
    ∃ (r0 : RangeS) (rs : List RangeS), (∀ x ∈ r0 :: rs, x.Syn) ∧ str = renderList r0 rs := by
  unfold parseCpuList at h
  simp only [] at h
  split at h
  · rename_i s' out hp
    obtain ⟨r0, rs, hsyn, hrest, hcur⟩ := parseRangeList_split chk cap _ _ _ hp
    simp only [] at hrest
    refine ⟨r0, rs, hsyn, ?_⟩
    cases hre : s'.rest with
    | nil => rw [hre] at hrest; simpa using hrest
    | cons c t =>
      exfalso
      have : c = nul := by simpa [cur, hre] using hcur
      apply hn
      rw [hrest, hre, this]
      simp
  · simp at h; exact absurd h.1.symm hr
  · simp at h
  · simp at h

/-- a rejected list is ignored with the diagnostic "malformed MYTH_CPU_LIST ignored": the
    available CPUs are those of an unset variable -/
theorem C15_cpulist_malformed_ignored (s : CStr) (ncpu : Nat) (avail : Nat → Bool)
    (w : List Int) (d : Option Diag) (h : parseCpuList false (some s) nMaxCpus = .ret (-1) w d) :
    ∃ a, availableCpus false none ncpu avail = some a ∧
      availableCpus false (some s) ncpu avail = some { a with malformed := true } := by
  unfold availableCpus
  rw [h]
  simp [parseCpuList]

/-- binding never uses a CPU outside the affinity mask or outside `[0, CPU_SETSIZE)`: every
    entry of `worker_cpu` passed `CPU_ISSET`, and a worker is bound to one of them (or not bound) -/
theorem C15_bind_cpu_available (env : Option CStr) (ncpu : Nat) (avail : Nat → Bool) (a : Avail)
    (h : availableCpus false env ncpu avail = some a) (rank : Nat) :
    (∀ c ∈ a.workerCpu, 0 ≤ c ∧ c < nMaxCpus ∧ avail c.toNat = true) ∧
    (workerCpu a rank = -1 ∨ workerCpu a rank ∈ a.workerCpu) := by
  constructor
  · intro c hc
    unfold availableCpus at h
    split at h
    · simp at h
    · simp at h
    · simp only [Option.some.injEq] at h
      rw [← h] at hc
      simp only [List.mem_filter] at hc
      have := hc.2
      simp only [cpuIsSet, Bool.and_eq_true, decide_eq_true_eq] at this
      exact ⟨this.1.1, this.1.2, this.2⟩
  · unfold workerCpu
    split
    · exact Or.inl rfl
    · rename_i hl
      right
      have hlt : rank % a.workerCpu.length < a.workerCpu.length := Nat.mod_lt _ (by omega)
      simp only [List.getD_eq_getElem?_getD, List.getElem?_eq_getElem hlt, Option.getD_some]
      exact List.getElem_mem hlt

/-- **the pinned snapshot violated C15** (defect D6): with the assertion in `next_char`,
    `MYTH_CPU_LIST="0\n"` aborts the process instead of being diagnosed and ignored … -/
theorem C15_pinned_cpulist_newline_aborts :
    parseCpuList true (some ['0', '\n']) 1024 = .abort ∧
    parseCpuList false (some ['0', '\n']) 1024 = .ret (-1) [0] (some { kind := .junk, okPos := 1, pos := 2 }) := by
  constructor
  · simp [parseCpuList, parseRangeList, parseRange, parseInt, digitsLoop, parseTail, fill, rangeLoop,
      cur, next, setOk, isDigit, digitVal, wrap32, nul]
  · simp [parseCpuList, parseRangeList, parseRange, parseInt, digitsLoop, parseTail, fill, rangeLoop,
      cur, next, setOk, isDigit, digitVal, wrap32, nul]


/-- junk after a well-formed list — any character that cannot continue it (not a digit, `-`,
    `:`, `,`, NUL), followed by anything — is diagnosed ("junk at the end of CPU list") and the
    whole value rejected; **on the pinned snapshot the same input aborts the process when that
    character is a newline** (defect D6 in general form) -/
theorem C15_cpulist_trailing_junk (cap : Nat) (r0 : RangeS) (rs : List RangeS) (c : Char) (t : CStr)
    (hv : ∀ r ∈ r0 :: rs, r.Valid) (hl : (cpusOf (r0 :: rs)).length ≤ cap)
    (hc : isDigit c = false ∧ c ≠ '-' ∧ c ≠ ':' ∧ c ≠ ',' ∧ c ≠ nul) :
    (∃ d, parseCpuList false (some (renderList r0 rs ++ c :: t)) cap = .ret (-1) (cpusOf (r0 :: rs)) (some d) ∧
        d.kind = .junk) ∧
    (c = '\n' → parseCpuList true (some (renderList r0 rs ++ c :: t)) cap = .abort) := by
  have hsep : SepHead (c :: t) := by
    intro d hd; simp at hd; subst hd; exact ⟨hc.1, hc.2.1, hc.2.2.1⟩
  constructor
  · obtain ⟨sT, hT, hrun⟩ := parseRangeList_prefix false cap (c :: t) hsep r0 rs hv hl
    rw [rangeLoop_junk false cap sT _ c t hT hc.2.2.2.1 hc.2.2.2.2] at hrun
    simp only [Bool.false_and, Bool.false_eq_true, if_false] at hrun
    refine ⟨{ kind := .junk, okPos := sT.ok, pos := sT.i + 1 }, ?_, rfl⟩
    simp [parseCpuList, hrun]
  · intro hnl
    obtain ⟨sT, hT, hrun⟩ := parseRangeList_prefix true cap (c :: t) hsep r0 rs hv hl
    rw [rangeLoop_junk true cap sT _ c t hT hc.2.2.2.1 hc.2.2.2.2] at hrun
    have hq : (true && decide (c = '\n')) = true := by simp [hnl]
    rw [if_pos hq] at hrun
    simp [parseCpuList, hrun]

/-! ## the init-once protocol -/

/-- **exactly once per epoch**: in every reachable state (any number of callers of `myth_init`,
    `myth_init_ex`, implicit initialisation, any interleaving, any init/fini history) the real
    initialisation ran at most once in every epoch, exactly once in every completed epoch and in
    the current one when the state word says `initialized`, and not yet when it says `uninit` -/
theorem C15_init_once (ncpu : Int) (hc : 0 < ncpu) (s : St) (h : Reachable (step ncpu) init s) :
    (∀ e, s.inits e ≤ 1) ∧ (∀ e, e < s.epoch → s.inits e = 1) ∧
    (s.state = sInitialized → s.inits s.epoch = 1) ∧ (s.state = sUninit → s.inits s.epoch = 0) := by
  have hi := inv_of_reachable ncpu hc s h
  refine ⟨?_, hi.past, fun h => (hi.ined h).1, fun h => (hi.unin h).1⟩
  intro e
  rcases Nat.lt_trichotomy e s.epoch with h1 | h1 | h1
  · rw [hi.past e h1]; exact Nat.le_refl 1
  · subst h1
    rcases hi.st3 with h2 | h2 | h2
    · rw [(hi.unin h2).1]; exact Nat.zero_le 1
    · obtain ⟨t, ht⟩ := hi.elEx h2
      cases ht with
      | inl ht => rw [(hi.i3c t ht).1]; exact Nat.zero_le 1
      | inr ht => rw [(hi.i4c t ht).1]; exact Nat.le_refl 1
    · rw [(hi.ined h2).1]; exact Nat.le_refl 1
  · rw [hi.future e h1]; exact Nat.zero_le 1

/-- at most one caller at a time is the elected initialiser, and only while the state word says
    `initializing` -/
theorem C15_single_initialiser (ncpu : Int) (hc : 0 < ncpu) (s : St)
    (h : Reachable (step ncpu) init s) (t u : Tid)
    (ht : s.pc t = .i3 ∨ s.pc t = .i4) (hu : s.pc u = .i3 ∨ s.pc u = .i4) :
    t = u ∧ s.state = sInitializing :=
  let hi := inv_of_reachable ncpu hc s h
  ⟨hi.elUniq t u ht hu, hi.elSt t ht⟩

/-- a call of `myth_init` / `myth_init_ex` / an implicitly initialising API function returns
    only when the library is initialised: the step by which a caller returns leaves the state
    word at `initialized`, with the one initialisation of this epoch completed and the workers
    running -/
theorem C15_return_after_completion (ncpu : Int) (hc : 0 < ncpu) (s s' : St) (t : Tid)
    (h : Reachable (step ncpu) init s) (hp : s.pc t ≠ .idle)
    (hs : step ncpu s (.step t) = some s') (hr : s'.pc t = .idle) :
    s'.state = sInitialized ∧ s'.inits s'.epoch = 1 ∧
    (s'.fin ≠ .f4 → s'.workers = List.range s'.gattr.nWorkers.toNat) := by
  have hi' : Inv s' := inv_of_reachable ncpu hc s' (reachable_step _ _ _ _ _ h hs)
  have hst : s'.state = sInitialized := by
    simp only [step] at hs
    cases hpc : s.pc t with
    | idle => exact absurd hpc hp
    | e0 => simp only [hpc] at hs; split at hs <;> (simp at hs; subst hs) <;> simp_all [upd]
    | i0 => simp only [hpc] at hs; split at hs <;> (simp at hs; subst hs) <;> simp_all [upd]
    | i1 => simp only [hpc] at hs; split at hs <;> (simp at hs; subst hs) <;> simp_all [upd]
    | i2 => simp only [hpc] at hs; split at hs <;> (simp at hs; subst hs) <;> simp_all [upd]
    | i3 => simp only [hpc] at hs; simp at hs; subst hs; simp [upd] at hr
    | i4 => simp only [hpc] at hs; simp at hs; subst hs; rfl
  exact ⟨hst, (hi'.ined hst).1, fun hf => ((hi'.ined hst).2.2.1 hf).1⟩

/-- **worker count and ranks**: while the library is initialised (and the finaliser has not yet
    joined the workers) exactly `n = g_attr.n_workers > 0` workers run, their ranks are
    `0, 1, …, n-1` (pairwise distinct, all in `[0, n)`), and the main thread runs on one of them -/
theorem C15_workers_exact (ncpu : Int) (hc : 0 < ncpu) (s : St) (h : Reachable (step ncpu) init s)
    (hst : s.state = sInitialized) (hf : s.fin ≠ .f4) :
    0 < s.gattr.nWorkers ∧ s.workers = List.range s.gattr.nWorkers.toNat ∧
    s.workers.length = s.gattr.nWorkers.toNat ∧ s.workers.Nodup ∧
    (∀ r ∈ s.workers, r < s.gattr.nWorkers.toNat) ∧ s.mainOn ∈ s.workers := by
  have hi := inv_of_reachable ncpu hc s h
  obtain ⟨_, hpos, hw, _⟩ := hi.ined hst
  obtain ⟨hw1, hm⟩ := hw hf
  refine ⟨hpos, hw1, ?_, ?_, ?_, ?_⟩
  · rw [hw1]; simp
  · rw [hw1]; exact List.nodup_range
  · intro r hr; rw [hw1] at hr; simpa using hr
  · rw [hw1]; simpa using hm

/-- the configuration the elected initialiser installs: the attribute passed to `myth_init_ex`,
    else the global attribute if it was ever initialised (it persists across `myth_fini`), else
    the defaults read from the environment — so with `attr` the worker count is `attr`'s, and
    without one (and nothing set before) it is `MYTH_NUM_WORKERS` if positive, else the CPU count -/
theorem C15_installed_config (ncpu : Int) (s s' : St) (t : Tid) (hp : s.pc t = .i3)
    (hs : step ncpu s (.step t) = some s') :
    s'.gattr = resolve ncpu s (s.arg t) ∧ s'.workers = List.range s'.gattr.nWorkers.toNat ∧
    (∀ a, s.arg t = some a → s'.gattr.nWorkers = a.nWorkers) ∧
    (s.arg t = none → s.gattr.initialized = false →
      s'.gattr.nWorkers = (numWorkers s.environ.nw s.environ.oldNw ncpu).1 ∧
      s'.gattr.stacksize = stacksize s.environ.stk) := by
  simp only [step, hp] at hs
  simp at hs; subst hs
  refine ⟨rfl, rfl, ?_, ?_⟩
  · intro a ha; simp [resolve, ha]
  · intro ha hi; simp [resolve, ha, hi, gattrDefault]

/-- nothing changes the installed configuration or the set of workers while the library stays
    initialised, except the finaliser's joins -/
theorem C15_config_stable (ncpu : Int) (hc : 0 < ncpu) (s s' : St) (l : Label)
    (h : Reachable (step ncpu) init s) (hst : s.state = sInitialized)
    (hs : step ncpu s l = some s') :
    s'.gattr = s.gattr ∧ (s'.workers = s.workers ∨ (s.fin = .f3 ∧ s'.workers = [])) := by
  have d2 := st_ne2; have d3 := st_ne3
  cases l with
  | callInit t a => simp only [step] at hs; split at hs <;> simp at hs; subst hs; simp
  | callEnsure t => simp only [step] at hs; split at hs <;> simp at hs; subst hs; simp
  | step t =>
    simp only [step] at hs
    cases hpc : s.pc t with
    | idle => simp [hpc] at hs
    | e0 => simp only [hpc] at hs; split at hs <;> (simp at hs; subst hs; simp)
    | i0 => simp only [hpc] at hs; split at hs <;> (simp at hs; subst hs; simp)
    | i1 => simp only [hpc] at hs; split at hs <;> (simp at hs; subst hs; simp_all)
    | i2 => simp only [hpc] at hs; split at hs <;> (simp at hs; subst hs; simp)
    | i3 => exact absurd ((inv_of_reachable ncpu hc s h).elSt t (Or.inl hpc) ▸ hst) d3
    | i4 => simp only [hpc] at hs; simp at hs; subst hs; simp
  | callFini => simp only [step] at hs; split at hs <;> simp at hs; subst hs; simp
  | finStep =>
    simp only [step] at hs
    cases hf : s.fin with
    | idle => simp [hf] at hs
    | f0 => simp only [hf] at hs; split at hs <;> (simp at hs; subst hs; simp)
    | f1 => simp only [hf] at hs; split at hs <;> (simp at hs; subst hs; simp)
    | f2 => simp only [hf] at hs; simp at hs; subst hs; simp
    | f3 => simp only [hf] at hs; simp at hs; subst hs; simp
    | f4 => simp only [hf] at hs; simp at hs; subst hs; simp
  | setenv e => simp only [step] at hs; simp at hs; subst hs; simp
  | setGlobal n => simp only [step] at hs; split at hs <;> simp at hs; rename_i hc; exact absurd (hc.1.symm.trans hst) d2
  | migrate r => simp only [step] at hs; split at hs <;> simp at hs; subst hs; simp

/-- **after finalisation all workers have stopped**: once the finaliser has passed the joins, and
    whenever the state word says `uninit`, no worker runs; the joins are executed by the main
    thread back on worker 0 (the assertion `rank == 0` in `myth_fini_body` holds) even if it had
    migrated to another worker when `myth_fini` was called -/
theorem C15_fini_stops_workers (ncpu : Int) (hc : 0 < ncpu) (s : St) (h : Reachable (step ncpu) init s) :
    (s.state = sUninit → s.workers = []) ∧ (s.fin = .f4 → s.workers = []) ∧
    ((s.fin = .f3 ∨ s.fin = .f4) → s.mainOn = 0) := by
  have hi := inv_of_reachable ncpu hc s h
  exact ⟨fun h => (hi.unin h).2, fun hf => (hi.ined (hi.finSt (Or.inr (Or.inr hf)))).2.2.2 hf, hi.f3main⟩

/-- no call is in progress -/
def Quiescent (s : St) : Prop := (∀ t, s.pc t = .idle) ∧ s.fin = .idle

/-- `myth_init_ex(&a)` by a single caller on an uninitialised library -/
def initSeq (a : GAttr) : List Label := [.callInit 0 (some a), .step 0, .step 0, .step 0, .step 0]
/-- `myth_fini()` on an initialised library -/
def finiSeq : List Label := [.callFini, .finStep, .finStep, .finStep, .finStep, .finStep]

/-- a single caller's `myth_init_ex(&a)` on an uninitialised library runs to completion in five
    steps and installs `a` -/
theorem C15_sequential_init (ncpu : Int) (s : St) (a : GAttr) (ha : 0 < a.nWorkers) (hq : Quiescent s)
    (hst : s.state = sUninit) (h0 : s.inits s.epoch = 0) :
    ∃ s', runs (step ncpu) s (initSeq a) = some s' ∧ Quiescent s' ∧ s'.state = sInitialized ∧
      s'.gattr = a ∧ s'.workers = List.range a.nWorkers.toNat ∧ s'.inits s'.epoch = 1 ∧
      s'.epoch = s.epoch := by
  have hp0 := hq.1 0
  have d1 := st_ne1; have d2 := st_ne2
  have hne : ¬ s.state = sInitialized := by rw [hst]; exact d2
  refine ⟨{ s with state := sInitialized, gattr := a, workers := List.range a.nWorkers.toNat, mainOn := 0,
                     inits := upd s.inits s.epoch (s.inits s.epoch + 1),
                     pc := upd (upd (upd (upd (upd s.pc 0 .i0) 0 .i1) 0 .i3) 0 .i4) 0 .idle,
                     arg := upd s.arg 0 (some a) }, ?_, ?_⟩
  · simp [initSeq, runs, step, hp0, attrOk, ha, hst, resolve, d2]
  · refine ⟨⟨?_, hq.2⟩, rfl, rfl, rfl, ?_, rfl⟩
    · intro t; simp only [upd]; split <;> simp [hq.1 t]
    · simp [h0]

/-- `myth_fini()` on an initialised, quiescent library runs to completion, stops the workers and
    opens the next epoch; `g_attr` is kept -/
theorem C15_sequential_fini (ncpu : Int) (s : St) (hq : Quiescent s) (hst : s.state = sInitialized) :
    ∃ s', runs (step ncpu) s finiSeq = some s' ∧ Quiescent s' ∧ s'.state = sUninit ∧
      s'.workers = [] ∧ s'.epoch = s.epoch + 1 ∧ s'.inits = s.inits ∧ s'.gattr = s.gattr := by
  have d2 := st_ne2
  have hne : ¬ s.state = sUninit := by rw [hst]; exact fun h => d2 h.symm
  refine ⟨{ s with state := sUninit, workers := [], mainOn := 0, epoch := s.epoch + 1, fin := .idle }, ?_, ?_⟩
  · simp [finiSeq, runs, step, hq.2, hst, d2.symm]
  · exact ⟨⟨hq.1, rfl⟩, rfl, rfl, rfl, rfl, rfl⟩

/-- **a fresh initialisation with different settings works, after any history**: from every
    reachable state in which no call is in progress — whatever sequence of initialisations,
    finalisations, concurrent callers, environment changes and migrations led there — finalising
    (if initialised) and then calling `myth_init_ex(&a)` is possible and leaves the library
    initialised exactly once in the new epoch, with `a`'s settings and exactly `a.n_workers` workers -/
theorem C15_fini_reinit (ncpu : Int) (hc : 0 < ncpu) (s : St) (h : Reachable (step ncpu) init s)
    (hq : Quiescent s) (a : GAttr) (ha : 0 < a.nWorkers) :
    ∃ ls s', runs (step ncpu) s ls = some s' ∧ Quiescent s' ∧ s'.state = sInitialized ∧
      s'.gattr = a ∧ s'.workers = List.range a.nWorkers.toNat ∧ s'.inits s'.epoch = 1 ∧
      (s.state = sInitialized → s'.epoch = s.epoch + 1) := by
  have hi := inv_of_reachable ncpu hc s h
  rcases hi.st3 with h1 | h1 | h1
  · obtain ⟨s', hr, hq', h2, h3, h4, h5, _⟩ := C15_sequential_init ncpu s a ha hq h1 (hi.unin h1).1
    exact ⟨initSeq a, s', hr, hq', h2, h3, h4, h5, fun h => absurd (h1.symm.trans h) st_ne2⟩
  · obtain ⟨t, ht⟩ := hi.elEx h1
    rw [hq.1 t] at ht
    cases ht with
    | inl ht => cases ht
    | inr ht => cases ht
  · obtain ⟨s1, hr1, hq1, hs1, _, he1, hin1, _⟩ := C15_sequential_fini ncpu s hq h1
    have hfut : s1.inits s1.epoch = 0 := by rw [hin1, he1]; exact hi.future _ (Nat.lt_succ_self _)
    obtain ⟨s', hr, hq', h2, h3, h4, h5, h6⟩ := C15_sequential_init ncpu s1 a ha hq1 hs1 hfut
    refine ⟨finiSeq ++ initSeq a, s', ?_, hq', h2, h3, h4, h5, fun _ => by rw [h6, he1]⟩
    rw [runs_append, hr1]
    exact hr

/-! ## ranks used for stealing -/

/-- `myth_random(min, max)` stays in `[min, max)` -/
theorem C15_random_in_range (min max : Int) (raw : Nat) (hm : min < max) (hr : raw < 2 ^ 31) :
    min ≤ mythRandom min max raw ∧ mythRandom min max raw < max := by
  unfold mythRandom
  have hd : 0 < max - min := by omega
  have h1 : 0 ≤ (raw : Int) * (max - min) := Int.mul_nonneg (by omega) (by omega)
  have h2 : (raw : Int) * (max - min) < (max - min) * 2 ^ 31 := by
    rw [Int.mul_comm]
    exact Int.mul_lt_mul_of_pos_left (by omega) hd
  have h3 : (raw : Int) * (max - min) / 2 ^ 31 < max - min :=
    Int.ediv_lt_of_lt_mul (by decide) h2
  have h4 : 0 ≤ (raw : Int) * (max - min) / 2 ^ 31 := Int.ediv_nonneg h1 (by decide)
  omega

/-- the steal victim (`myth_env_get_first_busy`): with one worker there is none; with `n ≥ 2`
    workers it is a valid index into `g_envs`, and never the thief itself -/
theorem C15_victim_in_range (n rank : Int) (raw : Nat) (hr : raw < 2 ^ 31) :
    (n ≤ 1 → victim n rank raw = none) ∧
    (2 ≤ n → ∃ v, victim n rank raw = some v ∧ 0 ≤ v ∧ (0 ≤ rank → rank < n → v < n) ∧ v ≠ rank) := by
  constructor
  · intro h; simp [victim, h]
  · intro h
    have hn : ¬ n ≤ 1 := by omega
    obtain ⟨h1, h2⟩ := C15_random_in_range 0 (n - 1) raw (by omega) hr
    simp only [victim, hn, if_false]
    refine ⟨_, rfl, ?_, ?_, ?_⟩
    · split <;> omega
    · intro _ _; split <;> omega
    · split <;> omega

/-! ### non-vacuity -/

/-- the hypotheses of `C15_env_number_used` are satisfiable: `MYTH_NUM_WORKERS=64` -/
example : (numWorkers (some ['6', '4']) none 16).1 = 64 ∧ stacksize (some ['6', '5', '5', '3', '6']) = 65536 := by
  decide

/-- malformed values of every kind the property lists are ignored -/
example : (numWorkers (some []) none 16).1 = 16 ∧ (numWorkers (some ['a', 'b']) none 16).1 = 16 ∧
    (numWorkers (some ['-', '3']) none 16).1 = 16 ∧ (numWorkers (some ['0']) none 16).1 = 16 ∧
    stacksize (some [' ', '+', 'x']) = 131072 := by decide

/-- a well-formed list with all three forms: `0-3,8-16:4,5` -/
example : parseCpuList false (some (renderList (.span ['0'] ['3'])
      [.stride ['8'] ['1', '6'] ['4'], .single ['5']])) 1024 = .ret 6 [0, 1, 2, 8, 12, 5] none := by
  rw [C15_cpulist_wellformed]
  · decide
  · intro r hr
    simp at hr
    rcases hr with h | h | h <;> subst h <;>
      simp [RangeS.Valid, Tok, AllDigits, numVal, digitsVal, isDigit, digitVal]
  · decide

/-- a zero stride terminates through the bounded list (`0-3:0` with room for 8 entries) -/
example : parseCpuList false (some ['0', '-', '3', ':', '0']) 8 =
    .ret (-1) [0, 0, 0, 0, 0, 0, 0, 0] (some { kind := .tooMany, okPos := 0, pos := 5 }) := by
  simp [parseCpuList, parseRangeList, parseRange, parseInt, digitsLoop, parseTail, fill,
    cur, next, isDigit, digitVal, wrap32, nul]

/-- an initialised, quiescent state with 3 workers is reachable; `C15_workers_exact` and
    `C15_fini_reinit` apply to it -/
example : ∃ s, Reachable (step 16) init s ∧ s.state = sInitialized ∧ Quiescent s ∧
    s.workers = [0, 1, 2] := by
  obtain ⟨s', hr, hq, hs, _, hw, _⟩ := C15_sequential_init 16 init
    { gattrZero with nWorkers := 3, initialized := true } (by decide) ⟨fun _ => rfl, rfl⟩ rfl rfl
  exact ⟨s', ⟨_, hr⟩, hs, hq, by rw [hw]; decide⟩

/-- two concurrent callers: the second one loses the CAS and waits (a reachable state with a
    waiter and an elected initialiser) -/
example : ∃ s, Reachable (step 16) init s ∧ s.pc 0 = .i3 ∧ s.pc 1 = .i2 ∧ s.state = sInitializing := by
  refine ⟨_, ⟨[.callInit 0 none, .callInit 1 none, .step 0, .step 1, .step 0, .step 1], rfl⟩, ?_, ?_, ?_⟩ <;>
    decide

end MythVerif.C15

namespace MythVerif.WBarrier
open MythVerif

/-! ### the workers' start/stop barrier (`src/myth_internal_barrier.c`): why a fresh initialisation
    after a finalisation works, with the same or a different number of workers -/

/-- **re-initialisation forgets everything**: whatever the (static, reused) barrier object held —
    the phase and both counters left behind by the previous library lifetime, or garbage —
    `myth_internal_barrier_init(b, n)` leaves exactly a fresh barrier for `n` threads -/
theorem C15_worker_barrier_init_resets (garbage : Raw) (n : Nat) :
    barrierInit garbage n = { n := n, phase := 0, cur0 := 0, cur1 := 0 } := by
  cases garbage; rfl

/-- **nobody passes early, and the barrier is reusable round after round**: from a fresh barrier for
    the (duplicate-free, non-empty) worker list `parts`, in every reachable state, whenever a step
    lets worker `t` return from its `k`-th wait (as the last arriver or woken from the condition
    variable), exactly `n` arrivals were recorded for round `k`, by pairwise different workers, and
    every worker is among them -/
theorem C15_worker_barrier_no_early_pass (parts : List Tid) (hnd : parts.Nodup) (hne : parts ≠ [])
    (s s' : St) (l : Lbl) (t : Tid) (h : Reachable step (init parts) s) (hs : step s l = some s')
    (hret : s'.rnd t = s.rnd t + 1) :
    (s'.arrivedBy (s.rnd t)).length = s.n ∧ (s'.arrivedBy (s.rnd t)).Nodup ∧
    ∀ u, u ∈ s.parts → u ∈ s'.arrivedBy (s.rnd t) := by
  have hi := reachable_inv parts hnd hne s h
  have hi' := inv_step s s' l hi hs
  obtain ⟨hp, hn'⟩ := parts_const s s' l hs
  have hk : s.rnd t < s'.gen := by
    cases l with
    | arrive t' =>
      simp only [step] at hs
      split at hs
      · rename_i hc
        split at hs
        · simp only [Option.some.injEq] at hs; subst hs; simp at hret
        · simp only [Option.some.injEq] at hs; subst hs
          by_cases e : t = t'
          · subst e
            have := hi.idle t hc.2 hc.1
            simp only; omega
          · simp only [upd_other _ _ _ _ e] at hret; omega
      · simp at hs
    | wake t' =>
      simp only [step] at hs
      split at hs
      · rename_i ph' hpc
        split at hs
        · rename_i hcur
          simp only [Option.some.injEq] at hs; subst hs
          by_cases e : t = t'
          · subst e
            obtain ⟨_, hcase⟩ := hi.wcur t ph' hpc
            rcases hcase with ⟨a, _, _⟩ | ⟨_, b⟩
            · subst a; have := hi.lt; omega
            · simp only; omega
          · simp only [upd_other _ _ _ _ e] at hret; omega
        · simp at hs
      · simp at hs
  obtain ⟨h1, h2, h3⟩ := hi'.past (s.rnd t) hk
  refine ⟨by rw [h1, hn'], h2, ?_⟩
  intro u hu
  have hsub : ∀ x ∈ s'.arrivedBy (s.rnd t), x ∈ s'.parts := h3
  exact subset_of_nodup_of_length_le _ _ h2 hi'.nd hsub (by rw [h1, hi'.hn]; exact Nat.le_refl _) u (hp ▸ hu)

/-- the workers advance in lock step: nobody is ahead of the barrier's round, nobody more than one
    round behind (the sleepers of the round just completed) -/
theorem C15_worker_barrier_lockstep (parts : List Tid) (hnd : parts.Nodup) (hne : parts ≠ [])
    (s : St) (h : Reachable step (init parts) s) (t : Tid) (ht : t ∈ s.parts) :
    s.rnd t = s.gen ∨ s.rnd t + 1 = s.gen := by
  have hi := reachable_inv parts hnd hne s h
  cases hp : s.pc t with
  | idle => exact Or.inl (hi.idle t ht hp)
  | wait ph =>
    rcases (hi.wcur t ph hp).2 with ⟨_, b, _⟩ | ⟨_, b⟩
    · exact Or.inl b
    · exact Or.inr b

/-- **no hang**: in every reachable state some worker can move — one that has not arrived in the
    current round can arrive, or a sleeper of the completed round can return; in particular the
    state "everybody sleeps" (what a stale counter produces) is unreachable -/
theorem C15_worker_barrier_never_stuck (parts : List Tid) (hnd : parts.Nodup) (hne : parts ≠ [])
    (s : St) (h : Reachable step (init parts) s) :
    ∃ t, t ∈ s.parts ∧ ((step s (.arrive t)).isSome = true ∨ (step s (.wake t)).isSome = true) := by
  have hi := reachable_inv parts hnd hne s h
  have hex : ∃ u, u ∈ s.parts ∧ u ∉ s.arrivedBy s.gen := by
    apply Classical.byContradiction
    intro hno
    have hall : ∀ u ∈ s.parts, u ∈ s.arrivedBy s.gen := by
      intro u hu
      apply Classical.byContradiction
      intro hnu
      exact hno ⟨u, hu, hnu⟩
    have := length_le_of_nodup_subset _ _ hi.nd hall
    have h1 := hi.arrL; have h2 := hi.lt; have h3 := hi.hn
    omega
  obtain ⟨u, hu, hnu⟩ := hex
  refine ⟨u, hu, ?_⟩
  cases hp : s.pc u with
  | idle =>
    left
    simp only [step, hp, hu, and_self, if_true]
    split <;> rfl
  | wait ph =>
    right
    rcases (hi.wcur u ph hp).2 with ⟨_, _, c⟩ | ⟨a, b⟩
    · exact absurd c hnu
    · have hg : 0 < s.gen := by omega
      have := hi.prev hg
      simp [step, hp, a, this]

/-- non-vacuity: three workers, two full rounds (a start and a stop of the library); in round 0
    worker 3 arrives last and flips the phase while 1 and 2 sleep; worker 1 is back in round 1 before
    worker 2 has even woken up from round 0 -/
example :
    (runs step (init [1, 2, 3])
      [.arrive 1, .arrive 2, .arrive 3, .wake 1, .arrive 1, .wake 2, .arrive 3, .arrive 2, .wake 3]).map
      (fun s => (s.gen, s.phase, s.cur 0, s.cur 1)) = some (2, 0, 0, 3) ∧
    (runs step (init [1, 2, 3])
      [.arrive 1, .arrive 2, .arrive 3, .wake 1, .arrive 1, .wake 2, .arrive 3, .arrive 2, .wake 3]).map
      (fun s => (s.rnd 1, s.rnd 2, s.rnd 3, s.arrivedBy 0, s.arrivedBy 1)) = some (1, 2, 2, [1, 2, 3], [1, 3, 2]) := by
  decide

/-- what the pinned re-initialisation must not do: keep a counter of the previous lifetime
    (a barrier whose live counter starts at the old worker count never opens: everybody sleeps) -/
example : barrierInit { n := 4, phase := 1, cur0 := 4, cur1 := 0 } 4 = { n := 4, phase := 0, cur0 := 0, cur1 := 0 } := by decide

end MythVerif.WBarrier
