import MythVerif.Proofs.X86
/-!
# C03 — a thread's registers and stack survive every context switch and migration

All theorems are about the instruction lists of `Generated/CtxAsm.lean`, which
`translate/asm_extract.py` re-derives from the amd64 inline-asm branch of
`src/myth_context_func.h` on every run (templates `myth_swap_context_i`,
`myth_swap_context_withcall_i`, `myth_set_context_i`, `myth_set_context_withcall_i`; constants of
`myth_make_context_empty` / `myth_make_context_voidcall`), executed by the mini semantics of
`Model/X86.lean`.  They hold for EVERY machine state (all register values, all memory contents,
all context addresses), every SysV-conforming callback, and every combination
(suspended by swap | swap-with-callback) × (resumed by swap | swap-with-callback |
set_context | set_context-with-callback), which covers: switch into a fresh stack
(`myth_create_ex_body` child-first, `myth_startpoint_init_ex_body`), into a suspended thread
(yield, join, block on mutex / cond / barrier / felock / uncond, steal: the resumer is the
scheduler loop or another thread on ANY worker – nothing in the statements depends on which
worker executes the resuming half), into the scheduler, and the final jump away from a
finished thread (`myth_entry_point_cleanup`).

"Any intervening execution" is an arbitrary machine state `m2` (the resumer's state just before
its switch half) constrained only by: the saved frame `[saved_rsp, old rsp)` and the memory
the thread owns hold what they held after the save half.  That other threads do not write into
a suspended thread's stack is thereby a hypothesis (C cannot promise it); what is PROVED is that
the switch code itself, including the callback it runs on the target stack, does not.

Assumed, not proved (trusted base of this property):
* GCC honours the constraint lists (operands in the pinned registers; nothing but the declared
  outputs / clobbers is assumed dead; the "memory" clobber is a compiler barrier) – tied by the
  translator's objdump self-check on an instantiation at -O0 and -O2, and by the probe
  `harness/ctx_probe.c` on the whole library;
* vector / x87 data registers are caller-saved under SysV, so the user's compiler has spilled
  them before any library call; mxcsr / x87 control words are shared by all threads of a worker
  (`MYTH_SAVE_FPCSR` is 0) – outside the property as stated;
* `rsp ≡ 0 (mod 16)` at the asm statement (a property of the compiled caller, sampled by the
  probe in every callback and after every resumption): `C03_call_alignment` is conditional on it;
* the mini semantics: unbounded integers for addresses (no wrap-around), 8-byte accesses that
  coincide or are disjoint, red zone = 128 bytes below rsp.
-/
namespace MythVerif.X86
open MythVerif.Gen.Ctx

/-- **Registers and stack survive a switch.**  A thread in state `m` executes the save half of
    either swap template (`S`); later a resumer in an ARBITRARY state `m2` executes the switch half
    of any of the four templates (`K`) with its target context word holding the saved rsp `T`,
    possibly running a SysV callback on the stack `[lo, T)` with side effects `W`; if the saved
    frame `[T, old rsp)` and the owned memory still hold what the save half left there, then
    the jump lands on the resume label and after the restore half rsp, rbp, rbx, r12–r15 equal
    the originals, the red zone `[old rsp − 128, old rsp)` and all owned memory at and above
    `old rsp − 128` are as the thread left them. -/
theorem C03_swap_restores (S : Suspend) (hS : S ∈ suspendKinds) (K : Resume) (hK : K ∈ resumeKinds)
    (env : Env) (m m2 : M) (own W : Int → Prop) (lo : Int)
    (hsys : ObeysSysV env.callee lo W)
    (hctx : m.reg S.ctx + 8 ≤ m.reg .rsp - frameBytes S.save ∨ m.reg .rsp ≤ m.reg S.ctx)
    (hto : m2.mem (m2.reg K.to) = (exec env m S.save).reg .rsp)
    (hframe : ∀ a, (exec env m S.save).reg .rsp ≤ a → a < m.reg .rsp →
        m2.mem a = (exec env m S.save).mem a)
    (hown : ∀ a, own a → m2.mem a = (exec env m S.save).mem a)
    (hlo : lo + 8 ≤ (exec env m S.save).reg .rsp)
    (hW : ∀ a, W a → ¬ ((exec env m S.save).reg .rsp ≤ a ∧ a < m.reg .rsp) ∧ ¬ own a)
    (hcb : ∀ a, own a → ¬ (lo ≤ a ∧ a < (exec env m S.save).reg .rsp)) :
    let m2' := exec env m2 K.switch
    let m3 := exec env m2' S.restore
    m2'.pc = env.label S.label ∧
    m3.reg .rsp = m.reg .rsp ∧ (∀ r ∈ calleeSaved, m3.reg r = m.reg r) ∧
    (∀ a, m.reg .rsp - 128 ≤ a → a < m.reg .rsp → m3.mem a = m.mem a) ∧
    (∀ a, own a → m.reg .rsp - 128 ≤ a → a ≠ m.reg S.ctx → m3.mem a = m.mem a) := by
  intro m2' m3
  have sv := save_effect S hS env m
  have hF := sv.frame
  rw [hF] at hctx
  obtain ⟨hl, h15, h14, h13, h12, hbx, hbp⟩ := sv.saved hctx
  have hT := sv.rsp
  rw [hT] at hto hframe hlo hW hcb
  have sw := switch_effect K hK env m2 lo W hsys
  simp only [hto] at sw
  obtain ⟨srsp, spc, smem⟩ := sw hlo
  -- the switch half (and its callback) leaves the frame and the owned memory alone
  have keepF : ∀ a, m.reg .rsp - 192 ≤ a → a < m.reg .rsp → m2'.mem a = (exec env m S.save).mem a := by
    intro a h1 h2
    rw [← hframe a h1 h2]
    apply Classical.byContradiction
    intro hne
    rcases smem a hne with h | h
    · omega
    · exact (hW a h).1 ⟨h1, h2⟩
  have keepO : ∀ a, own a → m2'.mem a = (exec env m S.save).mem a := by
    intro a ho
    rw [← hown a ho]
    apply Classical.byContradiction
    intro hne
    rcases smem a hne with h | h
    · exact hcb a ho h
    · exact (hW a h).2 ho
  have rs := restore_effect S hS env m2'
  have e8 : m2'.reg .rsp = m.reg .rsp - 192 + 8 := srsp
  refine ⟨?_, ?_, ?_, ?_, ?_⟩
  · show m2'.pc = _
    rw [spc, keepF _ (by omega) (by omega), hl]
  · show m3.reg .rsp = _
    rw [rs.rsp, e8]; omega
  · intro r hr
    simp only [calleeSaved, List.mem_cons, List.not_mem_nil, or_false] at hr
    rcases hr with rfl | rfl | rfl | rfl | rfl | rfl
    · show m3.reg .rbx = _
      rw [rs.rbx, e8, keepF _ (by omega) (by omega), ← hbx]; congr 1; omega
    · show m3.reg .rbp = _
      rw [rs.rbp, e8, keepF _ (by omega) (by omega), ← hbp]; congr 1; omega
    · show m3.reg .r12 = _
      rw [rs.r12, e8, keepF _ (by omega) (by omega), ← h12]; congr 1; omega
    · show m3.reg .r13 = _
      rw [rs.r13, e8, keepF _ (by omega) (by omega), ← h13]; congr 1; omega
    · show m3.reg .r14 = _
      rw [rs.r14, e8, keepF _ (by omega) (by omega), ← h14]; congr 1; omega
    · show m3.reg .r15 = _
      rw [rs.r15, e8, keepF _ (by omega) (by omega), ← h15]; congr 1; omega
  · intro a h1 h2
    show m3.mem a = _
    rw [rs.mem, keepF a (by omega) h2]
    exact sv.mem a (by omega) (Or.inr h1)
  · intro a ho h1 h2
    show m3.mem a = _
    rw [rs.mem, keepO a ho]
    exact sv.mem a h2 (Or.inr h1)

/-- **The context is saved before the callback can publish the thread.**  In the
    swap-with-callback template the state at the `call` instruction already has the context word
    set to the saved rsp and the resume label and all six callee-saved registers in the frame;
    the save half itself contains no call. -/
theorem C03_save_before_callback (env : Env) (m : M)
    (hctx : m.reg swapWcFrom + 8 ≤ m.reg .rsp - frameBytes swapWcSave ∨ m.reg .rsp ≤ m.reg swapWcFrom) :
    let mC := exec env m (swapWcSave ++ beforeCall swapWcSwitch)
    let T := m.reg .rsp - frameBytes swapWcSave
    Instr.call ∉ swapWcSave ∧ (∀ r, Instr.callReg r ∉ swapWcSave) ∧
    exec env m (swapWcSave ++ swapWcSwitch) = exec env (exec1 env mC .call) (afterCall swapWcSwitch) ∧
    mC.mem (m.reg swapWcFrom) = T ∧
    mC.mem T = env.label swapWcLabel ∧
    mC.mem (T + 16) = m.reg .r15 ∧ mC.mem (T + 24) = m.reg .r14 ∧ mC.mem (T + 32) = m.reg .r13 ∧
    mC.mem (T + 40) = m.reg .r12 ∧ mC.mem (T + 48) = m.reg .rbx ∧ mC.mem (T + 56) = m.reg .rbp := by
  intro mC T
  have sv := save_effect ⟨swapWcSave, swapWcRestore, swapWcLabel, swapWcFrom⟩ (by simp [suspendKinds]) env m
  have hF : frameBytes swapWcSave = 192 := sv.frame
  have hbc : beforeCall swapWcSwitch = [.loadRsp swapWcTo] := by
    simp [beforeCall, swapWcSwitch, swapWcTo, List.takeWhile]
  have hac : exec env m (swapWcSave ++ swapWcSwitch) = exec env (exec1 env mC .call) (afterCall swapWcSwitch) := by
    simp [mC, exec, beforeCall, afterCall, swapWcSwitch, List.takeWhile, List.dropWhile]
  have hmem : mC.mem = (exec env m swapWcSave).mem := by
    simp [mC, exec_append, hbc, exec, exec1]
  rw [hF] at hctx
  obtain ⟨hl, h15, h14, h13, h12, hbx, hbp⟩ := sv.saved hctx
  simp only [T, hF, hmem]
  refine ⟨by simp [swapWcSave], by simp [swapWcSave], hac, sv.ctx, hl, ?_, ?_, ?_, ?_, ?_, ?_⟩
  · rw [← h15]; congr 1; omega
  · rw [← h14]; congr 1; omega
  · rw [← h13]; congr 1; omega
  · rw [← h12]; congr 1; omega
  · rw [← hbx]; congr 1; omega
  · rw [← hbp]; congr 1; omega

/-- **The callback runs on the TARGET stack.**  For both with-callback templates: the callee is
    entered with `rsp = T − 8` where `T` is the word read from the target context (not the
    current thread's stack), its arguments still in rdi/rsi/rdx, the only memory written on the
    way being the return address at `T − 8`; the whole switch half changes memory only in the
    callee's own frame `[lo, T)` – strictly below the target rsp – and in the locations `W` the
    callback was given; afterwards rsp is `T + 8` and control is at the address stored at `T`. -/
theorem C03_callback_on_target_stack (K : Resume) (hK : K ∈ callbackKinds) (env : Env) (m : M)
    (lo : Int) (W : Int → Prop) (hsys : ObeysSysV env.callee lo W) :
    let T := m.mem (m.reg K.to)
    let E := callEntry env (exec env m (beforeCall K.switch))
    let s := exec env m K.switch
    s = exec env (env.callee E) (afterCall K.switch) ∧
    E.reg .rsp = T - 8 ∧
    (∀ r, r ≠ .rsp → E.reg r = m.reg r) ∧
    (∀ a, a ≠ T - 8 → E.mem a = m.mem a) ∧
    (lo + 8 ≤ T → s.reg .rsp = T + 8 ∧ s.pc = s.mem T ∧
      ∀ a, s.mem a ≠ m.mem a → (lo ≤ a ∧ a < T) ∨ W a) := by
  intro T E s
  have hK' : K ∈ resumeKinds := by
    simp only [callbackKinds, List.mem_cons, List.not_mem_nil, or_false] at hK
    rcases hK with rfl | rfl <;> simp [resumeKinds]
  refine ⟨?_, ?_, ?_, ?_, switch_effect K hK' env m lo W hsys⟩
  all_goals
    simp only [callbackKinds, List.mem_cons, List.not_mem_nil, or_false] at hK
    rcases hK with rfl | rfl <;>
      simp [s, E, T, exec, exec1, beforeCall, afterCall, swapWcSwitch, swapWcTo, setWcSwitch, setWcTo,
        List.takeWhile, List.dropWhile, callEntry]
  all_goals first
    | (intro r hr; simp [hr])
    | (intro a ha; simp [ha])

/-- the callback's three arguments are passed in the SysV argument registers -/
theorem C03_callback_args :
    swapWcArg1 = .rdi ∧ swapWcArg2 = .rsi ∧ swapWcArg3 = .rdx ∧
    setWcArg1 = .rdi ∧ setWcArg2 = .rsi ∧ setWcArg3 = .rdx := by decide

/-- **Frame size keeps the alignment**: the save halves take a multiple of 16 bytes, so a thread
    suspended with `rsp ≡ 0 (mod 16)` has a saved context `≡ 0 (mod 16)`. -/
theorem C03_frame_size_aligned (S : Suspend) (hS : S ∈ suspendKinds) (env : Env) (m : M) :
    frameBytes S.save % 16 = 0 ∧
    (exec env m S.save).reg .rsp = m.reg .rsp - frameBytes S.save ∧
    (m.reg .rsp % 16 = 0 → (exec env m S.save).reg .rsp % 16 = 0) := by
  have sv := save_effect S hS env m
  rw [sv.frame, sv.rsp]
  omega

/-- **ABI alignment at the callback.**  If the target context is 16-aligned (a saved context by
    `C03_frame_size_aligned`, a fresh one by `C03_empty_aligned` / `C03_voidcall_entry_aligned`)
    the callee is entered with `rsp + 8 ≡ 0 (mod 16)`, exactly as after a `call` from an aligned
    frame; and after the switch half rsp is `T + 8`, i.e. the function whose address is stored
    at `T` is entered with the same ABI alignment. -/
theorem C03_call_alignment (K : Resume) (hK : K ∈ resumeKinds) (env : Env) (m : M)
    (lo : Int) (W : Int → Prop) (hsys : ObeysSysV env.callee lo W)
    (hal : m.mem (m.reg K.to) % 16 = 0) (hlo : lo + 8 ≤ m.mem (m.reg K.to)) :
    (K ∈ callbackKinds →
      ((callEntry env (exec env m (beforeCall K.switch))).reg .rsp + 8) % 16 = 0) ∧
    ((exec env m K.switch).reg .rsp + 8) % 16 = 0 := by
  constructor
  · intro hc
    have h := (C03_callback_on_target_stack K hc env m lo W hsys).2.1
    rw [h]; omega
  · have h := (switch_effect K hK env m lo W hsys hlo).1
    rw [h]; omega

/-- the Lean rendering of the two `myth_make_context_*` functions agrees with what the real
    functions computed for 64 consecutive stack addresses (samples taken by the translator) -/
theorem C03_make_context_samples :
    emptySamples.all (fun p => mkCtxRsp emptySub emptyAlign p.1 == p.2) = true ∧
    voidSamples.all (fun p => mkCtxRsp voidSub voidAlign p.1 == p.2) = true ∧
    emptySamples.length = 64 ∧ voidSamples.length = 64 := by decide

/-- `myth_make_context_empty`: the fresh context is 16-aligned and not above the stack top, so the
    callback of the child-first path is entered with the ABI alignment (`C03_call_alignment`) and
    everything it pushes is inside the new stack. -/
theorem C03_empty_aligned (stack : Nat) :
    mkCtxRsp emptySub emptyAlign stack % 16 = 0 ∧ mkCtxRsp emptySub emptyAlign stack ≤ stack ∧
    stack < mkCtxRsp emptySub emptyAlign stack + 16 := by
  simp only [mkCtxRsp, emptySub, emptyAlign]
  omega

/-- `myth_make_context_voidcall`: the context is 16-aligned, the entry address is the word at the
    context rsp (the one `pop %rax; jmp *%rax` consumes), that word lies inside the stack, and
    the entry function therefore starts with `rsp = ctx + 8 ≡ 8 (mod 16)` as after a `call`. -/
theorem C03_voidcall_entry_aligned (stack : Nat) (h : 8 ≤ stack) :
    let T := mkCtxRsp voidSub voidAlign stack
    T % 16 = 0 ∧ voidEntryOff = 0 ∧ T + 8 ≤ stack ∧ (T + 8 + 8) % 16 = 0 := by
  intro T
  refine ⟨?_, rfl, ?_, ?_⟩ <;> (simp only [T, mkCtxRsp, voidSub, voidAlign]; omega)

/-- **Final jump away from a finished thread (`myth_set_context_i`).**  The new rsp and the jump
    target are read from the target context only, no memory is written, no register other than
    rsp / rax changes; so two finished threads that differ arbitrarily in their registers but see
    the same memory and pass the same context hand over identical (rsp, pc, memory): nothing of
    the finished thread's register state or stack is used. -/
theorem C03_set_context_jump (env : Env) (m : M) :
    let T := m.mem (m.reg setTo)
    let s := exec env m setSwitch
    s.reg .rsp = T + 8 ∧ s.pc = m.mem T ∧ s.mem = m.mem ∧
    (∀ r, r ≠ .rsp → r ≠ .rax → s.reg r = m.reg r) ∧
    (∀ m' : M, m'.mem = m.mem → m'.reg setTo = m.reg setTo →
      (exec env m' setSwitch).reg .rsp = s.reg .rsp ∧ (exec env m' setSwitch).pc = s.pc ∧
      (exec env m' setSwitch).mem = s.mem) := by
  simp [exec, exec1, setSwitch, setTo]
  refine ⟨?_, ?_⟩
  · intro r h1 h2; simp [h1, h2]
  · intro m' h1 h2; simp [h1, h2]

/-- **Final jump with callback (`myth_set_context_withcall_i`, used by
    `myth_entry_point_cleanup` to free the finished thread's stack).**  The callback is entered on
    the TARGET stack (`rsp = T − 8`), so it may release the finished thread's stack; whatever the
    finished thread's registers were, afterwards rsp is `T + 8`, control is at the address stored
    at `T`, and memory changed only in the callee's frame below `T` and in `W`. -/
theorem C03_set_context_withcall (env : Env) (m : M) (lo : Int) (W : Int → Prop)
    (hsys : ObeysSysV env.callee lo W) (hlo : lo + 8 ≤ m.mem (m.reg setWcTo)) :
    let T := m.mem (m.reg setWcTo)
    let s := exec env m setWcSwitch
    (callEntry env (exec env m (beforeCall setWcSwitch))).reg .rsp = T - 8 ∧
    s.reg .rsp = T + 8 ∧ s.pc = s.mem T ∧
    (∀ a, s.mem a ≠ m.mem a → (lo ≤ a ∧ a < T) ∨ W a) ∧
    (¬ W T → s.pc = m.mem T) := by
  intro T s
  have h := C03_callback_on_target_stack ⟨setWcSwitch, setWcTo⟩ (by simp [callbackKinds]) env m lo W hsys
  obtain ⟨_, h2, _, _, h5⟩ := h
  obtain ⟨a1, a2, a3⟩ := h5 hlo
  refine ⟨h2, a1, a2, a3, ?_⟩
  intro hw
  show s.pc = _
  rw [a2]
  apply Classical.byContradiction
  intro hne
  rcases a3 T hne with h | h
  · exact absurd h.2 (by simp [T])
  · exact hw h

/-- **The compiler is told everything.**  When a swap statement "returns" the thread has been
    through arbitrary other code, so every GPR except rsp must be saved and restored by the
    template or declared dead: each one is pushed by the save half and popped by the restore
    half, or a (dummy, early-clobber) output, or a clobber; the restore half pops exactly what
    the save half pushed (minus the label slot) in reverse order; inputs are tied to the dummy
    outputs; "memory" and "cc" are clobbered.  Same for the no-return variants as far as it
    matters there (inputs tied, registers written are declared). -/
theorem C03_clobbers_cover :
    (∀ r ∈ gprs, r ≠ .rsp →
      (r ∈ pushed swapSave ∧ r ∈ popped swapRestore) ∨ r ∈ swapOutputs ∨ r ∈ swapClobbers) ∧
    (∀ r ∈ gprs, r ≠ .rsp →
      (r ∈ pushed swapWcSave ∧ r ∈ popped swapWcRestore) ∨ r ∈ swapWcOutputs ∨ r ∈ swapWcClobbers) ∧
    (∀ r ∈ callerSaved, r ∈ swapOutputs ∨ r ∈ swapClobbers) ∧
    (∀ r ∈ callerSaved, r ∈ swapWcOutputs ∨ r ∈ swapWcClobbers) ∧
    (∀ r ∈ calleeSaved, r ∈ pushed swapSave ∧ r ∈ pushed swapWcSave) ∧
    popped swapRestore = ((pushed swapSave).dropLast).reverse ∧
    popped swapWcRestore = ((pushed swapWcSave).dropLast).reverse ∧
    (∀ r ∈ swapInputs, r ∈ swapOutputs) ∧ (∀ r ∈ swapWcInputs, r ∈ swapWcOutputs) ∧
    (∀ r ∈ setInputs, r ∈ setOutputs) ∧ (∀ r ∈ setWcInputs, r ∈ setWcOutputs) ∧
    (∀ r ∈ written setSwitch, r ∈ setOutputs) ∧ (∀ r ∈ written setWcSwitch, r ∈ setWcOutputs) ∧
    (∀ r ∈ written (swapSave ++ swapSwitch), r ∈ swapOutputs ∨ r ∈ pushed swapSave) ∧
    (∀ r ∈ written (swapWcSave ++ swapWcSwitch), r ∈ swapWcOutputs ∨ r ∈ pushed swapWcSave) ∧
    swapOutputsEarlyClobber = true ∧ swapWcOutputsEarlyClobber = true ∧
    setOutputsEarlyClobber = true ∧ setWcOutputsEarlyClobber = true ∧
    swapClobbersMemory = true ∧ swapWcClobbersMemory = true ∧
    setClobbersMemory = true ∧ setWcClobbersMemory = true ∧
    swapClobbersCC = true ∧ swapWcClobbersCC = true := by
  refine ⟨by decide, by decide, by decide, by decide, by decide, by decide, by decide, by decide,
    by decide, by decide, by decide, by decide, by decide, by decide, by decide, by decide,
    by decide, by decide, by decide, by decide, by decide, by decide, by decide, by decide, by decide⟩

/-! ## Non-vacuity -/

/-- the hypotheses of `C03_swap_restores` are satisfiable for EVERY initial state of the suspended
    thread with a sane stack pointer and context address, every pair (S, K), by a resumer whose
    registers are all different garbage: so the theorem really restores seven registers that
    were destroyed in between. -/
example (S : Suspend) (hS : S ∈ suspendKinds) (K : Resume) (hK : K ∈ resumeKinds) (m : M)
    (hrsp : 2000 ≤ m.reg .rsp) (hctx : m.reg .rsp + 100 ≤ m.reg S.ctx) :
    let m1 := exec exEnv m S.save
    let m2 : M := { reg := fun r => if r = K.to then m.reg S.ctx else 12345, mem := m1.mem, pc := 0 }
    let m3 := exec exEnv (exec exEnv m2 K.switch) S.restore
    m2.reg .rbx = 12345 ∧ m3.reg .rsp = m.reg .rsp ∧ ∀ r ∈ calleeSaved, m3.reg r = m.reg r := by
  intro m1 m2 m3
  have sv := save_effect S hS exEnv m
  have hKto : K.to ≠ .rbx := by
    simp only [resumeKinds, List.mem_cons, List.not_mem_nil, or_false] at hK
    rcases hK with rfl | rfl | rfl | rfl <;> simp [swapTo, swapWcTo, setTo, setWcTo]
  have h := C03_swap_restores S hS K hK exEnv m m2 (fun a => m.reg .rsp ≤ a) (fun _ => False) 0
    exCallee_sysv (by rw [sv.frame]; omega)
    (by simp only [m2, if_pos]; rw [sv.ctx, sv.rsp])
    (by intro a _ _; rfl) (by intro a _; rfl) (by rw [sv.rsp]; omega)
    (by intro a h; exact h.elim) (by intro a h; rw [sv.rsp]; omega)
  refine ⟨?_, h.2.1, h.2.2.1⟩
  simp [m2, Ne.symm hKto]

/-- concrete run: plain swap, registers 1..6, rsp 10000, context word at 20000; the saved frame -/
example :
    let m : M := { reg := fun r => match r with
        | .rsp => 10000 | .rbp => 1 | .rbx => 2 | .r12 => 3 | .r13 => 4 | .r14 => 5 | .r15 => 6
        | .rax => 20000 | .rdx => 20008 | _ => 0, mem := fun _ => 0, pc := 0 }
    let s := exec exEnv m swapSave
    s.reg .rsp = 9808 ∧ s.mem 20000 = 9808 ∧ s.mem 9808 = 4000001 ∧ s.mem 9824 = 6 ∧ s.mem 9864 = 1 := by
  decide

/-- concrete run of the final jump with callback: `exCallee` really writes into its frame below the
    target rsp (49984, 49928) and destroys rax / rcx, the return address lands at `T − 8`, nothing
    is written on the finished thread's stack (rsp 10000), control arrives at the saved label -/
example :
    let m : M := {
      reg := (fun r => match r with
        | .rsp => 10000 | .rax => 20000 | .rdi => 11 | .rsi => 22 | .rdx => 33 | _ => 0),
      mem := (fun a => if a = 20000 then 50000 else if a = 50000 then 4000001 else 0),
      pc := 0 }
    let s := exec exEnv m setWcSwitch
    s.reg .rsp = 50008 ∧ s.pc = 4000001 ∧ s.mem 49992 = 4100000 ∧ s.mem 49984 = 777 ∧
    s.mem 49928 = 888 ∧ s.mem 10000 = 0 ∧ s.mem 9992 = 0 ∧ ObeysSysV exEnv.callee 0 (fun _ => False) := by
  refine ⟨by decide, by decide, by decide, by decide, by decide, by decide, by decide, exCallee_sysv⟩

/-- the alignment hypotheses are satisfiable: a 16-aligned saved context (10000 − 192 = 9808)
    and both kinds of fresh context for a typical stack top -/
example : (10000 - frameBytes swapWcSave) % 16 = 0 ∧ mkCtxRsp emptySub emptyAlign 70000 = 70000 ∧
    mkCtxRsp voidSub voidAlign 70000 = 69984 := by decide

end MythVerif.X86
