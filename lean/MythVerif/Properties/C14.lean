import MythVerif.Proofs.Once
/-!
# C14 — myth_once runs the initialiser exactly once and everyone waits for it

Model `MythVerif.Once`: `myth_once_body` (and `pthread_once`, which forwards to it) on one
once-control, one label per shared access, **any number of callers** (`Tid := Nat`), any
interleaving (`Reachable` / `runs` = any finite label sequence from the zero-initialised
control).  The init routine is an arbitrary finite number of `routineStep` labels of the winner
between which every other caller may do anything: that is a routine that yields, blocks or creates
threads as seen from the once-control.  Theorems are stated both on reachable states (ghost
counters) and on the executed label sequences themselves (no ghosts).
-/
namespace MythVerif.Once
open MythVerif

/-- `init = 0`: a zero-initialised word (`PTHREAD_ONCE_INIT`, static storage) is a fresh
    once-control, which is what the model starts from -/
theorem C14_zero_is_init : Gen.onceInit = 0 ∧ init.state = Gen.onceInit ∧
    Gen.onceInit ≠ Gen.onceInProgress ∧ Gen.onceInit ≠ Gen.onceCompleted ∧
    Gen.onceInProgress ≠ Gen.onceCompleted := by decide

/-- **runs once (states)**: the routine is started at most once; as soon as any call has returned it
    has been started exactly once and has finished; at most one caller is ever inside it, and that
    caller is the recorded runner -/
theorem C14_runs_once (s : St) (h : Reachable step init s) :
    s.execs ≤ 1 ∧ (s.returns > 0 → s.execs = 1 ∧ s.routineDone = true) ∧
    (∀ t1 t2, inRoutine (s.pc t1) = true → inRoutine (s.pc t2) = true → t1 = t2) ∧
    (∀ t, inRoutine (s.pc t) = true → s.runner = some t ∧ s.execs = 1) := by
  have hi := reachable_inv s h
  have hne1 := ne_ip
  have hne2 := ne_id
  refine ⟨hi.ex1, ?_, ?_, ?_⟩
  · intro hr
    have hd := hi.ret hr
    have he : s.execs = 1 := by
      have : s.execs ≠ 0 := fun e => by have := hi.ex0.mpr e; simp_all
      have := hi.ex1; omega
    refine ⟨he, ?_⟩
    cases hrun : s.runner with
    | none => have := hi.run0.mpr hrun; omega
    | some w => exact (hi.rdn w hrun).mpr (Or.inl hd)
  · intro t1 t2 h1 h2
    have a := ((hi.own t1).mp h1).1
    have b := ((hi.own t2).mp h2).1
    rw [a] at b; exact Option.some.inj b
  · intro t ht
    have a := (hi.own t).mp ht
    refine ⟨a.1, ?_⟩
    have : s.execs ≠ 0 := fun e => by have := hi.run0.mp e; simp_all
    have := hi.ex1; omega

/-- **runs once (label sequences)**: in every executable label sequence, whatever the number of
    callers, at most one CAS `init → in_progress` succeeds (= the routine is called at most once),
    and if any call has returned then exactly one did -/
theorem C14_runs_once_trace (ls : List Lbl) (s : St) (h : runs step init ls = some s) :
    ls.countP isWin ≤ 1 ∧ (ls.any isRet = true → ls.countP isWin = 1) := by
  have ht := trinv ls s h
  have hr := C14_runs_once s ⟨ls, h⟩
  refine ⟨by rw [← ht.execs]; exact hr.1, ?_⟩
  intro ha
  rw [← ht.execs]
  apply (hr.2.1 _).1
  rw [ht.rets]
  exact List.countP_pos_iff.mpr (by simpa using ha)

/-- the routine is started only by a successful CAS out of `init`, which happens only when it was
    never started before; no other step changes the execution counter -/
theorem C14_only_cas_starts (s s' : St) (l : Lbl) (h : Reachable step init s)
    (hs : step s l = some s') :
    (isWin l = true → s.execs = 0 ∧ s'.execs = 1 ∧ s'.runner = some l.actor ∧ s'.pc l.actor = .run) ∧
    (isWin l = false → s'.execs = s.execs ∧ s'.runner = s.runner) := by
  have hi := reachable_inv s h
  cases l <;> simp only [step] at hs <;> (first | (split at hs) | skip) <;>
    (first | (split at hs) | skip) <;> (try simp at hs) <;> (try subst hs) <;>
    simp_all [isWin, Lbl.actor]
  exact hi.ex0.mp (by simp_all)

/-- **return after completion (states)**: whenever a step makes a caller return from `myth_once`
    — the winner after storing `completed`, or a waiter that read `completed` — the init routine has
    been started exactly once and had already finished before that step -/
theorem C14_return_after_completion (s s' : St) (l : Lbl) (h : Reachable step init s)
    (hs : step s l = some s') (hr : isReturn s s') :
    s.routineDone = true ∧ s.execs = 1 ∧ s'.state = sDone := by
  have hi := reachable_inv s h
  have hne1 := ne_ip
  have hne2 := ne_id
  have hne3 := ne_pd
  have key : ∀ w, s.runner = some w → (s.state = sDone ∨ s.pc w = .fin) →
      s.routineDone = true ∧ s.execs = 1 := by
    intro w hw hc
    refine ⟨(hi.rdn w hw).mpr hc, ?_⟩
    have : s.execs ≠ 0 := fun e => by have := hi.run0.mp e; simp_all
    have := hi.ex1; omega
  unfold isReturn at hr
  cases l <;> simp only [step] at hs <;> (first | (split at hs) | skip) <;>
    (first | (split at hs) | skip) <;> (try simp at hs) <;> (try subst hs) <;>
    (try (simp at hr; done))
  · -- storeDone by the winner
    rename_i t hpc
    have hw := ((hi.own t).mp (by simp [hpc, inRoutine])).1
    have := key t hw (Or.inr hpc)
    exact ⟨this.1, this.2, rfl⟩
  · -- a waiter read `completed`
    rename_i t v hc hv
    have hsd : s.state = sDone := by rw [← hc.1]; exact hv
    cases hrun : s.runner with
    | none =>
      have := hi.run0.mpr hrun
      have := hi.ex0.mpr this
      simp_all
    | some w =>
      have := key w hrun (Or.inl hsd)
      exact ⟨this.1, this.2, hsd⟩

/-- **return after completion (label sequences)**: in every executable label sequence, a label
    that makes a caller return is preceded by the label on which the init routine returned, and by
    exactly one start of the routine -/
theorem C14_return_after_completion_trace (ls : List Lbl) (l : Lbl) (s' : St)
    (h : runs step init (ls ++ [l]) = some s') (hr : isRet l = true) :
    ls.any isEnd = true ∧ ls.countP isWin = 1 := by
  rw [runs_append] at h
  cases hm : runs step init ls with
  | none => simp [hm] at h
  | some s =>
    simp only [hm, Option.bind, runs] at h
    split at h
    · rename_i s1 hs
      have ht := trinv ls s hm
      have hret : isReturn s s1 := by
        have ht' := trinv_step ls s l s1 ht hs
        unfold isReturn
        rw [ht'.rets, ht.rets, List.countP_append]
        simp [hr]
      have := C14_return_after_completion s s1 l ⟨ls, hm⟩ hs hret
      exact ⟨by rw [← ht.done]; exact this.1, by rw [← ht.execs]; exact this.2.1⟩
    · simp at h

/-- `completed` is final: once stored, no step of anybody changes the word, the execution
    counter or the runner -/
theorem C14_completed_is_stable (s s' : St) (l : Lbl) (h : Reachable step init s)
    (hd : s.state = sDone) (hs : step s l = some s') :
    s'.state = sDone ∧ s'.execs = s.execs ∧ s'.runner = s.runner ∧ s'.routineDone = s.routineDone := by
  have hi := reachable_inv s h
  have hne2 := ne_id
  have hne3 := ne_pd
  have hnr : ∀ t, inRoutine (s.pc t) = false := by
    intro t
    cases hb : inRoutine (s.pc t) with
    | false => rfl
    | true => have := ((hi.own t).mp hb).2; simp_all
  cases l <;> simp only [step] at hs <;> (first | (split at hs) | skip) <;>
    (first | (split at hs) | skip) <;> (try simp at hs) <;> (try subst hs) <;>
    (try (simp_all; done))
  all_goals (rename_i t hpc; have := hnr t; simp [hpc, inRoutine] at this)

/-- **later calls are immediate**: a call that starts when the word is `completed` consists of
    exactly two accesses of the caller — the entry read and the single read of the wait loop, both
    observing `completed` — after which it has returned; it performs no CAS, no routine step and no
    yield, and the execution counter is unchanged.  (`completed` is stable, so this holds whatever
    other callers do in between: `C14_completed_is_stable`.) -/
theorem C14_later_calls_immediate (s s' : St) (l : Lbl) (t : Tid) (_h : Reachable step init s)
    (hd : s.state = sDone) (ha : l.actor = t) (hs : step s l = some s') :
    (s.pc t = .idle → l = .read t sDone ∧ s'.pc t = .wait ∧ s'.execs = s.execs ∧ s'.returns = s.returns) ∧
    (s.pc t = .wait → l = .waitRead t sDone ∧ s'.pc t = .idle ∧ s'.execs = s.execs ∧ isReturn s s') := by
  have hne2 := ne_id
  have hne3 := ne_pd
  subst ha
  unfold isReturn
  cases l <;> simp only [step] at hs <;> (first | (split at hs) | skip) <;>
    (first | (split at hs) | skip) <;> (try simp at hs) <;> (try subst hs) <;>
    simp_all [Lbl.actor]

/-- **the routine may block (1): nobody is ever disabled.**  In every reachable state every thread
    has an enabled step: the winner can always continue or finish the routine and store
    `completed`; a waiting caller can always re-read or yield; an idle thread can always start a
    call.  In particular no reachable state is stuck while the winner can still step. -/
theorem C14_never_disabled (s : St) (t : Tid) : ∃ l, l.actor = t ∧ (step s l).isSome = true := by
  cases hpc : s.pc t with
  | idle => exact ⟨.read t s.state, rfl, by simp only [step]; split <;> (try split) <;> simp_all⟩
  | rd => exact ⟨.cas t (decide (s.state = sInit)), rfl, by simp only [step]; split <;> (try split) <;> simp_all⟩
  | run => exact ⟨.routineStep t, rfl, by simp [step, hpc]⟩
  | fin => exact ⟨.storeDone t, rfl, by simp [step, hpc]⟩
  | wait => exact ⟨.waitRead t s.state, rfl, by simp only [step]; split <;> (try split) <;> simp_all⟩
  | yld => exact ⟨.yield t, rfl, by simp [step, hpc]⟩

/-- **the routine may block (2): the other callers neither return nor interfere while it runs.**
    While the routine is in progress (word = `in_progress`), a step of any caller other than the
    runner does not return from `myth_once`, leaves the word, the counter, the runner and the
    `routineDone` flag unchanged and touches nobody else's program counter (waiting callers hold
    nothing the routine could need: they only re-read and yield); and it ends in `rd`, `wait` or
    `yld` — the caller is still inside its call -/
theorem C14_routine_may_block (s s' : St) (l : Lbl) (w : Tid) (h : Reachable step init s)
    (hp : s.state = sProg) (hw : s.runner = some w) (hl : l.actor ≠ w) (hs : step s l = some s') :
    ¬ isReturn s s' ∧ s'.state = s.state ∧ s'.execs = s.execs ∧ s'.runner = s.runner ∧
    s'.routineDone = s.routineDone ∧ (∀ u, u ≠ l.actor → s'.pc u = s.pc u) ∧
    (s'.pc l.actor = .rd ∨ s'.pc l.actor = .wait ∨ s'.pc l.actor = .yld) := by
  have hi := reachable_inv s h
  have hne1 := ne_ip
  have hne3 := ne_pd
  have hnr : ∀ t, t ≠ w → inRoutine (s.pc t) = false := by
    intro t htw
    cases hb : inRoutine (s.pc t) with
    | false => rfl
    | true => have := ((hi.own t).mp hb).1; simp_all
  unfold isReturn
  cases l <;> simp only [step] at hs <;> (first | (split at hs) | skip) <;>
    (first | (split at hs) | skip) <;> (try simp at hs) <;> (try subst hs) <;>
    simp only [Lbl.actor] at hl <;>
    (try (simp_all [Lbl.actor]; done))
  all_goals (rename_i t hpc; have := hnr t hl; simp [hpc, inRoutine] at this)

/-- **the routine may block (3): no orphaned waiter (stuck-freedom).**  Whenever a caller is in the
    wait loop, either `completed` is already stored — then its next own steps are
    (`yield`,) `waitRead completed` and it returns — or the runner is still inside the routine /
    about to store `completed`, and the runner's next step is enabled (`C14_never_disabled`).
    Hence a reachable state in which a caller waits and nobody can ever complete does not exist:
    if no caller is inside the routine, every waiting caller sees `completed`. -/
theorem C14_waiters_have_hope (s : St) (h : Reachable step init s) (t : Tid)
    (hw : waiting (s.pc t) = true) :
    (s.state = sDone ∧ s.routineDone = true) ∨ (∃ w, s.runner = some w ∧ inRoutine (s.pc w) = true ∧ w ≠ t) := by
  have hi := reachable_inv s h
  have hn := hi.wt t hw
  rcases hi.dom with h0 | h1 | h2
  · exact absurd h0 hn
  · right
    cases hrun : s.runner with
    | none =>
      have := hi.ex0.mpr (hi.run0.mpr hrun)
      have := ne_ip
      simp_all
    | some w =>
      have hin := (hi.own w).mpr ⟨hrun, h1⟩
      refine ⟨w, rfl, hin, ?_⟩
      intro e; subst e
      cases hp : s.pc w <;> simp_all [waiting, inRoutine]
  · left
    refine ⟨h2, ?_⟩
    cases hrun : s.runner with
    | none =>
      have := hi.ex0.mpr (hi.run0.mpr hrun)
      have := ne_id
      simp_all
    | some w => exact (hi.rdn w hrun).mpr (Or.inl h2)

/-- once `completed` is stored a waiting caller leaves within its next two own steps -/
theorem C14_waiters_released (s : St) (t : Tid) (hd : s.state = sDone) :
    (s.pc t = .wait → ∃ s', step s (.waitRead t sDone) = some s' ∧ s'.pc t = .idle ∧ isReturn s s') ∧
    (s.pc t = .yld → ∃ s', step s (.yield t) = some s' ∧ s'.pc t = .wait ∧ s'.state = sDone) := by
  constructor
  · intro hpc
    exact ⟨{ s with pc := upd s.pc t .idle, returns := s.returns + 1 }, by simp [step, hd, hpc],
      by simp, by simp [isReturn]⟩
  · intro hpc
    exact ⟨{ s with pc := upd s.pc t .wait }, by simp [step, hpc], by simp, by simpa using hd⟩

/-! ### non-vacuity -/

/-- three callers race: 1 and 2 both read `init`, 1 wins, 2 loses the CAS, 3 arrives while the
    routine (3 steps, the others interleaved) is in progress; both wait, re-read and yield -/
def demoTrace : List Lbl :=
  [.read 1 0, .read 2 0, .cas 1 true, .cas 2 false, .routineStep 1, .read 3 1, .waitRead 2 1,
   .routineStep 1, .yield 2, .waitRead 3 1, .waitRead 2 1, .routineStep 1]

example : ∃ s, runs step init demoTrace = some s ∧ s.state = sProg ∧ s.execs = 1 ∧ s.runner = some 1 ∧
    s.pc 1 = .run ∧ s.pc 2 = .yld ∧ s.pc 3 = .yld ∧ s.returns = 0 := by
  refine ⟨_, rfl, ?_⟩; decide

/-- … the routine ends, `completed` is stored, everybody returns, a later call by 4 is immediate -/
def demoTrace2 : List Lbl :=
  demoTrace ++ [.routineEnd 1, .yield 3, .storeDone 1, .waitRead 3 2, .yield 2, .waitRead 2 2,
                .read 4 2, .waitRead 4 2]

example : ∃ s, runs step init demoTrace2 = some s ∧ s.state = sDone ∧ s.execs = 1 ∧ s.routineDone = true ∧
    s.returns = 4 ∧ (∀ t, t < 6 → s.pc t = .idle) := by
  refine ⟨_, rfl, ?_⟩; decide

example : demoTrace2.countP isWin = 1 ∧ demoTrace2.any isRet = true ∧ demoTrace2.any isEnd = true := by decide

/-- the model refuses a second start: after a winner exists no CAS can succeed -/
example : ∀ s, runs step init demoTrace = some s → step s (.cas 2 true) = none ∧ step s (.cas 3 true) = none := by
  intro s h
  have : runs step init demoTrace = some _ := rfl
  rw [this] at h
  cases h
  decide

end MythVerif.Once
