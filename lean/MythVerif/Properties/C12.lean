import MythVerif.Proofs.LifeReach
import MythVerif.Proofs.Ledger
import MythVerif.Model.SizeClass
/-!
# C12 — stacks and thread records are never reused or released while still in use

Three models: `MythVerif.Life` (when the finisher / reapers release the stack and the record),
`MythVerif.Ledger` (per-worker free lists of blocks: every block is in exactly one place),
`MythVerif.SizeClass` (size-class rounding and the stack block layout).
Memory *contents* of stacks are not modelled (canaries in the harness are an oracle).
-/
namespace MythVerif.Life
open MythVerif

/-- **the stack is released only after the final switch-away**: the release happens in the
    callback that runs after the finished thread has left its stack (`fRead → fSwitched`), hence
    never while the start function is running or the thread is still on its stack; at most once -/
theorem C12_stack_released_after_switch (arg : Val) (d : Bool) (s : St) (h : Reach arg d s) :
    s.stackFrees ≤ 1 ∧ (s.stackFrees = 1 ↔ tStackGone s.tpc = true) ∧
    (s.stackFrees = 1 → s.tpc ≠ .created ∧ s.tpc ≠ .run ∧ s.tpc ≠ .fBegin ∧ ∀ w, s.tpc ≠ .fRead w) := by
  have hi := reach_inv arg d s h
  rw [hi.stk]
  refine ⟨by split <;> omega, by split <;> simp_all, ?_⟩
  intro h1
  have : tStackGone s.tpc = true := by split at h1 <;> simp_all
  cases hp : s.tpc <;> simp [hp, tStackGone] at this ⊢

/-- the step that releases the stack is taken by the switch callback, with the record locked by
    the finisher -/
theorem C12_stack_free_under_lock (arg : Val) (d : Bool) (s s' : St) (h : Reach arg d s)
    (hs : step s .tStackFree = some s') : s.tlock = true ∧ s.stackFrees = 0 ∧ s'.stackFrees = 1 := by
  have hi := reach_inv arg d s h
  simp only [step] at hs
  split at hs
  · rename_i w hp
    simp at hs; subst hs
    have h0 : s.stackFrees = 0 := by rw [hi.stk]; simp [hp, tStackGone]
    exact ⟨hi.tl.mpr (by simp [hp, tHoldsLock]), h0, by simp [h0]⟩
  · simp at hs

/-- **the record stays intact until the thread has been reaped**: it is released at most once,
    only after the thread has completely finished (published and unlocked), and — unless it was
    detached — only by the reaper, after that reaper has read the exit value -/
theorem C12_record_intact_until_reap (arg : Val) (d : Bool) (s : St) (h : Reach arg d s)
    (hf : s.descFrees ≥ 1) :
    s.descFrees = 1 ∧ s.tpc = .fDone ∧
    (s.det = true ∨ ∃ j, s.reaper = some j ∧ ((∃ v, s.pc j = .done v ∧ s.retv = some v) ∨ s.pc j = .ddone)) := by
  have hi := reach_inv arg d s h
  have hdf := hi.dfc
  by_cases h1 : s.tpc = .fDone ∧ s.det = true
  · by_cases h2 : s.rfreed = true
    · have := (hi.finD (hi.rfF h2)).2; simp [h1.2] at this
    · simp [h1, h2] at hdf; exact ⟨hdf, h1.1, Or.inl h1.2⟩
  · by_cases h2 : s.rfreed = true
    · simp [h1, h2] at hdf
      have hfin := hi.rfF h2
      refine ⟨hdf, (hi.finD hfin).1, Or.inr ?_⟩
      cases hr : s.reaper with
      | none => exact absurd hr (hi.rf0 h2)
      | some j =>
        refine ⟨j, rfl, ?_⟩
        rcases (hi.rf1 j hr).mp h2 with ⟨v, e⟩ | e
        · exact Or.inl ⟨v, e, hi.jfv j v (Or.inr e)⟩
        · exact Or.inr e
    · simp [h1, h2] at hdf; omega

/-- a joiner's record release comes after it has read the result (program order `jReap` then
    `descFree`), and the value it read is the thread's exit value -/
theorem C12_reap_reads_before_release (arg : Val) (d : Bool) (s s' : St) (h : Reach arg d s) (j : Tid)
    (hs : step s (.descFree j) = some s') :
    (∃ v, s.pc j = .jFree v ∧ s.retv = some v) ∨ s.pc j = .dFree := by
  have hi := reach_inv arg d s h
  simp only [step] at hs
  split at hs
  · rename_i v hp; exact Or.inl ⟨v, hp, hi.jfv j v (Or.inl hp)⟩
  · rename_i hp; exact Or.inr hp
  · simp at hs

end MythVerif.Life

namespace MythVerif.Ledger

/-- **no block is handed out twice / no overlap**: for every history of get / release operations
    by any number of workers (releases only of blocks in use, which `Life` guarantees), all
    blocks in use are pairwise distinct and none of them is on any free list; a block is on at
    most one free list.  Fresh blocks come from the OS model (disjoint regions: trusted base). -/
theorem C12_no_overlap (ops : List Op) (s : St) (h : runOps init ops = some s) :
    s.owned.Nodup ∧ (∀ w a, a ∈ s.fl w → a ∉ s.owned) ∧ (∀ w, (s.fl w).Nodup) ∧
    (∀ w1 w2 a, a ∈ s.fl w1 → a ∈ s.fl w2 → w1 = w2) := by
  have hi := runOps_invN ops init s invN_init h
  exact ⟨hi.ond, hi.dis, hi.fnd, hi.one⟩

/-- a `get` never returns a block that is currently in use -/
theorem C12_get_returns_unused (ops : List Op) (s s' : St) (w : Worker) (a : Addr)
    (h : runOps init ops = some s) (hs : step s (.get w) = some (s', some a)) : a ∉ s.owned := by
  have hi := runOps_invN ops init s invN_init h
  simp only [step] at hs
  split at hs
  · rename_i b rest hfl
    simp at hs; obtain ⟨_, e⟩ := hs; subst e
    exact hi.dis w b (by simp [hfl])
  · simp at hs; obtain ⟨_, e⟩ := hs; subst e
    exact fun hm => Nat.lt_irrefl _ (hi.lto _ hm)

/-- releasing a block that is not in use (double release) is rejected by the ledger -/
theorem C12_release_at_most_once (s : St) (w : Worker) (a : Addr) (h : a ∉ s.owned) :
    step s (.free w a) = none := by
  simp [step, h]

end MythVerif.Ledger

namespace MythVerif.SizeClass

theorem sizeToIndex_spec (s : Nat) (h : 2 ≤ s) :
    s ≤ rsize (sizeToIndex s) ∧ rsize (sizeToIndex s) < 2 * s := by
  unfold sizeToIndex rsize
  have h1 : s - 1 ≠ 0 := by omega
  have a := Nat.lt_log2_self (n := s - 1)
  have b := Nat.log2_self_le h1
  rw [Nat.pow_succ] at *
  omega

/-- **size classes**: for every request `8 ≤ s ≤ 2^30` the block of class `sizeToIndex s` is
    large enough (and less than twice as large), the class index is inside the free-list table,
    and a release with the recorded size goes back to the class the block came from (same
    function of the same size) -/
theorem C12_size_class (s : Nat) (h8 : 8 ≤ s) (hmax : s ≤ 2 ^ 30) :
    s ≤ rsize (sizeToIndex s) ∧ rsize (sizeToIndex s) < 2 * s ∧ 3 ≤ sizeToIndex s ∧
    sizeToIndex s < freeListNum := by
  have hs := sizeToIndex_spec s (by omega)
  refine ⟨hs.1, hs.2, ?_, ?_⟩
  · -- 2^idx ≥ s ≥ 8 = 2^3
    have : 2 ^ 3 ≤ rsize (sizeToIndex s) := by simp; omega
    exact (Nat.pow_le_pow_iff_right (by decide)).mp this
  · have : rsize (sizeToIndex s) < 2 ^ 31 := by
      have : 2 * s ≤ 2 ^ 31 := by rw [Nat.pow_succ]; omega
      omega
    have := (Nat.pow_lt_pow_iff_right (a := 2) (by decide)).mp this
    show sizeToIndex s < Gen.freeListNum
    have e : Gen.freeListNum = 31 := by decide
    omega

theorem roundPage_spec (s : Nat) : s ≤ roundPage s ∧ roundPage s % 4096 = 0 ∧ roundPage s < s + 4096 := by
  unfold roundPage; omega

/-- **stack layout**: for a page-aligned block and any requested size `≥ 1`, the stack pointer
    handed to the thread is 16-byte aligned, it and the size word lie inside the block of the
    rounded size, and release recovers exactly the block start from the pointer and the size word -/
theorem C12_stack_top_aligned (base size : Nat) (hb : base % 4096 = 0) (hs : 1 ≤ size) :
    stackTop base size % 16 = 0 ∧ base ≤ stackTop base size ∧
    sizeWord base size + 8 = base + roundPage size ∧
    blockStart (stackTop base size) (roundPage size) = base := by
  have hr := roundPage_spec size
  simp only [sizeWord, blockStart, stackTop]
  have : 4096 ≤ roundPage size := by
    have := hr.2.1; have := hr.1
    omega
  omega

/-- the model's class function agrees with the macro on the translator's probes -/
theorem C12_size_class_matches_source :
    sizeToIndex 8 = Gen.sizeToIndex8 ∧ sizeToIndex 4096 = Gen.sizeToIndex4096 ∧
    sizeToIndex 4097 = Gen.sizeToIndex4097 ∧ Gen.pageSize = 4096 := by decide

end MythVerif.SizeClass
