import MythVerif.Proofs.Felock
/-!
# C09 — full/empty lock: status hand-off between producers and consumers

Model `MythVerif.Felock`, layered on the abstract mutex / condition-variable interface that C04
and C05 establish for the real primitives.  Any number of threads, each acting as producer
(`wait_and_lock(0); put; mark_and_signal(1)`) or consumer (`wait_and_lock(1); take;
mark_and_signal(0)`) any number of times, plain lock/unlock mixed in, all interleavings.
-/
namespace MythVerif.Felock
open MythVerif

theorem inv_step (s s' : St) (l : Lbl) (h : Inv s) (hs : step s l = some s') : Inv s' := by
  cases l with
  | walStart t w => exact p_walStart s s' t w h hs
  | lockStart t => exact p_lockStart s s' t h hs
  | acquire t => exact p_acquire s s' t h hs
  | check t v => exact p_check s s' t v h hs
  | waitRel t => exact p_waitRel s s' t h hs
  | put t x => exact p_put s s' t x h hs
  | take t x => exact p_take s s' t x h hs
  | markSet t v => exact p_markSet s s' t v h hs
  | sig t x => exact p_sig s s' t x h hs
  | release t => exact p_release s s' t h hs

theorem reachable_inv (s : St) (h : Reachable step init s) : Inv s :=
  inv_reachable step init Inv inv_init (fun s l s' => inv_step s s' l) s h

/-- **wait_and_lock(s) returns only when the status equals s and with the lock held exclusively** -/
theorem C09_wait_and_lock_post (s : St) (h : Reachable step init s) (t : Tid) (w : Nat)
    (ht : s.pc t = .got w) :
    s.status = w ∧ s.holder = some t ∧ ∀ u, holds (s.pc u) = true → u = t := by
  have hi := reachable_inv s h
  have hh : s.holder = some t := (hi.hd t).mp (by simp [ht, holds])
  refine ⟨(hi.hgot t w ht).1, hh, fun u hu => ?_⟩
  have := (hi.hd u).mp hu
  rw [hh] at this; exact (Option.some.inj this).symm

/-- **mark_and_signal(v) publishes v**: while the marker still holds the lock after writing,
    the status is `v`; if threads were waiting for `v`, its signal hands one of them back to the
    lock (`wl v`) -/
theorem C09_mark_publishes (s s' : St) (h : Reachable step init s) (t : Tid) (x : Option Tid)
    (hs : step s (.sig t x) = some s') :
    ∃ v, s.pc t = .ms1 v ∧ s.status = v ∧ s'.status = v ∧
      ((s.cw v = [] ∧ x = none) ∨ (∃ y rest, s.cw v = y :: rest ∧ x = some y ∧ s'.pc y = .wl v ∧ s'.cw v = rest)) := by
  have hi := reachable_inv s h
  simp only [step] at hs
  split at hs
  · rename_i v hp
    refine ⟨v, hp, hi.ms1v t v hp, ?_, ?_⟩
    · split at hs
      · simp at hs; subst hs; exact hi.ms1v t v hp
      · split at hs
        · simp at hs; subst hs; exact hi.ms1v t v hp
        · simp at hs
      · simp at hs
    · split at hs
      · left; exact ⟨by assumption, rfl⟩
      · rename_i y rest x' hcw
        split at hs
        · rename_i hxy
          simp at hs; subst hs; subst hxy
          have hy : s.pc x' = .slp v := hi.cwA v x' (by simp [hcw])
          have hyt : x' ≠ t := by intro e; subst e; simp [hp] at hy
          exact Or.inr ⟨x', rest, hcw, rfl, by simp [hyt], by simp⟩
        · simp at hs
      · simp at hs
  · simp at hs

/-- **every produced item is consumed exactly once**: at any moment the produced items are
    exactly the one in the slot (if any) followed by the consumed ones — nothing is lost, nothing
    is consumed twice, in every reachable state -/
theorem C09_exchange_exactly_once (s : St) (h : Reachable step init s) :
    s.produced = (match s.slot with | some x => [x] | none => []) ++ s.consumed ∧
    s.donePut = s.produced.length ∧ s.doneTake = s.consumed.length := by
  have hi := reachable_inv s h
  exact ⟨hi.items, hi.cntP, hi.cntT⟩

/-- consequence: if the producers' items are pairwise distinct, so are the consumed ones -/
theorem C09_consumed_nodup (s : St) (h : Reachable step init s) (hp : s.produced.Nodup) :
    s.consumed.Nodup := by
  have := (C09_exchange_exactly_once s h).1
  rw [this] at hp
  exact (List.nodup_append.mp hp).2.1

/-- **no lost signal**: whenever the status is `w` and threads sleep waiting for `w`, some thread
    is on its way to use or change the status (woken and re-acquiring, or holding the lock inside
    a status operation) -/
theorem C09_no_lost_signal (s : St) (h : Reachable step init s) (w : Nat) (t : Tid)
    (ht : s.pc t = .slp w) (hw : s.status = w) : ∃ u, s.pc u = .wl w ∨ act w (s.pc u) = true := by
  have hi := reachable_inv s h
  exact hi.hope w (List.ne_nil_of_mem (hi.cwS w t ht)) hw

/-- nobody inside an operation: every thread is idle or asleep -/
def quiescent (s : St) : Prop := ∀ t, s.pc t = .idle ∨ ∃ w, s.pc t = .slp w

/-- **no participant sleeps forever in a balanced exchange**: in a quiescent reachable state a
    sleeper waits for a status that is not the current one and all issued counterpart operations
    have completed; hence if as many puts as takes were issued (every `wait_and_lock(0)` is
    matched by a `wait_and_lock(1)`), nobody is asleep -/
theorem C09_no_stuck (s : St) (h : Reachable step init s) (hq : quiescent s) :
    (∀ t w, s.pc t = .slp w → s.status ≠ w) ∧ s.holder = none := by
  have hi := reachable_inv s h
  have hnone : s.holder = none := by
    cases hh : s.holder with
    | none => rfl
    | some u =>
      have := (hi.hd u).mpr hh
      rcases hq u with e | ⟨w, e⟩ <;> simp [e, holds] at this
  refine ⟨?_, hnone⟩
  intro t w ht hw
  obtain ⟨u, hu⟩ := C09_no_lost_signal s h w t ht hw
  rcases hq u with e | ⟨w', e⟩ <;> simp [e, act] at hu

/-! ### non-vacuity: two producers, one consumer -/
def demo : List Lbl :=
  [.walStart 1 0, .acquire 1, .check 1 0, .put 1 41, .walStart 2 0, .markSet 1 1, .sig 1 none, .release 1,
   .acquire 2, .check 2 1, .waitRel 2,                         -- producer 2 finds it full and sleeps
   .walStart 3 1, .acquire 3, .check 3 1, .take 3 41, .markSet 3 0, .sig 3 (some 2), .release 3,
   .acquire 2, .check 2 0, .put 2 42, .markSet 2 1, .sig 2 none, .release 2]

example : ∃ s, runs step init demo = some s ∧ s.produced = [42, 41] ∧ s.consumed = [41] ∧
    s.slot = some 42 ∧ s.status = 1 ∧ s.holder = none := by
  refine ⟨_, rfl, ?_⟩; decide

end MythVerif.Felock
