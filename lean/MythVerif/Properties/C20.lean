import MythVerif.Proofs.Time
/-!
# C20 — sleeping and timed waits respect their deadlines

Model: `MythVerif.Time` (`Model/Time.lean`), a transcription of `myth_timespec_add`,
`myth_timespec_gt`, `myth_nanosleep_body`, `myth_usleep_body`, `myth_sleep_body`
(`src/myth_sched_func.h`), `myth_mutex_timedlock_body` (`src/myth_sync_func.h`) and
`myth_timedjoin_body`.  The clock (`hr_gettime`) is an ARBITRARY stream `clk : Nat → Ts`, the
outcomes of the trylock / tryjoin attempts are an ARBITRARY stream `out : Nat → Bool`; `fuel`
bounds the number of loop iterations looked at (`none` = still looping), and every theorem holds
for every `fuel`.

Quantification: every duration / deadline (any `Int` fields unless a hypothesis says otherwise),
every clock stream, every outcome stream.  Hypotheses that appear:
`Norm t` (`0 ≤ tv_nsec < 10^9`, what `clock_gettime` returns) and `InT x` (the value fits the 64-bit
`time_t`).
-/
namespace MythVerif.Time

/-! ### timespec addition and comparison -/

/-- **addition is normalised and exact, with the carry**, whenever the sum of the seconds (plus
    carry) is representable: nanosecond field in `[0, 10^9)`, the instants add exactly, and the carry
    into the seconds is 1 exactly when the nanoseconds reach 10^9. -/
theorem C20_add_normalised (a b : Ts) (ha : Norm a) (hb : Norm b)
    (hlo : tMin ≤ a.sec + b.sec) (hhi : a.sec + b.sec + carry a b ≤ tMax) :
    Norm (add a b) ∧ toNs (add a b) = toNs a + toNs b ∧
    (add a b).sec = a.sec + b.sec + (if a.nsec + b.nsec ≥ NS then 1 else 0) := by
  rw [add_exact a b ha hb hlo hhi]
  exact ⟨norm_exact a b ha hb, toNs_exact a b, rfl⟩

/-- when the sum is later than any representable time the current source saturates, and then no
    normalised in-range clock reading is ever later than the result (a sleep until it never ends
    early) -/
theorem C20_add_saturates (a b : Ts) (ha : Norm a) (hb : Norm b)
    (hhi : tMax < a.sec + b.sec + carry a b) :
    add a b = tsSat ∧ ∀ r, Norm r → InT r.sec → gt r (add a b) = false := by
  have h := add_saturates a b ha hb hhi
  refine ⟨h, ?_⟩
  intro r hr hs
  rw [h]; exact not_gt_tsSat hr hs

/-- `myth_timespec_gt` is a strict total order on ALL timespec values (lexicographic on the two
    fields): irreflexive, transitive, asymmetric, trichotomous -/
theorem C20_gt_strict_order :
    (∀ a, gt a a = false) ∧
    (∀ a b c, gt a b = true → gt b c = true → gt a c = true) ∧
    (∀ a b, gt a b = true → gt b a = false) ∧
    (∀ a b, gt a b = true ∨ a = b ∨ gt b a = true) :=
  ⟨gt_irrefl, fun _ _ _ => gt_trans, fun _ _ => gt_asymm, gt_trichotomy⟩

/-- on normalised values it is exactly "denotes a later instant" -/
theorem C20_gt_is_later (a b : Ts) (ha : Norm a) (hb : Norm b) : gt a b = true ↔ toNs a > toNs b :=
  gt_iff_toNs ha hb

/-! ### nanosleep / usleep / sleep -/

/-- **EINVAL exactly for malformed durations**, and the condition the code tests is the POSIX one
    (`tv_sec < 0`, `tv_nsec < 0`, `tv_nsec > 999999999`) = "not (`0 ≤ tv_sec` and normalised)";
    a rejected call reads no clock and does not yield. -/
theorem C20_einval_iff (req : Ts) (clk : Clock) (fuel : Nat) :
    ((∃ tr, nanosleep req clk fuel = some (Rc.einval, tr)) ↔
        (req.sec < 0 ∨ req.nsec < 0 ∨ req.nsec > 999999999)) ∧
    ((req.sec < 0 ∨ req.nsec < 0 ∨ req.nsec > 999999999) ↔ ¬ (0 ≤ req.sec ∧ Norm req)) ∧
    (∀ tr, nanosleep req clk fuel = some (Rc.einval, tr) → tr = []) := by
  refine ⟨?_, ?_, ?_⟩
  · unfold nanosleep nanosleepWith
    by_cases h1 : req.sec < 0
    · simp [h1]
    · by_cases h2 : req.nsec < 0
      · simp [h1, h2]
      · by_cases h3 : req.nsec > 999999999
        · simp [h1, h2, h3]
        · simp only [h1, h2, h3, if_false, or_self, iff_false]
          rintro ⟨tr, h⟩
          simp at h
  · unfold Norm NS; omega
  · intro tr
    unfold nanosleep nanosleepWith
    by_cases h1 : req.sec < 0
    · simp [h1]
    · by_cases h2 : req.nsec < 0
      · simp [h1, h2]
      · by_cases h3 : req.nsec > 999999999
        · simp [h1, h2, h3]
        · simp [h1, h2, h3]

/-- the only return codes of nanosleep are 0 and EINVAL -/
theorem C20_nanosleep_codes (req : Ts) (clk : Clock) (fuel : Nat) (r : Rc) (tr : List Ev)
    (h : nanosleep req clk fuel = some (r, tr)) : r = Rc.ok ∨ r = Rc.einval := by
  unfold nanosleep nanosleepWith at h
  split at h
  · simp at h; exact Or.inr h.1.symm
  · split at h
    · simp at h; exact Or.inr h.1.symm
    · split at h
      · simp at h; exact Or.inr h.1.symm
      · simp at h; obtain ⟨_, _, h1, _⟩ := h; exact Or.inl h1.symm

/-- **nanosleep returns 0 no earlier than the requested duration**: for every request and every
    clock stream of normalised readings, a return of 0 happened right after observing a reading
    `clk i` (i ≥ 1, it is in the trace) that is LATER than start + req, where start = `clk 0` is the
    reading taken on entry.  No representability hypothesis: a request so large that start + req
    overflows never returns 0 at all. -/
theorem C20_nanosleep_min (req : Ts) (clk : Clock) (fuel : Nat) (tr : List Ev)
    (hclk : ∀ i, Norm (clk i) ∧ InT (clk i).sec)
    (h : nanosleep req clk fuel = some (Rc.ok, tr)) :
    ∃ i, 1 ≤ i ∧ Ev.clock (clk i) ∈ tr ∧ toNs (clk i) > toNs (clk 0) + toNs req ∧
      (∀ j, 1 ≤ j → j < i → toNs (clk j) ≤ toNs (clk 0) + toNs req) := by
  obtain ⟨⟨hs, hn⟩, n, _, hg, hall, rfl⟩ := (nanosleep_ok req clk fuel tr).mp h
  have h0 := hclk 0
  have hlo : tMin ≤ (clk 0).sec + req.sec := by
    have := h0.2; unfold InT tMin at *; omega
  by_cases hrep : (clk 0).sec + req.sec + carry (clk 0) req ≤ tMax
  · have hex := add_exact (clk 0) req h0.1 hn hlo hrep
    have hnorm := norm_exact (clk 0) req h0.1 hn
    have hns := toNs_exact (clk 0) req
    rw [hex] at hg hall
    refine ⟨1 + n, by omega, ?_, ?_, ?_⟩
    · simp only [List.mem_cons]; right; exact mem_sleepTrace clk 1 n
    · rw [← hns]; exact (gt_iff_toNs (hclk _).1 hnorm).mp hg
    · intro j hj1 hj2
      have := hall (j - 1) (by omega)
      rw [show 1 + (j - 1) = j by omega] at this
      rw [← hns]
      have hn' : ¬ toNs (clk j) > toNs (⟨(clk 0).sec + req.sec + carry (clk 0) req,
          (clk 0).nsec + req.nsec - carry (clk 0) req * NS⟩ : Ts) := by
        intro hc
        have := (gt_iff_toNs (hclk j).1 hnorm).mpr hc
        simp_all
      omega
  · have hsat := add_saturates (clk 0) req h0.1 hn (by omega)
    rw [hsat, not_gt_tsSat (hclk _).1 (hclk _).2] at hg
    simp at hg

/-- hence, on a monotone clock, at every reading from the return on, at least the requested
    duration has elapsed since the call -/
theorem C20_nanosleep_elapsed (req : Ts) (clk : Clock) (fuel : Nat) (tr : List Ev)
    (hclk : ∀ i, Norm (clk i) ∧ InT (clk i).sec)
    (hmono : ∀ i j, i ≤ j → toNs (clk i) ≤ toNs (clk j))
    (h : nanosleep req clk fuel = some (Rc.ok, tr)) :
    ∃ i, Ev.clock (clk i) ∈ tr ∧ ∀ j, i ≤ j → toNs (clk j) - toNs (clk 0) ≥ toNs req := by
  obtain ⟨i, _, hm, hlt, _⟩ := C20_nanosleep_min req clk fuel tr hclk h
  exact ⟨i, hm, fun j hj => by have := hmono i j hj; omega⟩

/-- and it does return 0 — at the FIRST reading later than start + req — whenever there is one
    (and start + req is representable); the result does not depend on the fuel -/
theorem C20_nanosleep_returns (req : Ts) (clk : Clock) (fuel i : Nat)
    (hclk : ∀ i, Norm (clk i) ∧ InT (clk i).sec) (hs : 0 ≤ req.sec) (hn : Norm req)
    (hrep : (clk 0).sec + req.sec + carry (clk 0) req ≤ tMax)
    (hi : 1 ≤ i) (hlate : toNs (clk i) > toNs (clk 0) + toNs req)
    (hfirst : ∀ j, 1 ≤ j → j < i → toNs (clk j) ≤ toNs (clk 0) + toNs req) (hf : i ≤ fuel) :
    nanosleep req clk fuel = some (Rc.ok, Ev.clock (clk 0) :: sleepTrace clk 1 (i - 1)) := by
  have h0 := hclk 0
  have hlo : tMin ≤ (clk 0).sec + req.sec := by
    have := h0.2; unfold InT tMin at *; omega
  have hex := add_exact (clk 0) req h0.1 hn hlo hrep
  have hnorm := norm_exact (clk 0) req h0.1 hn
  have hns := toNs_exact (clk 0) req
  refine (nanosleep_ok req clk fuel _).mpr ⟨⟨hs, hn⟩, i - 1, by omega, ?_, ?_, rfl⟩
  · rw [hex, show 1 + (i - 1) = i by omega]
    exact (gt_iff_toNs (hclk _).1 hnorm).mpr (by rw [hns]; exact hlate)
  · intro j hj
    rw [hex]
    have := hfirst (1 + j) (by omega) (by omega)
    cases hgt : gt (clk (1 + j)) { sec := (clk 0).sec + req.sec + carry (clk 0) req, nsec := (clk 0).nsec + req.nsec - carry (clk 0) req * NS } with
    | false => rfl
    | true => have := (gt_iff_toNs (hclk _).1 hnorm).mp hgt; omega

/-- **the sleep lets others run**: the trace of a nanosleep is the start reading followed by loop
    readings, and between any two loop readings the caller yields (`myth_yield_body`); the number of
    yields is the number of loop readings minus one. -/
theorem C20_sleep_yields (req : Ts) (clk : Clock) (fuel : Nat) (tr : List Ev)
    (h : nanosleep req clk fuel = some (Rc.ok, tr)) :
    ∃ n, tr = Ev.clock (clk 0) :: sleepTrace clk 1 n ∧ Sep tr.tail ∧ tr.count Ev.yield = n := by
  obtain ⟨_, n, _, _, _, rfl⟩ := (nanosleep_ok req clk fuel tr).mp h
  refine ⟨n, rfl, sleepTrace_Sep clk 1 n, ?_⟩
  rw [List.count_cons]
  simp [sleepTrace_yields]

/-- **usleep / sleep conversions**: the request built from `usec` microseconds (any `usec`, in
    particular ≥ 10^6) is well-formed — never EINVAL — and denotes exactly `usec * 1000` ns; the one
    built from `s` seconds denotes `s * 10^9` ns. -/
theorem C20_usleep_conv (usec s : Nat) :
    (0 ≤ (usleepReq usec).sec ∧ Norm (usleepReq usec) ∧ toNs (usleepReq usec) = (usec : Int) * 1000) ∧
    (0 ≤ (sleepReq s).sec ∧ Norm (sleepReq s) ∧ toNs (sleepReq s) = (s : Int) * NS) := by
  unfold usleepReq sleepReq Norm toNs NS
  simp only
  have h1 : usec % 1000000 * 1000 % 4294967296 = usec % 1000000 * 1000 := by omega
  rw [h1]
  refine ⟨⟨by omega, ⟨by omega, by omega⟩, by omega⟩, ⟨by omega, ⟨by omega, by omega⟩, by omega⟩⟩

/-- usleep returns 0 only after a reading later than start + usec·1000 ns, sleep only after one
    later than start + s·10^9 ns (all `usec`, all `s`) -/
theorem C20_usleep_sleep_min (clk : Clock) (fuel : Nat) (tr : List Ev)
    (hclk : ∀ i, Norm (clk i) ∧ InT (clk i).sec) :
    (∀ usec : Nat, usleep usec clk fuel = some (Rc.ok, tr) →
      ∃ i, 1 ≤ i ∧ Ev.clock (clk i) ∈ tr ∧ toNs (clk i) > toNs (clk 0) + (usec : Int) * 1000) ∧
    (∀ s : Nat, sleep s clk fuel = some (Rc.ok, tr) →
      ∃ i, 1 ≤ i ∧ Ev.clock (clk i) ∈ tr ∧ toNs (clk i) > toNs (clk 0) + (s : Int) * NS) := by
  constructor
  · intro usec h
    have hc := (C20_usleep_conv usec 0).1
    obtain ⟨i, h1, h2, h3, _⟩ := C20_nanosleep_min (usleepReq usec) clk fuel tr hclk h
    exact ⟨i, h1, h2, by rw [← hc.2.2]; exact h3⟩
  · intro s h
    have hc := (C20_usleep_conv 0 s).2
    obtain ⟨i, h1, h2, h3, _⟩ := C20_nanosleep_min (sleepReq s) clk fuel tr hclk h
    exact ⟨i, h1, h2, by rw [← hc.2.2]; exact h3⟩

/-! ### timed lock / timed join -/

/-- **a timeout is reported only after the deadline**: a non-zero return is the timeout code, it
    was returned right after observing a reading `clk i` with `myth_timespec_gt(clk i, abstime)` —
    strictly later than a normalised deadline, and not earlier than a deadline whose nanosecond
    field is anything ≤ 10^9 — and every attempt made (numbers 0 … i, at least one) had failed. -/
theorem C20_timed_timeout_after_deadline (code : Rc) (abs : Ts) (clk : Clock) (out : Nat → Bool)
    (fuel : Nat) (r : Rc) (tr : List Ev)
    (h : timed code abs clk out fuel = some (r, tr)) (hr : r ≠ Rc.ok) :
    r = code ∧ ∃ i, Ev.clock (clk i) ∈ tr ∧ gt (clk i) abs = true ∧
      (∀ j, j < i → gt (clk j) abs = false) ∧ (∀ j, j ≤ i → out j = false) ∧
      (Norm (clk i) → Norm abs → toNs (clk i) > toNs abs) ∧
      (Norm (clk i) → abs.nsec ≤ NS → toNs (clk i) ≥ toNs abs) := by
  rcases (timed_some code abs clk out fuel r tr).mp h with ⟨_, h1, _⟩ | ⟨h0, n, _, hall, hcase⟩
  · exact absurd h1 hr
  · rcases hcase with ⟨hg, rfl, rfl⟩ | ⟨_, _, h1, _⟩
    · refine ⟨rfl, n, ?_, hg, fun j hj => (hall j hj).1, ?_, fun h1 h2 => (gt_iff_toNs h1 h2).mp hg,
        fun h1 h2 => gt_not_earlier h1 h2 hg⟩
      · simp only [List.mem_cons]; right
        have := mem_timedTrace_timeout clk 0 n
        simpa using this
      · intro j hj
        cases j with
        | zero => exact h0
        | succ j => exact (hall j (by omega)).2
    · exact absurd h1 hr

/-- **success iff one of the attempts made succeeded**: a finished timed operation returned 0 iff its
    trace contains a successful attempt, iff attempt number `k` succeeded for the first `k` such
    that no reading before it (`clk 0 … clk (k-1)`) was past the deadline.  (`code ≠ 0`.) -/
theorem C20_timed_success_iff_attempt (code : Rc) (hcode : code ≠ Rc.ok) (abs : Ts) (clk : Clock)
    (out : Nat → Bool) (fuel : Nat) (r : Rc) (tr : List Ev)
    (h : timed code abs clk out fuel = some (r, tr)) :
    (r = Rc.ok ↔ Ev.attempt true ∈ tr) ∧
    (r = Rc.ok ↔ ∃ k, out k = true ∧ (∀ j, j < k → out j = false) ∧ (∀ i, i < k → gt (clk i) abs = false)) := by
  rcases (timed_some code abs clk out fuel r tr).mp h with ⟨h0, rfl, rfl⟩ | ⟨h0, n, _, hall, hcase⟩
  · refine ⟨by simp, by simp; exact ⟨0, h0, by intro j hj; omega, by intro j hj; omega⟩⟩
  · rcases hcase with ⟨hg, rfl, rfl⟩ | ⟨hg, ho, rfl, rfl⟩
    · constructor
      · have := timedTrace_timeout_no_success clk 0 n
        simp [hcode, this]
      · simp only [hcode, false_iff]
        rintro ⟨k, hk, hfirst, hlate⟩
        by_cases hkn : k ≤ n
        · cases k with
          | zero => simp [h0] at hk
          | succ k => have := (hall k (by omega)).2; simp [this] at hk
        · have := hlate n (by omega); simp [hg] at this
    · constructor
      · have := timedTrace_success_mem clk 0 n
        simp [this]
      · simp only [true_iff]
        refine ⟨n + 1, ho, ?_, ?_⟩
        · intro j hj
          cases j with
          | zero => exact h0
          | succ j => exact (hall j (by omega)).2
        · intro i hi
          by_cases hin : i < n
          · exact (hall i hin).1
          · rw [show i = n by omega]; exact hg

/-- **it succeeds whenever the mutex is free / the thread has finished at one of its attempts before
    the deadline**: if attempt `k` is the first that succeeds and no earlier reading was past the
    deadline, the operation returns 0 (given fuel for `k` iterations) — for every clock otherwise. -/
theorem C20_timed_succeeds_when_free (code : Rc) (abs : Ts) (clk : Clock) (out : Nat → Bool)
    (fuel k : Nat) (hk : out k = true) (hfirst : ∀ j, j < k → out j = false)
    (hlate : ∀ i, i < k → gt (clk i) abs = false) (hf : k ≤ fuel) :
    ∃ tr, timed code abs clk out fuel = some (Rc.ok, tr) := by
  cases k with
  | zero => exact ⟨_, (timed_some code abs clk out fuel _ _).mpr (Or.inl ⟨hk, rfl, rfl⟩)⟩
  | succ k =>
    refine ⟨_, (timed_some code abs clk out fuel _ _).mpr (Or.inr ⟨hfirst 0 (by omega), k, by omega, ?_,
      Or.inr ⟨hlate k (by omega), hk, rfl, rfl⟩⟩)⟩
    intro j hj
    exact ⟨hlate j (by omega), hfirst (j + 1) (by omega)⟩

/-- and it does time out — with the timeout code — at the first reading past the deadline when all
    attempts up to then fail -/
theorem C20_timed_times_out (code : Rc) (abs : Ts) (clk : Clock) (out : Nat → Bool)
    (fuel i : Nat) (hg : gt (clk i) abs = true) (hfirst : ∀ j, j < i → gt (clk j) abs = false)
    (hout : ∀ j, j ≤ i → out j = false) (hf : i < fuel) :
    ∃ tr, timed code abs clk out fuel = some (code, tr) := by
  refine ⟨_, (timed_some code abs clk out fuel _ _).mpr (Or.inr ⟨hout 0 (by omega), i, hf, ?_,
    Or.inl ⟨hg, rfl, rfl⟩⟩)⟩
  intro j hj
  exact ⟨hfirst j hj, hout (j + 1) (by omega)⟩

/-- **at least one attempt is always made**, before any clock reading — also for a deadline in the
    past; if that first attempt succeeds the clock is not read at all -/
theorem C20_timed_first_attempt_always (code : Rc) (abs : Ts) (clk : Clock) (out : Nat → Bool) (fuel : Nat) :
    (∀ r tr, timed code abs clk out fuel = some (r, tr) → ∃ rest, tr = Ev.attempt (out 0) :: rest) ∧
    (out 0 = true → timed code abs clk out fuel = some (Rc.ok, [Ev.attempt true])) := by
  constructor
  · intro r tr h
    rcases (timed_some code abs clk out fuel r tr).mp h with ⟨h0, _, rfl⟩ | ⟨h0, n, _, _, hcase⟩
    · exact ⟨[], by rw [h0]⟩
    · rcases hcase with ⟨_, _, rfl⟩ | ⟨_, _, _, rfl⟩ <;> exact ⟨_, by rw [h0]⟩
  · intro h0
    exact (timed_some code abs clk out fuel _ _).mpr (Or.inl ⟨h0, rfl, rfl⟩)

/-- between any two clock reads of a timed operation the caller yields
    (`myth_yield_ex_body(myth_yield_option_local_first)`) -/
theorem C20_timed_yields (code : Rc) (abs : Ts) (clk : Clock) (out : Nat → Bool) (fuel : Nat)
    (r : Rc) (tr : List Ev) (h : timed code abs clk out fuel = some (r, tr)) : Sep tr := by
  rcases (timed_some code abs clk out fuel r tr).mp h with ⟨_, _, rfl⟩ | ⟨_, n, _, _, hcase⟩
  · exact Sep_single _
  · rcases hcase with ⟨_, _, rfl⟩ | ⟨_, _, _, rfl⟩
    · exact Sep_cons_other (by intro a; simp) (timedTrace_Sep clk _ lastTimeout_Sep 0 n)
    · exact Sep_cons_other (by intro a; simp) (timedTrace_Sep clk _ lastSuccess_Sep 0 n)

/-- the timeout code of both operations in the current source is ETIMEDOUT -/
theorem C20_timeout_code (abs : Ts) (clk : Clock) (out : Nat → Bool) (fuel : Nat) (r : Rc) (tr : List Ev) :
    (timedlock abs clk out fuel = some (r, tr) → r = Rc.ok ∨ r = Rc.etimedout) ∧
    (timedjoin abs clk out fuel = some (r, tr) → r = Rc.ok ∨ r = Rc.etimedout) := by
  constructor <;> intro h <;> by_cases hr : r = Rc.ok
  · exact Or.inl hr
  · exact Or.inr (C20_timed_timeout_after_deadline _ abs clk out fuel r tr h hr).1
  · exact Or.inl hr
  · exact Or.inr (C20_timed_timeout_after_deadline _ abs clk out fuel r tr h hr).1

/-- the fuel only bounds how far the model looks: a finished run is the same for every larger fuel -/
theorem C20_fuel_irrelevant (f f' : Nat) (hf : f ≤ f') :
    (∀ req clk x, nanosleep req clk f = some x → nanosleep req clk f' = some x) ∧
    (∀ code abs clk out x, timed code abs clk out f = some x → timed code abs clk out f' = some x) := by
  constructor
  · intro req clk x h
    obtain ⟨r, tr⟩ := x
    rcases C20_nanosleep_codes req clk f r tr h with rfl | rfl
    · obtain ⟨hv, n, hn, rest⟩ := (nanosleep_ok req clk f tr).mp h
      exact (nanosleep_ok req clk f' tr).mpr ⟨hv, n, by omega, rest⟩
    · have htr := (C20_einval_iff req clk f).2.2 tr h
      have hm := (C20_einval_iff req clk f).1.mp ⟨tr, h⟩
      obtain ⟨tr', h'⟩ := (C20_einval_iff req clk f').1.mpr hm
      have htr' := (C20_einval_iff req clk f').2.2 tr' h'
      rw [htr]; rw [htr'] at h'; exact h'
  · intro code abs clk out x h
    obtain ⟨r, tr⟩ := x
    rcases (timed_some code abs clk out f r tr).mp h with h1 | ⟨h0, n, hn, rest⟩
    · exact (timed_some code abs clk out f' r tr).mpr (Or.inl h1)
    · exact (timed_some code abs clk out f' r tr).mpr (Or.inr ⟨h0, n, by omega, rest⟩)

/-! ### non-vacuity, and refutations of the pinned snapshot -/

def clkStep (base : Ts) (step : Int) : Clock := fun i => { sec := base.sec, nsec := base.nsec + step * i }

/-- carry: 0.999999999 s + 0.000000001 s = 1.0 s -/
example : add ⟨1, 999999999⟩ ⟨2, 1⟩ = ⟨4, 0⟩ := by decide

/-- a sleep of 5 ns on a clock ticking 3 ns per reading: start, two early readings, then 6 > 5 -/
example : nanosleep ⟨0, 5⟩ (clkStep ⟨100, 0⟩ 3) 10 =
    some (Rc.ok, [Ev.clock ⟨100, 0⟩, Ev.clock ⟨100, 3⟩, Ev.yield, Ev.clock ⟨100, 6⟩]) := by decide

/-- a reading EQUAL to start + req is not enough (strict comparison) -/
example : nanosleep ⟨0, 3⟩ (clkStep ⟨100, 0⟩ 3) 10 =
    some (Rc.ok, [Ev.clock ⟨100, 0⟩, Ev.clock ⟨100, 3⟩, Ev.yield, Ev.clock ⟨100, 6⟩]) := by decide

/-- boundary durations -/
example : nanosleep ⟨0, 1000000000⟩ (clkStep ⟨100, 0⟩ 3) 10 = some (Rc.einval, []) := by decide
example : nanosleep ⟨0, -1⟩ (clkStep ⟨100, 0⟩ 3) 10 = some (Rc.einval, []) := by decide
example : nanosleep ⟨-1, 0⟩ (clkStep ⟨100, 0⟩ 3) 10 = some (Rc.einval, []) := by decide
example : (nanosleep ⟨0, 999999999⟩ (clkStep ⟨100, 0⟩ 600000000) 10).map (·.1) = some Rc.ok := by decide

/-- a timed lock whose deadline is already past still makes its attempt and gets a free mutex -/
example : timedlock ⟨5, 0⟩ (clkStep ⟨100, 0⟩ 1) (fun _ => true) 0 = some (Rc.ok, [Ev.attempt true]) := by decide

/-- held all the time: timeout at the first reading past the deadline, after 3 attempts -/
example : timedlock ⟨100, 1⟩ (clkStep ⟨100, 0⟩ 1) (fun _ => false) 10 =
    some (Rc.etimedout, [Ev.attempt false, Ev.clock ⟨100, 0⟩, Ev.attempt false, Ev.yield,
      Ev.clock ⟨100, 1⟩, Ev.attempt false, Ev.yield, Ev.clock ⟨100, 2⟩]) := by decide

/-- released before the deadline: success at the third attempt -/
example : timedlock ⟨100, 5⟩ (clkStep ⟨100, 0⟩ 1) (fun k => decide (k ≥ 2)) 10 =
    some (Rc.ok, [Ev.attempt false, Ev.clock ⟨100, 0⟩, Ev.attempt false, Ev.yield,
      Ev.clock ⟨100, 1⟩, Ev.attempt true]) := by decide

/-- **the pinned snapshot violated C20 (1)**: with `tv_sec = INT64_MAX` the pinned addition wraps
    to a time in the past and `myth_nanosleep` returns 0 at its very first check — a valid request,
    normalised in-range readings, yet the reading it returned on is earlier than start + req. -/
theorem C20_pinned_nanosleep_returns_early :
    let req : Ts := ⟨tMax, 0⟩
    let clk : Clock := clkStep ⟨100, 0⟩ 1
    (0 ≤ req.sec ∧ Norm req ∧ InT req.sec) ∧
    nanosleepPinned req clk 1 = some (Rc.ok, [Ev.clock (clk 0), Ev.clock (clk 1)]) ∧
    toNs (clk 1) < toNs (clk 0) + toNs req := by decide

/-- … while the current source never returns 0 on that input (every reading is before the saturated
    wake-up time) -/
theorem C20_fixed_nanosleep_overflow_never_returns (clk : Clock) (fuel : Nat)
    (hclk : ∀ i, Norm (clk i) ∧ InT (clk i).sec) (h0 : 0 < (clk 0).sec) :
    nanosleep ⟨tMax, 0⟩ clk fuel = none := by
  cases h : nanosleep ⟨tMax, 0⟩ clk fuel with
  | none => rfl
  | some x =>
    obtain ⟨r, tr⟩ := x
    rcases C20_nanosleep_codes _ clk fuel r tr h with rfl | rfl
    · obtain ⟨i, _, _, hlt, _⟩ := C20_nanosleep_min ⟨tMax, 0⟩ clk fuel tr hclk h
      have hi := hclk i
      have h00 := hclk 0
      unfold Norm InT toNs at *
      unfold NS tMax tMin at *
      simp only at hlt
      omega
    · have := (C20_einval_iff ⟨tMax, 0⟩ clk fuel).1.mp ⟨tr, h⟩
      simp [tMax] at this

/-- **the pinned snapshot violated C20 (2)**: `myth_timedjoin` reported an expired deadline with
    EBUSY, which is not a timeout error (pthread_timedjoin_np: ETIMEDOUT) -/
theorem C20_pinned_timedjoin_timeout_is_ebusy :
    timedjoinPinned ⟨5, 0⟩ (clkStep ⟨100, 0⟩ 1) (fun _ => false) 1 =
      some (Rc.ebusy, [Ev.attempt false, Ev.clock ⟨100, 0⟩]) ∧ Rc.ebusy ≠ Rc.etimedout := by decide

end MythVerif.Time
