import MythVerif.Proofs.Bulk
import MythVerif.Proofs.ParFor
import MythVerif.Proofs.TaskGroup
/-!
# C17 — bulk fork-join helpers equal the sequential loop

Models: `MythVerif.Bulk` (`myth_create_join_various_ex` / `_many_ex`, `src/myth_sched_func.h`),
`MythVerif.ParFor` (`mtbb::parallel_for`, all forms, `src/mtbb/parallel_for.h`),
`MythVerif.TaskGroup` (`mtbb::task_group`, `src/mtbb/task_group.h`).

Quantification: every `n ≥ 0`, every base address and stride combination, `ids` / `results` /
`attrs` NULL or not; every `(first, last, step)` with `step ≥ 1`, every `grain ≥ 1`; every
sequence of `run` / `wait` calls on a task group with every task size; every schedule of the
created threads on any number of workers (`Sched`: all interleavings of a created thread with
its creator's continuation up to the join).  The recursions carry fuel (`none` = did not
finish), so termination is a theorem, not an assumption; the results do not depend on the fuel.

`parFor*` is the current source (range test at the entry points); `parForPinned*` is the
pinned snapshot, kept with its refutation (D8).
-/

namespace MythVerif.Bulk

/-- **termination**: `myth_create_join_various_ex` returns for every `n` (fuel `n + 1` is
    enough) and the fork-join structure it builds does not depend on the fuel -/
theorem C17_various_terminates (p : Params) (n : Nat) :
    ∃ t, variousF p (fuelFor n) n = some t ∧ ∀ fuel t', variousF p fuel n = some t' → t' = t := by
  unfold variousF fuelFor
  by_cases hn : n = 0
  · simp only [hn, if_true]
    exact ⟨_, rfl, fun _ _ h => (Option.some.inj h).symm⟩
  · simp only [hn, if_false]
    obtain ⟨t, ht, _⟩ := auxF_spec p (n + 1) 0 n (by omega) (by omega)
    exact ⟨t, ht, fun fuel t' h => auxF_unique p _ _ 0 n t' t h ht⟩

/-- **equals the sequential loop**: on one worker the item effects (store of the thread id, the
    call `f_i(args + i*arg_stride)`, store of the result) happen exactly as in
    `for i in [0,n)`, in that order; on any number of workers, in any schedule, they are a
    permutation of it — every item's effects happen exactly once before the helper returns,
    nothing else happens; `n - 1` threads are created -/
theorem C17_various_eq_loop (p : Params) (n fuel : Nat) (t : FJ Eff)
    (h : variousF p fuel n = some t) :
    t.seq.filter Eff.isItem = loop p n ∧
    (∀ s, Sched t s → (s.filter Eff.isItem).Perm (loop p n)) ∧
    t.forks = n - 1 := by
  obtain ⟨h1, h2⟩ := variousF_spec p n fuel t h
  refine ⟨h1, ?_, h2⟩
  intro s hs
  rw [← h1]
  exact hs.perm.filter _

/-- **each function applied exactly once to its argument**: in every schedule the calls, as
    (function slot, argument address) pairs, are those of the loop:
    `(funcs + i*func_stride, args + i*arg_stride)` for `i < n`, each once (as a multiset; for
    stride 0 the pairs repeat and are counted with multiplicity) -/
theorem C17_various_calls (p : Params) (n fuel : Nat) (t : FJ Eff) (s : List Eff)
    (h : variousF p fuel n = some t) (hs : Sched t s) :
    (s.filterMap Eff.callOf).Perm
      ((List.range n).map fun i => (p.funcs + i * p.funcStride, p.args + i * p.argStride)) := by
  rw [← loop_callOf]
  exact hs.observe _ callOf_nonitem (variousF_spec p n fuel t h).1

/-- **results and ids go to their strided slots, and nowhere else**: in every schedule the
    addresses stored to are exactly `results + i*result_stride` (when `results` is given) and
    `ids + i*id_stride` (when `ids` is given), `i < n`; with NULL nothing is stored -/
theorem C17_various_writes (p : Params) (n fuel : Nat) (t : FJ Eff) (s : List Eff)
    (h : variousF p fuel n = some t) (hs : Sched t s) :
    (s.filterMap Eff.resAddr).Perm
      (match p.results with
        | some r => (List.range n).map fun i => r + i * p.resStride
        | none => []) ∧
    (s.filterMap Eff.idAddr).Perm
      (match p.ids with
        | some r => (List.range n).map fun i => r + i * p.idStride
        | none => []) ∧
    (∀ a ∈ s.filterMap Eff.written,
      (∃ r i, p.results = some r ∧ i < n ∧ a = r + i * p.resStride) ∨
      (∃ r i, p.ids = some r ∧ i < n ∧ a = r + i * p.idStride)) := by
  have hL := (variousF_spec p n fuel t h).1
  have h1 := hs.observe _ resAddr_nonitem hL
  have h2 := hs.observe _ idAddr_nonitem hL
  rw [loop_resAddr] at h1
  rw [loop_idAddr] at h2
  refine ⟨h1, h2, ?_⟩
  intro a ha
  have hw := hs.observe _ written_nonitem' hL
  have ha' := hw.mem_iff.mp ha
  simp only [loop, List.filterMap_flatMap, List.mem_flatMap, List.mem_range] at ha'
  obtain ⟨i, hi, hm⟩ := ha'
  rw [written_item] at hm
  cases hids : p.ids with
  | none =>
    cases hres : p.results with
    | none => simp [hids, hres] at hm
    | some r => simp [hids, hres] at hm; exact .inl ⟨r, i, rfl, hi, hm⟩
  | some d =>
    cases hres : p.results with
    | none => simp [hids, hres] at hm; exact .inr ⟨d, i, rfl, hi, hm⟩
    | some r =>
      simp [hids, hres] at hm
      rcases hm with hm | hm
      · exact .inr ⟨d, i, rfl, hi, hm⟩
      · exact .inl ⟨r, i, rfl, hi, hm⟩

/-- **each slot written exactly once** (positive stride: the slots are distinct) -/
theorem C17_various_slot_once (p : Params) (n fuel : Nat) (t : FJ Eff) (s : List Eff)
    (h : variousF p fuel n = some t) (hs : Sched t s) (i : Nat) (hi : i < n) :
    (∀ r, p.results = some r → 0 < p.resStride →
      (s.filterMap Eff.resAddr).count (r + i * p.resStride) = 1) ∧
    (∀ r, p.ids = some r → 0 < p.idStride →
      (s.filterMap Eff.idAddr).count (r + i * p.idStride) = 1) := by
  obtain ⟨h1, h2, _⟩ := C17_various_writes p n fuel t s h hs
  constructor
  · intro r hr hst
    rw [hr] at h1
    rw [h1.count_eq]
    exact count_strided r _ n i hst hi
  · intro r hr hst
    rw [hr] at h2
    rw [h2.count_eq]
    exact count_strided r _ n i hst hi

/-- **`n = 0` does nothing**: no call, no store, no thread, for every fuel and in every schedule -/
theorem C17_various_zero (p : Params) (fuel : Nat) :
    variousF p fuel 0 = some (.leaf []) ∧ ∀ s, Sched (.leaf ([] : List Eff)) s → s = [] := by
  refine ⟨by simp [variousF], ?_⟩
  intro s hs
  cases hs
  rfl

/-- **`many` is `various` with function stride 0**: same structure, and every call goes
    through the one function slot -/
theorem C17_many_eq_various (ids attrs : Option Nat) (slot args : Nat) (results : Option Nat)
    (idStride attrStride argStride resStride fuel n : Nat) :
    manyF ids attrs slot args results idStride attrStride argStride resStride fuel n =
      variousF { ids, attrs, funcs := slot, args, results, idStride, attrStride,
                 funcStride := 0, argStride, resStride } fuel n ∧
    ∀ t s, manyF ids attrs slot args results idStride attrStride argStride resStride fuel n = some t →
      Sched t s → (s.filterMap Eff.callOf).Perm ((List.range n).map fun i => (slot, args + i * argStride)) := by
  refine ⟨rfl, ?_⟩
  intro t s h hs
  have := C17_various_calls _ n fuel t s h hs
  simpa using this

/-- **returns only after everything**: in every schedule of a fork, what follows the join comes
    after all effects of the created thread and of the continuation, what precedes the creation
    comes before them (applied at every level of the recursion: the `joined` event of `[a,b)`
    follows every item of `[a,b)`) -/
theorem C17_join_after_all {ε : Type} (pre post : List ε) (l r : FJ ε) (s : List ε)
    (h : Sched (.fork pre l r post) s) :
    ∃ m, s = pre ++ m ++ post ∧ m.Perm (l.seq ++ r.seq) :=
  h.fork_inv

/-- the one-worker order is one of the schedules (so the statements about all schedules are
    not vacuous) -/
theorem C17_seq_is_schedule {ε : Type} (t : FJ ε) : Sched t t.seq := Sched.of_seq t

/-! non-vacuity -/

def pEx : Params := { ids := some 1000, results := some 2000, funcs := 3000, args := 4000,
                      idStride := 8, resStride := 16, funcStride := 8, argStride := 24 }

example : (variousF pEx (fuelFor 5) 5).map (fun t => (t.seq.filter Eff.isItem, t.forks)) =
    some (loop pEx 5, 4) := by decide

example : (variousF pEx (fuelFor 3) 3).map FJ.seq = some
    [.split 0 1 3, .attr none 0, .storeId 1000 0, .call 3000 4000 0, .storeRes 2000 0,
     .split 1 2 3, .attr none 1, .storeId 1008 1, .call 3008 4024 1, .storeRes 2016 1,
     .storeId 1016 2, .call 3016 4048 2, .storeRes 2032 2, .joined 1 2 3, .joined 0 1 3] := by decide

end MythVerif.Bulk

namespace MythVerif.ParFor
open MythVerif.Bulk

/-- **`parallel_for(first, last, step, f)` is the sequential loop** (`step ≥ 1`): it returns;
    on one worker the body is called on exactly the indices of
    `for (i = first; i < last; i += step)`, in that order; in every schedule on any number of
    workers on a permutation of them (each index exactly once, no other index); the body is
    never called on a chunk -/
theorem C17_parfor_eq_loop (first last step : Int) (hs : 0 < step) :
    ∃ t, parForStep first last step (fuelFor (last - first)) = some t ∧
      t.seq = (seqLoop first last step).map Ev.call ∧
      ∀ s, Sched t s → (calls s).Perm (seqLoop first last step) ∧ chunks s = [] := by
  have key : ∀ t : FJ Ev, t.seq = (seqLoop first last step).map Ev.call →
      ∀ s, Sched t s → (calls s).Perm (seqLoop first last step) ∧ chunks s = [] := by
    intro t ht s hsch
    have hp := hsch.perm
    rw [ht] at hp
    constructor
    · have := calls_perm hp
      rwa [calls_map_call] at this
    · have := chunks_perm hp
      rw [chunks_map_call] at this
      exact this.eq_nil
  unfold parForStep
  by_cases h : first < last
  · rw [if_neg (by omega)]
    obtain ⟨c0, c1, c2⟩ := count_bounds first last step hs h
    have hle : count first last step ≤ last - first := by
      have : (count first last step - 1) * 1 ≤ (count first last step - 1) * step :=
        Int.mul_le_mul_of_nonneg_left (by omega) (by omega)
      omega
    obtain ⟨t, ht, hseq⟩ := auxF_spec first step (fuelFor (last - first)) 0 (count first last step)
      c0 (by unfold fuelFor; omega)
    refine ⟨t, ht, ?_, ?_⟩
    · rw [hseq, seqLoop_eq_idx first last step hs h]; simp
    · exact key t (by rw [hseq, seqLoop_eq_idx first last step hs h]; simp)
  · rw [if_pos h]
    refine ⟨_, rfl, ?_, ?_⟩
    · simp [FJ.seq, seqLoop_empty first last step h]
    · exact key _ (by simp [FJ.seq, seqLoop_empty first last step h])

/-- **`parallel_for(first, last, f)`** is `for (i = first; i < last; i++) f(i)` -/
theorem C17_parfor_unit_step (first last : Int) :
    ∃ t, parFor first last (fuelFor (last - first)) = some t ∧
      t.seq = (seqLoop first last 1).map Ev.call ∧
      ∀ s, Sched t s → (calls s).Perm (seqLoop first last 1) := by
  obtain ⟨t, ht, hseq, hall⟩ := C17_parfor_eq_loop first last 1 (by omega)
  refine ⟨t, ?_, hseq, fun s hs => (hall s hs).1⟩
  unfold parFor
  unfold parForStep at ht
  by_cases h : first < last
  · rw [if_neg (by omega)] at ht ⊢
    have : count first last 1 = last - first := by
      unfold count; rw [Int.tdiv_eq_ediv_of_nonneg (by omega)]; omega
    rw [this] at ht; exact ht
  · rw [if_pos h] at ht ⊢; exact ht

/-- **empty and reversed ranges**: every form returns without calling the body at all, for
    every fuel (also for a non-positive step or grain: the range test comes first) -/
theorem C17_parfor_empty (first last step grain : Int) (fuel : Nat) (h : ¬ first < last) :
    parFor first last fuel = some (.leaf []) ∧
    parForStep first last step fuel = some (.leaf []) ∧
    parForGrain first last step grain fuel = some (.leaf []) ∧
    seqLoop first last step = [] := by
  refine ⟨?_, ?_, ?_, seqLoop_empty first last step h⟩ <;>
    simp [parFor, parForStep, parForGrain, h]

/-- **the results do not depend on the fuel**: once a form returns within some fuel it returns
    the same structure within every larger fuel (so "returns" is meaningful) -/
theorem C17_parfor_fuel_irrelevant (first last step grain : Int) (fuel fuel' : Nat)
    (hle : fuel ≤ fuel') (t : FJ Ev) :
    (parFor first last fuel = some t → parFor first last fuel' = some t) ∧
    (parForStep first last step fuel = some t → parForStep first last step fuel' = some t) ∧
    (parForGrain first last step grain fuel = some t →
      parForGrain first last step grain fuel' = some t) := by
  unfold parFor parForStep parForGrain
  by_cases h : first < last
  · simp only [h, not_true_eq_false, if_false]
    exact ⟨auxF_mono_le first 1 fuel fuel' _ _ t hle, auxF_mono_le first step fuel fuel' _ _ t hle,
      grainAuxF_mono_le first step grain fuel fuel' _ _ t hle⟩
  · simp only [h, not_false_eq_true, if_true]
    exact ⟨id, id, id⟩

/-- **the pinned snapshot violated C17** (D8): on an empty or reversed range — e.g.
    `mtbb::parallel_for(3, 3, f)` — the pinned entry points hand `b ≤ a` to `parallel_for_aux`,
    whose recursion has no base case for it: no amount of fuel lets the call return -/
theorem C17_parfor_pinned_diverges (first last step : Int) (h : ¬ first < last) :
    (∀ fuel, parForPinned first last fuel = none) ∧
    (0 < step → ∀ fuel, parForPinnedStep first last step fuel = none) := by
  constructor
  · intro fuel
    exact auxF_diverges first 1 fuel 0 (last - first) (by omega)
  · intro hs fuel
    apply auxF_diverges
    unfold count
    by_cases hx : 0 ≤ last - first + step - 1
    · rw [Int.tdiv_eq_ediv_of_nonneg hx, Int.ediv_eq_zero_of_lt hx (by omega)]; omega
    · exact tdiv_nonpos_of_nonpos _ _ (by omega) hs

/-- the concrete witness of DESIGN §5 D8 -/
theorem C17_parfor_pinned_3_3 : ∀ fuel, parForPinned 3 3 fuel = none :=
  (C17_parfor_pinned_diverges 3 3 1 (by omega)).1

/-- **grain-size form** (`step ≥ 1`, `grain ≥ 1`): it returns; the body is called on chunks
    `[lo,hi)` only; the chunk loops `for (i = lo; i < hi; i += step)`, chunk after chunk, visit
    exactly the indices of the sequential loop, in order — so every index is covered by exactly
    one chunk —; every chunk is non-empty, at most `grain` indices wide and inside the range;
    in every schedule the chunks are a permutation of those -/
theorem C17_grain (first last step grain : Int) (hs : 0 < step) (hg : 1 ≤ grain) :
    ∃ t, parForGrain first last step grain (fuelFor (last - first)) = some t ∧
      calls t.seq = [] ∧
      covered step (chunks t.seq) = seqLoop first last step ∧
      (∀ c ∈ chunks t.seq, first ≤ c.1 ∧ c.1 < c.2 ∧ c.2 - c.1 ≤ grain * step ∧
        c.2 ≤ first + count first last step * step) ∧
      ∀ s, Sched t s → (chunks s).Perm (chunks t.seq) ∧ calls s = [] := by
  have sched : ∀ t : FJ Ev, calls t.seq = [] →
      ∀ s, Sched t s → (chunks s).Perm (chunks t.seq) ∧ calls s = [] := by
    intro t ht s hsch
    have hp := hsch.perm
    refine ⟨chunks_perm hp, ?_⟩
    have := calls_perm hp
    rw [ht] at this
    exact this.eq_nil
  unfold parForGrain
  by_cases h : first < last
  · rw [if_neg (by omega)]
    obtain ⟨c0, c1, c2⟩ := count_bounds first last step hs h
    have hle : count first last step ≤ last - first := by
      have : (count first last step - 1) * 1 ≤ (count first last step - 1) * step :=
        Int.mul_le_mul_of_nonneg_left (by omega) (by omega)
      omega
    obtain ⟨t, cs, ht, htl, hseq⟩ := grainAuxF_spec first step grain hg
      (fuelFor (last - first)) 0 (count first last step) c0 (by unfold fuelFor; omega)
    have hch : chunks t.seq = cs.map fun c => (first + c.1 * step, first + c.2 * step) := by
      rw [hseq]; exact chunks_map_chunk _ _ cs
    have hca : calls t.seq = [] := by
      rw [hseq]; exact calls_map_chunk _ _ cs
    refine ⟨t, ht, hca, ?_, ?_, sched t hca⟩
    · rw [hch, htl.covered_eq first step grain hs, seqLoop_eq_idx first last step hs h]
      simp
    · intro c hc
      rw [hch] at hc
      obtain ⟨x, hx, rfl⟩ := List.mem_map.mp hc
      obtain ⟨m1, m2, m3, m4⟩ := Tiles.mem grain cs _ _ htl x hx
      simp only
      have e1 : 0 ≤ x.1 * step := Int.mul_nonneg m1 (by omega)
      have e2 : x.1 * step < x.2 * step := Int.mul_lt_mul_of_pos_right m2 hs
      have e3 : (x.2 - x.1) * step ≤ grain * step := Int.mul_le_mul_of_nonneg_right m3 (by omega)
      have e4 : x.2 * step ≤ count first last step * step := Int.mul_le_mul_of_nonneg_right m4 (by omega)
      rw [Int.sub_mul] at e3
      refine ⟨by omega, by omega, by omega, by omega⟩
  · rw [if_pos h]
    refine ⟨_, rfl, by simp [FJ.seq, calls], by simp [FJ.seq, chunks, covered, seqLoop_empty first last step h],
      by simp [FJ.seq, chunks], sched _ (by simp [FJ.seq, calls])⟩

/-- every index of the loop is visited by the chunk loops exactly once -/
theorem C17_grain_each_index_once (first last step grain : Int) (hs : 0 < step) (hg : 1 ≤ grain)
    (t : FJ Ev) (h : parForGrain first last step grain (fuelFor (last - first)) = some t) (i : Int) :
    (covered step (chunks t.seq)).count i = if i ∈ seqLoop first last step then 1 else 0 := by
  obtain ⟨t', ht', _, hc, _⟩ := C17_grain first last step grain hs hg
  rw [h] at ht'
  cases ht'
  rw [hc]
  apply List.Nodup.count
  by_cases hfl : first < last
  · rw [seqLoop_eq_idx first last step hs hfl]
    unfold idx
    apply List.Pairwise.map _ _ List.nodup_range
    intro a b hab heq
    apply hab
    have h1 : ((a : Int)) * step = (b : Int) * step := by
      simp only [Int.zero_add] at heq; omega
    have := Int.eq_of_mul_eq_mul_right (by omega) h1
    omega
  · rw [seqLoop_empty first last step hfl]; exact List.nodup_nil

/-- **the pinned grain-size form called the body on an empty range** (second part of D8's
    family): with `last ≤ first` it made one call `f(first, first + n*step)` with `n ≤ 0`, an
    empty or reversed chunk, where the property demands no call at all -/
theorem C17_grain_pinned_calls_body_on_empty (first last step grain : Int) (fuel : Nat)
    (h : ¬ first < last) (hs : 0 < step) (hg : 0 ≤ grain) :
    ∃ hi, hi ≤ first ∧
      parForGrainPinned first last step grain (fuel + 1) = some (.leaf [Ev.chunk first hi]) := by
  have hc : count first last step ≤ 0 := by
    unfold count
    by_cases hx : 0 ≤ last - first + step - 1
    · rw [Int.tdiv_eq_ediv_of_nonneg hx, Int.ediv_eq_zero_of_lt hx (by omega)]; omega
    · exact tdiv_nonpos_of_nonpos _ _ (by omega) hs
  refine ⟨first + count first last step * step, ?_, ?_⟩
  · have : count first last step * step ≤ 0 := Int.mul_nonpos_of_nonpos_of_nonneg hc (by omega)
    omega
  · unfold parForGrainPinned grainAuxF
    rw [if_pos (by omega)]
    simp

/-- **range-class form** over `(begin, end, grain)`, `grain ≥ 1`: it returns; an empty range
    makes no call; otherwise the chunks `[lo,hi)` handed to the body tile `[begin,end)` from left
    to right, each non-empty and at most `grain` wide, and their loops visit `begin … end-1`
    once each in order -/
theorem C17_range_form (grain b e : Int) (hg : 1 ≤ grain) :
    ∃ t, rangeF grain (fuelFor (e - b)) b e = some t ∧
      calls t.seq = [] ∧
      covered 1 (chunks t.seq) = seqLoop b e 1 ∧
      (∀ c ∈ chunks t.seq, b ≤ c.1 ∧ c.1 < c.2 ∧ c.2 - c.1 ≤ grain ∧ c.2 ≤ e) ∧
      (¬ b < e → t.seq = []) ∧
      ∀ s, Sched t s → (chunks s).Perm (chunks t.seq) ∧ (calls s).Perm (calls t.seq) := by
  obtain ⟨t, cs, ht, hseq, htl⟩ := rangeF_spec grain hg (fuelFor (e - b)) b e (by unfold fuelFor; omega)
  have hch : chunks t.seq = cs := by
    rw [hseq, chunks_map_chunk]; simp
  refine ⟨t, ht, by rw [hseq]; exact calls_map_chunk _ _ cs, ?_, ?_, ?_,
    fun s hs => ⟨chunks_perm hs.perm, calls_perm hs.perm⟩⟩
  · rw [hch]
    by_cases hbe : b < e
    · rw [if_pos hbe] at htl
      have := htl.covered_eq 0 1 grain (by omega)
      simp only [Int.mul_one, Int.zero_add, List.map_id'] at this
      rw [this]
      have hcount : count b e 1 = e - b := by
        unfold count; rw [Int.tdiv_eq_ediv_of_nonneg (by omega)]; omega
      rw [seqLoop_eq_idx b e 1 (by omega) hbe, hcount]
      unfold idx
      apply List.map_congr_left
      intro k _
      omega
    · rw [if_neg hbe] at htl
      rw [htl, seqLoop_empty b e 1 hbe]; rfl
  · intro c hc
    rw [hch] at hc
    by_cases hbe : b < e
    · rw [if_pos hbe] at htl
      exact Tiles.mem grain cs _ _ htl c hc
    · rw [if_neg hbe] at htl; rw [htl] at hc; simp at hc
  · intro hbe
    rw [if_neg hbe] at htl
    rw [hseq, htl]; rfl

/-! non-vacuity -/

example : (parForStep 3 20 4 (fuelFor 17)).map (fun t => calls t.seq) = some [3, 7, 11, 15, 19] := by decide
example : seqLoop 3 20 4 = [3, 7, 11, 15, 19] := by decide
example : (parForGrain 0 10 1 3 (fuelFor 10)).map (fun t => chunks t.seq) =
    some [(0, 2), (2, 5), (5, 7), (7, 10)] := by decide
example : ((parFor 3 3 5).map FJ.seq, (parFor 5 3 5).map FJ.seq) = (some [], some []) := by decide
example : (parForGrainPinned 3 3 1 2 1).map FJ.seq = some [Ev.chunk 3 3] := by decide
example : (rangeF 2 (fuelFor 7) 0 7).map (fun t => chunks t.seq) =
    some [(0, 1), (1, 3), (3, 5), (5, 7)] := by decide

end MythVerif.ParFor

namespace MythVerif.TaskGroup
open MythVerif.Bulk

/-- **`wait` joins exactly the tasks added, in order, and leaves the lists empty**: in any
    reachable state, after any number of further `run` calls (with any task sizes — also more
    than the inline capacity of the list, more than a memory chunk), `wait` joins the tasks
    still pending followed by the new ones, each once, in `run` order, and afterwards the task
    list is the empty inline node and the allocator the empty inline chunk -/
theorem C17_taskgroup_wait_all (cfg : Cfg) (hc : 0 < cfg.cap) (g : TG) (hr : Reach cfg g)
    (sizes : List Nat) :
    ((g.runs cfg sizes).wait cfg).1 =
        List.range' (g.next - g.blocks.length) (g.blocks.length + sizes.length) ∧
    ((g.runs cfg sizes).wait cfg).2.tasks = TaskList.init ∧
    ((g.runs cfg sizes).wait cfg).2.mem = Mem.init cfg ∧
    ((g.runs cfg sizes).wait cfg).2.blocks = [] := by
  have hi := runs_inv cfg hc sizes g (reach_inv cfg hc g hr)
  have hb := runs_blocks cfg sizes g
  have hlen : (g.runs cfg sizes).blocks.length = g.blocks.length + sizes.length := by
    have := congrArg List.length hb.1
    simpa using this
  refine ⟨?_, rfl, rfl, rfl⟩
  simp only [TG.wait]
  rw [hi.ids, hlen, hb.2]
  congr 1
  have := (reach_inv cfg hc g hr).le
  omega

/-- the fresh task group: `k` runs then `wait` joins tasks `0 … k-1` in order -/
theorem C17_taskgroup_wait_fresh (cfg : Cfg) (hc : 0 < cfg.cap) (sizes : List Nat) :
    (((TG.init cfg).runs cfg sizes).wait cfg).1 = List.range sizes.length := by
  have := (C17_taskgroup_wait_all cfg hc _ Reach.init sizes).1
  rw [this, List.range_eq_range']
  simp [TG.init]

/-- **chunked list**: in every reachable state every node before the tail holds exactly
    `capacity` tasks, the tail at most `capacity`, and a heap node is never empty -/
theorem C17_taskgroup_list_shape (cfg : Cfg) (hc : 0 < cfg.cap) (g : TG) (hr : Reach cfg g) :
    (∀ n ∈ g.tasks.full, n.length = cfg.cap) ∧ g.tasks.tail.length ≤ cfg.cap ∧
    (g.tasks.full ≠ [] → g.tasks.tail ≠ []) :=
  (reach_inv cfg hc g hr).shape

/-- **task memory blocks are disjoint**: in every reachable state the blocks handed out since
    the last `wait` are pairwise disjoint, each lies inside the used part of its chunk, which is
    inside the chunk; a block has the size requested -/
theorem C17_task_memory_disjoint (cfg : Cfg) (hc : 0 < cfg.cap) (g : TG) (hr : Reach cfg g) :
    g.blocks.Pairwise Block.disjoint ∧
    (∀ b ∈ g.blocks, ∃ sz used, g.mem.chunks[b.chunk]? = some (sz, used) ∧
      b.off + b.size ≤ used ∧ used ≤ sz) ∧
    ∀ sizes, (g.runs cfg sizes).blocks.map Block.size = g.blocks.map Block.size ++ sizes := by
  have hi := reach_inv cfg hc g hr
  exact ⟨hi.mem.2.2, hi.mem.2.1, fun sizes => (runs_blocks cfg sizes g).1⟩

/-- **every task handed to a task group has completed when `wait` returns**: in every schedule
    of `tg.run(t₁); …; tg.run(tₖ); rest; tg.wait()` all effects of all tasks (and of `rest`) have
    happened, each exactly once, by the time `wait` returns -/
theorem C17_taskgroup_all_complete {ε : Type} (ts : List (FJ ε)) (rest : FJ ε) (s : List ε)
    (h : Sched (usage ts rest) s) : s.Perm (ts.flatMap FJ.seq ++ rest.seq) := by
  have hp := h.perm
  refine hp.trans ?_
  clear hp h
  induction ts with
  | nil => simp [usage]
  | cons t ts ih =>
    simp only [usage, FJ.seq, List.nil_append, List.append_nil, List.flatMap_cons, List.append_assoc]
    exact List.Perm.append (List.Perm.refl _) ih

/-! non-vacuity: 19 runs (capacity 8) with small and oversized tasks -/

def sizesEx : List Nat := [24, 40, 300, 24, 24, 200, 100, 24, 24, 24, 24, 24, 24, 24, 24, 24, 24, 24, 24]

example : ((TG.init {}).runs {} sizesEx).tasks.nodes.map List.length = [8, 8, 3] := by decide
example : (((TG.init {}).runs {} sizesEx).blocks.take 7).map (fun b => (b.chunk, b.off)) =
    [(0, 0), (0, 24), (1, 0), (2, 0), (2, 24), (2, 48), (3, 0)] := by decide
example : (((TG.init {}).runs {} sizesEx).wait {}).1 = List.range 19 := by decide

end MythVerif.TaskGroup
