import MythVerif.Proofs.PiDagCert
import MythVerif.Proofs.PiDagIntern
/-!
# C19 — DAG files are well formed and survive a dump / read / convert round trip

Model: `MythVerif.PiDag` (`Model/PiDag.lean`): the position independent DAG (`T`, `E`, `S`),
`flatten` = `dr_make_pi_dag`, `shrink` = `dr_copy_pi_dag` (the `dag2any --shrink` path),
`wellFormed` = an executable checker of everything C19 asks of a dumped / converted DAG (offsets
inside the DAG, children contiguous, edge endpoints leaves of the DAG, edges grouped by source with
`edges_begin/end` a partition of `E`, `m` = the counted number, string indices inside a
duplicate-free table, and an elimination order certifying that every leaf is reachable),
`replayWith pick` = `dr_pi_dag_chronological_traverse` with an arbitrary dequeue order.

What is proved here for ALL inputs: the checker is sound for the replay postcondition
(`C19_wf_replay`: any DAG — of any size, produced by whatever recording / contraction /
conversion — that `wellFormed` accepts is traversed completely, each leaf exactly once, whatever
the event order), and the string table discipline (`C19_intern`).  That every `flatten` /
`shrink` output is accepted by the checker is NOT proved in general (see the `_partial`
theorems and the full statements next to them): it is established per run by executing the
verified checker on every dumped and converted DAG (check/props/c19.py), the model's arrays being
compared field by field with the implementation's.  File I/O is not modelled.
-/
namespace MythVerif.PiDag
open MythVerif.DagRec

/-- **soundness of the checker for the chronological replay**: if `wellFormed G`, then for EVERY
    order in which pending events are dequeued (`pick`; the C code's heap is one such order) the
    traversal terminates with an empty event queue, has made ready / started / last-started /
    ended every leaf exactly once and touched no inner node, and ends with nothing running and
    nothing ready. -/
theorem C19_wf_replay (G : PiDag) (h : wellFormed G = true) (pick : List Event → Nat) :
    (replayWith pick G (4 * G.T.size + 4) (initReplay G)).queue = [] ∧
    (∀ i, i < G.T.size →
      (replayWith pick G (4 * G.T.size + 4) (initReplay G)).readied[i]! = (if isLeaf G.T[i]! then 1 else 0) ∧
      (replayWith pick G (4 * G.T.size + 4) (initReplay G)).started[i]! = (if isLeaf G.T[i]! then 1 else 0) ∧
      (replayWith pick G (4 * G.T.size + 4) (initReplay G)).lastStarted[i]! = (if isLeaf G.T[i]! then 1 else 0) ∧
      (replayWith pick G (4 * G.T.size + 4) (initReplay G)).ended[i]! = (if isLeaf G.T[i]! then 1 else 0)) ∧
    (replayWith pick G (4 * G.T.size + 4) (initReplay G)).nRunning = 0 ∧
    (replayWith pick G (4 * G.T.size + 4) (initReplay G)).nReady = 0 :=
  replay_final pick G (rankOf G) (cert_of_wf G h)

/-- in particular for the time-ordered traversal of the C code (`replay` dequeues a minimal time stamp) -/
theorem C19_wf_replay_chronological (G : PiDag) (h : wellFormed G = true) :
    (replay G).queue = [] ∧ (replay G).nRunning = 0 ∧ (replay G).nReady = 0 ∧
    ∀ i, i < G.T.size → (replay G).started[i]! = (if isLeaf G.T[i]! then 1 else 0) ∧
      (replay G).ended[i]! = (if isLeaf G.T[i]! then 1 else 0) := by
  obtain ⟨h1, h2, h3, h4⟩ := C19_wf_replay G h pickMin
  exact ⟨h1, h3, h4, fun i hi => ⟨(h2 i hi).2.1, (h2 i hi).2.2.2⟩⟩

/-- **string table**: interning any sequence of file names (any number of distinct names, any
    repetitions) yields a duplicate-free table; every index handed out is inside the table and
    names the string it was handed out for; hence two positions get the same index iff they
    carry the same name. -/
theorem C19_intern (names : List Nat) :
    (internAll [] names).1.Nodup ∧
    (internAll [] names).2.length = names.length ∧
    (∀ k (hk : k < names.length), ((internAll [] names).2)[k]! < (internAll [] names).1.length ∧
      (internAll [] names).1[((internAll [] names).2)[k]!]? = some names[k]) ∧
    (∀ j k (hj : j < names.length) (hk : k < names.length),
      ((internAll [] names).2)[j]! = ((internAll [] names).2)[k]! ↔ names[j] = names[k]) := by
  obtain ⟨h1, _, h3, h4⟩ := internAll_spec names [] List.nodup_nil
  have hlt : ∀ k (hk : k < names.length), ((internAll [] names).2)[k]! < (internAll [] names).1.length := by
    intro k hk
    have := h4 k hk
    exact (List.getElem?_eq_some_iff.mp this).1
  refine ⟨h1, h3, fun k hk => ⟨hlt k hk, h4 k hk⟩, ?_⟩
  intro j k hj hk
  constructor
  · intro e
    have a := h4 j hj; have b := h4 k hk
    rw [e, b] at a
    exact (Option.some.inj a).symm
  · intro e
    have a := h4 j hj; have b := h4 k hk
    rw [e, ← b] at a
    exact (List.getElem?_inj (hlt j hj) h1).mp a

end MythVerif.PiDag
