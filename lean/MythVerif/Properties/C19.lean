import MythVerif.Proofs.PiDagCert
import MythVerif.Proofs.PiDagIntern
import MythVerif.Proofs.PiDagShrink
import MythVerif.Proofs.PiDagStrings
import MythVerif.Proofs.PiDagFlattenCert
import MythVerif.Proofs.PiDagPruneLay
import MythVerif.Properties.C18
/-!
# C19 — DAG files are well formed and survive a dump / read / convert round trip

Model: `MythVerif.PiDag` (`Model/PiDag.lean`): the position independent DAG (`T`, `E`, `S`),
`flatten` = `dr_make_pi_dag`, `shrink` = `dr_copy_pi_dag` (the `dag2any --shrink` path),
`wellFormed` = an executable checker of everything C19 asks of a dumped / converted DAG (offsets
inside the DAG, children contiguous, edge endpoints leaves of the DAG, edges grouped by source with
`edges_begin/end` a partition of `E`, `m` = the counted number, string indices inside a
duplicate-free table, and an elimination order certifying that every leaf is reachable),
`replayWith pick` = `dr_pi_dag_chronological_traverse` with an arbitrary dequeue order.

What is proved here for ALL inputs: the checker is sound for the replay postcondition
(`C19_wf_replay`: any DAG — of any size, produced by whatever recording / contraction /
conversion — that `wellFormed` accepts is traversed completely, each leaf exactly once, whatever
the event order), the string table discipline (`C19_intern`), and that every `flatten` output
(= the dump of a recorded DAG: any well-nested execution, any contraction options) is accepted by
the checker (`C19_flatten_wf`: all seven conjuncts — offsets, edgeEnds, grouped, counted, strings,
degrees, certificate), hence is traversed completely by the replay (`C19_flatten_replay`).
For the shrinking copy (`dag2any`): every converted dump — `shrink` applied, any number of times and
under any conversion options, to the dump of a recorded DAG — is accepted by the checker
(`C19_prune_wf_dump`, `C19_prune_wf_laid`) and hence traversed completely (`C19_prune_replay`).
The statement with the bare hypothesis `wellFormed G` (`C19_prune_wf`) is FALSE and refuted here
(`C19_prune_wf_refuted`): the checker does not compare `E` with what `dr_pi_dag_enum_edges` emits
for `T`, and the copy rebuilds `E` from `T`.  File I/O is not modelled; the model's arrays are
compared field by field with the implementation's per run (check/props/c19.py).
-/
namespace MythVerif.PiDag
open MythVerif.DagRec

/-- **soundness of the checker for the chronological replay**: if `wellFormed G`, then for EVERY
    order in which pending events are dequeued (`pick`; the C code's heap is one such order) the
    traversal terminates with an empty event queue, has made ready / started / last-started /
    ended every leaf exactly once and touched no inner node, and ends with nothing running and
    nothing ready. -/
theorem C19_wf_replay (G : PiDag) (h : wellFormed G = true) (pick : List Event → Nat) :
    (replayWith pick G (4 * G.T.size + 4) (initReplay G)).queue = [] ∧
    (∀ i, i < G.T.size →
      (replayWith pick G (4 * G.T.size + 4) (initReplay G)).readied[i]! = (if isLeaf G.T[i]! then 1 else 0) ∧
      (replayWith pick G (4 * G.T.size + 4) (initReplay G)).started[i]! = (if isLeaf G.T[i]! then 1 else 0) ∧
      (replayWith pick G (4 * G.T.size + 4) (initReplay G)).lastStarted[i]! = (if isLeaf G.T[i]! then 1 else 0) ∧
      (replayWith pick G (4 * G.T.size + 4) (initReplay G)).ended[i]! = (if isLeaf G.T[i]! then 1 else 0)) ∧
    (replayWith pick G (4 * G.T.size + 4) (initReplay G)).nRunning = 0 ∧
    (replayWith pick G (4 * G.T.size + 4) (initReplay G)).nReady = 0 :=
  replay_final pick G (rankOf G) (cert_of_wf G h)

/-- in particular for the time-ordered traversal of the C code (`replay` dequeues a minimal time stamp) -/
theorem C19_wf_replay_chronological (G : PiDag) (h : wellFormed G = true) :
    (replay G).queue = [] ∧ (replay G).nRunning = 0 ∧ (replay G).nReady = 0 ∧
    ∀ i, i < G.T.size → (replay G).started[i]! = (if isLeaf G.T[i]! then 1 else 0) ∧
      (replay G).ended[i]! = (if isLeaf G.T[i]! then 1 else 0) := by
  obtain ⟨h1, h2, h3, h4⟩ := C19_wf_replay G h pickMin
  exact ⟨h1, h3, h4, fun i hi => ⟨(h2 i hi).2.1, (h2 i hi).2.2.2⟩⟩

/-- **string table**: interning any sequence of file names (any number of distinct names, any
    repetitions) yields a duplicate-free table; every index handed out is inside the table and
    names the string it was handed out for; hence two positions get the same index iff they
    carry the same name. -/
theorem C19_intern (names : List Nat) :
    (internAll [] names).1.Nodup ∧
    (internAll [] names).2.length = names.length ∧
    (∀ k (hk : k < names.length), ((internAll [] names).2)[k]! < (internAll [] names).1.length ∧
      (internAll [] names).1[((internAll [] names).2)[k]!]? = some names[k]) ∧
    (∀ j k (hj : j < names.length) (hk : k < names.length),
      ((internAll [] names).2)[j]! = ((internAll [] names).2)[k]! ↔ names[j] = names[k]) := by
  obtain ⟨h1, _, h3, h4⟩ := internAll_spec names [] List.nodup_nil
  have hlt : ∀ k (hk : k < names.length), ((internAll [] names).2)[k]! < (internAll [] names).1.length := by
    intro k hk
    have := h4 k hk
    exact (List.getElem?_eq_some_iff.mp this).1
  refine ⟨h1, h3, fun k hk => ⟨hlt k hk, h4 k hk⟩, ?_⟩
  intro j k hj hk
  constructor
  · intro e
    have a := h4 j hj; have b := h4 k hk
    rw [e, b] at a
    exact (Option.some.inj a).symm
  · intro e
    have a := h4 j hj; have b := h4 k hk
    rw [e, ← b] at a
    exact (List.getElem?_inj (hlt j hj) h1).mp a

/-- **every dump of a recorded DAG is well formed**: for every well-nested execution `t`, both
    variants of the recorder and every setting of the contraction options (collapse_max,
    uncollapse_min, collapse_max_count, node_count_target / prune_threshold), the position
    independent DAG `dr_make_pi_dag` builds from the in-memory DAG passes all seven checks of the
    well-formedness checker: offsets, edgeEnds, grouped, counted, strings, degrees, certificate. -/
theorem C19_flatten_wf (v : Variant) (o : Opts) (sc nw : Nat) (t : Tree) (h : wnTask t = true) :
    wellFormed (flatten sc nw (record v o sc t)) = true :=
  flatten_wellFormed sc nw _ (record_gram v o sc t h)

/-- the same for every in-memory DAG of the shape the recorder produces (`gTask`: the grammar
    `task ::= (section | other)* end`, `section ::= (section | create task | other)* wait` with any
    subset of the sections / tasks collapsed; `record_gram` shows every `record` output has it) -/
theorem C19_flatten_wf_shape (sc nw : Nat) (d : DNode) (h : gTask d = true) :
    wellFormed (flatten sc nw d) = true :=
  flatten_wellFormed sc nw d h

/-- hence the chronological replay of every dumped DAG (whatever the dequeue order) terminates with
    an empty queue, nothing running and nothing ready, having started and ended every leaf once -/
theorem C19_flatten_replay (v : Variant) (o : Opts) (sc nw : Nat) (t : Tree) (h : wnTask t = true)
    (pick : List Event → Nat) :
    let G := flatten sc nw (record v o sc t)
    (replayWith pick G (4 * G.T.size + 4) (initReplay G)).queue = [] ∧
    (replayWith pick G (4 * G.T.size + 4) (initReplay G)).nRunning = 0 ∧
    (replayWith pick G (4 * G.T.size + 4) (initReplay G)).nReady = 0 ∧
    ∀ i, i < G.T.size →
      (replayWith pick G (4 * G.T.size + 4) (initReplay G)).started[i]! = (if isLeaf G.T[i]! then 1 else 0) ∧
      (replayWith pick G (4 * G.T.size + 4) (initReplay G)).ended[i]! = (if isLeaf G.T[i]! then 1 else 0) := by
  intro G
  obtain ⟨h1, h2, h3, h4⟩ := C19_wf_replay G (C19_flatten_wf v o sc nw t h) pick
  exact ⟨h1, h3, h4, fun i hi => ⟨(h2 i hi).2.1, (h2 i hi).2.2.2⟩⟩

/-- a corollary of the proof of `C19_flatten_wf`, conjunct by conjunct.  For every in-memory DAG whatsoever: the
    string-table conjunct of `wellFormed` (every `file_idx` inside a duplicate-free table),
    `dr_pi_dag_enum_nodes` gives every materialised node exactly one slot of `T`, and slot 0 is the
    root with its `info` (work, critical path, counts, node counters) unchanged by the copy.
    For every in-memory DAG of the shape the recorder produces (`gTask`: the grammar
    `task ::= (section | other)* end`, `section ::= (section | create task | other)* wait` with any
    subset of the sections / tasks collapsed — see `record_gram`) the other six conjuncts:
    * `offsets`: child / subgraph offsets inside the DAG, children blocks contiguous and disjoint,
      every slot but the root the child of exactly one node;
    * `edgeEnds`: both ends of every edge are leaves inside the DAG;
    * `grouped`: `E` sorted by source, `edges_begin` / `edges_end` a partition of `E` by source;
    * `counted`: `m` = `dr_pi_dag_count_edges_uncollapsed`;
    * `degrees`: the in-degrees counted through the per-node edge ranges are those over all of `E`;
    * `certificate`: the in-degree driven elimination from the first leaf is a topological order
      covering every leaf, every leaf but the first has a predecessor and no inner node has one. -/
theorem C19_flatten_wf_partial (sc nw : Nat) (d : DNode) :
    (wfReport (flatten sc nw d)).strings = true ∧
    (flatten sc nw d).T.size = d.count ∧
    (flatten sc nw d).T[0]!.info.c.t1 = d.info.c.t1 ∧ (flatten sc nw d).T[0]!.info.c.tinf = d.info.c.tinf ∧
    (flatten sc nw d).T[0]!.info.c.nc = d.info.c.nc ∧ (flatten sc nw d).T[0]!.info.c.ec = d.info.c.ec ∧
    (flatten sc nw d).T[0]!.info.cur = d.info.cur ∧ (flatten sc nw d).T[0]!.info.min = d.info.min ∧
    (gTask d = true →
      (wfReport (flatten sc nw d)).offsets = true ∧ (wfReport (flatten sc nw d)).edgeEnds = true ∧
      (wfReport (flatten sc nw d)).grouped = true ∧ (wfReport (flatten sc nw d)).counted = true ∧
      (wfReport (flatten sc nw d)).degrees = true ∧ (wfReport (flatten sc nw d)).certificate = true) := by
  obtain ⟨h1, h2⟩ := flatten_spec sc nw d
  rw [h2]
  exact ⟨flatten_wfStrings sc nw d, h1, rfl, rfl, rfl, rfl, rfl, rfl, fun h =>
    ⟨flatten_wfOffsets sc nw d h, flatten_wfEdgeEnds sc nw d h, flatten_wfGrouped sc nw d h,
      flatten_counted sc nw d h, flatten_wfDegrees sc nw d h, flatten_wfCertificate sc nw d h⟩⟩

/-- `C19_flatten_wf` conjunct by conjunct: for every well-nested execution, every variant of the
    recorder and every setting of the contraction options, the dump of the recorded DAG passes the
    `offsets`, `edgeEnds`, `grouped`, `counted`, `strings`, `degrees` and `certificate` checks -/
theorem C19_flatten_wf_partial_record (v : Variant) (o : Opts) (sc nw : Nat) (t : Tree) (h : wnTask t = true) :
    (wfReport (flatten sc nw (record v o sc t))).offsets = true ∧
    (wfReport (flatten sc nw (record v o sc t))).edgeEnds = true ∧
    (wfReport (flatten sc nw (record v o sc t))).grouped = true ∧
    (wfReport (flatten sc nw (record v o sc t))).counted = true ∧
    (wfReport (flatten sc nw (record v o sc t))).strings = true ∧
    (wfReport (flatten sc nw (record v o sc t))).degrees = true ∧
    (wfReport (flatten sc nw (record v o sc t))).certificate = true := by
  obtain ⟨hs, _, _, _, _, _, _, _, hg⟩ := C19_flatten_wf_partial sc nw (record v o sc t)
  obtain ⟨g1, g2, g3, g4, g5, g6⟩ := hg (record_gram v o sc t h)
  exact ⟨g1, g2, g3, g4, hs, g5, g6⟩

/-- for EVERY DAG (however produced), the `degrees` check is implied by the `grouped` check -/
theorem C19_grouped_degrees (G : PiDag) (h : (wfReport G).grouped = true) : (wfReport G).degrees = true :=
  wfDegrees_of_grouped G h

/-- hence the root of every dumped DAG carries exactly the totals of the uncontracted interval
    sequence, whatever the contraction options were (C18 carried over to the file) -/
theorem C19_dump_root_totals (o : Opts) (sc nw : Nat) (t : Tree) (h : wnTask t = true) :
    (flatten sc nw (record .fixed o sc t)).T[0]!.info.c.t1 = flatWork (leavesTree t) ∧
    (flatten sc nw (record .fixed o sc t)).T[0]!.info.c.nc = flatNC (leavesTree t) ∧
    (flatten sc nw (record .fixed o sc t)).T[0]!.info.c.ec = flatEC (leavesTree t) ∧
    (flatten sc nw (record .fixed o sc t)).T[0]!.info.c.tinf = maxFinish (leafInfosTree .fixed t (rootCursor sc)) ∧
    (flatten sc nw (record .fixed o sc t)).T.size = (record .fixed o sc t).info.cur := by
  obtain ⟨_, h0, h1, h2, h3, h4, _, _⟩ := C19_flatten_wf_partial sc nw (record .fixed o sc t)
  rw [h1, h2, h3, h4, h0]
  exact ⟨C18_work_is_sum .fixed o sc t h, (C18_counts_exact o sc t h).1, (C18_counts_exact o sc t h).2,
    C18_span_eq_est_finish .fixed o sc t h, (C18_node_count_bookkeeping .fixed o sc t h).symm⟩

/-- **shrinking a DAG during conversion preserves its totals**: for every well-formed DAG and all
    conversion-time contraction options the root slot of the converted DAG carries the same
    work, critical path, interval and edge counts, est, span and node counters as the original -/
theorem C19_prune_totals (o : ShrinkOpts) (G : PiDag) (h : wellFormed G = true) :
    SameTotals (shrink o G).T[0]! G.T[0]! :=
  shrink_root o G (rootOk_of_wf G h).1 (rootOk_of_wf G h).2

/-- a DAG whose node array is the layout `dr_pi_dag_enum_nodes` gives some tree of the recorder's shape
    (`E`, `S` and the per-node `info`s are arbitrary) -/
def Laid (G : PiDag) : Prop := ∃ d, LayN G.T d 0 1 ∧ G.T.size = 1 + descT d ∧ gTask d = true

/-- every dump of a recorded DAG is laid out -/
theorem C19_flatten_laid (v : Variant) (o : Opts) (sc nw : Nat) (t : Tree) (h : wnTask t = true) :
    Laid (flatten sc nw (record v o sc t)) :=
  ⟨_, (flatten_lay sc nw _).1, (flatten_lay sc nw _).2, record_gram v o sc t h⟩

/-- **the shrinking copy of a laid-out DAG is well formed and laid out again** (so conversions can
    be iterated), for all conversion-time contraction options; only the node array of the input
    matters, its edges and strings are rebuilt -/
theorem C19_prune_wf_laid (o : ShrinkOpts) (G : PiDag) (h : Laid G) :
    wellFormed (shrink o G) = true ∧ Laid (shrink o G) := by
  obtain ⟨d, h1, h2, h3⟩ := h
  exact shrink_wellFormed_of_lay o G d h1 h2 h3

/-- **every converted dump is well formed**: for every well-nested execution, every variant of the
    recorder, all record-time contraction options `o` and all conversion-time options `so`, the
    `dag2any` shrinking copy (`dr_pi_dag_copy_and_prune_nodes`, then edges / sort / pointers /
    strings again) of the dumped DAG passes all seven checks -/
theorem C19_prune_wf_dump (so : ShrinkOpts) (v : Variant) (o : Opts) (sc nw : Nat) (t : Tree) (h : wnTask t = true) :
    wellFormed (shrink so (flatten sc nw (record v o sc t))) = true :=
  (C19_prune_wf_laid so _ (C19_flatten_laid v o sc nw t h)).1

/-- … also after a second conversion -/
theorem C19_prune_wf_dump_twice (so so' : ShrinkOpts) (v : Variant) (o : Opts) (sc nw : Nat) (t : Tree)
    (h : wnTask t = true) :
    wellFormed (shrink so' (shrink so (flatten sc nw (record v o sc t)))) = true :=
  (C19_prune_wf_laid so' _ (C19_prune_wf_laid so _ (C19_flatten_laid v o sc nw t h)).2).1

/-- **replay of a converted dump**: whatever the dequeue order, the chronological traversal of the
    converted DAG terminates with an empty queue, nothing running and nothing ready, having
    started and ended every leaf exactly once and no inner node -/
theorem C19_prune_replay (so : ShrinkOpts) (v : Variant) (o : Opts) (sc nw : Nat) (t : Tree) (h : wnTask t = true)
    (pick : List Event → Nat) :
    let G := shrink so (flatten sc nw (record v o sc t))
    (replayWith pick G (4 * G.T.size + 4) (initReplay G)).queue = [] ∧
    (replayWith pick G (4 * G.T.size + 4) (initReplay G)).nRunning = 0 ∧
    (replayWith pick G (4 * G.T.size + 4) (initReplay G)).nReady = 0 ∧
    ∀ i, i < G.T.size →
      (replayWith pick G (4 * G.T.size + 4) (initReplay G)).started[i]! = (if isLeaf G.T[i]! then 1 else 0) ∧
      (replayWith pick G (4 * G.T.size + 4) (initReplay G)).ended[i]! = (if isLeaf G.T[i]! then 1 else 0) := by
  intro G
  obtain ⟨h1, h2, h3, h4⟩ := C19_wf_replay G (C19_prune_wf_dump so v o sc nw t h) pick
  exact ⟨h1, h3, h4, fun i hi => ⟨(h2 i hi).2.1, (h2 i hi).2.2.2⟩⟩

/-
The statement about the shrinking copy with the bare hypothesis `wellFormed G`

  theorem C19_prune_wf (o : ShrinkOpts) (G : PiDag) (h : wellFormed G = true) :
      wellFormed (shrink o G) = true

is FALSE (`C19_prune_wf_refuted` below: `badG`, a task whose only child is a section that creates a
task, with a hand-made edge array, passes the checker; its copy does not).  What holds instead is
`C19_prune_wf_laid` (hypothesis: the node array is a layout of a tree of the recorder's shape, which
every `flatten` and every `shrink` output satisfies) and its instance `C19_prune_wf_dump`.
-/
/-- what does hold under the bare hypothesis `wellFormed G` (besides `C19_prune_totals`): the
    converted DAG has a root slot of the same kind -/
theorem C19_prune_wf_partial (o : ShrinkOpts) (G : PiDag) (h : wellFormed G = true) :
    (shrink o G).T[0]!.info.c.kind = G.T[0]!.info.c.kind :=
  (C19_prune_totals o G h).2.2.2.2.2.1

/-! ### non-vacuity -/

def mkN (k : NKind) (eb ee a b : Nat) : PNode :=
  { info := { c := { kind := k } }, eb := eb, ee := ee, a := a, b := b }

/-- the dump of the execution `T O E` (a task made of an `other` and an `end` interval): three
    slots, one `other_cont` edge -/
def tiny : PiDag :=
  { T := #[mkN .task 0 0 1 3, mkN .other 0 1 0 0, mkN .endTask 1 1 0 0],
    E := #[⟨.otherCont, 1, 2⟩], S := [0], nw := 1 }

/-- a root task whose only child is a section `[create → (collapsed) task, wait]`; the edge array
    is not what `dr_pi_dag_enum_edges` would emit for these nodes (that would be the single edge
    `2 → 3`, leaving slot 4 unreachable), yet the checker accepts it -/
def badG : PiDag :=
  { T := #[mkN .task 0 0 1 2, mkN .section 0 0 1 3, mkN .createTask 0 2 2 0, mkN .waitTasks 2 2 0 0, mkN .task 2 3 0 0],
    E := #[⟨.createCont, 2, 3⟩, ⟨.create, 2, 4⟩, ⟨.end_, 4, 3⟩], S := [0], nw := 1 }

/-- **`C19_prune_wf` with the bare hypothesis `wellFormed G` is false**: `badG` is accepted, its
    (non-contracting) copy is rejected — the rebuilt edge array has 1 edge where
    `dr_pi_dag_count_edges_uncollapsed` counts 3, and the child task is unreachable -/
theorem C19_prune_wf_refuted :
    ¬ ∀ (o : ShrinkOpts) (G : PiDag), wellFormed G = true → wellFormed (shrink o G) = true := by
  intro h
  have h1 : wellFormed badG = true := by decide +kernel
  have h2 : wellFormed (shrink {} badG) = false := by decide +kernel
  rw [h {} badG h1] at h2
  cases h2

example : (wfReport (shrink {} badG)).counted = false ∧ (wfReport (shrink {} badG)).certificate = false := by
  decide +kernel

/-- the hypothesis of `C19_wf_replay` is satisfiable … -/
example : wellFormed tiny = true := by decide +kernel
/-- … and not trivially true: without its edge the `end` interval is unreachable and the checker
    rejects the DAG (edge count and certificate fail) -/
example : wellFormed { tiny with E := #[], T := #[mkN .task 0 0 1 3, mkN .other 0 0 0 0, mkN .endTask 0 0 0 0] } = false := by
  decide +kernel
/-- a child offset pointing outside the DAG is rejected -/
example : wellFormed { tiny with T := #[mkN .task 0 0 1 4, mkN .other 0 1 0 0, mkN .endTask 1 1 0 0] } = false := by
  decide +kernel
/-- an execution with a child task and nested sections; `collapse_max = 3` collapses the inner
    section (single worker, span 2), so the recorded DAG keeps 9 of the 11 nodes -/
def exTree : Tree :=
  let r (a b w : Nat) : Raw := { startT := a, endT := b, worker := w }
  .group .task (.cons (.group .section (.cons (.create (r 0 1 0) (.group .task (.cons (.ival .endTask (r 1 5 1)) .nil)))
      (.cons (.group .section (.cons (.ival .other (r 1 2 0)) (.cons (.ival .waitTasks (r 2 3 0)) .nil)))
        (.cons (.ival .waitTasks (r 3 6 0)) .nil))))
    (.cons (.ival .other (r 6 7 0)) (.cons (.ival .endTask (r 7 8 0)) .nil)))

/-- the hypotheses of `C19_flatten_wf` / `C19_flatten_replay` / `C19_flatten_wf_partial_record`
    (`wnTask`) and of `C19_flatten_wf_shape` / `C19_flatten_wf_partial` (`gTask`) are satisfiable by a
    DAG that really is contracted -/
example : wnTask exTree = true := by decide
example : gTask (record .fixed { collapseMax := 3 } 0 exTree) = true := by decide
example : (record .fixed { collapseMax := 3 } 0 exTree).count = 9 ∧ (record .fixed {} 0 exTree).count = 11 := by decide
/-- `C19_flatten_wf` applied to this contracted DAG -/
example : wellFormed (flatten 0 2 (record .fixed { collapseMax := 3 } 0 exTree)) = true :=
  C19_flatten_wf .fixed { collapseMax := 3 } 0 2 exTree (by decide)
/-- the shape hypothesis of `C19_flatten_wf_shape` cannot be dropped: an in-memory "DAG" that is a lone
    create node (no child task, not a task itself) is dumped to something the checker rejects -/
example : gTask (.ival { c := { kind := .createTask } }) = false ∧
    wellFormed (flatten 0 1 (.ival { c := { kind := .createTask } })) = false := by decide +kernel
/-- `C19_prune_wf_dump` / `C19_prune_replay` / `C19_prune_wf_laid` applied: the contracted dump of
    `exTree`, converted with `uncollapse_min = 7` (which really shrinks it: 9 → 4 nodes) -/
example : wellFormed (shrink { uncollapseMin := 7 } (flatten 0 2 (record .fixed { collapseMax := 3 } 0 exTree))) = true :=
  C19_prune_wf_dump { uncollapseMin := 7 } .fixed { collapseMax := 3 } 0 2 exTree (by decide)
example : (shrink { uncollapseMin := 7 } (flatten 0 2 (record .fixed { collapseMax := 3 } 0 exTree))).T.size = 4 := by
  decide +kernel
example : Laid (flatten 0 2 (record .fixed { collapseMax := 3 } 0 exTree)) :=
  C19_flatten_laid .fixed { collapseMax := 3 } 0 2 exTree (by decide)
/-- `C19_grouped_degrees`: its hypothesis holds of `tiny` -/
example : (wfReport tiny).grouped = true := by decide +kernel
/-- interning `a b a c b` : three distinct names, indices 0 1 0 2 1 -/
example : internAll [] [7, 9, 7, 4, 9] = ([7, 9, 4], [0, 1, 0, 2, 1]) := by decide

end MythVerif.PiDag
