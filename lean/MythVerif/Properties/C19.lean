import MythVerif.Model.PiDag
/-! # C19 — placeholder while the proofs are being written -/
namespace MythVerif.PiDag
end MythVerif.PiDag
