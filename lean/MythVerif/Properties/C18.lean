import MythVerif.Proofs.DagRecSpan
import MythVerif.Proofs.DagRecCount
import MythVerif.Proofs.DagRecStat
import MythVerif.Proofs.DagRecPathMain
import MythVerif.Proofs.DagRecPathCount
import MythVerif.Proofs.DagRecPathFlat
/-!
# C18 — DAG Recorder totals do not depend on how the DAG was contracted

Model: `MythVerif.DagRec` (`Model/DagRec.lean`): `dr_end_interval_`, the est / ready-time cursor
of `dr_start_task__` / `dr_return_from_*__`, `dr_accumulate_stats`, `dr_collapse_subgraph`,
`dr_summarize_section_or_task` with the three contraction policies and the budget walk
`dr_prune_nodes_norec`.  `record v o startClock t` is the in-memory DAG the recorder holds after
`dr_stop` for the execution tree `t` under the contraction options `o`; `leavesTree t` is the
complete uncontracted sequence of intervals.

Quantification: every execution tree (`wnTask t` = the grammar `task ::= (section | other)* end`,
`section ::= (section | create task | other)* wait`, unbounded depth / width), every time stamp,
every worker assignment (workers are part of the raw interval data), every setting of the
contraction options — and in `C18_policy_independent` every contraction policy whatsoever.
The theorems are about `Variant.fixed`, the current source; `Variant.pinned` (the snapshot's
edge counting and `dr_collapse_subgraph`) is kept with its refutations at the end.

The critical path.  What `dr_accumulate_stats` computes for `t_inf` is a sum of interval LENGTHS
(`end − start` of each interval, `dr_end_interval_`) along the heaviest chain: the serial sum of
the children's `t_inf`, and a running maximum over `prefix + child.t_inf` for the tasks created
in a section.  No time stamp other than through these lengths, and no `est`, enters it.  Two
characterisations are proved, for every well-nested execution and arbitrary stamps (no causality
hypothesis is needed):
* `C18_span_eq_est_finish`: `t_inf` of the root = `max (est + length)` over all intervals, `est`
  being the recorder's own top-down earliest-start propagation;
* `C18_span_is_longest_path`: `t_inf` of the root = the weight of a LONGEST PATH of the explicit
  dependency graph `depGraph t` of the uncontracted execution (`Proofs/DagRecPath.lean`): vertices
  = the intervals in program order, vertex weight = interval length `Leaf.dur`, edges = the
  dependency edges `dr_pi_dag_enum_edges` emits for the uncontracted DAG (last interval of a
  non-last child → first interval of its successor; create interval → first interval of the
  created task; `end_task` interval of the created task → first interval after the creating
  section), path weight = sum of the vertex weights.  Both halves are proved: no path is heavier,
  and a path starting at the first interval attains the value.  `…_any_policy` transfers it to the
  DAG recorded under any admissible contraction policy.
That `depGraph` is the graph of the C19 model and not a private invention is proved twice:
`C18_dep_edge_counts` (its edge numbers by kind = the root's `logical_edge_counts`), and
`Proofs/DagRecPathDump.lean` `teN_rec`: the edge list `dr_pi_dag_enum_edges` emits for a dump of the
uncontracted recording (`PiDag.teN`, a permutation of `enumEdges`) is `edgesT t 0` with every
position renamed to the array slot its interval occupies.  On that basis
* `C18_span_is_longest_path_of_dump`: in `flatten sc' nw (record v {} sc t)` — the position
  independent DAG `dr_make_pi_dag` builds from the uncontracted recording, i.e. what `dr_dump`
  writes — with vertices = slots of `T`, weights = `t_1` of the leaf slots (0 for the section /
  task slots, which have no edges), edges = the array `E` as `dr_pi_dag_enum_edges` + sort produce
  it, `t_inf` stored in the root slot `T[0]` is the weight of a longest path; `C18_span_any_options_…` says the root of
  the recording under ANY option setting reports that same number.
What is NOT proved: a longest-path reading of a CONTRACTED dump (collapsed sections / tasks as
single vertices weighing their `t_inf`); the edge KINDS of the dump are compared with those of
`depGraph` only through their counts (the renaming theorem compares end points).
-/
namespace MythVerif.DagRec

/-- **the contraction-independent part of a node's `info` does not depend on the policy**:
    whatever subset of sections / tasks is collapsed or pruned, at whatever time, by whatever
    rule (`Admissible`: the rule may only touch the node counters and the children), every field
    of the resulting `info` other than `cur_node_count` / `min_node_count` — work, critical path,
    interval counts, edge counts, start / end, est, ready times, worker — is the same. -/
theorem C18_policy_independent (v : Variant) (p q : Policy) (hp : Admissible p) (hq : Admissible q)
    (t : Tree) (c : Cursor) :
    (recTree v p t c).1.info.c = (recTree v q t c).1.info.c := by
  have h1 := (recTree_view v p hp t c).1.1
  have h2 := (recTree_view v q hq t c).1.1
  rw [DNode.view_i] at h1 h2
  rw [h1, h2]

/-- in particular the recorder's own option settings (collapse_max, uncollapse_min,
    collapse_max_count, node_count_target / prune_threshold) do not influence the root totals -/
theorem C18_options_independent (v : Variant) (o o' : Opts) (startClock : Nat) (t : Tree) :
    (record v o startClock t).info.c = (record v o' startClock t).info.c :=
  C18_policy_independent v _ _ (admissible_summarize v o) (admissible_summarize v o') t _

/-- work is the sum of all interval lengths -/
theorem C18_work_is_sum (v : Variant) (o : Opts) (sc : Nat) (t : Tree) (h : wnTask t = true) :
    (record v o sc t).info.c.t1 = flatWork (leavesTree t) := by
  rw [record_core]
  obtain ⟨f, rfl, _⟩ := wnTask_group h
  have := (viewTree_t1_nc v (.group .task f) (rootCursor sc) (Or.inr (Or.inr h))).1
  rwa [View.t1_none _ (by simp [viewTree])] at this

/-- the numbers of create / wait / other / end intervals and of the edges of the five kinds the
    root reports equal the counts over the complete uncontracted sequence of intervals -/
theorem C18_counts_exact (o : Opts) (sc : Nat) (t : Tree) (h : wnTask t = true) :
    (record .fixed o sc t).info.c.nc = flatNC (leavesTree t) ∧
    (record .fixed o sc t).info.c.ec = flatEC (leavesTree t) := by
  rw [record_core]
  refine ⟨?_, (viewTree_ec t (rootCursor sc)).2.2 h⟩
  obtain ⟨f, rfl, _⟩ := wnTask_group h
  have := (viewTree_t1_nc .fixed (.group .task f) (rootCursor sc) (Or.inr (Or.inr h))).2
  rwa [View.nc_none _ (by simp [viewTree])] at this

/-- the bottom-up critical path `t_inf` of the root equals the latest earliest-finish time
    (`est + duration`) over all intervals, where `est` is the top-down earliest-start propagation
    the recorder performs independently at record time (`dr_start_task__`, `dr_return_from_*__`):
    two different computations in the code, related by this theorem -/
theorem C18_span_eq_est_finish (v : Variant) (o : Opts) (sc : Nat) (t : Tree) (h : wnTask t = true) :
    (record v o sc t).info.c.tinf = maxFinish (leafInfosTree v t (rootCursor sc)) := by
  rw [record_core]
  obtain ⟨f, rfl, _⟩ := wnTask_group h
  have := ((viewTree_span v (.group .task f) (rootCursor sc)).1 (Or.inr (Or.inr h))).2.1
  rw [View.sub_none _ (by simp [viewTree])] at this
  simp only [rootCursor] at this ⊢
  omega

/-- **span = longest path of the dependency DAG of the recorded intervals.**  For every
    well-nested execution `t` (any stamps, any workers, any option setting): in the explicit
    dependency graph `depGraph t` of the uncontracted execution — vertex `i` = the `i`-th interval
    of `leavesTree t`, weighted by its length `end − start`; edges = create → first interval of
    the child, create → continuation, other → continuation, wait → continuation of the section,
    `end_task` of a created task → continuation of the creating section —
    (1) every path (list of vertices, consecutive ones joined by an edge) has weight, i.e. sum of
    interval lengths, at most the root's `t_inf`, and (2) some path, starting at the first
    interval, has exactly that weight.  The weight is a sum of pure interval lengths, which is
    what `dr_accumulate_stats` adds up (serial sum of `t_inf`, running max over
    `prefix + child.t_inf`); time stamps enter only through the lengths. -/
theorem C18_span_is_longest_path (v : Variant) (o : Opts) (sc : Nat) (t : Tree) (h : wnTask t = true) :
    (∀ p, (depGraph t).IsPath p → (depGraph t).pathWeight p ≤ (record v o sc t).info.c.tinf) ∧
    (∃ p, (depGraph t).IsPath p ∧ p.head? = some 0 ∧
      (depGraph t).pathWeight p = (record v o sc t).info.c.tinf) := by
  rw [C18_span_eq_est_finish v o sc t h]
  exact maxFinish_is_longest_path v sc t h

/-- the same as a maximum: the root's `t_inf` is THE weight of a longest path -/
theorem C18_span_is_max_path_weight (v : Variant) (o : Opts) (sc : Nat) (t : Tree) (h : wnTask t = true) :
    (depGraph t).IsLongestPathWeight (record v o sc t).info.c.tinf := by
  obtain ⟨h1, p, hp, _, hw⟩ := C18_span_is_longest_path v o sc t h
  exact ⟨h1, p, hp, hw⟩

/-- by `C18_policy_independent`: whatever admissible contraction policy the DAG was recorded
    under (any subset of sections / tasks collapsed or pruned at any time), the `t_inf` its root
    reports is the weight of a longest path of the dependency graph of the UNCONTRACTED execution -/
theorem C18_span_is_longest_path_any_policy (v : Variant) (pol : Policy) (hpol : Admissible pol)
    (sc : Nat) (t : Tree) (h : wnTask t = true) :
    (∀ p, (depGraph t).IsPath p →
      (depGraph t).pathWeight p ≤ (recTree v pol t (rootCursor sc)).1.info.c.tinf) ∧
    (∃ p, (depGraph t).IsPath p ∧ p.head? = some 0 ∧
      (depGraph t).pathWeight p = (recTree v pol t (rootCursor sc)).1.info.c.tinf) := by
  have e := C18_policy_independent v pol (summarize v {}) hpol (admissible_summarize v {}) t (rootCursor sc)
  rw [e]
  exact C18_span_is_longest_path v {} sc t h

/-- **the same on the dumped DAG**: take the position independent DAG `dr_make_pi_dag` builds from
    the uncontracted recording (`flatten`; any clock origin `sc'`, any worker count).  Vertices =
    the slots of its node array `T`, a leaf slot weighing its `t_1` (interval length) and a
    section / task slot nothing; edges = its edge array `E` (`dr_pi_dag_enum_edges`, sorted).  The
    `t_inf` in the root slot is the weight of a longest path of that graph. -/
theorem C18_span_is_longest_path_of_dump (v : Variant) (sc : Nat) (t : Tree) (h : wnTask t = true) (sc' nw : Nat) :
    (dumpGraph (PiDag.flatten sc' nw (record v {} sc t))).IsLongestPathWeight
      (PiDag.flatten sc' nw (record v {} sc t)).T[0]!.info.c.tinf := by
  have h0 : (PiDag.flatten sc' nw (record v {} sc t)).T[0]!.info.c.tinf = (record v {} sc t).info.c.tinf := by
    rw [(PiDag.flatten_spec sc' nw (record v {} sc t)).2]; rfl
  rw [h0, C18_span_eq_est_finish v {} sc t h]
  exact dump_longest_path v sc t h sc' nw

/-- … and the root of the DAG recorded under any option setting reports exactly that number -/
theorem C18_span_any_options_is_dump_longest_path (v : Variant) (o : Opts) (sc : Nat) (t : Tree)
    (h : wnTask t = true) (sc' nw : Nat) :
    (dumpGraph (PiDag.flatten sc' nw (record v {} sc t))).IsLongestPathWeight (record v o sc t).info.c.tinf := by
  rw [C18_span_eq_est_finish v o sc t h]
  exact dump_longest_path v sc t h sc' nw

/-- the dependency graph is the graph whose edges the recorder counts: it has exactly as many
    edges of each of the five kinds as the root reports in `logical_edge_counts` (current source) -/
theorem C18_dep_edge_counts (o : Opts) (sc : Nat) (t : Tree) (h : wnTask t = true) :
    edgeCounts (depGraph t).edges = (record .fixed o sc t).info.c.ec := by
  rw [(C18_counts_exact o sc t h).2]
  exact edgeCounts_task t h

/-- the critical path never exceeds the work (any tree, any stamps) -/
theorem C18_span_le_work (v : Variant) (o : Opts) (sc : Nat) (t : Tree) :
    (record v o sc t).info.c.tinf ≤ (record v o sc t).info.c.t1 := by
  rw [record_core]
  exact (viewTree_le v t _).1

/-- `cur_node_count` of the root is the number of nodes that are materialised in memory, under
    every option setting, including after the budget-splitting walk of `dr_prune_nodes_norec` -/
theorem C18_node_count_bookkeeping (v : Variant) (o : Opts) (sc : Nat) (t : Tree) (h : wnTask t = true) :
    (record v o sc t).info.cur = (record v o sc t).count := by
  have hc := recTree_consistent v o t (rootCursor sc) (Or.inr (Or.inr h))
  have := DNode.count_eq _ hc
  unfold record
  rw [this, curBelow_group]
  obtain ⟨f, rfl, _⟩ := wnTask_group h
  simp only [recTree]
  exact summarize_isGroup v o _ _

/-- **the edge totals of the `.stat` file do not depend on the contraction**: `totN d` is what
    `gen_stat.c` adds up for a (contracted) DAG — the logical edge counts of the collapsed
    sections / tasks plus the edges `dr_pi_dag_enum_edges` still emits explicitly for the
    materialised ones (tree-level account of those edges).  Under every option setting it equals
    the edge counts of the complete uncontracted sequence of intervals. -/
theorem C18_stat_edges_policy_independent (o : Opts) (sc : Nat) (t : Tree) (h : wnTask t = true) :
    totN (record .fixed o sc t) = flatEC (leavesTree t) := by
  have hg := (recTree_good o t (rootCursor sc)).2.2 h
  have := good_tot _ hg.1
  rw [← (C18_counts_exact o sc t h).2]
  unfold record
  rw [this]
  cases hd : (recTree .fixed (summarize .fixed o) t (rootCursor sc)).1 with
  | ival i => rw [hd] at hg; simp [DNode.isGroup] at hg
  | create i ch => rw [hd] at hg; simp [DNode.isGroup] at hg
  | group i ds => rfl

/-! ### non-vacuity and the refutations of the pinned behaviour -/

def r (s e w : Nat) : Raw := { startT := s, endT := e, worker := w }

/-- root task: other; section { create { child task: other; end } ; other ; wait } ; end
    (the child runs on worker 1, everything else on worker 0) -/
def demo : Tree :=
  .group .task (.cons (.ival .other (r 10 20 0))
    (.cons (.group .section
      (.cons (.create (r 21 30 0) (.group .task (.cons (.ival .other (r 31 50 1)) (.cons (.ival .endTask (r 52 90 1)) .nil))))
      (.cons (.ival .other (r 32 40 0)) (.cons (.ival .waitTasks (r 41 45 0)) .nil))))
    (.cons (.ival .endTask (r 95 100 0)) .nil)))

example : wnTask demo = true := by decide
example : flatWork (leavesTree demo) = 10 + 9 + 19 + 38 + 8 + 4 + 5 := by decide
/-- uncontracted, default contraction and pruning to 3 nodes: same totals, different node counts -/
example : (record .fixed {} 5 demo).info.c.t1 = 93 ∧ (record .fixed {} 5 demo).info.c.tinf = 81 ∧
    (record .fixed {} 5 demo).count = 10 := by decide
example : (record .fixed { collapseMax := 1000 } 5 demo).info.c.t1 = 93 ∧
    (record .fixed { collapseMax := 1000 } 5 demo).info.c.tinf = 81 ∧
    (record .fixed { collapseMax := 1000 } 5 demo).count = 8 := by decide
example : (record .fixed { nodeCountTarget := 3 } 5 demo).info.c.tinf = 81 ∧
    (record .fixed { nodeCountTarget := 3 } 5 demo).count = 8 := by decide
example : (record .fixed {} 5 demo).info.c.ec = ⟨1, 1, 1, 1, 3⟩ := by decide

/-- the dependency graph of `demo`: 7 intervals; the create interval (vertex 1) has a `create`
    edge to the child's first interval (2) and a `create_cont` edge to the parent's continuation
    (4); the child's `end_task` (3) and the section's wait (5) both lead to the root's `end_task` (6) -/
example : (depGraph demo).dur = [10, 9, 19, 38, 8, 4, 5] ∧
    (depGraph demo).edges = [⟨.otherCont, 0, 1⟩, ⟨.waitCont, 5, 6⟩, ⟨.create, 1, 2⟩, ⟨.end_, 3, 6⟩,
      ⟨.createCont, 1, 4⟩, ⟨.otherCont, 4, 5⟩, ⟨.otherCont, 2, 3⟩] := by decide

/-- in `demo` the longest path goes THROUGH THE CHILD: other, create, the child's two intervals,
    the root's end — weight 10 + 9 + 19 + 38 + 5 = 81 = `t_inf`; the path that stays in the parent
    weighs only 36 -/
example : (depGraph demo).IsPath [0, 1, 2, 3, 6] ∧ (depGraph demo).pathWeight [0, 1, 2, 3, 6] = 81 ∧
    (record .fixed {} 5 demo).info.c.tinf = 81 ∧
    (depGraph demo).IsPath [0, 1, 4, 5, 6] ∧ (depGraph demo).pathWeight [0, 1, 4, 5, 6] = 36 := by decide

/-- jumping from the child back into the middle of the section, or skipping an interval, is not a path -/
example : ¬ (depGraph demo).IsPath [0, 1, 2, 3, 5] ∧ ¬ (depGraph demo).IsPath [0, 2] ∧
    ¬ (depGraph demo).IsPath [] ∧ ¬ (depGraph demo).IsPath [7] := by decide

/-- the dump of `demo` has 10 slots (3 sections / tasks weighing 0, 7 intervals; program order ↦
    slots 1, 4, 8, 9, 5, 6, 3); the longest path of its edge array weighs 81 (it is
    1 → 4 → 8 → 9 → 3, through the child); `mergeSort` does not reduce in the kernel, so the edge
    array itself is not unfolded here but reached through the theorem -/
example : (dumpGraph (PiDag.flatten 5 2 (record .fixed {} 5 demo))).dur = [0, 10, 0, 5, 9, 8, 4, 0, 19, 38] ∧
    (dumpGraph (PiDag.flatten 5 2 (record .fixed {} 5 demo))).pathWeight [1, 4, 8, 9, 3] = 81 ∧
    PiDag.leavesN (record .fixed {} 5 demo) 0 1 = [1, 4, 8, 9, 5, 6, 3] := by decide +kernel

example : (dumpGraph (PiDag.flatten 5 2 (record .fixed {} 5 demo))).IsLongestPathWeight 81 := by
  have := C18_span_any_options_is_dump_longest_path .fixed {} 5 demo (by decide) 5 2
  rwa [show (record .fixed {} 5 demo).info.c.tinf = 81 by decide] at this

/-- the same program with a short child (1 + 2 cycles) and a long continuation in the parent -/
def demoParent : Tree :=
  .group .task (.cons (.ival .other (r 10 20 0))
    (.cons (.group .section
      (.cons (.create (r 21 30 0) (.group .task (.cons (.ival .other (r 31 32 1)) (.cons (.ival .endTask (r 33 35 1)) .nil))))
      (.cons (.ival .other (r 32 72 0)) (.cons (.ival .waitTasks (r 73 77 0)) .nil))))
    (.cons (.ival .endTask (r 95 100 0)) .nil)))

example : wnTask demoParent = true := by decide

/-- in `demoParent` the longest path STAYS IN THE PARENT (create, create_cont, other, wait, end:
    10 + 9 + 40 + 4 + 5 = 68 = `t_inf`); the path through the child weighs 27 -/
example : (depGraph demoParent).IsPath [0, 1, 4, 5, 6] ∧ (depGraph demoParent).pathWeight [0, 1, 4, 5, 6] = 68 ∧
    (record .fixed {} 5 demoParent).info.c.tinf = 68 ∧
    (record .fixed { uncollapseMin := 1000 } 5 demoParent).info.c.tinf = 68 ∧
    (depGraph demoParent).IsPath [0, 1, 2, 3, 6] ∧ (depGraph demoParent).pathWeight [0, 1, 2, 3, 6] = 27 := by decide

/-- **the pinned snapshot violated C18**: it never counted `other_cont` edges, so the root's edge
    counts differed from the uncontracted sequence (3 such edges here) … -/
theorem C18_pinned_other_cont_uncounted :
    (record .pinned {} 5 demo).info.c.ec.otherCont = 0 ∧ (flatEC (leavesTree demo)).otherCont = 3 := by decide

/-- … it counted a child task's `end` edge in the PARENT of the creating section, so a collapsed
    section (here: the section, collapsed because its span 24 < uncollapse_min) reported no `end`
    edge for its child although the uncontracted section has one … -/
def demoSection : Tree :=
  .group .section (.cons (.create (r 21 30 0) (.group .task (.cons (.ival .endTask (r 52 90 1)) .nil)))
    (.cons (.ival .waitTasks (r 91 95 0)) .nil))

theorem C18_pinned_end_edge_outside_collapsed_section :
    (record .pinned { uncollapseMin := 1000 } 5 demoSection).count = 1 ∧
    (record .pinned { uncollapseMin := 1000 } 5 demoSection).info.c.ec.create = 1 ∧
    (record .pinned { uncollapseMin := 1000 } 5 demoSection).info.c.ec.end_ = 0 ∧
    (record .fixed { uncollapseMin := 1000 } 5 demoSection).info.c.ec.end_ = 1 := by decide

/-- the root task around `demoSection`: with collapse_max_count = 4 the section (3 intervals) is
    collapsed and the root task (4 intervals) is not -/
def demoTask : Tree := .group .task (.cons demoSection (.cons (.ival .endTask (r 96 99 0)) .nil))

/-- … so that the `.stat` edge totals depended on the contraction: the pinned code reported no
    `end` edge at all for this DAG (the uncontracted DAG has one); the current code reports it -/
theorem C18_pinned_stat_end_edges_depend_on_contraction :
    (totN (record .pinned { collapseMaxCount := 4 } 5 demoTask)).end_ = 0 ∧
    (totN (record .pinned {} 5 demoTask)).end_ = 1 ∧
    (totN (record .fixed { collapseMaxCount := 4 } 5 demoTask)).end_ = 1 ∧
    (record .fixed { collapseMaxCount := 4 } 5 demoTask).count = 3 := by decide

/-- … and `dr_collapse_subgraph` left `min_node_count` of a collapsed multi-worker subgraph stale,
    above `cur_node_count` (`dr_check_min_node_count` fails with chk_level ≥ 1) -/
theorem C18_pinned_min_exceeds_cur :
    (record .pinned { uncollapseMin := 1000 } 5 demo).info.min = 8 ∧
    (record .pinned { uncollapseMin := 1000 } 5 demo).info.cur = 1 ∧
    (record .fixed { uncollapseMin := 1000 } 5 demo).info.min = 1 := by decide

end MythVerif.DagRec
