import MythVerif.Proofs.DagRecSpan
import MythVerif.Proofs.DagRecCount
import MythVerif.Proofs.DagRecStat
/-!
# C18 — DAG Recorder totals do not depend on how the DAG was contracted

Model: `MythVerif.DagRec` (`Model/DagRec.lean`): `dr_end_interval_`, the est / ready-time cursor
of `dr_start_task__` / `dr_return_from_*__`, `dr_accumulate_stats`, `dr_collapse_subgraph`,
`dr_summarize_section_or_task` with the three contraction policies and the budget walk
`dr_prune_nodes_norec`.  `record v o startClock t` is the in-memory DAG the recorder holds after
`dr_stop` for the execution tree `t` under the contraction options `o`; `leavesTree t` is the
complete uncontracted sequence of intervals.

Quantification: every execution tree (`wnTask t` = the grammar `task ::= (section | other)* end`,
`section ::= (section | create task | other)* wait`, unbounded depth / width), every time stamp,
every worker assignment (workers are part of the raw interval data), every setting of the
contraction options — and in `C18_policy_independent` every contraction policy whatsoever.
The theorems are about `Variant.fixed`, the current source; `Variant.pinned` (the snapshot's
edge counting and `dr_collapse_subgraph`) is kept with its refutations at the end.
-/
namespace MythVerif.DagRec

/-- **the contraction-independent part of a node's `info` does not depend on the policy**:
    whatever subset of sections / tasks is collapsed or pruned, at whatever time, by whatever
    rule (`Admissible`: the rule may only touch the node counters and the children), every field
    of the resulting `info` other than `cur_node_count` / `min_node_count` — work, critical path,
    interval counts, edge counts, start / end, est, ready times, worker — is the same. -/
theorem C18_policy_independent (v : Variant) (p q : Policy) (hp : Admissible p) (hq : Admissible q)
    (t : Tree) (c : Cursor) :
    (recTree v p t c).1.info.c = (recTree v q t c).1.info.c := by
  have h1 := (recTree_view v p hp t c).1.1
  have h2 := (recTree_view v q hq t c).1.1
  rw [DNode.view_i] at h1 h2
  rw [h1, h2]

/-- in particular the recorder's own option settings (collapse_max, uncollapse_min,
    collapse_max_count, node_count_target / prune_threshold) do not influence the root totals -/
theorem C18_options_independent (v : Variant) (o o' : Opts) (startClock : Nat) (t : Tree) :
    (record v o startClock t).info.c = (record v o' startClock t).info.c :=
  C18_policy_independent v _ _ (admissible_summarize v o) (admissible_summarize v o') t _

/-- work is the sum of all interval lengths -/
theorem C18_work_is_sum (v : Variant) (o : Opts) (sc : Nat) (t : Tree) (h : wnTask t = true) :
    (record v o sc t).info.c.t1 = flatWork (leavesTree t) := by
  rw [record_core]
  obtain ⟨f, rfl, _⟩ := wnTask_group h
  have := (viewTree_t1_nc v (.group .task f) (rootCursor sc) (Or.inr (Or.inr h))).1
  rwa [View.t1_none _ (by simp [viewTree])] at this

/-- the numbers of create / wait / other / end intervals and of the edges of the five kinds the
    root reports equal the counts over the complete uncontracted sequence of intervals -/
theorem C18_counts_exact (o : Opts) (sc : Nat) (t : Tree) (h : wnTask t = true) :
    (record .fixed o sc t).info.c.nc = flatNC (leavesTree t) ∧
    (record .fixed o sc t).info.c.ec = flatEC (leavesTree t) := by
  rw [record_core]
  refine ⟨?_, (viewTree_ec t (rootCursor sc)).2.2 h⟩
  obtain ⟨f, rfl, _⟩ := wnTask_group h
  have := (viewTree_t1_nc .fixed (.group .task f) (rootCursor sc) (Or.inr (Or.inr h))).2
  rwa [View.nc_none _ (by simp [viewTree])] at this

/-- the bottom-up critical path `t_inf` of the root equals the latest earliest-finish time
    (`est + duration`) over all intervals, where `est` is the top-down earliest-start propagation
    the recorder performs independently at record time (`dr_start_task__`, `dr_return_from_*__`):
    two different computations in the code, related by this theorem -/
theorem C18_span_eq_est_finish (v : Variant) (o : Opts) (sc : Nat) (t : Tree) (h : wnTask t = true) :
    (record v o sc t).info.c.tinf = maxFinish (leafInfosTree v t (rootCursor sc)) := by
  rw [record_core]
  obtain ⟨f, rfl, _⟩ := wnTask_group h
  have := ((viewTree_span v (.group .task f) (rootCursor sc)).1 (Or.inr (Or.inr h))).2.1
  rw [View.sub_none _ (by simp [viewTree])] at this
  simp only [rootCursor] at this ⊢
  omega

/-- the critical path never exceeds the work (any tree, any stamps) -/
theorem C18_span_le_work (v : Variant) (o : Opts) (sc : Nat) (t : Tree) :
    (record v o sc t).info.c.tinf ≤ (record v o sc t).info.c.t1 := by
  rw [record_core]
  exact (viewTree_le v t _).1

/-- `cur_node_count` of the root is the number of nodes that are materialised in memory, under
    every option setting, including after the budget-splitting walk of `dr_prune_nodes_norec` -/
theorem C18_node_count_bookkeeping (v : Variant) (o : Opts) (sc : Nat) (t : Tree) (h : wnTask t = true) :
    (record v o sc t).info.cur = (record v o sc t).count := by
  have hc := recTree_consistent v o t (rootCursor sc) (Or.inr (Or.inr h))
  have := DNode.count_eq _ hc
  unfold record
  rw [this, curBelow_group]
  obtain ⟨f, rfl, _⟩ := wnTask_group h
  simp only [recTree]
  exact summarize_isGroup v o _ _

/-- **the edge totals of the `.stat` file do not depend on the contraction**: `totN d` is what
    `gen_stat.c` adds up for a (contracted) DAG — the logical edge counts of the collapsed
    sections / tasks plus the edges `dr_pi_dag_enum_edges` still emits explicitly for the
    materialised ones (tree-level account of those edges).  Under every option setting it equals
    the edge counts of the complete uncontracted sequence of intervals. -/
theorem C18_stat_edges_policy_independent (o : Opts) (sc : Nat) (t : Tree) (h : wnTask t = true) :
    totN (record .fixed o sc t) = flatEC (leavesTree t) := by
  have hg := (recTree_good o t (rootCursor sc)).2.2 h
  have := good_tot _ hg.1
  rw [← (C18_counts_exact o sc t h).2]
  unfold record
  rw [this]
  cases hd : (recTree .fixed (summarize .fixed o) t (rootCursor sc)).1 with
  | ival i => rw [hd] at hg; simp [DNode.isGroup] at hg
  | create i ch => rw [hd] at hg; simp [DNode.isGroup] at hg
  | group i ds => rfl

/-! ### non-vacuity and the refutations of the pinned behaviour -/

def r (s e w : Nat) : Raw := { startT := s, endT := e, worker := w }

/-- root task: other; section { create { child task: other; end } ; other ; wait } ; end
    (the child runs on worker 1, everything else on worker 0) -/
def demo : Tree :=
  .group .task (.cons (.ival .other (r 10 20 0))
    (.cons (.group .section
      (.cons (.create (r 21 30 0) (.group .task (.cons (.ival .other (r 31 50 1)) (.cons (.ival .endTask (r 52 90 1)) .nil))))
      (.cons (.ival .other (r 32 40 0)) (.cons (.ival .waitTasks (r 41 45 0)) .nil))))
    (.cons (.ival .endTask (r 95 100 0)) .nil)))

example : wnTask demo = true := by decide
example : flatWork (leavesTree demo) = 10 + 9 + 19 + 38 + 8 + 4 + 5 := by decide
/-- uncontracted, default contraction and pruning to 3 nodes: same totals, different node counts -/
example : (record .fixed {} 5 demo).info.c.t1 = 93 ∧ (record .fixed {} 5 demo).info.c.tinf = 81 ∧
    (record .fixed {} 5 demo).count = 10 := by decide
example : (record .fixed { collapseMax := 1000 } 5 demo).info.c.t1 = 93 ∧
    (record .fixed { collapseMax := 1000 } 5 demo).info.c.tinf = 81 ∧
    (record .fixed { collapseMax := 1000 } 5 demo).count = 8 := by decide
example : (record .fixed { nodeCountTarget := 3 } 5 demo).info.c.tinf = 81 ∧
    (record .fixed { nodeCountTarget := 3 } 5 demo).count = 8 := by decide
example : (record .fixed {} 5 demo).info.c.ec = ⟨1, 1, 1, 1, 3⟩ := by decide

/-- **the pinned snapshot violated C18**: it never counted `other_cont` edges, so the root's edge
    counts differed from the uncontracted sequence (3 such edges here) … -/
theorem C18_pinned_other_cont_uncounted :
    (record .pinned {} 5 demo).info.c.ec.otherCont = 0 ∧ (flatEC (leavesTree demo)).otherCont = 3 := by decide

/-- … it counted a child task's `end` edge in the PARENT of the creating section, so a collapsed
    section (here: the section, collapsed because its span 24 < uncollapse_min) reported no `end`
    edge for its child although the uncontracted section has one … -/
def demoSection : Tree :=
  .group .section (.cons (.create (r 21 30 0) (.group .task (.cons (.ival .endTask (r 52 90 1)) .nil)))
    (.cons (.ival .waitTasks (r 91 95 0)) .nil))

theorem C18_pinned_end_edge_outside_collapsed_section :
    (record .pinned { uncollapseMin := 1000 } 5 demoSection).count = 1 ∧
    (record .pinned { uncollapseMin := 1000 } 5 demoSection).info.c.ec.create = 1 ∧
    (record .pinned { uncollapseMin := 1000 } 5 demoSection).info.c.ec.end_ = 0 ∧
    (record .fixed { uncollapseMin := 1000 } 5 demoSection).info.c.ec.end_ = 1 := by decide

/-- the root task around `demoSection`: with collapse_max_count = 4 the section (3 intervals) is
    collapsed and the root task (4 intervals) is not -/
def demoTask : Tree := .group .task (.cons demoSection (.cons (.ival .endTask (r 96 99 0)) .nil))

/-- … so that the `.stat` edge totals depended on the contraction: the pinned code reported no
    `end` edge at all for this DAG (the uncontracted DAG has one); the current code reports it -/
theorem C18_pinned_stat_end_edges_depend_on_contraction :
    (totN (record .pinned { collapseMaxCount := 4 } 5 demoTask)).end_ = 0 ∧
    (totN (record .pinned {} 5 demoTask)).end_ = 1 ∧
    (totN (record .fixed { collapseMaxCount := 4 } 5 demoTask)).end_ = 1 ∧
    (record .fixed { collapseMaxCount := 4 } 5 demoTask).count = 3 := by decide

/-- … and `dr_collapse_subgraph` left `min_node_count` of a collapsed multi-worker subgraph stale,
    above `cur_node_count` (`dr_check_min_node_count` fails with chk_level ≥ 1) -/
theorem C18_pinned_min_exceeds_cur :
    (record .pinned { uncollapseMin := 1000 } 5 demo).info.min = 8 ∧
    (record .pinned { uncollapseMin := 1000 } 5 demo).info.cur = 1 ∧
    (record .fixed { uncollapseMin := 1000 } 5 demo).info.min = 1 := by decide

end MythVerif.DagRec
