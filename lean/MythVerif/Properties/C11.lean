import MythVerif.Proofs.Tls
/-!
# C11 — thread-specific data destructors run exactly once, with the right value

Model: `MythVerif.Tls` (`myth_tls_tree_fini` = destructor walk, then teardown walk) over the
geometry regenerated from `myth_tls.h`.  The theorems are about `fixedWalk`, the walk of the
current source; `pinnedWalk` is the walk of the pinned snapshot, kept with its refutation.
Quantification: every geometry, every sequence of `set` operations a thread performed (hence
every subset of keys, every value), every key table.
-/
namespace MythVerif.Tls

/-- the tree a thread has built after an arbitrary sequence of `myth_setspecific` calls -/
def treeOf (g : Geo) (ops : List (Int × Val)) : Tree :=
  ops.foldl (fun t op => (set g t op.1 op.2).1) none

/-- every tree a thread can build is well typed (helper, used by all theorems below) -/
theorem treeOf_WT (g : Geo) (ops : List (Int × Val)) : TreeWT g (treeOf g ops) := by
  unfold treeOf
  suffices h : ∀ (t : Tree), TreeWT g t →
      TreeWT g (ops.foldl (fun t op => (set g t op.1 op.2).1) t) from h none trivial
  induction ops with
  | nil => intro t h; exact h
  | cons op ops ih => intro t h; exact ih _ (set_WT g t _ _ h)

/-- the destructor calls made at thread exit, in order -/
def exitCalls (g : Geo) (w : Walk) (dt : Dtors) (t : Tree) : List Ev :=
  match t with
  | none => []
  | some n => callRec g w dt g.depth n 0 g.nKeys

/-- **exact characterisation**: at exit the walk makes one call per key `k < nKeys` that has a
    destructor and whose leaf is allocated, with the value the thread reads under `k`, in key
    order — and nothing else (no out-of-table read, no other call). -/
theorem C11_calls_exact (g : Geo) (dt : Dtors) (ops : List (Int × Val)) :
    exitCalls g fixedWalk dt (treeOf g ops) =
      match treeOf g ops with
      | none => []
      | some n => (List.range g.nKeys).filterMap (fun k =>
          if matRec g g.depth n k = true then (dt k).map (fun _ => Ev.call k (getRec g g.depth n k)) else none) := by
  have hw := treeOf_WT g ops
  unfold exitCalls
  cases h : treeOf g ops with
  | none => rfl
  | some n =>
    rw [h] at hw; simp only [TreeWT] at hw
    have := callRec_fixed g dt g.depth n 0 hw (by simp [Geo.nKeys])
    simp only [Geo.nKeys] at *
    rw [this, specCalls]
    apply filterMap_congr'
    intro k _
    simp [specEntry]

/-- a live key with a destructor and a non-NULL value gets exactly one call, with that value -/
theorem C11_nonnull_called_once (g : Geo) (dt : Dtors) (ops : List (Int × Val)) (k : Nat)
    (hk : k < g.nKeys) (hd : (dt k).isSome) (hv : get g (treeOf g ops) k ≠ 0) :
    (exitCalls g fixedWalk dt (treeOf g ops)).countP (fun e => e.key == some k) = 1 ∧
    Ev.call k (get g (treeOf g ops) k) ∈ exitCalls g fixedWalk dt (treeOf g ops) := by
  have hw := treeOf_WT g ops
  unfold exitCalls
  cases h : treeOf g ops with
  | none => simp [h, get] at hv
  | some n =>
    rw [h] at hw hv; simp only [TreeWT] at hw
    have hget := get_nat g n k hk
    rw [hget] at hv ⊢
    have hm := mat_of_get_ne g g.depth n k hv
    have hc := callRec_fixed g dt g.depth n 0 hw (by simp [Geo.nKeys])
    simp only [Geo.nKeys] at *
    rw [hc]
    constructor
    · rw [specCalls, countP_key _ (specEntry_key g dt g.depth n) k _ List.nodup_range]
      have : (specEntry g dt g.depth n 0 k).isSome := by
        cases hd' : dt k with
        | none => simp [hd'] at hd
        | some f => simp [specEntry, hm, hd']
      simp [hk, this]
    · exact (mem_specCalls g dt g.depth n _).mpr ⟨k, hk, hm, hd, rfl⟩

/-- no destructor is called for a key without one, none with another key's value, none for an
    index outside the table -/
theorem C11_no_foreign_call (g : Geo) (dt : Dtors) (ops : List (Int × Val)) (k : Nat) (v : Val)
    (h : Ev.call k v ∈ exitCalls g fixedWalk dt (treeOf g ops)) :
    k < g.nKeys ∧ (dt k).isSome ∧ v = get g (treeOf g ops) k := by
  have hw := treeOf_WT g ops
  unfold exitCalls at h
  cases ht : treeOf g ops with
  | none => simp [ht] at h
  | some n =>
    rw [ht] at hw h; simp only [TreeWT] at hw
    have hc := callRec_fixed g dt g.depth n 0 hw (by simp [Geo.nKeys])
    simp only [Geo.nKeys] at *
    rw [hc] at h
    obtain ⟨k', hk', _, hd, he⟩ := (mem_specCalls g dt g.depth n _).mp h
    cases he
    exact ⟨hk', hd, (get_nat g n k hk').symm⟩

/-- thread exit never reads the key table outside `[0, nKeys)` -/
theorem C11_no_oob (g : Geo) (dt : Dtors) (ops : List (Int × Val)) (k : Nat) :
    Ev.oob k ∉ exitCalls g fixedWalk dt (treeOf g ops) := by
  intro h
  have hw := treeOf_WT g ops
  unfold exitCalls at h
  cases ht : treeOf g ops with
  | none => simp [ht] at h
  | some n =>
    rw [ht] at hw h; simp only [TreeWT] at hw
    have hc := callRec_fixed g dt g.depth n 0 hw (by simp [Geo.nKeys])
    simp only [Geo.nKeys] at *
    rw [hc] at h
    obtain ⟨_, _, _, _, he⟩ := (mem_specCalls g dt g.depth n _).mp h
    cases he

/-- the teardown releases every allocated node exactly once -/
theorem C11_destroy_frees_all (g : Geo) (ops : List (Int × Val)) (n : Node)
    (h : treeOf g ops = some n) :
    destroyRec g fixedWalk g.depth n 0 g.nKeys = List.replicate (nodeCount g g.depth n) Ev.free := by
  have hw := treeOf_WT g ops
  rw [h] at hw
  exact destroyRec_fixed g g.depth n 0 g.nKeys hw

/-! ### non-vacuity and the refutation of the pinned walk -/

def dt20 : Dtors := fun k => if k = 20 then some 0 else none
def dt256 : Dtors := fun k => if k = 256 then some 0 else none

/-- hypotheses of `C11_nonnull_called_once` are satisfiable on the compiled-in geometry -/
example : (20 : Nat) < geo.nKeys ∧ (dt20 20).isSome ∧ get geo (treeOf geo [(20, 7)]) 20 ≠ 0 := by decide

/-- the repaired walk on the witness: exactly the one call -/
example : exitCalls geo fixedWalk dt20 (treeOf geo [(20, 7)]) = [Ev.call 20 7] := by decide

/-- **the pinned snapshot violated C11**: a thread whose only value is under key 20 (with a
    destructor) exits without any destructor call … -/
theorem C11_pinned_walk_misses_key20 :
    exitCalls geo pinnedWalk dt20 (treeOf geo [(20, 7)]) = [] := by decide

/-- … and with keys 0 and 256 in use the pinned walk reads cell 1024 of the 1024-cell table -/
theorem C11_pinned_walk_reads_outside_table :
    Ev.oob 1024 ∈ exitCalls geo pinnedWalk dt256 (treeOf geo [(0, 1), (256, 7)]) := by decide

end MythVerif.Tls
