import MythVerif.Generated.Shapes
import MythVerif.Model.ShapeSpec
/-! C20 — tie to the source text (see translate/shape_extract.py) -/
namespace MythVerif.Shapes

/-- the statement skeletons of the C functions this property's models transcribe, re-extracted from
    /repo's current sources on this run (`Generated/Shapes.lean`: comments, white space and
    MYTH_VERIF_* instrumentation removed), are exactly the ones the models were written and
    validated against (`Model/ShapeSpec.lean`, changed only by a deliberate `--bless`) -/
theorem C20_source_shape : MythVerif.Gen.Shapes.c20 = MythVerif.ShapeSpec.c20 := rfl

end MythVerif.Shapes
