import MythVerif.Proofs.WsQueueTsoTac
/-! Preservation lemmas of the TSO invariant (generated per program counter of the owner): drain of an owner `base` store at pt7, pt8, pt9. -/
namespace MythVerif.WsqTso
open MythVerif.Wsq

theorem f_O_base_pt7 (s : St) (v0) (rest : List Sto) (e b) : Inv s → s.opc = .pt7 e b →
    s.bufO = .base v0 :: rest → Inv (applySto { s with bufO := rest } (.base v0)) := by
  intro h hpc hb
  simp only [applySto]
  tso_fastO h hpc [pt7]

theorem f_O_base_pt8 (s : St) (v0) (rest : List Sto) (e b) : Inv s → s.opc = .pt8 e b →
    s.bufO = .base v0 :: rest → Inv (applySto { s with bufO := rest } (.base v0)) := by
  intro h hpc hb
  simp only [applySto]
  tso_fastO h hpc [pt8]

theorem f_O_base_pt9 (s : St) (v0) (rest : List Sto) : Inv s → s.opc = .pt9 →
    s.bufO = .base v0 :: rest → Inv (applySto { s with bufO := rest } (.base v0)) := by
  intro h hpc hb
  simp only [applySto]
  tso_fastO h hpc [pt9]

end MythVerif.WsqTso
