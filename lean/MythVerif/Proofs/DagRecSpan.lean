import MythVerif.Proofs.DagRecTotals
/-! The bottom-up critical path (`t_inf`) equals the latest earliest-finish time under the
top-down `est` propagation the recorder performs at record time. -/
namespace MythVerif.DagRec

/-- critical path of the task a create view stands for (0 for other views) -/
def View.sub (x : View) : Nat :=
  match x.i.c.kind, x.child with
  | .createTask, some c => c.c.tinf
  | _, _ => 0

/-- earliest finish of a chain of siblings that starts at earliest-start time `e` -/
def chainFinish (e : Nat) : List View → Nat
  | [] => e
  | x :: r => Nat.max (e + x.i.c.tinf + x.sub) (chainFinish (e + x.i.c.tinf) r)

def sumTinf : List View → Nat
  | [] => 0
  | x :: r => x.i.c.tinf + sumTinf r

theorem chainFinish_ge_sum (xs : List View) : ∀ e, e + sumTinf xs ≤ chainFinish e xs := by
  induction xs with
  | nil => intro e; simp [chainFinish, sumTinf]
  | cons x r ih =>
    intro e
    have := ih (e + x.i.c.tinf)
    simp only [chainFinish, sumTinf, Nat.max_def]; split <;> omega

theorem chainFinish_ge (xs : List View) (e : Nat) : e ≤ chainFinish e xs := by
  have := chainFinish_ge_sum xs e; omega

theorem chainFinish_shift (xs : List View) : ∀ e d, chainFinish (e + d) xs = chainFinish e xs + d := by
  induction xs with
  | nil => intro e d; simp [chainFinish]
  | cons x r ih =>
    intro e d
    have := ih (e + x.i.c.tinf) d
    simp only [chainFinish]
    rw [show e + d + x.i.c.tinf = e + x.i.c.tinf + d by omega, this]
    simp only [Nat.max_def]; split <;> split <;> omega

def View.isCreate (x : View) : Bool :=
  match x.i.c.kind, x.child with
  | .createTask, some _ => true
  | _, _ => false

theorem View.sub_of_not_create (x : View) (h : x.isCreate = false) : x.sub = 0 := by
  unfold View.isCreate at h; unfold View.sub; split <;> simp_all

theorem accStep_tinf (v : Variant) (a : Acc) (x : View) (h : Bool) :
    (accStep v a x h).s.c.tinf = a.s.c.tinf + x.i.c.tinf ∧
    (accStep v a x h).tinfMax =
      if x.isCreate then Nat.max (a.s.c.tinf + x.i.c.tinf + x.sub) a.tinfMax else a.tinfMax := by
  unfold accStep View.sub View.isCreate
  split <;> (try split) <;> (try split) <;> simp_all

theorem accLoop_tinf (v : Variant) (xs : List View) : ∀ a : Acc,
    Nat.max (accLoop v a xs).tinfMax (accLoop v a xs).s.c.tinf = Nat.max a.tinfMax (chainFinish a.s.c.tinf xs) := by
  induction xs with
  | nil => intro a; simp [accLoop, chainFinish]
  | cons x r ih =>
    intro a
    simp only [accLoop, ih, chainFinish]
    obtain ⟨h1, h2⟩ := accStep_tinf v a x (!r.isEmpty)
    rw [h1, h2]
    have := chainFinish_ge r (a.s.c.tinf + x.i.c.tinf)
    cases hc : x.isCreate
    · have := View.sub_of_not_create x hc
      simp only [Nat.max_def, this, Bool.false_eq_true, if_false]
      repeat' split
      all_goals omega
    · simp only [Nat.max_def, if_true]
      repeat' split
      all_goals omega

theorem accumulate_tinf (v : Variant) (k : NKind) (xs : List View) (h : xs ≠ []) :
    (accumulate v k xs).c.tinf = chainFinish 0 xs := by
  cases xs with
  | nil => exact absurd rfl h
  | cons x r =>
    simp only [accumulate, accFinish]
    have := accLoop_tinf v (x :: r) { s := accInit k x ((x :: r).getLast?.getD x), tinfMax := 0 }
    simp only [accInit] at this ⊢
    rw [this]
    simp

/-- siblings started one after the other from earliest-start time `e`: each child's `est` is the
    running sum, each created task starts where its create interval ends -/
def EstChain : Nat → List View → Prop
  | _, [] => True
  | e, x :: r => x.i.c.est = e ∧
      (∀ ct, x.i.c.kind = .createTask → x.child = some ct → ct.c.est = e + x.i.c.tinf) ∧
      EstChain (e + x.i.c.tinf) r

/-- the `est` component of the loop of `dr_return_from_wait_tasks__` -/
def rfwEst (m : Nat) : List View → Nat
  | [] => m
  | x :: r => rfwEst (match x.i.c.kind, x.child with
      | .createTask, some ct => Nat.max m (ct.c.est + ct.c.tinf)
      | _, _ => m) r

theorem rfwStep_est (c : Cursor) (x : View) :
    (rfwStep c x).est = match x.i.c.kind, x.child with
      | .createTask, some ct => Nat.max c.est (ct.c.est + ct.c.tinf)
      | _, _ => c.est := by
  unfold rfwStep
  split
  · simp only [Nat.max_def]; split <;> split <;> simp_all <;> omega
  · split <;> simp_all

theorem foldl_rfwStep_est (xs : List View) : ∀ c : Cursor, (xs.foldl rfwStep c).est = rfwEst c.est xs := by
  induction xs with
  | nil => intro c; rfl
  | cons x r ih =>
    intro c
    simp only [List.foldl_cons, ih, rfwEst, rfwStep_est]

theorem rfwEst_ge (xs : List View) : ∀ m, m ≤ rfwEst m xs := by
  induction xs with
  | nil => intro m; simp [rfwEst]
  | cons x r ih =>
    intro m
    simp only [rfwEst]
    split
    · rename_i ct _ _
      exact Nat.le_trans (Nat.le_max_left _ _) (ih (Nat.max m (ct.c.est + ct.c.tinf)))
    · exact ih m

theorem rfwEst_chain (xs : List View) : ∀ e m, EstChain e xs →
    Nat.max (rfwEst m xs) (e + sumTinf xs) = Nat.max m (chainFinish e xs) := by
  induction xs with
  | nil => intro e m _; simp [rfwEst, sumTinf, chainFinish]
  | cons x r ih =>
    intro e m h
    obtain ⟨h1, h2, h3⟩ := h
    have hge := chainFinish_ge r (e + x.i.c.tinf)
    simp only [rfwEst, sumTinf, chainFinish]
    cases hc : x.isCreate
    · have hs := View.sub_of_not_create x hc
      have : (match x.i.c.kind, x.child with
          | .createTask, some ct => Nat.max m (ct.c.est + ct.c.tinf)
          | _, _ => m) = m := by
        unfold View.isCreate at hc; split <;> simp_all
      rw [this, hs]
      have := ih (e + x.i.c.tinf) m h3
      rw [show e + (x.i.c.tinf + sumTinf r) = e + x.i.c.tinf + sumTinf r by omega, this]
      simp only [Nat.max_def]; repeat' split
      all_goals omega
    · unfold View.isCreate at hc
      split at hc
      · rename_i ct hk hch
        have hest := h2 ct hk hch
        have hsub : x.sub = ct.c.tinf := by unfold View.sub; simp [hk, hch]
        simp only [hk, hch, hsub, hest]
        have := ih (e + x.i.c.tinf) (Nat.max m (e + x.i.c.tinf + ct.c.tinf)) h3
        rw [show e + (x.i.c.tinf + sumTinf r) = e + x.i.c.tinf + sumTinf r by omega, this]
        simp only [Nat.max_def]; repeat' split
        all_goals omega
      · simp at hc

theorem estChain_last (xs : List View) : ∀ e p, EstChain e xs → xs.getLast? = some p →
    p.i.c.est + p.i.c.tinf = e + sumTinf xs := by
  induction xs with
  | nil => intro e p _ h; simp at h
  | cons x r ih =>
    intro e p h hl
    obtain ⟨h1, _, h3⟩ := h
    cases r with
    | nil => simp at hl; subst hl; simp [sumTinf, h1]
    | cons y r' =>
      rw [List.getLast?_cons_cons] at hl
      have := ih (e + x.i.c.tinf) p h3 hl
      simp only [sumTinf] at this ⊢; omega

/-- after a section whose children form an `EstChain` from `e`, the task continues at
    earliest-start time `chainFinish e xs` -/
theorem returnFromWait_est (xs : List View) (e : Nat) (h : EstChain e xs) (hne : xs ≠ []) :
    (returnFromWait xs).est = chainFinish e xs := by
  unfold returnFromWait
  obtain ⟨p, hp⟩ : ∃ p, xs.getLast? = some p := by
    cases xs with
    | nil => exact absurd rfl hne
    | cons x r => exact Option.isSome_iff_exists.mp (by simp)
  rw [hp]
  simp only [foldl_rfwStep_est]
  have h1 := estChain_last xs e p h hp
  have h2 := rfwEst_chain xs e (p.i.c.est + p.i.c.tinf) h
  have h3 := rfwEst_ge xs (p.i.c.est + p.i.c.tinf)
  have h4 := chainFinish_ge_sum xs e
  simp only [Nat.max_def] at h2
  repeat' split at h2
  all_goals omega

theorem maxFinish_append (a b : List Info) : maxFinish (a ++ b) = Nat.max (maxFinish a) (maxFinish b) := by
  induction a with
  | nil => simp [maxFinish]
  | cons i r ih => simp only [List.cons_append, maxFinish, ih, Nat.max_def]; repeat' split
                   all_goals omega

theorem View.sub_none (x : View) (h : x.child = none) : x.sub = 0 := by
  unfold View.sub; split <;> simp_all

theorem accStep_est (v : Variant) (a : Acc) (x : View) (h : Bool) :
    (accStep v a x h).s.c.est = a.s.c.est := by
  unfold accStep
  split <;> (try split) <;> (try split) <;> simp_all

theorem accLoop_est (v : Variant) (xs : List View) : ∀ a : Acc, (accLoop v a xs).s.c.est = a.s.c.est := by
  induction xs with
  | nil => intro a; rfl
  | cons x r ih => intro a; simp only [accLoop, ih, accStep_est]

theorem accumulate_est (v : Variant) (k : NKind) (x : View) (r : List View) :
    (accumulate v k (x :: r)).c.est = x.i.c.est := by
  simp [accumulate, accFinish, accLoop_est, accInit]

mutual
theorem viewTree_span (v : Variant) : ∀ (t : Tree) (c : Cursor),
    (WnAny t → (viewTree v t c).1.i.c.est = c.est ∧
        maxFinish (leafInfosTree v t c) = c.est + (viewTree v t c).1.i.c.tinf + (viewTree v t c).1.sub ∧
        (∀ ct, (viewTree v t c).1.i.c.kind = .createTask → (viewTree v t c).1.child = some ct →
          ct.c.est = c.est + (viewTree v t c).1.i.c.tinf)) ∧
    (∀ b, wnItem b t = true → (viewTree v t c).2.est = c.est + (viewTree v t c).1.i.c.tinf)
  | .ival k r, c => by
    refine ⟨fun _ => ⟨by simp [viewTree, endInterval], ?_, by simp [viewTree]⟩, ?_⟩
    · simp [viewTree, leafInfosTree, maxFinish, View.sub_none, endInterval]
    · intro b h
      simp [wnItem] at h; subst h
      simp [viewTree, cursorAfter, endInterval]
  | .create r child, c => by
    refine ⟨fun h => ?_, fun b _ => by simp [viewTree, cursorAfter, endInterval]⟩
    have hw := wnAny_create h
    have ih := (viewTree_span v child (cursorAfter (endInterval .createTask r c) .create)).1
      (Or.inr (Or.inr hw))
    obtain ⟨ih1, ih2, _⟩ := ih
    have hs : (viewTree v child (cursorAfter (endInterval .createTask r c) .create)).1.sub = 0 := by
      obtain ⟨f, rfl, _⟩ := wnTask_group hw
      exact View.sub_none _ (by simp [viewTree])
    rw [hs] at ih2
    refine ⟨by simp [viewTree, endInterval], ?_, ?_⟩
    · simp only [leafInfosTree, maxFinish, ih2]
      simp only [viewTree, View.sub, endInterval, cursorAfter, Nat.max_def]
      split <;> omega
    · intro ct _ hch
      simp only [viewTree, Option.some.injEq] at hch
      subst hch
      rw [ih1]
      simp [viewTree, cursorAfter, endInterval]
  | .group k f, c => by
    refine ⟨fun h => ?_, fun b h => ?_⟩
    · obtain ⟨b, hb⟩ := wnAny_group h
      obtain ⟨hc, hm⟩ := viewForest_span v f c b hb
      have hne := wnForest_views_ne v b f c hb
      simp only [viewTree, leafInfosTree]
      rw [View.sub_none _ rfl, accumulate_tinf v k _ hne, hm]
      refine ⟨?_, ?_, by simp⟩
      · cases hx : (viewForest v f c).1 with
        | nil => exact absurd hx hne
        | cons x r => rw [hx] at hc; rw [accumulate_est]; exact hc.1
      · have := chainFinish_shift (viewForest v f c).1 0 c.est
        simp only [Nat.zero_add] at this; omega
    · simp only [wnItem, Bool.and_eq_true, beq_iff_eq] at h
      obtain ⟨rfl, hf⟩ := h
      obtain ⟨hc, _⟩ := viewForest_span v f c false hf
      have hne := wnForest_views_ne v false f c hf
      simp only [viewTree, if_true]
      rw [returnFromWait_est _ c.est hc hne, accumulate_tinf v _ _ hne]
      have := chainFinish_shift (viewForest v f c).1 0 c.est
      simp only [Nat.zero_add] at this; omega
theorem viewForest_span (v : Variant) : ∀ (f : Forest) (c : Cursor) (b : Bool), wnForest b f = true →
    EstChain c.est (viewForest v f c).1 ∧
      maxFinish (leafInfosForest v f c) = chainFinish c.est (viewForest v f c).1
  | .nil, c, b, h => by simp [wnForest] at h
  | .cons t .nil, c, b, h => by
    simp only [wnForest] at h
    obtain ⟨h1, h2, h3⟩ := (viewTree_span v t c).1 (Or.inr (Or.inl ⟨b, h⟩))
    simp only [viewForest, leafInfosForest, EstChain, chainFinish, maxFinish, List.append_nil, and_true]
    refine ⟨⟨h1, h3⟩, ?_⟩
    rw [h2]; simp only [Nat.max_def]; split <;> omega
  | .cons t (.cons t' rest), c, b, h => by
    simp only [wnForest, Bool.and_eq_true] at h
    obtain ⟨h1, h4⟩ := viewTree_span v t c
    obtain ⟨h1, h2, h3⟩ := h1 (Or.inl ⟨b, h.1⟩)
    have h4 := h4 b h.1
    obtain ⟨g1, g2⟩ := viewForest_span v (.cons t' rest) (viewTree v t c).2 b h.2
    rw [h4] at g1 g2
    rw [show leafInfosForest v (.cons t (.cons t' rest)) c =
      leafInfosTree v t c ++ leafInfosForest v (.cons t' rest) (viewTree v t c).2 from rfl, maxFinish_append, h2, g2]
    rw [show (viewForest v (.cons t (.cons t' rest)) c).1 =
      (viewTree v t c).1 :: (viewForest v (.cons t' rest) (viewTree v t c).2).1 from rfl]
    simp only [EstChain, chainFinish]
    exact ⟨⟨h1, h3, g1⟩, trivial⟩
end

end MythVerif.DagRec
