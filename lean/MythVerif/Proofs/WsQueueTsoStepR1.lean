import MythVerif.Proofs.WsQueueTsoTac
/-! Preservation lemmas of the TSO invariant (owner: push at `top == size`, lock, overflow test, memmove). -/
namespace MythVerif.WsqTso
open MythVerif.Wsq

theorem o_pul (s s' : St) (e) : Inv s → s.opc = .pul e → stepO s = some s' → Inv s' := by
  intro h heq hs
  have hb := (h.pul e heq).1
  simp only [stepO, heq, hb] at hs
  simp at hs
  split at hs
  · simp at hs; subst hs
    tso_fastO h heq [pul]
  · simp at hs; subst hs; exact h

theorem o_pub (s s' : St) (e) : Inv s → s.opc = .pub e → stepO s = some s' → Inv s' := by
  intro h heq hs
  have hb := (h.pub e heq).1
  simp only [stepO, heq, hb, viewBase_nil] at hs
  split at hs
  all_goals (simp at hs; subst hs)
  all_goals tso_fastO h heq [pub]

theorem o_pum (s s' : St) (e off) : Inv s → s.opc = .pum e off → stepO s = some s' → Inv s' := by
  intro h heq hs
  have hb := (h.pum e off heq).1
  simp only [stepO, heq, hb, viewBase_nil, viewTop_nil] at hs
  simp at hs; subst hs
  tso_fastO h heq [pum]

end MythVerif.WsqTso
