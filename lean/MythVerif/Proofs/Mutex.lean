import MythVerif.Model.Mutex
/-! Inductive invariant of the mutex model and its preservation, one lemma per label. -/
namespace MythVerif.Mutex

structure Inv (s : St) : Prop where
  own   : ∀ t, ownsBit (s.pc t) = true ↔ s.owner = some t
  bit   : s.word % 2 = 1 ↔ s.owner ≠ none
  annM  : ∀ t, t ∈ s.anns ↔ (s.pc t = .ann ∨ s.pc t = .annSw)
  annN  : s.anns.Nodup
  qA    : ∀ t, t ∈ s.q → s.pc t = .asleep
  qN    : s.q.Nodup
  wkA   : ∀ t, t ∈ s.woken → s.pc t = .asleep
  wkN   : s.woken.Nodup
  rdA   : ∀ t, t ∈ s.ready → s.pc t = .asleep
  rdN   : s.ready.Nodup
  qw    : ∀ t, t ∈ s.q → (t ∉ s.woken ∧ t ∉ s.ready)
  wr    : ∀ t, t ∈ s.woken → t ∉ s.ready
  asl   : ∀ t, s.pc t = .asleep → t ∈ s.q ∨ t ∈ s.woken ∨ t ∈ s.ready
  car   : ∀ u x, s.pc u = .uc x → x ∈ s.woken
  carU  : ∀ u1 u2 x, s.pc u1 = .uc x → s.pc u2 = .uc x → u1 = u2
  wkC   : ∀ x, x ∈ s.woken → ∃ u, s.pc u = .uc x
  uwO   : s.uwf = true → s.owner ≠ none
  uwP   : ∀ t, s.owner = some t → (s.uwf = true ↔ s.pc t = .uw)
  acct  : s.word / 2 + (if s.uwf = true then 1 else 0) = s.anns.length + s.q.length
  hope  : (s.q ≠ [] ∨ s.anns ≠ []) → s.owner ≠ none ∨ s.ready ≠ [] ∨ ∃ t, active (s.pc t) = true
  urOdd : ∀ t v, s.pc t = .ur v → v % 2 = 1
  trEven : ∀ t v, s.pc t = .tr v → v % 2 = 0

theorem inv_init : Inv init := by
  constructor <;> simp [init, ownsBit, active]

macro "mfinish" : tactic => `(tactic| (
    constructor
    all_goals (simp only [upd_apply, ownsBit, active] at *)
    all_goals (first | grind [ownsBit, active, List.Nodup.mem_erase_iff, List.Nodup.erase, List.length_erase_of_mem, List.nodup_cons, List.nodup_append] | skip)))

macro "mstep" : tactic => `(tactic| (
  intro h hs
  obtain ⟨hown, hbit, hannM, hannN, hqA, hqN, hwkA, hwkN, hrdA, hrdN, hqw, hwr, hasl, hcar, hcarU, hwkC, huwO, huwP, hacct, hhope, hurOdd, htrEven⟩ := h
  simp only [step] at hs
  (first | (split at hs) | skip)
  all_goals (first | (split at hs) | skip)
  all_goals (first | (split at hs) | skip)
  all_goals (try simp at hs)
  all_goals (try subst hs)
  all_goals (try mfinish)))

theorem p_lockRead (s s' : St) (t v) : Inv s → step s (.lockRead t v) = some s' → Inv s' := by mstep
theorem p_blockBegin (s s' : St) (t) : Inv s → step s (.blockBegin t) = some s' → Inv s' := by mstep
theorem p_wakeSpin (s s' : St) (t) : Inv s → step s (.wakeSpin t) = some s' → Inv s' := by mstep
theorem p_lockCas1 (s s' : St) (t ok) : Inv s → step s (.lockCas1 t ok) = some s' → Inv s' := by mstep
theorem p_lockCas2 (s s' : St) (t ok) : Inv s → step s (.lockCas2 t ok) = some s' → Inv s' := by mstep
theorem p_tryRead (s s' : St) (t v) : Inv s → step s (.tryRead t v) = some s' → Inv s' := by mstep
theorem p_tryCas (s s' : St) (t ok) : Inv s → step s (.tryCas t ok) = some s' → Inv s' := by mstep
theorem p_unlockRead (s s' : St) (t v) : Inv s → step s (.unlockRead t v) = some s' → Inv s' := by mstep
theorem p_unlockCas2 (s s' : St) (t ok) : Inv s → step s (.unlockCas2 t ok) = some s' → Inv s' := by mstep
theorem p_wakeDeq (s s' : St) (t x) : Inv s → step s (.wakeDeq t x) = some s' → Inv s' := by mstep
theorem p_clearBit (s s' : St) (t) : Inv s → step s (.clearBit t) = some s' → Inv s' := by mstep
theorem p_wakePush (s s' : St) (x) : Inv s → step s (.wakePush x) = some s' → Inv s' := by mstep


macro "mfinish'" : tactic => `(tactic| (
    all_goals (simp only [upd_apply, ownsBit, active] at *)
    all_goals (first | grind [ownsBit, active, List.Nodup.mem_erase_iff, List.Nodup.erase, List.length_erase_of_mem, List.nodup_cons, List.nodup_append] | skip)))

theorem p_cbEnq (s s' : St) (t) : Inv s → step s (.cbEnq t) = some s' → Inv s' := by
  intro h hs
  obtain ⟨hown, hbit, hannM, hannN, hqA, hqN, hwkA, hwkN, hrdA, hrdN, hqw, hwr, hasl, hcar, hcarU, hwkC, huwO, huwP, hacct, hhope, hurOdd, htrEven⟩ := h
  simp only [step] at hs
  split at hs
  · rename_i hpc
    simp at hs; subst hs
    constructor
    case hope =>
      intro _
      have hm : t ∈ s.anns := (hannM t).mpr (Or.inr hpc)
      rcases hhope (Or.inr (List.ne_nil_of_mem hm)) with h | h | ⟨u, hu⟩
      · exact Or.inl h
      · exact Or.inr (Or.inl h)
      · refine Or.inr (Or.inr ⟨u, ?_⟩)
        have : u ≠ t := by intro e; subst e; simp [hpc, active] at hu
        simpa [upd_apply, this] using hu
    all_goals mfinish'
  · simp at hs

theorem p_unlockCas0 (s s' : St) (t ok) : Inv s → step s (.unlockCas0 t ok) = some s' → Inv s' := by
  intro h hs
  obtain ⟨hown, hbit, hannM, hannN, hqA, hqN, hwkA, hwkN, hrdA, hrdN, hqw, hwr, hasl, hcar, hcarU, hwkC, huwO, huwP, hacct, hhope, hurOdd, htrEven⟩ := h
  simp only [step] at hs
  split at hs
  · rename_i v hpc
    split at hs
    · rename_i hc
      split at hs
      · rename_i hok
        simp at hs; subst hs
        obtain ⟨hv, hok2⟩ := hc
        subst hv
        have hw : s.word = 1 := by simpa [hok] using hok2.symm
        have hot : s.owner = some t := (hown t).mp (by simp [hpc, ownsBit])
        have huw : s.uwf = false := by
          cases hu : s.uwf with
          | false => rfl
          | true => have := (huwP t hot).mp hu; simp [hpc] at this
        have hz : s.anns.length + s.q.length = 0 := by rw [← hacct, hw, huw]; simp
        have hq : s.q = [] := List.eq_nil_of_length_eq_zero (by omega)
        have ha : s.anns = [] := List.eq_nil_of_length_eq_zero (by omega)
        constructor
        case hope => intro h; simp [hq, ha] at h
        all_goals mfinish'
      · simp at hs; subst hs
        constructor
        all_goals mfinish'
    · simp at hs
  all_goals simp at hs

end MythVerif.Mutex
