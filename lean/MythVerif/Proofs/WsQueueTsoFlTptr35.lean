import MythVerif.Proofs.WsQueueTsoTac
/-! Preservation lemmas of the TSO invariant (generated per program counter of the owner): drain of a passer's store (ptr3) while the owner is at ptl, cll. -/
namespace MythVerif.WsqTso
open MythVerif.Wsq

theorem f_T_ptr3_ptl (s : St) (p : Pid) (e0 : Elem) (e) : Inv s → s.opc = .ptl e → s.lock = .thief p →
    s.bufT p = [.ptr (s.lb - 1) (some e0)] → s.tpc p = .tp3 e0 →
    Inv (applySto { s with bufT := upd s.bufT p [] } (.ptr (s.lb - 1) (some e0))) := by
  intro h hopc hl h0 h1
  simp only [applySto]
  tso_fastO h hopc [tp3, tp4, carryC]

theorem f_T_ptr3_cll (s : St) (p : Pid) (e0 : Elem) : Inv s → s.opc = .cll → s.lock = .thief p →
    s.bufT p = [.ptr (s.lb - 1) (some e0)] → s.tpc p = .tp3 e0 →
    Inv (applySto { s with bufT := upd s.bufT p [] } (.ptr (s.lb - 1) (some e0))) := by
  intro h hopc hl h0 h1
  simp only [applySto]
  tso_fastO h hopc [tp3, tp4, carryC]

end MythVerif.WsqTso
