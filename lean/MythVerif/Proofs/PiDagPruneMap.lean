import MythVerif.Proofs.PiDagFlattenCert
import MythVerif.Proofs.PiDagShrink
/-! Step 1 of `dr_pi_dag_copy_and_prune_nodes` (`pruneMap`): for every node array whose child
relation is a tree (every slot but the root has exactly one parent, which lies before it) the index
map numbers the kept slots consecutively; the root is kept, and a child is kept iff its parent is
kept and copies its children. -/
namespace MythVerif.PiDag
open MythVerif.DagRec

/-- does the (copied) node at `g` copy its children -/
def ccT (o : ShrinkOpts) (T : Array PNode) (g : Nat) : Bool :=
  T[g]!.info.c.kind == .createTask || (isGroupK T[g]!.info.c.kind && copyChildren o T[g]!)

/-- number of slots below `j` that received a new index -/
def cntK (map : Array Int) (j : Nat) : Nat := rsum j (fun x => if 0 ≤ map[x]! then 1 else 0)

theorem cntK_succ (map : Array Int) (j : Nat) : cntK map (j + 1) = cntK map j + (if 0 ≤ map[j]! then 1 else 0) := by
  simp [cntK, rsum_succ]

theorem cntK_congr (m m' : Array Int) (j : Nat) (h : ∀ x < j, m'[x]! = m[x]!) : cntK m' j = cntK m j := by
  apply rsum_congr
  intro x hx; rw [h x hx]

theorem ind_le_one (T : Array PNode) (g j : Nat) : ind T g j ≤ 1 := by
  unfold ind; simp only; repeat' split
  all_goals omega

theorem rsum_mono (f : Nat → Nat) (i n : Nat) (h : i ≤ n) : rsum i f ≤ rsum n f := by
  induction n with
  | zero => have : i = 0 := by omega
            subst this; exact Nat.le_refl _
  | succ n ih =>
    by_cases hi : i = n + 1
    · subst hi; exact Nat.le_refl _
    · rw [rsum_succ]; have := ih (by omega); omega

theorem rsum_pos_ex (f : Nat → Nat) (n : Nat) (h : rsum n f ≠ 0) : ∃ g, g < n ∧ f g ≠ 0 := by
  apply Classical.byContradiction
  intro hn
  apply h
  apply rsum_eq_zero
  intro u hu
  apply Classical.byContradiction
  intro h0
  exact hn ⟨u, hu, h0⟩

/-- the child relation of `T` is a tree rooted at slot 0 -/
structure TreeLike (T : Array PNode) : Prop where
  pos : 0 < T.size
  par : ∀ j, j < T.size → rsum T.size (fun g => ind T g j) = if j = 0 then 0 else 1
  lt : ∀ g c, g < T.size → ind T g c = 1 → g < c

theorem TreeLike.par_below {T : Array PNode} (h : TreeLike T) (j : Nat) (hj : j < T.size) (h0 : j ≠ 0) :
    ∃ g, g < j ∧ ind T g j = 1 := by
  have hp := h.par j hj
  rw [if_neg h0] at hp
  obtain ⟨g, hg, hne⟩ := rsum_pos_ex _ _ (by rw [hp]; omega)
  have := ind_le_one T g j
  have h1 : ind T g j = 1 := by omega
  exact ⟨g, h.lt g j hg h1, h1⟩

theorem TreeLike.unique {T : Array PNode} (h : TreeLike T) (g g' j : Nat) (hg : g < T.size) (hg' : g' < T.size)
    (hj : j < T.size) (h1 : ind T g j = 1) (h2 : ind T g' j = 1) : g = g' := by
  apply Classical.byContradiction
  intro hne
  have hp := h.par j hj
  have hle : rsum T.size (fun x => ind T x j) ≤ 1 := by rw [hp]; split <;> omega
  -- two different terms equal to one
  rcases Nat.lt_or_gt_of_ne hne with hlt | hlt
  · have a1 := rsum_term_le g' g hlt (fun x => ind T x j)
    have a2 := rsum_mono (fun x => ind T x j) (g' + 1) T.size (by omega)
    rw [rsum_succ] at a2
    omega
  · have a1 := rsum_term_le g g' hlt (fun x => ind T x j)
    have a2 := rsum_mono (fun x => ind T x j) (g + 1) T.size (by omega)
    rw [rsum_succ] at a2
    omega

/-! ### one step of the loop -/

theorem rangeSet_spec (lo : Nat) (mark : Int) : ∀ (m : Nat) (c : Array Int),
    ((List.range m).foldl (fun c k => c.set! (lo + k) mark) c).size = c.size ∧
    ∀ j, j < c.size → ((List.range m).foldl (fun c k => c.set! (lo + k) mark) c)[j]! =
      if lo ≤ j ∧ j < lo + m then mark else c[j]! := by
  intro m
  induction m with
  | zero => intro c; exact ⟨rfl, fun j _ => by rw [if_neg (by omega)]; rfl⟩
  | succ m ih =>
    intro c
    rw [List.range_succ, List.foldl_append]
    simp only [List.foldl_cons, List.foldl_nil]
    refine ⟨by rw [set!_size, (ih c).1], fun j hj => ?_⟩
    by_cases h1 : lo + m = j
    · subst h1
      rw [set!_get!_eq _ _ _ (by rw [(ih c).1]; exact hj), if_pos (by omega)]
    · rw [set!_get!_ne _ _ _ _ h1, (ih c).2 j hj]
      by_cases h2 : lo ≤ j ∧ j < lo + m
      · rw [if_pos h2, if_pos (by omega)]
      · rw [if_neg h2, if_neg (by omega)]

/-- the mark the children of `i` receive -/
def markOf (o : ShrinkOpts) (T : Array PNode) (isCopy : Bool) (i : Nat) : Int :=
  if (isCopy && ccT o T i) = true then mapCopy else mapNoCopy

theorem pruneMapStep_spec (o : ShrinkOpts) (T : Array PNode) (map : Array Int) (n_ i : Nat) (hi : i < map.size)
    (hlt : ∀ c, ind T i c = 1 → i < c) :
    (pruneMapStep o T (map, n_) i).1.size = map.size ∧
    (pruneMapStep o T (map, n_) i).2 = n_ + (if map[i]! == mapCopy then 1 else 0) ∧
    ∀ j, j < map.size → (pruneMapStep o T (map, n_) i).1[j]! =
      if ind T i j = 1 then markOf o T (map[i]! == mapCopy) i
      else if j = i ∧ (map[i]! == mapCopy) = true then (n_ : Int) else map[j]! := by
  -- the map after the renumbering of slot `i`
  have hm1 : ∀ j, j < map.size →
      (if (map[i]! == mapCopy) = true then (map.set! i (n_ : Int), n_ + 1) else (map, n_)).1[j]! =
        if j = i ∧ (map[i]! == mapCopy) = true then (n_ : Int) else map[j]! := by
    intro j hj
    by_cases hc : (map[i]! == mapCopy) = true
    · simp only [hc, if_true, and_true]
      by_cases hji : j = i
      · subst hji; rw [set!_get!_eq _ _ _ hj]; simp
      · rw [set!_get!_ne _ _ _ _ (fun e => hji e.symm)]; simp [hji]
    · simp [hc]
  have hs1 : (if (map[i]! == mapCopy) = true then (map.set! i (n_ : Int), n_ + 1) else (map, n_)).1.size = map.size := by
    split <;> simp [set!_size]
  have hn1 : (if (map[i]! == mapCopy) = true then (map.set! i (n_ : Int), n_ + 1) else (map, n_)).2 =
      n_ + (if map[i]! == mapCopy then 1 else 0) := by
    split <;> simp
  generalize hM : (if (map[i]! == mapCopy) = true then (map.set! i (n_ : Int), n_ + 1) else (map, n_)) = M at hm1 hs1 hn1
  have hstep : pruneMapStep o T (map, n_) i =
      (if T[i]!.info.c.kind == .createTask then (M.1.set! (i + T[i]!.a) (markOf o T (map[i]! == mapCopy) i), M.2)
       else if isGroupK T[i]!.info.c.kind then
         ((List.range (T[i]!.b - T[i]!.a)).foldl (fun m k => m.set! (i + T[i]!.a + k) (markOf o T (map[i]! == mapCopy) i)) M.1, M.2)
       else (M.1, M.2)) := by
    rw [← hM]
    simp only [pruneMapStep, markOf, ccT]
    split <;> rfl
  rw [hstep]
  unfold ind at hlt ⊢
  simp only at hlt ⊢
  split
  · rename_i hk
    simp only [hk, if_true] at hlt
    refine ⟨by simp [set!_size, hs1], hn1, fun j hj => ?_⟩
    by_cases h : i + T[i]!.a = j
    · subst h
      simp only [if_true]
      rw [set!_get!_eq _ _ _ (by rw [hs1]; exact hj)]
    · rw [set!_get!_ne _ _ _ _ h, hm1 j hj]
      simp [h]
  · split
    · have hr := rangeSet_spec (i + T[i]!.a) (markOf o T (map[i]! == mapCopy) i) (T[i]!.b - T[i]!.a) M.1
      refine ⟨by rw [hr.1, hs1], hn1, fun j hj => ?_⟩
      simp only
      rw [hr.2 j (by rw [hs1]; exact hj)]
      by_cases h : i + T[i]!.a ≤ j ∧ j < i + T[i]!.a + (T[i]!.b - T[i]!.a)
      · simp [h]
      · simp only [h, if_false]
        rw [hm1 j hj]
        simp
    · refine ⟨hs1, hn1, fun j hj => ?_⟩
      simp only
      rw [hm1 j hj]
      simp

/-! ### the invariant of the loop -/

structure PInv (o : ShrinkOpts) (T : Array PNode) (i : Nat) (map : Array Int) (n_ : Nat) : Prop where
  sz : map.size = T.size
  cnt : n_ = cntK map i
  low : ∀ j, j < i → map[j]! = mapNoCopy ∨ map[j]! = (cntK map j : Int)
  lowrel : ∀ g c, g < T.size → c < i → ind T g c = 1 → ((0 : Int) ≤ map[c]! ↔ ((0 : Int) ≤ map[g]! ∧ ccT o T g = true))
  root : 0 < i → (0 : Int) ≤ map[0]!
  high0 : i = 0 → map[0]! = mapCopy
  highP : ∀ g j, g < i → i ≤ j → j < T.size → ind T g j = 1 →
    map[j]! = if ((0 : Int) ≤ map[g]! ∧ ccT o T g = true) then mapCopy else mapNoCopy

theorem pinv_init (o : ShrinkOpts) (T : Array PNode) (hn : 0 < T.size) :
    PInv o T 0 ((Array.replicate T.size mapInit).set! 0 mapCopy) 0 := by
  refine ⟨by simp [set!_size], by simp [cntK, rsum], fun j hj => by omega, fun g c _ hc => by omega,
    fun h => by omega, fun _ => ?_, fun g j hg => by omega⟩
  exact set!_get!_eq _ _ _ (by simpa using hn)

theorem pinv_step (o : ShrinkOpts) (T : Array PNode) (ht : TreeLike T) (i : Nat) (hi : i < T.size)
    (map : Array Int) (n_ : Nat) (h : PInv o T i map n_) :
    PInv o T (i + 1) (pruneMapStep o T (map, n_) i).1 (pruneMapStep o T (map, n_) i).2 := by
  obtain ⟨s1, s2, s3⟩ := pruneMapStep_spec o T map n_ i (by rw [h.sz]; exact hi) (fun c hc => ht.lt i c hi hc)
  generalize (pruneMapStep o T (map, n_) i).1 = map' at s1 s3 ⊢
  generalize (pruneMapStep o T (map, n_) i).2 = n' at s2 ⊢
  rw [h.sz] at s1 s3
  -- what slot `i` holds before the step
  have hcur : (map[i]! == mapCopy) = true ∨ (map[i]! = mapNoCopy ∧ 0 < i) := by
    by_cases h0 : i = 0
    · left; subst h0; rw [h.high0 rfl]; rfl
    · obtain ⟨g, hg, hgi⟩ := ht.par_below i hi h0
      have := h.highP g i hg (Nat.le_refl _) hi hgi
      split at this
      · left; rw [this]; rfl
      · right; exact ⟨this, by omega⟩
  have hA : ∀ j, j < i → map'[j]! = map[j]! := by
    intro j hj
    rw [s3 j (by omega)]
    have : ¬ ind T i j = 1 := fun hc => by have := ht.lt i j hi hc; omega
    rw [if_neg this, if_neg (by omega)]
  have hB : map'[i]! = if (map[i]! == mapCopy) = true then (n_ : Int) else map[i]! := by
    rw [s3 i hi]
    have : ¬ ind T i i = 1 := fun hc => by have := ht.lt i i hi hc; omega
    rw [if_neg this]
    by_cases hc : (map[i]! == mapCopy) = true <;> simp [hc]
  have hC : ∀ j, i < j → j < T.size → map'[j]! =
      if ind T i j = 1 then markOf o T (map[i]! == mapCopy) i else map[j]! := by
    intro j hj hjn
    rw [s3 j hjn]
    split
    · rfl
    · rw [if_neg (by omega)]
  have hK : (0 ≤ map'[i]!) ↔ (map[i]! == mapCopy) = true := by
    rw [hB]
    rcases hcur with hc | ⟨hc, _⟩
    · simp [hc]
    · rw [hc]; simp [mapNoCopy, mapCopy]
  have hcntI : cntK map' i = cntK map i := cntK_congr _ _ _ (fun x hx => hA x hx)
  refine ⟨s1, ?_, ?_, ?_, ?_, fun h0 => by omega, ?_⟩
  · rw [cntK_succ, hcntI, s2, h.cnt]
    congr 1
    by_cases hc : (map[i]! == mapCopy) = true
    · rw [if_pos hc, if_pos (hK.mpr hc)]
    · rw [if_neg hc, if_neg (fun h => hc (hK.mp h))]
  · intro j hj
    by_cases hji : j = i
    · subst hji
      rw [hB, hcntI]
      rcases hcur with hc | ⟨hc, _⟩
      · right; rw [if_pos hc, h.cnt]
      · left
        have : ¬ (map[j]! == mapCopy) = true := by rw [hc]; simp [mapNoCopy, mapCopy]
        rw [if_neg this]; exact hc
    · have hlt : j < i := by omega
      rw [hA j hlt, cntK_congr map map' j (fun x hx => hA x (by omega))]
      exact h.low j hlt
  · intro g c hg hc hgc
    have hgc' := ht.lt g c hg hgc
    by_cases hci : c = i
    · subst hci
      rw [hK, hA g hgc']
      have := h.highP g c hgc' (Nat.le_refl _) hi hgc
      rw [this]
      split
      · rename_i hcond; simp [hcond]
      · rename_i hcond
        constructor
        · intro hh; simp [mapNoCopy, mapCopy] at hh
        · intro hh; exact absurd hh hcond
    · have hlt : c < i := by omega
      rw [hA c hlt, hA g (by omega)]
      exact h.lowrel g c hg hlt hgc
  · intro _
    by_cases h0 : i = 0
    · subst h0
      rw [hK, h.high0 rfl]; rfl
    · rw [hA 0 (by omega)]; exact h.root (by omega)
  · intro g j hg hj hjn hgj
    rw [hC j (by omega) hjn]
    by_cases hgi : g = i
    · subst hgi
      rw [if_pos hgj]
      simp only [markOf, Bool.and_eq_true]
      by_cases hc : (map[g]! == mapCopy) = true
      · have : 0 ≤ map'[g]! := hK.mpr hc
        simp [hc, this]
      · have : ¬ 0 ≤ map'[g]! := fun h => hc (hK.mp h)
        simp [hc, this]
    · have hlt : g < i := by omega
      have hne : ¬ ind T i j = 1 := fun hc => hgi (ht.unique g i j (by omega) hi hjn hgj hc)
      rw [if_neg hne, hA g hlt]
      exact h.highP g j hlt (by omega) hjn hgj

theorem pinv_fold (o : ShrinkOpts) (T : Array PNode) (ht : TreeLike T) : ∀ k, k ≤ T.size →
    PInv o T k ((List.range k).foldl (pruneMapStep o T) ((Array.replicate T.size mapInit).set! 0 mapCopy, 0)).1
      ((List.range k).foldl (pruneMapStep o T) ((Array.replicate T.size mapInit).set! 0 mapCopy, 0)).2 := by
  intro k
  induction k with
  | zero => intro _; exact pinv_init o T ht.pos
  | succ k ih =>
    intro hk
    rw [List.range_succ, List.foldl_append]
    simp only [List.foldl_cons, List.foldl_nil]
    exact pinv_step o T ht k (by omega) _ _ (ih (by omega))

/-- what step 1 establishes -/
structure PFinal (o : ShrinkOpts) (T : Array PNode) (map : Array Int) : Prop where
  sz : map.size = T.size
  root : (0 : Int) ≤ map[0]!
  low : ∀ j, j < T.size → map[j]! = mapNoCopy ∨ map[j]! = (cntK map j : Int)
  rel : ∀ g c, g < T.size → c < T.size → ind T g c = 1 → ((0 : Int) ≤ map[c]! ↔ ((0 : Int) ≤ map[g]! ∧ ccT o T g = true))

theorem pruneMap_final (o : ShrinkOpts) (T : Array PNode) (ht : TreeLike T) : PFinal o T (pruneMap o T).1 := by
  rw [pruneMap_eq]
  have h := pinv_fold o T ht T.size (Nat.le_refl _)
  exact ⟨h.sz, h.root ht.pos, h.low, fun g c hg hc hgc => h.lowrel g c hg hc hgc⟩

end MythVerif.PiDag
