import MythVerif.Proofs.PiDagFlatten
import MythVerif.Proofs.PiDagIntern
/-! The string-table part of well-formedness holds for every `flatten`: all file indices are
inside the table and the table has no duplicates. -/
namespace MythVerif.PiDag
open MythVerif.DagRec

/-- all slots refer into the table `st`, which has no duplicates -/
def StrOK (T : Array PNode) (st : List Nat) : Prop :=
  st.Nodup ∧ ∀ j, j < T.size → T[j]!.info.c.start.pos.file < st.length ∧ T[j]!.info.c.end_.pos.file < st.length

theorem intern_idx_lt (st : List Nat) (f : Nat) : (intern st f).2 < (intern st f).1.length :=
  (List.getElem?_eq_some_iff.mp (intern_get st f)).1

theorem intern_len_le (st : List Nat) (f : Nat) : st.length ≤ (intern st f).1.length := by
  obtain ⟨r, e⟩ := intern_prefix st f
  rw [e]; simp

theorem copyNode_spec (sc : Nat) (st : List Nat) (i : Info) (h : st.Nodup) :
    (copyNode sc st i).2.Nodup ∧ st.length ≤ (copyNode sc st i).2.length ∧
    (copyNode sc st i).1.info.c.start.pos.file < (copyNode sc st i).2.length ∧
    (copyNode sc st i).1.info.c.end_.pos.file < (copyNode sc st i).2.length := by
  simp only [copyNode]
  have h1 := intern_nodup st i.c.start.pos.file h
  have h2 := intern_nodup _ i.c.end_.pos.file h1
  have l1 := intern_len_le st i.c.start.pos.file
  have l2 := intern_len_le (intern st i.c.start.pos.file).1 i.c.end_.pos.file
  have i1 := intern_idx_lt st i.c.start.pos.file
  have i2 := intern_idx_lt (intern st i.c.start.pos.file).1 i.c.end_.pos.file
  exact ⟨h2, by omega, by omega, i2⟩

theorem strOK_push (sc : Nat) (T : Array PNode) (st : List Nat) (i : Info) (h : StrOK T st) :
    StrOK (T.push (copyNode sc st i).1) (copyNode sc st i).2 := by
  obtain ⟨c1, c2, c3, c4⟩ := copyNode_spec sc st i h.1
  refine ⟨c1, fun j hj => ?_⟩
  simp only [Array.size_push] at hj
  by_cases hlt : j < T.size
  · rw [push_get_lt _ _ _ hlt]
    have := h.2 j hlt
    omega
  · have : j = T.size := by omega
    subst this
    rw [getElem!_pos _ _ (by simp)]
    simp only [Array.getElem_push_eq]
    exact ⟨c3, c4⟩

theorem strOK_modify (T : Array PNode) (st : List Nat) (idx : Nat) (f : PNode → PNode)
    (hf : ∀ x, (f x).info = x.info) (h : StrOK T st) : StrOK (T.modify idx f) st := by
  refine ⟨h.1, fun j hj => ?_⟩
  rw [modify_info _ _ _ _ hf]
  exact h.2 j (by simpa using hj)

theorem pushAll_strOK (sc : Nat) : ∀ (ds : DList) (s : FlatSt), StrOK s.T s.st →
    StrOK (pushAll sc ds s).T (pushAll sc ds s).st
  | .nil, s, h => h
  | .cons d r, s, h => by
    simp only [pushAll]
    exact pushAll_strOK sc r _ (strOK_push sc s.T s.st d.info h)

mutual
theorem flatNode_strOK (sc : Nat) : ∀ (d : DNode) (idx : Nat) (s : FlatSt), StrOK s.T s.st →
    StrOK (flatNode sc d idx s).T (flatNode sc d idx s).st
  | .ival _, _, s, h => h
  | .create i ch, idx, s, h => by
    simp only [flatNode]
    exact flatNode_strOK sc ch _ _ (strOK_modify _ _ _ _ (fun _ => rfl) (strOK_push sc s.T s.st ch.info h))
  | .group i ds, idx, s, h => by
    simp only [flatNode]
    exact flatList_strOK sc ds _ _ (strOK_modify _ _ _ _ (fun _ => rfl) (pushAll_strOK sc ds s h))
theorem flatList_strOK (sc : Nat) : ∀ (ds : DList) (k : Nat) (s : FlatSt), StrOK s.T s.st →
    StrOK (flatList sc ds k s).T (flatList sc ds k s).st
  | .nil, _, s, h => h
  | .cons d r, k, s, h => by
    simp only [flatList]
    exact flatList_strOK sc r _ _ (flatNode_strOK sc d k s h)
end

/-- the string-table conjunct of `wellFormed` holds for every dump -/
theorem flatten_wfStrings (sc nw : Nat) (d : DNode) : wfStrings (flatten sc nw d) = true := by
  have h0 : StrOK #[(copyNode sc [] d.info).1] (copyNode sc [] d.info).2 := by
    have := strOK_push sc #[] [] d.info ⟨List.nodup_nil, fun j hj => by simp at hj⟩
    simpa using this
  have h := flatNode_strOK sc d 0 { T := #[(copyNode sc [] d.info).1], st := (copyNode sc [] d.info).2 } h0
  unfold wfStrings flatten finishDag enumNodes
  simp only [Bool.and_eq_true, decide_eq_true_eq]
  refine ⟨?_, h.1⟩
  rw [Array.all_eq_true]
  intro j hj
  have hs := setEdgePtrs_spec (flatNode sc d 0 { T := #[(copyNode sc [] d.info).1], st := (copyNode sc [] d.info).2 }).T
    (sortEdges (enumEdges (flatNode sc d 0 { T := #[(copyNode sc [] d.info).1], st := (copyNode sc [] d.info).2 }).T))
  have hj' : j < (flatNode sc d 0 { T := #[(copyNode sc [] d.info).1], st := (copyNode sc [] d.info).2 }).T.size := by
    rw [← hs.1]; exact hj
  have := h.2 j hj'
  have e := hs.2 j
  rw [getElem!_pos _ j hj] at e
  simp only [Bool.and_eq_true, decide_eq_true_eq]
  rw [e]
  exact this

end MythVerif.PiDag
