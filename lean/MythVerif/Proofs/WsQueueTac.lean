import MythVerif.Proofs.WsQueueInv
/-! Tactics shared by the per-program-counter preservation lemmas. -/
namespace MythVerif.Wsq

theorem stepO_of (s : St) : step s .o = stepO s := rfl
theorem stepT_of (s : St) (p : Pid) : step s (.t p) = stepT s p := rfl

/-- close every clause of `Inv s'` from the clauses of `Inv s` -/
macro "wsq_finish" : tactic => `(tactic| (
    constructor
    all_goals (try simp only [ownerLocked, midPop, topSync, baseSync, ownerFlight, upd_apply, shiftPtr_apply])
    all_goals (first | assumption | grind [thiefLocked, transient, thiefFlight, List.length_dropLast] | skip)))

macro "wsq_ostep" : tactic => `(tactic| (
  intro h heq hs
  cases h
  simp only [stepO, heq] at hs
  (first | (split at hs) | skip)
  all_goals (first | (split at hs) | skip)
  all_goals (try simp at hs)
  all_goals (try subst hs)
  all_goals (try simp only [heq, ownerLocked, midPop, topSync, baseSync, ownerFlight] at *)
  all_goals (try wsq_finish)))

macro "wsq_tstep" : tactic => `(tactic| (
  intro h heq hs
  cases h
  simp only [stepT, heq] at hs
  (first | (split at hs) | skip)
  all_goals (first | (split at hs) | skip)
  all_goals (try simp at hs)
  all_goals (try subst hs)
  all_goals (try simp only [ownerLocked, midPop, topSync, baseSync, ownerFlight] at *)
  all_goals (try wsq_finish)))

end MythVerif.Wsq
