import MythVerif.Proofs.WsQueueTsoTac
/-! Preservation lemmas of the TSO invariant (drain of an owner `top` store). -/
namespace MythVerif.WsqTso
open MythVerif.Wsq


set_option maxHeartbeats 4000000 in
theorem f_O_top (s s' : St) (v : Int) (rest : List Sto) : Inv s → s.bufO = .top v :: rest →
    s' = applySto { s with bufO := rest } (.top v) → Inv s' := by
  intro h hb hs
  subst hs
  simp only [applySto]
  cases hpc : s.opc
  all_goals (cases h; simp only [hpc, ownerLocked, carry, resetting, ownerFlight] at *)
  all_goals tso_finish3

end MythVerif.WsqTso
