import MythVerif.Proofs.WsQueueTac
/-! Per-program-counter preservation lemmas of the work-stealing queue invariant (generated list, uniform script). -/
namespace MythVerif.Wsq

set_option maxHeartbeats 1000000 in
theorem t_vl (s s' : St) (p : Pid) : Inv s → s.tpc p = .vl → stepT s p = some s' → Inv s' := by wsq_tstep

set_option maxHeartbeats 1000000 in
theorem t_vc1 (s s' : St) (p : Pid) : Inv s → s.tpc p = .vc1 → stepT s p = some s' → Inv s' := by wsq_tstep

set_option maxHeartbeats 1000000 in
theorem t_vk1 (s s' : St) (p : Pid) : Inv s → s.tpc p = .vk1 → stepT s p = some s' → Inv s' := by wsq_tstep

set_option maxHeartbeats 1000000 in
theorem t_vk2 (s s' : St) (p : Pid) (b) : Inv s → s.tpc p = .vk2 b → stepT s p = some s' → Inv s' := by wsq_tstep

set_option maxHeartbeats 1000000 in
theorem t_vk3 (s s' : St) (p : Pid) (b) : Inv s → s.tpc p = .vk3 b → stepT s p = some s' → Inv s' := by wsq_tstep

end MythVerif.Wsq
