import MythVerif.Proofs.WsQueueTsoBnd
/-! Preservation of the bounds invariant `Bnd` (generated per program counter): participant at wk1, wkf, wk2, wk3, wk4, wk4u. -/
namespace MythVerif.WsqTso
open MythVerif.Wsq

theorem bT_wk1 (s s' : St) (p : Pid) : Inv s → Inv s' → Bnd s → s.tpc p = .wk1 → stepT s p = some s' → Bnd s' := by
  intro h h' hb hpc hs
  have hcfg := h.cfg
  have hview := thief_views s h p
  have a6 := h'.tp2; have a7 := h'.tk3; have a8 := h'.vk3
  have b1 := h.tk2 p; have b2 := h.vk2 p; have b3 := hb.pk2 p; have b4 := hb.pk3 p
  have hbufE := h.tbufE p
  have hvb : s.bufT p = [] → viewBase (s.bufT p) s.base = s.base ∧ viewTop (s.bufT p) s.top = s.top := by
    intro h0; rw [h0]; exact ⟨rfl, rfl⟩
  simp only [stepT, hpc, releaseT, fenceOk, hcfg, code_unlockFence, code_takeFence, code_wtakeFence, code_wpeekFence, if_true] at hs
  all_goals (try split at hs)
  all_goals (try split at hs)
  all_goals (try simp at hs)
  all_goals (try (first | (subst hs; exact hb) | subst hs))
  all_goals (
    tso_coreT h []
    bnd_core hb
    constructor
    all_goals (bnd_pick hb; rename_i hold)
    all_goals (first | exact hold | (
      (try simp only [upd_apply, applySto] at hold ⊢)
      first | assumption | (intros; contradiction) | (intro q; if hq : q = p then (subst hq; simp only [if_true]; intros; contradiction) else (simp only [if_neg hq]; exact hold q)) | grind [thiefLocked, mayBuf, notTrans, thiefFlight, popWin, rcOff_bnd, Rc1Shape, Rc2Shape, RcPre, RcShape, InsShape, Pu2Shape, CarryShape] | (intro q; by_cases hqp : q = p <;> simp [hqp] <;> grind [thiefLocked, mayBuf, notTrans, thiefFlight, popWin, rcOff_bnd, Rc1Shape, Rc2Shape, RcPre, RcShape, InsShape, Pu2Shape, CarryShape]) | skip)))

theorem bT_wkf (s s' : St) (p : Pid) (b) : Inv s → Inv s' → Bnd s → s.tpc p = .wkf b → stepT s p = some s' → Bnd s' := by
  intro h h' hb hpc hs
  have hcfg := h.cfg
  have hview := thief_views s h p
  have a6 := h'.tp2; have a7 := h'.tk3; have a8 := h'.vk3
  have b1 := h.tk2 p; have b2 := h.vk2 p; have b3 := hb.pk2 p; have b4 := hb.pk3 p
  have hbufE := h.tbufE p
  have hvb : s.bufT p = [] → viewBase (s.bufT p) s.base = s.base ∧ viewTop (s.bufT p) s.top = s.top := by
    intro h0; rw [h0]; exact ⟨rfl, rfl⟩
  simp only [stepT, hpc, releaseT, fenceOk, hcfg, code_unlockFence, code_takeFence, code_wtakeFence, code_wpeekFence, if_true] at hs
  all_goals (try split at hs)
  all_goals (try split at hs)
  all_goals (try simp at hs)
  all_goals (try (first | (subst hs; exact hb) | subst hs))
  all_goals (
    tso_coreT h [wkf]
    bnd_core hb
    constructor
    all_goals (bnd_pick hb; rename_i hold)
    all_goals (first | exact hold | (
      (try simp only [upd_apply, applySto] at hold ⊢)
      first | assumption | (intros; contradiction) | (intro q; if hq : q = p then (subst hq; simp only [if_true]; intros; contradiction) else (simp only [if_neg hq]; exact hold q)) | grind [thiefLocked, mayBuf, notTrans, thiefFlight, popWin, rcOff_bnd, Rc1Shape, Rc2Shape, RcPre, RcShape, InsShape, Pu2Shape, CarryShape] | (intro q; by_cases hqp : q = p <;> simp [hqp] <;> grind [thiefLocked, mayBuf, notTrans, thiefFlight, popWin, rcOff_bnd, Rc1Shape, Rc2Shape, RcPre, RcShape, InsShape, Pu2Shape, CarryShape]) | skip)))

theorem bT_wk2 (s s' : St) (p : Pid) (b) : Inv s → Inv s' → Bnd s → s.tpc p = .wk2 b → stepT s p = some s' → Bnd s' := by
  intro h h' hb hpc hs
  have hcfg := h.cfg
  have hview := thief_views s h p
  have a6 := h'.tp2; have a7 := h'.tk3; have a8 := h'.vk3
  have b1 := h.tk2 p; have b2 := h.vk2 p; have b3 := hb.pk2 p; have b4 := hb.pk3 p
  have hbufE := h.tbufE p
  have hvb : s.bufT p = [] → viewBase (s.bufT p) s.base = s.base ∧ viewTop (s.bufT p) s.top = s.top := by
    intro h0; rw [h0]; exact ⟨rfl, rfl⟩
  simp only [stepT, hpc, releaseT, fenceOk, hcfg, code_unlockFence, code_takeFence, code_wtakeFence, code_wpeekFence, if_true] at hs
  all_goals (try split at hs)
  all_goals (try split at hs)
  all_goals (try simp at hs)
  all_goals (try (first | (subst hs; exact hb) | subst hs))
  all_goals (
    tso_coreT h [wk2]
    bnd_core hb
    constructor
    all_goals (bnd_pick hb; rename_i hold)
    all_goals (first | exact hold | (
      (try simp only [upd_apply, applySto] at hold ⊢)
      first | assumption | (intros; contradiction) | (intro q; if hq : q = p then (subst hq; simp only [if_true]; intros; contradiction) else (simp only [if_neg hq]; exact hold q)) | grind [thiefLocked, mayBuf, notTrans, thiefFlight, popWin, rcOff_bnd, Rc1Shape, Rc2Shape, RcPre, RcShape, InsShape, Pu2Shape, CarryShape] | (intro q; by_cases hqp : q = p <;> simp [hqp] <;> grind [thiefLocked, mayBuf, notTrans, thiefFlight, popWin, rcOff_bnd, Rc1Shape, Rc2Shape, RcPre, RcShape, InsShape, Pu2Shape, CarryShape]) | skip)))

theorem bT_wk3 (s s' : St) (p : Pid) (b) : Inv s → Inv s' → Bnd s → s.tpc p = .wk3 b → stepT s p = some s' → Bnd s' := by
  intro h h' hb hpc hs
  have hcfg := h.cfg
  have hview := thief_views s h p
  have a6 := h'.tp2; have a7 := h'.tk3; have a8 := h'.vk3
  have b1 := h.tk2 p; have b2 := h.vk2 p; have b3 := hb.pk2 p; have b4 := hb.pk3 p
  have hbufE := h.tbufE p
  have hvb : s.bufT p = [] → viewBase (s.bufT p) s.base = s.base ∧ viewTop (s.bufT p) s.top = s.top := by
    intro h0; rw [h0]; exact ⟨rfl, rfl⟩
  simp only [stepT, hpc, releaseT, fenceOk, hcfg, code_unlockFence, code_takeFence, code_wtakeFence, code_wpeekFence, if_true] at hs
  all_goals (try split at hs)
  all_goals (try split at hs)
  all_goals (try simp at hs)
  all_goals (try (first | (subst hs; exact hb) | subst hs))
  all_goals (
    tso_coreT h [wk3]
    bnd_core hb
    constructor
    all_goals (bnd_pick hb; rename_i hold)
    all_goals (first | exact hold | (
      (try simp only [upd_apply, applySto] at hold ⊢)
      first | assumption | (intros; contradiction) | (intro q; if hq : q = p then (subst hq; simp only [if_true]; intros; contradiction) else (simp only [if_neg hq]; exact hold q)) | grind [thiefLocked, mayBuf, notTrans, thiefFlight, popWin, rcOff_bnd, Rc1Shape, Rc2Shape, RcPre, RcShape, InsShape, Pu2Shape, CarryShape] | (intro q; by_cases hqp : q = p <;> simp [hqp] <;> grind [thiefLocked, mayBuf, notTrans, thiefFlight, popWin, rcOff_bnd, Rc1Shape, Rc2Shape, RcPre, RcShape, InsShape, Pu2Shape, CarryShape]) | skip)))

theorem bT_wk4 (s s' : St) (p : Pid) (r) : Inv s → Inv s' → Bnd s → s.tpc p = .wk4 r → stepT s p = some s' → Bnd s' := by
  intro h h' hb hpc hs
  have hcfg := h.cfg
  have hview := thief_views s h p
  have a6 := h'.tp2; have a7 := h'.tk3; have a8 := h'.vk3
  have b1 := h.tk2 p; have b2 := h.vk2 p; have b3 := hb.pk2 p; have b4 := hb.pk3 p
  have hbufE := h.tbufE p
  have hvb : s.bufT p = [] → viewBase (s.bufT p) s.base = s.base ∧ viewTop (s.bufT p) s.top = s.top := by
    intro h0; rw [h0]; exact ⟨rfl, rfl⟩
  simp only [stepT, hpc, releaseT, fenceOk, hcfg, code_unlockFence, code_takeFence, code_wtakeFence, code_wpeekFence, if_true] at hs
  all_goals (try split at hs)
  all_goals (try split at hs)
  all_goals (try simp at hs)
  all_goals (try (first | (subst hs; exact hb) | subst hs))
  all_goals (
    tso_coreT h [wk4]
    bnd_core hb
    constructor
    all_goals (bnd_pick hb; rename_i hold)
    all_goals (first | exact hold | (
      (try simp only [upd_apply, applySto] at hold ⊢)
      first | assumption | (intros; contradiction) | (intro q; if hq : q = p then (subst hq; simp only [if_true]; intros; contradiction) else (simp only [if_neg hq]; exact hold q)) | grind [thiefLocked, mayBuf, notTrans, thiefFlight, popWin, rcOff_bnd, Rc1Shape, Rc2Shape, RcPre, RcShape, InsShape, Pu2Shape, CarryShape] | (intro q; by_cases hqp : q = p <;> simp [hqp] <;> grind [thiefLocked, mayBuf, notTrans, thiefFlight, popWin, rcOff_bnd, Rc1Shape, Rc2Shape, RcPre, RcShape, InsShape, Pu2Shape, CarryShape]) | skip)))

theorem bT_wk4u (s s' : St) (p : Pid) (r) : Inv s → Inv s' → Bnd s → s.tpc p = .wk4u r → stepT s p = some s' → Bnd s' := by
  intro h h' hb hpc hs
  have hcfg := h.cfg
  have hview := thief_views s h p
  have a6 := h'.tp2; have a7 := h'.tk3; have a8 := h'.vk3
  have b1 := h.tk2 p; have b2 := h.vk2 p; have b3 := hb.pk2 p; have b4 := hb.pk3 p
  have hbufE := h.tbufE p
  have hvb : s.bufT p = [] → viewBase (s.bufT p) s.base = s.base ∧ viewTop (s.bufT p) s.top = s.top := by
    intro h0; rw [h0]; exact ⟨rfl, rfl⟩
  simp only [stepT, hpc, releaseT, fenceOk, hcfg, code_unlockFence, code_takeFence, code_wtakeFence, code_wpeekFence, if_true] at hs
  all_goals (try split at hs)
  all_goals (try split at hs)
  all_goals (try simp at hs)
  all_goals (try (first | (subst hs; exact hb) | subst hs))
  all_goals (
    tso_coreT h [wk4u]
    bnd_core hb
    constructor
    all_goals (bnd_pick hb; rename_i hold)
    all_goals (first | exact hold | (
      (try simp only [upd_apply, applySto] at hold ⊢)
      first | assumption | (intros; contradiction) | (intro q; if hq : q = p then (subst hq; simp only [if_true]; intros; contradiction) else (simp only [if_neg hq]; exact hold q)) | grind [thiefLocked, mayBuf, notTrans, thiefFlight, popWin, rcOff_bnd, Rc1Shape, Rc2Shape, RcPre, RcShape, InsShape, Pu2Shape, CarryShape] | (intro q; by_cases hqp : q = p <;> simp [hqp] <;> grind [thiefLocked, mayBuf, notTrans, thiefFlight, popWin, rcOff_bnd, Rc1Shape, Rc2Shape, RcPre, RcShape, InsShape, Pu2Shape, CarryShape]) | skip)))

end MythVerif.WsqTso
