import MythVerif.Model.WsQueueSeq
import MythVerif.Basic.Run
/-! Sequential refinement of the work-stealing queue: every operation of
    `Model/WsQueueSeq.lean` acts on the abstraction `Q.abs` (slots `[base, top)`) as the
    corresponding double-ended-queue operation. -/
namespace MythVerif.Wsq

theorem slots_length (f b n) : (slots f b n).length = n := by
  induction n generalizing b with
  | zero => rfl
  | succ n ih => simp [slots, ih]

theorem getElem?_slots (f b) (n k : Nat) :
    (slots f b n)[k]? = if k < n then some (f (b + k)) else none := by
  induction n generalizing b k with
  | zero => simp [slots]
  | succ n ih =>
    cases k with
    | zero => simp [slots]
    | succ k =>
      simp only [slots, List.getElem?_cons_succ, ih]
      have : b + 1 + (k:Int) = b + ((k+1 : Nat) : Int) := by omega
      simp [this]

theorem rcOff_eq (b : Int) (h : 0 < b) : rcOff b = -((b + 1) / 2) := by
  unfold rcOff
  rw [Int.tdiv_eq_ediv]
  have : Int.sign 2 = 1 := by decide
  rw [this]
  split
  · rename_i h1
    rcases h1 with h1 | h1 <;> omega
  · rename_i h1
    have : ¬ (2:Int) ∣ (-b - 1) := fun h2 => h1 (Or.inr h2)
    omega

theorem rcOff_bounds (b : Int) (h : 0 < b) : rcOff b < 0 ∧ 0 ≤ b + rcOff b := by
  rw [rcOff_eq b h]; omega

/-- well-formedness: indices inside the storage, occupied slots hold threads -/
structure WF (q : Q) : Prop where
  b0 : 0 ≤ q.base
  bt : q.base ≤ q.top
  ts : q.top ≤ q.size
  occ : ∀ k, q.base ≤ k → k < q.top → ∃ x, q.ptr k = some x

theorem abs_length (q : Q) : q.abs.length = (q.top - q.base).toNat := slots_length _ _ _

theorem abs_getElem? (q : Q) (k : Nat) :
    q.abs[k]? = if k < (q.top - q.base).toNat then some (q.ptr (q.base + k)) else none :=
  getElem?_slots _ _ _ _

/-- characterisation used by every operation: `q.abs = l` iff lengths agree and slots agree -/
theorem abs_eq_iff (q : Q) (l : List (Option Elem)) :
    q.abs = l ↔ l.length = (q.top - q.base).toNat ∧
      ∀ k : Nat, k < l.length → l[k]? = some (q.ptr (q.base + k)) := by
  constructor
  · intro h; subst h
    refine ⟨abs_length q, ?_⟩
    intro k hk
    rw [abs_getElem?]; rw [abs_length] at hk; simp [hk]
  · intro ⟨h1, h2⟩
    apply List.ext_getElem?
    intro k
    rw [abs_getElem?]
    by_cases hk : k < l.length
    · rw [h2 k hk]; simp [← h1, hk]
    · have : l[k]? = none := by simp; omega
      rw [this]; simp [← h1, hk]

theorem abs_nil_iff (q : Q) : q.abs = [] ↔ q.top ≤ q.base := by
  rw [abs_eq_iff]; simp; omega

end MythVerif.Wsq
