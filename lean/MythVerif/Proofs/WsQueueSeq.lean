import MythVerif.Model.WsQueueSeq
import MythVerif.Basic.Run
/-! Sequential refinement of the work-stealing queue: every operation of
    `Model/WsQueueSeq.lean` acts on the abstraction `Q.abs` (slots `[base, top)`) as the
    corresponding double-ended-queue operation. -/
namespace MythVerif.Wsq

theorem slots_length (f b n) : (slots f b n).length = n := by
  induction n generalizing b with
  | zero => rfl
  | succ n ih => simp [slots, ih]

theorem getElem?_slots (f b) (n k : Nat) :
    (slots f b n)[k]? = if k < n then some (f (b + k)) else none := by
  induction n generalizing b k with
  | zero => simp [slots]
  | succ n ih =>
    cases k with
    | zero => simp [slots]
    | succ k =>
      simp only [slots, List.getElem?_cons_succ, ih]
      have : b + 1 + (k:Int) = b + ((k+1 : Nat) : Int) := by omega
      simp [this]

theorem rcOff_eq (b : Int) (h : 0 < b) : rcOff b = -((b + 1) / 2) := by
  unfold rcOff
  rw [Int.tdiv_eq_ediv]
  have : Int.sign 2 = 1 := by decide
  rw [this]
  split
  · rename_i h1
    rcases h1 with h1 | h1 <;> omega
  · rename_i h1
    have : ¬ (2:Int) ∣ (-b - 1) := fun h2 => h1 (Or.inr h2)
    omega

theorem rcOff_bounds (b : Int) (h : 0 < b) : rcOff b < 0 ∧ 0 ≤ b + rcOff b := by
  rw [rcOff_eq b h]; omega

/-- well-formedness: indices inside the storage, occupied slots hold threads -/
structure WF (q : Q) : Prop where
  b0 : 0 ≤ q.base
  bt : q.base ≤ q.top
  ts : q.top ≤ q.size
  occ : ∀ k, q.base ≤ k → k < q.top → ∃ x, q.ptr k = some x

theorem abs_length (q : Q) : q.abs.length = (q.top - q.base).toNat := slots_length _ _ _

theorem abs_getElem? (q : Q) (k : Nat) :
    q.abs[k]? = if k < (q.top - q.base).toNat then some (q.ptr (q.base + k)) else none :=
  getElem?_slots _ _ _ _

/-- characterisation used by every operation: `q.abs = l` iff lengths agree and slots agree -/
theorem abs_eq_iff (q : Q) (l : List (Option Elem)) :
    q.abs = l ↔ l.length = (q.top - q.base).toNat ∧
      ∀ k : Nat, k < l.length → l[k]? = some (q.ptr (q.base + k)) := by
  constructor
  · intro h; subst h
    refine ⟨abs_length q, ?_⟩
    intro k hk
    rw [abs_getElem?]; rw [abs_length] at hk; simp [hk]
  · intro ⟨h1, h2⟩
    apply List.ext_getElem?
    intro k
    rw [abs_getElem?]
    by_cases hk : k < l.length
    · rw [h2 k hk]; simp [← h1, hk]
    · have : l[k]? = none := by simp; omega
      rw [this]; simp [← h1, hk]

theorem abs_nil_iff (q : Q) : q.abs = [] ↔ q.top ≤ q.base := by
  rw [abs_eq_iff]; simp; omega

theorem abs_shift (q q' : Q) (off : Int) (hb : q'.base = q.base + off) (ht : q'.top = q.top + off)
    (hp : ∀ k, q.base ≤ k → k < q.top → q'.ptr (k + off) = q.ptr k) : q'.abs = q.abs := by
  rw [abs_eq_iff]
  refine ⟨by rw [abs_length]; omega, ?_⟩
  intro k hk
  rw [abs_length] at hk
  rw [abs_getElem?]
  have := hp (q.base + k) (by omega) (by omega)
  have e : q'.base + (k:Int) = q.base + k + off := by omega
  simp [hk, e, this]

theorem abs_congr (q q' : Q) (hb : q'.base = q.base) (ht : q'.top = q.top)
    (hp : ∀ k, q.base ≤ k → k < q.top → q'.ptr k = q.ptr k) : q'.abs = q.abs :=
  abs_shift q q' 0 (by omega) (by omega) (by simpa using hp)

theorem abs_snoc (q q' : Q) (x) (hb : q'.base = q.base) (ht : q'.top = q.top + 1) (hle : q.base ≤ q.top)
    (hp : ∀ k, q.base ≤ k → k < q.top → q'.ptr k = q.ptr k) (hx : q'.ptr q.top = x) :
    q'.abs = q.abs ++ [x] := by
  rw [abs_eq_iff]
  refine ⟨by simp [abs_length]; omega, ?_⟩
  intro k hk
  simp only [List.length_append, abs_length, List.length_singleton] at hk
  simp only [List.getElem?_append, abs_getElem?, abs_length]
  by_cases hk2 : k < (q.top - q.base).toNat
  · have := hp (q.base + k) (by omega) (by omega)
    simp [hk2, hb, this]
  · have e : q'.base + (k:Int) = q.top := by omega
    have hk3 : k - (q.top - q.base).toNat = 0 := by omega
    simp [hk2, e, hk3, hx]

theorem abs_cons (q q' : Q) (x) (hb : q'.base = q.base - 1) (ht : q'.top = q.top) (hle : q.base ≤ q.top)
    (hp : ∀ k, q.base ≤ k → k < q.top → q'.ptr k = q.ptr k) (hx : q'.ptr (q.base - 1) = x) :
    q'.abs = x :: q.abs := by
  rw [abs_eq_iff]
  refine ⟨by simp [abs_length]; omega, ?_⟩
  intro k hk
  simp only [List.length_cons, abs_length] at hk
  cases k with
  | zero => simp [hb, hx]
  | succ k =>
    simp only [List.getElem?_cons_succ, abs_getElem?]
    have := hp (q.base + k) (by omega) (by omega)
    have hk2 : k < (q.top - q.base).toNat := by omega
    simp only [hk2, if_true, Option.some.injEq]
    rw [← this]; congr 1; omega

theorem abs_tail (q q' : Q) (hb : q'.base = q.base + 1) (ht : q'.top = q.top)
    (hp : ∀ k, q.base + 1 ≤ k → k < q.top → q'.ptr k = q.ptr k) :
    q'.abs = q.abs.tail := by
  rw [abs_eq_iff]
  refine ⟨by simp [abs_length]; omega, ?_⟩
  intro k hk
  simp only [List.length_tail, abs_length] at hk
  simp only [List.getElem?_tail, abs_getElem?]
  have := hp (q.base + k + 1) (by omega) (by omega)
  have hk2 : k + 1 < (q.top - q.base).toNat := by omega
  simp only [hk2, if_true, Option.some.injEq]
  have e : q'.base + (k : Int) = q.base + k + 1 := by omega
  rw [e, this]; congr 1; omega

theorem abs_dropLast (q q' : Q) (hb : q'.base = q.base) (ht : q'.top = q.top - 1)
    (hp : ∀ k, q.base ≤ k → k < q.top - 1 → q'.ptr k = q.ptr k) :
    q'.abs = q.abs.dropLast := by
  rw [abs_eq_iff]
  refine ⟨by simp [abs_length]; omega, ?_⟩
  intro k hk
  simp only [List.length_dropLast, abs_length] at hk
  rw [List.getElem?_dropLast]
  simp only [abs_length, abs_getElem?]
  have := hp (q.base + k) (by omega) (by omega)
  have hk2 : k < (q.top - q.base).toNat - 1 := by omega
  have hk3 : k < (q.top - q.base).toNat := by omega
  simp [hk2, hk3, hb, this]

theorem abs_head? (q : Q) : q.abs.head? = if q.base < q.top then some (q.ptr q.base) else none := by
  rw [List.head?_eq_getElem?, abs_getElem?]
  by_cases h : q.base < q.top
  · have : 0 < (q.top - q.base).toNat := by omega
    simp [h, this]
  · have : ¬ 0 < (q.top - q.base).toNat := by omega
    simp [h, this]

theorem abs_getLast? (q : Q) : q.abs.getLast? = if q.base < q.top then some (q.ptr (q.top - 1)) else none := by
  rw [List.getLast?_eq_getElem?, abs_getElem?, abs_length]
  by_cases h : q.base < q.top
  · have : (q.top - q.base).toNat - 1 < (q.top - q.base).toNat := by omega
    have e : q.base + (((q.top - q.base).toNat - 1 : Nat) : Int) = q.top - 1 := by omega
    simp [h, this, e]
  · have : ¬ (q.top - q.base).toNat - 1 < (q.top - q.base).toNat := by omega
    simp [h, this]

theorem recentreDown_abs (q : Q) : (recentreDown q).abs = q.abs := by
  apply abs_shift q _ (rcOff q.base) rfl rfl
  intro k h1 h2
  simp only [recentreDown, shiftPtr_apply]
  have : q.base + rcOff q.base ≤ k + rcOff q.base ∧ k + rcOff q.base < q.top + rcOff q.base := by omega
  simp [this]

theorem recentreDown_wf (q : Q) (h : WF q) (hb : 0 < q.base) (ht : q.top = q.size) :
    WF (recentreDown q) ∧ (recentreDown q).top < q.size ∧ (recentreDown q).size = q.size := by
  obtain ⟨h0, h1, h2, h3⟩ := h
  have hr := rcOff_bounds q.base hb
  refine ⟨⟨?_, ?_, ?_, ?_⟩, ?_, rfl⟩
  all_goals simp only [recentreDown]
  any_goals omega
  intro k k1 k2
  have := h3 (k - rcOff q.base) (by omega) (by omega)
  simp only [shiftPtr_apply]
  have c : q.base + rcOff q.base ≤ k ∧ k < q.top + rcOff q.base := by omega
  simpa [c] using this

theorem recentreUp_abs (q : Q) : (recentreUp q).abs = q.abs := by
  apply abs_shift q _ ((q.size - q.top + 1) / 2) rfl rfl
  intro k h1 h2
  simp only [recentreUp, shiftPtr_apply]
  have : q.base + (q.size - q.top + 1) / 2 ≤ k + (q.size - q.top + 1) / 2 ∧
      k + (q.size - q.top + 1) / 2 < q.top + (q.size - q.top + 1) / 2 := by omega
  simp [this]

theorem recentreUp_wf (q : Q) (h : WF q) (hb : q.base = 0) (ht : q.top ≠ q.size) :
    WF (recentreUp q) ∧ 0 < (recentreUp q).base ∧ (recentreUp q).size = q.size := by
  obtain ⟨h0, h1, h2, h3⟩ := h
  refine ⟨⟨?_, ?_, ?_, ?_⟩, ?_, rfl⟩
  all_goals simp only [recentreUp]
  any_goals omega
  intro k k1 k2
  have := h3 (k - (q.size - q.top + 1) / 2) (by omega) (by omega)
  simp only [shiftPtr_apply]
  have c : q.base + (q.size - q.top + 1) / 2 ≤ k ∧ k < q.top + (q.size - q.top + 1) / 2 := by omega
  simpa [c] using this

/-- the queue is full as the code defines it: `top == size` and `base == 0` -/
def Q.full (q : Q) : Prop := q.top = q.size ∧ q.base = 0
instance (q : Q) : Decidable q.full := by unfold Q.full; exact inferInstance

theorem full_iff (q : Q) (h : WF q) : q.full ↔ (q.abs.length : Int) = q.size := by
  obtain ⟨h0, h1, h2, _⟩ := h
  unfold Q.full; rw [abs_length]; omega

/-- what each operation does to the abstract deque `q.abs` (base side first) and what it returns -/
def OpSpec (q : Q) (op : Op) (q' : Q) (r : Res) : Prop :=
  match op with
  | .push e => if q.full then r = .abort ∧ q' = q else r = .unit ∧ q'.abs = q.abs ++ [some e]
  | .pop => r = .val q.abs.getLast?.join ∧ q'.abs = q.abs.dropLast
  | .take => r = .val q.abs.head?.join ∧ q'.abs = q.abs.tail
  | .wtake true => r = .val q.abs.head?.join ∧ q'.abs = q.abs.tail
  | .wtake false => r = .val none ∧ q'.abs = q.abs
  | .peek => r = .val q.abs.head?.join ∧ q' = q
  | .wpeek => q'.abs = q.abs ∧ (q.cache = none → r = .val q.abs.head?.join)
  | .trypass e => if q.base = 0 then r = .ok false ∧ q' = q else r = .ok true ∧ q'.abs = some e :: q.abs
  | .pass e => if q.base = 0 then r = .diverge ∧ q' = q else r = .unit ∧ q'.abs = some e :: q.abs
  | .put e => if q.full then r = .abort ∧ q' = q else r = .unit ∧ q'.abs = some e :: q.abs
  | .clear => if q.abs = [] then r = .unit ∧ q'.abs = [] else r = .assertFail ∧ q' = q

theorem push_spec (q : Q) (e : Elem) (h : WF q) :
    OpSpec q (.push e) (push q e).1 (push q e).2 ∧ WF (push q e).1 ∧ (push q e).1.size = q.size := by
  have h' := h
  obtain ⟨h0, h1, h2, h3⟩ := h
  unfold OpSpec push Q.full
  by_cases ht : q.top = q.size
  · by_cases hb : q.base = 0
    · simp [ht, hb, h']
    · have hb' : 0 < q.base := by omega
      obtain ⟨⟨r0, r1, r2, r3⟩, rt, rs⟩ := recentreDown_wf q h' hb' ht
      simp only [ht, hb, if_true, if_false, and_false, true_and]
      refine ⟨?_, ⟨?_, ?_, ?_, ?_⟩, ?_⟩
      · rw [← recentreDown_abs q]
        exact abs_snoc (recentreDown q) _ _ rfl rfl r1 (by intro k k1 k2; simp [upd_apply]; omega) (by simp)
      · exact r0
      · simp; omega
      · simp; omega
      · intro k k1 k2
        simp only [upd_apply]
        split
        · exact ⟨_, rfl⟩
        · exact r3 k k1 (by simp at k2; omega)
      · exact rs
  · simp only [ht, if_false, false_and, true_and]
    refine ⟨?_, ⟨?_, ?_, ?_, ?_⟩, ?_⟩
    · exact abs_snoc q _ _ rfl rfl h1 (by intro k k1 k2; simp [upd_apply]; omega) (by simp)
    · exact h0
    · simp; omega
    · simp; omega
    · intro k k1 k2
      simp only [upd_apply]
      split
      · exact ⟨_, rfl⟩
      · exact h3 k k1 (by simp at k2; omega)
    · trivial

theorem pop_spec (q : Q) (h : WF q) :
    OpSpec q .pop (pop q).1 (pop q).2 ∧ WF (pop q).1 ∧ (pop q).1.size = q.size := by
  have h' := h
  obtain ⟨h0, h1, h2, h3⟩ := h
  unfold OpSpec pop
  by_cases hq : q.top ≤ q.base
  · have he : q.abs = [] := (abs_nil_iff q).2 hq
    simp [hq, he, h']
  · simp only [hq, if_false]
    have hlt : q.base < q.top := by omega
    have hl : q.abs.getLast?.join = q.ptr (q.top - 1) := by rw [abs_getLast?]; simp [hlt]
    rw [hl]
    by_cases hf : q.base + 1 < q.top - 1
    · simp only [hf, if_true, true_and]
      refine ⟨?_, ⟨?_, ?_, ?_, ?_⟩, ?_⟩
      · exact abs_dropLast q _ rfl rfl (by intros; rfl)
      · exact h0
      · simp; omega
      · simp; omega
      · intro k k1 k2; exact h3 k k1 (by simp at k2; omega)
      · trivial
    · simp only [hf, if_false]
      have hs : q.base ≤ q.top - 1 := by omega
      simp only [hs, if_true, true_and]
      refine ⟨?_, ⟨?_, ?_, ?_, ?_⟩, ?_⟩
      · split
        all_goals exact abs_dropLast q _ rfl rfl (by intro k k1 k2; simp [upd_apply]; omega)
      · split <;> exact h0
      · split <;> (simp; omega)
      · split <;> (simp; omega)
      · intro k k1 k2
        have : k < q.top - 1 := by split at k2 <;> (simp at k2; omega)
        have k1' : q.base ≤ k := by split at k1 <;> (simp at k1; omega)
        have := h3 k k1' (by omega)
        split <;> (simp only [upd_apply]; split; omega; exact this)
      · split <;> rfl

theorem take_spec (q : Q) (h : WF q) :
    OpSpec q .take (take q).1 (take q).2 ∧ WF (take q).1 ∧ (take q).1.size = q.size := by
  have h' := h
  obtain ⟨h0, h1, h2, h3⟩ := h
  unfold OpSpec take
  by_cases hq : q.top - q.base ≤ 0
  · have he : q.abs = [] := (abs_nil_iff q).2 (by omega)
    simp [hq, he, h']
  · have hlt : q.base < q.top := by omega
    have hl : q.abs.head?.join = q.ptr q.base := by rw [abs_head?]; simp [hlt]
    simp only [hq, if_false, hlt, if_true, hl, true_and]
    refine ⟨?_, ⟨?_, ?_, ?_, ?_⟩, ?_⟩
    · exact abs_tail q _ rfl rfl (by intros; rfl)
    · simp; omega
    · simp; omega
    · exact h2
    · intro k k1 k2; exact h3 k (by simp at k1; omega) k2
    · trivial

theorem wtake_spec (q : Q) (a : Bool) (h : WF q) :
    OpSpec q (.wtake a) (wtake q a).1 (wtake q a).2 ∧ WF (wtake q a).1 ∧ (wtake q a).1.size = q.size := by
  have h' := h
  obtain ⟨h0, h1, h2, h3⟩ := h
  by_cases hq : q.top - q.base ≤ 0
  · have he : q.abs = [] := (abs_nil_iff q).2 (by omega)
    cases a <;> simp [OpSpec, wtake, hq, he, h']
  · have hlt : q.base < q.top := by omega
    have hl : q.abs.head?.join = q.ptr q.base := by rw [abs_head?]; simp [hlt]
    cases a
    · simp only [OpSpec, wtake, hq, if_false, hlt, if_true, true_and, Bool.false_eq_true]
      exact ⟨⟨h0, h1, h2, h3⟩, trivial⟩
    · simp only [OpSpec, wtake, hq, if_false, hlt, if_true, hl, true_and]
      refine ⟨?_, ⟨?_, ?_, ?_, ?_⟩, ?_⟩
      · exact abs_tail q _ rfl rfl (by intros; rfl)
      · simp; omega
      · simp; omega
      · exact h2
      · intro k k1 k2; exact h3 k (by simp at k1; omega) k2
      · trivial

theorem peek_spec (q : Q) (h : WF q) :
    OpSpec q .peek (peek q).1 (peek q).2 ∧ WF (peek q).1 ∧ (peek q).1.size = q.size := by
  unfold OpSpec peek
  by_cases hq : q.top - q.base ≤ 0
  · have he : q.abs = [] := (abs_nil_iff q).2 (by omega)
    simp [hq, he, h]
  · have hlt : q.base < q.top := by omega
    have hl : q.abs.head?.join = q.ptr q.base := by rw [abs_head?]; simp [hlt]
    simp [hq, hlt, hl, h]

theorem wpeek_spec (q : Q) (h : WF q) :
    OpSpec q .wpeek (wpeek q).1 (wpeek q).2 ∧ WF (wpeek q).1 ∧ (wpeek q).1.size = q.size := by
  have h' := h
  obtain ⟨h0, h1, h2, h3⟩ := h
  unfold OpSpec wpeek
  by_cases hq : q.top - q.base ≤ 0
  · have he : q.abs = [] := (abs_nil_iff q).2 (by omega)
    simp [hq, he, h']
  · have hlt : q.base < q.top := by omega
    have hl : q.abs.head?.join = q.ptr q.base := by rw [abs_head?]; simp [hlt]
    simp only [hq, if_false, hl]
    cases hc : q.cache with
    | some x => simp [h']
    | none =>
      simp only [hlt, if_true]
      refine ⟨⟨?_, ?_⟩, ⟨?_, ?_, ?_, ?_⟩, ?_⟩
      · exact abs_congr q _ rfl rfl (by intros; rfl)
      · intro _; trivial
      · exact h0
      · exact h1
      · exact h2
      · exact h3
      · trivial

theorem trypass_spec (q : Q) (e : Elem) (h : WF q) :
    OpSpec q (.trypass e) (trypass q e).1 (trypass q e).2 ∧ WF (trypass q e).1 ∧ (trypass q e).1.size = q.size := by
  have h' := h
  obtain ⟨h0, h1, h2, h3⟩ := h
  unfold OpSpec trypass
  by_cases hb : q.base = 0
  · simp [hb, h']
  · simp only [hb, if_false, true_and]
    refine ⟨?_, ⟨?_, ?_, ?_, ?_⟩, ?_⟩
    · exact abs_cons q _ _ rfl rfl h1 (by intro k k1 k2; simp [upd_apply]; omega) (by simp)
    · simp; omega
    · simp; omega
    · exact h2
    · intro k k1 k2
      simp only [upd_apply]
      split
      · exact ⟨_, rfl⟩
      · exact h3 k (by simp at k1; omega) k2
    · trivial

theorem pass_spec (q : Q) (e : Elem) (h : WF q) :
    OpSpec q (.pass e) (pass q e).1 (pass q e).2 ∧ WF (pass q e).1 ∧ (pass q e).1.size = q.size := by
  have t := trypass_spec q e h
  unfold OpSpec at t ⊢
  unfold pass
  by_cases hb : q.base = 0
  · simp [hb, h]
  · simp only [hb, if_false, true_and] at t ⊢
    exact ⟨t.1.2, t.2⟩

theorem put_spec (q : Q) (e : Elem) (h : WF q) :
    OpSpec q (.put e) (put q e).1 (put q e).2 ∧ WF (put q e).1 ∧ (put q e).1.size = q.size := by
  have h' := h
  obtain ⟨h0, h1, h2, h3⟩ := h
  unfold OpSpec put Q.full
  by_cases hb : q.base = 0
  · by_cases ht : q.top = q.size
    · simp [ht, hb, h']
    · obtain ⟨⟨r0, r1, r2, r3⟩, rb, rs⟩ := recentreUp_wf q h' hb ht
      simp only [ht, hb, if_true, if_false, false_and, true_and]
      refine ⟨?_, ⟨?_, ?_, ?_, ?_⟩, ?_⟩
      · rw [← recentreUp_abs q]
        exact abs_cons (recentreUp q) _ _ rfl rfl r1 (by intro k k1 k2; simp [upd_apply]; omega) (by simp)
      · simp; omega
      · simp; omega
      · exact r2
      · intro k k1 k2
        simp only [upd_apply]
        split
        · exact ⟨_, rfl⟩
        · exact r3 k (by simp at k1; omega) k2
      · exact rs
  · simp only [hb, if_false, and_false, true_and]
    refine ⟨?_, ⟨?_, ?_, ?_, ?_⟩, ?_⟩
    · exact abs_cons q _ _ rfl rfl h1 (by intro k k1 k2; simp [upd_apply]; omega) (by simp)
    · simp; omega
    · simp; omega
    · exact h2
    · intro k k1 k2
      simp only [upd_apply]
      split
      · exact ⟨_, rfl⟩
      · exact h3 k (by simp at k1; omega) k2
    · trivial

theorem clear_spec (q : Q) (h : WF q) :
    OpSpec q .clear (clear q).1 (clear q).2 ∧ WF (clear q).1 ∧ (clear q).1.size = q.size := by
  have h' := h
  obtain ⟨h0, h1, h2, h3⟩ := h
  unfold OpSpec clear
  by_cases hq : q.top = q.base
  · have he : q.abs = [] := (abs_nil_iff q).2 (by omega)
    simp only [hq, he, if_true, true_and]
    refine ⟨?_, ⟨?_, ?_, ?_, ?_⟩, ?_⟩
    · rw [abs_nil_iff]; simp
    · simp; omega
    · simp
    · simp; omega
    · intro k k1 k2; simp at k1 k2; omega
    · trivial
  · have he : q.abs ≠ [] := by rw [Ne, abs_nil_iff]; omega
    simp [hq, he, h']

theorem exec_spec (q : Q) (op : Op) (h : WF q) :
    OpSpec q op (exec q op).1 (exec q op).2 ∧ WF (exec q op).1 ∧ (exec q op).1.size = q.size := by
  cases op with
  | push e => exact push_spec q e h
  | pop => exact pop_spec q h
  | take => exact take_spec q h
  | wtake a => exact wtake_spec q a h
  | peek => exact peek_spec q h
  | wpeek => exact wpeek_spec q h
  | trypass e => exact trypass_spec q e h
  | pass e => exact pass_spec q e h
  | put e => exact put_spec q e h
  | clear => exact clear_spec q h

theorem init_wf (n : Int) (hn : 0 ≤ n) : WF (Q.init n) := by
  refine ⟨?_, ?_, ?_, ?_⟩ <;> simp only [Q.init]
  · omega
  · omega
  · omega
  · intro k k1 k2; omega

/-- every state of every sequential history (fatal outcomes end a history) is well-formed -/
theorem seq_reachable_wf (n : Int) (hn : 0 ≤ n) (q : Q) (hq : Reachable seqStep (Q.init n) q) :
    WF q ∧ q.size = n := by
  refine inv_reachable seqStep (Q.init n) (fun q => WF q ∧ q.size = n) ⟨init_wf n hn, rfl⟩ ?_ q hq
  intro s op s' ⟨hw, hsz⟩ hs
  unfold seqStep at hs
  split at hs
  · simp at hs
  · simp at hs; subst hs
    have := exec_spec s op hw
    exact ⟨this.2.1, by rw [this.2.2, hsz]⟩

/-- the `abort()` guards are reached exactly by push / put on a full queue -/
theorem abort_iff (q : Q) (op : Op) :
    (exec q op).2 = .abort ↔ q.full ∧ ((∃ e, op = .push e) ∨ (∃ e, op = .put e)) := by
  cases op <;> simp only [exec, push, pop, take, wtake, peek, wpeek, trypass, pass, put, clear, Q.full]
  case push e => by_cases h1 : q.top = q.size <;> by_cases h2 : q.base = 0 <;> simp [h1, h2]
  case put e => by_cases h1 : q.top = q.size <;> by_cases h2 : q.base = 0 <;> simp [h1, h2]
  all_goals (repeat' split) <;> simp

end MythVerif.Wsq
