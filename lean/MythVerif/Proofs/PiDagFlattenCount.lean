import MythVerif.Proofs.PiDagFlattenEdges
/-! The `counted` conjunct: the number of edges `dr_pi_dag_enum_edges` emits is the number
`dr_pi_dag_count_edges_uncollapsed` counted, for every dump of a recorded DAG. -/
namespace MythVerif.PiDag
open MythVerif.DagRec

/-! ### `countEdges` as a sum -/

/-- the contribution of slot `i` to `dr_pi_dag_count_edges_uncollapsed` -/
def cgA (T : Array PNode) (i : Nat) : Nat :=
  let u := T[i]!
  if isGroupK u.info.c.kind && u.a < u.b then
    (u.b - u.a - 1) + (if u.info.c.kind == .section then
      2 * ((List.range (u.b - u.a)).countP (fun j => T[i + u.a + j]!.info.c.kind == .createTask)) else 0)
  else 0

theorem foldl_add_rsum (h : Nat → Nat) : ∀ (n a : Nat), (List.range n).foldl (fun acc i => acc + h i) a = a + rsum n h := by
  intro n
  induction n with
  | zero => intro a; simp [rsum]
  | succ n ih => intro a; rw [List.range_succ, List.foldl_append, ih, rsum_succ]; simp [Nat.add_assoc]

theorem countEdges_eq (T : Array PNode) : countEdges T = rsum T.size (cgA T) := by
  unfold countEdges
  have : (fun (acc : Nat) (i : Nat) =>
      let u := T[i]!
      if isGroupK u.info.c.kind && u.a < u.b then
        let acc := acc + (u.b - u.a - 1)
        if u.info.c.kind == .section then
          acc + 2 * ((List.range (u.b - u.a)).countP (fun j => T[i + u.a + j]!.info.c.kind == .createTask))
        else acc
      else acc) = (fun acc i => acc + cgA T i) := by
    funext acc i
    unfold cgA
    simp only
    split
    · split <;> omega
    · rfl
  rw [this, foldl_add_rsum]; simp

theorem countP_range_isum (lo m : Nat) (q : Nat → Bool) :
    (List.range m).countP (fun j => q (lo + j)) = isum lo m (fun x => if q x then 1 else 0) := by
  induction m with
  | zero => rfl
  | succ m ih =>
    rw [List.range_succ, List.countP_append, ih, isum_succ]
    simp [List.countP_cons]

/-! ### the two counts on the tree -/

def isCreate : DNode → Nat
  | .create _ _ => 1
  | _ => 0

/-- twice the number of create children of a (materialised) section -/
def scOf : DNode → Nat
  | .group i ds => if i.c.kind == .section then 2 * sumD isCreate ds else 0
  | _ => 0

/-- contribution of a node to `dr_pi_dag_count_edges_uncollapsed` -/
def cLoc : DNode → Nat
  | .group i ds => (ds.length - 1) + scOf (.group i ds)
  | _ => 0

/-- number of edges emitted for the children list of a group -/
def gel : DList → Nat
  | .nil => 0
  | .cons d r => (if r.isNil then 0 else 1 + scOf d) + gel r

/-- number of edges `dr_pi_dag_enum_edges` emits at a node -/
def eLoc : DNode → Nat
  | .group _ ds => gel ds
  | _ => 0

theorem kind_createTask_iff {T : Array PNode} {d : DNode} {g b' : Nat} (hl : LayN T d g b') (hw : gW d = true) :
    (if (T[g]!.info.c.kind == NKind.createTask) = true then 1 else 0) = isCreate d := by
  cases d with
  | ival i =>
    simp only [LayN] at hl
    simp only [gW, Bool.and_eq_true, Bool.not_eq_true'] at hw
    simp [hl, hw.1, isCreate]
  | create i ch =>
    simp only [LayN] at hl
    simp only [gW, Bool.and_eq_true] at hw
    simp [hl.1, hw.1.1, isCreate]
  | group i ds =>
    obtain ⟨h1, _⟩ := group_kind_facts hl hw
    have : (T[g]!.info.c.kind == NKind.createTask) = false := by
      simp only [isGroupK, Bool.or_eq_true, beq_iff_eq] at h1
      rcases h1 with h | h <;> simp [h]
    simp [this, isCreate]

theorem cgA_eq (T : Array PNode) (d : DNode) (g b' : Nat) (hl : LayN T d g b') (hw : gW d = true) :
    cgA T g = cLoc d := by
  unfold cgA
  cases d with
  | ival i => simp [nongroup_kind hl hw (fun _ _ h => by cases h), cLoc]
  | create i ch => simp [nongroup_kind hl hw (fun _ _ h => by cases h), cLoc]
  | group i ds =>
    obtain ⟨h1, h2, h3, h4, h5, h6⟩ := group_kind_facts hl hw
    have hk : T[g]!.info.c.kind = i.c.kind := by simp only [LayN] at hl; exact hl.1
    have hcnt : (List.range (T[g]!.b - T[g]!.a)).countP (fun j => T[g + T[g]!.a + j]!.info.c.kind == .createTask)
        = sumD isCreate ds := by
      rw [countP_range_isum (g + T[g]!.a) _ (fun x => T[x]!.info.c.kind == .createTask)]
      have : T[g]!.b - T[g]!.a = ds.length := by omega
      rw [this]
      cases ds with
      | nil => rfl
      | cons d1 r1 =>
        rw [h2 (by simp [DList.length])]
        exact isum_children T _ isCreate (fun d' g' b'' q1 q2 => kind_createTask_iff q1 q2) _ b' _ h5 h6
    simp only [h1, Bool.true_and, cLoc, scOf]
    by_cases hlen : ds.length = 0
    · have : ¬ (T[g]!.a < T[g]!.b) := by omega
      have hnil : ds = .nil := by
        cases ds with
        | nil => rfl
        | cons _ _ => simp [DList.length] at hlen
      subst hnil
      simp [this, sumD, DList.length]
    · have : T[g]!.a < T[g]!.b := by omega
      simp only [this, decide_true, if_true, hcnt, hk]
      have : T[g]!.b - T[g]!.a - 1 = ds.length - 1 := by omega
      rw [this]

theorem createEdges_length (t : Nat) : ∀ (ds : DList) (y base : Nat),
    (createEdges t ds y base).length = 2 * sumD isCreate ds
  | .nil, _, _ => rfl
  | .cons d r, y, base => by
    simp only [createEdges, List.length_append, createEdges_length t r, sumD]
    cases d <;> simp [createOf, isCreate] <;> omega

theorem sectionEdges_length (t : Nat) (d : DNode) (bx : Nat) : (sectionEdges t d bx).length = scOf d := by
  cases d with
  | ival _ => rfl
  | create _ _ => rfl
  | group i ds =>
    simp only [sectionEdges, scOf]
    split
    · exact createEdges_length t ds _ _
    · rfl

theorem groupEdges_length (kf : Nat → EKind) : ∀ (ds : DList) (k base : Nat),
    (groupEdges kf ds k base).length = gel ds
  | .nil, _, _ => rfl
  | .cons d r, k, base => by
    simp only [groupEdges, gel, List.length_append, groupEdges_length kf r]
    split
    · rfl
    · simp [itemEdges, sectionEdges_length]; omega

theorem nodeEdges_length (kf : Nat → EKind) (d : DNode) (g b' : Nat) : (nodeEdges kf d g b').length = eLoc d := by
  cases d with
  | ival _ => rfl
  | create _ _ => rfl
  | group i ds => exact groupEdges_length kf ds _ _

theorem enumEdges_length (T : Array PNode) : (enumEdges T).length = rsum T.size (fun i => (edgesOfGroup T i).length) := by
  simp [enumEdges, List.length_flatMap, rsum]

/-! ### the two tree sums agree on recorded DAGs -/

theorem gel_gForest : ∀ (ds : DList) (b : Bool), gForest b ds = true → gel ds = (ds.length - 1) + sumD scOf ds
  | .nil, _, h => by simp [gForest] at h
  | .cons d .nil, b, h => by
    simp only [gForest] at h
    have : scOf d = 0 := by cases d <;> simp_all [gLast, scOf]
    simp [gel, DList.isNil, DList.length, sumD, this]
  | .cons d (.cons d' r), b, h => by
    rw [gForest_cons2, Bool.and_eq_true] at h
    have ih := gel_gForest (.cons d' r) b h.2
    rw [gel, ih]
    simp only [DList.isNil, DList.length, sumD, Bool.false_eq_true, if_false]
    omega

theorem scOf_task {d : DNode} (h : gTask d = true) : scOf d = 0 := by
  cases d with
  | group i ds =>
    simp only [gTask, Bool.and_eq_true, beq_iff_eq] at h
    simp [scOf, h.1]
  | ival _ => rfl
  | create _ _ => rfl

def cLocF (d : DNode) (_ _ : Nat) : Nat := cLoc d
def eLocF (d : DNode) (_ _ : Nat) : Nat := eLoc d
theorem cLoc_ival (i : Info) : cLoc (.ival i) = 0 := rfl
theorem cLoc_create (i : Info) (ch : DNode) : cLoc (.create i ch) = 0 := rfl
theorem cLoc_group (i : Info) (ds : DList) : cLoc (.group i ds) = (ds.length - 1) + scOf (.group i ds) := rfl
theorem eLoc_ival (i : Info) : eLoc (.ival i) = 0 := rfl
theorem eLoc_create (i : Info) (ch : DNode) : eLoc (.create i ch) = 0 := rfl
theorem eLoc_group (i : Info) (ds : DList) : eLoc (.group i ds) = gel ds := rfl
theorem scOf_ival (i : Info) : scOf (.ival i) = 0 := rfl
theorem scOf_create (i : Info) (ch : DNode) : scOf (.create i ch) = 0 := rfl

theorem tsL_nil (φ : DNode → Nat → Nat → Nat) (k base : Nat) : tsL φ .nil k base = 0 := rfl

mutual
theorem tot_node : ∀ (d : DNode) (idx base : Nat),
    (∀ b, gItem b d = true → tsN cLocF d idx base = scOf d + tsN eLocF d idx base) ∧
    (∀ b, gLast b d = true → tsN cLocF d idx base = scOf d + tsN eLocF d idx base) ∧
    (gTask d = true → tsN cLocF d idx base = tsN eLocF d idx base)
  | .ival i, idx, base => by simp [tsN, cLocF, eLocF, cLoc_ival, eLoc_ival, scOf_ival, gTask]
  | .create i ch, idx, base => by
    refine ⟨fun b h => ?_, fun b h => by simp [gLast] at h, fun h => by simp [gTask] at h⟩
    simp only [gItem, Bool.and_eq_true] at h
    have := (tot_node ch base (base + 1)).2.2 h.2
    simp only [tsN, cLocF, eLocF, cLoc_create, eLoc_create, scOf_create] at this ⊢
    omega
  | .group i ds, idx, base => by
    have key : ∀ b, (ds.isNil || gForest b ds) = true →
        tsN cLocF (.group i ds) idx base =
          scOf (.group i ds) + tsN eLocF (.group i ds) idx base := by
      intro b h
      simp only [tsN, cLocF, eLocF, cLoc_group, eLoc_group]
      rcases Bool.or_eq_true _ _ ▸ h with h | h
      · cases ds with
        | nil => simp [DList.length, gel, tsL_nil]
        | cons _ _ => simp [DList.isNil] at h
      · have e1 := gel_gForest ds b h
        have e2 := tot_list ds b base (base + ds.length) h
        omega
    refine ⟨fun b h => ?_, fun b h => by simp [gLast] at h, fun h => ?_⟩
    · simp only [gItem, Bool.and_eq_true] at h
      exact key false h.2
    · have hs := scOf_task h
      simp only [gTask, Bool.and_eq_true] at h
      have := key true h.2
      rw [hs] at this
      omega
theorem tot_list : ∀ (ds : DList) (b : Bool) (k base : Nat), gForest b ds = true →
    tsL cLocF ds k base = sumD scOf ds + tsL eLocF ds k base
  | .nil, _, _, _, h => by simp [gForest] at h
  | .cons d .nil, b, k, base, h => by
    simp only [gForest] at h
    have := (tot_node d k base).2.1 b h
    simp only [tsL, sumD] at this ⊢
    omega
  | .cons d (.cons d' r), b, k, base, h => by
    rw [gForest_cons2, Bool.and_eq_true] at h
    have h1 := (tot_node d k base).1 b h.1
    have h2 := tot_list (.cons d' r) b (k + 1) (base + descT d) h.2
    have e1 : sumD scOf (.cons d (.cons d' r)) = scOf d + sumD scOf (.cons d' r) := rfl
    have e2 : ∀ φ, tsL φ (.cons d (.cons d' r)) k base = tsN φ d k base + tsL φ (.cons d' r) (k + 1) (base + descT d) :=
      fun _ => by rw [tsL]
    rw [e2, e2, e1]
    omega
end

/-- **counted** for a laid-out recorded DAG, with the count taken on any array of the same shape -/
theorem counted_of_lay (T T' : Array PNode) (d : DNode) (hl : LayN T d 0 1) (hn : T.size = 1 + descT d)
    (hl' : LayN T' d 0 1) (hn' : T'.size = 1 + descT d) (h : gTask d = true) :
    (enumEdges T).length = countEdges T' := by
  have hw := gTask_gW d h
  rw [enumEdges_length, countEdges_eq,
    sum_all T _ eLocF
      (fun d' g b' q1 q2 q3 => by rw [nodeEdges_eq T d' g b' q1 q2 q3, nodeEdges_length]; rfl) d hl hn hw,
    sum_all T' _ cLocF (fun d' g b' q1 q2 _ => cgA_eq T' d' g b' q1 q2) d hl' hn' hw]
  exact ((tot_node d 0 1).2.2 h).symm

/-- **counted**: the number of edges of every dump of a recorded DAG is the number
    `dr_pi_dag_count_edges_uncollapsed` computes from the node array -/
theorem flatten_counted (sc nw : Nat) (d : DNode) (h : gTask d = true) :
    (wfReport (flatten sc nw d)).counted = true := by
  have hl := enumNodes_lay sc d
  have hl' := flatten_lay sc nw d
  have := counted_of_lay (enumNodes sc d).T (flatten sc nw d).T d hl.1 hl.2 hl'.1 hl'.2 h
  simp only [wfReport, beq_iff_eq]
  rw [← this]
  simp [flatten, finishDag, sortEdges, List.length_mergeSort]

end MythVerif.PiDag
