import MythVerif.Proofs.PiDagFlattenGrouped
/-! The `degrees` conjunct follows from `grouped` for EVERY DAG: when `edges_begin` / `edges_end`
partition `E`, walking the per-node edge ranges visits every edge exactly once. -/
namespace MythVerif.PiDag
open MythVerif.DagRec

structure GroupedFacts (G : PiDag) : Prop where
  pos : 0 < G.T.size
  eb0 : G.T[0]!.eb = 0
  eeN : G.T[G.T.size - 1]!.ee = G.E.size
  le : ∀ i, i < G.T.size → G.T[i]!.eb ≤ G.T[i]!.ee ∧ G.T[i]!.ee ≤ G.E.size
  chain : ∀ i, i + 1 < G.T.size → G.T[i + 1]!.eb = G.T[i]!.ee

theorem groupedFacts_of_wf (G : PiDag) (h : wfGrouped G = true) : GroupedFacts G := by
  unfold wfGrouped at h
  simp only [Bool.and_eq_true, decide_eq_true_eq, beq_iff_eq, List.all_eq_true, List.mem_range,
    Bool.or_eq_true] at h
  obtain ⟨⟨⟨⟨h1, h2⟩, h3⟩, h4⟩, _⟩ := h
  refine ⟨h1, h2, h3, fun i hi => ⟨(h4 i hi).1.1.1, (h4 i hi).1.1.2⟩, fun i hi => ?_⟩
  rcases (h4 i (by omega)).1.2 with h | h
  · omega
  · exact h

theorem outEdges_eq (G : PiDag) (u : Nat) :
    outEdges G u = (G.E.toList.drop G.T[u]!.eb).take (G.T[u]!.ee - G.T[u]!.eb) := by
  simp [outEdges, List.extract_eq_take_drop]

theorem cntV_append (A B : List PEdge) (v : Nat) : cntV (A ++ B) v = cntV A v + cntV B v := by
  simp [cntV, List.countP_append]

theorem slice_sum (G : PiDag) (hg : GroupedFacts G) (v : Nat) : ∀ k, k ≤ G.T.size →
    rsum k (fun u => cntV (outEdges G u) v) = cntV (G.E.toList.take (if k = 0 then 0 else G.T[k - 1]!.ee)) v := by
  intro k
  induction k with
  | zero => intro _; simp [rsum, cntV]
  | succ k ih =>
    intro hk
    rw [rsum_succ, ih (by omega), outEdges_eq]
    have hbnd : (if k = 0 then 0 else G.T[k - 1]!.ee) = G.T[k]!.eb := by
      by_cases h0 : k = 0
      · subst h0; simp [hg.eb0]
      · rw [if_neg h0]
        have := hg.chain (k - 1) (by omega)
        rw [show k - 1 + 1 = k by omega] at this
        exact this.symm
    rw [hbnd, ← cntV_append, ← List.take_add]
    have := (hg.le k (by omega)).1
    simp only [Nat.add_one_ne_zero, if_false, Nat.add_sub_cancel]
    rw [show G.T[k]!.eb + (G.T[k]!.ee - G.T[k]!.eb) = G.T[k]!.ee by omega]

/-- **degrees from grouped**, for every DAG -/
theorem wfDegrees_of_grouped (G : PiDag) (h : wfGrouped G = true) : wfDegrees G = true := by
  have hg := groupedFacts_of_wf G h
  unfold wfDegrees arrEqUpTo
  simp only [List.all_eq_true, List.mem_range, beq_iff_eq]
  intro v hv
  rw [sliceDegrees_get G v hv, slice_sum G hg v G.T.size (Nat.le_refl _)]
  have hne : G.T.size ≠ 0 := by have := hg.pos; omega
  rw [if_neg hne, hg.eeN]
  unfold indegrees
  rw [← Array.foldl_toList, foldl_modify_get _ _ v (by simpa using hv), replicate_get!]
  rw [List.take_of_length_le (by simp)]
  omega

/-- **degrees**: in every dump of a recorded DAG the in-degrees the traversal computes by walking
    the per-node edge ranges are the in-degrees over all of `E` -/
theorem flatten_wfDegrees (sc nw : Nat) (d : DNode) (h : gTask d = true) :
    (wfReport (flatten sc nw d)).degrees = true :=
  wfDegrees_of_grouped _ (flatten_wfGrouped sc nw d h)

end MythVerif.PiDag
