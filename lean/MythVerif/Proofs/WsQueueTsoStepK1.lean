import MythVerif.Proofs.WsQueueTsoTac
/-! Preservation lemmas of the TSO invariant (peek: lock-free loads only). -/
namespace MythVerif.WsqTso
open MythVerif.Wsq

theorem t_kq0 (s s' : St) (p : Pid) : Inv s → s.tpc p = .kq0 → stepT s p = some s' → Inv s' := by
  intro h heq hs
  simp only [stepT, heq] at hs
  simp at hs; subst hs
  tso_fastT h p []

theorem t_kq1 (s s' : St) (p : Pid) (t) : Inv s → s.tpc p = .kq1 t → stepT s p = some s' → Inv s' := by
  intro h heq hs
  simp only [stepT, heq] at hs
  split at hs
  all_goals (simp at hs; subst hs)
  all_goals tso_fastT h p []

theorem t_pk1 (s s' : St) (p : Pid) : Inv s → s.tpc p = .pk1 → stepT s p = some s' → Inv s' := by
  intro h heq hs
  simp only [stepT, heq] at hs
  simp at hs; subst hs
  tso_fastT h p []

theorem t_pk2 (s s' : St) (p : Pid) (b) : Inv s → s.tpc p = .pk2 b → stepT s p = some s' → Inv s' := by
  intro h heq hs
  simp only [stepT, heq] at hs
  split at hs
  all_goals (simp at hs; subst hs)
  all_goals tso_fastT h p []

theorem t_pk3 (s s' : St) (p : Pid) (b) : Inv s → s.tpc p = .pk3 b → stepT s p = some s' → Inv s' := by
  intro h heq hs
  simp only [stepT, heq] at hs
  simp at hs; subst hs
  tso_fastT h p []

end MythVerif.WsqTso
