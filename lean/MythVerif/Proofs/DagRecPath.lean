import MythVerif.Proofs.DagRecSpan
import MythVerif.Model.PiDag
/-!
The explicit dependency graph of an uncontracted execution, and the two textbook facts about
longest paths in a weighted DAG that carries a potential.

Vertices are the intervals of the execution, numbered `0, 1, …` in program order (the position in
`leavesTree t`); the weight of a vertex is the length `end − start` of its interval (`Leaf.dur`,
which is what `dr_end_interval_` stores in `t_1` / `t_inf` of a leaf).  The edges are those
`dr_pi_dag_enum_edges` emits for the uncontracted DAG, enumerated by the same recursion as
`PiDag.groupEdges` / `PiDag.teN` (`Proofs/PiDagTreeEdges.lean`, `PiDagTreeOrder.lean`), with
positions in the interval sequence in place of array slots:

* for every non-last child `x` of a section or task, an edge from the last interval of `x` to the
  first interval of its successor (`create_cont` after a create interval, `other_cont` after an
  `other` interval, `wait_cont` after a section — the section's last interval is its wait);
* if `x` is a section, for every create interval `y` among its children, a `create` edge from
  `y` to the first interval of the created task and an `end` edge from the last interval (the
  `end_task`) of the created task to the first interval of the successor of `x`.
-/
namespace MythVerif.DagRec
open MythVerif.PiDag (PEdge)

/-! ### the edges, by recursion on the execution tree -/

mutual
/-- position of the last interval of a node whose first interval has position `o`
    (`dr_pi_dag_node_last`: a create node is its own last interval, a section / task ends with
    the last interval of its last child) -/
def lastT : Tree → Nat → Nat
  | .ival _ _, o => o
  | .create _ _, o => o
  | .group _ f, o => lastF f o o
def lastF : Forest → Nat → Nat → Nat
  | .nil, _, d => d
  | .cons t r, o, _ => lastF r (o + (leavesTree t).length) (lastT t o)
end

def Forest.isNil : Forest → Bool
  | .nil => true
  | .cons _ _ => false

/-- kind of the edge from a non-last child to its successor -/
def contKindOf : Tree → EKind
  | .ival _ _ => .otherCont
  | .create _ _ => .createCont
  | .group _ _ => .waitCont

/-- `create` / `end` edges of one child (first interval at `o`) of a section whose continuation
    starts at `t` -/
def createOfT (t : Nat) : Tree → Nat → List PEdge
  | .create _ ch, o => [⟨.create, o, o + 1⟩, ⟨.end_, lastT ch (o + 1), t⟩]
  | _, _ => []

/-- `create` / `end` edges of the children of a section whose continuation starts at `t` -/
def createEdgesF (t : Nat) : Forest → Nat → List PEdge
  | .nil, _ => []
  | .cons x r, o => createOfT t x o ++ createEdgesF t r (o + (leavesTree x).length)

/-- the `create` / `end` edges emitted for a section -/
def sectionEdgesT (t : Nat) : Tree → Nat → List PEdge
  | .group k f, o => if k = .section then createEdgesF t f o else []
  | _, _ => []

/-- the edges emitted for the non-last child `x` (first interval at `o`) whose successor starts at `t` -/
def itemEdgesT (t : Nat) (x : Tree) (o : Nat) : List PEdge :=
  ⟨contKindOf x, lastT x o, t⟩ :: sectionEdgesT t x o

/-- the edges emitted for a section / task with children `f`, the first one starting at `o` -/
def groupEdgesF : Forest → Nat → List PEdge
  | .nil, _ => []
  | .cons x r, o =>
    (if r.isNil then [] else itemEdgesT (o + (leavesTree x).length) x o) ++
      groupEdgesF r (o + (leavesTree x).length)

mutual
/-- all edges emitted for the sections / tasks in the subtree of a node whose first interval has
    position `o` -/
def edgesT : Tree → Nat → List PEdge
  | .ival _ _, _ => []
  | .create _ ch, o => edgesT ch (o + 1)
  | .group _ f, o => groupEdgesF f o ++ edgesSubF f o
def edgesSubF : Forest → Nat → List PEdge
  | .nil, _ => []
  | .cons x r, o => edgesT x o ++ edgesSubF r (o + (leavesTree x).length)
end

/-! ### weighted graphs, paths -/

/-- a vertex-weighted directed graph on the vertices `0 … dur.length − 1` -/
structure DepGraph where
  dur : List Nat
  edges : List PEdge
  deriving Repr

namespace DepGraph

def n (G : DepGraph) : Nat := G.dur.length

/-- weight of vertex `u` -/
def w (G : DepGraph) (u : Nat) : Nat := G.dur.getD u 0

/-- there is an edge from `u` to `v` -/
def Edge (G : DepGraph) (u v : Nat) : Prop := ∃ e ∈ G.edges, e.u = u ∧ e.v = v

instance (G : DepGraph) (u v : Nat) : Decidable (G.Edge u v) := by unfold Edge; infer_instance

/-- `u, r₀, r₁, …` is a walk along edges through vertices of the graph -/
def Chain (G : DepGraph) : Nat → List Nat → Prop
  | _, [] => True
  | u, v :: r => v < G.n ∧ G.Edge u v ∧ Chain G v r

instance (G : DepGraph) : ∀ (u : Nat) (r : List Nat), Decidable (G.Chain u r)
  | _, [] => isTrue trivial
  | u, v :: r =>
    have := instDecidableChain G v r
    by unfold Chain; infer_instance

/-- a path: a non-empty list of vertices, consecutive ones joined by an edge -/
def IsPath (G : DepGraph) : List Nat → Prop
  | [] => False
  | u :: r => u < G.n ∧ G.Chain u r

instance (G : DepGraph) : ∀ p, Decidable (G.IsPath p)
  | [] => isFalse (fun h => h)
  | u :: r => by unfold IsPath; infer_instance

/-- weight of a path = sum of the weights of its vertices -/
def pathWeight (G : DepGraph) (p : List Nat) : Nat := (p.map G.w).sum

theorem pathWeight_cons (G : DepGraph) (u : Nat) (r : List Nat) :
    G.pathWeight (u :: r) = G.w u + G.pathWeight r := by
  simp [pathWeight]

/-- a potential `E` (a start time for every vertex) is feasible when every edge `u → v` has
    `E u + w u ≤ E v`; then every path that starts at `u` has weight at most
    `M − E u` for every bound `M` on the finish times `E x + w x` -/
theorem chain_le (G : DepGraph) (E : Nat → Nat) (M : Nat)
    (hE : ∀ e ∈ G.edges, E e.u + G.w e.u ≤ E e.v) (hM : ∀ x, x < G.n → E x + G.w x ≤ M) :
    ∀ (r : List Nat) (u : Nat), u < G.n → G.Chain u r → E u + G.pathWeight (u :: r) ≤ M := by
  intro r
  induction r with
  | nil => intro u hu _; simpa [pathWeight] using hM u hu
  | cons v r ih =>
    intro u _ hc
    obtain ⟨hv, ⟨e, he, rfl, rfl⟩, hc'⟩ := hc
    have h1 := hE e he
    have h2 := ih e.v hv hc'
    rw [pathWeight_cons G e.u]
    omega

theorem path_le (G : DepGraph) (E : Nat → Nat) (M : Nat)
    (hE : ∀ e ∈ G.edges, E e.u + G.w e.u ≤ E e.v) (hM : ∀ x, x < G.n → E x + G.w x ≤ M)
    (p : List Nat) (hp : G.IsPath p) : G.pathWeight p ≤ M := by
  cases p with
  | nil => exact absurd hp (fun h => h)
  | cons u r =>
    have := chain_le G E M hE hM r u hp.1 hp.2
    omega

/-- if vertex `0` starts at time `0` and every other vertex `j` has a TIGHT incoming edge from an
    earlier vertex (`E u + w u = E j`), every vertex `j` is the end of a path from vertex `0` of
    weight `E j + w j` -/
theorem exists_tight_path (G : DepGraph) (E : Nat → Nat) (h0 : E 0 = 0)
    (ht : ∀ j, 0 < j → j < G.n → ∃ e ∈ G.edges, e.v = j ∧ e.u < j ∧ E e.u + G.w e.u = E j) :
    ∀ (j : Nat), j < G.n → ∀ r, G.Chain j r →
      ∃ r', G.Chain 0 r' ∧ G.pathWeight (0 :: r') = E j + G.pathWeight (j :: r) := by
  intro j
  induction j using Nat.strongRecOn with
  | _ j ih =>
    intro hj r hc
    rcases Nat.eq_zero_or_pos j with rfl | hpos
    · exact ⟨r, hc, by omega⟩
    · obtain ⟨e, he, hv, hu, hE⟩ := ht j hpos hj
      have hc' : G.Chain e.u (j :: r) := ⟨hj, ⟨e, he, rfl, hv⟩, hc⟩
      obtain ⟨r', h1, h2⟩ := ih e.u hu (by omega) (j :: r) hc'
      refine ⟨r', h1, ?_⟩
      rw [h2, pathWeight_cons G e.u]
      omega

end DepGraph

/-- **the dependency graph of an execution**: vertex `i` is the `i`-th interval in program order,
    its weight the length of that interval; the edges are the dependency edges of the
    uncontracted DAG -/
def depGraph (t : Tree) : DepGraph := { dur := (leavesTree t).map Leaf.dur, edges := edgesT t 0 }

end MythVerif.DagRec
