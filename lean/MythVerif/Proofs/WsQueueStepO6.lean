import MythVerif.Proofs.WsQueueTac
/-! Per-program-counter preservation lemmas of the work-stealing queue invariant (generated list, uniform script). -/
namespace MythVerif.Wsq

set_option maxHeartbeats 1000000 in
theorem o_pt7 (s s' : St) (e b) : Inv s → s.opc = .pt7 e b → stepO s = some s' → Inv s' := by wsq_ostep

set_option maxHeartbeats 1000000 in
theorem o_pt9 (s s' : St) : Inv s → s.opc = .pt9 → stepO s = some s' → Inv s' := by wsq_ostep

set_option maxHeartbeats 1000000 in
theorem o_cl1 (s s' : St) : Inv s → s.opc = .cl1 → stepO s = some s' → Inv s' := by wsq_ostep

set_option maxHeartbeats 1000000 in
theorem o_cl2 (s s' : St) : Inv s → s.opc = .cl2 → stepO s = some s' → Inv s' := by wsq_ostep

set_option maxHeartbeats 1000000 in
theorem o_cl3 (s s' : St) : Inv s → s.opc = .cl3 → stepO s = some s' → Inv s' := by wsq_ostep

end MythVerif.Wsq
