import MythVerif.Proofs.JoinCounter
/-! Join counter: the invariant in every reachable state, and the `N = 0` helper. -/
namespace MythVerif.JoinCounter
open MythVerif MythVerif.JcArith

theorem inv_step (N : Nat) (s s' : St) (l : Lbl) (h : Inv N s) (hs : step N s l = some s') : Inv N s' := by
  cases l with
  | waitRead t v => exact p_waitRead N s s' t v h hs
  | waitCas t ok => exact p_waitCas N s s' t ok h hs
  | blockBegin t => exact p_blockBegin N s s' t h hs
  | cbEnq t => exact p_cbEnq N s s' t h hs
  | decRead t v => exact p_decRead N s s' t v h hs
  | decCas t ok => exact p_decCas N s s' t ok h hs
  | wakeSpin t => exact p_wakeSpin N s s' t h hs
  | wakeDeq t x => exact p_wakeDeq N s s' t x h hs
  | wakePush t x => exact p_wakePush N s s' t x h hs

/-- the invariant holds in every reachable state (any N ≥ 0, any threads, any interleaving) -/
theorem reach_inv (N : Nat) (s : St) (h : Reachable (step N) init s) : Inv N s :=
  inv_reachable (step N) init (Inv N) (inv_init N) (fun s l s' => inv_step N s s' l) s h

/-- no release in progress -/
theorem ldr_none_of (N : Nat) (s : St) (hi : Inv N s) (hl : ∀ t, ldrPc (s.pc t) = false) : s.ldr = none := by
  cases hld : s.ldr with
  | none => rfl
  | some l => have := (hi.ldrI l).mpr hld; rw [hl l] at this; cases this

/-- program counters possible when `N = 0` -/
def n0Pc : PC → Bool
  | .idle | .dexit => true
  | _ => false

theorem n0_upd (pc : Tid → PC) (t : Tid) (x : PC) (h1 : ∀ u, n0Pc (pc u) = true) (hx : n0Pc x = true) :
    ∀ u, n0Pc (upd pc t x u) = true := by
  intro u; simp only [upd_apply]; split
  · exact hx
  · exact h1 u

theorem n0_step (s s' : St) (l : Lbl) (h1 : (∀ t, n0Pc (s.pc t) = true) ∧ s.state = 0 ∧ s.q = [])
    (hs : step 0 s l = some s') : (∀ t, n0Pc (s'.pc t) = true) ∧ s'.state = 0 ∧ s'.q = [] := by
  obtain ⟨hp, hst, hq⟩ := h1
  have hd : ∀ v, decsOf 0 v = 0 := n0_case.2.2.1
  cases l with
  | waitRead t v =>
    simp only [step, hd] at hs
    split at hs
    · split at hs
      · simp at hs; subst hs; exact ⟨n0_upd _ _ _ hp (by simp [n0Pc]), hst, hq⟩
      · split at hs
        · simp at hs; subst hs; exact ⟨n0_upd _ _ _ hp (by simp [n0Pc]), hst, hq⟩
        · simp at hs
    · simp at hs
  | waitCas t ok =>
    simp only [step] at hs
    split at hs
    · rename_i v hpc; have := hp t; simp [hpc, n0Pc] at this
    · simp at hs
  | blockBegin t =>
    simp only [step] at hs
    split at hs
    · rename_i hpc; have := hp t; simp [hpc, n0Pc] at this
    · simp at hs
  | cbEnq t =>
    simp only [step] at hs
    split at hs
    · rename_i hpc; have := hp t; simp [hpc, n0Pc] at this
    · simp at hs
  | decRead t v =>
    simp only [step, hd] at hs
    split at hs
    · simp at hs; subst hs; exact ⟨n0_upd _ _ _ hp (by simp [n0Pc]), hst, hq⟩
    · simp at hs
  | decCas t ok =>
    simp only [step] at hs
    split at hs
    · rename_i v hpc; have := hp t; simp [hpc, n0Pc] at this
    · simp at hs
  | wakeSpin t =>
    simp only [step] at hs
    split at hs
    · rename_i k acc hpc; have := hp t; simp [hpc, n0Pc] at this
    · simp at hs
  | wakeDeq t x =>
    simp only [step] at hs
    split at hs
    · rename_i k acc hpc; have := hp t; simp [hpc, n0Pc] at this
    · simp at hs
  | wakePush t x =>
    simp only [step] at hs
    split at hs
    · rename_i y rem hpc; have := hp t; simp [hpc, n0Pc] at this
    · simp at hs

theorem n0_reach (s : St) (h : Reachable (step 0) init s) :
    (∀ t, n0Pc (s.pc t) = true) ∧ s.state = 0 ∧ s.q = [] :=
  inv_reachable (step 0) init (fun s => (∀ t, n0Pc (s.pc t) = true) ∧ s.state = 0 ∧ s.q = [])
    ⟨by intro t; simp [init, n0Pc], rfl, rfl⟩ (fun s l s' hi hs => n0_step s s' l hi hs) s h

end MythVerif.JoinCounter
