import MythVerif.Proofs.PiDagPruneMap
import MythVerif.Proofs.PiDagStrings
/-! Step 2 of `dr_pi_dag_copy_and_prune_nodes` (`pruneCopy`): the kept slots are copied in order to
consecutive positions, their offsets are rewritten through the index map and their strings
re-interned. -/
namespace MythVerif.PiDag
open MythVerif.DagRec

/-- the offsets the copy of slot `i` gets -/
def newAB (T : Array PNode) (map : Array Int) (i : Nat) : Nat × Nat :=
  let src := T[i]!
  let mi := map[i]!.toNat
  if src.info.c.kind == .createTask then ((map[i + src.a]!).toNat - mi, src.b)
  else if isGroupK src.info.c.kind then
    let cb := i + src.a
    let ce := i + src.b
    if cb < ce then
      if map[cb]! ≥ (0 : Int) then ((map[cb]!).toNat - mi, (map[ce - 1]!).toNat - mi + 1)
      else (0, 0)
    else (src.a, src.b)
  else (src.a, src.b)

theorem strOK_push' (T : Array PNode) (st st' : List Nat) (x : PNode) (h : StrOK T st) (hnd : st'.Nodup)
    (hle : st.length ≤ st'.length) (h1 : x.info.c.start.pos.file < st'.length) (h2 : x.info.c.end_.pos.file < st'.length) :
    StrOK (T.push x) st' := by
  refine ⟨hnd, fun j hj => ?_⟩
  simp only [Array.size_push] at hj
  by_cases hlt : j < T.size
  · rw [push_get_lt _ _ _ hlt]
    have := h.2 j hlt
    omega
  · have : j = T.size := by omega
    subst this
    rw [push_get_eq]
    exact ⟨h1, h2⟩

theorem pruneCopyStep_spec (T : Array PNode) (S : List Nat) (map : Array Int) (T_ : Array PNode) (st : List Nat)
    (i : Nat) (hs : StrOK T_ st) :
    (map[i]! < (0 : Int) → pruneCopyStep T S map (T_, st) i = (T_, st)) ∧
    (¬ map[i]! < (0 : Int) → ∃ x st', pruneCopyStep T S map (T_, st) i = (T_.push x, st') ∧
      x.info.c.kind = T[i]!.info.c.kind ∧ x.a = (newAB T map i).1 ∧ x.b = (newAB T map i).2 ∧ StrOK (T_.push x) st') := by
  constructor
  · intro h; simp only [pruneCopyStep, h, if_true]
  · intro h
    simp only [pruneCopyStep, h, if_false]
    refine ⟨_, _, rfl, ?_, ?_, ?_, ?_⟩
    · repeat' split
      all_goals rfl
    · unfold newAB
      simp only
      repeat' split
      all_goals first | rfl | (exfalso; omega)
    · unfold newAB
      simp only
      repeat' split
      all_goals first | rfl | (exfalso; omega)
    · have n1 := intern_nodup st (S[T[i]!.info.c.start.pos.file]!) hs.1
      have n2 := intern_nodup _ (S[T[i]!.info.c.end_.pos.file]!) n1
      have l1 := intern_len_le st (S[T[i]!.info.c.start.pos.file]!)
      have l2 := intern_len_le (intern st (S[T[i]!.info.c.start.pos.file]!)).1 (S[T[i]!.info.c.end_.pos.file]!)
      have i1 := intern_idx_lt st (S[T[i]!.info.c.start.pos.file]!)
      have i2 := intern_idx_lt (intern st (S[T[i]!.info.c.start.pos.file]!)).1 (S[T[i]!.info.c.end_.pos.file]!)
      apply strOK_push' _ st _ _ hs n2 (by omega)
      · repeat' split
        all_goals (simp only []; omega)
      · repeat' split
        all_goals (simp only []; exact i2)

structure CInv (T : Array PNode) (map : Array Int) (k : Nat) (T_ : Array PNode) (st : List Nat) : Prop where
  sz : T_.size = cntK map k
  get : ∀ j, j < k → (0 : Int) ≤ map[j]! →
    T_[cntK map j]!.info.c.kind = T[j]!.info.c.kind ∧ T_[cntK map j]!.a = (newAB T map j).1 ∧
      T_[cntK map j]!.b = (newAB T map j).2
  str : StrOK T_ st

theorem cntK_lt (map : Array Int) (j k : Nat) (hjk : j < k) (hj : (0 : Int) ≤ map[j]!) : cntK map j < cntK map k := by
  have h1 := cntK_succ map j
  rw [if_pos hj] at h1
  have h2 : cntK map (j + 1) ≤ cntK map k := rsum_mono _ _ _ (by omega)
  omega

theorem cinv_step (T : Array PNode) (S : List Nat) (map : Array Int) (k : Nat) (T_ : Array PNode) (st : List Nat)
    (h : CInv T map k T_ st) :
    CInv T map (k + 1) (pruneCopyStep T S map (T_, st) k).1 (pruneCopyStep T S map (T_, st) k).2 := by
  obtain ⟨s1, s2⟩ := pruneCopyStep_spec T S map T_ st k h.str
  by_cases hk : map[k]! < (0 : Int)
  · rw [s1 hk]
    have hnk : ¬ (0 : Int) ≤ map[k]! := by omega
    refine ⟨by rw [cntK_succ, if_neg hnk]; exact h.sz, fun j hj hj0 => ?_, h.str⟩
    by_cases hjk : j = k
    · subst hjk; exact absurd hj0 hnk
    · exact h.get j (by omega) hj0
  · obtain ⟨x, st', e, x1, x2, x3, x4⟩ := s2 hk
    rw [e]
    have hk0 : (0 : Int) ≤ map[k]! := by omega
    refine ⟨by rw [cntK_succ, if_pos hk0, Array.size_push, h.sz], fun j hj hj0 => ?_, x4⟩
    simp only
    by_cases hjk : j = k
    · subst hjk
      rw [← h.sz, push_get_eq]
      exact ⟨x1, x2, x3⟩
    · have hlt := cntK_lt map j k (by omega) hj0
      rw [push_get_lt _ _ _ (by rw [h.sz]; exact hlt)]
      exact h.get j (by omega) hj0

theorem cinv_fold (T : Array PNode) (S : List Nat) (map : Array Int) : ∀ k,
    CInv T map k ((List.range k).foldl (pruneCopyStep T S map) (#[], [])).1
      ((List.range k).foldl (pruneCopyStep T S map) (#[], [])).2 := by
  intro k
  induction k with
  | zero =>
    exact ⟨by simp [cntK, rsum], fun j hj => by omega, ⟨List.nodup_nil, fun j hj => by simp at hj⟩⟩
  | succ k ih =>
    rw [List.range_succ, List.foldl_append]
    simp only [List.foldl_cons, List.foldl_nil]
    exact cinv_step T S map k _ _ ih

theorem pruneCopy_final (T : Array PNode) (S : List Nat) (map : Array Int) :
    CInv T map T.size (pruneCopy T S map).1 (pruneCopy T S map).2 := by
  rw [pruneCopy_eq]; exact cinv_fold T S map T.size

end MythVerif.PiDag
