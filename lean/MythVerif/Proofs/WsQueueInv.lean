import MythVerif.Model.WsQueue
import MythVerif.Proofs.WsQueueSeq
import Lean
/-! The inductive invariant of the concurrent SC model of the work-stealing queue
    (DESIGN Appendix A.2, extended to re-centring, put, clear, decision callback, peek). -/
namespace MythVerif.Wsq

def ownerLocked : OPc → Bool
  | .pub _ | .pum _ _ | .pus _ _ | .puv _ _ | .pux _ _
  | .po4 _ | .po5 _ _ | .po5b _ _ | .po5c _ _ | .po5d _ | .po6 _ | .po7 | .po8 | .po9
  | .pt1 _ | .pt2 _ | .pt3 _ _ | .pt4 _ _ | .pt5 _ _ | .pt7 _ _ | .pt8 _ _ | .pt9
  | .cl1 | .cl2 | .cl3
  | .aborted | .assertFail => true      -- the process dies holding the lock
  | _ => false

def thiefLocked : TPc → Bool
  | .tk1 | .tk2 _ | .tk3 _ _ | .tk4 _ | .tk5 _ | .tk6
  | .wk1 | .wk2 _ | .wk3 _ | .wkd _ _ | .wk4 _ | .wk4u _ | .wk5 _ | .wk6
  | .tp1 _ | .tp2 _ _ | .tp3 _ _ | .tp4 _
  | .vc1 | .vk1 | .vk2 _ | .vk3 _ | .vk4 _ _ | .vk5 _ | .vu => true
  | _ => false

/-- a thief's `base+1` is stored and its verdict (claim or roll-back) is still pending -/
def transient : TPc → Bool
  | .tk2 _ | .tk5 _ | .wk2 _ | .wk3 _ | .wkd _ _ | .wk5 _ | .vk2 _ | .vk3 _ | .vk4 _ _ | .vk5 _ => true
  | _ => false

/-- the owner has decremented `top` and slot `top` is not decided yet -/
def midPop : OPc → Bool
  | .po2 _ | .pol _ | .po4 _ | .po7 => true
  | _ => false

/-- program counters at which the concrete `top` lags behind the ghost `lt` (inside a shift) -/
def topSync : OPc → Bool
  | .pus _ _ | .pt4 _ _ | .cl2 => false
  | _ => true

def baseSync : OPc → Bool
  | .pus _ _ | .puv _ _ | .pt4 _ _ | .pt5 _ _ | .po8 => false
  | _ => true

/-- the owner holds an element it removed from `A` and has not returned yet -/
def ownerFlight : OPc → Bool
  | .po3 _ _ | .po5 _ _ | .po5b _ _ | .po5c _ _ | .po5d _ | .po6 _ => true
  | _ => false

def thiefFlight : TPc → Bool
  | .tk3 _ _ | .tk4 _ | .wk4 _ | .wk4u _ => true
  | _ => false

structure Inv (s : St) : Prop where
  lockO : s.lock = .owner ↔ ownerLocked s.opc = true
  lockT : ∀ p, s.lock = .thief p ↔ thiefLocked (s.tpc p) = true
  len   : (s.A.length : Int) = s.lt - s.lb
  cont  : ∀ k : Nat, k < s.A.length → s.ptr (s.lb + k) = s.A[k]?
  lb0   : 0 ≤ s.lb
  lts   : s.lt ≤ s.size
  base0 : 0 ≤ s.base
  tops  : s.top ≤ s.size
  ltop  : topSync s.opc = true → s.lt = s.top + (if midPop s.opc = true then 1 else 0)
  lbase : baseSync s.opc = true → s.base = s.lb + (if s.tr = true then 1 else 0)
  trp   : ∀ p, s.lock = .thief p → (s.tr = true ↔ transient (s.tpc p) = true)
  trn   : s.tr = true → ∃ p, s.lock = .thief p
  flOn  : ownerFlight s.opc = false → s.flO = none
  flTn  : s.flT ≠ none → ∃ p, s.lock = .thief p ∧ thiefFlight (s.tpc p) = true
  -- push
  pul   : ∀ e, s.opc = .pul e → s.top = s.size
  pub   : ∀ e, s.opc = .pub e → s.top = s.size
  pum   : ∀ e off, s.opc = .pum e off → s.top = s.size ∧ off < 0 ∧ 0 ≤ s.base + off
  pus   : ∀ e off, s.opc = .pus e off → s.lt = s.top + off ∧ s.lb = s.base + off ∧ s.top = s.size ∧ off < 0
  puv   : ∀ e off, s.opc = .puv e off → s.lb = s.base + off ∧ s.top < s.size
  pux   : ∀ e t, s.opc = .pux e t → s.top = t ∧ t < s.size
  pu1   : ∀ e t, s.opc = .pu1 e t → s.top = t ∧ t < s.size ∧ 0 ≤ t
  pu2   : ∀ e t, s.opc = .pu2 e t → s.top = t ∧ t < s.size ∧ s.ptr t = some e
  -- pop
  po1   : s.opc = .po1 → 1 ≤ s.top
  po2   : ∀ t, s.opc = .po2 t → s.top = t ∧ 0 ≤ t ∧ t < s.size
  pol   : ∀ t, s.opc = .pol t → s.top = t ∧ 0 ≤ t ∧ t < s.size
  po4   : ∀ t, s.opc = .po4 t → s.top = t ∧ 0 ≤ t ∧ t < s.size
  po3   : ∀ t x, s.opc = .po3 t x → s.top = t ∧ s.ptr t = some x ∧ s.lb ≤ t ∧ s.flO = some x ∧ t < s.size
  po5   : ∀ t x, s.opc = .po5 t x → s.top = t ∧ s.ptr t = some x ∧ s.flO = some x ∧ 0 ≤ t ∧ t < s.size
  po5b  : ∀ t r, s.opc = .po5b t r → s.top = t ∧ r = s.flO ∧ 0 ≤ t ∧ t < s.size
  po5c  : ∀ t r, s.opc = .po5c t r → s.top = t ∧ r = s.flO
  po5d  : ∀ r, s.opc = .po5d r → r = s.flO
  po6   : ∀ r, s.opc = .po6 r → r = s.flO
  po7   : s.opc = .po7 → s.lt = s.lb
  po8   : s.opc = .po8 → s.lt = s.lb ∧ s.lb = s.size / 2
  -- put
  pt2   : ∀ e, s.opc = .pt2 e → s.base = 0
  pt3   : ∀ e off, s.opc = .pt3 e off → s.base = 0 ∧ 0 < off ∧ s.top + off ≤ s.size
  pt4   : ∀ e off, s.opc = .pt4 e off → s.lt = s.top + off ∧ s.lb = s.base + off ∧ s.base = 0 ∧ 0 < off
  pt5   : ∀ e off, s.opc = .pt5 e off → s.lb = s.base + off ∧ s.base = 0 ∧ 0 < off
  pt7   : ∀ e b, s.opc = .pt7 e b → s.base = b ∧ 0 < b
  pt8   : ∀ e b, s.opc = .pt8 e b → s.base = b ∧ 0 < b ∧ s.ptr (b - 1) = some e
  -- clear
  cl2   : s.opc = .cl2 → s.lb = s.base ∧ s.lt = s.base
  -- take
  tk2   : ∀ p b, s.tpc p = .tk2 b → s.lb = b
  tk5   : ∀ p b, s.tpc p = .tk5 b → s.lb = b
  tk3   : ∀ p b x, s.tpc p = .tk3 b x → s.lb = b + 1 ∧ s.ptr b = some x ∧ s.flT = some x ∧ 0 ≤ b ∧ b < s.size
  tk4   : ∀ p r, s.tpc p = .tk4 r → r = s.flT
  -- wsapi take
  wk2   : ∀ p b, s.tpc p = .wk2 b → s.lb = b
  wk3   : ∀ p b, s.tpc p = .wk3 b → s.lb = b ∧ b < s.lt
  wkd   : ∀ p b r, s.tpc p = .wkd b r → s.lb = b ∧ b < s.lt ∧ r = s.ptr b
  wk4   : ∀ p r, s.tpc p = .wk4 r → r = s.flT
  wk4u  : ∀ p r, s.tpc p = .wk4u r → r = s.flT
  wk5   : ∀ p b, s.tpc p = .wk5 b → s.lb = b
  -- trypass
  tp2   : ∀ p e b, s.tpc p = .tp2 e b → s.lb = b ∧ 0 < b
  tp3   : ∀ p e b, s.tpc p = .tp3 e b → s.lb = b ∧ 0 < b ∧ s.ptr (b - 1) = some e
  -- wsapi peek
  vk2   : ∀ p b, s.tpc p = .vk2 b → s.lb = b
  vk3   : ∀ p b, s.tpc p = .vk3 b → s.lb = b ∧ b < s.lt
  vk4   : ∀ p b r, s.tpc p = .vk4 b r → s.lb = b
  vk5   : ∀ p b, s.tpc p = .vk5 b → s.lb = b
  -- lock-free peek
  pk2   : ∀ p b, s.tpc p = .pk2 b → 0 ≤ b
  pk3   : ∀ p b, s.tpc p = .pk3 b → 0 ≤ b ∧ b < s.size

/-! Matcher auxiliary lemmas (`match_n.congr_eq_k`, `_sparseCasesOn_k`) are generated lazily by
    `simp`/`split`/`grind`; the per-pc lemma files are separate modules, so the auxiliaries are
    forced into existence here, once, to keep those modules import-compatible. -/
section ForceAux
theorem aux_ownerLocked (pc : OPc) (h : ownerLocked pc = true) : ownerLocked pc = true := by
  simp only [ownerLocked] at *; split <;> simp_all
theorem aux_midPop (pc : OPc) (h : midPop pc = true) : midPop pc = true := by
  simp only [midPop] at *; split <;> simp_all
theorem aux_topSync (pc : OPc) (h : topSync pc = true) : topSync pc = true := by
  simp only [topSync] at *; split <;> simp_all
theorem aux_baseSync (pc : OPc) (h : baseSync pc = true) : baseSync pc = true := by
  simp only [baseSync] at *; split <;> simp_all
theorem aux_ownerFlight (pc : OPc) (h : ownerFlight pc = true) : ownerFlight pc = true := by
  simp only [ownerFlight] at *; split <;> simp_all
theorem aux_thiefLocked (pc : TPc) (h : thiefLocked pc = true) : thiefLocked pc = true := by
  simp only [thiefLocked] at *; split <;> simp_all
theorem aux_transient (pc : TPc) (h : transient pc = true) : transient pc = true := by
  simp only [transient] at *; split <;> simp_all
theorem aux_thiefFlight (pc : TPc) (h : thiefFlight pc = true) : thiefFlight pc = true := by
  simp only [thiefFlight] at *; split <;> simp_all
theorem aux_stepO (s s' : St) (h : stepO s = some s') (h0 : s.opc = .idle) : False := by
  simp only [stepO, h0] at h; simp at h
theorem aux_stepO2 (s s' : St) (h : stepO s = some s') (h0 : s.opc = .po9) : s'.opc = .idle := by
  simp only [stepO, h0] at h; simp at h; subst h; rfl
theorem aux_stepT (s s' : St) (p : Pid) (h : stepT s p = some s') (h0 : s.tpc p = .idle) : False := by
  simp only [stepT, h0] at h; simp at h
theorem aux_stepT2 (s s' : St) (p : Pid) (h : stepT s p = some s') (h0 : s.tpc p = .vr) : s'.lock = s.lock := by
  simp only [stepT, h0] at h; simp at h; subst h; rfl
theorem aux_stepD (s s' : St) (p : Pid) (a : Bool) (h : stepD s p a = some s') (h0 : s.tpc p = .idle) : False := by
  simp only [stepD, h0] at h; simp at h
theorem aux_stepD2 (s s' : St) (p : Pid) (a : Bool) (h : stepD s p a = some s') : ∃ b r, s.tpc p = .wkd b r := by
  simp only [stepD] at h
  split at h
  · exact ⟨_, _, by assumption⟩
  · simp at h
theorem aux_callO (s s' : St) (pc : OPc) (h : callO s pc = some s') : s.opc = .idle := by
  simp only [callO] at h
  split at h
  · assumption
  · simp at h
theorem aux_callT (s s' : St) (p : Pid) (pc : TPc) (h : callT s p pc = some s') : s.tpc p = .idle := by
  simp only [callT] at h
  split at h
  · assumption
  · simp at h
theorem aux_g_ownerLocked (pc : OPc) (h : ownerLocked pc = true) (h2 : pc = .idle) : False := by
  simp only [ownerLocked] at h; grind
theorem aux_g_midPop (pc : OPc) (h : midPop pc = true) (h2 : pc = .idle) : False := by
  simp only [midPop] at h; grind
theorem aux_g_ownerFlight (pc : OPc) (h : ownerFlight pc = true) (h2 : pc = .idle) : False := by
  simp only [ownerFlight] at h; grind
theorem aux_g_thiefLocked (pc : TPc) (h : thiefLocked pc = true) (h2 : pc = .idle) : False := by
  simp only [thiefLocked] at h; grind
theorem aux_g_transient (pc : TPc) (h : transient pc = true) (h2 : pc = .idle) : False := by
  simp only [transient] at h; grind
theorem aux_g_thiefFlight (pc : TPc) (h : thiefFlight pc = true) (h2 : pc = .idle) : False := by
  simp only [thiefFlight] at h; grind
theorem aux_g_topSync (pc : OPc) (h : topSync pc = false) (h2 : pc = .idle) : False := by
  simp only [topSync] at h; grind
theorem aux_g_baseSync (pc : OPc) (h : baseSync pc = false) (h2 : pc = .idle) : False := by
  simp only [baseSync] at h; grind
theorem aux_g_stepO (s s' : St) (h : stepO s = some s') (h0 : s.opc = .idle) : False := by
  simp only [stepO] at h; grind
theorem aux_g_stepT (s s' : St) (p : Pid) (h : stepT s p = some s') (h0 : s.tpc p = .idle) : False := by
  simp only [stepT] at h; grind
open Lean Meta in
run_meta do
  let env ← getEnv
  for f in [``ownerLocked, ``midPop, ``topSync, ``baseSync, ``ownerFlight, ``thiefLocked, ``transient, ``thiefFlight,
            ``stepO, ``stepT, ``stepD, ``callO, ``callT, ``retOpt, ``step] do
    for i in [1, 2, 3, 4, 5, 6, 7, 8] do
      let n := f ++ (Name.mkSimple s!"match_{i}")
      if env.contains n then
        discard <| Match.genMatchCongrEqns n
end ForceAux

end MythVerif.Wsq
