import MythVerif.Proofs.DagRecPathEst
/-!
Every interval but the first has a TIGHT incoming edge in the dependency graph: an edge `u → j`
with `est u + dur u = est j` (the recorder's `est` is the maximum over the predecessors).
-/
namespace MythVerif.DagRec
open MythVerif.PiDag (PEdge)

theorem natMax_eq_right {a b : Nat} (h : a ≤ b) : Nat.max a b = b := by
  simp only [Nat.max_def]; split <;> omega

theorem natMax_eq_left {a b : Nat} (h : b ≤ a) : Nat.max a b = a := by
  simp only [Nat.max_def]; split <;> omega

/-! ### the last interval of a task finishes at `est + t_inf` of the task -/

theorem chainFinish_nosub : ∀ (xs : List View), (∀ x ∈ xs, x.sub = 0) → ∀ e, chainFinish e xs = e + sumTinf xs
  | [], _, e => by simp [chainFinish, sumTinf]
  | x :: r, h, e => by
    have h1 := h x (by simp)
    have ih := chainFinish_nosub r (fun y hy => h y (by simp [hy])) (e + x.i.c.tinf)
    simp only [chainFinish, sumTinf, h1, ih, Nat.max_def]
    split <;> omega

theorem viewForest_cons (v : Variant) (x : Tree) (rest : Forest) (c : Cursor) :
    (viewForest v (.cons x rest) c).1 = (viewTree v x c).1 :: (viewForest v rest (viewTree v x c).2).1 := by
  rw [viewForest]

theorem sub_of_item_true (v : Variant) (x : Tree) (c : Cursor) (h : wnItem true x = true) :
    (viewTree v x c).1.sub = 0 := by
  cases x with
  | ival k r => exact sub_ival v k r c
  | create _ _ => simp [wnItem] at h
  | group k f => exact sub_group v k f c

/-- the children of a task are sections and `other` / `end` intervals: no created task hangs off them -/
theorem task_views_nosub (v : Variant) : ∀ (f : Forest) (c : Cursor), wnForest true f = true →
    ∀ x ∈ (viewForest v f c).1, x.sub = 0
  | .nil, _, h => by simp [wnForest] at h
  | .cons t .nil, c, h => by
    simp only [wnForest] at h
    obtain ⟨k, r, rfl⟩ := isLast_ival h
    intro x hx
    simp only [viewForest, List.mem_cons, List.not_mem_nil, or_false] at hx
    subst hx
    exact sub_ival v k r c
  | .cons t (.cons t' r), c, h => by
    simp only [wnForest, Bool.and_eq_true] at h
    intro x hx
    rw [viewForest_cons, List.mem_cons] at hx
    rcases hx with rfl | hx
    · exact sub_of_item_true v t c h.1
    · exact task_views_nosub v (.cons t' r) _ h.2 x hx

/-- the last interval of a section / task finishes at `est` + the sum of the children's `t_inf` -/
theorem lastF_finish (v : Variant) (E D : Nat → Nat) : ∀ (f : Forest) (o d : Nat) (c : Cursor) (b : Bool),
    wnForest b f = true → Agree E D o (leafInfosForest v f c) →
    E (lastF f o d) + D (lastF f o d) = c.est + sumTinf (viewForest v f c).1
  | .nil, _, _, _, _, h, _ => by simp [wnForest] at h
  | .cons x .nil, o, d, c, b, h, ha => by
    simp only [wnForest] at h
    obtain ⟨k, r, rfl⟩ := isLast_ival h
    rw [leafInfosForest_cons] at ha
    have a1 := ha.append.1
    simp only [leafInfosTree] at a1
    obtain ⟨⟨h1, h2⟩, _⟩ := a1.cons
    simp only [lastF, lastT, viewForest, viewTree, sumTinf, h1, h2]
    simp [endInterval]
  | .cons x (.cons y r'), o, d, c, b, h, ha => by
    simp only [wnForest, Bool.and_eq_true] at h
    obtain ⟨_, a2, _⟩ := ha.junction h.1 h.2
    have ih := lastF_finish v E D (.cons y r') (o + (leavesTree x).length) (lastT x o) _ b h.2 a2
    rw [show lastF (.cons x (.cons y r')) o d = lastF (.cons y r') (o + (leavesTree x).length) (lastT x o) from rfl,
      ih, viewForest_cons v x, span_next v x c h.1]
    simp only [sumTinf, tinfT]
    omega

theorem tinfT_group (v : Variant) (k : NKind) (f : Forest) (c : Cursor) (b : Bool) (h : wnForest b f = true) :
    tinfT v (.group k f) c = chainFinish 0 (viewForest v f c).1 := by
  simp only [tinfT, viewTree]
  exact accumulate_tinf v k _ (wnForest_views_ne v b f c h)

theorem task_last_finish (v : Variant) (E D : Nat → Nat) (ch : Tree) (o : Nat) (c : Cursor)
    (h : wnTask ch = true) (ha : Agree E D o (leafInfosTree v ch c)) :
    E (lastT ch o) + D (lastT ch o) = c.est + tinfT v ch c := by
  obtain ⟨f, rfl, hf⟩ := wnTask_group h
  simp only [leafInfosTree] at ha
  rw [tinfT_group v _ f c true hf, chainFinish_nosub _ (task_views_nosub v f c hf)]
  simp only [lastT]
  rw [lastF_finish v E D f o o c true hf ha]
  omega

/-! ### the successor of a section starts when the latest of the section's exits finishes -/

theorem sub_create (v : Variant) (r : Raw) (ch : Tree) (c : Cursor) :
    (viewTree v (.create r ch) c).1.sub = tinfT v ch (cursorAfter (endInterval .createTask r c) .create) := by
  simp [viewTree, View.sub, endInterval, tinfT]

/-- either the section's own wait interval or the last interval of one of the tasks it created
    finishes exactly at `chainFinish` (where the successor of the section starts) -/
theorem sec_tight (v : Variant) (E D : Nat → Nat) (t : Nat) : ∀ (f : Forest) (o d : Nat) (c : Cursor),
    wnForest false f = true → Agree E D o (leafInfosForest v f c) →
    (E (lastF f o d) + D (lastF f o d) = chainFinish c.est (viewForest v f c).1) ∨
    (∃ e ∈ createEdgesF t f o, e.v = t ∧ E e.u + D e.u = chainFinish c.est (viewForest v f c).1)
  | .nil, _, _, _, h, _ => by simp [wnForest] at h
  | .cons x .nil, o, d, c, h, ha => by
    left
    have := lastF_finish v E D (.cons x .nil) o d c false h ha
    rw [this]
    simp only [wnForest] at h
    obtain ⟨k, r, rfl⟩ := isLast_ival h
    simp only [viewForest, chainFinish, sumTinf, sub_ival, Nat.max_def]
    split <;> omega
  | .cons x (.cons y r'), o, d, c, h, ha => by
    simp only [wnForest, Bool.and_eq_true] at h
    obtain ⟨a1, a2, _⟩ := ha.junction h.1 h.2
    have ih := sec_tight v E D t (.cons y r') (o + (leavesTree x).length) (lastT x o) _ h.2 a2
    rw [span_next v x c h.1] at ih
    have hge := chainFinish_ge (viewForest v (.cons y r') (viewTree v x c).2).1 (c.est + tinfT v x c)
    have hcf : chainFinish c.est (viewForest v (.cons x (.cons y r')) c).1 =
        Nat.max (c.est + tinfT v x c + (viewTree v x c).1.sub)
          (chainFinish (c.est + tinfT v x c) (viewForest v (.cons y r') (viewTree v x c).2).1) := by
      rw [viewForest_cons v x, chainFinish]
    rw [show lastF (.cons x (.cons y r')) o d = lastF (.cons y r') (o + (leavesTree x).length) (lastT x o) from rfl,
      hcf]
    have keep : c.est + tinfT v x c + (viewTree v x c).1.sub ≤
          chainFinish (c.est + tinfT v x c) (viewForest v (.cons y r') (viewTree v x c).2).1 →
        (E (lastF (.cons y r') (o + (leavesTree x).length) (lastT x o)) +
            D (lastF (.cons y r') (o + (leavesTree x).length) (lastT x o)) =
          Nat.max (c.est + tinfT v x c + (viewTree v x c).1.sub)
            (chainFinish (c.est + tinfT v x c) (viewForest v (.cons y r') (viewTree v x c).2).1)) ∨
        (∃ e ∈ createEdgesF t (.cons x (.cons y r')) o, e.v = t ∧ E e.u + D e.u =
          Nat.max (c.est + tinfT v x c + (viewTree v x c).1.sub)
            (chainFinish (c.est + tinfT v x c) (viewForest v (.cons y r') (viewTree v x c).2).1)) := by
      intro hm
      rw [natMax_eq_right hm]
      rcases ih with q | ⟨e, he, q⟩
      · left; exact q
      · right; exact ⟨e, by rw [createEdgesF]; simp [he], q⟩
    cases x with
    | ival k r =>
      apply keep
      rw [sub_ival]; omega
    | group k f' =>
      apply keep
      rw [sub_group]; omega
    | create rr ch =>
      by_cases hc : c.est + tinfT v (.create rr ch) c + (viewTree v (.create rr ch) c).1.sub ≤
          chainFinish (c.est + tinfT v (.create rr ch) c)
            (viewForest v (.cons y r') (viewTree v (.create rr ch) c).2).1
      · exact keep hc
      · right
        have hch : wnTask ch = true := by simp only [wnItem, Bool.and_eq_true] at h; exact h.1.2
        obtain ⟨_, _, b3, b4⟩ := a1.create_finish
        have := task_last_finish v E D ch (o + 1) _ hch b3
        refine ⟨⟨.end_, lastT ch (o + 1), t⟩, by simp [createEdgesF, createOfT], rfl, ?_⟩
        simp only
        rw [natMax_eq_left (by omega), this, b4, sub_create]

/-! ### intervals whose incoming edge is emitted further up: the first interval of a created task -/

def pendO : Tree → Nat → List Nat
  | .create _ _, o => [o + 1]
  | _, _ => []

def pendF : Forest → Nat → List Nat
  | .nil, _ => []
  | .cons x r, o => pendO x o ++ pendF r (o + (leavesTree x).length)

def pendT : Tree → Nat → List Nat
  | .ival _ _, _ => []
  | .create _ _, o => [o + 1]
  | .group k f, o => if k = .section then pendF f o else []

theorem pend_mem (t : Nat) : ∀ (f : Forest) (o j : Nat), j ∈ pendF f o →
    ∃ e ∈ createEdgesF t f o, e.kind = .create ∧ e.v = j
  | .nil, _, _, h => by simp [pendF] at h
  | .cons x r, o, j, h => by
    rw [pendF, List.mem_append] at h
    rcases h with h | h
    · cases x with
      | ival _ _ => simp [pendO] at h
      | group _ _ => simp [pendO] at h
      | create rr ch =>
        simp only [pendO, List.mem_singleton] at h
        exact ⟨⟨.create, o, o + 1⟩, by simp [createEdgesF, createOfT], rfl, h.symm⟩
    · obtain ⟨e, he, q⟩ := pend_mem t r _ j h
      exact ⟨e, by rw [createEdgesF]; simp [he], q⟩

theorem pendF_task : ∀ (f : Forest) (o : Nat), wnForest true f = true → pendF f o = []
  | .nil, _, h => by simp [wnForest] at h
  | .cons x .nil, o, h => by
    simp only [wnForest] at h
    obtain ⟨k, r, rfl⟩ := isLast_ival h
    simp [pendF, pendO]
  | .cons x (.cons y r), o, h => by
    simp only [wnForest, Bool.and_eq_true] at h
    rw [pendF, pendF_task (.cons y r) _ h.2]
    cases x with
    | ival _ _ => simp [pendO]
    | group _ _ => simp [pendO]
    | create _ _ => simp [wnItem] at h

/-! ### tight incoming edges -/

/-- some edge of `es` into `j` is tight -/
def Tight (E D : Nat → Nat) (es : List PEdge) (j : Nat) : Prop := ∃ e ∈ es, e.v = j ∧ E e.u + D e.u = E j

theorem Tight.mono {E D : Nat → Nat} {es es' : List PEdge} {j : Nat} (h : Tight E D es j)
    (hs : ∀ e ∈ es, e ∈ es') : Tight E D es' j := by
  obtain ⟨e, he, q⟩ := h
  exact ⟨e, hs e he, q⟩

mutual
theorem tightT (v : Variant) (E D : Nat → Nat) : ∀ (x : Tree) (o : Nat) (c : Cursor), WnAny x →
    Agree E D o (leafInfosTree v x c) → ∀ j, o < j → j < o + (leavesTree x).length →
    Tight E D (edgesT x o) j ∨ j ∈ pendT x o
  | .ival _ _, o, _, _, _ => by intro j h1 h2; simp [leavesTree] at h2; omega
  | .create r ch, o, c, h, ha => by
    have hch := wnAny_create h
    obtain ⟨_, _, b3, _⟩ := ha.create_finish
    intro j h1 h2
    simp only [leavesTree, List.length_cons] at h2
    by_cases hj : j = o + 1
    · right; simp [pendT, hj]
    · left
      rcases tightT v E D ch (o + 1) _ (wnAny_of_task hch) b3 j (by omega) (by omega) with q | q
      · simpa [edgesT] using q
      · obtain ⟨f, rfl, _⟩ := wnTask_group hch
        simp [pendT] at q
  | .group k f, o, c, h, ha => by
    intro j h1 h2
    simp only [leafInfosTree] at ha
    simp only [leavesTree] at h2
    rcases h with ⟨b, h⟩ | ⟨b, h⟩ | h
    · simp only [wnItem, Bool.and_eq_true, beq_iff_eq] at h
      obtain ⟨rfl, hf⟩ := h
      simpa [edgesT, pendT] using tightF v E D f o c false hf ha j h1 h2
    · simp [isLast] at h
    · simp only [wnTask, Bool.and_eq_true, beq_iff_eq] at h
      obtain ⟨rfl, hf⟩ := h
      have := tightF v E D f o c true hf ha j h1 h2
      rw [pendF_task f o hf] at this
      simpa [edgesT, pendT] using this
theorem tightF (v : Variant) (E D : Nat → Nat) : ∀ (f : Forest) (o : Nat) (c : Cursor) (b : Bool),
    wnForest b f = true → Agree E D o (leafInfosForest v f c) → ∀ j, o < j → j < o + (leavesForest f).length →
    Tight E D (groupEdgesF f o ++ edgesSubF f o) j ∨ j ∈ pendF f o
  | .nil, _, _, _, h, _ => by simp [wnForest] at h
  | .cons x .nil, o, c, b, h, ha => by
    simp only [wnForest] at h
    obtain ⟨k, r, rfl⟩ := isLast_ival h
    intro j h1 h2
    simp [leavesForest, leavesTree] at h2
    omega
  | .cons x (.cons y r'), o, c, b, h, ha => by
    simp only [wnForest, Bool.and_eq_true] at h
    obtain ⟨a1, a2, a3⟩ := ha.junction h.1 h.2
    have hwx := wnAny_of_item h.1
    intro j h1 h2
    rw [leavesForest_cons, List.length_append] at h2
    rw [groupEdgesF_cons2, edgesSubF_cons, pendF]
    rcases Nat.lt_trichotomy j (o + (leavesTree x).length) with hlt | heq | hgt
    · -- inside the first child
      rcases tightT v E D x o c hwx a1 j h1 hlt with q | q
      · left; exact q.mono (fun e he => by simp [he])
      · cases x with
        | ival _ _ => simp [pendT] at q
        | create _ _ => right; simpa [pendT, pendO] using Or.inl q
        | group k f' =>
          left
          have hx := h.1
          simp only [wnItem, Bool.and_eq_true, beq_iff_eq] at hx
          obtain ⟨hk, hf'⟩ := hx
          subst hk
          simp only [pendT, if_true] at q
          obtain ⟨e, he, hkind, hv⟩ := pend_mem (o + (leavesTree (.group .section f')).length) f' o j q
          have a1' := a1
          simp only [leafInfosTree] at a1'
          rcases createF_ok v E D _ f' o c hf' a1' e he with p | p
          · exact ⟨e, by simp [itemEdgesT, sectionEdgesT, he], hv, by rw [← hv]; exact p.2.2.2.2⟩
          · rw [p.1] at hkind; cases hkind
    · -- the first interval of the successor
      left
      subst heq
      cases x with
      | ival k r =>
        refine ⟨⟨contKindOf (.ival k r), lastT (.ival k r) o, _⟩, by simp [itemEdgesT], rfl, ?_⟩
        simp only [leafInfosTree] at a1
        obtain ⟨⟨e1, e2⟩, _⟩ := a1.cons
        simp only [lastT]
        rw [a3, e1, e2]
        simp [tinfT, viewTree, endInterval]
      | create rr ch =>
        refine ⟨⟨contKindOf (.create rr ch), lastT (.create rr ch) o, _⟩, by simp [itemEdgesT], rfl, ?_⟩
        obtain ⟨e1, e2, _, _⟩ := a1.create_finish
        simp only [lastT]
        rw [a3, e1, e2]
      | group k f' =>
        have hx := h.1
        simp only [wnItem, Bool.and_eq_true, beq_iff_eq] at hx
        obtain ⟨hk, hf'⟩ := hx
        subst hk
        have a1' := a1
        simp only [leafInfosTree] at a1'
        have hval : E (o + (leavesTree (.group .section f')).length) = chainFinish c.est (viewForest v f' c).1 := by
          rw [a3, tinfT_group v _ f' c false hf']
          have := chainFinish_shift (viewForest v f' c).1 0 c.est
          simp only [Nat.zero_add] at this
          omega
        rcases sec_tight v E D (o + (leavesTree (.group .section f')).length) f' o o c hf' a1' with q | ⟨e, he, q1, q2⟩
        · refine ⟨⟨contKindOf (.group .section f'), lastT (.group .section f') o, _⟩, by simp [itemEdgesT], rfl, ?_⟩
          simp only [lastT]
          rw [q, hval]
        · exact ⟨e, by simp [itemEdgesT, sectionEdgesT, he], q1, by rw [q2, hval]⟩
    · -- inside the remaining children
      rcases tightF v E D (.cons y r') (o + (leavesTree x).length) _ b h.2 a2 j hgt (by omega) with q | q
      · left
        exact q.mono (fun e he => by
          simp only [List.mem_append] at he ⊢
          rcases he with he | he
          · left; right; exact he
          · right; right; exact he)
      · right; simp [q]
end

end MythVerif.DagRec
