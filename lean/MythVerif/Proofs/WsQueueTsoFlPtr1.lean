import MythVerif.Proofs.WsQueueTsoTac
/-! Preservation lemmas of the TSO invariant (generated per program counter of the owner): drain of an owner `ptr` store at idle, pu0, pu0f. -/
namespace MythVerif.WsqTso
open MythVerif.Wsq

theorem f_O_ptr_idle (s : St) (i0 x0) (rest : List Sto) : Inv s → s.opc = .idle →
    s.bufO = .ptr i0 x0 :: rest → Inv (applySto { s with bufO := rest } (.ptr i0 x0)) := by
  intro h hpc hb
  simp only [applySto]
  tso_fastO h hpc [carryC]

theorem f_O_ptr_pu0 (s : St) (i0 x0) (rest : List Sto) (e) : Inv s → s.opc = .pu0 e →
    s.bufO = .ptr i0 x0 :: rest → Inv (applySto { s with bufO := rest } (.ptr i0 x0)) := by
  intro h hpc hb
  simp only [applySto]
  tso_fastO h hpc [carryC]

theorem f_O_ptr_pu0f (s : St) (i0 x0) (rest : List Sto) (e t) : Inv s → s.opc = .pu0f e t →
    s.bufO = .ptr i0 x0 :: rest → Inv (applySto { s with bufO := rest } (.ptr i0 x0)) := by
  intro h hpc hb
  simp only [applySto]
  tso_fastO h hpc [pu0f, carryC]

end MythVerif.WsqTso
