import MythVerif.Proofs.DagRecCount
/-! The edge totals `gen_stat.c` reports for a contracted DAG (logical counts of the collapsed
nodes + the edges that are still explicit) equal the root's logical edge counts, whatever was
contracted.  Tree-level statement: the explicit edges are those `dr_pi_dag_enum_edges` emits for
the materialised sections / tasks. -/
namespace MythVerif.DagRec

/-- what a parent expects a child to account for -/
def ecOf : DNode → EC
  | .ival i => i.c.ec
  | .create _ ch => ch.info.c.ec
  | .group i _ => i.c.ec

mutual
/-- every materialised group reports exactly its logical edge counts, recursively -/
def Good : DNode → Prop
  | .ival i => i.c.ec = {} ∧ i.c.kind ≠ .createTask
  | .create i ch => i.c.kind = .createTask ∧ i.c.ec = {} ∧ ch.isGroup = true ∧ Good ch
  | .group i ds => GoodL ds ∧ (ds.isNil = false → totL i.c.kind ds = i.c.ec)
def GoodL : DList → Prop
  | .nil => True
  | .cons d r => Good d ∧ GoodL r
end

theorem good_tot : ∀ d : DNode, Good d → totN d = ecOf d
  | .ival i, h => by simp only [Good] at h; simp [totN, ecOf, h.1]
  | .create i ch, h => by
    simp only [Good] at h
    cases ch with
    | ival j => simp [DNode.isGroup] at h
    | create j c => simp [DNode.isGroup] at h
    | group j ds =>
      have := good_tot (.group j ds) h.2.2.2
      simpa [totN, ecOf, DNode.info] using this
  | .group i ds, h => by
    simp only [Good] at h
    simp only [totN, ecOf]
    cases hd : ds.isNil
    · simp [h.2 hd]
    · simp

/-- children lists that look alike to a parent: same kinds, same reported edges -/
inductive Alike : DList → DList → Prop where
  | nil : Alike .nil .nil
  | cons {d d' : DNode} {r r' : DList} : d.info.c.kind = d'.info.c.kind → totN d = totN d' → Alike r r' →
      Alike (.cons d r) (.cons d' r')

theorem Alike.isNil {a b : DList} (h : Alike a b) : a.isNil = b.isNil := by cases h <;> rfl

theorem totL_alike (pk : NKind) {a b : DList} (h : Alike a b) : totL pk a = totL pk b := by
  induction h with
  | nil => rfl
  | cons hk ht hr ih => simp only [totL, hk, ht, ih, hr.isNil]

theorem totN_group_good (i : Info) (ds : DList) (h : Good (.group i ds)) : totN (.group i ds) = i.c.ec := by
  have := good_tot _ h; simpa [ecOf] using this

mutual
theorem pruneNode_good (v : Variant) : ∀ (d : DNode) (b : Int), Good d →
    Good (pruneNode v d b) ∧ (pruneNode v d b).info.c = d.info.c ∧ totN (pruneNode v d b) = totN d ∧
      (pruneNode v d b).isGroup = d.isGroup
  | .ival i, b, h => by simp [pruneNode, h]
  | .create i ch, b, h => by
    simp only [Good] at h
    obtain ⟨g1, g2, g3, g4⟩ := pruneNode_good v ch (b - 1) h.2.2.2
    simp only [pruneNode, Good, DNode.info, totN]
    exact ⟨⟨h.1, h.2.1, by rw [g4]; exact h.2.2.1, g1⟩, trivial, g3, rfl⟩
  | .group i ds, b, h => by
    have ht := totN_group_good i ds h
    unfold pruneNode
    split
    · exact ⟨h, rfl, rfl, rfl⟩
    · split
      · exact ⟨h, rfl, rfl, rfl⟩
      · split
        · refine ⟨?_, rfl, ?_, rfl⟩
          · simp [collapse, Good, GoodL, DList.isNil]
          · rw [ht]; simp [collapse, totN, DList.isNil]
        · simp only [Good] at h
          obtain ⟨g1, g2⟩ := pruneList_good v ds (b - 1) ((i.cur : Int) - 1) h.1
          refine ⟨?_, rfl, ?_, rfl⟩
          · simp only [Good]
            refine ⟨g1, fun hn => ?_⟩
            rw [← totL_alike _ g2]
            exact h.2 (by rw [g2.isNil]; exact hn)
          · simp only [totN]
            rw [← g2.isNil, ← totL_alike _ g2]
theorem pruneList_good (v : Variant) : ∀ (ds : DList) (bl nl : Int), GoodL ds →
    GoodL (pruneList v ds bl nl).1 ∧ Alike ds (pruneList v ds bl nl).1
  | .nil, bl, nl, _ => by simp [pruneList, GoodL]; exact .nil
  | .cons d r, bl, nl, h => by
    simp only [GoodL] at h
    obtain ⟨g1, g2, g3, _⟩ := pruneNode_good v d (Int.tdiv (bl * (d.curBelow : Int)) nl) h.1
    obtain ⟨k1, k2⟩ := pruneList_good v r
      (bl - ((pruneNode v d (Int.tdiv (bl * (d.curBelow : Int)) nl)).curBelow : Int)) (nl - (d.curBelow : Int)) h.2
    simp only [pruneList, GoodL]
    exact ⟨⟨g1, k1⟩, .cons (by rw [g2]) g3.symm k2⟩
end

theorem summarize_good (v : Variant) (o : Opts) (i : Info) (ds : DList) (h : Good (.group i ds)) :
    Good (summarize v o i ds) := by
  unfold summarize
  split
  · split
    · exact (pruneNode_good v _ _ h).1
    · exact h
  · split
    · split
      · simp [collapse, Good, GoodL, DList.isNil]
      · exact h
    · split
      · simp [collapse, Good, GoodL, DList.isNil]
      · exact h

/-! #### the explicit edges of a materialised group are what `dr_accumulate_stats` counted -/

def DNode.isCreate : DNode → Bool
  | .create _ _ => true
  | _ => false

/-- create nodes occur only in sections (`inTask = false`) and are never the last child -/
def Shape (inTask : Bool) : DList → Prop
  | .nil => True
  | .cons d r => (d.info.c.kind = .createTask → d.isCreate = true ∧ inTask = false ∧ r.isNil = false) ∧ Shape inTask r

theorem views_isEmpty (ds : DList) : ds.views.isEmpty = ds.isNil := by cases ds <;> rfl

theorem view_ec_nochild (x : View) (hc : x.child = none) (hk : x.i.c.kind ≠ .createTask) (pk : NKind) (hn : Bool) :
    x.ec .fixed hn = x.i.c.ec + createOwn pk x.i.c.kind + (if hn then contOf x.i.c.kind else {}) := by
  rcases x with ⟨⟨⟨_, _, _, _, _, _, _, _, _, ec, nch, _, kind, _⟩, _, _⟩, child⟩
  simp only at hc hk ⊢
  subst hc
  cases kind <;> cases hn <;> simp_all [View.ec, contOf, createOwn] <;> (ext <;> simp)

theorem child_ec_eq (pk : NKind) (b : Bool) (hb : b = false → pk = .section) (d : DNode) (hn : Bool)
    (hg : Good d) (hs : d.info.c.kind = .createTask → d.isCreate = true ∧ b = false ∧ hn = true) :
    d.view.ec .fixed hn = totN d + createOwn pk d.info.c.kind + (if hn then contOf d.info.c.kind else {}) := by
  cases d with
  | ival i =>
    simp only [Good] at hg
    have := view_ec_nochild (DNode.ival i).view rfl hg.2 pk hn
    simp only [DNode.view] at this ⊢
    rw [this, hg.1]; simp [totN, DNode.info]
  | create i ch =>
    simp only [Good] at hg
    have hs' := hs (by simp [DNode.info, hg.1])
    have hpk := hb hs'.2.1
    have hch := good_tot ch hg.2.2.2
    have hec : ecOf ch = ch.info.c.ec := by
      cases ch <;> simp_all [DNode.isGroup, ecOf, DNode.info]
    simp only [DNode.view, View.ec, totN, DNode.info, createOwn, hg.1, hg.2.1, hs'.2.2, hpk, hch, hec, contOf]
    ext <;> simp <;> omega
  | group j ds =>
    have ht := totN_group_good j ds hg
    have hk : j.c.kind ≠ .createTask := by
      intro e
      have := (hs (by simp [DNode.info, e])).1
      simp [DNode.isCreate] at this
    have := view_ec_nochild (DNode.group j ds).view rfl hk pk hn
    simp only [DNode.view] at this ⊢
    rw [this, ht]; simp [DNode.info]

theorem totL_eq_ecSum (pk : NKind) (b : Bool) (hb : b = false → pk = .section) : ∀ (ds : DList),
    GoodL ds → Shape b ds → totL pk ds = ecSum .fixed ds.views
  | .nil, _, _ => rfl
  | .cons d r, hg, hs => by
    simp only [GoodL] at hg
    simp only [Shape] at hs
    have ih := totL_eq_ecSum pk b hb r hg.2 hs.2
    have := child_ec_eq pk b hb d (!r.isNil) hg.1 (fun hk => by
      have := hs.1 hk; exact ⟨this.1, this.2.1, by simp [this.2.2]⟩)
    simp only [totL, DList.views, ecSum, views_isEmpty, this, ih]
    cases r.isNil <;> simp

/-! #### every recorded DAG is `Good` -/

theorem summarize_kind (v : Variant) (o : Opts) (i : Info) (ds : DList) :
    (summarize v o i ds).info.c = i.c := by
  obtain ⟨j, ds', hp, hj⟩ := admissible_summarize v o i ds
  rw [hp]; exact hj

theorem views_ne_of_not_nil (ds : DList) (h : ds.isNil = false) : ds.views ≠ [] := by
  cases ds <;> simp_all [DList.isNil, DList.views]

theorem group_good (o : Opts) (k : NKind) (b : Bool) (hb : b = false → k = .section) (ds : DList)
    (hg : GoodL ds) (hs : Shape b ds) (hn : ds.isNil = false) :
    Good (summarize .fixed o (accumulate .fixed k ds.views) ds) := by
  apply summarize_good
  simp only [Good]
  refine ⟨hg, fun _ => ?_⟩
  rw [accumulate_kind, accumulate_ec _ _ _ (views_ne_of_not_nil ds hn)]
  exact totL_eq_ecSum k b hb ds hg hs

mutual
theorem recTree_good (o : Opts) : ∀ (t : Tree) (c : Cursor),
    (∀ b, wnItem b t = true → Good (recTree .fixed (summarize .fixed o) t c).1 ∧
      ((recTree .fixed (summarize .fixed o) t c).1.info.c.kind = .createTask →
        (recTree .fixed (summarize .fixed o) t c).1.isCreate = true ∧ b = false)) ∧
    (∀ b, isLast b t = true → Good (recTree .fixed (summarize .fixed o) t c).1 ∧
      (recTree .fixed (summarize .fixed o) t c).1.info.c.kind ≠ .createTask) ∧
    (wnTask t = true → Good (recTree .fixed (summarize .fixed o) t c).1 ∧
      (recTree .fixed (summarize .fixed o) t c).1.isGroup = true)
  | .ival k r, c => by
    refine ⟨?_, ?_, by simp [wnTask]⟩
    · intro b h
      simp [wnItem] at h; subst h
      simp [recTree, Good, endInterval, DNode.info]
    · intro b h
      cases b <;> simp [isLast] at h <;> subst h <;> simp [recTree, Good, endInterval, DNode.info]
  | .create r child, c => by
    refine ⟨?_, by simp [isLast], by simp [wnTask]⟩
    intro b h
    simp only [wnItem, Bool.and_eq_true, Bool.not_eq_true'] at h
    have ih := (recTree_good o child (cursorAfter (endInterval .createTask r c) .create)).2.2 h.2
    simp only [recTree, Good, DNode.isCreate]
    exact ⟨⟨by simp [endInterval], by simp [endInterval], ih.2, ih.1⟩, fun _ => ⟨trivial, h.1⟩⟩
  | .group k f, c => by
    refine ⟨?_, by simp [isLast], ?_⟩
    · intro b h
      simp only [wnItem, Bool.and_eq_true, beq_iff_eq] at h
      obtain ⟨rfl, hf⟩ := h
      obtain ⟨g1, g2, g3⟩ := recForest_good o f c false hf
      simp only [recTree]
      refine ⟨group_good o .section false (fun _ => rfl) _ g1 g2 g3, fun hk => ?_⟩
      rw [summarize_kind, accumulate_kind] at hk; cases hk
    · intro h
      simp only [wnTask, Bool.and_eq_true, beq_iff_eq] at h
      obtain ⟨rfl, hf⟩ := h
      obtain ⟨g1, g2, g3⟩ := recForest_good o f c true hf
      simp only [recTree]
      exact ⟨group_good o .task true (fun e => by cases e) _ g1 g2 g3, summarize_isGroup .fixed o _ _⟩
theorem recForest_good (o : Opts) : ∀ (f : Forest) (c : Cursor) (b : Bool), wnForest b f = true →
    GoodL (recForest .fixed (summarize .fixed o) f c).1 ∧ Shape b (recForest .fixed (summarize .fixed o) f c).1 ∧
      (recForest .fixed (summarize .fixed o) f c).1.isNil = false
  | .nil, c, b, h => by simp [wnForest] at h
  | .cons t .nil, c, b, h => by
    simp only [wnForest] at h
    obtain ⟨g1, g2⟩ := (recTree_good o t c).2.1 b h
    simp only [recForest, GoodL, Shape, DList.isNil, and_true]
    exact ⟨g1, fun hk => absurd hk g2⟩
  | .cons t (.cons t' rest), c, b, h => by
    simp only [wnForest, Bool.and_eq_true] at h
    obtain ⟨g1, g2⟩ := (recTree_good o t c).1 b h.1
    obtain ⟨k1, k2, k3⟩ := recForest_good o (.cons t' rest) (recTree .fixed (summarize .fixed o) t c).2 b h.2
    rw [show recForest .fixed (summarize .fixed o) (.cons t (.cons t' rest)) c =
      (.cons (recTree .fixed (summarize .fixed o) t c).1
        (recForest .fixed (summarize .fixed o) (.cons t' rest) (recTree .fixed (summarize .fixed o) t c).2).1,
       (recForest .fixed (summarize .fixed o) (.cons t' rest) (recTree .fixed (summarize .fixed o) t c).2).2) from rfl]
    simp only [GoodL, Shape, DList.isNil, and_true]
    exact ⟨⟨g1, k1⟩, fun hk => ⟨(g2 hk).1, (g2 hk).2, k3⟩, k2⟩
end

end MythVerif.DagRec
