import MythVerif.Proofs.WsQueueTac
/-! Per-program-counter preservation lemmas of the work-stealing queue invariant (generated list, uniform script). -/
namespace MythVerif.Wsq

set_option maxHeartbeats 1000000 in
theorem o_pu1 (s s' : St) (e t) : Inv s → s.opc = .pu1 e t → stepO s = some s' → Inv s' := by wsq_ostep

set_option maxHeartbeats 1000000 in
theorem o_pu2 (s s' : St) (e t) : Inv s → s.opc = .pu2 e t → stepO s = some s' → Inv s' := by wsq_ostep

set_option maxHeartbeats 1000000 in
theorem o_pq (s s' : St) : Inv s → s.opc = .pq → stepO s = some s' → Inv s' := by wsq_ostep

set_option maxHeartbeats 1000000 in
theorem o_po1 (s s' : St) : Inv s → s.opc = .po1 → stepO s = some s' → Inv s' := by wsq_ostep

set_option maxHeartbeats 1000000 in
theorem o_po2 (s s' : St) (t) : Inv s → s.opc = .po2 t → stepO s = some s' → Inv s' := by wsq_ostep

end MythVerif.Wsq
