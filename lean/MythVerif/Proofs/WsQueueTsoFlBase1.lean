import MythVerif.Proofs.WsQueueTsoTac
/-! Preservation lemmas of the TSO invariant (generated per program counter of the owner): drain of an owner `base` store at po9, pux, pt6. -/
namespace MythVerif.WsqTso
open MythVerif.Wsq

theorem f_O_base_po9 (s : St) (v0) (rest : List Sto) : Inv s → s.opc = .po9 →
    s.bufO = .base v0 :: rest → Inv (applySto { s with bufO := rest } (.base v0)) := by
  intro h hpc hb
  simp only [applySto]
  tso_fastO h hpc [po9]

theorem f_O_base_pux (s : St) (v0) (rest : List Sto) (e t) : Inv s → s.opc = .pux e t →
    s.bufO = .base v0 :: rest → Inv (applySto { s with bufO := rest } (.base v0)) := by
  intro h hpc hb
  simp only [applySto]
  tso_fastO h hpc [pux]

theorem f_O_base_pt6 (s : St) (v0) (rest : List Sto) (e) : Inv s → s.opc = .pt6 e →
    s.bufO = .base v0 :: rest → Inv (applySto { s with bufO := rest } (.base v0)) := by
  intro h hpc hb
  simp only [applySto]
  tso_fastO h hpc [pt6]

end MythVerif.WsqTso
