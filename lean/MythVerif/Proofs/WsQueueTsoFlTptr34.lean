import MythVerif.Proofs.WsQueueTsoTac
/-! Preservation lemmas of the TSO invariant (generated per program counter of the owner): drain of a passer's store (ptr3) while the owner is at po2, po3, pol. -/
namespace MythVerif.WsqTso
open MythVerif.Wsq

theorem f_T_ptr3_po2 (s : St) (p : Pid) (e0 : Elem) (t) : Inv s → s.opc = .po2 t → s.lock = .thief p →
    s.bufT p = [.ptr (s.lb - 1) (some e0)] → s.tpc p = .tp3 e0 →
    Inv (applySto { s with bufT := upd s.bufT p [] } (.ptr (s.lb - 1) (some e0))) := by
  intro h hopc hl h0 h1
  simp only [applySto]
  tso_fastO h hopc [tp3, tp4, po2]

theorem f_T_ptr3_po3 (s : St) (p : Pid) (e0 : Elem) (t x) : Inv s → s.opc = .po3 t x → s.lock = .thief p →
    s.bufT p = [.ptr (s.lb - 1) (some e0)] → s.tpc p = .tp3 e0 →
    Inv (applySto { s with bufT := upd s.bufT p [] } (.ptr (s.lb - 1) (some e0))) := by
  intro h hopc hl h0 h1
  simp only [applySto]
  tso_fastO h hopc [tp3, tp4, po3]

theorem f_T_ptr3_pol (s : St) (p : Pid) (e0 : Elem) (t) : Inv s → s.opc = .pol t → s.lock = .thief p →
    s.bufT p = [.ptr (s.lb - 1) (some e0)] → s.tpc p = .tp3 e0 →
    Inv (applySto { s with bufT := upd s.bufT p [] } (.ptr (s.lb - 1) (some e0))) := by
  intro h hopc hl h0 h1
  simp only [applySto]
  tso_fastO h hopc [tp3, tp4, pol]

end MythVerif.WsqTso
