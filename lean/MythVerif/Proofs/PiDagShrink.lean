import MythVerif.Proofs.PiDagCert
import MythVerif.Proofs.PiDagFlatten
/-! `dr_copy_pi_dag`: the root slot of the shrunk DAG is the root slot of the original. -/
namespace MythVerif.PiDag
open MythVerif.DagRec

theorem set!_get!_ne {α} [Inhabited α] (a : Array α) (i j : Nat) (x : α) (h : i ≠ j) :
    (a.set! i x)[j]! = a[j]! := by
  show (a.setIfInBounds i x)[j]! = a[j]!
  rw [setIfInBounds_get!]; simp [h]

theorem set!_get!_eq {α} [Inhabited α] (a : Array α) (i : Nat) (x : α) (h : i < a.size) :
    (a.set! i x)[i]! = x := by
  show (a.setIfInBounds i x)[i]! = x
  rw [setIfInBounds_get!]; simp [h]

theorem set!_size {α} (a : Array α) (i : Nat) (x : α) : (a.set! i x).size = a.size := by
  show (a.setIfInBounds i x).size = a.size
  simp

/-- the body of the loop of step 1 -/
def pruneMapStep (o : ShrinkOpts) (T : Array PNode) (acc : Array Int × Nat) (i : Nat) : Array Int × Nat :=
  let (map, n_) := acc
  let t := T[i]!
  let isCopy := map[i]! == mapCopy
  let (map, n_) := if isCopy then (map.set! i (n_ : Int), n_ + 1) else (map, n_)
  let cc := isCopy && (t.info.c.kind == .createTask || (isGroupK t.info.c.kind && copyChildren o t))
  let mark := if cc then mapCopy else mapNoCopy
  if t.info.c.kind == .createTask then
    (map.set! (i + t.a) mark, n_)
  else if isGroupK t.info.c.kind then
    ((List.range (t.b - t.a)).foldl (fun m k => m.set! (i + t.a + k) mark) map, n_)
  else (map, n_)

theorem pruneMap_eq (o : ShrinkOpts) (T : Array PNode) :
    pruneMap o T = (List.range T.size).foldl (pruneMapStep o T) ((Array.replicate T.size mapInit).set! 0 mapCopy, 0) := rfl

theorem foldl_set!_keep (mark : Int) (base : Nat) (j : Nat) (hj : j < base) : ∀ (l : List Nat) (m : Array Int),
    (l.foldl (fun m k => m.set! (base + k) mark) m)[j]! = m[j]! := by
  intro l
  induction l with
  | nil => intro m; rfl
  | cons k r ih => intro m; simp only [List.foldl_cons]; rw [ih, set!_get!_ne _ _ _ _ (by omega)]

/-- a step at an index `i ≥ 1` whose children lie behind it does not touch `map[0]` -/
theorem pruneMapStep_keep0 (o : ShrinkOpts) (T : Array PNode) (acc : Array Int × Nat) (i : Nat) (hi : 0 < i) :
    (pruneMapStep o T acc i).1[0]! = acc.1[0]! := by
  obtain ⟨map, n_⟩ := acc
  simp only [pruneMapStep]
  repeat' split
  all_goals simp only []
  all_goals (try rw [foldl_set!_keep _ _ _ (by omega)])
  all_goals (try rw [set!_get!_ne _ _ _ _ (by omega)])
  all_goals (try rw [set!_get!_ne _ _ _ _ (by omega)])

theorem pruneMap_foldl_keep0 (o : ShrinkOpts) (T : Array PNode) : ∀ (l : List Nat), (∀ i ∈ l, 0 < i) →
    ∀ acc, (l.foldl (pruneMapStep o T) acc).1[0]! = acc.1[0]! := by
  intro l
  induction l with
  | nil => intro _ acc; rfl
  | cons i r ih =>
    intro h acc
    simp only [List.foldl_cons]
    rw [ih (fun j hj => h j (by simp [hj])), pruneMapStep_keep0 o T acc i (h i (by simp))]

/-- the root's children (if any) lie behind it -/
def RootOk (T : Array PNode) : Prop :=
  (T[0]!.info.c.kind = .createTask → 0 < T[0]!.a) ∧
  (isGroupK T[0]!.info.c.kind = true → T[0]!.a = T[0]!.b ∨ 0 < T[0]!.a)

theorem pruneMapStep_first (o : ShrinkOpts) (T : Array PNode) (hn : 0 < T.size) (hr : RootOk T) :
    (pruneMapStep o T ((Array.replicate T.size mapInit).set! 0 mapCopy, 0) 0).1[0]! = 0 := by
  have h0 : ((Array.replicate T.size mapInit).set! 0 mapCopy)[0]! = mapCopy :=
    set!_get!_eq _ _ _ (by simpa using hn)
  have hsz : 0 < ((Array.replicate T.size mapInit).set! 0 mapCopy).size := by rw [set!_size]; simpa using hn
  simp only [pruneMapStep, h0, beq_self_eq_true, if_true, Nat.zero_add, Bool.true_and]
  split
  · rename_i hk
    have := hr.1 (by simpa using hk)
    simp only []
    rw [set!_get!_ne _ _ _ _ (by omega), set!_get!_eq _ _ _ hsz]; rfl
  · split
    · rename_i hg
      simp only []
      rcases hr.2 hg with he | hpos
      · rw [he]; simp only [Nat.sub_self, List.range_zero, List.foldl_nil]
        rw [set!_get!_eq _ _ _ hsz]; rfl
      · have := foldl_set!_keep (if (T[0]!.info.c.kind == NKind.createTask || isGroupK T[0]!.info.c.kind && copyChildren o T[0]!) = true then mapCopy else mapNoCopy)
          (T[0]!.a) 0 hpos (List.range (T[0]!.b - T[0]!.a)) (((Array.replicate T.size mapInit).set! 0 mapCopy).set! 0 ((0 : Nat) : Int))
        rw [this, set!_get!_eq _ _ _ hsz]; rfl
    · simp only []
      rw [set!_get!_eq _ _ _ hsz]; rfl

theorem range_succ_cons (n : Nat) : List.range (n + 1) = 0 :: (List.range n).map (· + 1) := by
  rw [List.range_succ_eq_map]

theorem pruneMap_root (o : ShrinkOpts) (T : Array PNode) (hn : 0 < T.size) (hr : RootOk T) :
    (pruneMap o T).1[0]! = 0 := by
  rw [pruneMap_eq]
  obtain ⟨m, hm⟩ : ∃ m, T.size = m + 1 := ⟨T.size - 1, by omega⟩
  rw [show List.range T.size = 0 :: (List.range m).map (· + 1) by rw [hm, range_succ_cons]]
  simp only [List.foldl_cons]
  rw [pruneMap_foldl_keep0 o T _ (by intro i hi; simp at hi; obtain ⟨a, _, rfl⟩ := hi; omega)]
  exact pruneMapStep_first o T hn hr

/-- the body of the loop of step 2 -/
def pruneCopyStep (T : Array PNode) (S : List Nat) (map : Array Int) (acc : Array PNode × List Nat) (i : Nat) :
    Array PNode × List Nat :=
  let (T_, st) := acc
  if map[i]! < (0 : Int) then acc else
  let src := T[i]!
  let mi := map[i]!.toNat
  let (st1, si) := intern st (S[src.info.c.start.pos.file]!)
  let (st2, ei) := intern st1 (S[src.info.c.end_.pos.file]!)
  let c := src.info.c
  let info : Info := { src.info with c := { c with
      start := { c.start with pos := { c.start.pos with file := si } },
      end_ := { c.end_ with pos := { c.end_.pos with file := ei } } } }
  let to : PNode := { src with info := info }
  let to : PNode :=
    if c.kind == .createTask then { to with a := (map[i + src.a]!).toNat - mi }
    else if isGroupK c.kind then
      let cb := i + src.a
      let ce := i + src.b
      if cb < ce then
        if map[cb]! ≥ (0 : Int) then { to with a := (map[cb]!).toNat - mi, b := (map[ce - 1]!).toNat - mi + 1 }
        else { to with a := 0, b := 0 }
      else to
    else to
  (T_.push to, st2)

theorem pruneCopy_eq (T : Array PNode) (S : List Nat) (map : Array Int) :
    pruneCopy T S map = (List.range T.size).foldl (pruneCopyStep T S map) (#[], []) := rfl

/-- the contraction-independent totals of a slot -/
def SameTotals (x y : PNode) : Prop :=
  x.info.c.t1 = y.info.c.t1 ∧ x.info.c.tinf = y.info.c.tinf ∧ x.info.c.nc = y.info.c.nc ∧
  x.info.c.ec = y.info.c.ec ∧ x.info.c.est = y.info.c.est ∧ x.info.c.kind = y.info.c.kind ∧
  x.info.c.worker = y.info.c.worker ∧ x.info.c.start.t = y.info.c.start.t ∧ x.info.c.end_.t = y.info.c.end_.t ∧
  x.info.cur = y.info.cur ∧ x.info.min = y.info.min

theorem pruneCopyStep_keep0 (T : Array PNode) (S : List Nat) (map : Array Int) (acc : Array PNode × List Nat)
    (i : Nat) (h : 0 < acc.1.size) :
    0 < (pruneCopyStep T S map acc i).1.size ∧ (pruneCopyStep T S map acc i).1[0]! = acc.1[0]! := by
  obtain ⟨T_, st⟩ := acc
  simp only [pruneCopyStep]
  split
  · exact ⟨h, rfl⟩
  · simp only [Array.size_push]
    exact ⟨by omega, push_get_lt _ _ _ h⟩

theorem pruneCopy_foldl_keep0 (T : Array PNode) (S : List Nat) (map : Array Int) : ∀ (l : List Nat) acc,
    0 < acc.1.size → (l.foldl (pruneCopyStep T S map) acc).1[0]! = acc.1[0]! := by
  intro l
  induction l with
  | nil => intro acc _; rfl
  | cons i r ih =>
    intro acc h
    simp only [List.foldl_cons]
    have := pruneCopyStep_keep0 T S map acc i h
    rw [ih _ this.1, this.2]

theorem pruneCopyStep_first (T : Array PNode) (S : List Nat) (map : Array Int) (h0 : map[0]! = 0) :
    0 < (pruneCopyStep T S map (#[], []) 0).1.size ∧ SameTotals (pruneCopyStep T S map (#[], []) 0).1[0]! T[0]! := by
  simp only [pruneCopyStep, h0]
  simp only [Int.lt_irrefl, if_false, Array.size_push]
  refine ⟨by simp, ?_⟩
  have : ∀ x : PNode, (#[x] : Array PNode)[0]! = x := fun x => by simp
  simp only [List.push_toArray, List.nil_append] 
  rw [this]
  unfold SameTotals
  repeat' split
  all_goals simp

/-- **the root slot of the shrunk DAG carries the totals of the original root** -/
theorem shrink_root (o : ShrinkOpts) (G : PiDag) (hn : 0 < G.T.size) (hr : RootOk G.T) :
    SameTotals (shrink o G).T[0]! G.T[0]! := by
  have hmap := pruneMap_root o G.T hn hr
  unfold shrink finishDag
  simp only
  have hs := setEdgePtrs_spec (pruneCopy G.T G.S (pruneMap o G.T).1).1
    (sortEdges (enumEdges (pruneCopy G.T G.S (pruneMap o G.T).1).1))
  have hinfo := hs.2 0
  rw [pruneCopy_eq] at hinfo ⊢
  obtain ⟨m, hm⟩ : ∃ m, G.T.size = m + 1 := ⟨G.T.size - 1, by omega⟩
  rw [show List.range G.T.size = 0 :: (List.range m).map (· + 1) by rw [hm, range_succ_cons]] at hinfo ⊢
  simp only [List.foldl_cons] at hinfo ⊢
  have hf := pruneCopyStep_first G.T G.S (pruneMap o G.T).1 hmap
  have hk := pruneCopy_foldl_keep0 G.T G.S (pruneMap o G.T).1 ((List.range m).map (· + 1)) _ hf.1
  unfold SameTotals at hf ⊢
  rw [hinfo, hk]
  exact hf.2

theorem rootOk_of_wf (G : PiDag) (h : wellFormed G = true) : 0 < G.T.size ∧ RootOk G.T := by
  unfold wellFormed wfReport at h
  simp only [Bool.and_eq_true] at h
  have ho := h.1.1.1.1.1.1
  unfold wfOffsets at ho
  simp only [Bool.and_eq_true, decide_eq_true_eq] at ho
  obtain ⟨hn, hall⟩ := ho
  have h0 := (List.all_eq_true.mp hall) 0 (by simpa using hn)
  simp only [Bool.and_eq_true] at h0
  have h1 := h0.1
  refine ⟨hn, ?_, ?_⟩
  · intro hk
    simp [hk] at h1
    exact h1.1.1
  · intro hg
    split at h1
    · rename_i hk
      simp at hk
      rw [hk] at hg; simp [isGroupK] at hg
    · simp [hg] at h1
      rcases h1 with h1 | h1
      · left; exact h1
      · right; exact h1.1.1

end MythVerif.PiDag
