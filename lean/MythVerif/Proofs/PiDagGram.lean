import MythVerif.Proofs.DagRecCount
/-! The shape of the in-memory DAGs `record` produces: the grammar of the execution tree
(`task ::= (section | other)* end`, `section ::= (section | create task | other)* wait`) with any
subset of the sections / tasks collapsed (no children).  Every contraction policy of the recorder
(including the budget walk) keeps this shape. -/
namespace MythVerif.DagRec

/-- the closing interval of a task / section -/
def gLast (inTask : Bool) : DNode → Bool
  | .ival i => if inTask then i.c.kind == .endTask else i.c.kind == .waitTasks
  | _ => false

mutual
def gForest (inTask : Bool) : DList → Bool
  | .nil => false
  | .cons d .nil => gLast inTask d
  | .cons d (.cons d' r) => gItem inTask d && gForest inTask (.cons d' r)
def gItem (inTask : Bool) : DNode → Bool
  | .ival i => i.c.kind == .other
  | .create i ch => !inTask && i.c.kind == .createTask && gTask ch
  | .group i ds => i.c.kind == .section && (ds.isNil || gForest false ds)
/-- a task, collapsed or with (recursively well-shaped) children -/
def gTask : DNode → Bool
  | .group i ds => i.c.kind == .task && (ds.isNil || gForest true ds)
  | _ => false
end

/-- a group of kind `k` (children of a task when `inTask`), collapsed or not -/
def gGroup (k : NKind) (inTask : Bool) (i : Info) (ds : DList) : Bool :=
  i.c.kind == k && (ds.isNil || gForest inTask ds)

theorem gItem_group (b : Bool) (i : Info) (ds : DList) : gItem b (.group i ds) = gGroup .section false i ds := by
  simp [gItem, gGroup]
theorem gTask_group (i : Info) (ds : DList) : gTask (.group i ds) = gGroup .task true i ds := by
  simp [gTask, gGroup]

theorem gForest_cons2 (b : Bool) (d d' : DNode) (r : DList) :
    gForest b (.cons d (.cons d' r)) = (gItem b d && gForest b (.cons d' r)) := by
  simp [gForest]

mutual
theorem pruneNode_gram (v : Variant) : ∀ (d : DNode) (bud : Int) (b : Bool),
    (gItem b d = true → gItem b (pruneNode v d bud) = true) ∧
    (gLast b d = true → gLast b (pruneNode v d bud) = true) ∧
    (gTask d = true → gTask (pruneNode v d bud) = true)
  | .ival i, bud, b => by simp [pruneNode]
  | .create i ch, bud, b => by
    have ih := pruneNode_gram v ch (bud - 1) b
    simp only [pruneNode, gItem, gLast, gTask, Bool.and_eq_true]
    exact ⟨fun h => ⟨h.1, ih.2.2 h.2⟩, fun h => h, fun h => h⟩
  | .group i ds, bud, b => by
    have key : ∀ (k : NKind) (bb : Bool), gGroup k bb i ds = true →
        ∃ j ds', pruneNode v (.group i ds) bud = .group j ds' ∧ gGroup k bb j ds' = true := by
      intro k bb h
      unfold pruneNode
      split
      · exact ⟨i, ds, rfl, h⟩
      · split
        · exact ⟨i, ds, rfl, h⟩
        · split
          · refine ⟨_, _, rfl, ?_⟩
            simp only [gGroup, Bool.and_eq_true] at h ⊢
            exact ⟨h.1, by simp [DList.isNil]⟩
          · refine ⟨_, _, rfl, ?_⟩
            simp only [gGroup, Bool.and_eq_true, Bool.or_eq_true] at h ⊢
            refine ⟨h.1, ?_⟩
            rcases h.2 with h2 | h2
            · left
              cases ds with
              | nil => simp [pruneList, DList.isNil]
              | cons _ _ => simp [DList.isNil] at h2
            · right
              exact pruneList_gram v ds _ _ bb h2
    refine ⟨?_, by simp [gLast], ?_⟩
    · intro h
      rw [gItem_group] at h
      obtain ⟨j, ds', e, hj⟩ := key _ _ h
      rw [e, gItem_group]; exact hj
    · intro h
      rw [gTask_group] at h
      obtain ⟨j, ds', e, hj⟩ := key _ _ h
      rw [e, gTask_group]; exact hj
theorem pruneList_gram (v : Variant) : ∀ (ds : DList) (bl nl : Int) (b : Bool),
    gForest b ds = true → gForest b (pruneList v ds bl nl).1 = true
  | .nil, _, _, _, h => by simp [gForest] at h
  | .cons d .nil, bl, nl, b, h => by
    simp only [gForest] at h
    simp only [pruneList, gForest]
    exact (pruneNode_gram v d _ b).2.1 h
  | .cons d (.cons d' r), bl, nl, b, h => by
    rw [gForest_cons2, Bool.and_eq_true] at h
    have h1 := (pruneNode_gram v d (Int.tdiv (bl * (d.curBelow : Int)) nl) b).1 h.1
    have h2 := pruneList_gram v (.cons d' r)
      (bl - ((pruneNode v d (Int.tdiv (bl * (d.curBelow : Int)) nl)).curBelow : Int)) (nl - (d.curBelow : Int)) b h.2
    rw [show pruneList v (.cons d (.cons d' r)) bl nl =
      (.cons (pruneNode v d (Int.tdiv (bl * (d.curBelow : Int)) nl))
        (pruneList v (.cons d' r) (bl - ((pruneNode v d (Int.tdiv (bl * (d.curBelow : Int)) nl)).curBelow : Int))
          (nl - (d.curBelow : Int))).1,
       (pruneList v (.cons d' r) (bl - ((pruneNode v d (Int.tdiv (bl * (d.curBelow : Int)) nl)).curBelow : Int))
          (nl - (d.curBelow : Int))).2) from rfl]
    simp only
    generalize hq : (pruneList v (.cons d' r) (bl - ((pruneNode v d (Int.tdiv (bl * (d.curBelow : Int)) nl)).curBelow : Int))
          (nl - (d.curBelow : Int))).1 = q at h2 ⊢
    cases q with
    | nil => simp [gForest] at h2
    | cons q1 q2 => rw [gForest_cons2, Bool.and_eq_true]; exact ⟨h1, h2⟩
end

theorem collapse_gram (v : Variant) (i : Info) (ds : DList) (b : Bool) :
    (gItem b (.group i ds) = true → gItem b (collapse v i) = true) ∧
    (gTask (.group i ds) = true → gTask (collapse v i) = true) := by
  simp only [collapse, gItem, gTask, Bool.and_eq_true, DList.isNil, Bool.true_or, and_true]
  exact ⟨fun h => h.1, fun h => h.1⟩

theorem summarize_gram (v : Variant) (o : Opts) (i : Info) (ds : DList) (b : Bool) :
    (gItem b (.group i ds) = true → gItem b (summarize v o i ds) = true) ∧
    (gTask (.group i ds) = true → gTask (summarize v o i ds) = true) := by
  have hc := collapse_gram v i ds b
  unfold summarize
  split
  · split
    · exact ⟨(pruneNode_gram v _ _ b).1, (pruneNode_gram v _ _ b).2.2⟩
    · exact ⟨id, id⟩
  · split
    · split
      · exact hc
      · exact ⟨id, id⟩
    · split
      · exact hc
      · exact ⟨id, id⟩

theorem gForest_isNil {b : Bool} {ds : DList} (h : gForest b ds = true) : ds.isNil = false := by
  cases ds with
  | nil => simp [gForest] at h
  | cons _ _ => rfl

mutual
theorem recTree_gram (v : Variant) (o : Opts) : ∀ (t : Tree) (c : Cursor) (b : Bool),
    (wnItem b t = true → gItem b (recTree v (summarize v o) t c).1 = true) ∧
    (isLast b t = true → gLast b (recTree v (summarize v o) t c).1 = true) ∧
    (wnTask t = true → gTask (recTree v (summarize v o) t c).1 = true)
  | .ival k r, c, b => by
    simp only [recTree, wnItem, isLast, wnTask, gItem, gLast, endInterval]
    exact ⟨id, id, fun h => by cases h⟩
  | .create r child, c, b => by
    have ih := recTree_gram v o child (cursorAfter (endInterval .createTask r c) .create) b
    simp only [recTree, wnItem, isLast, wnTask, gItem, gLast, Bool.and_eq_true]
    refine ⟨fun h => ⟨⟨h.1, by simp [endInterval]⟩, ih.2.2 h.2⟩, ?_, ?_⟩ <;> (intro h; cases h)
  | .group k f, c, b => by
    simp only [recTree, wnItem, isLast, wnTask, Bool.and_eq_true]
    refine ⟨fun h => ?g1, ?g2, fun h => ?g3⟩
    case g2 => intro h; cases h
    · apply (summarize_gram v o _ _ b).1
      have ih := recForest_gram v o f c false h.2
      simp only [gItem, Bool.and_eq_true, Bool.or_eq_true]
      exact ⟨by rw [accumulate_kind]; exact h.1, Or.inr ih⟩
    · apply (summarize_gram v o _ _ b).2
      have ih := recForest_gram v o f c true h.2
      simp only [gTask, Bool.and_eq_true, Bool.or_eq_true]
      exact ⟨by rw [accumulate_kind]; exact h.1, Or.inr ih⟩
theorem recForest_gram (v : Variant) (o : Opts) : ∀ (f : Forest) (c : Cursor) (b : Bool), wnForest b f = true →
    gForest b (recForest v (summarize v o) f c).1 = true
  | .nil, c, b, h => by simp [wnForest] at h
  | .cons t .nil, c, b, h => by
    simp only [wnForest] at h
    simp only [recForest, gForest]
    exact (recTree_gram v o t c b).2.1 h
  | .cons t (.cons t' rest), c, b, h => by
    simp only [wnForest, Bool.and_eq_true] at h
    have ih1 := (recTree_gram v o t c b).1 h.1
    have ih2 := recForest_gram v o (.cons t' rest) (recTree v (summarize v o) t c).2 b h.2
    rw [show recForest v (summarize v o) (.cons t (.cons t' rest)) c =
      (.cons (recTree v (summarize v o) t c).1 (recForest v (summarize v o) (.cons t' rest) (recTree v (summarize v o) t c).2).1,
       (recForest v (summarize v o) (.cons t' rest) (recTree v (summarize v o) t c).2).2) from rfl]
    simp only
    generalize (recForest v (summarize v o) (.cons t' rest) (recTree v (summarize v o) t c).2).1 = q at ih2 ⊢
    cases q with
    | nil => simp [gForest] at ih2
    | cons q1 q2 => rw [gForest_cons2, Bool.and_eq_true]; exact ⟨ih1, ih2⟩
end

/-- **every in-memory DAG the recorder produces has the shape `gTask`**, whatever the contraction options -/
theorem record_gram (v : Variant) (o : Opts) (sc : Nat) (t : Tree) (h : wnTask t = true) :
    gTask (record v o sc t) = true :=
  (recTree_gram v o t (rootCursor sc) true).2.2 h

end MythVerif.DagRec
