import MythVerif.Proofs.WsQueueTac
/-! Per-program-counter preservation lemmas of the work-stealing queue invariant (generated list, uniform script). -/
namespace MythVerif.Wsq

set_option maxHeartbeats 1000000 in
theorem o_po3 (s s' : St) (t x) : Inv s → s.opc = .po3 t x → stepO s = some s' → Inv s' := by wsq_ostep

set_option maxHeartbeats 1000000 in
theorem o_po4 (s s' : St) (t) : Inv s → s.opc = .po4 t → stepO s = some s' → Inv s' := by wsq_ostep

set_option maxHeartbeats 1000000 in
theorem o_po5 (s s' : St) (t x) : Inv s → s.opc = .po5 t x → stepO s = some s' → Inv s' := by wsq_ostep

set_option maxHeartbeats 1000000 in
theorem o_po5b (s s' : St) (t r) : Inv s → s.opc = .po5b t r → stepO s = some s' → Inv s' := by wsq_ostep

set_option maxHeartbeats 1000000 in
theorem o_po5c (s s' : St) (t r) : Inv s → s.opc = .po5c t r → stepO s = some s' → Inv s' := by wsq_ostep

end MythVerif.Wsq
