import MythVerif.Proofs.WsQueueTac
/-! Per-program-counter preservation lemmas of the work-stealing queue invariant (generated list, uniform script). -/
namespace MythVerif.Wsq

set_option maxHeartbeats 1000000 in
theorem t_tp2 (s s' : St) (p : Pid) (e b) : Inv s → s.tpc p = .tp2 e b → stepT s p = some s' → Inv s' := by wsq_tstep

set_option maxHeartbeats 1000000 in
theorem t_tp4 (s s' : St) (p : Pid) (ok) : Inv s → s.tpc p = .tp4 ok → stepT s p = some s' → Inv s' := by wsq_tstep

set_option maxHeartbeats 1000000 in
theorem t_kq0 (s s' : St) (p : Pid) : Inv s → s.tpc p = .kq0 → stepT s p = some s' → Inv s' := by wsq_tstep

set_option maxHeartbeats 1000000 in
theorem t_kq1 (s s' : St) (p : Pid) (t) : Inv s → s.tpc p = .kq1 t → stepT s p = some s' → Inv s' := by wsq_tstep

set_option maxHeartbeats 1000000 in
theorem t_pk1 (s s' : St) (p : Pid) : Inv s → s.tpc p = .pk1 → stepT s p = some s' → Inv s' := by wsq_tstep

end MythVerif.Wsq
