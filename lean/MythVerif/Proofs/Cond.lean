import MythVerif.Model.Cond
/-! Inductive invariant of the condition-variable model, one lemma per label. -/
namespace MythVerif.Cond

structure Inv (s : St) : Prop where
  cqA  : ∀ x, x ∈ s.cq → s.pc x = .wQ
  cqN  : s.cq.Nodup
  dqA  : ∀ x, x ∈ s.deqd → s.pc x = .wQ
  dqN  : s.deqd.Nodup
  dis  : ∀ x, x ∈ s.cq → x ∉ s.deqd
  rel  : ∀ x, s.pc x = .wQ → x ∈ s.cq ∨ x ∈ s.deqd
  hold : ∀ x, (s.pc x = .w0 ∨ s.pc x = .wSw ∨ s.cbh x = true) → s.holder = some x
  cbP  : ∀ x, s.cbh x = true → (s.pc x = .wQ ∨ s.pc x = .wWoken)
  car  : ∀ u x, (s.pc u = .sgP x ∨ s.pc u = .bcP x) → x ∈ s.deqd
  carU : ∀ u1 u2 x, (s.pc u1 = .sgP x ∨ s.pc u1 = .bcP x) → (s.pc u2 = .sgP x ∨ s.pc u2 = .bcP x) → u1 = u2
  dqC  : ∀ x, x ∈ s.deqd → ∃ u, s.pc u = .sgP x ∨ s.pc u = .bcP x
  bc   : ∀ b x, (s.pc b = .bc ∨ ∃ y, s.pc b = .bcP y) → x ∈ s.bsnap b → (s.wakes x > s.bcnt b x ∨ x ∈ s.cq)
  mono : ∀ b x, s.bcnt b x ≤ s.wakes x ∨ (s.pc b ≠ .bc ∧ ∀ y, s.pc b ≠ .bcP y)

theorem inv_init : Inv init := by
  constructor <;> simp [init]

macro "cfinish" : tactic => `(tactic| (
    all_goals (simp only [upd_apply] at *)
    all_goals (first | grind [List.Nodup.mem_erase_iff, List.Nodup.erase, List.nodup_cons, List.nodup_append] | skip)))

macro "cstep" : tactic => `(tactic| (
  intro h hs
  obtain ⟨hcqA, hcqN, hdqA, hdqN, hdis, hrel, hhold, hcbP, hcar, hcarU, hdqC, hbc, hmono⟩ := h
  simp only [step] at hs
  (first | (split at hs) | skip)
  all_goals (first | (split at hs) | skip)
  all_goals (first | (split at hs) | skip)
  all_goals (try simp at hs)
  all_goals (try subst hs)
  all_goals (try (constructor; cfinish))))

theorem p_acquire (s s' : St) (t) : Inv s → step s (.acquire t) = some s' → Inv s' := by cstep
theorem p_release (s s' : St) (t) : Inv s → step s (.release t) = some s' → Inv s' := by cstep
theorem p_waitStart (s s' : St) (t) : Inv s → step s (.waitStart t) = some s' → Inv s' := by cstep
theorem p_blockBegin (s s' : St) (t) : Inv s → step s (.blockBegin t) = some s' → Inv s' := by cstep
theorem p_cbEnq (s s' : St) (t) : Inv s → step s (.cbEnq t) = some s' → Inv s' := by cstep
theorem p_cbRelease (s s' : St) (t) : Inv s → step s (.cbRelease t) = some s' → Inv s' := by cstep
theorem p_sigStart (s s' : St) (t) : Inv s → step s (.sigStart t) = some s' → Inv s' := by cstep
theorem p_sigDeq (s s' : St) (t x) : Inv s → step s (.sigDeq t x) = some s' → Inv s' := by cstep
theorem p_bcStart (s s' : St) (t) : Inv s → step s (.bcStart t) = some s' → Inv s' := by cstep
theorem p_bcDeq (s s' : St) (t x) : Inv s → step s (.bcDeq t x) = some s' → Inv s' := by cstep
theorem p_push (s s' : St) (t x) : Inv s → step s (.push t x) = some s' → Inv s' := by cstep

end MythVerif.Cond
