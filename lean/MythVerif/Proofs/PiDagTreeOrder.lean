import MythVerif.Proofs.PiDagPre
/-! All edges of a laid-out DAG as a list defined on the tree (`teN`), a permutation of what
`dr_pi_dag_enum_edges` emits; every edge goes forward in the preorder, the first leaf is the first
leaf of the preorder, and every other leaf of a recorded DAG has an incoming edge. -/
namespace MythVerif.PiDag
open MythVerif.DagRec

mutual
/-- all edges emitted for the groups in the subtree of the node at `idx` -/
def teN (kf : Nat → EKind) : DNode → Nat → Nat → List PEdge
  | .ival _, _, _ => []
  | .create _ ch, _, base => teN kf ch base (base + 1)
  | .group _ ds, _, base => groupEdges kf ds base (base + ds.length) ++ teL kf ds base (base + ds.length)
def teL (kf : Nat → EKind) : DList → Nat → Nat → List PEdge
  | .nil, _, _ => []
  | .cons d r, k, base => teN kf d k base ++ teL kf r (k + 1) (base + descT d)
end

mutual
theorem count_teN (kf : Nat → EKind) (e : PEdge) : ∀ (d : DNode) (idx base : Nat),
    (teN kf d idx base).count e = tsN (fun d' g b' => (nodeEdges kf d' g b').count e) d idx base
  | .ival _, _, _ => by simp [teN, tsN, nodeEdges]
  | .create i ch, idx, base => by
    simp only [teN, tsN, nodeEdges, count_teN kf e ch base (base + 1)]
    simp
  | .group i ds, idx, base => by
    simp only [teN, tsN, nodeEdges, List.count_append, count_teL kf e ds base (base + ds.length)]
theorem count_teL (kf : Nat → EKind) (e : PEdge) : ∀ (ds : DList) (k base : Nat),
    (teL kf ds k base).count e = tsL (fun d' g b' => (nodeEdges kf d' g b').count e) ds k base
  | .nil, _, _ => by simp [teL, tsL]
  | .cons d r, k, base => by
    simp only [teL, tsL, List.count_append, count_teN kf e d k base, count_teL kf e r (k + 1) (base + descT d)]
end

/-- the edges `dr_pi_dag_enum_edges` emits are, up to order, the edges of the tree -/
theorem enumEdges_perm (T : Array PNode) (d : DNode) (hl : LayN T d 0 1) (hn : T.size = 1 + descT d) (hw : gW d = true) :
    (enumEdges T).Perm (teN (kfOf T) d 0 1) := by
  rw [List.perm_iff_count]
  intro e
  rw [count_teN]
  have : (enumEdges T).count e = rsum T.size (fun i => (edgesOfGroup T i).count e) := by
    simp only [enumEdges, List.count_flatMap, rsum]
    rfl
  rw [this]
  exact sum_all T _ _ (fun d' g b' q1 q2 q3 => by rw [nodeEdges_eq T d' g b' q1 q2 q3]) d hl hn hw

/-! ### every edge goes forward in the preorder -/

theorem mem_preN_self (d : DNode) (idx base : Nat) : idx ∈ preN d idx base := by
  rw [mem_preN]; exact Or.inl rfl

theorem ordC (t : Nat) : ∀ (ds : DList) (y base : Nat), y + ds.length ≤ base →
    ∀ e ∈ createEdges t ds y base, Bef (preL ds y base) e.u e.v ∨ (e.u ∈ preL ds y base ∧ e.v = t)
  | .nil, _, _, _ => by simp [createEdges]
  | .cons d r, y, base, hb => by
    simp only [DList.length] at hb
    intro e he
    simp only [createEdges, List.mem_append] at he
    simp only [preL]
    rcases he with he | he
    · cases d with
      | ival _ => simp [createOf] at he
      | group _ _ => simp [createOf] at he
      | create i ch =>
        simp only [createOf, List.mem_cons, List.not_mem_nil, or_false] at he
        rcases he with rfl | rfl
        · left
          apply bef_append_left
          simp only [preN]
          have := firstN_in ch base (base + 1)
          apply bef_cons_head
          · rw [mem_preN]; exact this
          · simp only [InN] at this; omega
        · right
          refine ⟨?_, rfl⟩
          simp only [List.mem_append, preN, List.mem_cons]
          left; right
          rw [mem_preN]; exact lastN_in ch base (base + 1)
    · have ih := ordC t r (y + 1) (base + descT d) (by omega) e he
      have hdis : ∀ x, x ∈ preL r (y + 1) (base + descT d) → x ∉ preN d y base := by
        intro x hx hx'
        rw [mem_preL] at hx; rw [mem_preN] at hx'
        simp only [InL, InN] at hx hx'
        omega
      rcases ih with ih | ih
      · left; exact bef_append_right ih (hdis _ ih.1) (hdis _ ih.2.1)
      · right; exact ⟨by simp [ih.1], ih.2⟩

mutual
theorem ordN (kf : Nat → EKind) : ∀ (d : DNode) (idx base : Nat), idx < base →
    ∀ e ∈ teN kf d idx base, Bef (preN d idx base) e.u e.v
  | .ival _, _, _, _ => by simp [teN]
  | .create i ch, idx, base, hb => by
    intro e he
    simp only [teN] at he
    have ih := ordN kf ch base (base + 1) (by omega) e he
    simp only [preN]
    have h1 := (mem_preN ch base (base + 1) _).mp ih.1
    have h2 := (mem_preN ch base (base + 1) _).mp ih.2.1
    simp only [InN] at h1 h2
    exact bef_cons ih (by omega) (by omega)
  | .group i ds, idx, base, hb => by
    intro e he
    simp only [teN] at he
    have ih := ordL kf ds base (base + ds.length) (Nat.le_refl _) e he
    simp only [preN]
    have h1 := (mem_preL ds base (base + ds.length) _).mp ih.1
    have h2 := (mem_preL ds base (base + ds.length) _).mp ih.2.1
    simp only [InL] at h1 h2
    exact bef_cons ih (by omega) (by omega)
theorem ordL (kf : Nat → EKind) : ∀ (ds : DList) (k base : Nat), k + ds.length ≤ base →
    ∀ e ∈ groupEdges kf ds k base ++ teL kf ds k base, Bef (preL ds k base) e.u e.v
  | .nil, _, _, _ => by simp [groupEdges, teL]
  | .cons d r, k, base, hb => by
    simp only [DList.length] at hb
    intro e he
    simp only [groupEdges, teL, List.mem_append] at he
    simp only [preL]
    have hdis : ∀ x, x ∈ preL r (k + 1) (base + descT d) → x ∉ preN d k base := by
      intro x hx hx'
      rw [mem_preL] at hx; rw [mem_preN] at hx'
      simp only [InL, InN] at hx hx'
      omega
    have ihr := ordL kf r (k + 1) (base + descT d) (by omega)
    rcases he with (he | he) | (he | he)
    · -- the edges of the non-last child `d`
      split at he
      · simp at he
      · rename_i hnil
        have hnil' : r.isNil = false := by simpa using hnil
        have ht := firstL_in r (k + 1) (base + descT d) 0 hnil'
        have htm := (mem_preL r _ _ _).mpr ht
        simp only [itemEdges, List.mem_cons] at he
        rcases he with rfl | he
        · exact bef_append_cross ((mem_preN d k base _).mpr (lastN_in d k base)) (hdis _ htm) htm
        · cases d with
          | ival _ => simp [sectionEdges] at he
          | create _ _ => simp [sectionEdges] at he
          | group i' ds' =>
            simp only [sectionEdges] at he
            split at he
            · have hc := ordC _ ds' base (base + ds'.length) (Nat.le_refl _) e he
              rcases hc with hc | hc
              · apply bef_append_left
                simp only [preN]
                have h1 := (mem_preL ds' base (base + ds'.length) _).mp hc.1
                have h2 := (mem_preL ds' base (base + ds'.length) _).mp hc.2.1
                simp only [InL] at h1 h2
                exact bef_cons hc (by omega) (by omega)
              · rw [hc.2]
                refine bef_append_cross ?_ (hdis _ htm) htm
                simp only [preN, List.mem_cons]
                right; exact hc.1
            · simp at he
    · have ih := ihr e (by simp [he])
      exact bef_append_right ih (hdis _ ih.1) (hdis _ ih.2.1)
    · exact bef_append_left (ordN kf d k base (by omega) e he)
    · have ih := ihr e (by simp [he])
      exact bef_append_right ih (hdis _ ih.1) (hdis _ ih.2.1)
end

/-! ### the first leaf is the first leaf of the preorder -/

theorem firstL_cons' (d : DNode) (r : DList) (k base dflt : Nat) : firstL (.cons d r) k base dflt = firstN d k base := rfl

mutual
theorem minN : ∀ (d : DNode) (idx base : Nat), idx < base → ∀ v ∈ leavesN d idx base,
    (preN d idx base).idxOf (firstN d idx base) ≤ (preN d idx base).idxOf v
  | .ival _, idx, base, _ => by intro v _; simp [preN, firstN]
  | .create i ch, idx, base, _ => by intro v _; simp [preN, firstN]
  | .group i ds, idx, base, hb => by
    intro v hv
    cases ds with
    | nil => simp [preN, firstN, firstL]
    | cons d1 r =>
      simp only [leavesN, DList.isNil, Bool.false_eq_true, if_false] at hv
      have ih := minL (.cons d1 r) base (base + (DList.cons d1 r).length) (Nat.le_refl _) rfl v hv
      have hf := firstL_in (.cons d1 r) base (base + (DList.cons d1 r).length) 0 rfl
      have hvv := leavesL_in _ _ _ _ hv
      simp only [firstN, preN]
      rw [firstL_cons'] at ih hf ⊢
      simp only [InL] at hf hvv
      rw [List.idxOf_cons, List.idxOf_cons]
      have h1 : (idx == firstN d1 base (base + (DList.cons d1 r).length)) = false := by
        simp only [beq_eq_false_iff_ne, ne_eq]; omega
      have h2 : (idx == v) = false := by simp only [beq_eq_false_iff_ne, ne_eq]; omega
      simp only [h1, h2, cond_false]
      omega
theorem minL : ∀ (ds : DList) (k base : Nat), k + ds.length ≤ base → ds.isNil = false → ∀ v ∈ leavesL ds k base,
    (preL ds k base).idxOf (firstL ds k base 0) ≤ (preL ds k base).idxOf v
  | .nil, _, _, _, h => by simp [DList.isNil] at h
  | .cons d r, k, base, hb, _ => by
    simp only [DList.length] at hb
    intro v hv
    simp only [leavesL, List.mem_append] at hv
    simp only [preL, firstL]
    have hfm : firstN d k base ∈ preN d k base := (mem_preN _ _ _ _).mpr (firstN_in d k base)
    rw [List.idxOf_append, if_pos hfm, List.idxOf_append]
    rcases hv with hv | hv
    · have hvm : v ∈ preN d k base := (mem_preN _ _ _ _).mpr (leavesN_in _ _ _ _ hv)
      rw [if_pos hvm]
      exact minN d k base (by omega) v hv
    · have hvn : v ∉ preN d k base := by
        intro h
        rw [mem_preN] at h
        have := leavesL_in _ _ _ _ hv
        simp only [InN, InL] at h this
        omega
      rw [if_neg hvn]
      have := List.idxOf_lt_length_of_mem hfm
      omega
end

/-! ### every leaf but the first has an incoming edge -/

def HasIn (es : List PEdge) (v : Nat) : Prop := ∃ e ∈ es, e.v = v

theorem HasIn.mono {es es' : List PEdge} {v : Nat} (h : HasIn es v) (hs : ∀ e ∈ es, e ∈ es') : HasIn es' v := by
  obtain ⟨e, he, hv⟩ := h
  exact ⟨e, hs e he, hv⟩

/-- first leaf of the child task of a create node -/
def pendO : DNode → Nat → List Nat
  | .create _ ch, base => [firstN ch base (base + 1)]
  | _, _ => []

def pendC : DList → Nat → Nat → List Nat
  | .nil, _, _ => []
  | .cons d r, y, base => pendO d base ++ pendC r (y + 1) (base + descT d)

/-- leaves of the node whose incoming edge is emitted by the parent of the node -/
def pendN : DNode → Nat → Nat → List Nat
  | .ival _, _, _ => []
  | .create i ch, _, base => pendO (.create i ch) base
  | .group i ds, _, base => if i.c.kind == .section then pendC ds base (base + ds.length) else []

theorem createEdges_in (t : Nat) : ∀ (ds : DList) (y base v : Nat), v ∈ pendC ds y base → HasIn (createEdges t ds y base) v
  | .nil, _, _, _, h => by simp [pendC] at h
  | .cons d r, y, base, v, h => by
    simp only [pendC, List.mem_append] at h
    rcases h with h | h
    · cases d with
      | ival _ => simp [pendO] at h
      | group _ _ => simp [pendO] at h
      | create i ch =>
        simp only [pendO, List.mem_singleton] at h
        exact ⟨⟨.create, y, firstN ch base (base + 1)⟩, by simp [createEdges, createOf], h.symm⟩
    · exact (createEdges_in t r (y + 1) (base + descT d) v h).mono (fun e he => by simp [createEdges, he])

theorem pendC_task : ∀ (ds : DList) (y base : Nat), gForest true ds = true → pendC ds y base = []
  | .nil, _, _, h => by simp [gForest] at h
  | .cons d .nil, y, base, h => by
    simp only [gForest] at h
    cases d <;> simp_all [gLast, pendC, pendO]
  | .cons d (.cons d' r), y, base, h => by
    rw [gForest_cons2, Bool.and_eq_true] at h
    have ih := pendC_task (.cons d' r) (y + 1) (base + descT d) h.2
    rw [pendC, ih]
    cases d <;> simp_all [gItem, pendO]

mutual
theorem inN (kf : Nat → EKind) : ∀ (d : DNode) (idx base : Nat) (b : Bool),
    (gItem b d = true ∨ gLast b d = true ∨ gTask d = true) →
    ∀ v ∈ leavesN d idx base, v = firstN d idx base ∨ HasIn (teN kf d idx base) v ∨ v ∈ pendN d idx base
  | .ival _, idx, base, b, _ => by intro v hv; left; simpa [leavesN, firstN] using hv
  | .create i ch, idx, base, b, hg => by
    intro v hv
    have hch : gTask ch = true := by
      rcases hg with h | h | h
      · simp only [gItem, Bool.and_eq_true] at h; exact h.2
      · simp [gLast] at h
      · simp [gTask] at h
    simp only [leavesN, List.mem_cons] at hv
    rcases hv with hv | hv
    · left; exact hv
    · rcases inN kf ch base (base + 1) true (Or.inr (Or.inr hch)) v hv with h | h | h
      · right; right; simp [pendN, pendO, h]
      · right; left; exact h
      · exfalso
        cases ch with
        | group ic dsc =>
          simp only [gTask, Bool.and_eq_true, beq_iff_eq] at hch
          simp [pendN, hch.1] at h
        | ival _ => simp [gTask] at hch
        | create _ _ => simp [gTask] at hch
  | .group i ds, idx, base, b, hg => by
    intro v hv
    cases hds : ds with
    | nil => subst hds; left; simpa [leavesN, firstN, firstL, DList.isNil] using hv
    | cons d1 r =>
      rw [← hds]
      have hnil : ds.isNil = false := by rw [hds]; rfl
      simp only [leavesN, hnil, Bool.false_eq_true, if_false] at hv
      have hfirst : firstN (.group i ds) idx base = firstL ds base (base + ds.length) 0 := by
        simp only [firstN]; rw [hds]; rfl
      rw [hfirst]
      rcases hg with h | h | h
      · simp only [gItem, Bool.and_eq_true, hnil, Bool.false_or] at h
        rcases inL kf ds base (base + ds.length) false h.2 v hv with q | q | q
        · left; exact q
        · right; left; simpa [teN] using q
        · right; right; simp only [pendN, h.1, if_true]; exact q
      · simp [gLast] at h
      · simp only [gTask, Bool.and_eq_true, hnil, Bool.false_or] at h
        rcases inL kf ds base (base + ds.length) true h.2 v hv with q | q | q
        · left; exact q
        · right; left; simpa [teN] using q
        · rw [pendC_task ds _ _ h.2] at q; simp at q
theorem inL (kf : Nat → EKind) : ∀ (ds : DList) (k base : Nat) (b : Bool), gForest b ds = true →
    ∀ v ∈ leavesL ds k base, v = firstL ds k base 0 ∨ HasIn (groupEdges kf ds k base ++ teL kf ds k base) v ∨
      v ∈ pendC ds k base
  | .nil, _, _, _, h => by simp [gForest] at h
  | .cons d .nil, k, base, b, h => by
    simp only [gForest] at h
    intro v hv
    cases d with
    | ival _ => left; simpa [leavesL, leavesN, firstL, firstN] using hv
    | create _ _ => simp [gLast] at h
    | group _ _ => simp [gLast] at h
  | .cons d (.cons d' r), k, base, b, h => by
    rw [gForest_cons2, Bool.and_eq_true] at h
    intro v hv
    rw [leavesL, List.mem_append] at hv
    rw [groupEdges_cons2, firstL_cons']
    have hte : teL kf (.cons d (.cons d' r)) k base = teN kf d k base ++ teL kf (.cons d' r) (k + 1) (base + descT d) := by
      rw [teL]
    have hpc : pendC (.cons d (.cons d' r)) k base = pendO d base ++ pendC (.cons d' r) (k + 1) (base + descT d) := by
      rw [pendC]
    rw [hte, hpc]
    rcases hv with hv | hv
    · rcases inN kf d k base b (Or.inl h.1) v hv with q | q | q
      · left; exact q
      · right; left; exact q.mono (fun e he => by simp [he])
      · cases d with
        | ival _ => simp [pendN] at q
        | create i ch => right; right; simp only [pendN] at q; simp [q]
        | group i' ds' =>
          right; left
          simp only [pendN] at q
          split at q
          · rename_i hk
            have := createEdges_in (firstN d' (k + 1) (base + descT (.group i' ds'))) ds' base (base + ds'.length) v q
            exact this.mono (fun e he => by simp [itemEdges, sectionEdges, hk, he])
          · simp at q
    · rcases inL kf (.cons d' r) (k + 1) (base + descT d) b h.2 v hv with q | q | q
      · right; left
        rw [firstL_cons'] at q
        exact ⟨⟨kf (firstN d' (k + 1) (base + descT d)), lastN d k base, firstN d' (k + 1) (base + descT d)⟩,
          by simp [itemEdges], q.symm⟩
      · right; left; exact q.mono (fun e he => by
          simp only [List.mem_append] at he ⊢
          rcases he with he | he
          · left; right; exact he
          · right; right; exact he)
      · right; right; simp [q]
end

/-- in a recorded DAG every leaf but the first has an incoming edge -/
theorem leaf_has_in (kf : Nat → EKind) (d : DNode) (h : gTask d = true) (v : Nat) (hv : v ∈ leavesN d 0 1)
    (hne : v ≠ firstN d 0 1) : HasIn (teN kf d 0 1) v := by
  rcases inN kf d 0 1 true (Or.inr (Or.inr h)) v hv with q | q | q
  · exact absurd q hne
  · exact q
  · exfalso
    cases d with
    | group i ds =>
      simp only [gTask, Bool.and_eq_true, beq_iff_eq] at h
      simp [pendN, h.1] at q
    | ival _ => simp [gTask] at h
    | create _ _ => simp [gTask] at h

end MythVerif.PiDag
