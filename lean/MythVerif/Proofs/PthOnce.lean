import MythVerif.Model.PthOnce
/-!
Determinacy of the fork-join + lock-protected-commutative + monotone-gate + one-time-initialisation
fragment (`MythVerif.PthOnce.OProg`).

Every step is either *quiet* (the once-controls and the run counters do not change,
`counters + odelta` is preserved, and the set of not-yet-done controls the term mentions is
preserved) or it *fires* exactly one control `k` that was not done (`done k` becomes true,
`runs k` grows by one, `counters + odelta` grows by the effect of `init k`, and the mentioned
controls other than `k` are preserved).  Hence

  `counters + odelta(remaining term) + Σ_{k mentioned in the remaining term, not done} init k`

is invariant, which gives the closed formula for every complete execution.
-/
namespace MythVerif.PthOnce
open MythVerif.PthProg (Store Store.bump)
open MythVerif.PthGate (Gates Gates.bump)

variable {init : Nat → List (Nat × Int)}

/-! ## the routine, lists -/

theorem applyInit_eq (l : List (Nat × Int)) (σ : Store) (i : Nat) :
    applyInit l σ i = σ i + ieff l i := by
  induction l generalizing σ with
  | nil => simp [applyInit, ieff]
  | cons ca l ih =>
    simp only [applyInit, ieff, ih, Store.bump]
    split <;> omega

theorem mem_dedup (l : List Nat) (x : Nat) : x ∈ dedup l ↔ x ∈ l := by
  induction l with
  | nil => simp [dedup]
  | cons y ys ih =>
    simp only [dedup]
    split
    · rename_i hy
      simp only [List.mem_cons, ih]
      constructor
      · intro h; exact Or.inr h
      · rintro (h | h)
        · subst h; exact (ih.mp hy) |> fun h' => h'
        · exact h
    · simp only [List.mem_cons, ih]

theorem nodup_dedup (l : List Nat) : (dedup l).Nodup := by
  induction l with
  | nil => simp [dedup]
  | cons y ys ih =>
    simp only [dedup]
    split
    · exact ih
    · rename_i hy
      exact List.nodup_cons.mpr ⟨hy, ih⟩

theorem initSum_congr (f g : Nat → Bool) (L : List Nat) (h : ∀ k ∈ L, f k = g k) (i : Nat) :
    initSum init f L i = initSum init g L i := by
  induction L with
  | nil => rfl
  | cons x xs ih =>
    simp only [initSum]
    rw [h x (by simp), ih (fun k hk => h k (by simp [hk]))]

theorem initSum_none (f : Nat → Bool) (L : List Nat) (h : ∀ k ∈ L, f k = false) (i : Nat) :
    initSum init f L i = 0 := by
  induction L with
  | nil => rfl
  | cons x xs ih =>
    simp only [initSum]
    rw [h x (by simp), ih (fun k hk => h k (by simp [hk]))]
    simp

/-- switching off one control of a duplicate-free list removes exactly its routine's effect -/
theorem initSum_flip (f g : Nat → Bool) (k : Nat) (L : List Nat) (hn : L.Nodup) (hk : k ∈ L)
    (hf : f k = true) (hg : g k = false) (h : ∀ k' ∈ L, k' ≠ k → f k' = g k') (i : Nat) :
    initSum init f L i = initSum init g L i + ieff (init k) i := by
  induction L with
  | nil => simp at hk
  | cons x xs ih =>
    have hn' := List.nodup_cons.mp hn
    simp only [initSum]
    by_cases hx : x = k
    · subst hx
      have hrest : initSum init f xs i = initSum init g xs i := by
        apply initSum_congr
        intro k' hk'
        apply h k' (by simp [hk'])
        intro e; subst e; exact hn'.1 hk'
      rw [hf, hg, hrest]
      simp
      omega
    · have hk' : k ∈ xs := by
        rcases List.mem_cons.mp hk with e | e
        · exact absurd e.symm hx
        · exact e
      rw [h x (by simp) hx, ih hn'.2 hk' (fun k' hk'' => h k' (by simp [hk'']))]
      omega

/-! ## what a step does -/

/-- a step that does not run a routine -/
def Quiet (x y : Cfg) : Prop :=
  y.2.done = x.2.done ∧ y.2.runs = x.2.runs ∧
  (∀ i, y.2.cnt i + odelta y.1 i = x.2.cnt i + odelta x.1 i) ∧
  (∀ k, x.2.done k = false → (k ∈ onces y.1 ↔ k ∈ onces x.1))

/-- a step that runs the routine of control `k` -/
def Fires (init : Nat → List (Nat × Int)) (k : Nat) (x y : Cfg) : Prop :=
  x.2.done k = false ∧ k ∈ onces x.1 ∧
  y.2.done = (fun j => if j = k then true else x.2.done j) ∧
  y.2.runs = (fun j => if j = k then x.2.runs j + 1 else x.2.runs j) ∧
  (∀ i, y.2.cnt i + odelta y.1 i = x.2.cnt i + odelta x.1 i + ieff (init k) i) ∧
  (∀ k', k' ≠ k → (k' ∈ onces y.1 ↔ k' ∈ onces x.1))

theorem step_char (x y : Cfg) (h : Step init x y) :
    oval y.1 = oval x.1 ∧
    (∀ g, y.2.gates g + oposts y.1 g = x.2.gates g + oposts x.1 g) ∧
    (∀ k, k ∈ onces y.1 → k ∈ onces x.1) ∧
    (Quiet x y ∨ ∃ k, Fires init k x y) := by
  induction h with
  | add c k s =>
    refine ⟨by simp [oval], by intro g; simp [oposts], by simp [onces], Or.inl ⟨rfl, rfl, ?_, by simp [onces]⟩⟩
    intro i
    simp only [odelta, Store.bump]
    split <;> simp
  | post g n s =>
    refine ⟨by simp [oval], ?_, by simp [onces], Or.inl ⟨rfl, rfl, by intro i; simp [odelta], by simp [onces]⟩⟩
    intro i
    simp only [oposts, Gates.bump]
    split <;> simp
  | await g n s _ =>
    exact ⟨by simp [oval], by intro g; simp [oposts], by simp [onces],
      Or.inl ⟨rfl, rfl, by intro i; simp [odelta], by simp [onces]⟩⟩
  | onceRun k s hd =>
    refine ⟨by simp [oval], by intro g; simp [oposts, St.fire], by simp [onces],
      Or.inr ⟨k, hd, by simp [onces], rfl, rfl, ?_, ?_⟩⟩
    · intro i
      simp [odelta, St.fire, applyInit_eq]
    · intro k' hk'
      simp [onces, hk']
  | onceSkip k s hd =>
    refine ⟨by simp [oval], by intro g; simp [oposts], by simp [onces],
      Or.inl ⟨rfl, rfl, by intro i; simp [odelta], ?_⟩⟩
    intro k' hk'
    have : k' ≠ k := by intro e; subst e; simp [hd] at hk'
    simp [onces, this]
  | seqL a a' b s s' _ ih =>
    obtain ⟨h1, h2, h3, h4⟩ := ih
    refine ⟨by simp [oval, h1], ?_, ?_, ?_⟩
    · intro g; have := h2 g; simp only [oposts] at *; omega
    · intro k; simp only [onces, List.mem_append]; rintro (h | h)
      · exact Or.inl (h3 k h)
      · exact Or.inr h
    · rcases h4 with ⟨q1, q2, q3, q4⟩ | ⟨k, f1, f2, f3, f4, f5, f6⟩
      · refine Or.inl ⟨q1, q2, ?_, ?_⟩
        · intro i; have := q3 i; simp only [odelta] at *; omega
        · intro k hk; have := q4 k hk; simp only [onces, List.mem_append] at *; rw [this]
      · refine Or.inr ⟨k, f1, ?_, f3, f4, ?_, ?_⟩
        · simp only [onces, List.mem_append] at *; exact Or.inl f2
        · intro i; have := f5 i; simp only [odelta] at *; omega
        · intro k' hk'; have := f6 k' hk'; simp only [onces, List.mem_append] at *; rw [this]
  | seqR v b b' s s' _ ih =>
    obtain ⟨h1, h2, h3, h4⟩ := ih
    refine ⟨by simp [oval, h1], ?_, ?_, ?_⟩
    · intro g; have := h2 g; simp only [oposts] at *; omega
    · intro k; simp only [onces, List.mem_append]; rintro (h | h)
      · exact Or.inl h
      · exact Or.inr (h3 k h)
    · rcases h4 with ⟨q1, q2, q3, q4⟩ | ⟨k, f1, f2, f3, f4, f5, f6⟩
      · refine Or.inl ⟨q1, q2, ?_, ?_⟩
        · intro i; have := q3 i; simp only [odelta] at *; omega
        · intro k hk; have := q4 k hk; simp only [onces, List.mem_append] at *; rw [this]
      · refine Or.inr ⟨k, f1, ?_, f3, f4, ?_, ?_⟩
        · simp only [onces, List.mem_append] at *; exact Or.inr f2
        · intro i; have := f5 i; simp only [odelta] at *; omega
        · intro k' hk'; have := f6 k' hk'; simp only [onces, List.mem_append] at *; rw [this]
  | seqDone v w s =>
    exact ⟨by simp [oval], by intro g; simp [oposts], by simp [onces],
      Or.inl ⟨rfl, rfl, by intro i; simp [odelta], by simp [onces]⟩⟩
  | fork c b s =>
    exact ⟨by simp [oval], by intro g; simp [oposts], by simp [onces],
      Or.inl ⟨rfl, rfl, by intro i; simp [odelta], by simp [onces]⟩⟩
  | parL c c' b s s' _ ih =>
    obtain ⟨h1, h2, h3, h4⟩ := ih
    refine ⟨by simp [oval, h1], ?_, ?_, ?_⟩
    · intro g; have := h2 g; simp only [oposts] at *; omega
    · intro k; simp only [onces, List.mem_append]; rintro (h | h)
      · exact Or.inl (h3 k h)
      · exact Or.inr h
    · rcases h4 with ⟨q1, q2, q3, q4⟩ | ⟨k, f1, f2, f3, f4, f5, f6⟩
      · refine Or.inl ⟨q1, q2, ?_, ?_⟩
        · intro i; have := q3 i; simp only [odelta] at *; omega
        · intro k hk; have := q4 k hk; simp only [onces, List.mem_append] at *; rw [this]
      · refine Or.inr ⟨k, f1, ?_, f3, f4, ?_, ?_⟩
        · simp only [onces, List.mem_append] at *; exact Or.inl f2
        · intro i; have := f5 i; simp only [odelta] at *; omega
        · intro k' hk'; have := f6 k' hk'; simp only [onces, List.mem_append] at *; rw [this]
  | parR c b b' s s' _ ih =>
    obtain ⟨h1, h2, h3, h4⟩ := ih
    refine ⟨by simp [oval, h1], ?_, ?_, ?_⟩
    · intro g; have := h2 g; simp only [oposts] at *; omega
    · intro k; simp only [onces, List.mem_append]; rintro (h | h)
      · exact Or.inl h
      · exact Or.inr (h3 k h)
    · rcases h4 with ⟨q1, q2, q3, q4⟩ | ⟨k, f1, f2, f3, f4, f5, f6⟩
      · refine Or.inl ⟨q1, q2, ?_, ?_⟩
        · intro i; have := q3 i; simp only [odelta] at *; omega
        · intro k hk; have := q4 k hk; simp only [onces, List.mem_append] at *; rw [this]
      · refine Or.inr ⟨k, f1, ?_, f3, f4, ?_, ?_⟩
        · simp only [onces, List.mem_append] at *; exact Or.inr f2
        · intro i; have := f5 i; simp only [odelta] at *; omega
        · intro k' hk'; have := f6 k' hk'; simp only [onces, List.mem_append] at *; rw [this]
  | join v w s =>
    exact ⟨by simp [oval], by intro g; simp [oposts], by simp [onces],
      Or.inl ⟨rfl, rfl, by intro i; simp [odelta], by simp [onces]⟩⟩

/-! ## invariants -/

/-- `counters + remaining adds + Σ_{k ∈ L mentioned in the remaining term, not done} init k` -/
def inv (init : Nat → List (Nat × Int)) (L : List Nat) (x : Cfg) (i : Nat) : Int :=
  x.2.cnt i + odelta x.1 i + initSum init (fun k => decide (k ∈ onces x.1) && !x.2.done k) L i

theorem step_inv (L : List Nat) (hn : L.Nodup) (x y : Cfg) (h : Step init x y)
    (hL : ∀ k ∈ onces x.1, k ∈ L) (i : Nat) : inv init L y i = inv init L x i := by
  obtain ⟨_, _, _, h4⟩ := step_char x y h
  rcases h4 with ⟨q1, _, q3, q4⟩ | ⟨k, f1, f2, f3, _, f5, f6⟩
  · unfold inv
    rw [q3 i]
    congr 1
    apply initSum_congr
    intro k _
    rw [q1]
    cases hd : x.2.done k
    · simp [q4 k hd]
    · simp
  · unfold inv
    rw [initSum_flip (fun k => decide (k ∈ onces x.1) && !x.2.done k)
        (fun k => decide (k ∈ onces y.1) && !y.2.done k) k L hn (hL k f2) (by simp [f1, f2])
        (by simp [f3]) (by intro k' _ hk'; simp [f3, hk', f6 k' hk']) i]
    have := f5 i
    omega

/-- the once-controls: `done ∪ mentioned` is invariant, `done` only grows, and the run counter of a
    control grows exactly when the control becomes done -/
theorem step_done (x y : Cfg) (h : Step init x y) :
    (∀ k, (y.2.done k || decide (k ∈ onces y.1)) = (x.2.done k || decide (k ∈ onces x.1))) ∧
    (∀ k, x.2.done k = true → y.2.done k = true) ∧
    (∀ k, y.2.runs k = x.2.runs k + (if y.2.done k && !x.2.done k then 1 else 0)) := by
  obtain ⟨_, _, _, h4⟩ := step_char x y h
  rcases h4 with ⟨q1, q2, _, q4⟩ | ⟨k, f1, f2, f3, f4, _, f6⟩
  · refine ⟨?_, by intro k hk; rw [q1]; exact hk, by intro k; rw [q1, q2]; simp⟩
    intro k
    rw [q1]
    cases hd : x.2.done k
    · simp [q4 k hd]
    · simp
  · refine ⟨?_, ?_, ?_⟩
    · intro k'
      rw [f3]
      by_cases hk' : k' = k
      · subst hk'; simp [f2]
      · simp [hk', f6 k' hk']
    · intro k' hk'
      rw [f3]
      by_cases e : k' = k
      · simp [e]
      · simp [e, hk']
    · intro k'
      rw [f3, f4]
      by_cases e : k' = k
      · subst e; simp [f1]
      · simp [e]

theorem steps_char (x y : Cfg) (h : Steps init x y) :
    oval y.1 = oval x.1 ∧
    (∀ g, y.2.gates g + oposts y.1 g = x.2.gates g + oposts x.1 g) ∧
    (∀ k, k ∈ onces y.1 → k ∈ onces x.1) ∧
    (∀ L : List Nat, L.Nodup → (∀ k ∈ onces x.1, k ∈ L) → ∀ i, inv init L y i = inv init L x i) ∧
    (∀ k, (y.2.done k || decide (k ∈ onces y.1)) = (x.2.done k || decide (k ∈ onces x.1))) ∧
    (∀ k, x.2.done k = true → y.2.done k = true) ∧
    (∀ k, y.2.runs k = x.2.runs k + (if y.2.done k && !x.2.done k then 1 else 0)) := by
  induction h with
  | refl x => exact ⟨rfl, fun _ => rfl, fun _ h => h, fun _ _ _ _ => rfl, fun _ => rfl, fun _ h => h,
      by intro k; cases x.2.done k <;> simp⟩
  | cons x y z hxy _ ih =>
    obtain ⟨a1, a2, a3, _⟩ := step_char x y hxy
    obtain ⟨b1, b2, b3⟩ := step_done x y hxy
    obtain ⟨c1, c2, c3, c4, c5, c6, c7⟩ := ih
    refine ⟨c1.trans a1, fun g => (c2 g).trans (a2 g), fun k hk => a3 k (c3 k hk), ?_,
      fun k => (c5 k).trans (b1 k), fun k hk => c6 k (b2 k hk), ?_⟩
    · intro L hn hL i
      rw [c4 L hn (fun k hk => hL k (a3 k hk)) i, step_inv L hn x y hxy hL i]
    · intro k
      have h1 := b3 k
      have h2 := c7 k
      have h3 := b2 k
      have h4 := c6 k
      rw [h2, h1]
      cases hx : x.2.done k <;> cases hy : y.2.done k <;> cases hz : z.2.done k <;> simp_all

theorem steps_trans (x y z : Cfg) (h1 : Steps init x y) (h2 : Steps init y z) : Steps init x z := by
  induction h1 with
  | refl x => exact h2
  | cons a b c hab _ ih => exact Steps.cons a b z hab (ih h2)

/-! ## termination, progress, deadlock -/

theorem step_size (x y : Cfg) (h : Step init x y) : osize y.1 < osize x.1 := by
  induction h <;> simp [osize] at * <;> omega

theorem steps_length (x y : Cfg) (h : Steps init x y) : osize y.1 ≤ osize x.1 := by
  induction h with
  | refl x => exact Nat.le_refl _
  | cons x y z hxy _ ih => have := step_size x y hxy; omega

/-- no divergence: there is no infinite execution -/
theorem no_infinite_run (f : Nat → Cfg) (h : ∀ n, Step init (f n) (f (n + 1))) : False := by
  have key : ∀ n, osize (f n).1 + n ≤ osize (f 0).1 := by
    intro n
    induction n with
    | zero => simp
    | succ n ih => have := step_size _ _ (h n); omega
  have h1 := key (osize (f 0).1 + 1)
  omega

/-- a term is finished, or blocked (every remaining thread at an `await` below its threshold), or
    it can move; a `once` can always move -/
theorem progress (p : OProg) (s : St) :
    (∃ v, p = .ret v) ∨ Blocked s.gates p ∨ ∃ y, Step init (p, s) y := by
  induction p with
  | ret v => exact Or.inl ⟨v, rfl⟩
  | add c k => exact Or.inr (Or.inr ⟨_, Step.add c k s⟩)
  | post g n => exact Or.inr (Or.inr ⟨_, Step.post g n s⟩)
  | once k =>
    cases hd : s.done k
    · exact Or.inr (Or.inr ⟨_, Step.onceRun k s hd⟩)
    · exact Or.inr (Or.inr ⟨_, Step.onceSkip k s hd⟩)
  | await g n =>
    by_cases hg : n ≤ s.gates g
    · exact Or.inr (Or.inr ⟨_, Step.await g n s hg⟩)
    · exact Or.inr (Or.inl (Blocked.await g n (by omega)))
  | seq a b iha ihb =>
    right
    rcases iha with ⟨v, rfl⟩ | ha | ⟨⟨a', s'⟩, h⟩
    · rcases ihb with ⟨w, rfl⟩ | hb | ⟨⟨b', s'⟩, h⟩
      · exact Or.inr ⟨_, Step.seqDone v w s⟩
      · exact Or.inl (Blocked.seqR v b hb)
      · exact Or.inr ⟨_, Step.seqR v b b' s s' h⟩
    · exact Or.inl (Blocked.seqL a b ha)
    · exact Or.inr ⟨_, Step.seqL a a' b s s' h⟩
  | fork c b _ _ => exact Or.inr (Or.inr ⟨_, Step.fork c b s⟩)
  | par c b ihc ihb =>
    right
    rcases ihc with ⟨v, rfl⟩ | hc | ⟨⟨c', s'⟩, h⟩
    · rcases ihb with ⟨w, rfl⟩ | hb | ⟨⟨b', s'⟩, h⟩
      · exact Or.inr ⟨_, Step.join v w s⟩
      · exact Or.inl (Blocked.parR v b hb)
      · exact Or.inr ⟨_, Step.parR _ b b' s s' h⟩
    · rcases ihb with ⟨w, rfl⟩ | hb | ⟨⟨b', s'⟩, h⟩
      · exact Or.inl (Blocked.parL c w hc)
      · exact Or.inl (Blocked.parLR c b hc hb)
      · exact Or.inr ⟨_, Step.parR _ b b' s s' h⟩
    · exact Or.inr ⟨_, Step.parL c c' b s s' h⟩

theorem ret_no_step (v : Int) (s : St) (y : Cfg) : ¬ Step init (.ret v, s) y := by
  intro h; cases h

/-- a blocked term is not finished -/
theorem blocked_not_ret (γ : Gates) (v : Int) : ¬ Blocked γ (.ret v) := by
  intro h; cases h

/-- conversely, a blocked term has no step -/
theorem blocked_no_step (p : OProg) (s : St) (hb : Blocked s.gates p) (y : Cfg) :
    ¬ Step init (p, s) y := by
  induction hb generalizing y with
  | await g n hlt => intro h; cases h; omega
  | seqL a b hbl ih =>
    intro h
    cases h with
    | seqL _ a' _ _ s' h1 => exact ih _ h1
    | seqR v _ b' _ s' h1 => cases hbl
    | seqDone v w => cases hbl
  | seqR v b hbl ih =>
    intro h
    cases h with
    | seqL _ a' _ _ s' h1 => exact ret_no_step _ _ _ h1
    | seqR _ _ b' _ s' h1 => exact ih _ h1
    | seqDone _ w => cases hbl
  | parLR c b hbc hbb ihc ihb =>
    intro h
    cases h with
    | parL _ c' _ _ s' h1 => exact ihc _ h1
    | parR _ _ b' _ s' h1 => exact ihb _ h1
    | join v w => cases hbc
  | parL c w hbl ih =>
    intro h
    cases h with
    | parL _ c' _ _ s' h1 => exact ih _ h1
    | parR _ _ b' _ s' h1 => exact ret_no_step _ _ _ h1
    | join v _ => cases hbl
  | parR v b hbl ih =>
    intro h
    cases h with
    | parL _ c' _ _ s' h1 => exact ret_no_step _ _ _ h1
    | parR _ _ b' _ s' h1 => exact ih _ h1
    | join _ w => cases hbl

end MythVerif.PthOnce
