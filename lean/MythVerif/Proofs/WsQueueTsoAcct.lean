import MythVerif.Proofs.WsQueueTso
/-! Accounting on the TSO machine: every inserted element is in exactly one place. -/
namespace MythVerif.WsqTso
open MythVerif.Wsq

def acctList (s : St) : List Elem := s.A ++ (s.flT.toList ++ (s.flO.toList ++ s.retd))
def Acct (s : St) : Prop := (acctList s).Perm s.ins

theorem acct_same (s s' : St) (hA : s'.A = s.A) (hO : s'.flO = s.flO) (hT : s'.flT = s.flT)
    (hr : s'.retd = s.retd) (hi : s'.ins = s.ins) (h : Acct s) : Acct s' := by
  unfold Acct acctList at *; rw [hA, hO, hT, hr, hi]; exact h

theorem acct_snoc (s s' : St) (e : Elem) (hA : s'.A = s.A ++ [e]) (hO : s'.flO = s.flO) (hT : s'.flT = s.flT)
    (hr : s'.retd = s.retd) (hi : s'.ins = e :: s.ins) (h : Acct s) : Acct s' := by
  unfold Acct acctList at *; rw [hA, hO, hT, hr, hi]
  simp only [List.append_assoc, List.singleton_append]
  exact List.perm_middle.trans (List.Perm.cons e h)

theorem acct_cons (s s' : St) (e : Elem) (hA : s'.A = e :: s.A) (hO : s'.flO = s.flO) (hT : s'.flT = s.flT)
    (hr : s'.retd = s.retd) (hi : s'.ins = e :: s.ins) (h : Acct s) : Acct s' := by
  unfold Acct acctList at *; rw [hA, hO, hT, hr, hi]
  simp only [List.cons_append]
  exact List.Perm.cons e h

theorem acct_popLP (s s' : St) (x : Elem) (hl : s.A.getLast? = some x) (hA : s'.A = s.A.dropLast)
    (hO0 : s.flO = none) (hO : s'.flO = some x) (hT : s'.flT = s.flT)
    (hr : s'.retd = s.retd) (hi : s'.ins = s.ins) (h : Acct s) : Acct s' := by
  unfold Acct acctList at *; rw [hA, hO, hT, hr, hi]
  have hAx : s.A = s.A.dropLast ++ [x] := by
    rw [List.getLast?_eq_some_iff] at hl
    obtain ⟨ys, hy⟩ := hl
    rw [hy]; simp
  rw [hAx, hO0] at h
  simp only [Option.toList, List.append_assoc, List.singleton_append, List.nil_append] at *
  refine List.Perm.trans ?_ h
  apply List.Perm.append_left
  exact List.perm_middle

theorem acct_ownerRet (s s' : St) (r : Option Elem) (hA : s'.A = s.A) (hr0 : r = s.flO) (hO : s'.flO = none)
    (hT : s'.flT = s.flT) (hr : s'.retd = retOpt s.retd r) (hi : s'.ins = s.ins) (h : Acct s) : Acct s' := by
  unfold Acct acctList at *; rw [hA, hO, hT, hr, hi]
  subst hr0
  cases hf : s.flO with
  | none => simpa [retOpt, hf] using h
  | some x => simpa [retOpt, hf] using h

theorem acct_takeLP (s s' : St) (x : Elem) (A' : List Elem) (hl : s.A = x :: A') (hA : s'.A = A')
    (hT0 : s.flT = none) (hT : s'.flT = some x) (hO : s'.flO = s.flO)
    (hr : s'.retd = s.retd) (hi : s'.ins = s.ins) (h : Acct s) : Acct s' := by
  unfold Acct acctList at *; rw [hA, hO, hT, hr, hi]
  rw [hl, hT0] at h
  simp only [Option.toList, List.nil_append, List.cons_append] at *
  exact List.perm_middle.trans h

theorem acct_thiefRet (s s' : St) (r : Option Elem) (hA : s'.A = s.A) (hr0 : r = s.flT) (hT : s'.flT = none)
    (hO : s'.flO = s.flO) (hr : s'.retd = retOpt s.retd r) (hi : s'.ins = s.ins) (h : Acct s) : Acct s' := by
  unfold Acct acctList at *; rw [hA, hO, hT, hr, hi]
  subst hr0
  cases hf : s.flT with
  | none => simpa [retOpt, hf] using h
  | some x =>
    simp only [retOpt, hf, Option.toList, List.nil_append, List.singleton_append] at *
    refine List.Perm.trans ?_ h
    apply List.Perm.append_left
    exact List.perm_middle

theorem applySto_ghost (s : St) (st : Sto) (hst : ∀ v e, st ≠ .baseI v e) :
    (applySto s st).A = s.A ∧ (applySto s st).flO = s.flO ∧ (applySto s st).flT = s.flT ∧
    (applySto s st).retd = s.retd ∧ (applySto s st).ins = s.ins := by
  cases st <;> simp [applySto] at hst ⊢

theorem length_pos_getLast? (l : List Elem) (h : 0 < l.length) : ∃ x, l.getLast? = some x := by
  cases hl : l.getLast? with
  | some x => exact ⟨x, rfl⟩
  | none => rw [List.getLast?_eq_none_iff] at hl; subst hl; simp at h

theorem thief_flT_none (s : St) (h : Inv s) (p : Pid) (hl : s.lock = .thief p) (hf : thiefFlight (s.tpc p) = false) :
    s.flT = none := by
  false_or_by_contra
  rename_i hne
  obtain ⟨q, hq, hf2⟩ := h.flTn hne
  rw [hl] at hq; cases hq
  rw [hf] at hf2; cases hf2

theorem stepO_acct (s s' : St) (h : Inv s) (ha : Acct s) (hs : stepO s = some s') : Acct s' := by
  have hcfg := h.cfg
  cases hpc : s.opc <;> simp only [stepO, hpc] at hs
  case idle => simp at hs
  case stuck => simp at hs
  case pu2 e t =>
    simp at hs; subst hs
    exact acct_snoc s _ e rfl rfl rfl rfl rfl ha
  case po2 t =>
    have hb := (h.po2 t hpc).1
    split at hs
    · split at hs
      · rename_i x hx
        simp at hs; subst hs
        exact acct_popLP s _ x hx rfl (h.flOn (by simp [hpc, ownerFlight])) rfl rfl rfl rfl ha
      · simp at hs; subst hs; exact acct_same s _ rfl rfl rfl rfl rfl ha
    · simp at hs; subst hs; exact acct_same s _ rfl rfl rfl rfl rfl ha
  case po4 t =>
    split at hs
    · split at hs
      · rename_i x hx
        simp at hs; subst hs
        exact acct_popLP s _ x hx rfl (h.flOn (by simp [hpc, ownerFlight])) rfl rfl rfl rfl ha
      · simp at hs; subst hs; exact acct_same s _ rfl rfl rfl rfl rfl ha
    · simp at hs; subst hs; exact acct_same s _ rfl rfl rfl rfl rfl ha
  case po3 t x =>
    simp at hs; subst hs
    have := h.po3 t x hpc
    refine acct_ownerRet s _ (viewPtr s.bufO s.ptr t) rfl ?_ rfl rfl rfl rfl ha
    rw [this.1, viewPtr_nil, this.2.2.2.1, this.2.2.2.2.2]
  case po6 r =>
    simp only [releaseO, hcfg, code_unlockFence, if_true] at hs
    split at hs
    · simp at hs; subst hs
      exact acct_ownerRet s _ r rfl (h.po6 r hpc).1 rfl rfl rfl rfl ha
    · simp at hs
  case po9 =>
    simp only [releaseO, hcfg, code_unlockFence, if_true] at hs
    split at hs
    · simp at hs; subst hs; exact acct_same s _ rfl rfl rfl rfl rfl ha
    · simp at hs
  case stuckL => simp at hs
  case assertFail => simp at hs
  case cl3 =>
    simp only [releaseO, hcfg, code_unlockFence, if_true] at hs
    split at hs
    · simp at hs; subst hs; exact acct_same s _ rfl rfl rfl rfl rfl ha
    · simp at hs
  case pux e t =>
    simp only [releaseO, hcfg, code_unlockFence, if_true] at hs
    split at hs
    · simp at hs; subst hs; exact acct_same s _ rfl rfl rfl rfl rfl ha
    · simp at hs
  case pt9 =>
    simp only [releaseO, hcfg, code_unlockFence, if_true] at hs
    split at hs
    · simp at hs; subst hs; exact acct_same s _ rfl rfl rfl rfl rfl ha
    · simp at hs
  all_goals (first
    | (simp at hs; subst hs; exact acct_same s _ rfl rfl rfl rfl rfl ha)
    | (split at hs <;> simp at hs <;> subst hs <;> first | exact ha | exact acct_same s _ rfl rfl rfl rfl rfl ha)
    | (split at hs <;> (try split at hs) <;> simp at hs <;> subst hs <;> first | exact ha | exact acct_same s _ rfl rfl rfl rfl rfl ha))

theorem stepT_acct (s s' : St) (p : Pid) (h : Inv s) (ha : Acct s) (hs : stepT s p = some s') : Acct s' := by
  have hcfg := h.cfg
  cases hpc : s.tpc p <;> simp only [stepT, hpc] at hs
  case idle => simp at hs
  case tk2 b =>
    split at hs
    · split at hs
      · rename_i x A' hA
        simp at hs; subst hs
        have hl := (h.lockT p).2 (by simp [hpc, thiefLocked])
        exact acct_takeLP s _ x A' hA rfl (thief_flT_none s h p hl (by simp [hpc, thiefFlight])) rfl rfl rfl rfl ha
      · simp at hs; subst hs; exact acct_same s _ rfl rfl rfl rfl rfl ha
    · simp at hs; subst hs; exact acct_same s _ rfl rfl rfl rfl rfl ha
  case tk4 r =>
    simp only [releaseT, hcfg, code_unlockFence, if_true] at hs
    split at hs
    · simp at hs; subst hs
      exact acct_thiefRet s _ r rfl (h.tk4 p r hpc) rfl rfl rfl rfl ha
    · simp at hs
  case tk6 =>
    simp only [releaseT, hcfg, code_unlockFence, if_true] at hs
    split at hs
    · simp at hs; subst hs; exact acct_same s _ rfl rfl rfl rfl rfl ha
    · simp at hs
  case tp4 ok =>
    simp only [releaseT, hcfg, code_unlockFence, if_true] at hs
    split at hs
    · simp at hs; subst hs; exact acct_same s _ rfl rfl rfl rfl rfl ha
    · simp at hs
  case wkd b r => simp at hs
  case wk4u r =>
    simp only [releaseT, hcfg, code_unlockFence, if_true] at hs
    split at hs
    · simp at hs; subst hs
      exact acct_thiefRet s _ r rfl (h.wk4u p r hpc).1 rfl rfl rfl rfl ha
    · simp at hs
  case wk6 =>
    simp only [releaseT, hcfg, code_unlockFence, if_true] at hs
    split at hs
    · simp at hs; subst hs; exact acct_same s _ rfl rfl rfl rfl rfl ha
    · simp at hs
  case vu =>
    simp only [releaseT, hcfg, code_unlockFence, if_true] at hs
    split at hs
    · simp at hs; subst hs; exact acct_same s _ rfl rfl rfl rfl rfl ha
    · simp at hs
  all_goals (first
    | (simp at hs; subst hs; exact acct_same s _ rfl rfl rfl rfl rfl ha)
    | (split at hs <;> simp at hs <;> subst hs <;> first | exact ha | exact acct_same s _ rfl rfl rfl rfl rfl ha)
    | (split at hs <;> (try split at hs) <;> simp at hs <;> subst hs <;> first | exact ha | exact acct_same s _ rfl rfl rfl rfl rfl ha))

theorem stepD_acct (s s' : St) (p : Pid) (a : Bool) (h : Inv s) (ha : Acct s) (hs : stepD s p a = some s') :
    Acct s' := by
  simp only [stepD] at hs
  split at hs
  · rename_i b r hpc
    cases a
    · simp at hs; subst hs; exact acct_same s _ rfl rfl rfl rfl rfl ha
    · simp only [if_true] at hs
      split at hs
      · rename_i x A' hA
        simp at hs; subst hs
        have hl := (h.lockT p).2 (by simp [hpc, thiefLocked])
        exact acct_takeLP s _ x A' hA rfl (thief_flT_none s h p hl (by simp [hpc, thiefFlight])) rfl rfl rfl rfl ha
      · simp at hs; subst hs; exact acct_same s _ rfl rfl rfl rfl rfl ha
  · simp at hs

theorem step_acct (s : St) (l : Lbl) (s' : St) (h : Inv s) (ha : Acct s) (hs : step s l = some s') : Acct s' := by
  cases l <;> simp only [step] at hs
  case o => exact stepO_acct s s' h ha hs
  case t p => exact stepT_acct s s' p h ha hs
  case tDecide p a => exact stepD_acct s s' p a h ha hs
  case flushO =>
    split at hs
    · rename_i st rest hb
      simp at hs; subst hs
      by_cases hst : ∃ v e, st = .baseI v e
      · obtain ⟨v, e, rfl⟩ := hst
        exact acct_cons s _ e rfl rfl rfl rfl rfl ha
      · obtain ⟨a1, a2, a3, a4, a5⟩ := applySto_ghost { s with bufO := rest } st (fun v e he => hst ⟨v, e, he⟩)
        exact acct_same s _ a1 a2 a3 a4 a5 ha
    · simp at hs
  case flushT p =>
    split at hs
    · rename_i st rest hb
      simp at hs; subst hs
      by_cases hst : ∃ v e, st = .baseI v e
      · obtain ⟨v, e, rfl⟩ := hst
        exact acct_cons s _ e rfl rfl rfl rfl rfl ha
      · obtain ⟨a1, a2, a3, a4, a5⟩ := applySto_ghost { s with bufT := upd s.bufT p rest } st (fun v e he => hst ⟨v, e, he⟩)
        exact acct_same s _ a1 a2 a3 a4 a5 ha
    · simp at hs
  all_goals (split at hs <;> simp at hs; subst hs; exact acct_same s _ rfl rfl rfl rfl rfl ha)

theorem reachable_inv_acct (n : Int) (s : St) (h : Reachable step (init FenceCfg.code n) s) : Inv s ∧ Acct s := by
  refine inv_reachable step (init FenceCfg.code n) (fun s => Inv s ∧ Acct s) ⟨init_inv n, ?_⟩ ?_ s h
  · simp [Acct, acctList, init]
  · intro s l s' ⟨hi, ha⟩ hs
    exact ⟨step_inv s l s' hi hs, step_acct s l s' hi ha hs⟩

theorem no_loss_no_dup (n : Int) (s : St) (h : Reachable step (init FenceCfg.code n) s) (hd : s.ins.Nodup) :
    s.retd.Nodup ∧ (s.A ++ (s.flT.toList ++ (s.flO.toList ++ s.retd))).Perm s.ins := by
  obtain ⟨_, ha⟩ := reachable_inv_acct n s h
  refine ⟨?_, ha⟩
  have := ha.nodup_iff.2 hd
  unfold acctList at this
  have h1 := (List.nodup_append.1 this).2.1
  have h2 := (List.nodup_append.1 h1).2.1
  exact (List.nodup_append.1 h2).2.1

/-- quiescent and drained: memory holds exactly the abstract deque in `[base, top)` -/
theorem quiescent_mem (s : St) (h : Inv s) (ho : s.opc = .idle) (ht : ∀ p, s.tpc p = .idle) (hb : s.bufO = []) :
    s.flO = none ∧ s.flT = none ∧ s.lock = .free ∧ s.base = s.lb ∧ s.top = s.lt ∧
    (∀ k : Nat, k < s.A.length → s.ptr (s.base + k) = s.A[k]?) ∧ (s.A.length : Int) = s.top - s.base := by
  have h1 : s.flO = none := h.flOn (by simp [ho, ownerFlight])
  have h2 : s.flT = none := by
    false_or_by_contra
    rename_i hne
    obtain ⟨q, _, hf⟩ := h.flTn hne
    rw [ht q] at hf; simp [thiefFlight] at hf
  have h3 : s.tr = false := by
    cases htr : s.tr with
    | false => rfl
    | true =>
      obtain ⟨q, hq⟩ := h.trn htr
      have := (h.lockT q).1 hq
      rw [ht q] at this; simp [thiefLocked] at this
  have h4 : s.lock = .free := by
    cases hl : s.lock with
    | free => rfl
    | owner => have := h.lockO.1 hl; rw [ho] at this; simp [ownerLocked] at this
    | thief q => have := (h.lockT q).1 hl; rw [ht q] at this; simp [thiefLocked] at this
  have h5 := h.lbase (by simp [ho, resetting])
  simp [h3] at h5
  have hc := h.carryC (by simp [ho, carry])
  have h6 : s.top = s.lt := by
    rcases hc with ⟨_, h⟩ | ⟨h, _⟩ | ⟨e, h, _⟩
    · exact h
    · rw [hb] at h; cases h
    · rw [hb] at h; cases h
  refine ⟨h1, h2, h4, h5, h6, ?_, ?_⟩
  · intro k hk
    rw [h5]
    exact h.mwin k hk (by have := h.len; omega)
  · have := h.len; omega

theorem owner_not_resetting (s : St) (h : Inv s) (p : Pid) (hl : s.lock = .thief p) : resetting s.opc = false :=
  thief_not_resetting s h p hl

/-- the fall-back branches of the three linearization points (taken when the ghost deque is empty)
    are unreachable: whenever the concrete test succeeds the abstract deque is non-empty -/
theorem ghost_branches_unreachable (s : St) (h : Inv s) :
    (∀ t, s.opc = .po2 t → viewBase s.bufO s.base + 1 < t → s.A.getLast? ≠ none) ∧
    (∀ t, s.opc = .po4 t → viewBase s.bufO s.base ≤ t → s.A.getLast? ≠ none) ∧
    (∀ p b, s.tpc p = .tk2 b → b < viewTop (s.bufT p) s.top → s.A ≠ []) ∧
    (∀ p b r, s.tpc p = .wkd b r → s.A ≠ []) := by
  have hlen := h.len
  refine ⟨?_, ?_, ?_, fun p b r hpc => (h.wkd p b r hpc).2.2.1⟩
  · intro t hpc hlt
    have e := h.po2 t hpc
    have e2 := h.lbase (by simp [hpc, resetting])
    rw [e.1, viewBase_nil] at hlt
    obtain ⟨x, hx⟩ := length_pos_getLast? s.A (by split at e2 <;> omega)
    simp [hx]
  · intro t hpc hlt
    have e := h.po4 t hpc
    have e2 := h.lbase (by simp [hpc, resetting])
    rw [e.1, viewBase_nil] at hlt
    obtain ⟨x, hx⟩ := length_pos_getLast? s.A (by split at e2 <;> omega)
    simp [hx]
  · intro p b hpc hlt hA
    have hb := h.tbufE p (by simp [hpc, mayBuf])
    rw [hb, viewTop_nil] at hlt
    have hl := (h.lockT p).2 (by simp [hpc, thiefLocked])
    have e1 := h.mtop (owner_not_resetting s h p hl)
    have e2 := h.tk2 p b hpc
    rw [hA] at hlen; simp at hlen
    omega

/-- a pending inserting `base` store of the owner belongs to put just before its unlock, targets the
    slot below the logical base as the owner sees it (`lb + sh`: `sh ≠ 0` only while the shift entry
    of a re-centring is still buffered in front of it), and the slot store it is ordered after
    (FIFO) carries the same element: when it drains, the slot it exposes holds the element inserted -/
theorem owner_baseI (s : St) (h : Inv s) (v : Int) (e : Elem) (hm : Sto.baseI v e ∈ s.bufO) :
    s.opc = .pt9 ∧ s.lock = .owner ∧ v = s.lb + s.sh - 1 ∧ viewPtr s.bufO s.ptr v = some e := by
  cases hpc : s.opc
  case pt9 =>
    have hl := h.lockO.2 (by simp [hpc, ownerLocked])
    rcases h.pt9 hpc with ⟨e', hp⟩ | ⟨hsh, _, _, hI⟩
    · rcases hp with h1 | ⟨h1, h2⟩ | ⟨h1, h2, h3⟩
      all_goals (rw [h1] at hm ⊢; simp at hm; obtain ⟨rfl, rfl⟩ := hm; simp [viewPtr, hl])
    · rw [hsh]; simp only [Int.add_zero]
      rcases hI with ⟨e', h1⟩ | ⟨e', h1, h2⟩ | h1
      · rw [h1] at hm ⊢; simp at hm; obtain ⟨rfl, rfl⟩ := hm; simp [viewPtr, hl]
      · rw [h1] at hm ⊢; simp at hm; obtain ⟨rfl, rfl⟩ := hm; simp [viewPtr, hl, h2]
      · rw [h1] at hm; simp at hm
  all_goals tso_absurd_core h hpc

/-- the same for a passer: its pending inserting `base` store belongs to trypass just before its unlock -/
theorem thief_baseI (s : St) (h : Inv s) (p : Pid) (v : Int) (e : Elem) (hm : Sto.baseI v e ∈ s.bufT p) :
    (∃ ok, s.tpc p = .tp4 ok) ∧ s.lock = .thief p ∧ v = s.lb - 1 ∧ viewPtr (s.bufT p) s.ptr v = some e := by
  cases hb : s.bufT p with
  | nil => rw [hb] at hm; simp at hm
  | cons st rest =>
    obtain ⟨hl, hcase⟩ := thief_buf_shape s h p st rest hb
    rw [hb] at hm
    rcases hcase with ⟨b, _, rfl, rfl, _⟩ | ⟨_, rfl, rfl, _⟩ | ⟨e', _, rfl, rfl⟩ |
      ⟨e', ok, hpc, rfl, rfl⟩ | ⟨e', ok, hpc, rfl, rfl, hp⟩ | ⟨x, rfl, hc⟩
    · simp at hm
    · simp at hm
    · simp at hm
    · simp at hm; obtain ⟨rfl, rfl⟩ := hm; exact ⟨⟨ok, hpc⟩, hl, rfl, by simp [viewPtr]⟩
    · simp at hm; obtain ⟨rfl, rfl⟩ := hm; exact ⟨⟨ok, hpc⟩, hl, rfl, by simp [viewPtr, hp]⟩
    · rcases hc with ⟨r, _, rfl⟩ | ⟨b, _, rfl⟩ | ⟨_, rfl, _⟩ <;> simp at hm

/-- the overflow tests of put and trypass (`base == 0`) read the logical base -/
theorem base_tests_logical (s : St) (h : Inv s) :
    (∀ e, s.opc = .pt1 e → viewBase s.bufO s.base = s.lb) ∧
    (∀ p e, s.tpc p = .tp1 e → viewBase (s.bufT p) s.base = s.lb) := by
  refine ⟨?_, ?_⟩
  · intro e hpc
    have hl := h.lockO.2 (by simp [hpc, ownerLocked])
    have htr : s.tr = false := by
      cases ht : s.tr with
      | false => rfl
      | true => obtain ⟨q, hq⟩ := h.trn ht; rw [hl] at hq; cases hq
    have := h.lbase (by simp [hpc, resetting])
    rw [(h.pt1 e hpc).1, viewBase_nil, this]; simp [htr]
  · intro p e hpc
    have hl := (h.lockT p).2 (by simp [hpc, thiefLocked])
    have htr := h.trF p hl (by simp [hpc, notTrans])
    have := h.lbase (thief_not_resetting s h p hl)
    rw [h.tbufE p (by simp [hpc, mayBuf]), viewBase_nil, this]; simp [htr]

/-- the two `abort()`s ("Runqueue overflow") are reached only on a full deque, holding the lock with
    an empty buffer -/
theorem stuck_only_when_full (s : St) (h : Inv s) (hpc : s.opc = .stuck ∨ s.opc = .stuckL) :
    (s.A.length : Int) = s.size ∧ s.lb = 0 ∧ s.lt = s.size ∧ s.top = s.size ∧ s.base = 0 ∧
    s.lock = .owner ∧ s.bufO = [] := by
  have hlen := h.len
  have htr : s.lock = .owner → s.tr = false := by
    intro hl
    cases ht : s.tr with
    | false => rfl
    | true => obtain ⟨q, hq⟩ := h.trn ht; rw [hl] at hq; cases hq
  rcases hpc with hpc | hpc
  · obtain ⟨h1, h2, h3, h4⟩ := h.stuck hpc
    have hl := h.lockO.2 (by simp [hpc, ownerLocked])
    have hb := h.lbase (by simp [hpc, resetting])
    simp [htr hl] at hb
    exact ⟨by omega, h4, h3, by omega, by omega, hl, h1⟩
  · obtain ⟨h1, h2, h3, h4⟩ := h.stuckL hpc
    have hl := h.lockO.2 (by simp [hpc, ownerLocked])
    have hb := h.lbase (by simp [hpc, resetting])
    simp [htr hl] at hb
    exact ⟨by omega, h3, h4, by omega, by omega, hl, h1⟩

/-- the overflow tests of the two re-centring paths read the logical values: push's `base == 0` at
    logical top `size`, put's `top == size` at logical base 0 -/
theorem overflow_tests_logical (s : St) (h : Inv s) :
    (∀ e, s.opc = .pub e → viewBase s.bufO s.base = s.lb ∧ s.lt = s.size) ∧
    (∀ e, s.opc = .pt2 e → viewTop s.bufO s.top = s.lt ∧ s.lb = 0) := by
  refine ⟨?_, ?_⟩
  · intro e hpc
    obtain ⟨h1, h2, h3⟩ := h.pub e hpc
    have hl := h.lockO.2 (by simp [hpc, ownerLocked])
    have htr : s.tr = false := by
      cases ht : s.tr with
      | false => rfl
      | true => obtain ⟨q, hq⟩ := h.trn ht; rw [hl] at hq; cases hq
    have := h.lbase (by simp [hpc, resetting])
    rw [h1, viewBase_nil, this]; simp [htr, h3]
  · intro e hpc
    obtain ⟨h1, h2, h3⟩ := h.pt2 e hpc
    rw [h1, viewTop_nil]; exact ⟨h2, h3⟩

/-- clear's assertion `top == base` holds exactly when the deque is empty (it reads the logical values) -/
theorem cl1_assert_iff (s : St) (h : Inv s) (hpc : s.opc = .cl1) :
    (viewTop s.bufO s.top = viewBase s.bufO s.base ↔ s.A = []) ∧
    viewTop s.bufO s.top = s.lt ∧ viewBase s.bufO s.base = s.lb := by
  obtain ⟨h1, h2⟩ := h.cl1 hpc
  have hl := h.lockO.2 (by simp [hpc, ownerLocked])
  have htr : s.tr = false := by
    cases ht : s.tr with
    | false => rfl
    | true => obtain ⟨q, hq⟩ := h.trn ht; rw [hl] at hq; cases hq
  have hb := h.lbase (by simp [hpc, resetting])
  simp [htr] at hb
  have hlen := h.len
  rw [h1, viewTop_nil, viewBase_nil]
  refine ⟨⟨fun he => ?_, fun hA => ?_⟩, h2, hb⟩
  · have : s.A.length = 0 := by omega
    exact List.eq_nil_of_length_eq_zero this
  · rw [hA] at hlen; simp at hlen; omega

/-- **a declined steal leaves the candidate available** (TSO analogue of `decline_spec`): while the
    decision callback of `myth_wsapi_runqueue_take` is asked, the candidate is the head of the deque;
    if it declines, then after the roll-back store of `base`, its drain and the unlock, the deque,
    the slots, `top`, and the returned / inserted lists are exactly as before, `base` is back at the
    logical base, the lock is free and the participant's buffer is empty -/
theorem decline_spec (s : St) (h : Inv s) (p : Pid) (b : Int) (r : Option Elem) (hpc : s.tpc p = .wkd b r) :
    r = s.A.head? ∧ s.A ≠ [] ∧
    ∃ s1 s2 s3 s4, step s (.tDecide p false) = some s1 ∧ step s1 (.t p) = some s2 ∧
      step s2 (.flushT p) = some s3 ∧ step s3 (.t p) = some s4 ∧
      s4.A = s.A ∧ s4.retd = s.retd ∧ s4.ins = s.ins ∧ s4.ptr = s.ptr ∧ s4.top = s.top ∧
      s4.base = s4.lb ∧ s4.lb = s.lb ∧ s4.lock = .free ∧ s4.tpc p = .idle ∧ s4.bufT p = [] := by
  obtain ⟨hlb, htr, hne, hr, _⟩ := h.wkd p b r hpc
  have hbuf := h.tbufE p (by simp [hpc, mayBuf])
  have hcfg := h.cfg
  refine ⟨hr, hne, ?_⟩
  let s1 : St := { s with tpc := upd s.tpc p (.wk5 b) }
  let s2 : St := { s1 with bufT := upd s1.bufT p [.base b], tpc := upd s1.tpc p .wk6 }
  let s3 : St := { s2 with bufT := upd s2.bufT p [], base := b, tr := decide (b = s.lb + 1) }
  let s4 : St := { s3 with lock := .free, tpc := upd s3.tpc p .idle }
  refine ⟨s1, s2, s3, s4, ?_, ?_, ?_, ?_, ?_⟩
  · simp [step, stepD, hpc, s1]
  · simp [step, stepT, s1, s2, hbuf]
  · simp [step, s2, s1, applySto, s3]
  · simp [step, stepT, s3, s2, s1, releaseT, hcfg, s4]
  · simp [s1, s2, s3, s4, hlb]

end MythVerif.WsqTso
