import MythVerif.Proofs.WsQueueTac
/-! Per-program-counter preservation lemmas of the work-stealing queue invariant (generated list, uniform script). -/
namespace MythVerif.Wsq

set_option maxHeartbeats 1000000 in
theorem t_vk4 (s s' : St) (p : Pid) (b r) : Inv s → s.tpc p = .vk4 b r → stepT s p = some s' → Inv s' := by wsq_tstep

set_option maxHeartbeats 1000000 in
theorem t_vk5 (s s' : St) (p : Pid) (b) : Inv s → s.tpc p = .vk5 b → stepT s p = some s' → Inv s' := by wsq_tstep

set_option maxHeartbeats 1000000 in
theorem t_vu (s s' : St) (p : Pid) : Inv s → s.tpc p = .vu → stepT s p = some s' → Inv s' := by wsq_tstep

set_option maxHeartbeats 1000000 in
theorem t_vr (s s' : St) (p : Pid) : Inv s → s.tpc p = .vr → stepT s p = some s' → Inv s' := by wsq_tstep

end MythVerif.Wsq
