import MythVerif.Proofs.PiDagReplay
/-! What the executable checker `wellFormed` establishes, in the form the traversal proof uses. -/
namespace MythVerif.PiDag

theorem setIfInBounds_get! {α} [Inhabited α] (a : Array α) (i j : Nat) (x : α) :
    (a.setIfInBounds i x)[j]! = if i = j ∧ i < a.size then x else a[j]! := by
  by_cases hj : j < a.size
  · simp only [getElem!_pos, hj, Array.size_setIfInBounds, Array.getElem_setIfInBounds]
    by_cases h : i = j
    · subst h; simp [hj]
    · simp [h]
  · have h1 : (a.setIfInBounds i x)[j]! = default := by apply getElem!_neg; simpa using hj
    have h2 : a[j]! = default := by apply getElem!_neg; exact hj
    rw [h1, h2]
    split
    · rename_i h; omega
    · rfl

theorem positionsFrom_some : ∀ (l : List Nat) (k : Nat) (p : Array (Option Nat)) (i : Nat),
    ((positionsFrom k l p)[i]!).isSome = true → (p[i]!).isSome = true ∨ i ∈ l := by
  intro l
  induction l with
  | nil => intro k p i h; left; simpa [positionsFrom] using h
  | cons u r ih =>
    intro k p i h
    simp only [positionsFrom] at h
    rcases ih (k + 1) _ i h with h' | h'
    · rw [setIfInBounds_get!] at h'
      split at h'
      · rename_i hh; right; simp [hh.1]
      · left; exact h'
    · right; simp [h']

theorem positions_some (n : Nat) (ord : List Nat) (i : Nat)
    (h : ((positions n ord)[i]!).isSome = true) : i ∈ ord := by
  rcases positionsFrom_some ord 0 (Array.replicate n none) i h with h' | h'
  · exfalso
    by_cases hi : i < n
    · simp [hi] at h'
    · have : (Array.replicate n (none : Option Nat))[i]! = default := by apply getElem!_neg; simpa using hi
      rw [this] at h'; cases h'
  · exact h'

/-! #### in-degrees through folds -/

theorem foldl_modify_size (L : List PEdge) : ∀ (a : Array Nat),
    (L.foldl (fun rc e => rc.modify e.v (· + 1)) a).size = a.size := by
  induction L with
  | nil => intro a; rfl
  | cons e r ih => intro a; simp only [List.foldl_cons, ih, Array.size_modify]

theorem foldl_modify_get (L : List PEdge) : ∀ (a : Array Nat) (v : Nat), v < a.size →
    (L.foldl (fun rc e => rc.modify e.v (· + 1)) a)[v]! = a[v]! + cntV L v := by
  induction L with
  | nil => intro a v _; simp [cntV]
  | cons e r ih =>
    intro a v hv
    simp only [List.foldl_cons]
    rw [ih _ v (by simpa using hv), modify_get!, cntV_cons]
    by_cases h : e.v = v
    · subst h; simp [hv]; omega
    · simp [h]

theorem indegrees_size (G : PiDag) : (indegrees G).size = G.T.size := by
  unfold indegrees
  rw [← Array.foldl_toList, foldl_modify_size]; simp

theorem sliceFold_size (G : PiDag) (k : Nat) : ∀ (a : Array Nat),
    ((List.range k).foldl (fun rc u => (outEdges G u).foldl (fun rc e => rc.modify e.v (· + 1)) rc) a).size = a.size := by
  induction k with
  | zero => intro a; rfl
  | succ k ih =>
    intro a
    rw [List.range_succ, List.foldl_append]
    simp only [List.foldl_cons, List.foldl_nil, foldl_modify_size, ih]

theorem sliceFold_get (G : PiDag) (k : Nat) : ∀ (a : Array Nat) (v : Nat), v < a.size →
    ((List.range k).foldl (fun rc u => (outEdges G u).foldl (fun rc e => rc.modify e.v (· + 1)) rc) a)[v]!
      = a[v]! + rsum k (fun u => cntV (outEdges G u) v) := by
  induction k with
  | zero => intro a v _; simp [rsum]
  | succ k ih =>
    intro a v hv
    rw [List.range_succ, List.foldl_append]
    simp only [List.foldl_cons, List.foldl_nil]
    rw [foldl_modify_get _ _ v (by rw [sliceFold_size]; exact hv), ih a v hv, rsum_succ]
    omega

theorem sliceDegrees_get (G : PiDag) (v : Nat) (hv : v < G.T.size) :
    (sliceDegrees G)[v]! = rsum G.T.size (fun u => cntV (outEdges G u) v) := by
  unfold sliceDegrees
  rw [sliceFold_get G _ _ v (by simpa using hv), replicate_get!]; omega

/-! #### unpacking the checker -/

theorem checkOrder_facts (G : PiDag) (ord : List Nat) (pos : Array (Option Nat)) (indeg : Array Nat) (fl : Nat)
    (h : checkOrder G ord pos indeg fl = true) :
    ord.head? = some fl ∧
    (∀ u ∈ ord, u < G.T.size ∧ isLeaf G.T[u]! = true) ∧
    (∀ i, i < G.T.size →
      if isLeaf G.T[i]! = true then (pos[i]!).isSome = true ∧ (if i = fl then indeg[i]! = 0 else 0 < indeg[i]!)
      else indeg[i]! = 0) ∧
    (∀ u, u < G.T.size → ∀ e ∈ outEdges G u, ∃ a b, pos[u]! = some a ∧ pos[e.v]! = some b ∧ a < b) := by
  unfold checkOrder at h
  simp only at h
  split at h; · cases h
  rename_i h1
  split at h; · cases h
  rename_i h2
  split at h; · cases h
  split at h; · cases h
  rename_i h4
  refine ⟨by simpa using h1, ?_, ?_, ?_⟩
  · intro u hu
    simp at h2
    exact h2 u hu
  · intro i hi
    simp at h4
    exact h4 i hi
  · intro u hu e he
    have := List.all_eq_true.mp h u (by simpa using hu)
    have := List.all_eq_true.mp this e he
    split at this
    · rename_i a b ha hb; exact ⟨a, b, ha, hb, by simpa using this⟩
    · cases this

theorem arrEqUpTo_get (n : Nat) (a b : Array Nat) (h : arrEqUpTo n a b = true) (v : Nat) (hv : v < n) :
    a[v]! = b[v]! := by
  unfold arrEqUpTo at h
  have := List.all_eq_true.mp h v (by simpa using hv)
  simpa using this

/-- the rank function the checker computes -/
def rankOf (G : PiDag) (i : Nat) : Option Nat := (positions G.T.size (eliminate G))[i]!

/-- **a DAG the checker accepts is certified** -/
theorem cert_of_wf (G : PiDag) (h : wellFormed G = true) : Cert G (rankOf G) := by
  unfold wellFormed wfReport at h
  simp only [Bool.and_eq_true] at h
  obtain ⟨⟨_, hdeg⟩, hcert⟩ := h
  unfold wfCertificate at hcert
  obtain ⟨c1, c2, c4, c5⟩ := checkOrder_facts G _ _ _ _ hcert
  have hflmem : firstLeaf G ∈ eliminate G := by
    cases hl : eliminate G with
    | nil => rw [hl] at c1; simp at c1
    | cons a r => rw [hl] at c1; simp at c1; simp [c1]
  have hfl := c2 _ hflmem
  have c4fl := c4 _ hfl.1
  rw [hfl.2] at c4fl
  simp only [if_true] at c4fl
  exact {
    fl_lt := hfl.1
    fl_leaf := hfl.2
    ranked_leaf := fun i hi => c2 i (positions_some _ _ i hi)
    leaf_ranked := fun i hi hl => by have := c4 i hi; rw [hl] at this; exact this.1
    indeg_fl := c4fl.2
    indeg_leaf := fun i hi hl hne => by
      have := c4 i hi; rw [hl] at this; simp only [if_true, hne, if_false] at this; exact this.2
    indeg_inner := fun i hi hl => by have := c4 i hi; rw [hl] at this; simpa using this
    forward := fun u hu e he => c5 u hu e he
    degrees := fun v hv => by
      rw [← arrEqUpTo_get _ _ _ hdeg v hv, sliceDegrees_get G v hv]
    indeg_size := indegrees_size G }

end MythVerif.PiDag
