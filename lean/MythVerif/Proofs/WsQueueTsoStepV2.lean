import MythVerif.Proofs.WsQueueTsoTac
/-! Preservation lemmas of the TSO invariant (wsapi peek: base increment, fence, comparison, slot read). -/
namespace MythVerif.WsqTso
open MythVerif.Wsq

set_option maxHeartbeats 4000000 in
theorem t_vk1 (s s' : St) (p : Pid) : Inv s → s.tpc p = .vk1 → stepT s p = some s' → Inv s' := by
  intro h heq hs
  have hb := h.tbufE p (by simp [heq, mayBuf])
  cases h
  simp only [stepT, heq, hb, viewBase_nil] at hs
  simp at hs; subst hs
  simp only [ownerLocked, carry, resetting, ownerFlight] at *
  tso_finish

set_option maxHeartbeats 4000000 in
theorem t_vkf (s s' : St) (p : Pid) (b) : Inv s → s.tpc p = .vkf b → stepT s p = some s' → Inv s' := by
  intro h heq hs
  have hcfg := h.cfg
  cases h
  simp only [stepT, heq, fenceOk, hcfg, code_wpeekFence] at hs
  split at hs
  · rename_i hb
    simp at hb
    simp at hs; subst hs
    simp only [ownerLocked, carry, resetting, ownerFlight] at *
    tso_finish
  · simp at hs

set_option maxHeartbeats 4000000 in
theorem t_vk2 (s s' : St) (p : Pid) (b) : Inv s → s.tpc p = .vk2 b → stepT s p = some s' → Inv s' := by
  intro h heq hs
  have hb := h.tbufE p (by simp [heq, mayBuf])
  cases h
  simp only [stepT, heq, hb, viewTop_nil] at hs
  split at hs
  all_goals (simp at hs; subst hs)
  all_goals simp only [ownerLocked, carry, resetting, ownerFlight] at *
  all_goals tso_finish

set_option maxHeartbeats 4000000 in
theorem t_vk3 (s s' : St) (p : Pid) (b) : Inv s → s.tpc p = .vk3 b → stepT s p = some s' → Inv s' := by
  intro h heq hs
  have hb := h.tbufE p (by simp [heq, mayBuf])
  cases h
  simp only [stepT, heq, hb, viewPtr_nil] at hs
  simp at hs; subst hs
  simp only [ownerLocked, carry, resetting, ownerFlight] at *
  tso_finish

end MythVerif.WsqTso
