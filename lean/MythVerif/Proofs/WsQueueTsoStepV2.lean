import MythVerif.Proofs.WsQueueTsoTac
/-! Preservation lemmas of the TSO invariant (wsapi peek: base increment, fence, comparison, slot read). -/
namespace MythVerif.WsqTso
open MythVerif.Wsq

theorem t_vk1 (s s' : St) (p : Pid) : Inv s → s.tpc p = .vk1 → stepT s p = some s' → Inv s' := by
  intro h heq hs
  have hb := h.tbufE p (by simp [heq, mayBuf])
  simp only [stepT, heq, hb, viewBase_nil] at hs
  simp at hs; subst hs
  tso_fastT h p []

theorem t_vkf (s s' : St) (p : Pid) (b) : Inv s → s.tpc p = .vkf b → stepT s p = some s' → Inv s' := by
  intro h heq hs
  have hcfg := h.cfg
  simp only [stepT, heq, fenceOk, hcfg, code_wpeekFence] at hs
  split at hs
  · rename_i hb
    simp at hb
    simp at hs; subst hs
    tso_fastT h p [vkf]
  · simp at hs

theorem t_vk2 (s s' : St) (p : Pid) (b) : Inv s → s.tpc p = .vk2 b → stepT s p = some s' → Inv s' := by
  intro h heq hs
  have hb := h.tbufE p (by simp [heq, mayBuf])
  simp only [stepT, heq, hb, viewTop_nil] at hs
  split at hs
  all_goals (simp at hs; subst hs)
  all_goals tso_fastT h p [vk2]

theorem t_vk3 (s s' : St) (p : Pid) (b) : Inv s → s.tpc p = .vk3 b → stepT s p = some s' → Inv s' := by
  intro h heq hs
  have hb := h.tbufE p (by simp [heq, mayBuf])
  simp only [stepT, heq, hb, viewPtr_nil] at hs
  simp at hs; subst hs
  tso_fastT h p [vk3]

end MythVerif.WsqTso
