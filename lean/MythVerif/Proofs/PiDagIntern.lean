import MythVerif.Model.PiDag
/-! String table: `dr_string_table_intern`. -/
namespace MythVerif.PiDag

theorem intern_cases (st : List Nat) (f : Nat) :
    (f ∈ st ∧ intern st f = (st, st.idxOf f)) ∨ (f ∉ st ∧ intern st f = (st ++ [f], st.length)) := by
  unfold intern
  by_cases h : f ∈ st
  · left
    have := List.idxOf_lt_length_of_mem h
    refine ⟨h, ?_⟩
    simp only [Prod.mk.injEq, and_true]
    rw [if_neg (by omega)]
  · right
    have := List.idxOf_eq_length h
    exact ⟨h, by simp [this]⟩

theorem intern_nodup (st : List Nat) (f : Nat) (h : st.Nodup) : (intern st f).1.Nodup := by
  rcases intern_cases st f with ⟨_, e⟩ | ⟨hn, e⟩ <;> rw [e]
  · exact h
  · simp only [List.nodup_append, List.nodup_cons, List.not_mem_nil, not_false_eq_true, List.nodup_nil,
      and_self, List.mem_cons, or_false, true_and]
    exact ⟨h, fun a ha b hb => by subst hb; exact fun e => hn (e ▸ ha)⟩

theorem intern_prefix (st : List Nat) (f : Nat) : ∃ r, (intern st f).1 = st ++ r := by
  rcases intern_cases st f with ⟨_, e⟩ | ⟨_, e⟩ <;> rw [e]
  · exact ⟨[], by simp⟩
  · exact ⟨[f], rfl⟩

/-- the index returned names `f` in the new table -/
theorem intern_get (st : List Nat) (f : Nat) : (intern st f).1[(intern st f).2]? = some f := by
  rcases intern_cases st f with ⟨hm, e⟩ | ⟨_, e⟩ <;> rw [e]
  · have hl := List.idxOf_lt_length_of_mem hm
    simp only
    rw [List.getElem?_eq_getElem hl, List.getElem_idxOf hl]
  · simp

theorem internAll_spec (names : List Nat) : ∀ (st : List Nat), st.Nodup →
    (internAll st names).1.Nodup ∧ (∃ r, (internAll st names).1 = st ++ r) ∧
    (internAll st names).2.length = names.length ∧
    ∀ k (hk : k < names.length), (internAll st names).1[((internAll st names).2)[k]!]? = some names[k] := by
  induction names with
  | nil => intro st h; exact ⟨h, ⟨[], by simp [internAll]⟩, rfl, fun k hk => absurd hk (by simp)⟩
  | cons f fs ih =>
    intro st h
    have h1 := intern_nodup st f h
    obtain ⟨r1, e1⟩ := intern_prefix st f
    obtain ⟨g1, ⟨r2, e2⟩, g3, g4⟩ := ih (intern st f).1 h1
    simp only [internAll]
    refine ⟨g1, ⟨r1 ++ r2, by rw [e2, e1, List.append_assoc]⟩, by simp [g3], ?_⟩
    intro k hk
    cases k with
    | zero =>
      simp only [List.getElem!_cons_zero, List.getElem_cons_zero]
      have := intern_get st f
      rw [e2]
      rw [List.getElem?_append_left]
      · exact this
      · have : ((intern st f).1)[(intern st f).2]? ≠ none := by rw [this]; simp
        exact (List.getElem?_eq_some_iff.mp (Option.ne_none_iff_exists'.mp this).choose_spec).1
    | succ k =>
      simp only [List.length_cons] at hk
      simpa using g4 k (by omega)
