import MythVerif.Proofs.WsQueueTac
/-! Per-program-counter preservation lemmas of the work-stealing queue invariant (generated list, uniform script). -/
namespace MythVerif.Wsq

set_option maxHeartbeats 1000000 in
theorem t_pk2 (s s' : St) (p : Pid) (b) : Inv s → s.tpc p = .pk2 b → stepT s p = some s' → Inv s' := by wsq_tstep

set_option maxHeartbeats 1000000 in
theorem t_pk3 (s s' : St) (p : Pid) (b) : Inv s → s.tpc p = .pk3 b → stepT s p = some s' → Inv s' := by wsq_tstep

set_option maxHeartbeats 1000000 in
theorem t_vq0 (s s' : St) (p : Pid) : Inv s → s.tpc p = .vq0 → stepT s p = some s' → Inv s' := by wsq_tstep

set_option maxHeartbeats 1000000 in
theorem t_vq1 (s s' : St) (p : Pid) (t) : Inv s → s.tpc p = .vq1 t → stepT s p = some s' → Inv s' := by wsq_tstep

set_option maxHeartbeats 1000000 in
theorem t_vc0 (s s' : St) (p : Pid) : Inv s → s.tpc p = .vc0 → stepT s p = some s' → Inv s' := by wsq_tstep

end MythVerif.Wsq
