import MythVerif.Proofs.WsQueueTac
/-! Per-program-counter preservation lemmas of the work-stealing queue invariant (generated list, uniform script). -/
namespace MythVerif.Wsq

set_option maxHeartbeats 1000000 in
theorem t_tq0 (s s' : St) (p : Pid) : Inv s → s.tpc p = .tq0 → stepT s p = some s' → Inv s' := by wsq_tstep

set_option maxHeartbeats 1000000 in
theorem t_tq1 (s s' : St) (p : Pid) (t) : Inv s → s.tpc p = .tq1 t → stepT s p = some s' → Inv s' := by wsq_tstep

set_option maxHeartbeats 1000000 in
theorem t_tkl (s s' : St) (p : Pid) : Inv s → s.tpc p = .tkl → stepT s p = some s' → Inv s' := by wsq_tstep

set_option maxHeartbeats 1000000 in
theorem t_tk1 (s s' : St) (p : Pid) : Inv s → s.tpc p = .tk1 → stepT s p = some s' → Inv s' := by wsq_tstep

set_option maxHeartbeats 1000000 in
theorem t_tk3 (s s' : St) (p : Pid) (b x) : Inv s → s.tpc p = .tk3 b x → stepT s p = some s' → Inv s' := by wsq_tstep

end MythVerif.Wsq
