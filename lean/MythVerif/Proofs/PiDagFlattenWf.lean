import MythVerif.Proofs.PiDagSlots
/-! Every DAG `dr_make_pi_dag` produces from a recorded in-memory DAG passes the `offsets` check of
the well-formedness checker. -/
namespace MythVerif.PiDag
open MythVerif.DagRec

/-! ### the cover counters -/

/-- one step of the fold of `wfOffsets` -/
def coverStep (T : Array PNode) (c : Array Nat) (i : Nat) : Array Nat :=
  let x := T[i]!
  if x.info.c.kind == .createTask then c.modify (i + x.a) (· + 1)
  else if isGroupK x.info.c.kind then (List.range (x.b - x.a)).foldl (fun c k => c.modify (i + x.a + k) (· + 1)) c
  else c

def coverArr (T : Array PNode) : Array Nat :=
  (List.range T.size).foldl (coverStep T) (Array.replicate T.size 0)

/-- the local part of `wfOffsets` -/
def offLocal (T : Array PNode) (i : Nat) : Bool :=
  let x := T[i]!
  if x.info.c.kind == .createTask then 0 < x.a && i + x.a < T.size && T[i + x.a]!.info.c.kind == .task
  else if isGroupK x.info.c.kind then x.a == x.b || (0 < x.a && x.a < x.b && i + x.b ≤ T.size)
  else true

theorem wfOffsets_eq (G : PiDag) :
    wfOffsets G = (decide (G.T.size > 0) &&
      (List.range G.T.size).all (fun i => offLocal G.T i && (coverArr G.T)[i]! == (if i = 0 then 0 else 1))) := rfl

/-- is `j` a child slot of `i` -/
def ind (T : Array PNode) (i j : Nat) : Nat :=
  let x := T[i]!
  if x.info.c.kind == .createTask then (if i + x.a = j then 1 else 0)
  else if isGroupK x.info.c.kind then (if i + x.a ≤ j ∧ j < i + x.a + (x.b - x.a) then 1 else 0)
  else 0

theorem rangeMod_spec (lo : Nat) : ∀ (m : Nat) (c : Array Nat),
    ((List.range m).foldl (fun c k => c.modify (lo + k) (· + 1)) c).size = c.size ∧
    ∀ j, j < c.size → ((List.range m).foldl (fun c k => c.modify (lo + k) (· + 1)) c)[j]! =
      c[j]! + (if lo ≤ j ∧ j < lo + m then 1 else 0) := by
  intro m
  induction m with
  | zero => intro c; exact ⟨rfl, fun j _ => by simp⟩
  | succ m ih =>
    intro c
    rw [List.range_succ, List.foldl_append]
    simp only [List.foldl_cons, List.foldl_nil, Array.size_modify]
    refine ⟨(ih c).1, fun j hj => ?_⟩
    rw [modify_get!, (ih c).1, (ih c).2 j hj]
    by_cases h1 : lo + m = j
    · subst h1; simp [hj]
    · simp only [h1, false_and, if_false]
      by_cases h2 : lo ≤ j ∧ j < lo + m
      · rw [if_pos h2, if_pos (by omega)]
      · rw [if_neg h2, if_neg (by omega)]

theorem coverStep_spec (T : Array PNode) (c : Array Nat) (i : Nat) :
    (coverStep T c i).size = c.size ∧ ∀ j, j < c.size → (coverStep T c i)[j]! = c[j]! + ind T i j := by
  unfold coverStep ind
  simp only
  split
  · refine ⟨by simp, fun j hj => ?_⟩
    rw [modify_get!]
    by_cases h : i + T[i]!.a = j
    · subst h; simp [hj]
    · simp [h]
  · split
    · have := rangeMod_spec (i + T[i]!.a) (T[i]!.b - T[i]!.a) c
      exact this
    · exact ⟨rfl, fun j _ => rfl⟩

theorem coverFold_spec (T : Array PNode) : ∀ (k : Nat) (c : Array Nat),
    ((List.range k).foldl (coverStep T) c).size = c.size ∧
    ∀ j, j < c.size → ((List.range k).foldl (coverStep T) c)[j]! = c[j]! + rsum k (fun i => ind T i j) := by
  intro k
  induction k with
  | zero => intro c; exact ⟨rfl, fun j _ => by simp [rsum]⟩
  | succ k ih =>
    intro c
    rw [List.range_succ, List.foldl_append]
    simp only [List.foldl_cons, List.foldl_nil]
    have h1 := coverStep_spec T ((List.range k).foldl (coverStep T) c) k
    refine ⟨by rw [h1.1, (ih c).1], fun j hj => ?_⟩
    rw [h1.2 j (by rw [(ih c).1]; exact hj), (ih c).2 j hj, rsum_succ]
    omega

theorem coverArr_get (T : Array PNode) (j : Nat) (hj : j < T.size) :
    (coverArr T)[j]! = rsum T.size (fun i => ind T i j) := by
  unfold coverArr
  rw [(coverFold_spec T T.size _).2 j (by simpa using hj), replicate_get!]
  omega

/-! ### every slot but the root is the child of exactly one slot -/

/-- `ind` in terms of the local layout -/
def indT (j : Nat) : DNode → Nat → Nat → Nat
  | .ival _, _, _ => 0
  | .create _ _, _, b' => if b' = j then 1 else 0
  | .group _ ds, _, b' => if b' ≤ j ∧ j < b' + ds.length then 1 else 0

theorem ind_eq_indT (T : Array PNode) (j : Nat) (d' : DNode) (g b' : Nat) (hl : LayN T d' g b') (hw : gW d' = true) :
    ind T g j = indT j d' g b' := by
  unfold ind
  cases d' with
  | ival i =>
    simp only [LayN] at hl
    simp only [gW, Bool.and_eq_true, Bool.not_eq_true'] at hw
    simp only [hl, hw.1, hw.2, indT]
    simp
  | create i ch =>
    simp only [LayN] at hl
    simp only [gW, Bool.and_eq_true] at hw
    simp only [hl.1, hw.1.1, indT, if_true, hl.2.1]
  | group i ds =>
    simp only [LayN] at hl
    simp only [gW, Bool.and_eq_true] at hw
    have hk : (i.c.kind == NKind.createTask) = false := by
      have := hw.1
      simp only [isGroupK, Bool.or_eq_true, beq_iff_eq] at this
      rcases this with h | h <;> simp [h]
    simp only [hl.1, hk, hw.1, indT, if_true, Bool.false_eq_true, if_false]
    have hba : T[g]!.b - T[g]!.a = ds.length := by omega
    rw [hba]
    by_cases hlen : ds.length = 0
    · rw [hlen]; split <;> split <;> omega
    · obtain ⟨e, _⟩ := hl.2.2.1 (by omega); rw [e]

mutual
theorem tsN_indT (j : Nat) : ∀ (d : DNode) (idx base : Nat),
    tsN (indT j) d idx base = if base ≤ j ∧ j < base + descT d then 1 else 0
  | .ival _, _, _ => by
    have e : descT (.ival ‹_›) = 0 := rfl
    simp only [tsN, indT]
    split <;> omega
  | .create i ch, idx, base => by
    have e : descT (.create i ch) = 1 + descT ch := rfl
    simp only [tsN, indT, tsN_indT j ch base (base + 1)]
    (repeat' split) <;> omega
  | .group i ds, idx, base => by
    have e : descT (.group i ds) = ds.length + descS ds := descL_eq ds
    simp only [tsN, indT, tsL_indT j ds base (base + ds.length)]
    (repeat' split) <;> omega
theorem tsL_indT (j : Nat) : ∀ (ds : DList) (k base : Nat),
    tsL (indT j) ds k base = if base ≤ j ∧ j < base + descS ds then 1 else 0
  | .nil, _, _ => by
    have e : descS .nil = 0 := rfl
    simp only [tsL]
    split <;> omega
  | .cons d r, k, base => by
    have e : descS (.cons d r) = descT d + descS r := rfl
    simp only [tsL, tsN_indT j d k base, tsL_indT j r (k + 1) (base + descT d)]
    (repeat' split) <;> omega
end

theorem cover_ok (T : Array PNode) (d : DNode) (hl : LayN T d 0 1) (hn : T.size = 1 + descT d) (hw : gW d = true)
    (j : Nat) (hj : j < T.size) : (coverArr T)[j]! = if j = 0 then 0 else 1 := by
  rw [coverArr_get T j hj,
    sum_all T (fun i => ind T i j) (indT j) (fun d' g b' h1 h2 _ => ind_eq_indT T j d' g b' h1 h2) d hl hn hw,
    tsN_indT]
  by_cases h : j = 0
  · rw [if_pos h, if_neg (by omega)]
  · rw [if_neg h, if_pos (by omega)]

/-! ### the local conditions -/

theorem offLocal_ok (T : Array PNode) (d : DNode) (hl : LayN T d 0 1) (hn : T.size = 1 + descT d) (hw : gW d = true)
    (g : Nat) (hg : g < T.size) : offLocal T g = true := by
  obtain ⟨d', b', q1, q2, q3, q4⟩ := slot_all T d hl hn hw g hg
  unfold offLocal
  cases d' with
  | ival i =>
    simp only [LayN] at q1
    simp only [gW, Bool.and_eq_true, Bool.not_eq_true'] at q2
    simp only [q1, q2.1, q2.2]
    simp
  | create i ch =>
    simp only [LayN] at q1
    simp only [gW, Bool.and_eq_true] at q2
    simp only [descT] at q4
    simp only [q1.1, q2.1.1, if_true, q1.2.1, Bool.and_eq_true, decide_eq_true_eq]
    refine ⟨⟨by omega, by omega⟩, ?_⟩
    cases ch with
    | group ic dsc =>
      have := q1.2.2.2
      simp only [LayN] at this
      rw [this.1]
      exact q2.1.2
    | ival _ => simp [isTaskG] at q2
    | create _ _ => simp [isTaskG] at q2
  | group i ds =>
    simp only [LayN] at q1
    simp only [gW, Bool.and_eq_true] at q2
    simp only [descT] at q4
    rw [descL_eq] at q4
    have hk : (i.c.kind == NKind.createTask) = false := by
      have := q2.1
      simp only [isGroupK, Bool.or_eq_true, beq_iff_eq] at this
      rcases this with h | h <;> simp [h]
    simp only [q1.1, hk, q2.1, if_true, Bool.false_eq_true, if_false, Bool.or_eq_true, Bool.and_eq_true,
      decide_eq_true_eq, beq_iff_eq]
    by_cases hlen : ds.length = 0
    · left; omega
    · right
      have := q1.2.2.1 (by omega)
      omega

/-- **offsets**: a laid-out DAG passes the `offsets` check -/
theorem wfOffsets_of_lay (G : PiDag) (d : DNode) (hl : LayN G.T d 0 1) (hn : G.T.size = 1 + descT d)
    (hw : gW d = true) : wfOffsets G = true := by
  rw [wfOffsets_eq]
  simp only [Bool.and_eq_true, decide_eq_true_eq, List.all_eq_true, List.mem_range, beq_iff_eq]
  exact ⟨by omega, fun i hi => ⟨offLocal_ok G.T d hl hn hw i hi, cover_ok G.T d hl hn hw i hi⟩⟩

/-! ### `dr_pi_dag_set_edge_ptrs` does not move nodes -/

theorem setEdgePtrs_get (T : Array PNode) (E : List PEdge) (j : Nat) (hj : j < T.size) :
    (setEdgePtrs T E)[j]! =
      { T[j]! with eb := (edgePtrTable T.size E)[j]!, ee := (edgePtrTable T.size E)[j + 1]! } := by
  rw [getElem!_pos _ j (by simpa [setEdgePtrs] using hj), getElem!_pos _ j hj]
  simp [setEdgePtrs]

theorem setEdgePtrs_shape (T : Array PNode) (E : List PEdge) (j : Nat) : SameShape (setEdgePtrs T E)[j]! T[j]! := by
  by_cases hj : j < T.size
  · rw [setEdgePtrs_get T E j hj]; exact ⟨rfl, rfl, rfl⟩
  · have h1 : (setEdgePtrs T E)[j]! = default := by apply getElem!_neg; simpa [setEdgePtrs] using hj
    have h2 : T[j]! = default := by apply getElem!_neg; exact hj
    rw [h1, h2]; exact ⟨rfl, rfl, rfl⟩

/-- the node array of `flatten sc nw d` is the layout of `d` -/
theorem flatten_lay (sc nw : Nat) (d : DNode) :
    LayN (flatten sc nw d).T d 0 1 ∧ (flatten sc nw d).T.size = 1 + descT d := by
  have h := enumNodes_lay sc d
  unfold flatten finishDag
  simp only
  exact ⟨LayN_congr' _ _ d 0 1 (fun j _ => setEdgePtrs_shape _ _ j) h.1, by rw [(setEdgePtrs_spec _ _).1]; exact h.2⟩

/-- **offsets**: every dump of a recorded DAG (contracted in any way) has all child / subgraph
    offsets inside the DAG, the children blocks contiguous and disjoint, and every slot but the
    root is the child of exactly one node -/
theorem flatten_wfOffsets (sc nw : Nat) (d : DNode) (h : gTask d = true) :
    (wfReport (flatten sc nw d)).offsets = true :=
  wfOffsets_of_lay _ d (flatten_lay sc nw d).1 (flatten_lay sc nw d).2 (gTask_gW d h)

end MythVerif.PiDag
