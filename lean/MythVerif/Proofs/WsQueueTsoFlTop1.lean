import MythVerif.Proofs.WsQueueTsoTac
/-! Preservation lemmas of the TSO invariant (generated per program counter of the owner): drain of an owner `top` store at idle, pu0, pu0f. -/
namespace MythVerif.WsqTso
open MythVerif.Wsq

theorem f_O_top_idle (s : St) (v0) (rest : List Sto) : Inv s → s.opc = .idle →
    s.bufO = .top v0 :: rest → Inv (applySto { s with bufO := rest } (.top v0)) := by
  intro h hpc hb
  simp only [applySto]
  tso_fastO h hpc [carryC]

theorem f_O_top_pu0 (s : St) (v0) (rest : List Sto) (e) : Inv s → s.opc = .pu0 e →
    s.bufO = .top v0 :: rest → Inv (applySto { s with bufO := rest } (.top v0)) := by
  intro h hpc hb
  simp only [applySto]
  tso_fastO h hpc [carryC]

theorem f_O_top_pu0f (s : St) (v0) (rest : List Sto) (e t) : Inv s → s.opc = .pu0f e t →
    s.bufO = .top v0 :: rest → Inv (applySto { s with bufO := rest } (.top v0)) := by
  intro h hpc hb
  simp only [applySto]
  tso_fastO h hpc [pu0f, carryC]

end MythVerif.WsqTso
