import MythVerif.Proofs.WsQueueTsoBnd
/-! Preservation of the bounds invariant `Bnd` (generated per program counter): owner at ptl, pt1, pt2, pt3, pt4. -/
namespace MythVerif.WsqTso
open MythVerif.Wsq

theorem bO_ptl (s s' : St) (e) : Inv s → Inv s' → Bnd s → s.opc = .ptl e → stepO s = some s' → Bnd s' := by
  intro h h' hb hpc hs
  have hcfg := h.cfg
  have hview := owner_views s h
  have hbc := hb.sz
  have a1 := h'.pu1; have a2 := h'.pu2; have a3 := h'.pux; have a4 := h'.pt7; have a5 := h'.pt8; have a6 := h'.shz; have a7 := h'.po3; have a8 := h'.po5
  simp only [stepO, hpc, releaseO, fenceOk, hcfg, code_unlockFence, code_pushRb, code_popFence, if_true] at hs
  all_goals (try split at hs)
  all_goals (try split at hs)
  all_goals (try simp at hs)
  all_goals (try (first | (subst hs; exact hb) | subst hs))
  all_goals (
    tso_coreO h hpc [carryC]
    bnd_core hb
    simp only [hpc, ownerLocked, carry, resetting, ownerFlight] at a1 a2 a3 a4 a5 a6 a7 a8 hview hbc
    constructor
    all_goals (bnd_pick hb; rename_i hold)
    all_goals (first | exact hold | (
      (try simp only [hpc, upd_apply, applySto] at hold ⊢)
      first | assumption | (intros; contradiction) | grind [thiefLocked, mayBuf, notTrans, thiefFlight, popWin, rcOff_bnd, Rc1Shape, Rc2Shape, RcPre, RcShape, InsShape, Pu2Shape, CarryShape] | skip)))

theorem bO_pt1 (s s' : St) (e) : Inv s → Inv s' → Bnd s → s.opc = .pt1 e → stepO s = some s' → Bnd s' := by
  intro h h' hb hpc hs
  have hcfg := h.cfg
  have hview := owner_views s h
  have hbc := hb.sz
  have a1 := h'.pu1; have a2 := h'.pu2; have a3 := h'.pux; have a4 := h'.pt7; have a5 := h'.pt8; have a6 := h'.shz; have a7 := h'.po3; have a8 := h'.po5
  simp only [stepO, hpc, releaseO, fenceOk, hcfg, code_unlockFence, code_pushRb, code_popFence, if_true] at hs
  all_goals (try split at hs)
  all_goals (try split at hs)
  all_goals (try simp at hs)
  all_goals (try (first | (subst hs; exact hb) | subst hs))
  all_goals (
    tso_coreO h hpc [pt1]
    bnd_core hb
    simp only [hpc, ownerLocked, carry, resetting, ownerFlight] at a1 a2 a3 a4 a5 a6 a7 a8 hview hbc
    constructor
    all_goals (bnd_pick hb; rename_i hold)
    all_goals (first | exact hold | (
      (try simp only [hpc, upd_apply, applySto] at hold ⊢)
      first | assumption | (intros; contradiction) | grind [thiefLocked, mayBuf, notTrans, thiefFlight, popWin, rcOff_bnd, Rc1Shape, Rc2Shape, RcPre, RcShape, InsShape, Pu2Shape, CarryShape] | skip)))

theorem bO_pt2 (s s' : St) (e) : Inv s → Inv s' → Bnd s → s.opc = .pt2 e → stepO s = some s' → Bnd s' := by
  intro h h' hb hpc hs
  have hcfg := h.cfg
  have hview := owner_views s h
  have hbc := hb.sz
  have a1 := h'.pu1; have a2 := h'.pu2; have a3 := h'.pux; have a4 := h'.pt7; have a5 := h'.pt8; have a6 := h'.shz; have a7 := h'.po3; have a8 := h'.po5
  simp only [stepO, hpc, releaseO, fenceOk, hcfg, code_unlockFence, code_pushRb, code_popFence, if_true] at hs
  all_goals (try split at hs)
  all_goals (try split at hs)
  all_goals (try simp at hs)
  all_goals (try (first | (subst hs; exact hb) | subst hs))
  all_goals (
    tso_coreO h hpc [pt2]
    bnd_core hb
    simp only [hpc, ownerLocked, carry, resetting, ownerFlight] at a1 a2 a3 a4 a5 a6 a7 a8 hview hbc
    constructor
    all_goals (bnd_pick hb; rename_i hold)
    all_goals (first | exact hold | (
      (try simp only [hpc, upd_apply, applySto] at hold ⊢)
      first | assumption | (intros; contradiction) | grind [thiefLocked, mayBuf, notTrans, thiefFlight, popWin, rcOff_bnd, Rc1Shape, Rc2Shape, RcPre, RcShape, InsShape, Pu2Shape, CarryShape] | skip)))

theorem bO_pt3 (s s' : St) (e off) : Inv s → Inv s' → Bnd s → s.opc = .pt3 e off → stepO s = some s' → Bnd s' := by
  intro h h' hb hpc hs
  have hcfg := h.cfg
  have hview := owner_views s h
  have hbc := hb.pt3
  have a1 := h'.pu1; have a2 := h'.pu2; have a3 := h'.pux; have a4 := h'.pt7; have a5 := h'.pt8; have a6 := h'.shz; have a7 := h'.po3; have a8 := h'.po5
  simp only [stepO, hpc, releaseO, fenceOk, hcfg, code_unlockFence, code_pushRb, code_popFence, if_true] at hs
  all_goals (try split at hs)
  all_goals (try split at hs)
  all_goals (try simp at hs)
  all_goals (try (first | (subst hs; exact hb) | subst hs))
  all_goals (
    tso_coreO h hpc [pt3]
    bnd_core hb
    simp only [hpc, ownerLocked, carry, resetting, ownerFlight] at a1 a2 a3 a4 a5 a6 a7 a8 hview hbc
    constructor
    all_goals (bnd_pick hb; rename_i hold)
    all_goals (first | exact hold | (
      (try simp only [hpc, upd_apply, applySto] at hold ⊢)
      first | assumption | (intros; contradiction) | grind [thiefLocked, mayBuf, notTrans, thiefFlight, popWin, rcOff_bnd, Rc1Shape, Rc2Shape, RcPre, RcShape, InsShape, Pu2Shape, CarryShape] | skip)))

theorem bO_pt4 (s s' : St) (e off) : Inv s → Inv s' → Bnd s → s.opc = .pt4 e off → stepO s = some s' → Bnd s' := by
  intro h h' hb hpc hs
  have hcfg := h.cfg
  have hview := owner_views s h
  have hbc := hb.pt4
  have a1 := h'.pu1; have a2 := h'.pu2; have a3 := h'.pux; have a4 := h'.pt7; have a5 := h'.pt8; have a6 := h'.shz; have a7 := h'.po3; have a8 := h'.po5
  simp only [stepO, hpc, releaseO, fenceOk, hcfg, code_unlockFence, code_pushRb, code_popFence, if_true] at hs
  all_goals (try split at hs)
  all_goals (try split at hs)
  all_goals (try simp at hs)
  all_goals (try (first | (subst hs; exact hb) | subst hs))
  all_goals (
    tso_coreO h hpc [pt4]
    bnd_core hb
    simp only [hpc, ownerLocked, carry, resetting, ownerFlight] at a1 a2 a3 a4 a5 a6 a7 a8 hview hbc
    constructor
    all_goals (bnd_pick hb; rename_i hold)
    all_goals (first | exact hold | (
      (try simp only [hpc, upd_apply, applySto] at hold ⊢)
      first | assumption | (intros; contradiction) | grind [thiefLocked, mayBuf, notTrans, thiefFlight, popWin, rcOff_bnd, Rc1Shape, Rc2Shape, RcPre, RcShape, InsShape, Pu2Shape, CarryShape] | skip)))

end MythVerif.WsqTso
