import MythVerif.Proofs.WsQueueTsoBnd
/-! Preservation of the bounds invariant `Bnd` (generated per program counter): owner at pol, po4, po5, po5b, po5c. -/
namespace MythVerif.WsqTso
open MythVerif.Wsq

theorem bO_pol (s s' : St) (t) : Inv s → Inv s' → Bnd s → s.opc = .pol t → stepO s = some s' → Bnd s' := by
  intro h h' hb hpc hs
  have hcfg := h.cfg
  have hview := owner_views s h
  have hbc := hb.sz
  have a1 := h'.pu1; have a2 := h'.pu2; have a3 := h'.pux; have a4 := h'.pt7; have a5 := h'.pt8; have a6 := h'.shz; have a7 := h'.po3; have a8 := h'.po5
  simp only [stepO, hpc, releaseO, fenceOk, hcfg, code_unlockFence, code_pushRb, code_popFence, if_true] at hs
  all_goals (try split at hs)
  all_goals (try split at hs)
  all_goals (try simp at hs)
  all_goals (try (first | (subst hs; exact hb) | subst hs))
  all_goals (
    tso_coreO h hpc [pol]
    bnd_core hb
    simp only [hpc, ownerLocked, carry, resetting, ownerFlight] at a1 a2 a3 a4 a5 a6 a7 a8 hview hbc
    constructor
    all_goals (bnd_pick hb; rename_i hold)
    all_goals (first | exact hold | (
      (try simp only [hpc, upd_apply, applySto] at hold ⊢)
      first | assumption | (intros; contradiction) | grind [thiefLocked, mayBuf, notTrans, thiefFlight, popWin, rcOff_bnd, Rc1Shape, Rc2Shape, RcPre, RcShape, InsShape, Pu2Shape, CarryShape] | skip)))

theorem bO_po4 (s s' : St) (t) : Inv s → Inv s' → Bnd s → s.opc = .po4 t → stepO s = some s' → Bnd s' := by
  intro h h' hb hpc hs
  have hcfg := h.cfg
  have hview := owner_views s h
  have hbc := hb.sz
  have a1 := h'.pu1; have a2 := h'.pu2; have a3 := h'.pux; have a4 := h'.pt7; have a5 := h'.pt8; have a6 := h'.shz; have a7 := h'.po3; have a8 := h'.po5
  simp only [stepO, hpc, releaseO, fenceOk, hcfg, code_unlockFence, code_pushRb, code_popFence, if_true] at hs
  all_goals (try split at hs)
  all_goals (try split at hs)
  all_goals (try simp at hs)
  all_goals (try (first | (subst hs; exact hb) | subst hs))
  all_goals (
    tso_coreO h hpc [po4]
    bnd_core hb
    simp only [hpc, ownerLocked, carry, resetting, ownerFlight] at a1 a2 a3 a4 a5 a6 a7 a8 hview hbc
    constructor
    all_goals (bnd_pick hb; rename_i hold)
    all_goals (first | exact hold | (
      (try simp only [hpc, upd_apply, applySto] at hold ⊢)
      first | assumption | (intros; contradiction) | grind [thiefLocked, mayBuf, notTrans, thiefFlight, popWin, rcOff_bnd, Rc1Shape, Rc2Shape, RcPre, RcShape, InsShape, Pu2Shape, CarryShape] | skip)))

theorem bO_po5 (s s' : St) (t x) : Inv s → Inv s' → Bnd s → s.opc = .po5 t x → stepO s = some s' → Bnd s' := by
  intro h h' hb hpc hs
  have hcfg := h.cfg
  have hview := owner_views s h
  have hbc := hb.po5
  have a1 := h'.pu1; have a2 := h'.pu2; have a3 := h'.pux; have a4 := h'.pt7; have a5 := h'.pt8; have a6 := h'.shz; have a7 := h'.po3; have a8 := h'.po5
  simp only [stepO, hpc, releaseO, fenceOk, hcfg, code_unlockFence, code_pushRb, code_popFence, if_true] at hs
  all_goals (try split at hs)
  all_goals (try split at hs)
  all_goals (try simp at hs)
  all_goals (try (first | (subst hs; exact hb) | subst hs))
  all_goals (
    tso_coreO h hpc [po5]
    bnd_core hb
    simp only [hpc, ownerLocked, carry, resetting, ownerFlight] at a1 a2 a3 a4 a5 a6 a7 a8 hview hbc
    constructor
    all_goals (bnd_pick hb; rename_i hold)
    all_goals (first | exact hold | (
      (try simp only [hpc, upd_apply, applySto] at hold ⊢)
      first | assumption | (intros; contradiction) | grind [thiefLocked, mayBuf, notTrans, thiefFlight, popWin, rcOff_bnd, Rc1Shape, Rc2Shape, RcPre, RcShape, InsShape, Pu2Shape, CarryShape] | skip)))

theorem bO_po5b (s s' : St) (t r) : Inv s → Inv s' → Bnd s → s.opc = .po5b t r → stepO s = some s' → Bnd s' := by
  intro h h' hb hpc hs
  have hcfg := h.cfg
  have hview := owner_views s h
  have hbc := hb.po5b
  have a1 := h'.pu1; have a2 := h'.pu2; have a3 := h'.pux; have a4 := h'.pt7; have a5 := h'.pt8; have a6 := h'.shz; have a7 := h'.po3; have a8 := h'.po5
  simp only [stepO, hpc, releaseO, fenceOk, hcfg, code_unlockFence, code_pushRb, code_popFence, if_true] at hs
  all_goals (try split at hs)
  all_goals (try split at hs)
  all_goals (try simp at hs)
  all_goals (try (first | (subst hs; exact hb) | subst hs))
  all_goals (
    tso_coreO h hpc [po5b]
    bnd_core hb
    simp only [hpc, ownerLocked, carry, resetting, ownerFlight] at a1 a2 a3 a4 a5 a6 a7 a8 hview hbc
    constructor
    all_goals (bnd_pick hb; rename_i hold)
    all_goals (first | exact hold | (
      (try simp only [hpc, upd_apply, applySto] at hold ⊢)
      first | assumption | (intros; contradiction) | grind [thiefLocked, mayBuf, notTrans, thiefFlight, popWin, rcOff_bnd, Rc1Shape, Rc2Shape, RcPre, RcShape, InsShape, Pu2Shape, CarryShape] | skip)))

theorem bO_po5c (s s' : St) (t r) : Inv s → Inv s' → Bnd s → s.opc = .po5c t r → stepO s = some s' → Bnd s' := by
  intro h h' hb hpc hs
  have hcfg := h.cfg
  have hview := owner_views s h
  have hbc := hb.sz
  have a1 := h'.pu1; have a2 := h'.pu2; have a3 := h'.pux; have a4 := h'.pt7; have a5 := h'.pt8; have a6 := h'.shz; have a7 := h'.po3; have a8 := h'.po5
  simp only [stepO, hpc, releaseO, fenceOk, hcfg, code_unlockFence, code_pushRb, code_popFence, if_true] at hs
  all_goals (try split at hs)
  all_goals (try split at hs)
  all_goals (try simp at hs)
  all_goals (try (first | (subst hs; exact hb) | subst hs))
  all_goals (
    tso_coreO h hpc [po5c]
    bnd_core hb
    simp only [hpc, ownerLocked, carry, resetting, ownerFlight] at a1 a2 a3 a4 a5 a6 a7 a8 hview hbc
    constructor
    all_goals (bnd_pick hb; rename_i hold)
    all_goals (first | exact hold | (
      (try simp only [hpc, upd_apply, applySto] at hold ⊢)
      first | assumption | (intros; contradiction) | grind [thiefLocked, mayBuf, notTrans, thiefFlight, popWin, rcOff_bnd, Rc1Shape, Rc2Shape, RcPre, RcShape, InsShape, Pu2Shape, CarryShape] | skip)))

end MythVerif.WsqTso
