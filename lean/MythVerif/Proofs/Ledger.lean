import MythVerif.Model.Ledger
namespace MythVerif.Ledger

/-- single-worker invariant (all operations by worker 0) -/
structure Inv1 (s : St) : Prop where
  nd   : (s.owned ++ s.fl 0).Nodup
  lt   : ∀ a, a ∈ s.owned ++ s.fl 0 → a < s.next
  cnt  : s.fresh = s.owned.length + (s.fl 0).length
  pk   : s.owned.length ≤ s.peak
  fp   : s.fresh ≤ s.peak

theorem inv1_init : Inv1 init := by constructor <;> simp [init]

theorem inv1_step (s s' : St) (op : Op) (r : Option Addr) (hw : ∀ w a, op = .free w a → w = 0)
    (hg : ∀ w, op = .get w → w = 0) (h : Inv1 s) (hs : step s op = some (s', r)) : Inv1 s' := by
  obtain ⟨hnd, hlt, hcnt, hpk, hfp⟩ := h
  cases op with
  | get w =>
    have := hg w rfl; subst this
    simp only [step] at hs
    split at hs
    · rename_i a rest hfl
      simp at hs; obtain ⟨hs, _⟩ := hs; subst hs
      rw [hfl] at hnd hlt hcnt
      constructor
      · simp only [upd_same]
        have := hnd
        simp only [List.nodup_append, List.nodup_cons, List.mem_cons] at this ⊢
        grind
      · simp only [upd_same]; intro b hb; apply hlt b; simp at hb ⊢; grind
      · simp only [upd_same, List.length_cons] at *; omega
      · exact Nat.le_max_right _ _
      · exact Nat.le_trans hfp (Nat.le_max_left _ _)
    · rename_i hfl
      simp at hs; obtain ⟨hs, _⟩ := hs; subst hs
      rw [hfl] at hnd hlt hcnt
      simp only [List.append_nil, List.length_nil, Nat.add_zero] at *
      constructor
      · simp only [hfl, List.append_nil, List.nodup_cons]
        exact ⟨fun hm => Nat.lt_irrefl _ (hlt _ hm), hnd⟩
      · simp only [hfl, List.append_nil, List.mem_cons]
        rintro b (e | e)
        · subst e; exact Nat.lt_succ_self _
        · exact Nat.lt_succ_of_lt (hlt b e)
      · simp [hfl]; omega
      · exact Nat.le_max_right _ _
      · show s.fresh + 1 ≤ max s.peak (s.owned.length + 1)
        rw [hcnt]; exact Nat.le_max_right _ _
  | free w a =>
    have := hw w a rfl; subst this
    simp only [step] at hs
    split at hs
    · rename_i hm
      simp at hs; obtain ⟨hs, _⟩ := hs; subst hs
      have hnd' := hnd
      simp only [List.nodup_append] at hnd'
      obtain ⟨ho, hf, hd⟩ := hnd'
      constructor
      · simp only [upd_same, List.nodup_append, List.nodup_cons, List.mem_cons]
        refine ⟨ho.erase a, ⟨fun hm' => hd a hm a hm' rfl, hf⟩, ?_⟩
        intro x hx y hy
        have hx' := (List.Nodup.mem_erase_iff ho).mp hx
        rcases hy with e | e
        · subst e; exact hx'.1
        · exact hd x hx'.2 y e
      · simp only [upd_same]; intro b hb; apply hlt b
        simp only [List.mem_append, List.mem_cons] at hb ⊢
        rcases hb with e | e | e
        · exact Or.inl (List.mem_of_mem_erase e)
        · subst e; exact Or.inl hm
        · exact Or.inr e
      · simp only [upd_same, List.length_cons, List.length_erase_of_mem hm]
        have : 0 < s.owned.length := List.length_pos_of_mem hm
        omega
      · simp only [List.length_erase_of_mem hm]; omega
      · exact hfp
    · simp at hs

end MythVerif.Ledger

namespace MythVerif.Ledger

/-- any number of workers: every block is in exactly one place -/
structure InvN (s : St) : Prop where
  ond  : s.owned.Nodup
  fnd  : ∀ w, (s.fl w).Nodup
  dis  : ∀ w a, a ∈ s.fl w → a ∉ s.owned
  one  : ∀ w1 w2 a, a ∈ s.fl w1 → a ∈ s.fl w2 → w1 = w2
  lto  : ∀ a, a ∈ s.owned → a < s.next
  ltf  : ∀ w a, a ∈ s.fl w → a < s.next

theorem invN_init : InvN init := by constructor <;> simp [init]

theorem invN_step (s s' : St) (op : Op) (r : Option Addr) (h : InvN s) (hs : step s op = some (s', r)) :
    InvN s' := by
  obtain ⟨hond, hfnd, hdis, hone, hlto, hltf⟩ := h
  cases op with
  | get w =>
    simp only [step] at hs
    split at hs
    · rename_i a rest hfl
      simp at hs; obtain ⟨hs, _⟩ := hs; subst hs
      have hfw := hfnd w
      rw [hfl] at hfw
      have ha : a ∈ s.fl w := by simp [hfl]
      have hr : ∀ x, x ∈ rest → x ∈ s.fl w := fun x hx => by simp [hfl, hx]
      have hnd := List.nodup_cons.mp hfw
      constructor
      · exact List.nodup_cons.mpr ⟨hdis w a ha, hond⟩
      · intro w'; simp only [upd_apply]; split
        · exact hnd.2
        · exact hfnd w'
      · intro w' x hx; simp only [upd_apply] at hx
        simp only [List.mem_cons, not_or]
        split at hx
        · rename_i e; subst e
          exact ⟨fun e => by subst e; exact hnd.1 hx, hdis _ x (hr x hx)⟩
        · rename_i e
          exact ⟨fun e' => by subst e'; exact e (hone w' w x hx ha), hdis w' x hx⟩
      · intro w1 w2 x h1 h2; simp only [upd_apply] at h1 h2
        split at h1 <;> split at h2
        · simp_all
        · rename_i e1 e2; subst e1; exact (hone _ _ x (hr x h1) h2)
        · rename_i e1 e2; subst e2; exact (hone _ _ x h1 (hr x h2))
        · exact hone w1 w2 x h1 h2
      · intro x hx; simp only [List.mem_cons] at hx
        rcases hx with e | e
        · subst e; exact hltf w x ha
        · exact hlto x e
      · intro w' x hx; simp only [upd_apply] at hx
        split at hx
        · rename_i e; subst e; exact hltf _ x (hr x hx)
        · exact hltf w' x hx
    · rename_i hfl
      simp at hs; obtain ⟨hs, _⟩ := hs; subst hs
      constructor
      · exact List.nodup_cons.mpr ⟨fun hm => Nat.lt_irrefl _ (hlto _ hm), hond⟩
      · exact hfnd
      · intro w' x hx
        simp only [List.mem_cons, not_or]
        exact ⟨fun e => by subst e; exact Nat.lt_irrefl _ (hltf w' _ hx), hdis w' x hx⟩
      · exact hone
      · intro x hx; simp only [List.mem_cons] at hx
        rcases hx with e | e
        · subst e; exact Nat.lt_succ_self _
        · exact Nat.lt_succ_of_lt (hlto x e)
      · intro w' x hx; exact Nat.lt_succ_of_lt (hltf w' x hx)
  | free w a =>
    simp only [step] at hs
    split at hs
    · rename_i hm
      simp at hs; obtain ⟨hs, _⟩ := hs; subst hs
      have hne : ∀ w', a ∉ s.fl w' := fun w' hx => hdis w' a hx hm
      constructor
      · exact hond.erase a
      · intro w'; simp only [upd_apply]; split
        · rename_i e; subst e; exact List.nodup_cons.mpr ⟨hne _, hfnd _⟩
        · exact hfnd w'
      · intro w' x hx hxo
        have hxo' := (List.Nodup.mem_erase_iff hond).mp hxo
        simp only [upd_apply] at hx
        split at hx
        · simp only [List.mem_cons] at hx
          rcases hx with e | e
          · exact hxo'.1 e
          · exact hdis _ x e hxo'.2
        · exact hdis w' x hx hxo'.2
      · intro w1 w2 x h1 h2; simp only [upd_apply] at h1 h2
        split at h1 <;> split at h2
        · simp_all
        · rename_i e1 e2; subst e1
          simp only [List.mem_cons] at h1
          rcases h1 with e | e
          · subst e; exact absurd h2 (hne w2)
          · exact hone _ _ x e h2
        · rename_i e1 e2; subst e2
          simp only [List.mem_cons] at h2
          rcases h2 with e | e
          · subst e; exact absurd h1 (hne w1)
          · exact hone _ _ x h1 e
        · exact hone w1 w2 x h1 h2
      · intro x hx; exact hlto x (List.mem_of_mem_erase hx)
      · intro w' x hx; simp only [upd_apply] at hx
        split at hx
        · simp only [List.mem_cons] at hx
          rcases hx with e | e
          · subst e; exact hlto x hm
          · exact hltf _ x e
        · exact hltf w' x hx
    · simp at hs

theorem runOps_invN (ops : List Op) : ∀ (s s' : St), InvN s → runOps s ops = some s' → InvN s' := by
  induction ops with
  | nil => intro s s' h hr; simp [runOps] at hr; subst hr; exact h
  | cons op ops ih =>
    intro s s' h hr
    simp only [runOps] at hr
    split at hr
    · rename_i s1 r hs; exact ih s1 s' (invN_step s s1 op r h hs) hr
    · simp at hr

theorem runOps_inv1 (ops : List Op) (hw : ∀ op ∈ ops, (∀ w a, op = .free w a → w = 0) ∧ (∀ w, op = .get w → w = 0)) :
    ∀ (s s' : St), Inv1 s → runOps s ops = some s' → Inv1 s' := by
  induction ops with
  | nil => intro s s' h hr; simp [runOps] at hr; subst hr; exact h
  | cons op ops ih =>
    intro s s' h hr
    simp only [runOps] at hr
    split at hr
    · rename_i s1 r hs
      have ho := hw op (by simp)
      exact ih (fun o ho' => hw o (by simp [ho'])) s1 s' (inv1_step s s1 op r ho.1 ho.2 h hs) hr
    · simp at hr

end MythVerif.Ledger
