import MythVerif.Model.Once
/-! Inductive invariant of the once model and its preservation, one lemma per label. -/
namespace MythVerif.Once

theorem zero_is_init : sInit = 0 := by decide
theorem ne_ip : sInit ≠ sProg := by decide
theorem ne_id : sInit ≠ sDone := by decide
theorem ne_pd : sProg ≠ sDone := by decide

structure Inv (s : St) : Prop where
  dom   : s.state = sInit ∨ s.state = sProg ∨ s.state = sDone
  ex0   : s.state = sInit ↔ s.execs = 0
  ex1   : s.execs ≤ 1
  run0  : s.execs = 0 ↔ s.runner = none
  own   : ∀ t, inRoutine (s.pc t) = true ↔ (s.runner = some t ∧ s.state = sProg)
  rdnN  : s.runner = none → s.routineDone = false
  rdn   : ∀ t, s.runner = some t → (s.routineDone = true ↔ (s.state = sDone ∨ s.pc t = .fin))
  ret   : s.returns > 0 → s.state = sDone
  wt    : ∀ t, waiting (s.pc t) = true → s.state ≠ sInit

theorem inv_init : Inv init := by
  constructor <;> simp [init, inRoutine, waiting, zero_is_init]

macro "ofinish" : tactic => `(tactic| (
    have hne1 := ne_ip
    have hne2 := ne_id
    have hne3 := ne_pd
    constructor
    all_goals (simp only [upd_apply, inRoutine, waiting] at *)
    all_goals (first | grind [inRoutine, waiting] | skip)))

macro "ostep" : tactic => `(tactic| (
  intro h hs
  obtain ⟨hdom, hex0, hex1, hrun0, hown, hrdnN, hrdn, hret, hwt⟩ := h
  simp only [step] at hs
  (first | (split at hs) | skip)
  all_goals (first | (split at hs) | skip)
  all_goals (try simp at hs)
  all_goals (try subst hs)
  all_goals (try ofinish)))

theorem p_read (s s' : St) (t v) : Inv s → step s (.read t v) = some s' → Inv s' := by ostep
theorem p_cas (s s' : St) (t ok) : Inv s → step s (.cas t ok) = some s' → Inv s' := by ostep
theorem p_routineStep (s s' : St) (t) : Inv s → step s (.routineStep t) = some s' → Inv s' := by ostep
theorem p_routineEnd (s s' : St) (t) : Inv s → step s (.routineEnd t) = some s' → Inv s' := by ostep
theorem p_storeDone (s s' : St) (t) : Inv s → step s (.storeDone t) = some s' → Inv s' := by ostep
theorem p_waitRead (s s' : St) (t v) : Inv s → step s (.waitRead t v) = some s' → Inv s' := by ostep
theorem p_yield (s s' : St) (t) : Inv s → step s (.yield t) = some s' → Inv s' := by ostep

theorem inv_step (s s' : St) (l : Lbl) (h : Inv s) (hs : step s l = some s') : Inv s' := by
  cases l with
  | read t v => exact p_read s s' t v h hs
  | cas t ok => exact p_cas s s' t ok h hs
  | routineStep t => exact p_routineStep s s' t h hs
  | routineEnd t => exact p_routineEnd s s' t h hs
  | storeDone t => exact p_storeDone s s' t h hs
  | waitRead t v => exact p_waitRead s s' t v h hs
  | yield t => exact p_yield s s' t h hs

/-- the invariant holds in every reachable state (any callers, any schedule, any length) -/
theorem reachable_inv (s : St) (h : Reachable step init s) : Inv s :=
  inv_reachable step init Inv inv_init (fun s l s' => inv_step s s' l) s h

/-! ### link between the ghost counters and the label sequence that was executed -/

/-- induction over executed label sequences, extending the trace at its end -/
theorem runs_trace_ind {S L : Type} (step : S → L → Option S) (P : List L → S → Prop)
    (hs : ∀ ls s l s', P ls s → step s l = some s' → P (ls ++ [l]) s') :
    ∀ (ls pre : List L) (s0 s : S), P pre s0 → runs step s0 ls = some s → P (pre ++ ls) s := by
  intro ls
  induction ls with
  | nil => intro pre s0 s h hr; simp [runs] at hr; subst hr; simpa using h
  | cons l ls ih =>
    intro pre s0 s h hr
    simp only [runs] at hr
    split at hr
    · rename_i s1 h1
      have := ih (pre ++ [l]) s1 s (hs pre s0 l s1 h h1) hr
      simpa using this
    · simp at hr

/-- the label starts the init routine (a successful CAS) -/
def isWin : Lbl → Bool
  | .cas _ true => true
  | _ => false

/-- the label makes its actor return from `myth_once` -/
def isRet : Lbl → Bool
  | .storeDone _ => true
  | .waitRead _ v => decide (v = sDone)
  | _ => false

/-- the init routine returns -/
def isEnd : Lbl → Bool
  | .routineEnd _ => true
  | _ => false

structure TrInv (ls : List Lbl) (s : St) : Prop where
  execs : s.execs = ls.countP isWin
  rets  : s.returns = ls.countP isRet
  done  : s.routineDone = ls.any isEnd

theorem trinv_step (ls : List Lbl) (s : St) (l : Lbl) (s' : St) (h : TrInv ls s)
    (hs : step s l = some s') : TrInv (ls ++ [l]) s' := by
  obtain ⟨h1, h2, h3⟩ := h
  cases l <;> simp only [step] at hs <;> (first | (split at hs) | skip) <;>
    (first | (split at hs) | skip) <;> (try simp at hs) <;> (try subst hs) <;>
    (constructor <;> simp_all [List.countP_append, isWin, isRet, isEnd])

theorem trinv (ls : List Lbl) (s : St) (h : runs step init ls = some s) : TrInv ls s := by
  have := runs_trace_ind step TrInv trinv_step ls [] init s
    (by constructor <;> simp [init]) h
  simpa using this

end MythVerif.Once
