import MythVerif.Model.Uncond
/-! Inductive invariant of the uncondition-variable model running side by side with the protocol
monitor, its preservation (one lemma per label), the link between label sequences and states, and
the rank used for the progress (stuck-freedom) theorem. -/
namespace MythVerif.Uncond

structure Inv (s : St) (p : Phase) : Prop where
  sv  : ∀ t, s.ctxSaved t = true ↔ (s.pc t = .cb ∨ s.pc t = .asleep ∨ s.pc t = .runnable)
  thA : ∀ x, s.th = some x → s.pc x = .asleep
  rqR : ∀ x, x ∈ s.runq ↔ s.pc x = .runnable
  rqN : s.runq.Nodup
  frT : p = .free → s.th = none
  frQ : ∀ t, p = .free → (s.pc t = .idle ∨ s.pc t = .sd ∨ s.pc t = .runnable)
  anW : ∀ w, p = .announced w → (s.pc w = .ann ∨ s.pc w = .sw ∨ s.pc w = .cb ∨ s.pc w = .asleep)
  anT : ∀ w, p = .announced w → s.pc w = .asleep → s.th = some w
  anQ : ∀ w t, p = .announced w → t ≠ w → (s.pc t = .idle ∨ s.pc t = .sd ∨ s.pc t = .runnable)
  clN : ∀ w q, p = .claimed w q → q ≠ w
  clQ : ∀ w q t, p = .claimed w q → t ≠ w → t ≠ q → (s.pc t = .idle ∨ s.pc t = .sd ∨ s.pc t = .runnable)
  clS : ∀ w q, p = .claimed w q → (s.pc q = .sg ∨ s.pc q = .sc w ∨ s.pc q = .sp w ∨ s.pc q = .sd)
  clG : ∀ w q, p = .claimed w q → s.pc q = .sg →
          ((s.pc w = .ann ∨ s.pc w = .sw ∨ s.pc w = .cb ∨ s.pc w = .asleep) ∧ (s.pc w = .asleep → s.th = some w))
  clC : ∀ w q, p = .claimed w q → s.pc q = .sc w → s.th = some w
  clP : ∀ w q, p = .claimed w q → s.pc q = .sp w → (s.pc w = .asleep ∧ s.th = none)
  clD : ∀ w q, p = .claimed w q → s.pc q = .sd → (s.pc w = .runnable ∧ s.th = none)

theorem inv_init : Inv init .free := by
  constructor <;> simp [init]

macro "ufinish" : tactic => `(tactic| (
    constructor
    all_goals (try simp only [upd_apply] at *)
    all_goals (first | grind [List.Nodup.mem_erase_iff, List.Nodup.erase, List.nodup_cons, List.nodup_append] | skip)))

macro "ustep" x:ident : tactic => `(tactic| (
  intro h hs hp
  obtain ⟨hsv, hthA, hrqR, hrqN, hfrT, hfrQ, hanW, hanT, hanQ, hclN, hclQ, hclS, hclG, hclC, hclP, hclD⟩ := h
  simp only [step] at hs
  (first | (split at hs) | skip)
  all_goals (try simp at hs)
  all_goals (try subst hs)
  all_goals (cases $x:ident)
  all_goals (simp only [proto] at hp)
  all_goals (first | (split at hp) | skip)
  all_goals (first | (split at hp) | skip)
  all_goals (try simp at hp)
  all_goals (try subst hp)
  all_goals (try ufinish)))

theorem p_announce (s s' : St) (p p' : Phase) (t) : Inv s p → step s (.announce t) = some s' → proto p (.announce t) = some p' → Inv s' p' := by ustep p
theorem p_blockBegin (s s' : St) (p p' : Phase) (t) : Inv s p → step s (.blockBegin t) = some s' → proto p (.blockBegin t) = some p' → Inv s' p' := by ustep p
theorem p_cbBegin (s s' : St) (p p' : Phase) (t) : Inv s p → step s (.cbBegin t) = some s' → proto p (.cbBegin t) = some p' → Inv s' p' := by ustep p
theorem p_cbPublish (s s' : St) (p p' : Phase) (t) : Inv s p → step s (.cbPublish t) = some s' → proto p (.cbPublish t) = some p' → Inv s' p' := by ustep p
theorem p_resume (s s' : St) (p p' : Phase) (t) : Inv s p → step s (.resume t) = some s' → proto p (.resume t) = some p' → Inv s' p' := by ustep p
theorem p_claim (s s' : St) (p p' : Phase) (t) : Inv s p → step s (.claim t) = some s' → proto p (.claim t) = some p' → Inv s' p' := by ustep p
theorem p_sigSpin (s s' : St) (p p' : Phase) (t) : Inv s p → step s (.sigSpin t) = some s' → proto p (.sigSpin t) = some p' → Inv s' p' := by ustep p
theorem p_sigRead (s s' : St) (p p' : Phase) (t x) : Inv s p → step s (.sigRead t x) = some s' → proto p (.sigRead t x) = some p' → Inv s' p' := by ustep p
theorem p_sigClear (s s' : St) (p p' : Phase) (t) : Inv s p → step s (.sigClear t) = some s' → proto p (.sigClear t) = some p' → Inv s' p' := by ustep p
theorem p_sigPush (s s' : St) (p p' : Phase) (t x) : Inv s p → step s (.sigPush t x) = some s' → proto p (.sigPush t x) = some p' → Inv s' p' := by ustep p
theorem p_sigRet (s s' : St) (p p' : Phase) (t) : Inv s p → step s (.sigRet t) = some s' → proto p (.sigRet t) = some p' → Inv s' p' := by ustep p

theorem inv_step (s s' : St) (p p' : Phase) (l : Lbl) (h : Inv s p) (hs : step s l = some s')
    (hp : proto p l = some p') : Inv s' p' := by
  cases l with
  | announce t => exact p_announce s s' p p' t h hs hp
  | blockBegin t => exact p_blockBegin s s' p p' t h hs hp
  | cbBegin t => exact p_cbBegin s s' p p' t h hs hp
  | cbPublish t => exact p_cbPublish s s' p p' t h hs hp
  | resume t => exact p_resume s s' p p' t h hs hp
  | claim t => exact p_claim s s' p p' t h hs hp
  | sigSpin t => exact p_sigSpin s s' p p' t h hs hp
  | sigRead t x => exact p_sigRead s s' p p' t x h hs hp
  | sigClear t => exact p_sigClear s s' p p' t h hs hp
  | sigPush t x => exact p_sigPush s s' p p' t x h hs hp
  | sigRet t => exact p_sigRet s s' p p' t h hs hp

theorem pstep_iff (s s' : St) (p p' : Phase) (l : Lbl) :
    pstep (s, p) l = some (s', p') ↔ (step s l = some s' ∧ proto p l = some p') := by
  simp only [pstep]
  cases h1 : step s l <;> cases h2 : proto p l <;> simp

/-- a run of the product is a run of the library that the protocol monitor accepts -/
theorem runs_pstep (ls : List Lbl) : ∀ (s s' : St) (p p' : Phase),
    runs pstep (s, p) ls = some (s', p') ↔ (runs step s ls = some s' ∧ runs proto p ls = some p') := by
  induction ls with
  | nil => intro s s' p p'; simp [runs, Prod.ext_iff]
  | cons l ls ih =>
    intro s s' p p'
    simp only [runs]
    cases h1 : step s l with
    | none => simp [pstep, h1]
    | some s1 =>
      cases h2 : proto p l with
      | none => simp [pstep, h1, h2]
      | some p1 =>
        have : pstep (s, p) l = some (s1, p1) := (pstep_iff s s1 p p1 l).mpr ⟨h1, h2⟩
        simp only [this]
        exact ih s1 s' p1 p'

theorem pinv_step (sp : St × Phase) (l : Lbl) (sp' : St × Phase) (h : Inv sp.1 sp.2)
    (hs : pstep sp l = some sp') : Inv sp'.1 sp'.2 := by
  obtain ⟨s, p⟩ := sp
  obtain ⟨s', p'⟩ := sp'
  have := (pstep_iff s s' p p' l).mp hs
  exact inv_step s s' p p' l h this.1 this.2

/-- the invariant holds after every label sequence that the library can execute and that follows
    the protocol (any threads, any schedule, any number of rendezvous) -/
theorem reachable_inv (s : St) (p : Phase) (h : Reachable pstep pinit (s, p)) : Inv s p :=
  inv_reachable pstep pinit (fun sp => Inv sp.1 sp.2) inv_init (fun sp l sp' => pinv_step sp l sp') (s, p) h

theorem reachable_of_runs (ls : List Lbl) (s : St) (p : Phase) (h1 : runs step init ls = some s)
    (h2 : runs proto .free ls = some p) : Reachable pstep pinit (s, p) :=
  ⟨ls, (runs_pstep ls init s .free p).mpr ⟨h1, h2⟩⟩

/-- induction over executed label sequences, extending the trace at its end -/
theorem runs_trace_ind {S L : Type} (step : S → L → Option S) (P : List L → S → Prop)
    (hs : ∀ ls s l s', P ls s → step s l = some s' → P (ls ++ [l]) s') :
    ∀ (ls pre : List L) (s0 s : S), P pre s0 → runs step s0 ls = some s → P (pre ++ ls) s := by
  intro ls
  induction ls with
  | nil => intro pre s0 s h hr; simp [runs] at hr; subst hr; simpa using h
  | cons l ls ih =>
    intro pre s0 s h hr
    simp only [runs] at hr
    split at hr
    · rename_i s1 h1
      have := ih (pre ++ [l]) s1 s (hs pre s0 l s1 h h1) hr
      simpa using this
    · simp at hr

/-! ### who announced / claimed / was pushed / resumed, in order, along a label sequence -/
def annOf : Lbl → Option Tid | .announce t => some t | _ => none
def claimOf : Lbl → Option Tid | .claim t => some t | _ => none
def pushOf : Lbl → Option Tid | .sigPush _ x => some x | _ => none
def resumeOf : Lbl → Option Tid | .resume t => some t | _ => none
/-- the waiters in the order in which they announced -/
def anns (ls : List Lbl) : List Tid := ls.filterMap annOf
/-- the signalers in the order in which they claimed -/
def claims (ls : List Lbl) : List Tid := ls.filterMap claimOf
/-- the threads handed to the run queue, in order -/
def pushed (ls : List Lbl) : List Tid := ls.filterMap pushOf
/-- the threads that resumed from `myth_uncond_wait`, in order -/
def resumed (ls : List Lbl) : List Tid := ls.filterMap resumeOf

structure TrInv (ls : List Lbl) (s : St) (p : Phase) : Prop where
  inv : Inv s p
  fr  : p = .free → anns ls = pushed ls ∧ (claims ls).length = (pushed ls).length
  an  : ∀ w, p = .announced w → anns ls = pushed ls ++ [w] ∧ (claims ls).length = (pushed ls).length
  cl  : ∀ w q, p = .claimed w q → (claims ls).length = (anns ls).length ∧
          (s.pc q = .sd → anns ls = pushed ls) ∧ (s.pc q ≠ .sd → anns ls = pushed ls ++ [w])

macro "tfinish" : tactic => `(tactic| (
    all_goals (try simp only [upd_apply, anns, claims, pushed, resumed, List.filterMap_append, List.filterMap_cons,
      List.filterMap_nil, annOf, claimOf, pushOf, resumeOf, List.append_nil, List.length_append, List.length_cons,
      List.length_nil] at *)
    all_goals (first | grind | skip)))

theorem trinv_step (ls : List Lbl) (sp : St × Phase) (l : Lbl) (sp' : St × Phase)
    (h : TrInv ls sp.1 sp.2) (hs : pstep sp l = some sp') : TrInv (ls ++ [l]) sp'.1 sp'.2 := by
  obtain ⟨s, p⟩ := sp
  obtain ⟨s', p'⟩ := sp'
  have hsp := (pstep_iff s s' p p' l).mp hs
  obtain ⟨hs, hp⟩ := hsp
  obtain ⟨hi, hfr, han, hcl⟩ := h
  have hi' := inv_step s s' p p' l hi hs hp
  obtain ⟨hsv, hthA, hrqR, hrqN, hfrT, hfrQ, hanW, hanT, hanQ, hclN, hclQ, hclS, hclG, hclC, hclP, hclD⟩ := hi
  simp only at hfr han hcl hsv hthA hrqR hrqN hfrT hfrQ hanW hanT hanQ hclN hclQ hclS hclG hclC hclP hclD ⊢
  refine ⟨hi', ?_, ?_, ?_⟩ <;> clear hi' <;>
  (cases l <;> simp only [step] at hs <;> (first | (split at hs) | skip) <;> (try simp at hs) <;> (try subst hs) <;>
    cases p <;> simp only [proto] at hp <;> (first | (split at hp) | skip) <;> (first | (split at hp) | skip) <;>
    (try simp at hp) <;> (try subst hp) <;> tfinish)

theorem trinv (ls : List Lbl) (s : St) (p : Phase) (h1 : runs step init ls = some s)
    (h2 : runs proto .free ls = some p) : TrInv ls s p := by
  have hr : runs pstep pinit ls = some (s, p) := (runs_pstep ls init s .free p).mpr ⟨h1, h2⟩
  have := runs_trace_ind pstep (fun ls sp => TrInv ls sp.1 sp.2) trinv_step ls [] pinit (s, p)
    (by refine ⟨inv_init, ?_, ?_, ?_⟩ <;> simp [pinit, anns, claims, pushed])  hr
  simpa using this

/-! ### per-thread accounting (pure control flow of the model, no protocol needed) -/
def isClaimBy (q : Tid) : Lbl → Bool | .claim t => t == q | _ => false
def isPushBy (q : Tid) : Lbl → Bool | .sigPush t _ => t == q | _ => false
def isRetBy (q : Tid) : Lbl → Bool | .sigRet t => t == q | _ => false
def isAnnOf (w : Tid) : Lbl → Bool | .announce t => t == w | _ => false
def isPushOf (w : Tid) : Lbl → Bool | .sigPush _ x => x == w | _ => false
def isResumeOf (w : Tid) : Lbl → Bool | .resume t => t == w | _ => false

/-- between its announcement and the push that hands it back -/
def blocking : PC → Bool
  | .ann | .sw | .cb | .asleep => true
  | _ => false

structure SigInv (ls : List Lbl) (s : St) : Prop where
  ret  : ∀ q, ls.countP (isRetBy q) + (if s.pc q = .sd then 1 else 0) = ls.countP (isPushBy q)
  push : ∀ q, ls.countP (isPushBy q) + (if inSignal (s.pc q) = true then 1 else 0) = ls.countP (isClaimBy q)
  res  : ∀ w, ls.countP (isResumeOf w) + (if s.pc w = .runnable then 1 else 0) = ls.countP (isPushOf w)
  ann  : ∀ w, ls.countP (isPushOf w) + (if blocking (s.pc w) = true then 1 else 0) = ls.countP (isAnnOf w)

theorem siginv_step (ls : List Lbl) (s : St) (l : Lbl) (s' : St) (h : SigInv ls s)
    (hs : step s l = some s') : SigInv (ls ++ [l]) s' := by
  obtain ⟨h1, h2, h3, h4⟩ := h
  cases l <;> simp only [step] at hs <;> (first | (split at hs) | skip) <;> (try simp at hs) <;> (try subst hs) <;>
    (constructor <;> intro q <;> have a := h1 q <;> have b := h2 q <;> have c := h3 q <;> have d := h4 q <;>
      simp only [List.countP_append, List.countP_cons, List.countP_nil, isClaimBy, isPushBy, isRetBy, isAnnOf,
        isPushOf, isResumeOf, upd_apply, inSignal, blocking] at * <;>
      grind [inSignal, blocking])

theorem siginv (ls : List Lbl) (s : St) (h : runs step init ls = some s) : SigInv ls s := by
  have := runs_trace_ind step SigInv siginv_step ls [] init s
    (by constructor <;> simp [init, inSignal, blocking]) h
  simpa using this

/-! ### rank: library steps of the waiter and its signaler still missing until the waiter has resumed -/
def wrank : PC → Nat | .ann => 3 | .sw => 2 | .cb => 1 | _ => 0
def qrank : PC → Nat | .sg => 3 | .sc _ => 2 | .sp _ => 1 | _ => 0
def rank (s : St) (w q : Tid) : Nat := wrank (s.pc w) + qrank (s.pc q) + 1

end MythVerif.Uncond
