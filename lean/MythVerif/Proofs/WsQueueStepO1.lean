import MythVerif.Proofs.WsQueueTac
/-! Per-program-counter preservation lemmas of the work-stealing queue invariant (generated list, uniform script). -/
namespace MythVerif.Wsq

set_option maxHeartbeats 1000000 in
theorem o_pu0 (s s' : St) (e) : Inv s → s.opc = .pu0 e → stepO s = some s' → Inv s' := by wsq_ostep

set_option maxHeartbeats 1000000 in
theorem o_pum (s s' : St) (e off) : Inv s → s.opc = .pum e off → stepO s = some s' → Inv s' := by wsq_ostep

set_option maxHeartbeats 1000000 in
theorem o_pus (s s' : St) (e off) : Inv s → s.opc = .pus e off → stepO s = some s' → Inv s' := by wsq_ostep

set_option maxHeartbeats 1000000 in
theorem o_puv (s s' : St) (e off) : Inv s → s.opc = .puv e off → stepO s = some s' → Inv s' := by wsq_ostep

set_option maxHeartbeats 1000000 in
theorem o_pux (s s' : St) (e t) : Inv s → s.opc = .pux e t → stepO s = some s' → Inv s' := by wsq_ostep

end MythVerif.Wsq
