import MythVerif.Model.Life
/-! Inductive invariant of the thread life-cycle model. -/
namespace MythVerif.Life

def tHoldsLock : TPc → Bool
  | .fRead _ | .fSwitched _ => true
  | _ => false

def tBeforeLock : TPc → Bool
  | .created | .run | .fBegin => true
  | _ => false

def tStackGone : TPc → Bool
  | .fSwitched _ | .fFreeing | .fDone => true
  | _ => false

structure Inv (s : St) : Prop where
  tl    : s.tlock = true ↔ tHoldsLock s.tpc = true
  jl    : ∀ j, s.lock = some j ↔ (s.pc j = .jBlock ∨ s.pc j = .jSw)
  excl  : s.tlock = true → s.lock = none
  finD  : s.fin = true → (s.tpc = .fDone ∧ s.det = false)
  doneF : s.tpc = .fDone → (s.fin = true ∨ s.det = true)
  free  : s.tpc = .fFreeing → s.det = true
  rv0   : (s.tpc = .created ∨ s.tpc = .run) ↔ s.retv = none
  rv1   : s.retv = none ∨ s.retv = some s.result
  st0   : s.tpc = .created ↔ s.started = 0
  st1   : s.started ≤ 1
  stk   : s.stackFrees = if tStackGone s.tpc = true then 1 else 0
  blk   : ∀ j, (s.pc j = .jBlock ∨ s.pc j = .jSw) → tBeforeLock s.tpc = true
  slp   : ∀ j, s.pc j = .asleep →
            (tBeforeLock s.tpc = true ∧ s.jt = some j) ∨ s.tpc = .fRead (some j) ∨ s.tpc = .fSwitched (some j)
  wjt   : ∀ w, (s.tpc = .fRead w ∨ s.tpc = .fSwitched w) → w = s.jt
  jtS   : ∀ j, s.jt = some j → (s.jSaved j = true ∧ s.reaper = some j)
  swS   : ∀ j, (s.pc j = .jSw ∨ s.pc j = .asleep) → s.jSaved j = true
  rp    : ∀ j, s.pc j ≠ .idle ↔ s.reaper = some j
  cl    : s.claimed = true ↔ (s.initDet = true ∨ s.reaper ≠ none)
  idt   : s.initDet = true → (s.det = true ∧ s.reaper = none)
  detR  : s.det = true → s.initDet = true ∨ ∃ j, s.pc j = .ddoneSet
  dSet  : ∀ j, s.pc j = .ddoneSet → s.det = true
  detC  : s.det = true → s.claimed = true
  spn   : ∀ j, (s.pc j = .dFree ∨ (∃ v, s.pc j = .jFree v)) → s.fin = true
  jfv   : ∀ j v, (s.pc j = .jFree v ∨ s.pc j = .done v) → s.retv = some v
  rf0   : s.rfreed = true → s.reaper ≠ none
  rf1   : ∀ j, s.reaper = some j → (s.rfreed = true ↔ ((∃ v, s.pc j = .done v) ∨ s.pc j = .ddone))
  dfc   : s.descFrees = (if s.tpc = .fDone ∧ s.det = true then 1 else 0) + (if s.rfreed = true then 1 else 0)
  rfF   : s.rfreed = true → s.fin = true

theorem inv_init (arg : Val) (d : Bool) : Inv (init arg d) := by
  constructor <;> simp [init, tHoldsLock, tBeforeLock, tStackGone]

macro "lfinish" : tactic => `(tactic| (
    all_goals (simp only [upd_apply, tHoldsLock, tBeforeLock, tStackGone, lockFree] at *)
    all_goals (first | grind [tHoldsLock, tBeforeLock, tStackGone] | skip)))

macro "lstep" : tactic => `(tactic| (
  intro h hs
  obtain ⟨htl, hjl, hexcl, hfinD, hdoneF, hfree, hrv0, hrv1, hst0, hst1, hstk, hblk, hslp, hwjt, hjtS, hswS, hrp, hcl, hidt, hdetR, hdSet, hdetC, hspn, hjfv, hrf0, hrf1, hdfc, hrfF⟩ := h
  simp only [step] at hs
  (first | (split at hs) | skip)
  all_goals (first | (split at hs) | skip)
  all_goals (first | (split at hs) | skip)
  all_goals (first | (split at hs) | skip)
  all_goals (try simp at hs)
  all_goals (try subst hs)
  all_goals (try (constructor; lfinish))))

theorem p_tStart (s s' : St) : Inv s → step s .tStart = some s' → Inv s' := by lstep
theorem p_tFinish (s s' : St) (v) : Inv s → step s (.tFinish v) = some s' → Inv s' := by lstep
theorem p_tLockRead (s s' : St) (w) : Inv s → step s (.tLockRead w) = some s' → Inv s' := by lstep
theorem p_tStackFree (s s' : St) : Inv s → step s .tStackFree = some s' → Inv s' := by lstep
theorem p_tDescFree (s s' : St) : Inv s → step s .tDescFree = some s' → Inv s' := by lstep
theorem p_tPublish (s s' : St) (d) : Inv s → step s (.tPublish d) = some s' → Inv s' := by lstep
theorem p_jSwitch (s s' : St) (j) : Inv s → step s (.jSwitch j) = some s' → Inv s' := by lstep
theorem p_jSet (s s' : St) (j) : Inv s → step s (.jSet j) = some s' → Inv s' := by lstep
theorem p_jSpin (s s' : St) (j) : Inv s → step s (.jSpin j) = some s' → Inv s' := by lstep
theorem p_jReap (s s' : St) (j v) : Inv s → step s (.jReap j v) = some s' → Inv s' := by lstep
theorem p_descFree (s s' : St) (j) : Inv s → step s (.descFree j) = some s' → Inv s' := by lstep
theorem p_tjLocked (s s' : St) (j f) : Inv s → step s (.tjLocked j f) = some s' → Inv s' := by lstep
theorem p_dFast (s s' : St) (j f) : Inv s → step s (.dFast j f) = some s' → Inv s' := by lstep
theorem p_dLocked (s s' : St) (j f) : Inv s → step s (.dLocked j f) = some s' → Inv s' := by lstep


/-- if the record's lock is free and nobody has claimed the thread, a thread that is not yet
    published has not even locked its record -/
theorem before_lock_of_free (s : St) (h : Inv s) (hl : s.tlock = false) (hf : s.fin = false)
    (hc : s.claimed = false) : tBeforeLock s.tpc = true := by
  have hd : s.det = false := by
    cases hdet : s.det with
    | false => rfl
    | true => have := h.detC hdet; simp [hc] at this
  cases htp : s.tpc with
  | created => rfl
  | run => rfl
  | fBegin => rfl
  | fRead w => have := h.tl.mpr (by simp [htp, tHoldsLock]); simp [hl] at this
  | fSwitched w => have := h.tl.mpr (by simp [htp, tHoldsLock]); simp [hl] at this
  | fFreeing => have := h.free htp; simp [hd] at this
  | fDone => rcases h.doneF htp with e | e <;> simp_all

theorem p_jLocked (s s' : St) (j f) : Inv s → step s (.jLocked j f) = some s' → Inv s' := by
  intro h hs
  have hbl := before_lock_of_free s h
  obtain ⟨htl, hjl, hexcl, hfinD, hdoneF, hfree, hrv0, hrv1, hst0, hst1, hstk, hblk, hslp, hwjt, hjtS, hswS, hrp, hcl, hidt, hdetR, hdSet, hdetC, hspn, hjfv, hrf0, hrf1, hdfc, hrfF⟩ := h
  simp only [step] at hs
  split at hs
  · rename_i hc
    simp only [lockFree, decide_eq_true_eq] at hc
    split at hs
    · simp at hs; subst hs
      constructor; lfinish
    · rename_i hf
      simp at hs; subst hs
      have hb := hbl hc.2.1.2 (by rw [← hc.2.2.1]; simpa using hf) hc.2.2.2
      constructor
      case blk => intro j' _; exact hb
      all_goals lfinish
  · simp at hs

end MythVerif.Life
