import MythVerif.Proofs.WsQueueTsoTac
/-! Preservation lemmas of the TSO invariant (owner: push). -/
namespace MythVerif.WsqTso
open MythVerif.Wsq

macro "tso_go" : tactic => `(tactic| (
  (first | (split at hs) | skip)
  all_goals (first | (split at hs) | skip)
  all_goals (try simp at hs)
  all_goals (try subst hs)))

theorem o_pu0 (s s' : St) (e) : Inv s → s.opc = .pu0 e → stepO s = some s' → Inv s' := by
  intro h heq hs
  have hv := carry_viewTop _ _ _ _ _ (h.carryC (by simp [heq, carry]))
  simp only [stepO, heq, hv] at hs
  simp at hs; subst hs
  tso_fastO h heq [carryC]

theorem o_pu0f (s s' : St) (e t) : Inv s → s.opc = .pu0f e t → stepO s = some s' → Inv s' := by
  intro h heq hs
  have hcfg := h.cfg
  simp only [stepO, heq, fenceOk, hcfg, code_pushRb] at hs
  split at hs
  · rename_i hb
    simp at hb
    split at hs
    all_goals (simp at hs; subst hs)
    all_goals tso_fastO h heq [pu0f, carryC]
  · simp at hs

theorem o_pu2 (s s' : St) (e t) : Inv s → s.opc = .pu2 e t → stepO s = some s' → Inv s' := by
  intro h heq hs
  simp only [stepO, heq] at hs
  simp at hs; subst hs
  tso_fastO h heq [pu2]
theorem o_pu1 (s s' : St) (e t) : Inv s → s.opc = .pu1 e t → stepO s = some s' → Inv s' := by
  intro h heq hs
  simp only [stepO, heq] at hs
  simp at hs; subst hs
  tso_fastO h heq [pu1]

end MythVerif.WsqTso
