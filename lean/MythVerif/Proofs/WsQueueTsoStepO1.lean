import MythVerif.Proofs.WsQueueTsoTac
/-! Preservation lemmas of the TSO invariant (owner: push). -/
namespace MythVerif.WsqTso
open MythVerif.Wsq

macro "tso_go" : tactic => `(tactic| (
  (first | (split at hs) | skip)
  all_goals (first | (split at hs) | skip)
  all_goals (try simp at hs)
  all_goals (try subst hs)))

set_option maxHeartbeats 4000000 in
theorem o_pu0 (s s' : St) (e) : Inv s → s.opc = .pu0 e → stepO s = some s' → Inv s' := by
  intro h heq hs
  have hv := carry_viewTop _ _ _ _ _ (h.carryC (by simp [heq, carry]))
  cases h
  simp only [stepO, heq, hv] at hs
  simp at hs; subst hs
  simp only [heq, ownerLocked, carry, resetting, ownerFlight] at *
  tso_finish

set_option maxHeartbeats 4000000 in
theorem o_pu0f (s s' : St) (e t) : Inv s → s.opc = .pu0f e t → stepO s = some s' → Inv s' := by
  intro h heq hs
  have hcfg := h.cfg
  cases h
  simp only [stepO, heq, fenceOk, hcfg, code_pushRb] at hs
  split at hs
  · rename_i hb
    simp at hb
    split at hs
    all_goals (simp at hs; subst hs)
    all_goals simp only [heq, ownerLocked, carry, resetting, ownerFlight] at *
    all_goals tso_finish
  · simp at hs

set_option maxHeartbeats 4000000 in
theorem o_pu2 (s s' : St) (e t) : Inv s → s.opc = .pu2 e t → stepO s = some s' → Inv s' := by
  intro h heq hs
  cases h
  simp only [stepO, heq] at hs
  simp at hs; subst hs
  simp only [heq, ownerLocked, carry, resetting, ownerFlight] at *
  tso_finish
set_option maxHeartbeats 4000000 in
theorem o_pu1 (s s' : St) (e t) : Inv s → s.opc = .pu1 e t → stepO s = some s' → Inv s' := by
  intro h heq hs
  cases h
  simp only [stepO, heq] at hs
  simp at hs; subst hs
  simp only [heq, ownerLocked, carry, resetting, ownerFlight] at *
  tso_finish

end MythVerif.WsqTso
