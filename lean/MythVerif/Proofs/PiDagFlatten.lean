import MythVerif.Model.PiDag
/-! Structure of `dr_pi_dag_enum_nodes`: every materialised node gets exactly one slot of `T`, and
processing a node never changes the `info` of a slot that already exists. -/
namespace MythVerif.PiDag
open MythVerif.DagRec

mutual
/-- number of proper descendants of an in-memory node -/
def descT : DNode → Nat
  | .ival _ => 0
  | .create _ ch => 1 + descT ch
  | .group _ ds => descL ds
def descL : DList → Nat
  | .nil => 0
  | .cons d r => 1 + descT d + descL r
end

mutual
theorem count_eq_desc : ∀ d : DNode, d.count = 1 + descT d
  | .ival _ => rfl
  | .create _ ch => by simp [DNode.count, descT, count_eq_desc ch]
  | .group _ ds => by simp [DNode.count, descT, countL_eq_desc ds]
theorem countL_eq_desc : ∀ ds : DList, ds.count = descL ds
  | .nil => rfl
  | .cons d r => by simp [DList.count, descL, count_eq_desc d, countL_eq_desc r]
end

/-- slots below `n` keep their `info` -/
def KeepInfo (n : Nat) (T T' : Array PNode) : Prop :=
  n ≤ T'.size ∧ ∀ j, j < n → T'[j]!.info = T[j]!.info

theorem KeepInfo.refl' (T : Array PNode) : KeepInfo T.size T T := ⟨Nat.le_refl _, fun _ _ => rfl⟩

theorem KeepInfo.trans' {n m : Nat} {T T' T'' : Array PNode} (h1 : KeepInfo n T T') (h2 : KeepInfo m T' T'')
    (hnm : n ≤ m) : KeepInfo n T T'' :=
  ⟨Nat.le_trans hnm h2.1, fun j hj => by rw [h2.2 j (by omega), h1.2 j hj]⟩

theorem push_get_lt (T : Array PNode) (x : PNode) (j : Nat) (h : j < T.size) : (T.push x)[j]! = T[j]! := by
  rw [getElem!_pos _ j (by simp; omega), getElem!_pos _ j h, Array.getElem_push_lt]

theorem modify_info (T : Array PNode) (i j : Nat) (f : PNode → PNode) (hf : ∀ x, (f x).info = x.info) :
    (T.modify i f)[j]!.info = T[j]!.info := by
  by_cases hj : j < T.size
  · rw [getElem!_pos _ j (by simpa using hj), getElem!_pos _ j hj, Array.getElem_modify]
    split
    · exact hf _
    · rfl
  · have h1 : (T.modify i f)[j]! = default := by apply getElem!_neg; simpa using hj
    have h2 : T[j]! = default := by apply getElem!_neg; exact hj
    rw [h1, h2]

theorem pushAll_spec (sc : Nat) : ∀ (ds : DList) (s : FlatSt),
    (pushAll sc ds s).T.size = s.T.size + ds.length ∧ KeepInfo s.T.size s.T (pushAll sc ds s).T
  | .nil, s => by simp [pushAll, DList.length]; exact KeepInfo.refl' _
  | .cons d r, s => by
    simp only [pushAll, DList.length]
    have ih := pushAll_spec sc r { T := s.T.push (copyNode sc s.st d.info).1, st := (copyNode sc s.st d.info).2 }
    simp only [Array.size_push] at ih
    refine ⟨by rw [ih.1]; omega, ?_⟩
    refine ⟨by rw [ih.1]; omega, fun j hj => ?_⟩
    rw [ih.2.2 j (by omega), push_get_lt _ _ _ hj]

mutual
theorem flatNode_spec (sc : Nat) : ∀ (d : DNode) (idx : Nat) (s : FlatSt),
    (flatNode sc d idx s).T.size = s.T.size + descT d ∧ KeepInfo s.T.size s.T (flatNode sc d idx s).T
  | .ival _, idx, s => by simp [flatNode, descT]; exact KeepInfo.refl' _
  | .create i ch, idx, s => by
    simp only [flatNode, descT]
    have ih := flatNode_spec sc ch s.T.size
      { T := (s.T.push (copyNode sc s.st ch.info).1).modify idx (fun x => { x with a := s.T.size - idx }),
        st := (copyNode sc s.st ch.info).2 }
    simp only [Array.size_modify, Array.size_push] at ih
    refine ⟨by rw [ih.1]; omega, ?_⟩
    refine ⟨by rw [ih.1]; omega, fun j hj => ?_⟩
    have hm := modify_info (s.T.push (copyNode sc s.st ch.info).1) idx j
      (fun x => { x with a := s.T.size - idx }) (fun _ => rfl)
    rw [ih.2.2 j (by omega), hm, push_get_lt _ _ _ hj]
  | .group i ds, idx, s => by
    simp only [flatNode, descT]
    have hp := pushAll_spec sc ds s
    have ih := flatList_spec sc ds s.T.size
      { T := (pushAll sc ds s).T.modify idx (fun x => { x with a := s.T.size - idx, b := (pushAll sc ds s).T.size - idx }),
        st := (pushAll sc ds s).st }
    simp only [Array.size_modify] at ih
    have h1 := ih.1.1
    have h2 := ih.1.2
    have h3 := hp.1
    refine ⟨by omega, ?_⟩
    refine ⟨by omega, fun j hj => ?_⟩
    have hm := modify_info (pushAll sc ds s).T idx j
      (fun x => { x with a := s.T.size - idx, b := (pushAll sc ds s).T.size - idx }) (fun _ => rfl)
    rw [ih.2.2 j (by omega), hm, hp.2.2 j hj]
theorem flatList_spec (sc : Nat) : ∀ (ds : DList) (k : Nat) (s : FlatSt),
    ((flatList sc ds k s).T.size + ds.length = s.T.size + descL ds ∧ ds.length ≤ descL ds) ∧
      KeepInfo s.T.size s.T (flatList sc ds k s).T
  | .nil, k, s => by simp [flatList, descL, DList.length]; exact KeepInfo.refl' _
  | .cons d r, k, s => by
    simp only [flatList, descL, DList.length]
    have h1 := flatNode_spec sc d k s
    have h2 := flatList_spec sc r (k + 1) (flatNode sc d k s)
    refine ⟨⟨by have := h2.1.1; rw [h1.1] at this; omega, by have := h2.1.2; omega⟩, ?_⟩
    exact KeepInfo.trans' h1.2 h2.2 (by rw [h1.1]; omega)
end

theorem setEdgePtrs_spec (T : Array PNode) (E : List PEdge) :
    (setEdgePtrs T E).size = T.size ∧ ∀ j : Nat, (setEdgePtrs T E)[j]!.info = T[j]!.info := by
  refine ⟨by simp [setEdgePtrs], fun j => ?_⟩
  by_cases hj : j < T.size
  · rw [getElem!_pos _ j (by simpa [setEdgePtrs] using hj), getElem!_pos _ j hj]
    simp [setEdgePtrs]
  · have h1 : (setEdgePtrs T E)[j]! = default := by apply getElem!_neg; simpa [setEdgePtrs] using hj
    have h2 : T[j]! = default := by apply getElem!_neg; exact hj
    rw [h1, h2]

/-- every materialised node gets exactly one slot, and slot 0 is the copy of the root -/
theorem flatten_spec (sc nw : Nat) (d : DNode) :
    (flatten sc nw d).T.size = d.count ∧ (flatten sc nw d).T[0]!.info = (copyNode sc [] d.info).1.info := by
  unfold flatten finishDag enumNodes
  simp only
  have h := flatNode_spec sc d 0 { T := #[(copyNode sc [] d.info).1], st := (copyNode sc [] d.info).2 }
  have hs := setEdgePtrs_spec (flatNode sc d 0 { T := #[(copyNode sc [] d.info).1], st := (copyNode sc [] d.info).2 }).T
    (sortEdges (enumEdges (flatNode sc d 0 { T := #[(copyNode sc [] d.info).1], st := (copyNode sc [] d.info).2 }).T))
  refine ⟨by rw [hs.1, h.1, count_eq_desc]; simp <;> omega, ?_⟩
  rw [hs.2 0, h.2.2 0 (by simp)]
  simp

end MythVerif.PiDag
