import MythVerif.Proofs.WsQueueTsoTac
/-! Preservation lemmas of the TSO invariant (drain of a passer's inserting `base` store: the
    linearization point of trypass). -/
namespace MythVerif.WsqTso
open MythVerif.Wsq

set_option maxHeartbeats 4000000 in
theorem f_T_baseI (s : St) (p : Pid) (e : Elem) (ok : Bool) : Inv s → s.lock = .thief p →
    s.bufT p = [.baseI (s.lb - 1) e] → s.tpc p = .tp4 ok → s.ptr (s.lb - 1) = some e →
    Inv (applySto { s with bufT := upd s.bufT p [] } (.baseI (s.lb - 1) e)) := by
  intro h hl hb hpc hp
  have hmw := mwin_cons s.A s.ptr s.lb s.top _ e h.mwin hp
  simp only [applySto]
  cases hopc : s.opc
  all_goals (cases h; simp only [hopc, ownerLocked, carry, resetting, ownerFlight] at *)
  all_goals (
    constructor
    all_goals (try simp only [ownerLocked, carry, resetting, ownerFlight, upd_apply, applySto])
    case mwin => exact hmw
    tso_rest)

end MythVerif.WsqTso
