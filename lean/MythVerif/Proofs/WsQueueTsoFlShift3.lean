import MythVerif.Proofs.WsQueueTsoTac
import MythVerif.Proofs.WsQueueTsoStepF8
/-! Preservation lemmas of the TSO invariant (generated per program counter of the owner): drain of an owner `shift` store at pt7, pt8, pt9. -/
namespace MythVerif.WsqTso
open MythVerif.Wsq

theorem f_O_shift_pt7 (s : St) (lo0 hi0 off0 : Int) (rest : List Sto) (e b) : Inv s → s.opc = .pt7 e b →
    s.bufO = .shift lo0 hi0 off0 :: rest → Inv (applySto { s with bufO := rest } (.shift lo0 hi0 off0)) := by
  intro h hpc hb
  obtain ⟨rfl, rfl, rfl, hres⟩ := shift_head s h lo0 hi0 off0 rest hb
  have hmw := mwin_shift s.A s.ptr s.lb s.lt s.sh h.len (fun k hk => h.mwin k hk (Or.inr hres))
  simp only [applySto]
  tso_coreO h hpc [pt7]
  constructor
  case mwin => intro k hk _; exact hmw k hk
  tso_goalsO h hpc

theorem f_O_shift_pt8 (s : St) (lo0 hi0 off0 : Int) (rest : List Sto) (e b) : Inv s → s.opc = .pt8 e b →
    s.bufO = .shift lo0 hi0 off0 :: rest → Inv (applySto { s with bufO := rest } (.shift lo0 hi0 off0)) := by
  intro h hpc hb
  obtain ⟨rfl, rfl, rfl, hres⟩ := shift_head s h lo0 hi0 off0 rest hb
  have hmw := mwin_shift s.A s.ptr s.lb s.lt s.sh h.len (fun k hk => h.mwin k hk (Or.inr hres))
  simp only [applySto]
  tso_coreO h hpc [pt8]
  constructor
  case mwin => intro k hk _; exact hmw k hk
  tso_goalsO h hpc

theorem f_O_shift_pt9 (s : St) (lo0 hi0 off0 : Int) (rest : List Sto) : Inv s → s.opc = .pt9 →
    s.bufO = .shift lo0 hi0 off0 :: rest → Inv (applySto { s with bufO := rest } (.shift lo0 hi0 off0)) := by
  intro h hpc hb
  obtain ⟨rfl, rfl, rfl, hres⟩ := shift_head s h lo0 hi0 off0 rest hb
  have hmw := mwin_shift s.A s.ptr s.lb s.lt s.sh h.len (fun k hk => h.mwin k hk (Or.inr hres))
  simp only [applySto]
  tso_coreO h hpc [pt9]
  constructor
  case mwin => intro k hk _; exact hmw k hk
  tso_goalsO h hpc

end MythVerif.WsqTso
