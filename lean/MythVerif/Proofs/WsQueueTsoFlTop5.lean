import MythVerif.Proofs.WsQueueTsoTac
/-! Preservation lemmas of the TSO invariant (generated per program counter of the owner): drain of an owner `top` store at pt5, pt6, pt7. -/
namespace MythVerif.WsqTso
open MythVerif.Wsq

theorem f_O_top_pt5 (s : St) (v0) (rest : List Sto) (e off) : Inv s → s.opc = .pt5 e off →
    s.bufO = .top v0 :: rest → Inv (applySto { s with bufO := rest } (.top v0)) := by
  intro h hpc hb
  simp only [applySto]
  tso_fastO h hpc [pt5]

theorem f_O_top_pt6 (s : St) (v0) (rest : List Sto) (e) : Inv s → s.opc = .pt6 e →
    s.bufO = .top v0 :: rest → Inv (applySto { s with bufO := rest } (.top v0)) := by
  intro h hpc hb
  simp only [applySto]
  tso_fastO h hpc [pt6]

theorem f_O_top_pt7 (s : St) (v0) (rest : List Sto) (e b) : Inv s → s.opc = .pt7 e b →
    s.bufO = .top v0 :: rest → Inv (applySto { s with bufO := rest } (.top v0)) := by
  intro h hpc hb
  simp only [applySto]
  tso_fastO h hpc [pt7]

end MythVerif.WsqTso
