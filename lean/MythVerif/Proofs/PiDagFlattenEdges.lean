import MythVerif.Proofs.PiDagTreeEdges
/-! The `edgeEnds` and `counted` conjuncts of the checker for every dump of a recorded DAG. -/
namespace MythVerif.PiDag
open MythVerif.DagRec

/-! ### edge endpoints are leaves inside the DAG -/

/-- a leaf slot of `T` -/
def LeafSlot (T : Array PNode) (r : Nat) : Prop := r < T.size ∧ isLeaf T[r]! = true

theorem firstN_leafSlot (T : Array PNode) (d : DNode) (g b' : Nat) (hl : LayN T d g b') (hw : gW d = true)
    (hg : g < T.size) (hb : b' + descT d ≤ T.size) : LeafSlot T (firstN d g b') := by
  obtain ⟨h1, h2⟩ := firstN_leaf T d g b' hl hw
  exact ⟨by rcases h1 with e | e <;> omega, h2⟩

theorem lastN_leafSlot (T : Array PNode) (d : DNode) (g b' : Nat) (hl : LayN T d g b') (hw : gW d = true)
    (hg : g < T.size) (hb : b' + descT d ≤ T.size) : LeafSlot T (lastN d g b') := by
  obtain ⟨h1, h2⟩ := lastN_leaf T d g b' hl hw
  exact ⟨by rcases h1 with e | e <;> omega, h2⟩

theorem createOf_ends (T : Array PNode) (t : Nat) (d : DNode) (y base : Nat) (hl : LayN T d y base) (hw : gW d = true)
    (hy : y < T.size) (hb : base + descT d ≤ T.size) :
    ∀ e ∈ createOf t d y base, LeafSlot T e.u ∧ (e.v = t ∨ LeafSlot T e.v) := by
  intro e he
  cases d with
  | ival _ => simp [createOf] at he
  | group _ _ => simp [createOf] at he
  | create i ch =>
    have hleaf := isLeaf_of_lay hl hw (fun _ _ h => by cases h)
    simp only [LayN] at hl
    simp only [gW, Bool.and_eq_true] at hw
    simp only [descT] at hb
    have f := firstN_leafSlot T ch base (base + 1) hl.2.2.2 hw.2 (by omega) (by omega)
    have l := lastN_leafSlot T ch base (base + 1) hl.2.2.2 hw.2 (by omega) (by omega)
    simp only [createOf, List.mem_cons, List.not_mem_nil, or_false] at he
    rcases he with rfl | rfl
    · exact ⟨⟨hy, hleaf⟩, Or.inr f⟩
    · exact ⟨l, Or.inl rfl⟩

theorem createEdges_ends (T : Array PNode) (t : Nat) : ∀ (ds : DList) (y base : Nat), LayL T ds y base →
    gWL ds = true → y + ds.length ≤ T.size → base + descS ds ≤ T.size →
    ∀ e ∈ createEdges t ds y base, LeafSlot T e.u ∧ (e.v = t ∨ LeafSlot T e.v)
  | .nil, _, _, _, _, _, _ => by simp [createEdges]
  | .cons d r, y, base, hl, hw, hy, hb => by
    simp only [LayL] at hl
    simp only [gWL, Bool.and_eq_true] at hw
    simp only [descS] at hb
    simp only [DList.length] at hy
    intro e he
    simp only [createEdges, List.mem_append] at he
    rcases he with he | he
    · exact createOf_ends T t d y base hl.1 hw.1 (by omega) (by omega) e he
    · exact createEdges_ends T t r (y + 1) (base + descT d) hl.2 hw.2 (by omega) (by omega) e he

theorem sectionEdges_ends (T : Array PNode) (t : Nat) (d : DNode) (x bx : Nat) (hl : LayN T d x bx) (hw : gW d = true)
    (hb : bx + descT d ≤ T.size) :
    ∀ e ∈ sectionEdges t d bx, LeafSlot T e.u ∧ (e.v = t ∨ LeafSlot T e.v) := by
  intro e he
  cases d with
  | ival _ => simp [sectionEdges] at he
  | create _ _ => simp [sectionEdges] at he
  | group i ds =>
    obtain ⟨h1, h2, h3, h4, h5, h6⟩ := group_kind_facts hl hw
    simp only [descT] at hb
    have := descL_eq ds
    simp only [sectionEdges] at he
    split at he
    · exact createEdges_ends T t ds bx (bx + ds.length) h5 h6 (by omega) (by omega) e he
    · simp at he

theorem groupEdges_cons2 (kf : Nat → EKind) (d d' : DNode) (r : DList) (k base : Nat) :
    groupEdges kf (.cons d (.cons d' r)) k base =
      itemEdges kf (firstN d' (k + 1) (base + descT d)) d k base ++ groupEdges kf (.cons d' r) (k + 1) (base + descT d) := by
  rw [groupEdges]; simp [DList.isNil, firstL]

theorem groupEdges_ends (T : Array PNode) (kf : Nat → EKind) : ∀ (ds : DList) (k base : Nat), LayL T ds k base →
    gWL ds = true → k + ds.length ≤ T.size → base + descS ds ≤ T.size →
    ∀ e ∈ groupEdges kf ds k base, LeafSlot T e.u ∧ LeafSlot T e.v
  | .nil, _, _, _, _, _, _ => by simp [groupEdges]
  | .cons d .nil, k, base, _, _, _, _ => by simp [groupEdges, DList.isNil]
  | .cons d (.cons d' r), k, base, hl, hw, hk, hb => by
    have ih := groupEdges_ends T kf (.cons d' r) (k + 1) (base + descT d) hl.2
      (by simp only [gWL, Bool.and_eq_true] at hw ⊢; exact hw.2)
      (by simp only [DList.length] at hk ⊢; omega) (by simp only [descS] at hb ⊢; omega)
    simp only [LayL] at hl
    simp only [gWL, Bool.and_eq_true] at hw
    simp only [descS] at hb
    simp only [DList.length] at hk
    intro e he
    rw [groupEdges_cons2, List.mem_append] at he
    rcases he with he | he
    · have ht := firstN_leafSlot T d' (k + 1) (base + descT d) hl.2.1 hw.2.1 (by omega) (by omega)
      simp only [itemEdges, List.mem_cons] at he
      rcases he with rfl | he
      · exact ⟨lastN_leafSlot T d k base hl.1 hw.1 (by omega) (by omega), ht⟩
      · have := sectionEdges_ends T _ d k base hl.1 hw.1 (by omega) e he
        exact ⟨this.1, by rcases this.2 with h | h; rw [h]; exact ht; exact h⟩
    · exact ih e he

theorem nodeEdges_ends (T : Array PNode) (kf : Nat → EKind) (d : DNode) (g b' : Nat) (hl : LayN T d g b')
    (hw : gW d = true) (hb : b' + descT d ≤ T.size) :
    ∀ e ∈ nodeEdges kf d g b', LeafSlot T e.u ∧ LeafSlot T e.v := by
  intro e he
  cases d with
  | ival _ => simp [nodeEdges] at he
  | create _ _ => simp [nodeEdges] at he
  | group i ds =>
    obtain ⟨h1, h2, h3, h4, h5, h6⟩ := group_kind_facts hl hw
    simp only [descT] at hb
    have := descL_eq ds
    exact groupEdges_ends T kf ds b' (b' + ds.length) h5 h6 (by omega) (by omega) e he

/-- every edge `dr_pi_dag_enum_edges` emits joins two leaves of the DAG -/
theorem enumEdges_ends (T : Array PNode) (d : DNode) (hl : LayN T d 0 1) (hn : T.size = 1 + descT d) (hw : gW d = true) :
    ∀ e ∈ enumEdges T, LeafSlot T e.u ∧ LeafSlot T e.v := by
  intro e he
  simp only [enumEdges, List.mem_flatMap, List.mem_range] at he
  obtain ⟨i, hi, he⟩ := he
  obtain ⟨d', b', q1, q2, q3, q4⟩ := slot_all T d hl hn hw i hi
  rw [nodeEdges_eq T d' i b' q1 q2 q4] at he
  exact nodeEdges_ends T _ d' i b' q1 q2 q4 e he

theorem isLeaf_shape {x y : PNode} (h : SameShape x y) : isLeaf x = isLeaf y := by
  unfold isLeaf; rw [h.1, h.2.1, h.2.2]

theorem mem_sortEdges (es : List PEdge) (e : PEdge) : e ∈ sortEdges es ↔ e ∈ es :=
  (List.mergeSort_perm es edgeLe).mem_iff

theorem finishDag_edgeEnds (T : Array PNode) (st : List Nat) (nw : Nat)
    (hends : ∀ e ∈ enumEdges T, LeafSlot T e.u ∧ LeafSlot T e.v) : wfEdgeEnds (finishDag T st nw) = true := by
  unfold wfEdgeEnds
  rw [Array.all_eq_true]
  intro j hj
  have hm : (finishDag T st nw).E[j] ∈ enumEdges T := by
    apply (mem_sortEdges _ _).mp
    simp only [finishDag, List.getElem_toArray]
    exact List.getElem_mem _
  obtain ⟨⟨u1, u2⟩, ⟨v1, v2⟩⟩ := hends _ hm
  have hs : (finishDag T st nw).T.size = T.size := (setEdgePtrs_spec _ _).1
  have hT : ∀ r, isLeaf (finishDag T st nw).T[r]! = isLeaf T[r]! := fun r => isLeaf_shape (setEdgePtrs_shape _ _ _)
  simp only [Bool.and_eq_true, decide_eq_true_eq]
  exact ⟨⟨⟨by omega, by omega⟩, by rw [hT]; exact u2⟩, by rw [hT]; exact v2⟩

/-- **edgeEnds**: in every dump of a recorded DAG the end points of every edge are leaves
    (intervals or collapsed sections / tasks) inside the DAG -/
theorem flatten_wfEdgeEnds (sc nw : Nat) (d : DNode) (h : gTask d = true) :
    (wfReport (flatten sc nw d)).edgeEnds = true := by
  have hl := enumNodes_lay sc d
  exact finishDag_edgeEnds _ _ _ (enumEdges_ends (enumNodes sc d).T d hl.1 hl.2 (gTask_gW d h))

end MythVerif.PiDag
