import MythVerif.Proofs.WsQueueTac
/-! The owner's spin-lock acquisitions (a failed CAS leaves the state unchanged). -/
namespace MythVerif.Wsq

set_option maxHeartbeats 1000000 in
theorem o_pul (s s' : St) (e) : Inv s → s.opc = .pul e → stepO s = some s' → Inv s' := by
  intro h heq hs
  simp only [stepO, heq] at hs
  split at hs
  · simp at hs; subst hs
    cases h
    simp only [heq, ownerLocked, midPop, topSync, baseSync, ownerFlight] at *
    wsq_finish
  · simp at hs; subst hs; exact h

set_option maxHeartbeats 1000000 in
theorem o_pol (s s' : St) (t) : Inv s → s.opc = .pol t → stepO s = some s' → Inv s' := by
  intro h heq hs
  simp only [stepO, heq] at hs
  split at hs
  · simp at hs; subst hs
    cases h
    simp only [heq, ownerLocked, midPop, topSync, baseSync, ownerFlight] at *
    wsq_finish
  · simp at hs; subst hs; exact h

set_option maxHeartbeats 1000000 in
theorem o_ptl (s s' : St) (e) : Inv s → s.opc = .ptl e → stepO s = some s' → Inv s' := by
  intro h heq hs
  simp only [stepO, heq] at hs
  split at hs
  · simp at hs; subst hs
    cases h
    simp only [heq, ownerLocked, midPop, topSync, baseSync, ownerFlight] at *
    wsq_finish
  · simp at hs; subst hs; exact h

set_option maxHeartbeats 1000000 in
theorem o_cll (s s' : St) : Inv s → s.opc = .cll → stepO s = some s' → Inv s' := by
  intro h heq hs
  simp only [stepO, heq] at hs
  split at hs
  · simp at hs; subst hs
    cases h
    simp only [heq, ownerLocked, midPop, topSync, baseSync, ownerFlight] at *
    wsq_finish
  · simp at hs; subst hs; exact h

end MythVerif.Wsq
