import MythVerif.Proofs.WsQueueTsoTac
/-! Preservation lemmas of the TSO invariant (generated per program counter of the owner): drain of a passer's store (ptr4) while the owner is at idle, pu0, pu0f. -/
namespace MythVerif.WsqTso
open MythVerif.Wsq

theorem f_T_ptr4_idle (s : St) (p : Pid) (e0 : Elem) (ok : Bool) : Inv s → s.opc = .idle → s.lock = .thief p →
    s.bufT p = [.ptr (s.lb - 1) (some e0), .baseI (s.lb - 1) e0] → s.tpc p = .tp4 ok →
    Inv (applySto { s with bufT := upd s.bufT p [.baseI (s.lb - 1) e0] } (.ptr (s.lb - 1) (some e0))) := by
  intro h hopc hl h0 h1
  simp only [applySto]
  tso_fastO h hopc [tp3, tp4, carryC]

theorem f_T_ptr4_pu0 (s : St) (p : Pid) (e0 : Elem) (ok : Bool) (e) : Inv s → s.opc = .pu0 e → s.lock = .thief p →
    s.bufT p = [.ptr (s.lb - 1) (some e0), .baseI (s.lb - 1) e0] → s.tpc p = .tp4 ok →
    Inv (applySto { s with bufT := upd s.bufT p [.baseI (s.lb - 1) e0] } (.ptr (s.lb - 1) (some e0))) := by
  intro h hopc hl h0 h1
  simp only [applySto]
  tso_fastO h hopc [tp3, tp4, carryC]

theorem f_T_ptr4_pu0f (s : St) (p : Pid) (e0 : Elem) (ok : Bool) (e t) : Inv s → s.opc = .pu0f e t → s.lock = .thief p →
    s.bufT p = [.ptr (s.lb - 1) (some e0), .baseI (s.lb - 1) e0] → s.tpc p = .tp4 ok →
    Inv (applySto { s with bufT := upd s.bufT p [.baseI (s.lb - 1) e0] } (.ptr (s.lb - 1) (some e0))) := by
  intro h hopc hl h0 h1
  simp only [applySto]
  tso_fastO h hopc [tp3, tp4, pu0f, carryC]

end MythVerif.WsqTso
