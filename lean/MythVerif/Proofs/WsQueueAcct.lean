import MythVerif.Proofs.WsQueueSC
/-! Accounting: every inserted element is in exactly one place (abstract deque, in flight, returned). -/
namespace MythVerif.Wsq

/-- where every inserted element is: in the abstract deque, in flight, or returned -/
def acctList (s : St) : List Elem := s.A ++ (s.flT.toList ++ (s.flO.toList ++ s.retd))

/-- accounting invariant: nothing is lost, nothing is duplicated (as multisets) -/
def Acct (s : St) : Prop := (acctList s).Perm s.ins

theorem acct_same (s s' : St) (hA : s'.A = s.A) (hO : s'.flO = s.flO) (hT : s'.flT = s.flT)
    (hr : s'.retd = s.retd) (hi : s'.ins = s.ins) (h : Acct s) : Acct s' := by
  unfold Acct acctList at *; rw [hA, hO, hT, hr, hi]; exact h

theorem acct_snoc (s s' : St) (e : Elem) (hA : s'.A = s.A ++ [e]) (hO : s'.flO = s.flO) (hT : s'.flT = s.flT)
    (hr : s'.retd = s.retd) (hi : s'.ins = e :: s.ins) (h : Acct s) : Acct s' := by
  unfold Acct acctList at *; rw [hA, hO, hT, hr, hi]
  simp only [List.append_assoc, List.singleton_append]
  exact List.perm_middle.trans (List.Perm.cons e h)

theorem acct_cons (s s' : St) (e : Elem) (hA : s'.A = e :: s.A) (hO : s'.flO = s.flO) (hT : s'.flT = s.flT)
    (hr : s'.retd = s.retd) (hi : s'.ins = e :: s.ins) (h : Acct s) : Acct s' := by
  unfold Acct acctList at *; rw [hA, hO, hT, hr, hi]
  exact List.Perm.cons e h

theorem acct_popLP (s s' : St) (x : Elem) (hl : s.A.getLast? = some x) (hA : s'.A = s.A.dropLast)
    (hO0 : s.flO = none) (hO : s'.flO = some x) (hT : s'.flT = s.flT)
    (hr : s'.retd = s.retd) (hi : s'.ins = s.ins) (h : Acct s) : Acct s' := by
  unfold Acct acctList at *; rw [hA, hO, hT, hr, hi]
  have hAx : s.A = s.A.dropLast ++ [x] := by
    rw [List.getLast?_eq_some_iff] at hl
    obtain ⟨ys, hy⟩ := hl
    rw [hy]; simp
  rw [hAx, hO0] at h
  simp only [Option.toList, List.append_assoc, List.singleton_append, List.nil_append] at *
  refine List.Perm.trans ?_ h
  apply List.Perm.append_left
  exact List.perm_middle

theorem acct_ownerRet (s s' : St) (r : Option Elem) (hA : s'.A = s.A) (hr0 : r = s.flO) (hO : s'.flO = none)
    (hT : s'.flT = s.flT) (hr : s'.retd = retOpt s.retd r) (hi : s'.ins = s.ins) (h : Acct s) : Acct s' := by
  unfold Acct acctList at *; rw [hA, hO, hT, hr, hi]
  subst hr0
  cases hf : s.flO with
  | none => simpa [retOpt, hf] using h
  | some x => simpa [retOpt, hf] using h

theorem acct_takeLP (s s' : St) (x : Elem) (A' : List Elem) (hl : s.A = x :: A') (hA : s'.A = A')
    (hT0 : s.flT = none) (hT : s'.flT = some x) (hO : s'.flO = s.flO)
    (hr : s'.retd = s.retd) (hi : s'.ins = s.ins) (h : Acct s) : Acct s' := by
  unfold Acct acctList at *; rw [hA, hO, hT, hr, hi]
  rw [hl, hT0] at h
  simp only [Option.toList, List.append_assoc, List.singleton_append, List.nil_append, List.cons_append] at *
  exact List.perm_middle.trans h

theorem acct_thiefRet (s s' : St) (r : Option Elem) (hA : s'.A = s.A) (hr0 : r = s.flT) (hT : s'.flT = none)
    (hO : s'.flO = s.flO) (hr : s'.retd = retOpt s.retd r) (hi : s'.ins = s.ins) (h : Acct s) : Acct s' := by
  unfold Acct acctList at *; rw [hA, hO, hT, hr, hi]
  subst hr0
  cases hf : s.flT with
  | none => simpa [retOpt, hf] using h
  | some x =>
    simp only [retOpt, hf, Option.toList, List.nil_append, List.singleton_append] at *
    refine List.Perm.trans ?_ h
    apply List.Perm.append_left
    exact List.perm_middle

theorem stepO_acct (s s' : St) (h : Inv s) (ha : Acct s) (hs : stepO s = some s') : Acct s' := by
  cases hpc : s.opc <;> simp only [stepO, hpc] at hs
  case idle => simp at hs
  case aborted => simp at hs
  case assertFail => simp at hs
  case pu2 e t =>
    simp at hs; subst hs
    exact acct_snoc s _ e rfl rfl rfl rfl rfl ha
  case pt8 e b =>
    simp at hs; subst hs
    exact acct_cons s _ e rfl rfl rfl rfl rfl ha
  case po2 t =>
    split at hs
    · split at hs
      · rename_i x hx
        simp at hs; subst hs
        exact acct_popLP s _ x hx rfl (h.flOn (by simp [hpc, ownerFlight])) rfl rfl rfl rfl ha
      · simp at hs
    · simp at hs; subst hs; exact acct_same s _ rfl rfl rfl rfl rfl ha
  case po4 t =>
    split at hs
    · split at hs
      · rename_i x hx
        simp at hs; subst hs
        exact acct_popLP s _ x hx rfl (h.flOn (by simp [hpc, ownerFlight])) rfl rfl rfl rfl ha
      · simp at hs
    · simp at hs; subst hs; exact acct_same s _ rfl rfl rfl rfl rfl ha
  case po3 t x =>
    simp at hs; subst hs
    have := h.po3 t x hpc
    exact acct_ownerRet s _ (s.ptr t) rfl (by rw [this.2.1, this.2.2.2.1]) rfl rfl rfl rfl ha
  case po6 r =>
    simp at hs; subst hs
    exact acct_ownerRet s _ r rfl (h.po6 r hpc) rfl rfl rfl rfl ha
  all_goals (first
    | (simp at hs; subst hs; exact acct_same s _ rfl rfl rfl rfl rfl ha)
    | (split at hs <;> simp at hs <;> subst hs <;> first | exact ha | exact acct_same s _ rfl rfl rfl rfl rfl ha))

theorem stepT_acct (s s' : St) (p : Pid) (h : Inv s) (ha : Acct s) (hs : stepT s p = some s') : Acct s' := by
  cases hpc : s.tpc p <;> simp only [stepT, hpc] at hs
  case idle => simp at hs
  case wkd => simp at hs
  case tp3 e b =>
    simp at hs; subst hs
    exact acct_cons s _ e rfl rfl rfl rfl rfl ha
  case tk2 b =>
    split at hs
    · split at hs
      · rename_i x A' hA
        simp at hs; subst hs
        have hT0 : s.flT = none := by
          false_or_by_contra
          rename_i hne
          obtain ⟨q, hq, hf⟩ := h.flTn hne
          have h1 := (h.lockT p).2 (by simp [hpc, thiefLocked])
          rw [hq] at h1; cases h1
          rw [hpc] at hf; simp [thiefFlight] at hf
        exact acct_takeLP s _ x A' hA rfl hT0 rfl rfl rfl rfl ha
      · simp at hs
    · simp at hs; subst hs; exact acct_same s _ rfl rfl rfl rfl rfl ha
  case tk4 r =>
    simp at hs; subst hs
    exact acct_thiefRet s _ r rfl (h.tk4 p r hpc) rfl rfl rfl rfl ha
  case wk4u r =>
    simp at hs; subst hs
    exact acct_thiefRet s _ r rfl (h.wk4u p r hpc) rfl rfl rfl rfl ha
  all_goals (first
    | (simp at hs; subst hs; exact acct_same s _ rfl rfl rfl rfl rfl ha)
    | (split at hs <;> simp at hs <;> subst hs <;> first | exact ha | exact acct_same s _ rfl rfl rfl rfl rfl ha))

theorem stepD_acct (s s' : St) (p : Pid) (a : Bool) (h : Inv s) (ha : Acct s) (hs : stepD s p a = some s') :
    Acct s' := by
  simp only [stepD] at hs
  split at hs
  · rename_i b r hpc
    split at hs
    · split at hs
      · rename_i x A' hA
        simp at hs; subst hs
        have hT0 : s.flT = none := by
          false_or_by_contra
          rename_i hne
          obtain ⟨q, hq, hf⟩ := h.flTn hne
          have h1 := (h.lockT p).2 (by simp [hpc, thiefLocked])
          rw [hq] at h1; cases h1
          rw [hpc] at hf; simp [thiefFlight] at hf
        exact acct_takeLP s _ x A' hA rfl hT0 rfl rfl rfl rfl ha
      · simp at hs
    · simp at hs; subst hs; exact acct_same s _ rfl rfl rfl rfl rfl ha
  · simp at hs

theorem step_acct (s : St) (l : Lbl) (s' : St) (h : Inv s) (ha : Acct s) (hs : step s l = some s') : Acct s' := by
  cases l <;> simp only [step] at hs
  case o => exact stepO_acct s s' h ha hs
  case t p => exact stepT_acct s s' p h ha hs
  case tDecide p a => exact stepD_acct s s' p a h ha hs
  all_goals
    first
    | (simp only [callO] at hs; split at hs <;> simp at hs; subst hs; exact acct_same s _ rfl rfl rfl rfl rfl ha)
    | (simp only [callT] at hs; split at hs <;> simp at hs; subst hs; exact acct_same s _ rfl rfl rfl rfl rfl ha)

/-- invariant + accounting hold in every reachable state -/
theorem reachable_inv_acct (n : Int) (hn : 0 ≤ n) (s : St) (h : Reachable step (init n) s) : Inv s ∧ Acct s := by
  refine inv_reachable step (init n) (fun s => Inv s ∧ Acct s) ⟨init_inv n hn, ?_⟩ ?_ s h
  · simp [Acct, acctList, init]
  · intro s l s' ⟨hi, ha⟩ hs
    exact ⟨step_inv s l s' hi hs, step_acct s l s' hi ha hs⟩
end MythVerif.Wsq
