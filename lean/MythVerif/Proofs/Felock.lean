import MythVerif.Model.Felock
namespace MythVerif.Felock

structure Inv (s : St) : Prop where
  hd    : ∀ t, holds (s.pc t) = true ↔ s.holder = some t
  cwA   : ∀ w t, t ∈ s.cw w → s.pc t = .slp w
  cwS   : ∀ w t, s.pc t = .slp w → t ∈ s.cw w
  cwN   : ∀ w, (s.cw w).Nodup
  w2    : ∀ t w, (s.pc t = .wl w ∨ s.pc t = .chk w ∨ s.pc t = .tw w ∨ s.pc t = .slp w ∨ s.pc t = .got w) → w < 2
  st2   : s.status < 2
  -- mailbox / status relation, decided by what the holder is doing
  free  : s.holder = none → (s.slot.isSome = true ↔ s.status = 1)
  hneut : ∀ t w, (s.pc t = .chk w ∨ s.pc t = .tw w ∨ s.pc t = .hp ∨ s.pc t = .ms2 ∨ (∃ v, s.pc t = .ms1 v)) →
            (s.slot.isSome = true ↔ s.status = 1)
  hgot  : ∀ t w, s.pc t = .got w → (s.status = w ∧ (s.slot.isSome = true ↔ w = 1))
  hput  : ∀ t, s.pc t = .pPut → (s.status = 0 ∧ s.slot.isSome = true)
  htook : ∀ t, s.pc t = .cTook → (s.status = 1 ∧ s.slot = none)
  ms1v  : ∀ t v, s.pc t = .ms1 v → s.status = v
  twv   : ∀ t w, s.pc t = .tw w → s.status ≠ w
  -- exactly once
  items : s.produced = (match s.slot with | some x => [x] | none => []) ++ s.consumed
  -- no lost signal: if the status is w and threads sleep on cond[w], somebody is on the way
  hope  : ∀ w, s.cw w ≠ [] → s.status = w → ∃ t, s.pc t = .wl w ∨ act w (s.pc t) = true
  -- operation counters
  cntP  : s.donePut = s.produced.length
  cntT  : s.doneTake = s.consumed.length

theorem inv_init : Inv init := by
  constructor <;> simp [init, holds, act]

macro "ffinish" : tactic => `(tactic| (
    all_goals (simp only [upd_apply, holds, act] at *)
    all_goals (first | grind [holds, act, List.nodup_append, List.nodup_cons] | skip)))

macro "fstep" : tactic => `(tactic| (
  intro h hs
  obtain ⟨hhd, hcwA, hcwS, hcwN, hw2, hst2, hfree, hneut, hgot, hput, htook, hms1v, htwv, hitems, hhope, hcntP, hcntT⟩ := h
  simp only [step] at hs
  (first | (split at hs) | skip)
  all_goals (first | (split at hs) | skip)
  all_goals (first | (split at hs) | skip)
  all_goals (first | (split at hs) | skip)
  all_goals (try simp at hs)
  all_goals (try subst hs)
  all_goals (try (constructor; ffinish))))

theorem p_walStart (s s' : St) (t w) : Inv s → step s (.walStart t w) = some s' → Inv s' := by fstep
theorem p_lockStart (s s' : St) (t) : Inv s → step s (.lockStart t) = some s' → Inv s' := by fstep
theorem p_acquire (s s' : St) (t) : Inv s → step s (.acquire t) = some s' → Inv s' := by fstep
theorem p_check (s s' : St) (t v) : Inv s → step s (.check t v) = some s' → Inv s' := by fstep
theorem p_put (s s' : St) (t x) : Inv s → step s (.put t x) = some s' → Inv s' := by fstep
theorem p_take (s s' : St) (t x) : Inv s → step s (.take t x) = some s' → Inv s' := by fstep
theorem p_markSet (s s' : St) (t v) : Inv s → step s (.markSet t v) = some s' → Inv s' := by fstep
theorem p_release (s s' : St) (t) : Inv s → step s (.release t) = some s' → Inv s' := by fstep


macro "ffinish'" : tactic => `(tactic| (
    all_goals (simp only [upd_apply, holds, act] at *)
    all_goals (first | grind [holds, act, List.nodup_append, List.nodup_cons] | skip)))

theorem p_waitRel (s s' : St) (t) : Inv s → step s (.waitRel t) = some s' → Inv s' := by
  intro h hs
  have hn := h.hneut
  obtain ⟨hhd, hcwA, hcwS, hcwN, hw2, hst2, hfree, hneut, hgot, hput, htook, hms1v, htwv, hitems, hhope, hcntP, hcntT⟩ := h
  simp only [step] at hs
  split at hs
  · rename_i w hp
    split at hs
    · simp at hs; subst hs
      have hfr := hn t w (Or.inr (Or.inl hp))
      constructor
      case free => intro _; exact hfr
      all_goals ffinish'
    · simp at hs
  · simp at hs

theorem p_sig (s s' : St) (t x) : Inv s → step s (.sig t x) = some s' → Inv s' := by
  intro h hs
  obtain ⟨hhd, hcwA, hcwS, hcwN, hw2, hst2, hfree, hneut, hgot, hput, htook, hms1v, htwv, hitems, hhope, hcntP, hcntT⟩ := h
  simp only [step] at hs
  split at hs
  · rename_i v hp
    split at hs
    · simp at hs; subst hs
      constructor
      all_goals ffinish'
    · rename_i y rest x' hcw
      split at hs
      · simp at hs; subst hs
        have hst := hms1v t v hp
        have hy : s.pc y = .slp v := hcwA v y (by simp [hcw])
        have hyt : y ≠ t := by intro e; subst e; simp [hp] at hy
        constructor
        case hope =>
          intro w _ hw
          have : w = v := by simp only at hw; rw [← hw, hst]
          subst this
          exact ⟨y, Or.inl (by simp [upd_apply, hyt])⟩
        all_goals ffinish'
      · simp at hs
    · simp at hs
  · simp at hs

end MythVerif.Felock
