import MythVerif.Proofs.PiDagFlatten
/-! The layout `dr_pi_dag_enum_nodes` gives an in-memory DAG inside `T`: a node at slot `idx` whose
proper descendants occupy `[base, base + descT d)`; the children of a section / task are the first
`length` of these slots, the subgraphs below the children follow in order. -/
namespace MythVerif.PiDag
open MythVerif.DagRec

mutual
/-- node `d` sits at slot `idx`, its proper descendants in `[base, base + descT d)` -/
def LayN (T : Array PNode) : DNode → Nat → Nat → Prop
  | .ival i, idx, _ => T[idx]!.info.c.kind = i.c.kind
  | .create i ch, idx, base =>
    T[idx]!.info.c.kind = i.c.kind ∧ idx + T[idx]!.a = base ∧ idx < base ∧ LayN T ch base (base + 1)
  | .group i ds, idx, base =>
    T[idx]!.info.c.kind = i.c.kind ∧ T[idx]!.b = T[idx]!.a + ds.length ∧
      (0 < ds.length → idx + T[idx]!.a = base ∧ idx < base) ∧ LayL T ds base (base + ds.length)
/-- the nodes of `ds` sit at slots `k, k+1, …`, their proper descendants from `base` on -/
def LayL (T : Array PNode) : DList → Nat → Nat → Prop
  | .nil, _, _ => True
  | .cons d r, k, base => LayN T d k base ∧ LayL T r (k + 1) (base + descT d)
end

/-- sum of the numbers of proper descendants of the members of a list -/
def descS : DList → Nat
  | .nil => 0
  | .cons d r => descT d + descS r

theorem descL_eq : ∀ ds : DList, descL ds = ds.length + descS ds
  | .nil => rfl
  | .cons d r => by simp only [descL, descS, DList.length, descL_eq r]; omega

/-- the layout only looks at `info`, `a`, `b` -/
def SameShape (x y : PNode) : Prop := x.info = y.info ∧ x.a = y.a ∧ x.b = y.b

mutual
theorem LayN_congr' (T T' : Array PNode) : ∀ (d : DNode) (idx base : Nat),
    (∀ j, j = idx ∨ (base ≤ j ∧ j < base + descT d) → SameShape T'[j]! T[j]!) → LayN T d idx base → LayN T' d idx base
  | .ival i, idx, base, h, hl => by
    simp only [LayN] at hl ⊢
    rw [(h idx (Or.inl rfl)).1]; exact hl
  | .create i ch, idx, base, h, hl => by
    simp only [LayN, descT] at hl h ⊢
    rw [(h idx (Or.inl rfl)).1, (h idx (Or.inl rfl)).2.1]
    refine ⟨hl.1, hl.2.1, hl.2.2.1, ?_⟩
    exact LayN_congr' T T' ch base (base + 1) (fun j hj => h j (by omega)) hl.2.2.2
  | .group i ds, idx, base, h, hl => by
    simp only [LayN, descT] at hl h ⊢
    rw [(h idx (Or.inl rfl)).1, (h idx (Or.inl rfl)).2.1, (h idx (Or.inl rfl)).2.2]
    refine ⟨hl.1, hl.2.1, hl.2.2.1, ?_⟩
    have := descL_eq ds
    exact LayL_congr' T T' ds base (base + ds.length) (fun j hj => h j (by omega)) hl.2.2.2
theorem LayL_congr' (T T' : Array PNode) : ∀ (ds : DList) (k base : Nat),
    (∀ j, (k ≤ j ∧ j < k + ds.length) ∨ (base ≤ j ∧ j < base + descS ds) → SameShape T'[j]! T[j]!) →
    LayL T ds k base → LayL T' ds k base
  | .nil, _, _, _, _ => trivial
  | .cons d r, k, base, h, hl => by
    simp only [LayL, descS, DList.length] at hl h ⊢
    exact ⟨LayN_congr' T T' d k base (fun j hj => h j (by omega)) hl.1,
      LayL_congr' T T' r (k + 1) (base + descT d) (fun j hj => h j (by omega)) hl.2⟩
end

theorem LayN_congr (T T' : Array PNode) (d : DNode) (idx base : Nat)
    (h : ∀ j, j = idx ∨ (base ≤ j ∧ j < base + descT d) → T'[j]! = T[j]!) (hl : LayN T d idx base) : LayN T' d idx base :=
  LayN_congr' T T' d idx base (fun j hj => by rw [h j hj]; exact ⟨rfl, rfl, rfl⟩) hl

/-- the slots `k, k+1, …` hold copies of the members of `ds` -/
def KindsAt (T : Array PNode) : DList → Nat → Prop
  | .nil, _ => True
  | .cons d r, k => T[k]!.info.c.kind = d.info.c.kind ∧ KindsAt T r (k + 1)

theorem KindsAt_congr (T T' : Array PNode) : ∀ (ds : DList) (k : Nat),
    (∀ j, k ≤ j ∧ j < k + ds.length → T'[j]!.info = T[j]!.info) → KindsAt T ds k → KindsAt T' ds k
  | .nil, _, _, _ => trivial
  | .cons d r, k, h, hk => by
    simp only [KindsAt, DList.length] at hk h ⊢
    rw [h k (by omega)]
    exact ⟨hk.1, KindsAt_congr T T' r (k + 1) (fun j hj => h j (by omega)) hk.2⟩

/-- slots below `n` outside `[lo, hi)` are untouched -/
def Unch (lo hi n : Nat) (T T' : Array PNode) : Prop :=
  ∀ j, j < n → ¬(lo ≤ j ∧ j < hi) → T'[j]! = T[j]!

theorem copyNode_kind (sc : Nat) (st : List Nat) (i : Info) : (copyNode sc st i).1.info.c.kind = i.c.kind := rfl

theorem push_get_eq (T : Array PNode) (x : PNode) : (T.push x)[T.size]! = x := by
  rw [getElem!_pos _ _ (by simp)]; simp

theorem pushAll_lay (sc : Nat) : ∀ (ds : DList) (s : FlatSt),
    Unch 0 0 s.T.size s.T (pushAll sc ds s).T ∧ KindsAt (pushAll sc ds s).T ds s.T.size
  | .nil, s => ⟨fun _ _ _ => rfl, trivial⟩
  | .cons d r, s => by
    simp only [pushAll, KindsAt]
    have ih := pushAll_lay sc r { T := s.T.push (copyNode sc s.st d.info).1, st := (copyNode sc s.st d.info).2 }
    simp only [Array.size_push] at ih
    refine ⟨fun j hj _ => ?_, ?_, ih.2⟩
    · rw [ih.1 j (by omega) (by omega), push_get_lt _ _ _ hj]
    · rw [ih.1 s.T.size (by omega) (by omega), push_get_eq]; rfl

theorem modify_get_ne (T : Array PNode) (i j : Nat) (f : PNode → PNode) (h : i ≠ j) :
    (T.modify i f)[j]! = T[j]! := by
  by_cases hj : j < T.size
  · rw [getElem!_pos _ j (by simpa using hj), getElem!_pos _ j hj, Array.getElem_modify, if_neg h]
  · rw [getElem!_neg _ j (by simpa using hj), getElem!_neg _ j hj]

theorem modify_get_eq (T : Array PNode) (i : Nat) (f : PNode → PNode) (h : i < T.size) :
    (T.modify i f)[i]! = f T[i]! := by
  rw [getElem!_pos _ i (by simpa using h), getElem!_pos _ i h, Array.getElem_modify, if_pos rfl]

mutual
theorem flatNode_lay (sc : Nat) : ∀ (d : DNode) (idx : Nat) (s : FlatSt), idx < s.T.size →
    s.T[idx]!.info.c.kind = d.info.c.kind →
    LayN (flatNode sc d idx s).T d idx s.T.size ∧ Unch idx (idx + 1) s.T.size s.T (flatNode sc d idx s).T
  | .ival _, idx, s, _, hk => ⟨by simpa [flatNode, LayN, DNode.info] using hk, fun _ _ _ => rfl⟩
  | .create i ch, idx, s, hi, hk => by
    simp only [flatNode]
    have ih := flatNode_lay sc ch s.T.size
      { T := (s.T.push (copyNode sc s.st ch.info).1).modify idx (fun x => { x with a := s.T.size - idx }),
        st := (copyNode sc s.st ch.info).2 } (by simp) (by
          simp only
          rw [modify_get_ne _ _ _ _ (by omega), push_get_eq]; rfl)
    simp only [Array.size_modify, Array.size_push] at ih
    have hidx := ih.2 idx (by omega) (by omega)
    rw [modify_get_eq _ _ _ (by simp; omega), push_get_lt _ _ _ hi] at hidx
    refine ⟨?_, fun j hj hne => ?_⟩
    · simp only [LayN]
      rw [hidx]
      exact ⟨hk, by simp; omega, hi, ih.1⟩
    · rw [ih.2 j (by omega) (by omega), modify_get_ne _ _ _ _ (by omega), push_get_lt _ _ _ hj]
  | .group i ds, idx, s, hi, hk => by
    simp only [flatNode]
    have hp := pushAll_lay sc ds s
    have hps := (pushAll_spec sc ds s).1
    have hinfo := (pushAll_spec sc ds s).2
    have ih := flatList_lay sc ds s.T.size
      { T := (pushAll sc ds s).T.modify idx (fun x => { x with a := s.T.size - idx, b := (pushAll sc ds s).T.size - idx }),
        st := (pushAll sc ds s).st } (by simp; omega)
      (KindsAt_congr _ _ ds _ (fun j _ => modify_info _ _ _ _ (fun _ => rfl)) hp.2)
    simp only [Array.size_modify] at ih
    rw [hps] at ih ⊢
    have hidx := ih.2 idx (by omega) (by omega)
    rw [modify_get_eq _ _ _ (by omega), hp.1 idx hi (by omega)] at hidx
    refine ⟨?_, fun j hj hne => ?_⟩
    · simp only [LayN]
      rw [hidx]
      exact ⟨hk, by simp; omega, fun _ => ⟨by simp; omega, hi⟩, ih.1⟩
    · rw [ih.2 j (by omega) (by omega), modify_get_ne _ _ _ _ (by omega), hp.1 j hj (by omega)]
theorem flatList_lay (sc : Nat) : ∀ (ds : DList) (k : Nat) (s : FlatSt), k + ds.length ≤ s.T.size →
    KindsAt s.T ds k →
    LayL (flatList sc ds k s).T ds k s.T.size ∧ Unch k (k + ds.length) s.T.size s.T (flatList sc ds k s).T
  | .nil, _, s, _, _ => ⟨trivial, fun _ _ _ => rfl⟩
  | .cons d r, k, s, hi, hk => by
    simp only [flatList, LayL, DList.length, KindsAt] at hi hk ⊢
    have h1 := flatNode_lay sc d k s (by omega) hk.1
    have hs1 := (flatNode_spec sc d k s).1
    have hinfo := (flatNode_spec sc d k s).2
    have h2 := flatList_lay sc r (k + 1) (flatNode sc d k s) (by omega)
      (KindsAt_congr _ _ r _ (fun j hj => hinfo.2 j (by omega)) hk.2)
    rw [hs1] at h2
    refine ⟨⟨?_, h2.1⟩, fun j hj hne => ?_⟩
    · exact LayN_congr _ _ d k s.T.size (fun j hj => h2.2 j (by omega) (by omega)) h1.1
    · rw [h2.2 j (by omega) (by omega), h1.2 j hj (by omega)]
end

/-- the node array `dr_pi_dag_enum_nodes` produces is the layout of `d` with the root in slot 0 -/
theorem enumNodes_lay (sc : Nat) (d : DNode) :
    LayN (enumNodes sc d).T d 0 1 ∧ (enumNodes sc d).T.size = 1 + descT d := by
  unfold enumNodes
  have h := flatNode_lay sc d 0 { T := #[(copyNode sc [] d.info).1], st := (copyNode sc [] d.info).2 } (by simp)
    (by simp [copyNode_kind])
  have hs := (flatNode_spec sc d 0 { T := #[(copyNode sc [] d.info).1], st := (copyNode sc [] d.info).2 }).1
  exact ⟨by simpa using h.1, by simpa using hs⟩

end MythVerif.PiDag
