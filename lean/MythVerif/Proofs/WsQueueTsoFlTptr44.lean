import MythVerif.Proofs.WsQueueTsoTac
/-! Preservation lemmas of the TSO invariant (generated per program counter of the owner): drain of a passer's store (ptr4) while the owner is at po2, po3, pol. -/
namespace MythVerif.WsqTso
open MythVerif.Wsq

theorem f_T_ptr4_po2 (s : St) (p : Pid) (e0 : Elem) (ok : Bool) (t) : Inv s → s.opc = .po2 t → s.lock = .thief p →
    s.bufT p = [.ptr (s.lb - 1) (some e0), .baseI (s.lb - 1) e0] → s.tpc p = .tp4 ok →
    Inv (applySto { s with bufT := upd s.bufT p [.baseI (s.lb - 1) e0] } (.ptr (s.lb - 1) (some e0))) := by
  intro h hopc hl h0 h1
  simp only [applySto]
  tso_fastO h hopc [tp3, tp4, po2]

theorem f_T_ptr4_po3 (s : St) (p : Pid) (e0 : Elem) (ok : Bool) (t x) : Inv s → s.opc = .po3 t x → s.lock = .thief p →
    s.bufT p = [.ptr (s.lb - 1) (some e0), .baseI (s.lb - 1) e0] → s.tpc p = .tp4 ok →
    Inv (applySto { s with bufT := upd s.bufT p [.baseI (s.lb - 1) e0] } (.ptr (s.lb - 1) (some e0))) := by
  intro h hopc hl h0 h1
  simp only [applySto]
  tso_fastO h hopc [tp3, tp4, po3]

theorem f_T_ptr4_pol (s : St) (p : Pid) (e0 : Elem) (ok : Bool) (t) : Inv s → s.opc = .pol t → s.lock = .thief p →
    s.bufT p = [.ptr (s.lb - 1) (some e0), .baseI (s.lb - 1) e0] → s.tpc p = .tp4 ok →
    Inv (applySto { s with bufT := upd s.bufT p [.baseI (s.lb - 1) e0] } (.ptr (s.lb - 1) (some e0))) := by
  intro h hopc hl h0 h1
  simp only [applySto]
  tso_fastO h hopc [tp3, tp4, pol]

end MythVerif.WsqTso
