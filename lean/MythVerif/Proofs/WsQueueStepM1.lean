import MythVerif.Proofs.WsQueueTac
/-! Preservation lemmas that need a manual instantiation (list-index clauses, re-centring arithmetic). -/
namespace MythVerif.Wsq

set_option maxHeartbeats 1000000 in
theorem o_pub (s s' : St) (e) : Inv s → s.opc = .pub e → stepO s = some s' → Inv s' := by
  intro h heq hs
  have hr := rcOff_bounds s.base
  cases h
  simp only [stepO, heq] at hs
  split at hs
  all_goals (simp at hs; subst hs)
  all_goals (simp only [heq, ownerLocked, midPop, topSync, baseSync, ownerFlight] at *)
  all_goals wsq_finish

set_option maxHeartbeats 1000000 in
theorem o_pt8 (s s' : St) (e b) : Inv s → s.opc = .pt8 e b → stepO s = some s' → Inv s' := by
  intro h heq hs
  have hcont := h.cont
  have hpt8 := h.pt8 e b heq
  cases h
  simp only [stepO, heq] at hs
  simp at hs; subst hs
  simp only [heq, ownerLocked, midPop, topSync, baseSync, ownerFlight] at *
  constructor
  all_goals (try simp only [ownerLocked, midPop, topSync, baseSync, ownerFlight, upd_apply, shiftPtr_apply])
  case cont =>
    intro k hk
    cases k with
    | zero => simp; grind
    | succ k =>
      have h1 := hcont k (by simp at hk; omega)
      simp only [List.getElem?_cons_succ]
      rw [← h1]; congr 1; omega
  all_goals (first | assumption | grind [thiefLocked, transient, thiefFlight])

end MythVerif.Wsq
