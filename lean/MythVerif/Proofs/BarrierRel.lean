import MythVerif.Proofs.Barrier
/-! Barrier invariant: preservation by the labels of the last arriver's release and by returns. -/
namespace MythVerif.Barrier

set_option maxHeartbeats 2000000 in
theorem p_wakePush (P : List Tid) (s s' : St) (t x) :
    Inv P s → t ∈ P → step P.length s (.wakePush t x) = some s' → Inv P s' := by bstep

set_option maxHeartbeats 2000000 in
theorem p_ret (P : List Tid) (s s' : St) (t v) :
    Inv P s → t ∈ P → step P.length s (.ret t v) = some s' → Inv P s' := by bstep

theorem p_reset (P : List Tid) (s s' : St) (t) :
    Inv P s → t ∈ P → step P.length s (.reset t) = some s' → Inv P s' := by
  intro h hP hs
  obtain ⟨hnP, hndP, hnp, harrP, harrR, harrB, harrN, holdP, holdR, holdN, holdPc, hpreC, hwokO, hldrI, hldrO,
    hcnt, harrL, hrstL, hrstN, hrdC, hnoEx, hstN, hstA, hstW, hwkA, hwkO, hwkN, hasl, hwkL, hpopA, hpopC,
    hlrsA, hlpoA, hlpcA, hlpuA, hlreA, hpshC, holdW, harrLt, harrEq, harrGt, hretLt, hretEq, hretGe⟩ := h
  simp only [step] at hs
  split at hs
  · rename_i hpc
    simp at hs; subst hs
    have hto : t ∈ s.old := hldrO t ((hldrI t).mp (by simp [hpc, ldrPc]))
    have hlen := (hpopA t (by simp [hpc, popPc])).2.1
    by_cases hN : P.length ≤ 1
    · -- N = 1: nobody to wake
      have hone : ∀ p, p ∈ s.old → p = t := fun p hp => nodup_len1 holdN (by omega) hp hto
      simp only [hN, if_true]
      constructor <;> bfin
    · simp only [hN, if_false]
      constructor <;> bfin
  · simp at hs

end MythVerif.Barrier
