import MythVerif.Proofs.WsQueueTsoTac
/-! Preservation lemmas of the TSO invariant (generated per program counter of the owner): drain of an owner `top` store at po9, puv, pux. -/
namespace MythVerif.WsqTso
open MythVerif.Wsq

theorem f_O_top_po9 (s : St) (v0) (rest : List Sto) : Inv s → s.opc = .po9 →
    s.bufO = .top v0 :: rest → Inv (applySto { s with bufO := rest } (.top v0)) := by
  intro h hpc hb
  simp only [applySto]
  tso_fastO h hpc [po9]

theorem f_O_top_puv (s : St) (v0) (rest : List Sto) (e off) : Inv s → s.opc = .puv e off →
    s.bufO = .top v0 :: rest → Inv (applySto { s with bufO := rest } (.top v0)) := by
  intro h hpc hb
  simp only [applySto]
  tso_fastO h hpc [puv]

theorem f_O_top_pux (s : St) (v0) (rest : List Sto) (e t) : Inv s → s.opc = .pux e t →
    s.bufO = .top v0 :: rest → Inv (applySto { s with bufO := rest } (.top v0)) := by
  intro h hpc hb
  simp only [applySto]
  tso_fastO h hpc [pux]

end MythVerif.WsqTso
