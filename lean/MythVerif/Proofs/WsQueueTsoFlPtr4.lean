import MythVerif.Proofs.WsQueueTsoTac
/-! Preservation lemmas of the TSO invariant (generated per program counter of the owner): drain of an owner `ptr` store at po5c, po5d, po6. -/
namespace MythVerif.WsqTso
open MythVerif.Wsq

theorem f_O_ptr_po5c (s : St) (i0 x0) (rest : List Sto) (t r) : Inv s → s.opc = .po5c t r →
    s.bufO = .ptr i0 x0 :: rest → Inv (applySto { s with bufO := rest } (.ptr i0 x0)) := by
  intro h hpc hb
  simp only [applySto]
  tso_fastO h hpc [po5c]

theorem f_O_ptr_po5d (s : St) (i0 x0) (rest : List Sto) (r) : Inv s → s.opc = .po5d r →
    s.bufO = .ptr i0 x0 :: rest → Inv (applySto { s with bufO := rest } (.ptr i0 x0)) := by
  intro h hpc hb
  simp only [applySto]
  tso_fastO h hpc [po5d]

theorem f_O_ptr_po6 (s : St) (i0 x0) (rest : List Sto) (r) : Inv s → s.opc = .po6 r →
    s.bufO = .ptr i0 x0 :: rest → Inv (applySto { s with bufO := rest } (.ptr i0 x0)) := by
  intro h hpc hb
  simp only [applySto]
  tso_fastO h hpc [po6]

end MythVerif.WsqTso
