import MythVerif.Proofs.DagRecPathSlots
/-!
The longest-path statement on the DUMPED uncontracted DAG: vertices are the slots of the node
array, edges are the array `E` that `dr_pi_dag_enum_edges` / sort produce (`PiDag.flatten`).
-/
namespace MythVerif.DagRec
open MythVerif.PiDag

/-- **the graph a dump describes**: vertices = the slots of the node array `T`; a leaf slot (an
    interval) weighs its `t_1` (the interval's length), a section / task slot weighs nothing (it has
    no edges); edges = the edge array `E` -/
def dumpGraph (G : PiDag) : DepGraph :=
  { dur := G.T.toList.map (fun x => if isLeaf x then x.info.c.t1 else 0), edges := G.E.toList }

theorem dumpGraph_n (G : PiDag) : (dumpGraph G).n = G.T.size := by
  simp [dumpGraph, DepGraph.n]

theorem dumpGraph_w (G : PiDag) (u : Nat) (h : u < G.T.size) :
    (dumpGraph G).w u = if isLeaf G.T[u]! then G.T[u]!.info.c.t1 else 0 := by
  simp [dumpGraph, DepGraph.w, h, getElem!_pos]

/-- a vertex renaming that preserves vertices, edges and weights carries paths to paths of the same weight -/
theorem DepGraph.map_chain (G H : DepGraph) (σ : Nat → Nat)
    (hv : ∀ a, a < G.n → σ a < H.n) (he : ∀ a b, a < G.n → b < G.n → G.Edge a b → H.Edge (σ a) (σ b))
    (hw : ∀ a, a < G.n → H.w (σ a) = G.w a) :
    ∀ (r : List Nat) (u : Nat), u < G.n → G.Chain u r →
      H.Chain (σ u) (r.map σ) ∧ H.pathWeight ((u :: r).map σ) = G.pathWeight (u :: r) := by
  intro r
  induction r with
  | nil => intro u hu _; exact ⟨trivial, by simp [DepGraph.pathWeight, hw u hu]⟩
  | cons b r ih =>
    intro u hu hc
    obtain ⟨hb, hub, hc'⟩ := hc
    obtain ⟨i1, i2⟩ := ih b hb hc'
    refine ⟨⟨hv b hb, he u b hu hb hub, i1⟩, ?_⟩
    rw [List.map_cons, DepGraph.pathWeight_cons, DepGraph.pathWeight_cons G u, i2, hw u hu]

theorem DepGraph.map_path (G H : DepGraph) (σ : Nat → Nat)
    (hv : ∀ a, a < G.n → σ a < H.n) (he : ∀ a b, a < G.n → b < G.n → G.Edge a b → H.Edge (σ a) (σ b))
    (hw : ∀ a, a < G.n → H.w (σ a) = G.w a) (p : List Nat) (hp : G.IsPath p) :
    H.IsPath (p.map σ) ∧ H.pathWeight (p.map σ) = G.pathWeight p := by
  cases p with
  | nil => exact absurd hp (fun h => h)
  | cons u r =>
    obtain ⟨h1, h2⟩ := DepGraph.map_chain G H σ hv he hw r u hp.1 hp.2
    exact ⟨⟨hv u hp.1, h1⟩, h2⟩

/-- in the dump of the uncontracted recording, no path through the edge array is heavier than the
    latest earliest-finish time, and some path attains it -/
theorem dump_longest_path (v : Variant) (sc : Nat) (t : Tree) (h : wnTask t = true) (sc' nw : Nat) :
    (dumpGraph (flatten sc' nw (record v {} sc t))).IsLongestPathWeight
      (maxFinish (leafInfosTree v t (rootCursor sc))) := by
  have hk := noContract_default v
  have hwt := wnAny_of_task h
  let d := record v {} sc t
  have hd : d = (recTree v (summarize v {}) t (rootCursor sc)).1 := rfl
  let G := flatten sc' nw d
  let S := leavesN d 0 1
  let σ : Nat → Nat := fun j => S.getD j 0
  let L := leafInfosTree v t (rootCursor sc)
  have hgt : gTask d = true := record_gram v {} sc t h
  have hw := gTask_gW d hgt
  have hlay := flatten_lay sc' nw d
  have hlT := enumNodes_lay sc' d
  -- the edge array is the tree edge list
  have hE : G.E.toList = sortEdges (enumEdges (enumNodes sc' d).T) := by
    simp [G, flatten, finishDag]
  have hperm : ∀ e, e ∈ G.E.toList ↔ e ∈ teN (kfOf (enumNodes sc' d).T) d 0 1 := by
    intro e
    rw [hE, mem_sortEdges]
    exact (enumEdges_perm _ d hlT.1 hlT.2 hw).mem_iff
  have hag : AgreeS σ 0 S := by
    intro j hj
    simp [σ, hj]
  have hpairs : (teN (kfOf (enumNodes sc' d).T) d 0 1).map uv = (edgesT t 0).map (ren σ) := by
    rw [hd]
    exact teN_rec v _ hk _ σ t (rootCursor sc) 0 1 0 hwt (by rw [← hd]; exact hag)
  -- what the leaf slots hold
  have hinfo : Pw (fun s i => Sim G.T[s]!.info i) S L := by
    have := inf_leavesN G.T d 0 1 (flatten_inf sc' nw d)
    rwa [show linfoN d = L from by rw [hd]; exact linfoN_rec v _ hk t _ hwt] at this
  have hlen : L.length = (leavesTree t).length := leafInfosTree_length v t _
  have hSlen : S.length = L.length := hinfo.1
  have hσ : ∀ j, j < S.length → σ j = S[j]! := by
    intro j hj
    simp [σ, hj, getElem!_pos]
  have hSmem : ∀ j, j < S.length → S[j]! ∈ S := by
    intro j hj
    rw [getElem!_pos S j hj]; exact List.getElem_mem hj
  have hleaf : ∀ r ∈ S, isLeaf G.T[r]! = true := leavesN_isLeaf G.T d 0 1 hlay.1 hw
  have hsize : ∀ r ∈ S, r < G.T.size := by
    intro r hr
    have := leavesN_in d 0 1 r hr
    simp only [InN] at this
    rw [hlay.2]; omega
  have hest : ∀ j (hj : j < L.length), G.T[σ j]!.info.c.est = L[j].c.est ∧ G.T[σ j]!.info.c.t1 = L[j].c.t1 := by
    intro j hj
    have := hinfo.2 j (by omega) hj
    rw [hσ j (by omega), getElem!_pos S j (by omega)]
    exact this
  -- the position-level potential
  let Ep : Nat → Nat := fun u => (L.map (fun i => i.c.est)).getD u 0
  let Dp : Nat → Nat := fun u => (L.map (fun i => i.c.t1)).getD u 0
  have hagp : Agree Ep Dp 0 L := by
    intro j hj
    simp [Ep, Dp, hj]
  have hfe : ∀ e ∈ edgesT t 0, EdgeOK Ep Dp 0 (0 + (leavesTree t).length) e :=
    fun e he => feasT v Ep Dp t 0 (rootCursor sc) hwt hagp e he
  have hgn : (dumpGraph G).n = G.T.size := dumpGraph_n G
  have hwleaf : ∀ j, j < L.length → (dumpGraph G).w (σ j) = L[j]!.c.t1 := by
    intro j hj
    have hm := hSmem j (by omega)
    rw [← hσ j (by omega)] at hm
    rw [dumpGraph_w G _ (hsize _ hm), hleaf _ hm, if_pos rfl, (hest j hj).2, getElem!_pos L j hj]
  constructor
  · -- no path is heavier
    let E' : Nat → Nat := fun u => if isLeaf G.T[u]! then G.T[u]!.info.c.est else 0
    have hE' : ∀ j, j < L.length → E' (σ j) = L[j]!.c.est := by
      intro j hj
      have hm := hSmem j (by omega)
      rw [← hσ j (by omega)] at hm
      simp only [E']
      rw [hleaf _ hm, if_pos rfl, (hest j hj).1, getElem!_pos L j hj]
    refine DepGraph.path_le _ E' _ ?_ ?_
    · intro e he
      have he' : e ∈ G.E.toList := he
      have : uv e ∈ (edgesT t 0).map (ren σ) := by
        rw [← hpairs]; exact List.mem_map_of_mem ((hperm e).mp he')
      obtain ⟨e0, he0, hq⟩ := List.mem_map.mp this
      simp only [ren, uv, Prod.mk.injEq] at hq
      obtain ⟨q1, q2, q3, q4⟩ := hfe e0 he0
      have ha : e0.u < L.length := by omega
      have hb : e0.v < L.length := by omega
      rw [← hq.1, ← hq.2, hE' _ ha, hE' _ hb, hwleaf _ ha]
      have e1 := hagp e0.u ha
      have e2 := hagp e0.v hb
      simp only [Nat.zero_add] at e1 e2
      rw [getElem!_pos L _ ha, getElem!_pos L _ hb, ← e1.1, ← e1.2, ← e2.1]
      exact q4
    · intro x hx
      rw [hgn] at hx
      rw [dumpGraph_w G x hx]
      by_cases hl : isLeaf G.T[x]! = true
      · have hxS : x ∈ S :=
          leaf_memN G.T d 0 1 hlay.1 hw x (by simp only [InN]; rw [hlay.2] at hx; omega) hl
        obtain ⟨j, hj, rfl⟩ := List.mem_iff_getElem.mp hxS
        have := hinfo.2 j hj (by omega)
        simp only [E', hl, if_true]
        rw [this.1, this.2]
        exact le_maxFinish L j (by omega)
      · simp [E', hl]
  · -- a path attains the value: the image of the longest path of `depGraph t`
    obtain ⟨p, hp, _, hpw⟩ := (maxFinish_is_longest_path v sc t h).2
    have hn : (depGraph t).n = L.length := by
      simp [DepGraph.n, depGraph, L, leafInfosTree_length]
    have := DepGraph.map_path (depGraph t) (dumpGraph G) σ
      (fun a ha => by
        rw [hgn]
        have hm := hSmem a (by omega)
        rw [← hσ a (by omega)] at hm
        exact hsize _ hm)
      (fun a b _ _ hab => by
        obtain ⟨e0, he0, rfl, rfl⟩ := hab
        have : ren σ e0 ∈ (teN (kfOf (enumNodes sc' d).T) d 0 1).map uv := by
          rw [hpairs]; exact List.mem_map_of_mem he0
        obtain ⟨e, he, hq⟩ := List.mem_map.mp this
        simp only [ren, uv, Prod.mk.injEq] at hq
        exact ⟨e, (hperm e).mpr he, hq.1, hq.2⟩)
      (fun a ha => by
        rw [hn] at ha
        rw [hwleaf a ha]
        simp only [DepGraph.w, depGraph, ← leafInfosTree_t1 v t (rootCursor sc)]
        simp [L, ha, getElem!_pos])
      p hp
    exact ⟨p.map σ, this.1, by rw [this.2, hpw]⟩

end MythVerif.DagRec
