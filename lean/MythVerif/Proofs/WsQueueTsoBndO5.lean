import MythVerif.Proofs.WsQueueTsoBnd
/-! Preservation of the bounds invariant `Bnd` (generated per program counter): owner at po5d, po6, po7, po8, po9. -/
namespace MythVerif.WsqTso
open MythVerif.Wsq

theorem bO_po5d (s s' : St) (r) : Inv s → Inv s' → Bnd s → s.opc = .po5d r → stepO s = some s' → Bnd s' := by
  intro h h' hb hpc hs
  have hcfg := h.cfg
  have hview := owner_views s h
  have hbc := hb.sz
  have a1 := h'.pu1; have a2 := h'.pu2; have a3 := h'.pux; have a4 := h'.pt7; have a5 := h'.pt8; have a6 := h'.shz; have a7 := h'.po3; have a8 := h'.po5
  simp only [stepO, hpc, releaseO, fenceOk, hcfg, code_unlockFence, code_pushRb, code_popFence, if_true] at hs
  all_goals (try split at hs)
  all_goals (try split at hs)
  all_goals (try simp at hs)
  all_goals (try (first | (subst hs; exact hb) | subst hs))
  all_goals (
    tso_coreO h hpc [po5d]
    bnd_core hb
    simp only [hpc, ownerLocked, carry, resetting, ownerFlight] at a1 a2 a3 a4 a5 a6 a7 a8 hview hbc
    constructor
    all_goals (bnd_pick hb; rename_i hold)
    all_goals (first | exact hold | (
      (try simp only [hpc, upd_apply, applySto] at hold ⊢)
      first | assumption | (intros; contradiction) | grind [thiefLocked, mayBuf, notTrans, thiefFlight, popWin, rcOff_bnd, Rc1Shape, Rc2Shape, RcPre, RcShape, InsShape, Pu2Shape, CarryShape] | skip)))

theorem bO_po6 (s s' : St) (r) : Inv s → Inv s' → Bnd s → s.opc = .po6 r → stepO s = some s' → Bnd s' := by
  intro h h' hb hpc hs
  have hcfg := h.cfg
  have hview := owner_views s h
  have hbc := hb.sz
  have a1 := h'.pu1; have a2 := h'.pu2; have a3 := h'.pux; have a4 := h'.pt7; have a5 := h'.pt8; have a6 := h'.shz; have a7 := h'.po3; have a8 := h'.po5
  simp only [stepO, hpc, releaseO, fenceOk, hcfg, code_unlockFence, code_pushRb, code_popFence, if_true] at hs
  all_goals (try split at hs)
  all_goals (try split at hs)
  all_goals (try simp at hs)
  all_goals (try (first | (subst hs; exact hb) | subst hs))
  all_goals (
    tso_coreO h hpc [po6]
    bnd_core hb
    simp only [hpc, ownerLocked, carry, resetting, ownerFlight] at a1 a2 a3 a4 a5 a6 a7 a8 hview hbc
    constructor
    all_goals (bnd_pick hb; rename_i hold)
    all_goals (first | exact hold | (
      (try simp only [hpc, upd_apply, applySto] at hold ⊢)
      first | assumption | (intros; contradiction) | grind [thiefLocked, mayBuf, notTrans, thiefFlight, popWin, rcOff_bnd, Rc1Shape, Rc2Shape, RcPre, RcShape, InsShape, Pu2Shape, CarryShape] | skip)))

theorem bO_po7 (s s' : St) : Inv s → Inv s' → Bnd s → s.opc = .po7 → stepO s = some s' → Bnd s' := by
  intro h h' hb hpc hs
  have hcfg := h.cfg
  have hview := owner_views s h
  have hbc := hb.sz
  have a1 := h'.pu1; have a2 := h'.pu2; have a3 := h'.pux; have a4 := h'.pt7; have a5 := h'.pt8; have a6 := h'.shz; have a7 := h'.po3; have a8 := h'.po5
  simp only [stepO, hpc, releaseO, fenceOk, hcfg, code_unlockFence, code_pushRb, code_popFence, if_true] at hs
  all_goals (try split at hs)
  all_goals (try split at hs)
  all_goals (try simp at hs)
  all_goals (try (first | (subst hs; exact hb) | subst hs))
  all_goals (
    tso_coreO h hpc [po7]
    bnd_core hb
    simp only [hpc, ownerLocked, carry, resetting, ownerFlight] at a1 a2 a3 a4 a5 a6 a7 a8 hview hbc
    constructor
    all_goals (bnd_pick hb; rename_i hold)
    all_goals (first | exact hold | (
      (try simp only [hpc, upd_apply, applySto] at hold ⊢)
      first | assumption | (intros; contradiction) | grind [thiefLocked, mayBuf, notTrans, thiefFlight, popWin, rcOff_bnd, Rc1Shape, Rc2Shape, RcPre, RcShape, InsShape, Pu2Shape, CarryShape] | skip)))

theorem bO_po8 (s s' : St) : Inv s → Inv s' → Bnd s → s.opc = .po8 → stepO s = some s' → Bnd s' := by
  intro h h' hb hpc hs
  have hcfg := h.cfg
  have hview := owner_views s h
  have hbc := hb.sz
  have a1 := h'.pu1; have a2 := h'.pu2; have a3 := h'.pux; have a4 := h'.pt7; have a5 := h'.pt8; have a6 := h'.shz; have a7 := h'.po3; have a8 := h'.po5
  simp only [stepO, hpc, releaseO, fenceOk, hcfg, code_unlockFence, code_pushRb, code_popFence, if_true] at hs
  all_goals (try split at hs)
  all_goals (try split at hs)
  all_goals (try simp at hs)
  all_goals (try (first | (subst hs; exact hb) | subst hs))
  all_goals (
    tso_coreO h hpc [po8]
    bnd_core hb
    simp only [hpc, ownerLocked, carry, resetting, ownerFlight] at a1 a2 a3 a4 a5 a6 a7 a8 hview hbc
    constructor
    all_goals (bnd_pick hb; rename_i hold)
    all_goals (first | exact hold | (
      (try simp only [hpc, upd_apply, applySto] at hold ⊢)
      first | assumption | (intros; contradiction) | grind [thiefLocked, mayBuf, notTrans, thiefFlight, popWin, rcOff_bnd, Rc1Shape, Rc2Shape, RcPre, RcShape, InsShape, Pu2Shape, CarryShape] | skip)))

theorem bO_po9 (s s' : St) : Inv s → Inv s' → Bnd s → s.opc = .po9 → stepO s = some s' → Bnd s' := by
  intro h h' hb hpc hs
  have hcfg := h.cfg
  have hview := owner_views s h
  have hbc := hb.sz
  have a1 := h'.pu1; have a2 := h'.pu2; have a3 := h'.pux; have a4 := h'.pt7; have a5 := h'.pt8; have a6 := h'.shz; have a7 := h'.po3; have a8 := h'.po5
  simp only [stepO, hpc, releaseO, fenceOk, hcfg, code_unlockFence, code_pushRb, code_popFence, if_true] at hs
  all_goals (try split at hs)
  all_goals (try split at hs)
  all_goals (try simp at hs)
  all_goals (try (first | (subst hs; exact hb) | subst hs))
  all_goals (
    tso_coreO h hpc [po9]
    bnd_core hb
    simp only [hpc, ownerLocked, carry, resetting, ownerFlight] at a1 a2 a3 a4 a5 a6 a7 a8 hview hbc
    constructor
    all_goals (bnd_pick hb; rename_i hold)
    all_goals (first | exact hold | (
      (try simp only [hpc, upd_apply, applySto] at hold ⊢)
      first | assumption | (intros; contradiction) | grind [thiefLocked, mayBuf, notTrans, thiefFlight, popWin, rcOff_bnd, Rc1Shape, Rc2Shape, RcPre, RcShape, InsShape, Pu2Shape, CarryShape] | skip)))

end MythVerif.WsqTso
