import MythVerif.Proofs.WsQueueTsoTac
/-! Preservation lemmas of the TSO invariant (drain of a thief's `base` store); the possible
    contents of a non-empty buffer of a participant other than the owner. -/
namespace MythVerif.WsqTso
open MythVerif.Wsq


/-- a non-empty buffer of a participant other than the owner: it holds the lock and the buffer is
    the pending `base` store of take / wsapi take / wsapi peek (increment or roll-back), the pending
    stores of trypass, or a store of the cache word -/
theorem thief_buf_shape (s : St) (h : Inv s) (p : Pid) (st : Sto) (rest : List Sto) (hb : s.bufT p = st :: rest) :
    s.lock = .thief p ∧
    ((∃ b, (s.tpc p = .tkf b ∨ s.tpc p = .wkf b ∨ s.tpc p = .vkf b) ∧ st = .base (b + 1) ∧ rest = [] ∧
        s.lb = b ∧ s.tr = false) ∨
     ((s.tpc p = .tk6 ∨ s.tpc p = .wk6 ∨ s.tpc p = .vu) ∧ st = .base s.lb ∧ rest = [] ∧ s.tr = true) ∨
     (∃ e, s.tpc p = .tp3 e ∧ st = .ptr (s.lb - 1) (some e) ∧ rest = []) ∨
     (∃ e ok, s.tpc p = .tp4 ok ∧ st = .ptr (s.lb - 1) (some e) ∧ rest = [.baseI (s.lb - 1) e]) ∨
     (∃ e ok, s.tpc p = .tp4 ok ∧ st = .baseI (s.lb - 1) e ∧ rest = [] ∧ s.ptr (s.lb - 1) = some e) ∨
     (∃ x, st = .cache x ∧
        ((∃ r, s.tpc p = .wk4u r ∧ rest = []) ∨ (∃ b, s.tpc p = .vk5 b ∧ rest = []) ∨
         (s.tpc p = .vu ∧ rest = [.base s.lb] ∧ s.tr = true)))) := by
  have hl := h.lockT p
  cases hpc : s.tpc p
  case tkf b =>
    have := h.tkf p b hpc
    simp only [TkfShape, hb] at this
    simp [hpc, thiefLocked] at hl
    grind
  case tk6 =>
    have := h.tk6 p hpc
    simp only [Tk6Shape, hb] at this
    simp [hpc, thiefLocked] at hl
    grind
  case tp3 e =>
    have := h.tp3 p e hpc
    simp only [Pu2Shape, hb] at this
    simp [hpc, thiefLocked] at hl
    grind
  case tp4 ok =>
    have := h.tp4 p ok hpc
    simp only [InsShape, hb] at this
    simp [hpc, thiefLocked] at hl
    grind
  case wkf b =>
    have := h.wkf p b hpc
    simp only [TkfShape, hb] at this
    simp [hpc, thiefLocked] at hl
    grind
  case wk6 =>
    have := h.wk6 p hpc
    simp only [Tk6Shape, hb] at this
    simp [hpc, thiefLocked] at hl
    grind
  case wk4u r =>
    have := (h.wk4u p r hpc).2
    simp only [Wk4uShape, hb] at this
    simp [hpc, thiefLocked] at hl
    grind
  case vkf b =>
    have := h.vkf p b hpc
    simp only [TkfShape, hb] at this
    simp [hpc, thiefLocked] at hl
    grind
  case vk5 b =>
    have := (h.vk5 p b hpc).2.2
    simp only [Vk5Shape, hb] at this
    simp [hpc, thiefLocked] at hl
    grind
  case vu =>
    have := h.vu p hpc
    simp only [VuShape, hb] at this
    simp [hpc, thiefLocked] at hl
    grind
  all_goals (have := h.tbufE p (by simp [hpc, mayBuf]); rw [hb] at this; cases this)

theorem thief_owner_unlocked (s : St) (h : Inv s) (p : Pid) (hl : s.lock = .thief p) : ownerLocked s.opc = false := by
  cases ho : ownerLocked s.opc with
  | false => rfl
  | true => have := h.lockO.2 ho; rw [hl] at this; cases this

theorem f_T_inc (s : St) (p : Pid) (b : Int) : Inv s → s.lock = .thief p → s.bufT p = [.base (b + 1)] →
    (s.tpc p = .tkf b ∨ s.tpc p = .wkf b ∨ s.tpc p = .vkf b) → s.lb = b → s.tr = false →
    Inv (applySto { s with bufT := upd s.bufT p [] } (.base (b + 1))) := by
  intro h hl hb hpc hlb htr
  have hnot := thief_owner_unlocked s h p hl
  simp only [applySto]
  have hd : decide (b + 1 = s.lb + 1) = true := by simp [hlb]
  rw [hd]
  tso_fastT h p [tkf, wkf, vkf]

theorem f_T_rb (s : St) (p : Pid) : Inv s → s.lock = .thief p → s.bufT p = [.base s.lb] →
    (s.tpc p = .tk6 ∨ s.tpc p = .wk6 ∨ s.tpc p = .vu) → s.tr = true →
    Inv (applySto { s with bufT := upd s.bufT p [] } (.base s.lb)) := by
  intro h hl hb hpc htr
  have hnot := thief_owner_unlocked s h p hl
  simp only [applySto]
  have hd : decide (s.lb = s.lb + 1) = false := by simp; omega
  rw [hd]
  tso_fastT h p [tk6, wk6, vu]

end MythVerif.WsqTso
