import MythVerif.Proofs.WsQueueTsoTac
/-! Preservation lemmas of the TSO invariant (drain of a thief's `base` store). -/
namespace MythVerif.WsqTso
open MythVerif.Wsq


/-- a thief's buffer only ever holds one `base` store -/
theorem thief_buf_shape (s : St) (h : Inv s) (p : Pid) (st : Sto) (rest : List Sto) (hb : s.bufT p = st :: rest) :
    rest = [] ∧ s.lock = .thief p ∧
    ((∃ b, s.tpc p = .tkf b ∧ st = .base (b + 1) ∧ s.lb = b ∧ s.tr = false) ∨
     (s.tpc p = .tk6 ∧ st = .base s.lb ∧ s.tr = true)) := by
  have hl := h.lockT p
  cases hpc : s.tpc p
  case tkf b =>
    have := h.tkf p b hpc
    simp only [TkfShape, hb] at this
    simp [hpc, thiefLocked] at hl
    grind
  case tk6 =>
    have := h.tk6 p hpc
    simp only [Tk6Shape, hb] at this
    simp [hpc, thiefLocked] at hl
    grind
  all_goals (have := h.tbufE p (by simp [hpc, mayBuf]); rw [hb] at this; cases this)

set_option maxHeartbeats 4000000 in
theorem f_T (s s' : St) (p : Pid) : Inv s → step s (.flushT p) = some s' → Inv s' := by
  intro h hs
  simp only [step] at hs
  split at hs
  · rename_i st rest hb
    obtain ⟨hr, hl, hcase⟩ := thief_buf_shape s h p st rest hb
    subst hr
    simp at hs; subst hs
    have hnot : ownerLocked s.opc = false := by
      cases ho : ownerLocked s.opc with
      | false => rfl
      | true => have := h.lockO.2 ho; rw [hl] at this; cases this
    rcases hcase with ⟨b, hpc, hst, hlb, htr⟩ | ⟨hpc, hst, htr⟩
    · subst hst
      simp only [applySto]
      have hd : decide (b + 1 = s.lb + 1) = true := by simp [hlb]
      rw [hd]
      cases h
      simp only [ownerLocked, carry, resetting, ownerFlight] at *
      tso_finish3
    · subst hst
      simp only [applySto]
      have hd : decide (s.lb = s.lb + 1) = false := by simp; omega
      rw [hd]
      cases h
      simp only [ownerLocked, carry, resetting, ownerFlight] at *
      tso_finish3
  · simp at hs

end MythVerif.WsqTso
