import MythVerif.Proofs.PiDagLayout
import MythVerif.Proofs.PiDagGram
import MythVerif.Proofs.PiDagCert
/-! Tools for reasoning about a laid-out DAG: every slot carries a laid-out subtree, sums over all
slots are sums over the tree, sums over the children slots are sums over the child list. -/
namespace MythVerif.PiDag
open MythVerif.DagRec

/-! ### the context-free part of the shape -/

def isTaskG : DNode → Bool
  | .group i _ => i.c.kind == .task
  | _ => false

mutual
/-- kinds agree with constructors: intervals are neither create nodes nor sections / tasks, the
    child of a create node is a task -/
def gW : DNode → Bool
  | .ival i => !(i.c.kind == .createTask) && !isGroupK i.c.kind
  | .create i ch => i.c.kind == .createTask && isTaskG ch && gW ch
  | .group i ds => isGroupK i.c.kind && gWL ds
def gWL : DList → Bool
  | .nil => true
  | .cons d r => gW d && gWL r
end

theorem gLast_gW {b : Bool} {d : DNode} (h : gLast b d = true) : gW d = true := by
  cases d with
  | ival i =>
    simp only [gLast] at h
    simp only [gW, isGroupK]
    cases b <;> simp at h <;> simp [h]
  | create _ _ => simp [gLast] at h
  | group _ _ => simp [gLast] at h

theorem gTask_isTaskG {d : DNode} (h : gTask d = true) : isTaskG d = true := by
  cases d with
  | group i ds => simp only [gTask, Bool.and_eq_true] at h; exact h.1
  | ival _ => simp [gTask] at h
  | create _ _ => simp [gTask] at h

mutual
theorem gItem_gW : ∀ (d : DNode) (b : Bool), gItem b d = true → gW d = true
  | .ival i, b, h => by
    simp only [gItem] at h
    simp only [gW, isGroupK]
    simp at h; simp [h]
  | .create i ch, b, h => by
    simp only [gItem, Bool.and_eq_true] at h
    simp only [gW, Bool.and_eq_true]
    exact ⟨⟨h.1.2, gTask_isTaskG h.2⟩, gTask_gW ch h.2⟩
  | .group i ds, b, h => by
    simp only [gItem, Bool.and_eq_true, Bool.or_eq_true] at h
    simp only [gW, Bool.and_eq_true, isGroupK, Bool.or_eq_true]
    refine ⟨Or.inl h.1, ?_⟩
    rcases h.2 with h2 | h2
    · cases ds with
      | nil => rfl
      | cons _ _ => simp [DList.isNil] at h2
    · exact gForest_gWL ds false h2
theorem gTask_gW : ∀ (d : DNode), gTask d = true → gW d = true
  | .ival i, h => by simp [gTask] at h
  | .create i ch, h => by simp [gTask] at h
  | .group i ds, h => by
    simp only [gTask, Bool.and_eq_true, Bool.or_eq_true] at h
    simp only [gW, Bool.and_eq_true, isGroupK, Bool.or_eq_true]
    refine ⟨Or.inr h.1, ?_⟩
    rcases h.2 with h2 | h2
    · cases ds with
      | nil => rfl
      | cons _ _ => simp [DList.isNil] at h2
    · exact gForest_gWL ds true h2
theorem gForest_gWL : ∀ (ds : DList) (b : Bool), gForest b ds = true → gWL ds = true
  | .nil, _, h => by simp [gForest] at h
  | .cons d .nil, b, h => by
    simp only [gForest] at h
    simp only [gWL, Bool.and_eq_true, and_true]
    exact gLast_gW h
  | .cons d (.cons d' r), b, h => by
    rw [gForest_cons2, Bool.and_eq_true] at h
    simp only [gWL, Bool.and_eq_true]
    have := gForest_gWL (.cons d' r) b h.2
    simp only [gWL, Bool.and_eq_true] at this
    exact ⟨gItem_gW d b h.1, this⟩
end

/-! ### every slot carries a laid-out subtree -/

/-- slot `g` carries a (well-kinded) subtree whose descendants lie in `[lo, hi)` -/
def SlotOK (T : Array PNode) (g lo hi : Nat) : Prop :=
  ∃ d' b', LayN T d' g b' ∧ gW d' = true ∧ lo ≤ b' ∧ b' + descT d' ≤ hi

mutual
theorem LayN_slots (T : Array PNode) : ∀ (d : DNode) (idx base : Nat), LayN T d idx base → gW d = true →
    ∀ g, base ≤ g → g < base + descT d → SlotOK T g base (base + descT d)
  | .ival _, _, _, _, _ => by intro g h1 h2; simp [descT] at h2; omega
  | .create i ch, idx, base, hl, hw => by
    intro g h1 h2
    simp only [LayN] at hl
    simp only [gW, Bool.and_eq_true] at hw
    simp only [descT] at h2 ⊢
    by_cases hg : g = base
    · subst hg
      exact ⟨ch, g + 1, hl.2.2.2, hw.2, by omega, by omega⟩
    · obtain ⟨d', b', q1, q2, q3, q4⟩ := LayN_slots T ch base (base + 1) hl.2.2.2 hw.2 g (by omega) (by omega)
      exact ⟨d', b', q1, q2, by omega, by omega⟩
  | .group i ds, idx, base, hl, hw => by
    intro g h1 h2
    simp only [LayN] at hl
    simp only [gW, Bool.and_eq_true] at hw
    simp only [descT] at h2 ⊢
    rw [descL_eq] at h2 ⊢
    obtain ⟨d', b', q1, q2, q3, q4⟩ := LayL_slots T ds base (base + ds.length) hl.2.2.2 hw.2 g (by omega)
    exact ⟨d', b', q1, q2, by omega, by omega⟩
theorem LayL_slots (T : Array PNode) : ∀ (ds : DList) (k base : Nat), LayL T ds k base → gWL ds = true →
    ∀ g, (k ≤ g ∧ g < k + ds.length) ∨ (base ≤ g ∧ g < base + descS ds) → SlotOK T g base (base + descS ds)
  | .nil, _, _, _, _ => by intro g h; simp [DList.length, descS] at h; omega
  | .cons d r, k, base, hl, hw => by
    intro g h
    simp only [LayL] at hl
    simp only [gWL, Bool.and_eq_true] at hw
    simp only [DList.length, descS] at h ⊢
    by_cases hg : g = k
    · subst hg
      exact ⟨d, base, hl.1, hw.1, by omega, by omega⟩
    · by_cases hd : base ≤ g ∧ g < base + descT d
      · obtain ⟨d', b', q1, q2, q3, q4⟩ := LayN_slots T d k base hl.1 hw.1 g hd.1 hd.2
        exact ⟨d', b', q1, q2, by omega, by omega⟩
      · obtain ⟨d', b', q1, q2, q3, q4⟩ := LayL_slots T r (k + 1) (base + descT d) hl.2 hw.2 g (by omega)
        exact ⟨d', b', q1, q2, by omega, by omega⟩
end

/-- every slot of a laid-out DAG carries a laid-out subtree inside the DAG -/
theorem slot_all (T : Array PNode) (d : DNode) (hl : LayN T d 0 1) (hn : T.size = 1 + descT d) (hw : gW d = true)
    (g : Nat) (hg : g < T.size) : SlotOK T g 1 T.size := by
  by_cases h0 : g = 0
  · subst h0; exact ⟨d, 1, hl, hw, by omega, by omega⟩
  · rw [hn]; exact LayN_slots T d 0 1 hl hw g (by omega) (by omega)

/-- the `j`-th child slot of a laid-out list -/
theorem LayL_child (T : Array PNode) : ∀ (ds : DList) (k base : Nat), LayL T ds k base → gWL ds = true →
    ∀ g, k ≤ g → g < k + ds.length → SlotOK T g base (base + descS ds) :=
  fun ds k base hl hw g h1 h2 => LayL_slots T ds k base hl hw g (Or.inl ⟨h1, h2⟩)

/-! ### interval sums -/

def isum (lo len : Nat) (f : Nat → Nat) : Nat := rsum len (fun i => f (lo + i))

theorem isum_zero (lo : Nat) (f : Nat → Nat) : isum lo 0 f = 0 := rfl

theorem isum_succ (lo len : Nat) (f : Nat → Nat) : isum lo (len + 1) f = isum lo len f + f (lo + len) := by
  simp [isum, rsum_succ]

theorem isum_add (lo a b : Nat) (f : Nat → Nat) : isum lo (a + b) f = isum lo a f + isum (lo + a) b f := by
  induction b with
  | zero => simp [isum_zero]
  | succ b ih => rw [← Nat.add_assoc, isum_succ, isum_succ, ih]; simp [Nat.add_assoc]

theorem isum_succ_left (lo len : Nat) (f : Nat → Nat) : isum lo (len + 1) f = f lo + isum (lo + 1) len f := by
  rw [Nat.add_comm len 1, isum_add]
  simp [isum, rsum]

theorem isum_congr (lo len : Nat) (f g : Nat → Nat) (h : ∀ x, lo ≤ x → x < lo + len → f x = g x) :
    isum lo len f = isum lo len g :=
  rsum_congr _ _ _ (fun x hx => h _ (by omega) (by omega))

theorem rsum_eq_isum (n : Nat) (f : Nat → Nat) : rsum n f = isum 0 n f := by simp [isum]

/-- sum of `1` over the slots of `[lo, lo+len)` that equal `j` -/
theorem isum_ind (lo len j : Nat) :
    isum lo len (fun i => if i = j then 1 else 0) = if lo ≤ j ∧ j < lo + len then 1 else 0 := by
  induction len with
  | zero => simp [isum_zero]
  | succ len ih =>
    rw [isum_succ, ih]
    by_cases h1 : lo + len = j
    · subst h1; simp
    · simp only [h1, if_false]
      by_cases h2 : lo ≤ j ∧ j < lo + len
      · rw [if_pos h2, if_pos (by omega)]
      · rw [if_neg h2, if_neg (by omega)]

/-! ### sums over all slots = sums over the tree -/

mutual
/-- sum over the tree of a function of the local layout -/
def tsN (φ : DNode → Nat → Nat → Nat) : DNode → Nat → Nat → Nat
  | .ival i, idx, base => φ (.ival i) idx base
  | .create i ch, idx, base => φ (.create i ch) idx base + tsN φ ch base (base + 1)
  | .group i ds, idx, base => φ (.group i ds) idx base + tsL φ ds base (base + ds.length)
def tsL (φ : DNode → Nat → Nat → Nat) : DList → Nat → Nat → Nat
  | .nil, _, _ => 0
  | .cons d r, k, base => tsN φ d k base + tsL φ r (k + 1) (base + descT d)
end

mutual
theorem sumN (T : Array PNode) (f : Nat → Nat) (φ : DNode → Nat → Nat → Nat) (hi : Nat)
    (H : ∀ d' g b', LayN T d' g b' → gW d' = true → b' + descT d' ≤ hi → f g = φ d' g b') :
    ∀ (d : DNode) (idx base : Nat), LayN T d idx base → gW d = true → base + descT d ≤ hi →
      f idx + isum base (descT d) f = tsN φ d idx base
  | .ival i, idx, base, hl, hw, hb => by simp [descT, isum_zero, tsN, H _ _ _ hl hw hb]
  | .create i ch, idx, base, hl, hw, hb => by
    have h0 := H _ _ _ hl hw hb
    simp only [LayN] at hl
    simp only [gW, Bool.and_eq_true] at hw
    simp only [descT] at hb
    have ih := sumN T f φ hi H ch base (base + 1) hl.2.2.2 hw.2 (by omega)
    simp only [descT, tsN]
    rw [Nat.add_comm 1, isum_succ_left, h0]
    omega
  | .group i ds, idx, base, hl, hw, hb => by
    have h0 := H _ _ _ hl hw hb
    simp only [LayN] at hl
    simp only [gW, Bool.and_eq_true] at hw
    simp only [descT] at hb
    rw [descL_eq] at hb
    have ih := sumL T f φ hi H ds base (base + ds.length) hl.2.2.2 hw.2 (by omega)
    simp only [descT, tsN]
    rw [descL_eq, isum_add, h0]
    omega
theorem sumL (T : Array PNode) (f : Nat → Nat) (φ : DNode → Nat → Nat → Nat) (hi : Nat)
    (H : ∀ d' g b', LayN T d' g b' → gW d' = true → b' + descT d' ≤ hi → f g = φ d' g b') :
    ∀ (ds : DList) (k base : Nat), LayL T ds k base → gWL ds = true → base + descS ds ≤ hi →
      isum k ds.length f + isum base (descS ds) f = tsL φ ds k base
  | .nil, _, _, _, _, _ => by simp [DList.length, descS, isum_zero, tsL]
  | .cons d r, k, base, hl, hw, hb => by
    simp only [LayL] at hl
    simp only [gWL, Bool.and_eq_true] at hw
    simp only [descS] at hb
    have ih1 := sumN T f φ hi H d k base hl.1 hw.1 (by omega)
    have ih2 := sumL T f φ hi H r (k + 1) (base + descT d) hl.2 hw.2 (by omega)
    simp only [DList.length, descS, tsL]
    rw [isum_succ_left, isum_add]
    omega
end

/-- the sum over all slots of a laid-out DAG -/
theorem sum_all (T : Array PNode) (f : Nat → Nat) (φ : DNode → Nat → Nat → Nat)
    (H : ∀ d' g b', LayN T d' g b' → gW d' = true → b' + descT d' ≤ T.size → f g = φ d' g b')
    (d : DNode) (hl : LayN T d 0 1) (hn : T.size = 1 + descT d) (hw : gW d = true) :
    rsum T.size f = tsN φ d 0 1 := by
  rw [rsum_eq_isum]
  conv => lhs; rw [hn]
  rw [Nat.add_comm 1, isum_succ_left]
  exact sumN T f φ T.size H d 0 1 hl hw (by omega)

/-! ### sums over the children slots = sums over the child list -/

def sumD (ψ : DNode → Nat) : DList → Nat
  | .nil => 0
  | .cons d r => ψ d + sumD ψ r

theorem isum_children (T : Array PNode) (f : Nat → Nat) (ψ : DNode → Nat)
    (H : ∀ d' g b', LayN T d' g b' → gW d' = true → f g = ψ d') :
    ∀ (ds : DList) (k base : Nat), LayL T ds k base → gWL ds = true → isum k ds.length f = sumD ψ ds
  | .nil, _, _, _, _ => rfl
  | .cons d r, k, base, hl, hw => by
    simp only [LayL] at hl
    simp only [gWL, Bool.and_eq_true] at hw
    simp only [DList.length, sumD]
    rw [isum_succ_left, H _ _ _ hl.1 hw.1, isum_children T f ψ H r (k + 1) _ hl.2 hw.2]

end MythVerif.PiDag
