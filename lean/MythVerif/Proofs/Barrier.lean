import MythVerif.Model.Barrier
/-! Inductive invariant of the barrier model (for an arbitrary participant list `P`, `N = P.length`)
and its preservation, one lemma per label. -/
namespace MythVerif.Barrier

/-! ### list facts -/

/-- pigeonhole: a duplicate-free list inside a duplicate-free list of at most the same length covers it -/
theorem pigeon {l m : List Tid} (hl : l.Nodup) (hs : ∀ x, x ∈ l → x ∈ m)
    (hlen : m.length ≤ l.length) : ∀ x, x ∈ m → x ∈ l := by
  intro x hx
  apply Classical.byContradiction
  intro hxl
  have hsub : l ⊆ m.erase x := by
    intro y hy
    have hyx : y ≠ x := by intro e; subst e; exact hxl hy
    exact (List.mem_erase_of_ne hyx).mpr (hs y hy)
  have h1 := List.Nodup.length_le_of_subset hl hsub
  rw [List.length_erase_of_mem hx] at h1
  have : 0 < m.length := List.length_pos_of_mem hx
  omega

theorem nodup_len1 {l : List Tid} (hl : l.Nodup) (h1 : l.length ≤ 1) {a b : Tid} (ha : a ∈ l) (hb : b ∈ l) :
    a = b := by
  match l, hl, h1, ha, hb with
  | [x], _, _, ha, hb => simp at ha hb; rw [ha, hb]
  | _ :: _ :: _, _, h1, _, _ => simp at h1

/-- with a duplicate-free stack, a recorded `x :: nx` that is still a suffix and whose `x` is the
    current top *is* the stack: no ABA -/
theorem suffix_head_eq {st nx : List Tid} {x : Tid} (hn : st.Nodup) (hs : (x :: nx) <:+ st)
    (hh : st.head? = some x) : st = x :: nx := by
  obtain ⟨ys, hys⟩ := hs
  cases ys with
  | nil => simpa using hys.symm
  | cons y ys' =>
    subst hys
    simp at hh
    subst hh
    simp [List.nodup_cons] at hn

structure Inv (P : List Tid) (s : St) : Prop where
  nP    : 1 ≤ P.length
  ndP   : P.Nodup
  np    : ∀ t, t ∉ P → s.pc t = .idle
  arrP  : ∀ t, t ∈ s.arrd → t ∈ P
  arrR  : ∀ t, t ∈ s.arrd → s.rnd t = s.gen
  arrB  : ∀ t, t ∈ s.arrd → blkPc (s.pc t) = true
  arrN  : s.arrd.Nodup
  oldP  : ∀ t, t ∈ s.old → t ∈ P
  oldR  : ∀ t, t ∈ s.old → s.rnd t + 1 = s.gen
  oldN  : s.old.Nodup
  oldPc : ∀ t, t ∈ s.old → blkPc (s.pc t) = true ∨ s.pc t = .woken ∨ s.ldr = some t
  preC  : ∀ t, t ∈ P → t ∉ s.arrd → t ∉ s.old → s.rnd t = s.gen ∧ prePc (s.pc t) = true
  wokO  : ∀ t, s.pc t = .woken → t ∈ s.old
  ldrI  : ∀ t, ldrPc (s.pc t) = true ↔ s.ldr = some t
  ldrO  : ∀ t, s.ldr = some t → t ∈ s.old
  cnt   : s.count = s.arrd.length + (if s.rst = true then P.length else 0)
  arrL  : s.arrd.length + 1 ≤ P.length
  rstL  : ∀ t, s.ldr = some t → (s.rst = true ↔ s.pc t = .lreset)
  rstN  : s.ldr = none → s.rst = false
  rdC   : ∀ t v, s.pc t = .rd v → v < P.length
  noEx  : ∀ t, s.pc t ≠ .exited
  stN   : s.stack.Nodup
  stA   : ∀ t, t ∈ s.stack → s.pc t = .asleep
  stW   : ∀ t, t ∈ s.stack → t ∉ s.wk
  wkA   : ∀ t, t ∈ s.wk → s.pc t = .asleep
  wkO   : ∀ t, t ∈ s.wk → t ∈ s.old
  wkN   : s.wk.Nodup
  asl   : ∀ t, s.pc t = .asleep → t ∈ s.stack ∨ t ∈ s.wk
  wkL   : s.ldr = none → s.wk = []
  popA  : ∀ t, popPc (s.pc t) = true → s.arrd = [] ∧ s.old.length = P.length ∧ s.pushed (s.rnd t) = 0
  popC  : ∀ t, popPc (s.pc t) = true → ∀ p, p ∈ s.old → p ≠ t → blkPc (s.pc p) = true
  lrsA  : ∀ t, s.pc t = .lreset → s.wk = []
  lpoA  : ∀ t acc, s.pc t = .lpop acc → s.wk = acc ∧ acc.length + 1 < P.length
  lpcA  : ∀ t x nx acc, s.pc t = .lpopc x nx acc → s.wk = acc ∧ acc.length + 1 < P.length ∧ (x :: nx) <:+ s.stack
  lpuA  : ∀ t rem, s.pc t = .lpush rem → s.wk = rem ∧ rem ≠ [] ∧ s.pushed (s.rnd t) + rem.length + 1 = P.length
  lreA  : ∀ t, s.pc t = .lret → s.wk = [] ∧ s.pushed (s.rnd t) + 1 = P.length
  pshC  : ∀ t, (s.pc t = .lret ∨ ∃ rem, s.pc t = .lpush rem) → ∀ p, p ∈ s.old → p ≠ t → s.pc p = .woken ∨ p ∈ s.wk
  oldW  : s.ldr = none → ∀ p, p ∈ s.old → s.pc p = .woken
  -- ghost counters
  arrLt : ∀ k, k < s.gen → s.arr k = P.length
  arrEq : s.arr s.gen = s.arrd.length
  arrGt : ∀ k, s.gen < k → s.arr k = 0
  retLt : ∀ k, k + 1 < s.gen → s.retd k = P.length ∧ s.serial k = 1 ∧ s.pushed k + 1 = P.length
  retEq : ∀ k, k + 1 = s.gen → s.retd k + s.old.length = P.length ∧
            s.serial k = (if s.ldr = none then 1 else 0) ∧ (s.ldr = none → s.pushed k + 1 = P.length)
  retGe : ∀ k, s.gen ≤ k → s.retd k = 0 ∧ s.serial k = 0 ∧ s.pushed k = 0

theorem inv_init (P : List Tid) (h1 : 1 ≤ P.length) (hn : P.Nodup) : Inv P init := by
  constructor <;> simp [init, prePc, blkPc, ldrPc, popPc, h1, hn]

macro "bfin" : tactic => `(tactic| (
    all_goals (try assumption)
    all_goals (try simp only [upd_apply])
    all_goals (first | assumption | grind [prePc, blkPc, ldrPc, popPc, List.Nodup.mem_erase_iff, List.Nodup.erase,
                              List.length_erase_of_mem, List.nodup_cons, List.nodup_append] | skip)))

macro "bstep" : tactic => `(tactic| (
  intro h hP hs
  obtain ⟨hnP, hndP, hnp, harrP, harrR, harrB, harrN, holdP, holdR, holdN, holdPc, hpreC, hwokO, hldrI, hldrO,
    hcnt, harrL, hrstL, hrstN, hrdC, hnoEx, hstN, hstA, hstW, hwkA, hwkO, hwkN, hasl, hwkL, hpopA, hpopC,
    hlrsA, hlpoA, hlpcA, hlpuA, hlreA, hpshC, holdW, harrLt, harrEq, harrGt, hretLt, hretEq, hretGe⟩ := h
  simp only [step] at hs
  (first | (split at hs) | skip)
  all_goals (first | (split at hs) | skip)
  all_goals (first | (split at hs) | skip)
  all_goals (first | (split at hs) | skip)
  all_goals (try simp at hs)
  all_goals (try subst hs)
  skip
  all_goals (constructor <;> bfin)))

theorem p_blockBegin (P : List Tid) (s s' : St) (t) :
    Inv P s → t ∈ P → step P.length s (.blockBegin t) = some s' → Inv P s' := by bstep

theorem p_pushRead (P : List Tid) (s s' : St) (t x) :
    Inv P s → t ∈ P → step P.length s (.pushRead t x) = some s' → Inv P s' := by bstep

/-- in the window between the last CAS and the reset every participant is in `old` -/
theorem all_old_of_len {P : List Tid} {s : St} (holdP : ∀ t, t ∈ s.old → t ∈ P) (holdN : s.old.Nodup)
    (hlen : s.old.length = P.length) : ∀ p, p ∈ P → p ∈ s.old :=
  pigeon holdN holdP (by omega)

theorem p_read (P : List Tid) (s s' : St) (t v) :
    Inv P s → t ∈ P → step P.length s (.read t v) = some s' → Inv P s' := by
  intro h hP hs
  obtain ⟨hnP, hndP, hnp, harrP, harrR, harrB, harrN, holdP, holdR, holdN, holdPc, hpreC, hwokO, hldrI, hldrO,
    hcnt, harrL, hrstL, hrstN, hrdC, hnoEx, hstN, hstA, hstW, hwkA, hwkO, hwkN, hasl, hwkL, hpopA, hpopC,
    hlrsA, hlpoA, hlpcA, hlpuA, hlreA, hpshC, holdW, harrLt, harrEq, harrGt, hretLt, hretEq, hretGe⟩ := h
  simp only [step] at hs
  split at hs
  · rename_i hc
    split at hs
    · simp at hs; subst hs
      constructor <;> bfin
    · -- a participant can never read `state ≥ N`
      exfalso
      rename_i hv
      obtain ⟨hv0, hpc⟩ := hc
      have hr : s.rst = true := by
        cases hr : s.rst with
        | true => rfl
        | false => rw [hr] at hcnt; simp at hcnt; omega
      cases hl : s.ldr with
      | none => have := hrstN hl; rw [hr] at this; cases this
      | some l =>
        have hlr : s.pc l = .lreset := (hrstL l hl).mp hr
        have hlen := (hpopA l (by simp [hlr, popPc])).2.1
        have hto : t ∈ s.old := all_old_of_len holdP holdN hlen t hP
        rcases holdPc t hto with hb | hb | hb
        · rcases hpc with e | e <;> simp [e, blkPc] at hb
        · rcases hpc with e | e <;> simp [e] at hb
        · have := (hldrI t).mpr hb
          rcases hpc with e | e <;> simp [e, ldrPc] at this
  · simp at hs

theorem p_pushCas (P : List Tid) (s s' : St) (t ok) :
    Inv P s → t ∈ P → step P.length s (.pushCas t ok) = some s' → Inv P s' := by bstep

theorem p_popRead (P : List Tid) (s s' : St) (t x) :
    Inv P s → t ∈ P → step P.length s (.popRead t x) = some s' → Inv P s' := by bstep

end MythVerif.Barrier
