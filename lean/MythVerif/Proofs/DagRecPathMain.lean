import MythVerif.Proofs.DagRecPathTight
/-!
The latest earliest-finish time `maxFinish` over the intervals of an execution is the weight of a
longest path of its dependency graph (`depGraph`): the recorder's `est` is a feasible potential
(`feasT`) that is tight along some incoming edge of every interval but the first (`tightT`).
-/
namespace MythVerif.DagRec
open MythVerif.PiDag (PEdge)

mutual
theorem leafInfosTree_t1 (v : Variant) : ∀ (t : Tree) (c : Cursor),
    (leafInfosTree v t c).map (fun i => i.c.t1) = (leavesTree t).map Leaf.dur
  | .ival _ _, _ => by simp [leafInfosTree, leavesTree, endInterval, Leaf.dur]
  | .create r ch, c => by
    simp [leafInfosTree, leavesTree, endInterval, Leaf.dur, leafInfosTree_t1 v ch]
  | .group _ f, c => by simp [leafInfosTree, leavesTree, leafInfosForest_t1 v f]
theorem leafInfosForest_t1 (v : Variant) : ∀ (f : Forest) (c : Cursor),
    (leafInfosForest v f c).map (fun i => i.c.t1) = (leavesForest f).map Leaf.dur
  | .nil, _ => by simp [leafInfosForest, leavesForest]
  | .cons t r, c => by
    simp [leafInfosForest, leavesForest, leafInfosTree_t1 v t, leafInfosForest_t1 v r]
end

/-- `m` is the weight of a longest path of `G`: no path is heavier and some path weighs `m` -/
def DepGraph.IsLongestPathWeight (G : DepGraph) (m : Nat) : Prop :=
  (∀ p, G.IsPath p → G.pathWeight p ≤ m) ∧ ∃ p, G.IsPath p ∧ G.pathWeight p = m

theorem DepGraph.IsLongestPathWeight.unique {G : DepGraph} {m m' : Nat}
    (h : G.IsLongestPathWeight m) (h' : G.IsLongestPathWeight m') : m = m' := by
  obtain ⟨p, hp, e⟩ := h.2
  obtain ⟨p', hp', e'⟩ := h'.2
  have := h.1 p' hp'
  have := h'.1 p hp
  omega

/-- every path of the dependency graph weighs at most the latest earliest-finish time, and a path
    from the first interval attains it -/
theorem maxFinish_is_longest_path (v : Variant) (sc : Nat) (t : Tree) (h : wnTask t = true) :
    (∀ p, (depGraph t).IsPath p → (depGraph t).pathWeight p ≤ maxFinish (leafInfosTree v t (rootCursor sc))) ∧
    ∃ p, (depGraph t).IsPath p ∧ p.head? = some 0 ∧
      (depGraph t).pathWeight p = maxFinish (leafInfosTree v t (rootCursor sc)) := by
  let L := leafInfosTree v t (rootCursor sc)
  let E : Nat → Nat := fun u => (L.map (fun i => i.c.est)).getD u 0
  let D : Nat → Nat := fun u => (L.map (fun i => i.c.t1)).getD u 0
  have hw := wnAny_of_task h
  have hag : Agree E D 0 L := by
    intro j hj
    simp [E, D, hj]
  have hwD : ∀ u, (depGraph t).w u = D u := by
    intro u
    simp only [DepGraph.w, depGraph, D, L, leafInfosTree_t1]
  have hn : (depGraph t).n = L.length := by
    simp [DepGraph.n, depGraph, L, leafInfosTree_length]
  have hlen : L.length = (leavesTree t).length := leafInfosTree_length v t _
  have hfe : ∀ e ∈ (depGraph t).edges, EdgeOK E D 0 (0 + (leavesTree t).length) e :=
    fun e he => feasT v E D t 0 (rootCursor sc) hw hag e he
  have hE : ∀ e ∈ (depGraph t).edges, E e.u + (depGraph t).w e.u ≤ E e.v := by
    intro e he; rw [hwD]; exact (hfe e he).2.2.2
  have hM : ∀ x, x < (depGraph t).n → E x + (depGraph t).w x ≤ maxFinish L := by
    intro x hx
    rw [hwD]
    have := hag.finish_le x (by omega)
    simpa using this
  refine ⟨fun p hp => DepGraph.path_le _ E _ hE hM p hp, ?_⟩
  have hne : L ≠ [] := by
    obtain ⟨i, L', e, _⟩ := leafInfosTree_head v t (rootCursor sc) hw
    simp [L, e]
  obtain ⟨j, hj, hjm⟩ := exists_maxFinish L hne
  have h0 : E 0 = 0 := by rw [hag.headT hw]; rfl
  have hpend : pendT t 0 = [] := by
    obtain ⟨f, rfl, _⟩ := wnTask_group h
    simp [pendT]
  have ht : ∀ j, 0 < j → j < (depGraph t).n →
      ∃ e ∈ (depGraph t).edges, e.v = j ∧ e.u < j ∧ E e.u + (depGraph t).w e.u = E j := by
    intro j h1 h2
    rcases tightT v E D t 0 (rootCursor sc) hw hag j h1 (by omega) with q | q
    · obtain ⟨e, he, hv, hq⟩ := q
      exact ⟨e, he, hv, by have := (hfe e he).2.1; omega, by rw [hwD]; exact hq⟩
    · rw [hpend] at q; simp at q
  obtain ⟨r', hc, hwt⟩ := DepGraph.exists_tight_path _ E h0 ht j (by omega) [] trivial
  refine ⟨0 :: r', ⟨by omega, hc⟩, rfl, ?_⟩
  rw [hwt, DepGraph.pathWeight_cons, hwD, ← hjm]
  have := hag j hj
  simp only [Nat.zero_add] at this
  simp [DepGraph.pathWeight, this.1, this.2]

end MythVerif.DagRec
