import MythVerif.Proofs.WsQueueTsoTac
/-! Preservation lemmas of the TSO invariant (generated per program counter of the owner): drain of a passer's store (ptr4) while the owner is at pq, po1, pof. -/
namespace MythVerif.WsqTso
open MythVerif.Wsq

theorem f_T_ptr4_pq (s : St) (p : Pid) (e0 : Elem) (ok : Bool) : Inv s → s.opc = .pq → s.lock = .thief p →
    s.bufT p = [.ptr (s.lb - 1) (some e0), .baseI (s.lb - 1) e0] → s.tpc p = .tp4 ok →
    Inv (applySto { s with bufT := upd s.bufT p [.baseI (s.lb - 1) e0] } (.ptr (s.lb - 1) (some e0))) := by
  intro h hopc hl h0 h1
  simp only [applySto]
  tso_fastO h hopc [tp3, tp4, carryC]

theorem f_T_ptr4_po1 (s : St) (p : Pid) (e0 : Elem) (ok : Bool) : Inv s → s.opc = .po1 → s.lock = .thief p →
    s.bufT p = [.ptr (s.lb - 1) (some e0), .baseI (s.lb - 1) e0] → s.tpc p = .tp4 ok →
    Inv (applySto { s with bufT := upd s.bufT p [.baseI (s.lb - 1) e0] } (.ptr (s.lb - 1) (some e0))) := by
  intro h hopc hl h0 h1
  simp only [applySto]
  tso_fastO h hopc [tp3, tp4, carryC]

theorem f_T_ptr4_pof (s : St) (p : Pid) (e0 : Elem) (ok : Bool) (t) : Inv s → s.opc = .pof t → s.lock = .thief p →
    s.bufT p = [.ptr (s.lb - 1) (some e0), .baseI (s.lb - 1) e0] → s.tpc p = .tp4 ok →
    Inv (applySto { s with bufT := upd s.bufT p [.baseI (s.lb - 1) e0] } (.ptr (s.lb - 1) (some e0))) := by
  intro h hopc hl h0 h1
  simp only [applySto]
  tso_fastO h hopc [tp3, tp4, pof]

end MythVerif.WsqTso
