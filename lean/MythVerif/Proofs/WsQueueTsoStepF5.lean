import MythVerif.Proofs.WsQueueTsoTac
/-! Preservation lemmas of the TSO invariant (drain of the owner's inserting `base` store: the
    linearization point of put). -/
namespace MythVerif.WsqTso
open MythVerif.Wsq

set_option maxHeartbeats 4000000 in
theorem f_O_baseI (s s' : St) (v : Int) (e : Elem) (rest : List Sto) : Inv s → s.bufO = .baseI v e :: rest →
    s' = applySto { s with bufO := rest } (.baseI v e) → Inv s' := by
  intro h hb hs
  subst hs
  simp only [applySto]
  cases hpc : s.opc
  case pt9 =>
    have hsh := (h.pt9 hpc).2
    have hmwin := h.mwin
    simp only [InsShape, hb] at hsh
    obtain ⟨hv, hr, hp⟩ : v = s.lb - 1 ∧ rest = [] ∧ s.ptr (s.lb - 1) = some e := by grind
    subst hr
    cases h; simp only [hpc, ownerLocked, carry, resetting, ownerFlight] at *
    constructor
    all_goals (try simp only [ownerLocked, carry, resetting, ownerFlight, upd_apply, applySto])
    case mwin =>
      intro k hk hk2
      cases k with
      | zero => simp [hp]
      | succ j =>
        have h1 := hmwin j (by simp at hk; omega) (by omega)
        simp only [List.getElem?_cons_succ]
        rw [← h1]; congr 1; omega
    all_goals (first | assumption | grind [thiefLocked, mayBuf, notTrans, thiefFlight, InsShape] | skip)
  all_goals (exfalso; cases h; simp only [hpc, ownerLocked, carry, resetting, ownerFlight] at *)
  all_goals grind [CarryShape, Pu2Shape, PofShape, Po6Shape, Po8Shape, Po9Shape, InsShape]

end MythVerif.WsqTso
