import MythVerif.Proofs.WsQueueTsoTac
/-! Preservation lemmas of the TSO invariant (drain of the owner's inserting `base` store: the
    linearization point of put). -/
namespace MythVerif.WsqTso
open MythVerif.Wsq

theorem f_O_baseI (s s' : St) (v : Int) (e : Elem) (rest : List Sto) : Inv s → s.bufO = .baseI v e :: rest →
    s' = applySto { s with bufO := rest } (.baseI v e) → Inv s' := by
  intro h hb hs
  subst hs
  simp only [applySto]
  cases hpc : s.opc
  case pt9 =>
    have hsh := h.pt9 hpc
    simp only [InsShape, RcPre, hb] at hsh
    obtain ⟨hv, hr, hp, hsh0, htop, hbase⟩ :
        v = s.lb - 1 ∧ rest = [] ∧ s.ptr (s.lb - 1) = some e ∧ s.sh = 0 ∧ s.top = s.lt ∧ s.base = s.lb := by grind
    subst hr
    have hmw := mwin_cons s.A s.ptr s.lb s.top _ e h.mwin hp
    simp only [hpc, resetting] at hmw
    tso_coreO h hpc [pt9]
    constructor
    case mwin => (try simp only [resetting, upd_apply, applySto]); exact hmw
    case pt9 => intro _; exact Or.inr ⟨hsh0, htop, by simp only []; omega, Or.inr (Or.inr rfl)⟩
    tso_goalsO h hpc
  all_goals tso_absurd_core h hpc

end MythVerif.WsqTso
