import MythVerif.Proofs.WsQueueTsoTac
import MythVerif.Proofs.WsQueueTsoStepF8
/-! Preservation lemmas of the TSO invariant (generated per program counter of the owner): drain of an owner `shift` store at pus, puv, pux. -/
namespace MythVerif.WsqTso
open MythVerif.Wsq

theorem f_O_shift_pus (s : St) (lo0 hi0 off0 : Int) (rest : List Sto) (e off) : Inv s → s.opc = .pus e off →
    s.bufO = .shift lo0 hi0 off0 :: rest → Inv (applySto { s with bufO := rest } (.shift lo0 hi0 off0)) := by
  intro h hpc hb
  obtain ⟨rfl, rfl, rfl, hres⟩ := shift_head s h lo0 hi0 off0 rest hb
  have hmw := mwin_shift s.A s.ptr s.lb s.lt s.sh h.len (fun k hk => h.mwin k hk (Or.inr hres))
  simp only [applySto]
  tso_coreO h hpc [pus]
  constructor
  case mwin => intro k hk _; exact hmw k hk
  tso_goalsO h hpc

theorem f_O_shift_puv (s : St) (lo0 hi0 off0 : Int) (rest : List Sto) (e off) : Inv s → s.opc = .puv e off →
    s.bufO = .shift lo0 hi0 off0 :: rest → Inv (applySto { s with bufO := rest } (.shift lo0 hi0 off0)) := by
  intro h hpc hb
  obtain ⟨rfl, rfl, rfl, hres⟩ := shift_head s h lo0 hi0 off0 rest hb
  have hmw := mwin_shift s.A s.ptr s.lb s.lt s.sh h.len (fun k hk => h.mwin k hk (Or.inr hres))
  simp only [applySto]
  tso_coreO h hpc [puv]
  constructor
  case mwin => intro k hk _; exact hmw k hk
  tso_goalsO h hpc

theorem f_O_shift_pux (s : St) (lo0 hi0 off0 : Int) (rest : List Sto) (e t) : Inv s → s.opc = .pux e t →
    s.bufO = .shift lo0 hi0 off0 :: rest → Inv (applySto { s with bufO := rest } (.shift lo0 hi0 off0)) := by
  intro h hpc hb
  obtain ⟨rfl, rfl, rfl, hres⟩ := shift_head s h lo0 hi0 off0 rest hb
  have hmw := mwin_shift s.A s.ptr s.lb s.lt s.sh h.len (fun k hk => h.mwin k hk (Or.inr hres))
  simp only [applySto]
  tso_coreO h hpc [pux]
  constructor
  case mwin => intro k hk _; exact hmw k hk
  tso_goalsO h hpc

end MythVerif.WsqTso
