import MythVerif.Model.PthGate
/-!
Determinacy of the fork-join + lock-protected-commutative + monotone-gate fragment
(`MythVerif.PthGate.GProg`): every step of the abstract interface preserves `gval`,
`counters + gdelta` and `gates + gposts` (an `await` changes nothing), so every complete execution
ends in `geval p`; gates never decrease; `gsize` decreases with every step, so there is no
divergence; and a configuration without a step is either finished or `Blocked` — a deadlock.
-/
namespace MythVerif.PthGate
open MythVerif.PthProg (Store Store.bump)

theorem step_preserves (x y : Cfg) (h : Step x y) :
    gval y.1 = gval x.1 ∧ (∀ i, y.2.1 i + gdelta y.1 i = x.2.1 i + gdelta x.1 i) ∧
      (∀ i, y.2.2 i + gposts y.1 i = x.2.2 i + gposts x.1 i) := by
  induction h with
  | add c k σ γ =>
    refine ⟨by simp [gval], ?_, by intro i; simp [gposts]⟩
    intro i
    simp only [gdelta, Store.bump]
    split <;> simp
  | post g n σ γ =>
    refine ⟨by simp [gval], by intro i; simp [gdelta], ?_⟩
    intro i
    simp only [gposts, Gates.bump]
    split <;> simp
  | await g n σ γ _ => exact ⟨by simp [gval], by intro i; simp [gdelta], by intro i; simp [gposts]⟩
  | seqL a a' b σ γ σ' γ' _ ih =>
    refine ⟨by simp [gval, ih.1], ?_, ?_⟩
    · intro i
      have := ih.2.1 i
      simp only [gdelta] at *
      omega
    · intro i
      have := ih.2.2 i
      simp only [gposts] at *
      omega
  | seqR v b b' σ γ σ' γ' _ ih =>
    refine ⟨by simp [gval, ih.1], ?_, ?_⟩
    · intro i
      have := ih.2.1 i
      simp only [gdelta] at *
      omega
    · intro i
      have := ih.2.2 i
      simp only [gposts] at *
      omega
  | seqDone v w σ γ => exact ⟨by simp [gval], by intro i; simp [gdelta], by intro i; simp [gposts]⟩
  | fork c b σ γ => exact ⟨by simp [gval], by intro i; simp [gdelta], by intro i; simp [gposts]⟩
  | parL c c' b σ γ σ' γ' _ ih =>
    refine ⟨by simp [gval, ih.1], ?_, ?_⟩
    · intro i
      have := ih.2.1 i
      simp only [gdelta] at *
      omega
    · intro i
      have := ih.2.2 i
      simp only [gposts] at *
      omega
  | parR c b b' σ γ σ' γ' _ ih =>
    refine ⟨by simp [gval, ih.1], ?_, ?_⟩
    · intro i
      have := ih.2.1 i
      simp only [gdelta] at *
      omega
    · intro i
      have := ih.2.2 i
      simp only [gposts] at *
      omega
  | join v w σ γ => exact ⟨by simp [gval], by intro i; simp [gdelta], by intro i; simp [gposts]⟩

theorem steps_preserve (x y : Cfg) (h : Steps x y) :
    gval y.1 = gval x.1 ∧ (∀ i, y.2.1 i + gdelta y.1 i = x.2.1 i + gdelta x.1 i) ∧
      (∀ i, y.2.2 i + gposts y.1 i = x.2.2 i + gposts x.1 i) := by
  induction h with
  | refl x => exact ⟨rfl, fun _ => rfl, fun _ => rfl⟩
  | cons x y z hxy _ ih =>
    have h1 := step_preserves x y hxy
    exact ⟨ih.1.trans h1.1, fun i => (ih.2.1 i).trans (h1.2.1 i), fun i => (ih.2.2 i).trans (h1.2.2 i)⟩

/-- a gate never decreases in a step -/
theorem step_gates_mono (x y : Cfg) (h : Step x y) : ∀ g, x.2.2 g ≤ y.2.2 g := by
  induction h with
  | post g n σ γ =>
    intro i
    simp only [Gates.bump]
    split <;> omega
  | seqL _ _ _ _ _ _ _ _ ih => exact ih
  | seqR _ _ _ _ _ _ _ _ ih => exact ih
  | parL _ _ _ _ _ _ _ _ ih => exact ih
  | parR _ _ _ _ _ _ _ _ ih => exact ih
  | _ => intro i; exact Nat.le_refl _

theorem steps_gates_mono (x y : Cfg) (h : Steps x y) : ∀ g, x.2.2 g ≤ y.2.2 g := by
  induction h with
  | refl x => intro g; exact Nat.le_refl _
  | cons x y z hxy _ ih =>
    intro g
    exact Nat.le_trans (step_gates_mono x y hxy g) (ih g)

theorem step_size (x y : Cfg) (h : Step x y) : gsize y.1 < gsize x.1 := by
  induction h <;> simp [gsize] at * <;> omega

theorem steps_length (x y : Cfg) (h : Steps x y) : gsize y.1 ≤ gsize x.1 := by
  induction h with
  | refl x => exact Nat.le_refl _
  | cons x y z hxy _ ih => have := step_size x y hxy; omega

theorem steps_trans (x y z : Cfg) (h1 : Steps x y) (h2 : Steps y z) : Steps x z := by
  induction h1 with
  | refl x => exact h2
  | cons a b c hab _ ih => exact Steps.cons a b z hab (ih h2)

/-- no divergence: there is no infinite execution (after `n` steps at most `gsize - n` remain) -/
theorem no_infinite_run (f : Nat → Cfg) (h : ∀ n, Step (f n) (f (n + 1))) : False := by
  have key : ∀ n, gsize (f n).1 + n ≤ gsize (f 0).1 := by
    intro n
    induction n with
    | zero => simp
    | succ n ih => have := step_size _ _ (h n); omega
  have h1 := key (gsize (f 0).1 + 1)
  omega

/-- a term is finished, or blocked (every remaining thread at an `await` below its threshold), or
    it can move -/
theorem progress (p : GProg) (σ : Store) (γ : Gates) :
    (∃ v, p = .ret v) ∨ Blocked γ p ∨ ∃ y, Step (p, σ, γ) y := by
  induction p with
  | ret v => exact Or.inl ⟨v, rfl⟩
  | add c k => exact Or.inr (Or.inr ⟨_, Step.add c k σ γ⟩)
  | post g n => exact Or.inr (Or.inr ⟨_, Step.post g n σ γ⟩)
  | await g n =>
    by_cases hg : n ≤ γ g
    · exact Or.inr (Or.inr ⟨_, Step.await g n σ γ hg⟩)
    · exact Or.inr (Or.inl (Blocked.await g n (by omega)))
  | seq a b iha ihb =>
    right
    rcases iha with ⟨v, rfl⟩ | ha | ⟨⟨a', σ', γ'⟩, h⟩
    · rcases ihb with ⟨w, rfl⟩ | hb | ⟨⟨b', σ', γ'⟩, h⟩
      · exact Or.inr ⟨_, Step.seqDone v w σ γ⟩
      · exact Or.inl (Blocked.seqR v b hb)
      · exact Or.inr ⟨_, Step.seqR v b b' σ γ σ' γ' h⟩
    · exact Or.inl (Blocked.seqL a b ha)
    · exact Or.inr ⟨_, Step.seqL a a' b σ γ σ' γ' h⟩
  | fork c b _ _ => exact Or.inr (Or.inr ⟨_, Step.fork c b σ γ⟩)
  | par c b ihc ihb =>
    right
    rcases ihc with ⟨v, rfl⟩ | hc | ⟨⟨c', σ', γ'⟩, h⟩
    · rcases ihb with ⟨w, rfl⟩ | hb | ⟨⟨b', σ', γ'⟩, h⟩
      · exact Or.inr ⟨_, Step.join v w σ γ⟩
      · exact Or.inl (Blocked.parR v b hb)
      · exact Or.inr ⟨_, Step.parR _ b b' σ γ σ' γ' h⟩
    · rcases ihb with ⟨w, rfl⟩ | hb | ⟨⟨b', σ', γ'⟩, h⟩
      · exact Or.inl (Blocked.parL c w hc)
      · exact Or.inl (Blocked.parLR c b hc hb)
      · exact Or.inr ⟨_, Step.parR _ b b' σ γ σ' γ' h⟩
    · exact Or.inr ⟨_, Step.parL c c' b σ γ σ' γ' h⟩

theorem ret_no_step (v : Int) (σ : Store) (γ : Gates) (y : Cfg) : ¬ Step (.ret v, σ, γ) y := by
  intro h; cases h

/-- conversely, a blocked term has no step (whatever the counters) -/
theorem blocked_no_step (γ : Gates) (p : GProg) (hb : Blocked γ p) (σ : Store) (y : Cfg) :
    ¬ Step (p, σ, γ) y := by
  induction hb generalizing y with
  | await g n hlt => intro h; cases h; omega
  | seqL a b _ ih =>
    intro h
    cases h with
    | seqL _ a' _ _ _ σ' γ' h1 => exact ih _ h1
    | seqR v _ b' _ _ σ' γ' h1 => rename_i hbl; cases hbl
    | seqDone v w => rename_i hbl; cases hbl
  | seqR v b _ ih =>
    intro h
    cases h with
    | seqL _ a' _ _ _ σ' γ' h1 => exact ret_no_step _ _ _ _ h1
    | seqR _ _ b' _ _ σ' γ' h1 => exact ih _ h1
    | seqDone _ w => rename_i hbl; cases hbl
  | parLR c b _ _ ihc ihb =>
    intro h
    cases h with
    | parL _ c' _ _ _ σ' γ' h1 => exact ihc _ h1
    | parR _ _ b' _ _ σ' γ' h1 => exact ihb _ h1
    | join v w => rename_i hbl _; cases hbl
  | parL c w _ ih =>
    intro h
    cases h with
    | parL _ c' _ _ _ σ' γ' h1 => exact ih _ h1
    | parR _ _ b' _ _ σ' γ' h1 => exact ret_no_step _ _ _ _ h1
    | join v _ => rename_i hbl; cases hbl
  | parR v b _ ih =>
    intro h
    cases h with
    | parL _ c' _ _ _ σ' γ' h1 => exact ret_no_step _ _ _ _ h1
    | parR _ _ b' _ _ σ' γ' h1 => exact ih _ h1
    | join _ w => rename_i hbl; cases hbl

/-- a blocked term is not finished -/
theorem blocked_not_ret (γ : Gates) (v : Int) : ¬ Blocked γ (.ret v) := by
  intro h; cases h

/-- a blocked term has at least one waiting thread and each of them waits for a gate that is below
    its threshold -/
theorem blocked_waits (γ : Gates) (p : GProg) (hb : Blocked γ p) :
    waits p ≠ [] ∧ ∀ gn ∈ waits p, γ gn.1 < gn.2 := by
  induction hb with
  | await g n hlt => simp [waits, hlt]
  | seqL a b hbl ih =>
    cases a with
    | ret v => cases hbl
    | _ => simp only [waits]; exact ih
  | seqR v b _ ih => simpa [waits] using ih
  | parLR c b _ _ ihc ihb =>
    refine ⟨by simp [waits, ihc.1], ?_⟩
    intro gn hgn
    simp only [waits, List.mem_append] at hgn
    rcases hgn with h | h
    · exact ihc.2 gn h
    · exact ihb.2 gn h
  | parL c w _ ih => simpa [waits] using ih
  | parR v b _ ih => simpa [waits] using ih

end MythVerif.PthGate
