import MythVerif.Proofs.WsQueueTsoTac
/-! Preservation lemmas of the TSO invariant (drain of a passer's slot store). -/
namespace MythVerif.WsqTso
open MythVerif.Wsq

set_option maxHeartbeats 4000000 in
theorem f_T_ptr3 (s : St) (p : Pid) (e : Elem) : Inv s → s.lock = .thief p →
    s.bufT p = [.ptr (s.lb - 1) (some e)] → s.tpc p = .tp3 e →
    Inv (applySto { s with bufT := upd s.bufT p [] } (.ptr (s.lb - 1) (some e))) := by
  intro h hl hb hpc
  simp only [applySto]
  cases hopc : s.opc
  all_goals (cases h; simp only [hopc, ownerLocked, carry, resetting, ownerFlight] at *)
  all_goals tso_finish3

set_option maxHeartbeats 4000000 in
theorem f_T_ptr4 (s : St) (p : Pid) (e : Elem) (ok : Bool) : Inv s → s.lock = .thief p →
    s.bufT p = [.ptr (s.lb - 1) (some e), .baseI (s.lb - 1) e] → s.tpc p = .tp4 ok →
    Inv (applySto { s with bufT := upd s.bufT p [.baseI (s.lb - 1) e] } (.ptr (s.lb - 1) (some e))) := by
  intro h hl hb hpc
  simp only [applySto]
  cases hopc : s.opc
  all_goals (cases h; simp only [hopc, ownerLocked, carry, resetting, ownerFlight] at *)
  all_goals tso_finish3

end MythVerif.WsqTso
