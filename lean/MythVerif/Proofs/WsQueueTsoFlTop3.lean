import MythVerif.Proofs.WsQueueTsoTac
/-! Preservation lemmas of the TSO invariant (generated per program counter of the owner): drain of an owner `top` store at cll, pof, po8. -/
namespace MythVerif.WsqTso
open MythVerif.Wsq

theorem f_O_top_cll (s : St) (v0) (rest : List Sto) : Inv s → s.opc = .cll →
    s.bufO = .top v0 :: rest → Inv (applySto { s with bufO := rest } (.top v0)) := by
  intro h hpc hb
  simp only [applySto]
  tso_fastO h hpc [carryC]

theorem f_O_top_pof (s : St) (v0) (rest : List Sto) (t) : Inv s → s.opc = .pof t →
    s.bufO = .top v0 :: rest → Inv (applySto { s with bufO := rest } (.top v0)) := by
  intro h hpc hb
  simp only [applySto]
  tso_fastO h hpc [pof]

theorem f_O_top_po8 (s : St) (v0) (rest : List Sto) : Inv s → s.opc = .po8 →
    s.bufO = .top v0 :: rest → Inv (applySto { s with bufO := rest } (.top v0)) := by
  intro h hpc hb
  simp only [applySto]
  tso_fastO h hpc [po8]

end MythVerif.WsqTso
