import MythVerif.Proofs.WsQueueTac
/-! Per-program-counter preservation lemmas of the work-stealing queue invariant (generated list, uniform script). -/
namespace MythVerif.Wsq

set_option maxHeartbeats 1000000 in
theorem t_wtl (s s' : St) (p : Pid) : Inv s → s.tpc p = .wtl → stepT s p = some s' → Inv s' := by wsq_tstep

set_option maxHeartbeats 1000000 in
theorem t_wk1 (s s' : St) (p : Pid) : Inv s → s.tpc p = .wk1 → stepT s p = some s' → Inv s' := by wsq_tstep

set_option maxHeartbeats 1000000 in
theorem t_wk2 (s s' : St) (p : Pid) (b) : Inv s → s.tpc p = .wk2 b → stepT s p = some s' → Inv s' := by wsq_tstep

set_option maxHeartbeats 1000000 in
theorem t_wk3 (s s' : St) (p : Pid) (b) : Inv s → s.tpc p = .wk3 b → stepT s p = some s' → Inv s' := by wsq_tstep

set_option maxHeartbeats 1000000 in
theorem t_wk4 (s s' : St) (p : Pid) (r) : Inv s → s.tpc p = .wk4 r → stepT s p = some s' → Inv s' := by wsq_tstep

end MythVerif.Wsq
