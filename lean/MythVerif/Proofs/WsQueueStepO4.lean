import MythVerif.Proofs.WsQueueTac
/-! Per-program-counter preservation lemmas of the work-stealing queue invariant (generated list, uniform script). -/
namespace MythVerif.Wsq

set_option maxHeartbeats 1000000 in
theorem o_po5d (s s' : St) (r) : Inv s → s.opc = .po5d r → stepO s = some s' → Inv s' := by wsq_ostep

set_option maxHeartbeats 1000000 in
theorem o_po6 (s s' : St) (r) : Inv s → s.opc = .po6 r → stepO s = some s' → Inv s' := by wsq_ostep

set_option maxHeartbeats 1000000 in
theorem o_po7 (s s' : St) : Inv s → s.opc = .po7 → stepO s = some s' → Inv s' := by wsq_ostep

set_option maxHeartbeats 1000000 in
theorem o_po8 (s s' : St) : Inv s → s.opc = .po8 → stepO s = some s' → Inv s' := by wsq_ostep

set_option maxHeartbeats 1000000 in
theorem o_po9 (s s' : St) : Inv s → s.opc = .po9 → stepO s = some s' → Inv s' := by wsq_ostep

end MythVerif.Wsq
