import MythVerif.Proofs.WsQueueTsoTac
/-! Preservation lemmas of the TSO invariant (owner: pop, unlock and reset). -/
namespace MythVerif.WsqTso
open MythVerif.Wsq

set_option maxHeartbeats 4000000 in
theorem o_po6 (s s' : St) (r) : Inv s → s.opc = .po6 r → stepO s = some s' → Inv s' := by
  intro h heq hs
  have hcfg := h.cfg
  cases h
  simp only [stepO, heq, releaseO, hcfg, code_unlockFence, if_true] at hs
  split at hs
  · rename_i hb
    simp at hb
    simp at hs; subst hs
    simp only [heq, ownerLocked, carry, resetting, ownerFlight] at *
    tso_finish
  · simp at hs

set_option maxHeartbeats 4000000 in
theorem o_po7 (s s' : St) : Inv s → s.opc = .po7 → stepO s = some s' → Inv s' := by
  intro h heq hs
  cases h
  simp only [stepO, heq] at hs
  simp at hs; subst hs
  simp only [heq, ownerLocked, carry, resetting, ownerFlight] at *
  tso_finish

set_option maxHeartbeats 4000000 in
theorem o_po8 (s s' : St) : Inv s → s.opc = .po8 → stepO s = some s' → Inv s' := by
  intro h heq hs
  cases h
  simp only [stepO, heq] at hs
  simp at hs; subst hs
  simp only [heq, ownerLocked, carry, resetting, ownerFlight] at *
  tso_finish

set_option maxHeartbeats 4000000 in
theorem o_po9 (s s' : St) : Inv s → s.opc = .po9 → stepO s = some s' → Inv s' := by
  intro h heq hs
  have hcfg := h.cfg
  cases h
  simp only [stepO, heq, releaseO, hcfg, code_unlockFence, if_true] at hs
  split at hs
  · rename_i hb
    simp at hb
    simp at hs; subst hs
    simp only [heq, ownerLocked, carry, resetting, ownerFlight] at *
    tso_finish
  · simp at hs

set_option maxHeartbeats 4000000 in
theorem o_po5c (s s' : St) (t r) : Inv s → s.opc = .po5c t r → stepO s = some s' → Inv s' := by
  intro h heq hs
  cases h
  simp only [stepO, heq] at hs
  split at hs
  all_goals (simp at hs; subst hs)
  all_goals simp only [heq, ownerLocked, carry, resetting, ownerFlight] at *
  all_goals tso_finish

set_option maxHeartbeats 4000000 in
theorem o_po5d (s s' : St) (r) : Inv s → s.opc = .po5d r → stepO s = some s' → Inv s' := by
  intro h heq hs
  cases h
  simp only [stepO, heq] at hs
  simp at hs; subst hs
  simp only [heq, ownerLocked, carry, resetting, ownerFlight] at *
  tso_finish

end MythVerif.WsqTso
