import MythVerif.Proofs.WsQueueTsoTac
/-! Preservation lemmas of the TSO invariant (owner: pop, unlock and reset). -/
namespace MythVerif.WsqTso
open MythVerif.Wsq

theorem o_po6 (s s' : St) (r) : Inv s → s.opc = .po6 r → stepO s = some s' → Inv s' := by
  intro h heq hs
  have hcfg := h.cfg
  simp only [stepO, heq, releaseO, hcfg, code_unlockFence, if_true] at hs
  split at hs
  · rename_i hb
    simp at hb
    simp at hs; subst hs
    tso_fastO h heq [po6]
  · simp at hs

theorem o_po7 (s s' : St) : Inv s → s.opc = .po7 → stepO s = some s' → Inv s' := by
  intro h heq hs
  simp only [stepO, heq] at hs
  simp at hs; subst hs
  tso_fastO h heq [po7]

theorem o_po8 (s s' : St) : Inv s → s.opc = .po8 → stepO s = some s' → Inv s' := by
  intro h heq hs
  simp only [stepO, heq] at hs
  simp at hs; subst hs
  tso_fastO h heq [po8]

theorem o_po9 (s s' : St) : Inv s → s.opc = .po9 → stepO s = some s' → Inv s' := by
  intro h heq hs
  have hcfg := h.cfg
  simp only [stepO, heq, releaseO, hcfg, code_unlockFence, if_true] at hs
  split at hs
  · rename_i hb
    simp at hb
    simp at hs; subst hs
    tso_fastO h heq [po9]
  · simp at hs

theorem o_po5c (s s' : St) (t r) : Inv s → s.opc = .po5c t r → stepO s = some s' → Inv s' := by
  intro h heq hs
  simp only [stepO, heq] at hs
  split at hs
  all_goals (simp at hs; subst hs)
  all_goals tso_fastO h heq [po5c]

theorem o_po5d (s s' : St) (r) : Inv s → s.opc = .po5d r → stepO s = some s' → Inv s' := by
  intro h heq hs
  simp only [stepO, heq] at hs
  simp at hs; subst hs
  tso_fastO h heq [po5d]

end MythVerif.WsqTso
