import MythVerif.Model.Tls
/-! Helper lemmas for the TLS tree model (C10, C11). -/
namespace MythVerif.Tls

theorem mod_mul_eq_iff (a b M c : Nat) (hM : 0 < M) :
    a % (M * c) = b % (M * c) ↔ (a / M % c = b / M % c ∧ a % M = b % M) := by
  rw [Nat.mod_mul, Nat.mod_mul]
  constructor
  · intro h
    have h1 : a % M < M := Nat.mod_lt _ hM
    have h2 : b % M < M := Nat.mod_lt _ hM
    have := congrArg (· % M) h
    simp [Nat.add_mul_mod_self_left, Nat.mod_eq_of_lt h1, Nat.mod_eq_of_lt h2] at this
    refine ⟨?_, this⟩
    rw [this] at h
    have := Nat.add_left_cancel h
    exact Nat.eq_of_mul_eq_mul_left hM this
  · rintro ⟨h1, h2⟩; rw [h1, h2]

theorem Geo.nC_pos (g : Geo) : 0 < g.nC := Nat.pow_pos (by decide)
theorem Geo.nL_pos (g : Geo) : 0 < g.nL := Nat.pow_pos (by decide)
theorem Geo.span_pos (g : Geo) (d : Nat) : 0 < g.span d :=
  Nat.mul_pos g.nL_pos (Nat.pow_pos g.nC_pos)
theorem Geo.span_succ (g : Geo) (d : Nat) : g.span (d + 1) = g.span d * g.nC := by
  simp [Geo.span, Nat.pow_succ, Nat.mul_assoc]
theorem Geo.span_zero (g : Geo) : g.span 0 = g.nL := by simp [Geo.span]

theorem fresh_WT (d : Nat) : WT d (fresh d) := by
  cases d <;> simp [fresh, WT]

theorem setRec_WT (g : Geo) : ∀ (d : Nat) (n : Node) (idx v), WT d n → WT d (setRec g d n idx v)
  | 0, .leaf e, idx, v, _ => by simp [setRec, WT]
  | 0, .inner _, _, _, h => by exact h.elim
  | d + 1, .leaf _, _, _, h => by exact h.elim
  | d + 1, .inner c, idx, v, h => by
    simp only [setRec, WT]
    intro i
    by_cases hi : i = cidx g d idx
    · subst hi
      simp only [upd_same]
      have := h (cidx g d idx)
      split at this
      · exact setRec_WT g d _ _ _ (fresh_WT d)
      · exact setRec_WT g d _ _ _ this
    · rw [upd_other _ _ _ _ hi]; exact h i

theorem getRec_fresh (g : Geo) (d idx : Nat) : getRec g d (fresh d) idx = 0 := by
  cases d <;> simp [fresh, getRec]

/-- the tree below a node behaves as a map on keys modulo the node's span -/
theorem getRec_setRec (g : Geo) : ∀ (d : Nat) (n : Node) (k k' v), WT d n →
    getRec g d (setRec g d n k v) k' =
      if k' % g.span d = k % g.span d then v else getRec g d n k'
  | 0, .leaf e, k, k', v, _ => by
    simp only [setRec, getRec, lidx, Geo.span_zero, upd_apply]
  | 0, .inner _, _, _, _, h => by exact h.elim
  | d + 1, .leaf _, _, _, _, h => by exact h.elim
  | d + 1, .inner c, k, k', v, h => by
    simp only [setRec, getRec]
    simp only [Geo.span_succ, mod_mul_eq_iff _ _ _ _ (g.span_pos d)]
    simp only [cidx]
    by_cases hi : k' / g.span d % g.nC = k / g.span d % g.nC
    · rw [hi]; simp only [upd_same, true_and]
      have hw := h (k / g.span d % g.nC)
      split at hw
      · rw [getRec_setRec g d _ _ _ _ (fresh_WT d), getRec_fresh]
      · rw [getRec_setRec g d _ _ _ _ hw]
    · rw [upd_other _ _ _ _ hi]; simp [hi]

theorem matRec_fresh (g : Geo) (d idx : Nat) (h : 0 < d) : matRec g d (fresh d) idx = false := by
  cases d with
  | zero => omega
  | succ d => simp [fresh, matRec]

end MythVerif.Tls

namespace MythVerif.Tls

theorem getRec_mod (g : Geo) : ∀ (d : Nat) (n : Node) (idx : Nat),
    getRec g d n (idx % g.span d) = getRec g d n idx
  | 0, .leaf e, idx => by simp [getRec, lidx, Geo.span_zero]
  | 0, .inner _, _ => by simp [getRec]
  | d + 1, .leaf _, _ => by simp [getRec]
  | d + 1, .inner c, idx => by
    simp only [getRec, cidx, Geo.span_succ, Nat.mod_mul_right_div_self, Nat.mod_mod]
    split
    · rfl
    · rename_i n _
      rw [← getRec_mod g d n (idx % (g.span d * g.nC)), Nat.mod_mul_right_mod, getRec_mod]

theorem matRec_mod (g : Geo) : ∀ (d : Nat) (n : Node) (idx : Nat),
    matRec g d n (idx % g.span d) = matRec g d n idx
  | 0, .leaf e, idx => by simp [matRec]
  | 0, .inner _, _ => by simp [matRec]
  | d + 1, .leaf _, _ => by simp [matRec]
  | d + 1, .inner c, idx => by
    simp only [matRec, cidx, Geo.span_succ, Nat.mod_mul_right_div_self, Nat.mod_mod]
    split
    · rfl
    · rename_i n _
      rw [← matRec_mod g d n (idx % (g.span d * g.nC)), Nat.mod_mul_right_mod, matRec_mod]

/-- a non-NULL value can only be read from an allocated leaf -/
theorem mat_of_get_ne (g : Geo) : ∀ (d : Nat) (n : Node) (idx : Nat),
    getRec g d n idx ≠ 0 → matRec g d n idx = true
  | 0, .leaf e, idx => by simp [matRec]
  | 0, .inner _, _ => by simp [getRec]
  | d + 1, .leaf _, _ => by simp [getRec]
  | d + 1, .inner c, idx => by
    simp only [getRec, matRec]
    split
    · simp
    · exact mat_of_get_ne g d _ idx

/-- what the destructor pass must do for the keys `base + j`, `j < span d`, stored under `n` -/
def specEntry (g : Geo) (dt : Dtors) (d : Nat) (n : Node) (base j : Nat) : Option Ev :=
  if matRec g d n j = true then (dt (base + j)).map (fun _ => Ev.call (base + j) (getRec g d n j)) else none

def specCalls (g : Geo) (dt : Dtors) (d : Nat) (n : Node) (base : Nat) : List Ev :=
  (List.range (g.span d)).filterMap (specEntry g dt d n base)

theorem leafLoop_eq (g : Geo) (dt : Dtors) (e : Nat → Val) (base : Nat) :
    ∀ (fuel i : Nat), base + i + fuel ≤ g.nKeys →
    leafLoop g dt e base i fuel =
      (List.range' i fuel).filterMap (fun j => (dt (base + j)).map (fun _ => Ev.call (base + j) (e j)))
  | 0, i, _ => by simp [leafLoop]
  | fuel + 1, i, h => by
    simp only [leafLoop, List.range'_succ, List.filterMap_cons]
    have hk : ¬ (base + i ≥ g.nKeys) := by omega
    simp only [hk, if_false]
    rw [leafLoop_eq g dt e base fuel (i + 1) (by omega)]
    cases dt (base + i) <;> simp

theorem filterMap_congr' {α β : Type} (f g : α → Option β) : ∀ (l : List α),
    (∀ x ∈ l, f x = g x) → l.filterMap f = l.filterMap g
  | [], _ => rfl
  | x :: xs, h => by
    simp only [List.filterMap_cons, h x (by simp)]
    rw [filterMap_congr' f g xs (fun y hy => h y (by simp [hy]))]

theorem specEntry_inner (g : Geo) (dt : Dtors) (d : Nat) (c : Nat → Option Node) (base i j : Nat)
    (hi : i < g.nC) (hj : j < g.span d) :
    specEntry g dt (d + 1) (.inner c) base (i * g.span d + j) =
      match c i with
      | none => none
      | some n => specEntry g dt d n (base + i * g.span d) j := by
  have hS := g.span_pos d
  have h1 : (i * g.span d + j) / g.span d % g.nC = i := by
    rw [Nat.mul_comm, Nat.mul_add_div hS, Nat.div_eq_of_lt hj, Nat.add_zero, Nat.mod_eq_of_lt hi]
  have h2 : (i * g.span d + j) % g.span d = j := by
    rw [Nat.mul_comm, Nat.mul_add_mod, Nat.mod_eq_of_lt hj]
  simp only [specEntry, matRec, getRec, cidx, h1]
  cases hc : c i with
  | none => simp
  | some n =>
    simp only
    rw [← matRec_mod, ← getRec_mod g d n (i * g.span d + j), h2, Nat.add_assoc]

theorem chunk (g : Geo) (dt : Dtors) (d : Nat) (c : Nat → Option Node) (base i : Nat) (hi : i < g.nC) :
    (List.range' (i * g.span d) (g.span d)).filterMap (specEntry g dt (d + 1) (.inner c) base) =
      match c i with
      | none => []
      | some n => specCalls g dt d n (base + i * g.span d) := by
  rw [List.range'_eq_map_range, List.filterMap_map]
  have : ∀ j ∈ List.range (g.span d),
      (specEntry g dt (d + 1) (.inner c) base ∘ fun x => i * g.span d + x) j =
        (match c i with | none => none | some n => specEntry g dt d n (base + i * g.span d) j) := by
    intro j hj
    exact specEntry_inner g dt d c base i j hi (List.mem_range.mp hj)
  rw [filterMap_congr' _ _ _ this]
  cases c i with
  | none => simp
  | some n => rfl

@[simp] theorem fixed_brk : fixedWalk.brk = false := rfl
@[simp] theorem fixed_ps : fixedWalk.parentStride = false := rfl

/-- the children loop of the repaired walk, from child `i` on -/
theorem childLoop_fixed (g : Geo) (dt : Dtors) (d : Nat) (c : Nat → Option Node) (base : Nat)
    (rec : ∀ i n, c i = some n → i < g.nC →
      callRec g fixedWalk dt d n (base + i * g.span d) (g.span d) = specCalls g dt d n (base + i * g.span d)) :
    ∀ (fuel i : Nat), i + fuel = g.nC →
    childLoop fixedWalk (fun i cb => match c i with
          | none => none
          | some n => some (callRec g fixedWalk dt d n cb (g.span d)))
        (g.span d) (g.span (d + 1)) (base + i * g.span d) i fuel =
      (List.range' (i * g.span d) (fuel * g.span d)).filterMap (specEntry g dt (d + 1) (.inner c) base)
  | 0, i, _ => by simp [childLoop]
  | fuel + 1, i, h => by
    have hi : i < g.nC := by omega
    have hsplit : List.range' (i * g.span d) ((fuel + 1) * g.span d) =
        List.range' (i * g.span d) (g.span d) ++ List.range' ((i + 1) * g.span d) (fuel * g.span d) := by
      have e1 : (i + 1) * g.span d = i * g.span d + g.span d := by simp [Nat.add_mul]
      have e2 : (fuel + 1) * g.span d = g.span d + fuel * g.span d := by simp [Nat.add_mul, Nat.add_comm]
      rw [e1, e2, List.range'_append_1]
    rw [hsplit, List.filterMap_append, chunk g dt d c base i hi]
    have ih := childLoop_fixed g dt d c base rec fuel (i + 1) (by omega)
    simp only [childLoop, fixed_brk, fixed_ps, Bool.false_eq_true, if_false]
    have hb : base + i * g.span d + g.span d = base + (i + 1) * g.span d := by
      simp [Nat.add_mul, Nat.add_assoc]
    cases hc : c i with
    | none => simp only [hb, List.nil_append]; exact ih
    | some n =>
      simp only [hb]
      rw [ih, rec i n hc hi]

theorem span_div (g : Geo) (d : Nat) : g.span (d + 1) / g.nC = g.span d := by
  rw [Geo.span_succ, Nat.mul_div_cancel _ g.nC_pos]

/-- the repaired destructor walk visits exactly the allocated leaves, in key order -/
theorem callRec_fixed (g : Geo) (dt : Dtors) : ∀ (d : Nat) (n : Node) (base : Nat),
    WT d n → base + g.span d ≤ g.nKeys →
    callRec g fixedWalk dt d n base (g.span d) = specCalls g dt d n base
  | 0, .leaf e, base, _, hb => by
    simp only [callRec, specCalls, Geo.span_zero] at *
    rw [leafLoop_eq g dt e base g.nL 0 (by omega), List.range_eq_range']
    apply filterMap_congr'
    intro j hj
    have : j < g.nL := by simpa using hj
    simp [specEntry, matRec, getRec, lidx, Nat.mod_eq_of_lt this]
  | 0, .inner _, _, h, _ => h.elim
  | d + 1, .leaf _, _, h, _ => h.elim
  | d + 1, .inner c, base, h, hb => by
    simp only [callRec, span_div]
    have hrec : ∀ i n, c i = some n → i < g.nC →
        callRec g fixedWalk dt d n (base + i * g.span d) (g.span d) = specCalls g dt d n (base + i * g.span d) := by
      intro i n hc hi
      have hw := h i
      rw [hc] at hw
      apply callRec_fixed g dt d n _ hw
      have : (i + 1) * g.span d ≤ g.nC * g.span d := Nat.mul_le_mul_right _ hi
      rw [Geo.span_succ, Nat.mul_comm] at hb
      simp [Nat.add_mul] at this
      omega
    have := childLoop_fixed g dt d c base hrec g.nC 0 (by simp)
    simp only [Nat.zero_mul, Nat.add_zero] at this
    refine Eq.trans this ?_
    rw [specCalls, Geo.span_succ, Nat.mul_comm, List.range_eq_range']

theorem destroyLoop_fixed (g : Geo) (d : Nat) (c : Nat → Option Node) (cS st : Nat)
    (hrec : ∀ i n cb, c i = some n →
      destroyRec g fixedWalk d n cb cS = List.replicate (nodeCount g d n) Ev.free) :
    ∀ (fuel i cb : Nat),
    childLoop fixedWalk (fun i cb => match c i with
          | none => none
          | some n => some (destroyRec g fixedWalk d n cb cS)) cS st cb i fuel =
      List.replicate (countFrom (fun i => match c i with | none => 0 | some n => nodeCount g d n) i fuel) Ev.free
  | 0, i, cb => by simp [childLoop, countFrom]
  | fuel + 1, i, cb => by
    simp only [childLoop, fixed_brk, fixed_ps, Bool.false_eq_true, if_false, countFrom]
    have ih := destroyLoop_fixed g d c cS st hrec fuel (i + 1) (cb + cS)
    cases hc : c i with
    | none => simp only [Nat.zero_add]; exact ih
    | some n =>
      simp only
      rw [ih, hrec i n cb hc, List.replicate_append_replicate]

/-- the repaired teardown releases every allocated node exactly once -/
theorem destroyRec_fixed (g : Geo) : ∀ (d : Nat) (n : Node) (base stride : Nat), WT d n →
    destroyRec g fixedWalk d n base stride = List.replicate (nodeCount g d n) Ev.free
  | 0, .leaf e, _, _, _ => by simp [destroyRec, nodeCount]
  | 0, .inner _, _, _, h => h.elim
  | d + 1, .leaf _, _, _, h => h.elim
  | d + 1, .inner c, base, stride, h => by
    simp only [destroyRec, nodeCount]
    have hrec : ∀ i n cb, c i = some n →
        destroyRec g fixedWalk d n cb (stride / g.nC) = List.replicate (nodeCount g d n) Ev.free := by
      intro i n cb hc
      have hw := h i
      rw [hc] at hw
      exact destroyRec_fixed g d n _ _ hw
    have := destroyLoop_fixed g d c (stride / g.nC) stride hrec g.nC 0 base
    refine Eq.trans (congrArg (· ++ [Ev.free]) this) ?_
    simp only [List.replicate_succ']
    rfl

/-- the key a destructor call is for -/
def Ev.key : Ev → Option Nat
  | .call k _ => some k
  | _ => none

theorem countP_key (f : Nat → Option Ev) (hf : ∀ j e, f j = some e → e.key = some j) (k : Nat) :
    ∀ l : List Nat, l.Nodup →
    (l.filterMap f).countP (fun e => e.key == some k) = if k ∈ l ∧ (f k).isSome then 1 else 0
  | [], _ => by simp
  | j :: l, hnd => by
    have hnd' := List.nodup_cons.mp hnd
    have ih := countP_key f hf k l hnd'.2
    simp only [List.filterMap_cons]
    cases hfj : f j with
    | none =>
      simp only [ih, List.mem_cons]
      by_cases hkj : k = j
      · subst hkj; simp [hfj, hnd'.1]
      · simp [hkj]
    | some e =>
      simp only [List.countP_cons, ih, List.mem_cons, hf j e hfj]
      by_cases hkj : k = j
      · subst hkj; simp [hfj, hnd'.1]
      · have : ¬ j = k := fun h => hkj h.symm
        simp [hkj, this]

theorem specEntry_key (g : Geo) (dt : Dtors) (d : Nat) (n : Node) (j : Nat) (e : Ev)
    (h : specEntry g dt d n 0 j = some e) : e.key = some j := by
  simp only [specEntry, Nat.zero_add] at h
  split at h
  · simp at h
    obtain ⟨_, h⟩ := h
    subst h; simp [Ev.key]
  · simp at h

theorem mem_specCalls (g : Geo) (dt : Dtors) (d : Nat) (n : Node) (e : Ev) :
    e ∈ specCalls g dt d n 0 ↔
      ∃ k, k < g.span d ∧ matRec g d n k = true ∧ (dt k).isSome ∧ e = Ev.call k (getRec g d n k) := by
  simp only [specCalls, List.mem_filterMap, List.mem_range, specEntry, Nat.zero_add]
  constructor
  · rintro ⟨k, hk, h⟩
    refine ⟨k, hk, ?_⟩
    split at h
    · rename_i hm
      cases hd : dt k with
      | none => simp [hd] at h
      | some f => simp [hd] at h; exact ⟨hm, rfl, h.symm⟩
    · simp at h
  · rintro ⟨k, hk, hm, hd, he⟩
    refine ⟨k, hk, ?_⟩
    simp only [hm, if_true]
    cases hd' : dt k with
    | none => simp [hd'] at hd
    | some f => simp [he]


/-- well-typedness of a whole tree -/
def TreeWT (g : Geo) : Tree → Prop
  | none => True
  | some n => WT g.depth n

theorem set_WT (g : Geo) (t : Tree) (k : Int) (v : Val) (h : TreeWT g t) : TreeWT g (set g t k v).1 := by
  simp only [set]
  split
  · exact h
  · cases t with
    | none => exact setRec_WT g _ _ _ _ (fresh_WT _)
    | some n => exact setRec_WT g _ _ _ _ h

theorem get_nat (g : Geo) (n : Node) (k : Nat) (hk : k < g.nKeys) :
    get g (some n) (k : Int) = getRec g g.depth n k := by
  have h : ¬ ((k : Int) < 0 ∨ (k : Int) ≥ (g.nKeys : Int)) := by omega
  simp only [get, h, if_false, Int.toNat_natCast]

end MythVerif.Tls
