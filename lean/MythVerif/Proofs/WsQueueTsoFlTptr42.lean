import MythVerif.Proofs.WsQueueTsoTac
/-! Preservation lemmas of the TSO invariant (generated per program counter of the owner): drain of a passer's store (ptr4) while the owner is at pul, pu1, pu2. -/
namespace MythVerif.WsqTso
open MythVerif.Wsq

theorem f_T_ptr4_pul (s : St) (p : Pid) (e0 : Elem) (ok : Bool) (e) : Inv s → s.opc = .pul e → s.lock = .thief p →
    s.bufT p = [.ptr (s.lb - 1) (some e0), .baseI (s.lb - 1) e0] → s.tpc p = .tp4 ok →
    Inv (applySto { s with bufT := upd s.bufT p [.baseI (s.lb - 1) e0] } (.ptr (s.lb - 1) (some e0))) := by
  intro h hopc hl h0 h1
  simp only [applySto]
  tso_fastO h hopc [tp3, tp4, pul]

theorem f_T_ptr4_pu1 (s : St) (p : Pid) (e0 : Elem) (ok : Bool) (e t) : Inv s → s.opc = .pu1 e t → s.lock = .thief p →
    s.bufT p = [.ptr (s.lb - 1) (some e0), .baseI (s.lb - 1) e0] → s.tpc p = .tp4 ok →
    Inv (applySto { s with bufT := upd s.bufT p [.baseI (s.lb - 1) e0] } (.ptr (s.lb - 1) (some e0))) := by
  intro h hopc hl h0 h1
  simp only [applySto]
  tso_fastO h hopc [tp3, tp4, pu1]

theorem f_T_ptr4_pu2 (s : St) (p : Pid) (e0 : Elem) (ok : Bool) (e t) : Inv s → s.opc = .pu2 e t → s.lock = .thief p →
    s.bufT p = [.ptr (s.lb - 1) (some e0), .baseI (s.lb - 1) e0] → s.tpc p = .tp4 ok →
    Inv (applySto { s with bufT := upd s.bufT p [.baseI (s.lb - 1) e0] } (.ptr (s.lb - 1) (some e0))) := by
  intro h hopc hl h0 h1
  simp only [applySto]
  tso_fastO h hopc [tp3, tp4, pu2]

end MythVerif.WsqTso
