import MythVerif.Proofs.DagRecPathDump
import MythVerif.Proofs.PiDagFlattenCert
/-!
What a dump holds in the slots of the leaves: `est` and `t_1` of the `j`-th interval of the
execution sit in slot `(leavesN d 0 1)[j]` of the node array, and that slot is a leaf of the array.
-/
namespace MythVerif.PiDag
open MythVerif.DagRec

/-- the two fields the longest-path argument reads -/
def Sim (a b : Info) : Prop := a.c.est = b.c.est ∧ a.c.t1 = b.c.t1

mutual
/-- the slots of the layout of `d` hold (copies of) the infos of the nodes of `d` -/
def InfN (T : Array PNode) : DNode → Nat → Nat → Prop
  | .ival i, idx, _ => Sim T[idx]!.info i
  | .create i ch, idx, base => Sim T[idx]!.info i ∧ InfN T ch base (base + 1)
  | .group i ds, idx, base => Sim T[idx]!.info i ∧ InfL T ds base (base + ds.length)
def InfL (T : Array PNode) : DList → Nat → Nat → Prop
  | .nil, _, _ => True
  | .cons d r, k, base => InfN T d k base ∧ InfL T r (k + 1) (base + descT d)
end

mutual
theorem InfN_congr (T T' : Array PNode) : ∀ (d : DNode) (idx base : Nat),
    (∀ j, j = idx ∨ (base ≤ j ∧ j < base + descT d) → T'[j]!.info = T[j]!.info) → InfN T d idx base → InfN T' d idx base
  | .ival i, idx, base, h, hl => by
    simp only [InfN] at hl ⊢
    rw [h idx (Or.inl rfl)]; exact hl
  | .create i ch, idx, base, h, hl => by
    simp only [InfN, descT] at hl h ⊢
    rw [h idx (Or.inl rfl)]
    exact ⟨hl.1, InfN_congr T T' ch base (base + 1) (fun j hj => h j (by omega)) hl.2⟩
  | .group i ds, idx, base, h, hl => by
    simp only [InfN, descT] at hl h ⊢
    rw [h idx (Or.inl rfl)]
    have := descL_eq ds
    exact ⟨hl.1, InfL_congr T T' ds base (base + ds.length) (fun j hj => h j (by omega)) hl.2⟩
theorem InfL_congr (T T' : Array PNode) : ∀ (ds : DList) (k base : Nat),
    (∀ j, (k ≤ j ∧ j < k + ds.length) ∨ (base ≤ j ∧ j < base + descS ds) → T'[j]!.info = T[j]!.info) →
    InfL T ds k base → InfL T' ds k base
  | .nil, _, _, _, _ => trivial
  | .cons d r, k, base, h, hl => by
    simp only [InfL, descS, DList.length] at hl h ⊢
    exact ⟨InfN_congr T T' d k base (fun j hj => h j (by omega)) hl.1,
      InfL_congr T T' r (k + 1) (base + descT d) (fun j hj => h j (by omega)) hl.2⟩
end

/-- the slots `k, k+1, …` hold copies of the members of `ds` -/
def SimAt (T : Array PNode) : DList → Nat → Prop
  | .nil, _ => True
  | .cons d r, k => Sim T[k]!.info d.info ∧ SimAt T r (k + 1)

theorem SimAt_congr (T T' : Array PNode) : ∀ (ds : DList) (k : Nat),
    (∀ j, k ≤ j ∧ j < k + ds.length → T'[j]!.info = T[j]!.info) → SimAt T ds k → SimAt T' ds k
  | .nil, _, _, _ => trivial
  | .cons d r, k, h, hk => by
    simp only [SimAt, DList.length] at hk h ⊢
    rw [h k (by omega)]
    exact ⟨hk.1, SimAt_congr T T' r (k + 1) (fun j hj => h j (by omega)) hk.2⟩

theorem copyNode_sim (sc : Nat) (st : List Nat) (i : Info) : Sim (copyNode sc st i).1.info i := ⟨rfl, rfl⟩

theorem pushAll_sim (sc : Nat) : ∀ (ds : DList) (s : FlatSt), SimAt (pushAll sc ds s).T ds s.T.size
  | .nil, _ => trivial
  | .cons d r, s => by
    simp only [pushAll, SimAt]
    have ih := pushAll_sim sc r { T := s.T.push (copyNode sc s.st d.info).1, st := (copyNode sc s.st d.info).2 }
    have hu := (pushAll_lay sc r { T := s.T.push (copyNode sc s.st d.info).1, st := (copyNode sc s.st d.info).2 }).1
    simp only [Array.size_push] at ih hu
    refine ⟨?_, ih⟩
    rw [hu s.T.size (by omega) (by omega), push_get_eq]
    exact copyNode_sim _ _ _

mutual
theorem flatNode_inf (sc : Nat) : ∀ (d : DNode) (idx : Nat) (s : FlatSt), idx < s.T.size →
    Sim s.T[idx]!.info d.info → InfN (flatNode sc d idx s).T d idx s.T.size
  | .ival _, idx, s, _, hk => by simpa [flatNode, InfN, DNode.info] using hk
  | .create i ch, idx, s, hi, hk => by
    have hroot := (flatNode_spec sc (.create i ch) idx s).2.2 idx hi
    simp only [InfN]
    refine ⟨by rw [hroot]; exact hk, ?_⟩
    simp only [flatNode]
    have ih := flatNode_inf sc ch s.T.size
      { T := (s.T.push (copyNode sc s.st ch.info).1).modify idx (fun x => { x with a := s.T.size - idx }),
        st := (copyNode sc s.st ch.info).2 } (by simp) (by
          simp only
          rw [modify_get_ne _ _ _ _ (by omega), push_get_eq]; exact copyNode_sim _ _ _)
    simpa only [Array.size_modify, Array.size_push] using ih
  | .group i ds, idx, s, hi, hk => by
    have hroot := (flatNode_spec sc (.group i ds) idx s).2.2 idx hi
    simp only [InfN]
    refine ⟨by rw [hroot]; exact hk, ?_⟩
    simp only [flatNode]
    have hps := (pushAll_spec sc ds s).1
    have ih := flatList_inf sc ds s.T.size
      { T := (pushAll sc ds s).T.modify idx (fun x => { x with a := s.T.size - idx, b := (pushAll sc ds s).T.size - idx }),
        st := (pushAll sc ds s).st } (by simp; omega)
      (SimAt_congr _ _ ds _ (fun j _ => modify_info _ _ _ _ (fun _ => rfl)) (pushAll_sim sc ds s))
    simp only [Array.size_modify] at ih
    rw [hps] at ih ⊢
    exact ih
theorem flatList_inf (sc : Nat) : ∀ (ds : DList) (k : Nat) (s : FlatSt), k + ds.length ≤ s.T.size →
    SimAt s.T ds k → InfL (flatList sc ds k s).T ds k s.T.size
  | .nil, _, _, _, _ => trivial
  | .cons d r, k, s, hi, hk => by
    simp only [flatList, InfL, DList.length, SimAt] at hi hk ⊢
    have h1 := flatNode_inf sc d k s (by omega) hk.1
    have hs1 := (flatNode_spec sc d k s).1
    have hinfo := (flatNode_spec sc d k s).2
    have h2 := flatList_inf sc r (k + 1) (flatNode sc d k s) (by omega)
      (SimAt_congr _ _ r _ (fun j hj => hinfo.2 j (by omega)) hk.2)
    rw [hs1] at h2
    have hkeep := (flatList_spec sc r (k + 1) (flatNode sc d k s)).2
    exact ⟨InfN_congr _ _ d k s.T.size (fun j hj => hkeep.2 j (by omega)) h1, h2⟩
end

theorem enumNodes_inf (sc : Nat) (d : DNode) : InfN (enumNodes sc d).T d 0 1 := by
  unfold enumNodes
  have h := flatNode_inf sc d 0 { T := #[(copyNode sc [] d.info).1], st := (copyNode sc [] d.info).2 } (by simp)
    (by simpa using copyNode_sim sc [] d.info)
  simpa using h

theorem flatten_inf (sc nw : Nat) (d : DNode) : InfN (flatten sc nw d).T d 0 1 := by
  have h := enumNodes_inf sc d
  unfold flatten finishDag
  simp only
  exact InfN_congr _ _ d 0 1 (fun j _ => (setEdgePtrs_spec _ _).2 j) h

/-! ### the infos of the leaves -/

mutual
def linfoN : DNode → List Info
  | .ival i => [i]
  | .create i ch => i :: linfoN ch
  | .group i ds => if ds.isNil then [i] else linfoL ds
def linfoL : DList → List Info
  | .nil => []
  | .cons d r => linfoN d ++ linfoL r
end

/-- pointwise relation of two lists -/
def Pw {α β : Type} (R : α → β → Prop) (a : List α) (b : List β) : Prop :=
  a.length = b.length ∧ ∀ j (h1 : j < a.length) (h2 : j < b.length), R a[j] b[j]

theorem Pw.nil {α β : Type} (R : α → β → Prop) : Pw R [] [] := ⟨rfl, fun j h => by simp at h⟩

theorem Pw.cons {α β : Type} {R : α → β → Prop} {x : α} {y : β} {a : List α} {b : List β}
    (h : R x y) (ht : Pw R a b) : Pw R (x :: a) (y :: b) := by
  refine ⟨by simp [ht.1], fun j h1 h2 => ?_⟩
  cases j with
  | zero => simpa using h
  | succ j => simpa using ht.2 j (by simpa using h1) (by simpa using h2)

theorem Pw.append {α β : Type} {R : α → β → Prop} {a a' : List α} {b b' : List β}
    (h : Pw R a b) (h' : Pw R a' b') : Pw R (a ++ a') (b ++ b') := by
  refine ⟨by simp [h.1, h'.1], fun j h1 h2 => ?_⟩
  by_cases hj : j < a.length
  · rw [List.getElem_append_left hj, List.getElem_append_left (by rw [← h.1]; exact hj)]
    exact h.2 j hj _
  · rw [List.getElem_append_right (by omega), List.getElem_append_right (by rw [← h.1]; omega)]
    have := h'.2 (j - a.length) (by simp at h1; omega) (by simp at h2; have := h.1; omega)
    simpa [h.1] using this

mutual
theorem inf_leavesN (T : Array PNode) : ∀ (d : DNode) (idx base : Nat), InfN T d idx base →
    Pw (fun s i => Sim T[s]!.info i) (leavesN d idx base) (linfoN d)
  | .ival i, idx, base, h => by
    simp only [InfN] at h
    simp only [leavesN, linfoN]
    exact Pw.cons h (Pw.nil _)
  | .create i ch, idx, base, h => by
    simp only [InfN] at h
    simp only [leavesN, linfoN]
    exact Pw.cons h.1 (inf_leavesN T ch base (base + 1) h.2)
  | .group i ds, idx, base, h => by
    simp only [InfN] at h
    simp only [leavesN, linfoN]
    split
    · exact Pw.cons h.1 (Pw.nil _)
    · exact inf_leavesL T ds base _ h.2
theorem inf_leavesL (T : Array PNode) : ∀ (ds : DList) (k base : Nat), InfL T ds k base →
    Pw (fun s i => Sim T[s]!.info i) (leavesL ds k base) (linfoL ds)
  | .nil, _, _, _ => by simp only [leavesL, linfoL]; exact Pw.nil _
  | .cons d r, k, base, h => by
    simp only [InfL] at h
    simp only [leavesL, linfoL]
    exact (inf_leavesN T d k base h.1).append (inf_leavesL T r (k + 1) _ h.2)
end

/-! ### the slots of `leavesN` are leaves of the array -/

mutual
theorem leavesN_isLeaf (T : Array PNode) : ∀ (d : DNode) (idx base : Nat), LayN T d idx base → gW d = true →
    ∀ r ∈ leavesN d idx base, isLeaf T[r]! = true
  | .ival i, idx, base, hl, hw => by
    intro r hr
    simp only [leavesN, List.mem_singleton] at hr
    subst hr
    exact isLeaf_of_lay hl hw (fun _ _ h => by cases h)
  | .create i ch, idx, base, hl, hw => by
    intro r hr
    simp only [leavesN, List.mem_cons] at hr
    rcases hr with rfl | hr
    · exact isLeaf_of_lay hl hw (fun _ _ h => by cases h)
    · simp only [LayN] at hl
      simp only [gW, Bool.and_eq_true] at hw
      exact leavesN_isLeaf T ch base (base + 1) hl.2.2.2 hw.2 r hr
  | .group i ds, idx, base, hl, hw => by
    intro r hr
    simp only [leavesN] at hr
    split at hr
    · rename_i hn
      simp only [List.mem_singleton] at hr
      subst hr
      refine isLeaf_of_lay hl hw (fun i' ds' h => ?_)
      cases h
      cases ds with
      | nil => rfl
      | cons _ _ => simp [DList.isNil] at hn
    · obtain ⟨h1, h2, h3, h4, h5, h6⟩ := group_kind_facts hl hw
      exact leavesL_isLeaf T ds base _ h5 h6 r hr
theorem leavesL_isLeaf (T : Array PNode) : ∀ (ds : DList) (k base : Nat), LayL T ds k base → gWL ds = true →
    ∀ r ∈ leavesL ds k base, isLeaf T[r]! = true
  | .nil, _, _, _, _ => by simp [leavesL]
  | .cons d rr, k, base, hl, hw => by
    simp only [LayL] at hl
    simp only [gWL, Bool.and_eq_true] at hw
    intro r hr
    simp only [leavesL, List.mem_append] at hr
    rcases hr with hr | hr
    · exact leavesN_isLeaf T d k base hl.1 hw.1 r hr
    · exact leavesL_isLeaf T rr (k + 1) _ hl.2 hw.2 r hr
end

end MythVerif.PiDag

namespace MythVerif.DagRec
open MythVerif.PiDag

theorem noContract_admissible {pol : Policy} (hk : NoContract pol) : Admissible pol :=
  fun i ds => ⟨i, ds, hk i ds, rfl⟩

mutual
/-- the leaves of the uncontracted recording carry the leaf infos of the execution -/
theorem linfoN_rec (v : Variant) (pol : Policy) (hk : NoContract pol) : ∀ (x : Tree) (c : Cursor), WnAny x →
    linfoN (recTree v pol x c).1 = leafInfosTree v x c
  | .ival k r, c, _ => by rw [rec_ival]; simp [linfoN, leafInfosTree]
  | .create r ch, c, h => by
    rw [rec_create]
    simp only [linfoN, leafInfosTree]
    rw [linfoN_rec v pol hk ch _ (wnAny_of_task (wnAny_create h))]
  | .group k f, c, h => by
    obtain ⟨b, hb⟩ := wnAny_group h
    rw [rec_group v pol hk]
    simp only [linfoN, rec_isNil, wnForest_isNil hb, Bool.false_eq_true, if_false, leafInfosTree]
    exact linfoL_rec v pol hk f c b hb
theorem linfoL_rec (v : Variant) (pol : Policy) (hk : NoContract pol) : ∀ (f : Forest) (c : Cursor) (b : Bool),
    wnForest b f = true → linfoL (recForest v pol f c).1 = leafInfosForest v f c
  | .nil, _, _, h => by simp [wnForest] at h
  | .cons x .nil, c, b, h => by
    simp only [wnForest] at h
    rw [rec_cons, rec_nil, leafInfosForest_cons]
    simp only [linfoL, leafInfosForest, List.append_nil]
    exact linfoN_rec v pol hk x c (wnAny_of_last h)
  | .cons x (.cons y r), c, b, h => by
    simp only [wnForest, Bool.and_eq_true] at h
    rw [rec_cons, leafInfosForest_cons, linfoL, linfoN_rec v pol hk x c (wnAny_of_item h.1),
      (recTree_view v pol (noContract_admissible hk) x c).2, linfoL_rec v pol hk (.cons y r) _ b h.2]
end

end MythVerif.DagRec
