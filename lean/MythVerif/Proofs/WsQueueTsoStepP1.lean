import MythVerif.Proofs.WsQueueTsoTac
/-! Preservation lemmas of the TSO invariant (trypass: trylock, test, read of `base`). -/
namespace MythVerif.WsqTso
open MythVerif.Wsq

theorem t_tpl (s s' : St) (p : Pid) (e) : Inv s → s.tpc p = .tpl e → stepT s p = some s' → Inv s' := by
  intro h heq hs
  have hb := h.tbufE p (by simp [heq, mayBuf])
  simp only [stepT, heq, hb] at hs
  simp at hs
  split at hs
  · simp at hs; subst hs
    tso_fastT h p []
  · simp at hs; subst hs
    tso_fastT h p []

theorem t_tp1 (s s' : St) (p : Pid) (e) : Inv s → s.tpc p = .tp1 e → stepT s p = some s' → Inv s' := by
  intro h heq hs
  have hb := h.tbufE p (by simp [heq, mayBuf])
  simp only [stepT, heq, hb, viewBase_nil] at hs
  split at hs
  all_goals (simp at hs; subst hs)
  all_goals tso_fastT h p []

theorem t_tp1b (s s' : St) (p : Pid) (e) : Inv s → s.tpc p = .tp1b e → stepT s p = some s' → Inv s' := by
  intro h heq hs
  have hb := h.tbufE p (by simp [heq, mayBuf])
  have hnr := thief_not_resetting s h p ((h.lockT p).2 (by simp [heq, thiefLocked]))
  simp only [stepT, heq, hb, viewBase_nil] at hs
  simp at hs; subst hs
  tso_fastT h p []

end MythVerif.WsqTso
