import MythVerif.Proofs.WsQueueTsoTac
/-! Preservation lemmas of the TSO invariant (trypass: trylock, test, read of `base`). -/
namespace MythVerif.WsqTso
open MythVerif.Wsq

set_option maxHeartbeats 4000000 in
theorem t_tpl (s s' : St) (p : Pid) (e) : Inv s → s.tpc p = .tpl e → stepT s p = some s' → Inv s' := by
  intro h heq hs
  have hb := h.tbufE p (by simp [heq, mayBuf])
  simp only [stepT, heq, hb] at hs
  simp at hs
  split at hs
  · simp at hs; subst hs
    cases h
    simp only [ownerLocked, carry, resetting, ownerFlight] at *
    tso_finish
  · simp at hs; subst hs
    cases h
    simp only [ownerLocked, carry, resetting, ownerFlight] at *
    tso_finish

set_option maxHeartbeats 4000000 in
theorem t_tp1 (s s' : St) (p : Pid) (e) : Inv s → s.tpc p = .tp1 e → stepT s p = some s' → Inv s' := by
  intro h heq hs
  have hb := h.tbufE p (by simp [heq, mayBuf])
  cases h
  simp only [stepT, heq, hb, viewBase_nil] at hs
  split at hs
  all_goals (simp at hs; subst hs)
  all_goals simp only [ownerLocked, carry, resetting, ownerFlight] at *
  all_goals tso_finish

set_option maxHeartbeats 4000000 in
theorem t_tp1b (s s' : St) (p : Pid) (e) : Inv s → s.tpc p = .tp1b e → stepT s p = some s' → Inv s' := by
  intro h heq hs
  have hb := h.tbufE p (by simp [heq, mayBuf])
  have hnr := thief_not_resetting s h p ((h.lockT p).2 (by simp [heq, thiefLocked]))
  cases h
  simp only [stepT, heq, hb, viewBase_nil] at hs
  simp at hs; subst hs
  simp only [ownerLocked, carry, resetting, ownerFlight] at *
  tso_finish

end MythVerif.WsqTso
