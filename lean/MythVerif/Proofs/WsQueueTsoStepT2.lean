import MythVerif.Proofs.WsQueueTsoTac
/-! Preservation lemmas of the TSO invariant (thief: the claiming comparison). -/
namespace MythVerif.WsqTso
open MythVerif.Wsq

set_option maxHeartbeats 1000000 in
theorem t_tk2 (s s' : St) (p : Pid) (b) : Inv s → s.tpc p = .tk2 b → stepT s p = some s' → Inv s' := by
  intro h heq hs
  have hb := h.tbufE p (by simp [heq, mayBuf])
  have hmwin := h.mwin
  have hlen := h.len
  have hcar := h.carryC
  have hpof := h.pof
  have htk2 := h.tk2 p b heq
  simp only [stepT, heq, hb, viewTop_nil] at hs
  split at hs
  · split at hs
    · rename_i x A' hA
      simp at hs; subst hs
      simp only [ownerLocked, carry, resetting, ownerFlight] at *
      tso_coreT h [tk2]
      constructor
      all_goals (try simp only [ownerLocked, carry, resetting, ownerFlight, upd_apply, applySto])
      case carryC =>
        intro hc
        exact carry_tail _ _ _ s.lb _ x A' (hA ▸ hcar hc) (by rw [← hA]; exact hlen) (by omega)
      case pof =>
        intro t ht
        have := hpof t ht
        exact ⟨this.1, pof_tail _ _ s.lt s.lb _ _ x A' (hA ▸ this.2) this.1 (by rw [← hA]; exact hlen) (Or.inl (by omega))⟩
      case mwin =>
        intro k hk hk2
        have h1 := hmwin (k + 1) (by simp [hA]; omega) (hk2.elim (fun h => Or.inl (by omega)) Or.inr)
        simp [hA] at h1
        rw [← h1]; congr 1; omega
      tso_goalsT h p
    · simp at hs; subst hs
      tso_fastT h p [tk2]
  · simp at hs; subst hs
    tso_fastT h p [tk2]

end MythVerif.WsqTso
