import MythVerif.Model.DagRec
/-! Lemmas about the DAG Recorder model: the contraction-independent `Core` of every `info`,
closed forms of the accumulation loop, the flat-list specification. -/
namespace MythVerif.DagRec

/-- two views agree on everything a parent reads except the node counts -/
def CoreEq (x y : View) : Prop := x.i.c = y.i.c ∧ x.child.map (·.c) = y.child.map (·.c)

theorem CoreEq.rfl' (x : View) : CoreEq x x := ⟨rfl, rfl⟩

/-- pointwise `CoreEq` of two lists of views -/
inductive VEq : List View → List View → Prop where
  | nil : VEq [] []
  | cons {x y : View} {xs ys : List View} : CoreEq x y → VEq xs ys → VEq (x :: xs) (y :: ys)

theorem VEq.refl' : ∀ xs : List View, VEq xs xs
  | [] => .nil
  | x :: xs => .cons (CoreEq.rfl' x) (VEq.refl' xs)

theorem accStep_core (v : Variant) (a b : Acc) (x y : View) (h : Bool)
    (hs : a.s.c = b.s.c) (ht : a.tinfMax = b.tinfMax) (hxy : CoreEq x y) :
    (accStep v a x h).s.c = (accStep v b y h).s.c ∧ (accStep v a x h).tinfMax = (accStep v b y h).tinfMax := by
  obtain ⟨h1, h2⟩ := hxy
  cases hx : x.child <;> cases hy : y.child <;> simp [hx, hy] at h2
  · unfold accStep
    simp only [hx, hy, h1, hs, ht]
    split <;> (try split) <;> simp
  · unfold accStep
    simp only [hx, hy, h1, hs, ht, h2]
    split <;> (try split) <;> simp

theorem accLoop_core (v : Variant) (xs ys : List View) (hxy : VEq xs ys) :
    ∀ (a b : Acc), a.s.c = b.s.c → a.tinfMax = b.tinfMax →
      (accLoop v a xs).s.c = (accLoop v b ys).s.c ∧ (accLoop v a xs).tinfMax = (accLoop v b ys).tinfMax := by
  induction hxy with
  | nil => intro a b hs ht; exact ⟨hs, ht⟩
  | @cons x y xs ys hh ht' ih =>
    intro a b hs ht
    simp only [accLoop]
    have hl : xs.isEmpty = ys.isEmpty := by
      cases ht' <;> rfl
    rw [hl]
    obtain ⟨h1, h2⟩ := accStep_core v a b x y (!ys.isEmpty) hs ht hh
    exact ih _ _ h1 h2

theorem veq_getLast (xs ys : List View) (hxy : VEq xs ys) (x y : View) (h : CoreEq x y) :
    CoreEq (xs.getLast?.getD x) (ys.getLast?.getD y) := by
  induction hxy generalizing x y with
  | nil => simpa using h
  | @cons a b as bs hab hrest ih =>
    have := ih a b hab
    cases hrest with
    | nil => simpa using hab
    | cons h1 h2 => simp_all [List.getLast?_cons_cons]

theorem accumulate_core (v : Variant) (k : NKind) (xs ys : List View) (hxy : VEq xs ys) :
    (accumulate v k xs).c = (accumulate v k ys).c := by
  cases hxy with
  | nil => rfl
  | @cons x y xs' ys' hh ht =>
    have hl := veq_getLast (x :: xs') (y :: ys') (.cons hh ht) x y hh
    simp only [accumulate]
    obtain ⟨h1, h2⟩ := accLoop_core v (x :: xs') (y :: ys') (.cons hh ht)
      { s := accInit k x ((x :: xs').getLast?.getD x), tinfMax := 0 }
      { s := accInit k y ((y :: ys').getLast?.getD y), tinfMax := 0 }
      (by simp [accInit, hh.1, hl.1]) rfl
    simp [accFinish, h1, h2]

theorem rfwStep_core (c : Cursor) (x y : View) (h : CoreEq x y) : rfwStep c x = rfwStep c y := by
  obtain ⟨h1, h2⟩ := h
  cases hx : x.child <;> cases hy : y.child <;> simp [hx, hy] at h2
  · simp [rfwStep, hx, hy]
  · simp only [rfwStep, hx, hy, h1]
    split <;> simp_all

theorem returnFromWait_fold_core (xs ys : List View) (hxy : VEq xs ys) (c : Cursor) :
    xs.foldl rfwStep c = ys.foldl rfwStep c := by
  induction hxy generalizing c with
  | nil => rfl
  | @cons x y xs ys hh _ ih =>
    simp only [List.foldl_cons]
    rw [rfwStep_core c x y hh]
    exact ih _

theorem returnFromWait_core (xs ys : List View) (hxy : VEq xs ys) :
    returnFromWait xs = returnFromWait ys := by
  unfold returnFromWait
  cases hxy with
  | nil => rfl
  | @cons x y xs' ys' hh ht =>
    have hl := veq_getLast (x :: xs') (y :: ys') (.cons hh ht) x y hh
    obtain ⟨z, hz⟩ := Option.isSome_iff_exists.mp (by simp : ((x :: xs').getLast?).isSome)
    obtain ⟨w, hw⟩ := Option.isSome_iff_exists.mp (by simp : ((y :: ys').getLast?).isSome)
    rw [hz, hw] at hl
    rw [hz, hw]
    simp only [Option.getD_some] at hl
    simp only [hl.1]
    exact returnFromWait_fold_core _ _ (.cons hh ht) _

/-- a policy is admissible when it keeps the node a section / task and leaves the
    contraction-independent part of the accumulated `info` alone (it may change `cur_node_count` /
    `min_node_count` and drop or prune children in any way) -/
def Admissible (pol : Policy) : Prop := ∀ i ds, ∃ j ds', pol i ds = .group j ds' ∧ j.c = i.c

theorem admissible_view (pol : Policy) (h : Admissible pol) (i : Info) (ds : DList) :
    CoreEq (pol i ds).view { i := i } := by
  obtain ⟨j, ds', hp, hj⟩ := h i ds
  rw [hp]
  exact ⟨hj, rfl⟩

mutual
theorem recTree_view (v : Variant) (pol : Policy) (h : Admissible pol) :
    ∀ (t : Tree) (c : Cursor), CoreEq (recTree v pol t c).1.view (viewTree v t c).1
      ∧ (recTree v pol t c).2 = (viewTree v t c).2
  | .ival k r, c => by simp [recTree, viewTree, DNode.view, CoreEq]
  | .create r child, c => by
    have ih := recTree_view v pol h child (cursorAfter (endInterval .createTask r c) .create)
    simp only [recTree, viewTree, DNode.view, CoreEq, and_true, true_and, Option.map_some, Option.some.injEq]
    have := ih.1.1
    cases hd : (recTree v pol child (cursorAfter (endInterval .createTask r c) .create)).1 <;>
      simp_all [DNode.view, DNode.info]
  | .group k f, c => by
    have ih := recForest_view v pol h f c
    simp only [recTree, viewTree]
    have hacc := accumulate_core v k _ _ ih.1
    have hrw := returnFromWait_core _ _ ih.1
    refine ⟨?_, by rw [hrw]⟩
    obtain ⟨j, ds', hp, hj⟩ := h (accumulate v k (recForest v pol f c).1.views) (recForest v pol f c).1
    rw [hp]
    exact ⟨hj.trans hacc, rfl⟩
theorem recForest_view (v : Variant) (pol : Policy) (h : Admissible pol) :
    ∀ (f : Forest) (c : Cursor), VEq (recForest v pol f c).1.views (viewForest v f c).1
      ∧ (recForest v pol f c).2 = (viewForest v f c).2
  | .nil, c => by simp [recForest, viewForest, DList.views]; exact .nil
  | .cons t rest, c => by
    have h1 := recTree_view v pol h t c
    have h2 := recForest_view v pol h rest (viewTree v t c).2
    simp only [recForest, viewForest, DList.views]
    rw [h1.2]
    exact ⟨.cons h1.1 h2.1, h2.2⟩
end

theorem pruneNode_group (v : Variant) (i : Info) (ds : DList) (b : Int) :
    ∃ j ds', pruneNode v (.group i ds) b = .group j ds' ∧ j.c = i.c := by
  unfold pruneNode
  split
  · exact ⟨i, ds, rfl, rfl⟩
  · split
    · exact ⟨i, ds, rfl, rfl⟩
    · split
      · exact ⟨_, _, rfl, rfl⟩
      · exact ⟨_, _, rfl, rfl⟩

/-- the recorder's own three contraction policies are admissible -/
theorem admissible_summarize (v : Variant) (o : Opts) : Admissible (summarize v o) := by
  intro i ds
  unfold summarize
  split
  · split
    · exact pruneNode_group v i ds _
    · exact ⟨i, ds, rfl, rfl⟩
  · split
    · split
      · exact ⟨_, _, rfl, rfl⟩
      · exact ⟨i, ds, rfl, rfl⟩
    · split
      · exact ⟨_, _, rfl, rfl⟩
      · exact ⟨i, ds, rfl, rfl⟩

theorem admissible_keepAll : Admissible keepAll := fun i ds => ⟨i, ds, rfl, rfl⟩

theorem DNode.view_i (d : DNode) : d.view.i = d.info := by cases d <;> rfl

/-- the contraction-independent part of the root `info` is the pure bottom-up evaluation -/
theorem record_core (v : Variant) (o : Opts) (sc : Nat) (t : Tree) :
    (record v o sc t).info.c = (viewTree v t (rootCursor sc)).1.i.c := by
  have h1 := (recTree_view v _ (admissible_summarize v o) t (rootCursor sc)).1.1
  rw [DNode.view_i] at h1
  exact h1

end MythVerif.DagRec
