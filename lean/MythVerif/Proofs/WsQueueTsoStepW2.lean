import MythVerif.Proofs.WsQueueTsoTac
/-! Preservation lemmas of the TSO invariant (wsapi take: comparison, slot read, decision callback). -/
namespace MythVerif.WsqTso
open MythVerif.Wsq

theorem t_wk2 (s s' : St) (p : Pid) (b) : Inv s → s.tpc p = .wk2 b → stepT s p = some s' → Inv s' := by
  intro h heq hs
  have hb := h.tbufE p (by simp [heq, mayBuf])
  have hl := (h.lockT p).2 (by simp [heq, thiefLocked])
  have hmtop := h.mtop (thief_not_resetting s h p hl)
  have hlen := h.len
  have hlb := (h.wk2 p b heq).1
  have hm0 : b < s.top → s.A ≠ [] ∧ s.ptr b = s.A.head? := by
    intro hlt
    have hpos : 0 < s.A.length := by omega
    have := h.mwin 0 hpos (Or.inl (by simp; omega))
    refine ⟨by intro hA; simp [hA] at hpos, ?_⟩
    rw [List.head?_eq_getElem?, ← this, ← hlb]; simp
  simp only [stepT, heq, hb, viewTop_nil] at hs
  split at hs
  · rename_i hlt
    have hm := hm0 hlt
    simp at hs; subst hs
    tso_fastT h p [wk2]
  · simp at hs; subst hs
    tso_fastT h p [wk2]

theorem t_wk3 (s s' : St) (p : Pid) (b) : Inv s → s.tpc p = .wk3 b → stepT s p = some s' → Inv s' := by
  intro h heq hs
  have hb := h.tbufE p (by simp [heq, mayBuf])
  simp only [stepT, heq, hb, viewPtr_nil] at hs
  simp at hs; subst hs
  tso_fastT h p [wk3]

theorem d_decline (s s' : St) (p : Pid) (b) (r) : Inv s → s.tpc p = .wkd b r →
    s' = { s with tpc := upd s.tpc p (.wk5 b) } → Inv s' := by
  intro h heq hs
  subst hs
  tso_fastT h p []

set_option maxHeartbeats 1000000 in
theorem d_accept (s s' : St) (p : Pid) (b) (r) (x : Elem) (A' : List Elem) : Inv s → s.tpc p = .wkd b r → s.A = x :: A' →
    s' = { s with tpc := upd s.tpc p (.wk4 r), A := A', lb := s.lb + 1, tr := false, flT := some x } → Inv s' := by
  intro h heq hA hs
  have hmwin := h.mwin
  have hlen := h.len
  have hcar := h.carryC
  have hpof := h.pof
  obtain ⟨hlb, htr, hne, hr, hwin⟩ := h.wkd p b r heq
  have hrx : r = some x := by rw [hr, hA]; rfl
  have hl := (h.lockT p).2 (by simp [heq, thiefLocked])
  have hlt : carry s.opc = true → s.lb < s.top := by
    intro hc
    rcases hwin with h1 | ⟨h1, _⟩
    · omega
    · exfalso; cases hopc : s.opc <;> simp [hopc, carry, popWin] at hc h1
  have hlt2 : s.lb < s.top ∨ s.bufO = [] := by
    rcases hwin with h1 | ⟨_, h1⟩
    · exact Or.inl (by omega)
    · exact Or.inr h1
  subst hs
  simp only [ownerLocked, carry, resetting, ownerFlight] at *
  tso_coreT h []
  constructor
  all_goals (try simp only [ownerLocked, carry, resetting, ownerFlight, upd_apply, applySto])
  case carryC =>
    intro hc
    exact carry_tail _ _ _ s.lb _ x A' (hA ▸ hcar hc) (by rw [← hA]; exact hlen) (hlt hc)
  case pof =>
    intro t ht
    have := hpof t ht
    exact ⟨this.1, pof_tail _ _ s.lt s.lb _ _ x A' (hA ▸ this.2) this.1 (by rw [← hA]; exact hlen) hlt2⟩
  case mwin =>
    intro k hk hk2
    have h1 := hmwin (k + 1) (by simp [hA]; omega) (hk2.elim (fun h => Or.inl (by omega)) Or.inr)
    simp [hA] at h1
    rw [← h1]; congr 1; omega
  tso_goalsT h p

theorem d_wkd (s s' : St) (p : Pid) (a : Bool) : Inv s → stepD s p a = some s' → Inv s' := by
  intro h hs
  simp only [stepD] at hs
  split at hs
  · rename_i b r heq
    cases a
    · simp at hs
      exact d_decline s s' p b r h heq hs.symm
    · simp only [if_true] at hs
      split at hs
      · rename_i x A' hA
        simp at hs
        exact d_accept s s' p b r x A' h heq hA hs.symm
      · rename_i hA
        exact absurd hA (h.wkd p b r heq).2.2.1
  · simp at hs

end MythVerif.WsqTso
