import MythVerif.Proofs.WsQueueTsoBnd
/-! Preservation of the bounds invariant `Bnd` (generated per program counter): owner at pu0, pu0f, pul, pub, pum. -/
namespace MythVerif.WsqTso
open MythVerif.Wsq

set_option maxHeartbeats 4000000 in
theorem bO_pu0 (s s' : St) (e) : Inv s → Inv s' → Bnd s → s.opc = .pu0 e → stepO s = some s' → Bnd s' := by
  intro h h' hb hpc hs
  have hcfg := h.cfg
  have hview := owner_views s h
  have a1 := h'.pu1; have a2 := h'.pu2; have a3 := h'.pux; have a4 := h'.pt7; have a5 := h'.pt8; have a6 := h'.shz; have a7 := h'.po3; have a8 := h'.po5
  simp only [stepO, hpc, releaseO, fenceOk, hcfg, code_unlockFence, code_pushRb, code_popFence, if_true] at hs
  all_goals (try split at hs)
  all_goals (try split at hs)
  all_goals (try simp at hs)
  all_goals (try (first | (subst hs; exact hb) | subst hs))
  all_goals (cases h; cases hb)
  all_goals simp only [hpc, ownerLocked, carry, resetting, ownerFlight] at *
  all_goals (
    constructor
    all_goals (try simp only [ownerLocked, carry, resetting, ownerFlight, upd_apply, applySto])
    all_goals (first | assumption | grind [thiefLocked, mayBuf, notTrans, thiefFlight, popWin, rcOff_bnd, Rc1Shape, Rc2Shape, RcPre, RcShape, InsShape, Pu2Shape, CarryShape] | skip))

set_option maxHeartbeats 4000000 in
theorem bO_pu0f (s s' : St) (e t) : Inv s → Inv s' → Bnd s → s.opc = .pu0f e t → stepO s = some s' → Bnd s' := by
  intro h h' hb hpc hs
  have hcfg := h.cfg
  have hview := owner_views s h
  have a1 := h'.pu1; have a2 := h'.pu2; have a3 := h'.pux; have a4 := h'.pt7; have a5 := h'.pt8; have a6 := h'.shz; have a7 := h'.po3; have a8 := h'.po5
  simp only [stepO, hpc, releaseO, fenceOk, hcfg, code_unlockFence, code_pushRb, code_popFence, if_true] at hs
  all_goals (try split at hs)
  all_goals (try split at hs)
  all_goals (try simp at hs)
  all_goals (try (first | (subst hs; exact hb) | subst hs))
  all_goals (cases h; cases hb)
  all_goals simp only [hpc, ownerLocked, carry, resetting, ownerFlight] at *
  all_goals (
    constructor
    all_goals (try simp only [ownerLocked, carry, resetting, ownerFlight, upd_apply, applySto])
    all_goals (first | assumption | grind [thiefLocked, mayBuf, notTrans, thiefFlight, popWin, rcOff_bnd, Rc1Shape, Rc2Shape, RcPre, RcShape, InsShape, Pu2Shape, CarryShape] | skip))

set_option maxHeartbeats 4000000 in
theorem bO_pul (s s' : St) (e) : Inv s → Inv s' → Bnd s → s.opc = .pul e → stepO s = some s' → Bnd s' := by
  intro h h' hb hpc hs
  have hcfg := h.cfg
  have hview := owner_views s h
  have a1 := h'.pu1; have a2 := h'.pu2; have a3 := h'.pux; have a4 := h'.pt7; have a5 := h'.pt8; have a6 := h'.shz; have a7 := h'.po3; have a8 := h'.po5
  simp only [stepO, hpc, releaseO, fenceOk, hcfg, code_unlockFence, code_pushRb, code_popFence, if_true] at hs
  all_goals (try split at hs)
  all_goals (try split at hs)
  all_goals (try simp at hs)
  all_goals (try (first | (subst hs; exact hb) | subst hs))
  all_goals (cases h; cases hb)
  all_goals simp only [hpc, ownerLocked, carry, resetting, ownerFlight] at *
  all_goals (
    constructor
    all_goals (try simp only [ownerLocked, carry, resetting, ownerFlight, upd_apply, applySto])
    all_goals (first | assumption | grind [thiefLocked, mayBuf, notTrans, thiefFlight, popWin, rcOff_bnd, Rc1Shape, Rc2Shape, RcPre, RcShape, InsShape, Pu2Shape, CarryShape] | skip))

set_option maxHeartbeats 4000000 in
theorem bO_pub (s s' : St) (e) : Inv s → Inv s' → Bnd s → s.opc = .pub e → stepO s = some s' → Bnd s' := by
  intro h h' hb hpc hs
  have hcfg := h.cfg
  have hview := owner_views s h
  have a1 := h'.pu1; have a2 := h'.pu2; have a3 := h'.pux; have a4 := h'.pt7; have a5 := h'.pt8; have a6 := h'.shz; have a7 := h'.po3; have a8 := h'.po5
  simp only [stepO, hpc, releaseO, fenceOk, hcfg, code_unlockFence, code_pushRb, code_popFence, if_true] at hs
  simp only [(hview.1 e hpc).1] at hs
  have hoff := rcOff_bnd s.lb
  all_goals (try split at hs)
  all_goals (try split at hs)
  all_goals (try simp at hs)
  all_goals (try (first | (subst hs; exact hb) | subst hs))
  all_goals (cases h; cases hb)
  all_goals simp only [hpc, ownerLocked, carry, resetting, ownerFlight] at *
  all_goals (
    constructor
    all_goals (try simp only [ownerLocked, carry, resetting, ownerFlight, upd_apply, applySto])
    all_goals (first | assumption | grind [thiefLocked, mayBuf, notTrans, thiefFlight, popWin, rcOff_bnd, Rc1Shape, Rc2Shape, RcPre, RcShape, InsShape, Pu2Shape, CarryShape] | skip))

set_option maxHeartbeats 4000000 in
theorem bO_pum (s s' : St) (e off) : Inv s → Inv s' → Bnd s → s.opc = .pum e off → stepO s = some s' → Bnd s' := by
  intro h h' hb hpc hs
  have hcfg := h.cfg
  have hview := owner_views s h
  have a1 := h'.pu1; have a2 := h'.pu2; have a3 := h'.pux; have a4 := h'.pt7; have a5 := h'.pt8; have a6 := h'.shz; have a7 := h'.po3; have a8 := h'.po5
  simp only [stepO, hpc, releaseO, fenceOk, hcfg, code_unlockFence, code_pushRb, code_popFence, if_true] at hs
  all_goals (try split at hs)
  all_goals (try split at hs)
  all_goals (try simp at hs)
  all_goals (try (first | (subst hs; exact hb) | subst hs))
  all_goals (cases h; cases hb)
  all_goals simp only [hpc, ownerLocked, carry, resetting, ownerFlight] at *
  all_goals (
    constructor
    all_goals (try simp only [ownerLocked, carry, resetting, ownerFlight, upd_apply, applySto])
    all_goals (first | assumption | grind [thiefLocked, mayBuf, notTrans, thiefFlight, popWin, rcOff_bnd, Rc1Shape, Rc2Shape, RcPre, RcShape, InsShape, Pu2Shape, CarryShape] | skip))

end MythVerif.WsqTso
