import MythVerif.Proofs.WsQueueTsoBnd
/-! Preservation of the bounds invariant `Bnd` (generated per program counter): owner at cll, cl1, cl2, cl3. -/
namespace MythVerif.WsqTso
open MythVerif.Wsq

theorem bO_cll (s s' : St) : Inv s → Inv s' → Bnd s → s.opc = .cll → stepO s = some s' → Bnd s' := by
  intro h h' hb hpc hs
  have hcfg := h.cfg
  have hview := owner_views s h
  have hbc := hb.sz
  have a1 := h'.pu1; have a2 := h'.pu2; have a3 := h'.pux; have a4 := h'.pt7; have a5 := h'.pt8; have a6 := h'.shz; have a7 := h'.po3; have a8 := h'.po5
  simp only [stepO, hpc, releaseO, fenceOk, hcfg, code_unlockFence, code_pushRb, code_popFence, if_true] at hs
  all_goals (try split at hs)
  all_goals (try split at hs)
  all_goals (try simp at hs)
  all_goals (try (first | (subst hs; exact hb) | subst hs))
  all_goals (
    tso_coreO h hpc [carryC]
    bnd_core hb
    simp only [hpc, ownerLocked, carry, resetting, ownerFlight] at a1 a2 a3 a4 a5 a6 a7 a8 hview hbc
    constructor
    all_goals (bnd_pick hb; rename_i hold)
    all_goals (first | exact hold | (
      (try simp only [hpc, upd_apply, applySto] at hold ⊢)
      first | assumption | (intros; contradiction) | grind [thiefLocked, mayBuf, notTrans, thiefFlight, popWin, rcOff_bnd, Rc1Shape, Rc2Shape, RcPre, RcShape, InsShape, Pu2Shape, CarryShape] | skip)))

theorem bO_cl1 (s s' : St) : Inv s → Inv s' → Bnd s → s.opc = .cl1 → stepO s = some s' → Bnd s' := by
  intro h h' hb hpc hs
  have hcfg := h.cfg
  have hview := owner_views s h
  have hbc := hb.sz
  have a1 := h'.pu1; have a2 := h'.pu2; have a3 := h'.pux; have a4 := h'.pt7; have a5 := h'.pt8; have a6 := h'.shz; have a7 := h'.po3; have a8 := h'.po5
  simp only [stepO, hpc, releaseO, fenceOk, hcfg, code_unlockFence, code_pushRb, code_popFence, if_true] at hs
  all_goals (try split at hs)
  all_goals (try split at hs)
  all_goals (try simp at hs)
  all_goals (try (first | (subst hs; exact hb) | subst hs))
  all_goals (
    tso_coreO h hpc [cl1]
    bnd_core hb
    simp only [hpc, ownerLocked, carry, resetting, ownerFlight] at a1 a2 a3 a4 a5 a6 a7 a8 hview hbc
    constructor
    all_goals (bnd_pick hb; rename_i hold)
    all_goals (first | exact hold | (
      (try simp only [hpc, upd_apply, applySto] at hold ⊢)
      first | assumption | (intros; contradiction) | grind [thiefLocked, mayBuf, notTrans, thiefFlight, popWin, rcOff_bnd, Rc1Shape, Rc2Shape, RcPre, RcShape, InsShape, Pu2Shape, CarryShape] | skip)))

theorem bO_cl2 (s s' : St) : Inv s → Inv s' → Bnd s → s.opc = .cl2 → stepO s = some s' → Bnd s' := by
  intro h h' hb hpc hs
  have hcfg := h.cfg
  have hview := owner_views s h
  have hbc := hb.sz
  have a1 := h'.pu1; have a2 := h'.pu2; have a3 := h'.pux; have a4 := h'.pt7; have a5 := h'.pt8; have a6 := h'.shz; have a7 := h'.po3; have a8 := h'.po5
  simp only [stepO, hpc, releaseO, fenceOk, hcfg, code_unlockFence, code_pushRb, code_popFence, if_true] at hs
  all_goals (try split at hs)
  all_goals (try split at hs)
  all_goals (try simp at hs)
  all_goals (try (first | (subst hs; exact hb) | subst hs))
  all_goals (
    tso_coreO h hpc [cl2]
    bnd_core hb
    simp only [hpc, ownerLocked, carry, resetting, ownerFlight] at a1 a2 a3 a4 a5 a6 a7 a8 hview hbc
    constructor
    all_goals (bnd_pick hb; rename_i hold)
    all_goals (first | exact hold | (
      (try simp only [hpc, upd_apply, applySto] at hold ⊢)
      first | assumption | (intros; contradiction) | grind [thiefLocked, mayBuf, notTrans, thiefFlight, popWin, rcOff_bnd, Rc1Shape, Rc2Shape, RcPre, RcShape, InsShape, Pu2Shape, CarryShape] | skip)))

theorem bO_cl3 (s s' : St) : Inv s → Inv s' → Bnd s → s.opc = .cl3 → stepO s = some s' → Bnd s' := by
  intro h h' hb hpc hs
  have hcfg := h.cfg
  have hview := owner_views s h
  have hbc := hb.sz
  have a1 := h'.pu1; have a2 := h'.pu2; have a3 := h'.pux; have a4 := h'.pt7; have a5 := h'.pt8; have a6 := h'.shz; have a7 := h'.po3; have a8 := h'.po5
  simp only [stepO, hpc, releaseO, fenceOk, hcfg, code_unlockFence, code_pushRb, code_popFence, if_true] at hs
  all_goals (try split at hs)
  all_goals (try split at hs)
  all_goals (try simp at hs)
  all_goals (try (first | (subst hs; exact hb) | subst hs))
  all_goals (
    tso_coreO h hpc [cl3]
    bnd_core hb
    simp only [hpc, ownerLocked, carry, resetting, ownerFlight] at a1 a2 a3 a4 a5 a6 a7 a8 hview hbc
    constructor
    all_goals (bnd_pick hb; rename_i hold)
    all_goals (first | exact hold | (
      (try simp only [hpc, upd_apply, applySto] at hold ⊢)
      first | assumption | (intros; contradiction) | grind [thiefLocked, mayBuf, notTrans, thiefFlight, popWin, rcOff_bnd, Rc1Shape, Rc2Shape, RcPre, RcShape, InsShape, Pu2Shape, CarryShape] | skip)))

end MythVerif.WsqTso
