import MythVerif.Proofs.WsQueueTsoBndStep
/-! `Bnd` is inductive relative to `Inv`: operation calls, the decision callback, buffer drains; the
    bounds hold in every reachable state of a machine of capacity `0 ≤ n`, and with them the
    `abort()`s are reached exactly on a full deque. -/
namespace MythVerif.WsqTso
open MythVerif.Wsq

theorem bnd_callO (s s' : St) (pc : OPc) (hpc : (∃ e, pc = .pu0 e) ∨ pc = .pq ∨ pc = .cll ∨ (∃ e, pc = .ptl e)) :
    Bnd s → (match s.opc with | .idle => some { s with opc := pc } | _ => none) = some s' → Bnd s' := by
  intro hb hs
  split at hs
  · simp at hs; subst hs
    cases hb
    rcases hpc with ⟨e, rfl⟩ | rfl | rfl | ⟨e, rfl⟩
    all_goals (constructor <;> first | assumption | simp)
  · simp at hs

set_option maxHeartbeats 1000000 in
theorem bnd_callT (s s' : St) (p : Pid) (pc : TPc)
    (hpc : pc = .tq0 ∨ pc = .kq0 ∨ pc = .wq0 ∨ pc = .vq0 ∨ ∃ e, pc = .tpl e) :
    Bnd s → (match s.tpc p with | .idle => some { s with tpc := upd s.tpc p pc } | _ => none) = some s' → Bnd s' := by
  intro hb hs
  split at hs
  · simp at hs; subst hs
    cases hb
    rcases hpc with rfl | rfl | rfl | rfl | ⟨e, rfl⟩
    all_goals (constructor <;> first | assumption | grind [upd_apply])
  · simp at hs

set_option maxHeartbeats 1000000 in
theorem bnd_stepD (s s' : St) (p : Pid) (a : Bool) : Inv s → Bnd s → stepD s p a = some s' → Bnd s' := by
  intro h hb hs
  simp only [stepD] at hs
  split at hs
  · rename_i b r hwkd
    have hnot := thief_owner_unlocked s h p ((h.lockT p).2 (by simp [hwkd, thiefLocked]))
    have hlt := h.lockT
    cases a
    · simp at hs; subst hs
      cases hb
      constructor <;> first | assumption | grind [upd_apply, ownerLocked, thiefLocked]
    · simp only [if_true] at hs
      split at hs
      all_goals (simp at hs; subst hs; cases hb)
      all_goals (constructor <;> first | assumption | grind [upd_apply, ownerLocked, thiefLocked])
  · simp at hs

theorem resetting_locked (pc : OPc) (h : resetting pc = true) : ownerLocked pc = true := by
  cases pc <;> simp [resetting, ownerLocked] at h ⊢

/-- the head of the owner's buffer is an inserting `base` store: no shift is pending, it is the only entry -/
theorem baseI_head (s : St) (h : Inv s) (v : Int) (e : Elem) (rest : List Sto) (hb : s.bufO = .baseI v e :: rest) :
    s.opc = .pt9 ∧ s.sh = 0 ∧ rest = [] ∧ v = s.lb + s.sh - 1 := by
  obtain ⟨hpc, _, hv, _⟩ := owner_baseI s h v e (by simp [hb])
  have := h.pt9 hpc
  simp only [RcPre, InsShape, hb] at this
  refine ⟨hpc, ?_, ?_, hv⟩ <;> grind

set_option maxHeartbeats 1000000 in
/-- every `top` value that reaches memory is at most `size` -/
theorem top_head_le (s : St) (h : Inv s) (hb : Bnd s) (v : Int) (rest : List Sto) (hbuf : s.bufO = .top v :: rest) :
    v ≤ s.size := by
  have h1 := hb.lts; have h2 := hb.ltv; have h3 := hb.sz
  cases hpc : s.opc
  all_goals tso_shapes_core h hpc

set_option maxHeartbeats 1000000 in
/-- every `base` value the owner sends to memory is non-negative -/
theorem base_head_ge (s : St) (h : Inv s) (hb : Bnd s) (v : Int) (rest : List Sto) (hbuf : s.bufO = .base v :: rest) :
    0 ≤ v := by
  have h1 := hb.lb0; have h2 := hb.lbv; have h3 := hb.sz
  cases hpc : s.opc
  all_goals tso_shapes_core h hpc

set_option maxHeartbeats 1000000 in
theorem bnd_flushO (s s' : St) : Inv s → Bnd s → step s .flushO = some s' → Bnd s' := by
  intro h hb hs
  simp only [step] at hs
  split at hs
  · rename_i st rest hbuf
    simp at hs; subst hs
    have hne : s.bufO ≠ [] := by simp [hbuf]
    cases st
    case baseI v e =>
      obtain ⟨hpc, hsh, hr, hv⟩ := baseI_head s h v e rest hbuf
      have hpos := hb.pt9 hpc hne
      have hlo := h.lockO
      have hlt := h.lockT
      cases hb
      subst hr
      simp only [applySto]
      constructor <;> first | assumption | grind [ownerLocked, thiefLocked]
    case shift lo hi off =>
      obtain ⟨rfl, rfl, rfl, hres⟩ := shift_head s h lo hi off rest hbuf
      have hown := h.lockO.2 (resetting_locked _ hres)
      have hlt := h.lockT
      cases hb
      simp only [applySto]
      constructor <;> first | assumption | grind [thiefLocked, resetting]
    case top v =>
      have hv := top_head_le s h hb v rest hbuf
      cases hb
      simp only [applySto]
      constructor <;> first | assumption | grind
    case base v =>
      have hv := base_head_ge s h hb v rest hbuf
      cases hb
      simp only [applySto]
      constructor <;> first | assumption | grind
    all_goals (
      cases hb
      simp only [applySto]
      constructor <;> first | assumption | grind)
  · simp at hs

set_option maxHeartbeats 1000000 in
theorem bnd_flushT (s s' : St) (p : Pid) : Inv s → Bnd s → step s (.flushT p) = some s' → Bnd s' := by
  intro h hb hs
  simp only [step] at hs
  split at hs
  · rename_i st rest hbuf
    obtain ⟨hl, hcase⟩ := thief_buf_shape s h p st rest hbuf
    simp at hs; subst hs
    have hne : s.bufT p ≠ [] := by simp [hbuf]
    rcases hcase with ⟨b, hpc, rfl, rfl, hlb, htr⟩ | ⟨hpc, rfl, rfl, htr⟩ | ⟨e, hpc, rfl, rfl⟩ |
      ⟨e, ok, hpc, rfl, rfl⟩ | ⟨e, ok, hpc, rfl, rfl, hp⟩ | ⟨x, rfl, hc⟩
    case inr.inr.inr.inr.inl =>
      have hpos := hb.tp4 p ok hpc hne
      have hsh := h.shz (thief_not_resetting s h p hl)
      have hnot := thief_owner_unlocked s h p hl
      have hlt := h.lockT
      cases hb
      simp only [applySto]
      constructor <;> first | assumption | grind [upd_apply, ownerLocked, thiefLocked]
    all_goals (
      have htp4 := hb.tp4 p
      have hlb0 := hb.lb0
      have hnot := thief_owner_unlocked s h p hl
      have hlt := h.lockT
      cases hb
      simp only [applySto]
      constructor <;> first | assumption | grind [upd_apply, ownerLocked, thiefLocked])
  · simp at hs

theorem bnd_step (s : St) (l : Lbl) (s' : St) : Inv s → Inv s' → Bnd s → step s l = some s' → Bnd s' := by
  intro h h' hb hs
  cases l with
  | oPush e => exact bnd_callO s s' _ (Or.inl ⟨e, rfl⟩) hb hs
  | oPop => exact bnd_callO s s' _ (Or.inr (Or.inl rfl)) hb hs
  | oPut e => exact bnd_callO s s' _ (Or.inr (Or.inr (Or.inr ⟨e, rfl⟩))) hb hs
  | oClear => exact bnd_callO s s' _ (Or.inr (Or.inr (Or.inl rfl))) hb hs
  | o => exact bnd_stepO s s' h h' hb hs
  | flushO => exact bnd_flushO s s' h hb hs
  | tTake p => exact bnd_callT s s' p _ (Or.inl rfl) hb hs
  | tPass p e => exact bnd_callT s s' p _ (Or.inr (Or.inr (Or.inr (Or.inr ⟨e, rfl⟩)))) hb hs
  | tPeek p => exact bnd_callT s s' p _ (Or.inr (Or.inl rfl)) hb hs
  | tWTake p => exact bnd_callT s s' p _ (Or.inr (Or.inr (Or.inl rfl))) hb hs
  | tWPeek p => exact bnd_callT s s' p _ (Or.inr (Or.inr (Or.inr (Or.inl rfl)))) hb hs
  | t p => exact bnd_stepT s s' p h h' hb hs
  | flushT p => exact bnd_flushT s s' p h hb hs
  | tDecide p a => exact bnd_stepD s s' p a h hb hs

theorem reachable_bnd (n : Int) (hn : 0 ≤ n) (s : St) (hr : Reachable step (init FenceCfg.code n) s) :
    Inv s ∧ Bnd s := by
  refine inv_reachable step (init FenceCfg.code n) (fun s => Inv s ∧ Bnd s) ⟨init_inv n, init_bnd n hn⟩ ?_ s hr
  intro s l s' ⟨hi, hb⟩ hs
  have hi' := step_inv s l s' hi hs
  exact ⟨hi', bnd_step s l s' hi hi' hb hs⟩

/-- with the bounds: the overflow tests fire exactly at capacity, and the `myth_assert`s of the
    re-centring / insertion code hold -/
theorem abort_iff_full (s : St) (h : Inv s) (hb : Bnd s) :
    (∀ e, s.opc = .pub e → (viewBase s.bufO s.base = 0 ↔ (s.A.length : Int) = s.size)) ∧
    (∀ e, s.opc = .pt2 e → (viewTop s.bufO s.top = s.size ↔ (s.A.length : Int) = s.size)) := by
  have hlen := h.len
  have h0 := hb.lb0
  have h1 := hb.lts
  refine ⟨?_, ?_⟩
  · intro e hpc
    obtain ⟨hv, hsz⟩ := (overflow_tests_logical s h).1 e hpc
    rw [hv]; constructor <;> intro <;> omega
  · intro e hpc
    obtain ⟨hv, hz⟩ := (overflow_tests_logical s h).2 e hpc
    rw [hv]; constructor <;> intro <;> omega

end MythVerif.WsqTso
