import MythVerif.Proofs.DagRecTotals
/-! `cur_node_count` bookkeeping: after every contraction policy of the recorder (including the
budget walk `dr_prune_nodes_norec`) the counter of every node equals the number of nodes that are
materialised below it (`dr_check_cur_node_count` passes). -/
namespace MythVerif.DagRec

def DNode.isGroup : DNode → Bool
  | .group _ _ => true
  | _ => false

def DList.curSum : DList → Nat
  | .nil => 0
  | .cons d r => d.curBelow + r.curSum

mutual
/-- what `dr_check_cur_node_count` checks -/
def DNode.Consistent : DNode → Prop
  | .ival i => i.cur = 1
  | .create i ch => i.cur = 1 ∧ i.c.kind = .createTask ∧ ch.isGroup = true ∧ ch.Consistent
  | .group i ds => i.cur = 1 + ds.curSum ∧ ds.Consistent
def DList.Consistent : DList → Prop
  | .nil => True
  | .cons d r => d.Consistent ∧ r.Consistent
end

theorem curBelow_group {d : DNode} (h : d.isGroup = true) : d.curBelow = d.info.cur := by
  cases d <;> simp_all [DNode.isGroup, DNode.curBelow]

mutual
/-- the counter equals the number of materialised nodes -/
theorem DNode.count_eq : ∀ d : DNode, d.Consistent → d.count = d.curBelow
  | .ival i, h => by simp [DNode.Consistent] at h; simp [DNode.count, DNode.curBelow, DNode.info, h]
  | .create i ch, h => by
    simp only [DNode.Consistent] at h
    obtain ⟨h1, h2, h3, h4⟩ := h
    have := curBelow_group h3
    rw [DNode.count, DNode.count_eq ch h4, this]
    simp [DNode.curBelow, h2]
  | .group i ds, h => by
    simp only [DNode.Consistent] at h
    simp [DNode.count, DNode.curBelow, DNode.info, h.1, DList.count_eq ds h.2]
theorem DList.count_eq : ∀ ds : DList, ds.Consistent → ds.count = ds.curSum
  | .nil, _ => rfl
  | .cons d r, h => by
    simp only [DList.Consistent] at h
    simp [DList.count, DList.curSum, DNode.count_eq d h.1, DList.count_eq r h.2]
end

/-! #### accumulate computes `1 + Σ dr_cur_nodes_below(child)` -/

theorem accStep_cur (v : Variant) (a : Acc) (x : View) (h : Bool) :
    (accStep v a x h).s.cur = a.s.cur + x.i.cur +
      (match x.i.c.kind, x.child with | .createTask, some c => c.cur | _, _ => 0) := by
  unfold accStep
  split <;> (try split) <;> (try split) <;> simp_all

def viewCurSum : List View → Nat
  | [] => 0
  | x :: r => x.i.cur + (match x.i.c.kind, x.child with | .createTask, some c => c.cur | _, _ => 0) + viewCurSum r

theorem accLoop_cur (v : Variant) (xs : List View) : ∀ a : Acc,
    (accLoop v a xs).s.cur = a.s.cur + viewCurSum xs := by
  induction xs with
  | nil => intro a; simp [accLoop, viewCurSum]
  | cons x r ih => intro a; simp only [accLoop, ih, accStep_cur, viewCurSum]; omega

theorem accumulate_cur (v : Variant) (k : NKind) (xs : List View) (h : xs ≠ []) :
    (accumulate v k xs).cur = 1 + viewCurSum xs := by
  cases xs with
  | nil => exact absurd rfl h
  | cons x r => simp [accumulate, accFinish, accLoop_cur, accInit]

theorem views_curSum : ∀ ds : DList, ds.Consistent → viewCurSum ds.views = ds.curSum
  | .nil, _ => rfl
  | .cons d r, h => by
    simp only [DList.Consistent] at h
    have ih := views_curSum r h.2
    simp only [DList.views, viewCurSum, DList.curSum, ih]
    cases d with
    | ival i => simp [DNode.view, DNode.curBelow, DNode.info]
    | group i ds => simp [DNode.view, DNode.curBelow, DNode.info]
    | create i ch =>
      simp only [DNode.Consistent] at h
      simp [DNode.view, DNode.curBelow, h.1.2.1, h.1.1]

/-! #### the budget walk keeps the counters exact -/

theorem pruneNode_isGroup (v : Variant) (d : DNode) (b : Int) (h : d.isGroup = true) :
    (pruneNode v d b).isGroup = true := by
  cases d with
  | ival i => simp [DNode.isGroup] at h
  | create i ch => simp [DNode.isGroup] at h
  | group i ds =>
    obtain ⟨j, ds', hp, _⟩ := pruneNode_group v i ds b
    rw [hp]; rfl

mutual
theorem pruneNode_consistent (v : Variant) : ∀ (d : DNode) (b : Int), d.Consistent → (pruneNode v d b).Consistent
  | .ival i, b, h => by simpa [pruneNode] using h
  | .create i ch, b, h => by
    simp only [DNode.Consistent] at h
    simp only [pruneNode, DNode.Consistent]
    exact ⟨h.1, h.2.1, pruneNode_isGroup v ch _ h.2.2.1, pruneNode_consistent v ch _ h.2.2.2⟩
  | .group i ds, b, h => by
    simp only [DNode.Consistent] at h
    unfold pruneNode
    split
    · simpa [DNode.Consistent] using h
    · split
      · simpa [DNode.Consistent] using h
      · split
        · simp [collapse, DNode.Consistent, DList.curSum, DList.Consistent]
        · have := pruneList_consistent v ds (b - 1) ((i.cur : Int) - 1) h.2
          simp only [DNode.Consistent]
          refine ⟨?_, this.1⟩
          have h2 := this.2
          omega
theorem pruneList_consistent (v : Variant) : ∀ (ds : DList) (bl nl : Int), ds.Consistent →
    (pruneList v ds bl nl).1.Consistent ∧ (pruneList v ds bl nl).2 = bl - ((pruneList v ds bl nl).1.curSum : Int)
  | .nil, bl, nl, _ => by simp [pruneList, DList.Consistent, DList.curSum]
  | .cons d r, bl, nl, h => by
    simp only [DList.Consistent] at h
    have h1 := pruneNode_consistent v d (Int.tdiv (bl * (d.curBelow : Int)) nl) h.1
    have h2 := pruneList_consistent v r
      (bl - ((pruneNode v d (Int.tdiv (bl * (d.curBelow : Int)) nl)).curBelow : Int)) (nl - (d.curBelow : Int)) h.2
    simp only [pruneList, DList.Consistent, DList.curSum]
    refine ⟨⟨h1, h2.1⟩, ?_⟩
    rw [h2.2]
    omega
end

theorem summarize_consistent (v : Variant) (o : Opts) (i : Info) (ds : DList)
    (h1 : i.cur = 1 + ds.curSum) (h2 : ds.Consistent) : (summarize v o i ds).Consistent := by
  have hg : (DNode.group i ds).Consistent := by simp only [DNode.Consistent]; exact ⟨h1, h2⟩
  unfold summarize
  split
  · split
    · exact pruneNode_consistent v _ _ hg
    · exact hg
  · split
    · split
      · simp [collapse, DNode.Consistent, DList.curSum, DList.Consistent]
      · exact hg
    · split
      · simp [collapse, DNode.Consistent, DList.curSum, DList.Consistent]
      · exact hg

theorem summarize_isGroup (v : Variant) (o : Opts) (i : Info) (ds : DList) :
    (summarize v o i ds).isGroup = true := by
  obtain ⟨j, ds', hp, _⟩ := admissible_summarize v o i ds
  rw [hp]; rfl

mutual
theorem recTree_consistent (v : Variant) (o : Opts) : ∀ (t : Tree) (c : Cursor), WnAny t →
    (recTree v (summarize v o) t c).1.Consistent
  | .ival k r, c, _ => by simp [recTree, DNode.Consistent, endInterval]
  | .create r child, c, h => by
    have hw := wnAny_create h
    have ih := recTree_consistent v o child (cursorAfter (endInterval .createTask r c) .create) (Or.inr (Or.inr hw))
    obtain ⟨f, rfl, _⟩ := wnTask_group hw
    simp only [recTree, DNode.Consistent] at ih ⊢
    exact ⟨by simp [endInterval], by simp [endInterval], summarize_isGroup v o _ _, ih⟩
  | .group k f, c, h => by
    obtain ⟨b, hb⟩ := wnAny_group h
    have ih := recForest_consistent v o f c b hb
    simp only [recTree]
    apply summarize_consistent v o _ _ _ ih.1
    rw [accumulate_cur v k _ ih.2, views_curSum _ ih.1]
theorem recForest_consistent (v : Variant) (o : Opts) : ∀ (f : Forest) (c : Cursor) (b : Bool), wnForest b f = true →
    (recForest v (summarize v o) f c).1.Consistent ∧ (recForest v (summarize v o) f c).1.views ≠ []
  | .nil, c, b, h => by simp [wnForest] at h
  | .cons t .nil, c, b, h => by
    simp only [wnForest] at h
    have ih := recTree_consistent v o t c (Or.inr (Or.inl ⟨b, h⟩))
    simp only [recForest, DList.Consistent, DList.views]
    exact ⟨⟨ih, trivial⟩, by simp⟩
  | .cons t (.cons t' rest), c, b, h => by
    simp only [wnForest, Bool.and_eq_true] at h
    have ih1 := recTree_consistent v o t c (Or.inl ⟨b, h.1⟩)
    have ih2 := recForest_consistent v o (.cons t' rest) (recTree v (summarize v o) t c).2 b h.2
    rw [show recForest v (summarize v o) (.cons t (.cons t' rest)) c =
      (.cons (recTree v (summarize v o) t c).1 (recForest v (summarize v o) (.cons t' rest) (recTree v (summarize v o) t c).2).1,
       (recForest v (summarize v o) (.cons t' rest) (recTree v (summarize v o) t c).2).2) from rfl]
    simp only [DList.Consistent, DList.views]
    exact ⟨⟨ih1, ih2.1⟩, by simp⟩
end

end MythVerif.DagRec
