import MythVerif.Proofs.WsQueueTac
/-! Per-program-counter preservation lemmas of the work-stealing queue invariant (generated list, uniform script). -/
namespace MythVerif.Wsq

set_option maxHeartbeats 1000000 in
theorem o_pt1 (s s' : St) (e) : Inv s → s.opc = .pt1 e → stepO s = some s' → Inv s' := by wsq_ostep

set_option maxHeartbeats 1000000 in
theorem o_pt2 (s s' : St) (e) : Inv s → s.opc = .pt2 e → stepO s = some s' → Inv s' := by wsq_ostep

set_option maxHeartbeats 1000000 in
theorem o_pt3 (s s' : St) (e off) : Inv s → s.opc = .pt3 e off → stepO s = some s' → Inv s' := by wsq_ostep

set_option maxHeartbeats 1000000 in
theorem o_pt4 (s s' : St) (e off) : Inv s → s.opc = .pt4 e off → stepO s = some s' → Inv s' := by wsq_ostep

set_option maxHeartbeats 1000000 in
theorem o_pt5 (s s' : St) (e off) : Inv s → s.opc = .pt5 e off → stepO s = some s' → Inv s' := by wsq_ostep

end MythVerif.Wsq
