import MythVerif.Proofs.WsQueueTac
/-! Preservation lemmas that need a manual instantiation (take / trypass / decision callback / calls). -/
namespace MythVerif.Wsq

set_option maxHeartbeats 1000000 in
theorem t_tk2 (s s' : St) (p : Pid) (b) : Inv s → s.tpc p = .tk2 b → stepT s p = some s' → Inv s' := by
  intro h heq hs
  have hcont := h.cont
  cases h
  simp only [stepT, heq] at hs
  split at hs
  · split at hs
    · rename_i x A' hA
      simp at hs; subst hs
      simp only [ownerLocked, midPop, topSync, baseSync, ownerFlight] at *
      constructor
      all_goals (try simp only [ownerLocked, midPop, topSync, baseSync, ownerFlight, upd_apply, shiftPtr_apply])
      case cont =>
        intro k hk
        have h1 := hcont (k + 1) (by simp [hA]; omega)
        simp [hA] at h1
        rw [← h1]; congr 1; omega
      all_goals (first | assumption | grind [thiefLocked, transient, thiefFlight])
    · simp at hs
  · simp at hs; subst hs
    simp only [ownerLocked, midPop, topSync, baseSync, ownerFlight] at *
    wsq_finish

set_option maxHeartbeats 1000000 in
theorem t_tp3 (s s' : St) (p : Pid) (e b) : Inv s → s.tpc p = .tp3 e b → stepT s p = some s' → Inv s' := by
  intro h heq hs
  have hcont := h.cont
  have htp3 := h.tp3 p e b heq
  cases h
  simp only [stepT, heq] at hs
  simp at hs; subst hs
  simp only [ownerLocked, midPop, topSync, baseSync, ownerFlight] at *
  constructor
  all_goals (try simp only [ownerLocked, midPop, topSync, baseSync, ownerFlight, upd_apply, shiftPtr_apply])
  case cont =>
    intro k hk
    cases k with
    | zero => simp; grind
    | succ k =>
      have h1 := hcont k (by simp at hk; omega)
      simp only [List.getElem?_cons_succ]
      rw [← h1]; congr 1; omega
  all_goals (first | assumption | grind [thiefLocked, transient, thiefFlight])

set_option maxHeartbeats 1000000 in
theorem d_wkd (s s' : St) (p : Pid) (a : Bool) : Inv s → stepD s p a = some s' → Inv s' := by
  intro h hs
  have hcont := h.cont
  cases h
  simp only [stepD] at hs
  split at hs
  · rename_i b r heq
    split at hs
    · split at hs
      · rename_i x A' hA
        simp at hs; subst hs
        simp only [ownerLocked, midPop, topSync, baseSync, ownerFlight] at *
        constructor
        all_goals (try simp only [ownerLocked, midPop, topSync, baseSync, ownerFlight, upd_apply, shiftPtr_apply])
        case cont =>
          intro k hk
          have h1 := hcont (k + 1) (by simp [hA]; omega)
          simp [hA] at h1
          rw [← h1]; congr 1; omega
        case wk4 =>
          have h0 := hcont 0 (by simp [hA])
          simp [hA] at h0
          grind [thiefLocked, transient, thiefFlight]
        all_goals (first | assumption | grind [thiefLocked, transient, thiefFlight])
      · simp at hs
    · simp at hs; subst hs
      simp only [ownerLocked, midPop, topSync, baseSync, ownerFlight] at *
      wsq_finish
  · simp at hs

theorem callO_inv (s s' : St) (pc : OPc)
    (hpc : ownerLocked pc = false ∧ midPop pc = false ∧ topSync pc = true ∧ baseSync pc = true ∧ ownerFlight pc = false)
    (hcl : (∀ e, pc ≠ .pul e) ∧ (∀ e t, pc ≠ .pu1 e t) ∧ (∀ e t, pc ≠ .pu2 e t) ∧ pc ≠ .po1) :
    Inv s → callO s pc = some s' → Inv s' := by
  intro h hs
  simp only [callO] at hs
  split at hs
  · rename_i heq
    simp at hs; subst hs
    cases h
    simp only [heq, ownerLocked, midPop, topSync, baseSync, ownerFlight] at *
    constructor
    all_goals (try simp only [ownerLocked, midPop, topSync, baseSync, ownerFlight, upd_apply, shiftPtr_apply])
    all_goals (first | assumption | grind)
  · simp at hs

set_option maxHeartbeats 1000000 in
theorem callT_inv (s s' : St) (p : Pid) (pc : TPc)
    (hpc : pc = .tq0 ∨ pc = .wq0 ∨ (∃ e, pc = .tpl e) ∨ pc = .kq0 ∨ pc = .vq0) :
    Inv s → callT s p pc = some s' → Inv s' := by
  intro h hs
  simp only [callT] at hs
  split at hs
  · rename_i heq
    simp at hs; subst hs
    cases h
    simp only [ownerLocked, midPop, topSync, baseSync, ownerFlight] at *
    constructor
    all_goals (try simp only [ownerLocked, midPop, topSync, baseSync, ownerFlight, upd_apply, shiftPtr_apply])
    all_goals (first | assumption | grind [thiefLocked, transient, thiefFlight])
  · simp at hs

end MythVerif.Wsq
