import MythVerif.Model.Time
/-!
Helper lemmas for C20: 64-bit arithmetic of `myth_timespec_add`, the order `myth_timespec_gt`,
exact characterisations of the three loops (`sleepLoop`, `timedLoop`) and of their event traces.
-/
namespace MythVerif.Time

/-! ### arithmetic -/

theorem wrap64_id {x : Int} (h : InT x) : wrap64 x = x := by
  unfold InT tMin tMax at h; unfold wrap64; omega

theorem tdiv_NS {x : Int} (h : 0 ≤ x) : Int.tdiv x NS = x / NS := Int.tdiv_eq_ediv_of_nonneg h
theorem tmod_NS {x : Int} (h : 0 ≤ x) : Int.tmod x NS = x % NS := Int.tmod_eq_emod_of_nonneg h

/-- the carry out of the nanosecond field -/
def carry (a b : Ts) : Int := if a.nsec + b.nsec ≥ NS then 1 else 0

/-- both additions agree and are exact when the second sum is representable -/
theorem add_exact (a b : Ts) (ha : Norm a) (hb : Norm b)
    (hlo : tMin ≤ a.sec + b.sec) (hhi : a.sec + b.sec + carry a b ≤ tMax) :
    add a b = { sec := a.sec + b.sec + carry a b, nsec := a.nsec + b.nsec - carry a b * NS } := by
  unfold Norm NS at ha hb
  unfold carry NS tMax at hhi
  unfold tMin at hlo
  have hns : wrap64 (a.nsec + b.nsec) = a.nsec + b.nsec := wrap64_id (by unfold InT tMin tMax; omega)
  have h0 : 0 ≤ a.nsec + b.nsec := by omega
  unfold add
  simp only [hns, tdiv_NS h0, tmod_NS h0]
  unfold carry InT NS tMin tMax
  by_cases hc : a.nsec + b.nsec ≥ 1000000000
  · have hd : (a.nsec + b.nsec) / 1000000000 = 1 := by omega
    have hm : (a.nsec + b.nsec) % 1000000000 = a.nsec + b.nsec - 1000000000 := by omega
    simp only [hc, if_true] at hhi ⊢
    rw [hd, hm]
    rw [if_neg (by omega), if_neg (by omega)]
    simp
  · have hd : (a.nsec + b.nsec) / 1000000000 = 0 := by omega
    have hm : (a.nsec + b.nsec) % 1000000000 = a.nsec + b.nsec := by omega
    simp only [hc, if_false] at hhi ⊢
    rw [hd, hm]
    rw [if_neg (by omega), if_neg (by omega)]
    simp

/-- when the sum is not representable the current source saturates -/
theorem add_saturates (a b : Ts) (ha : Norm a) (hb : Norm b)
    (hhi : tMax < a.sec + b.sec + carry a b) :
    add a b = tsSat := by
  unfold Norm NS at ha hb
  unfold carry NS tMax at hhi
  have hns : wrap64 (a.nsec + b.nsec) = a.nsec + b.nsec := wrap64_id (by unfold InT tMin tMax; omega)
  have h0 : 0 ≤ a.nsec + b.nsec := by omega
  unfold add
  simp only [hns, tdiv_NS h0, tmod_NS h0]
  unfold InT NS tMin tMax
  by_cases hc : a.nsec + b.nsec ≥ 1000000000
  · have hd : (a.nsec + b.nsec) / 1000000000 = 1 := by omega
    simp only [hc, if_true] at hhi
    rw [hd]
    by_cases h1 : ¬(-9223372036854775808 ≤ a.sec + b.sec ∧ a.sec + b.sec ≤ 9223372036854775807)
    · rw [if_pos h1]
    · rw [if_neg h1, if_pos (by omega)]
  · have hd : (a.nsec + b.nsec) / 1000000000 = 0 := by omega
    simp only [hc, if_false] at hhi
    rw [hd]
    rw [if_pos (by omega)]

/-- the pinned addition is exact under the same hypotheses … -/
theorem addPinned_exact (a b : Ts) (ha : Norm a) (hb : Norm b)
    (hlo : tMin ≤ a.sec + b.sec) (hhi : a.sec + b.sec + carry a b ≤ tMax) :
    addPinned a b = { sec := a.sec + b.sec + carry a b, nsec := a.nsec + b.nsec - carry a b * NS } := by
  unfold Norm NS at ha hb
  unfold carry NS tMax at hhi
  unfold tMin at hlo
  have hns : wrap64 (a.nsec + b.nsec) = a.nsec + b.nsec := wrap64_id (by unfold InT tMin tMax; omega)
  have h0 : 0 ≤ a.nsec + b.nsec := by omega
  unfold addPinned
  simp only [hns, tdiv_NS h0, tmod_NS h0]
  unfold carry NS
  by_cases hc : a.nsec + b.nsec ≥ 1000000000
  · have hd : (a.nsec + b.nsec) / 1000000000 = 1 := by omega
    have hm : (a.nsec + b.nsec) % 1000000000 = a.nsec + b.nsec - 1000000000 := by omega
    simp only [hc, if_true] at hhi ⊢
    rw [hd, hm]
    have h1 : wrap64 (a.sec + b.sec) = a.sec + b.sec := wrap64_id (by unfold InT tMin tMax; omega)
    have h2 : wrap64 (a.sec + b.sec + 1) = a.sec + b.sec + 1 := wrap64_id (by unfold InT tMin tMax; omega)
    rw [h1, h2]; simp
  · have hd : (a.nsec + b.nsec) / 1000000000 = 0 := by omega
    have hm : (a.nsec + b.nsec) % 1000000000 = a.nsec + b.nsec := by omega
    simp only [hc, if_false] at hhi ⊢
    rw [hd, hm]
    have h1 : wrap64 (a.sec + b.sec) = a.sec + b.sec := wrap64_id (by unfold InT tMin tMax; omega)
    rw [h1]; simp [h1]

theorem toNs_exact (a b : Ts) :
    toNs { sec := a.sec + b.sec + carry a b, nsec := a.nsec + b.nsec - carry a b * NS } = toNs a + toNs b := by
  unfold toNs carry NS
  by_cases hc : a.nsec + b.nsec ≥ 1000000000 <;> simp only [hc, if_true, if_false] <;> omega

theorem norm_exact (a b : Ts) (ha : Norm a) (hb : Norm b) :
    Norm { sec := a.sec + b.sec + carry a b, nsec := a.nsec + b.nsec - carry a b * NS } := by
  unfold Norm NS at *
  unfold carry NS
  by_cases hc : a.nsec + b.nsec ≥ 1000000000 <;> simp only [hc, if_true, if_false] <;> omega

/-! ### the order -/

theorem gt_iff (a b : Ts) : gt a b = true ↔ (a.sec > b.sec ∨ (a.sec = b.sec ∧ a.nsec > b.nsec)) := by
  unfold gt
  by_cases h1 : a.sec > b.sec
  · simp [h1]
  · by_cases h2 : a.sec = b.sec
    · simp [h2]
    · simp [h1, h2]

theorem gt_irrefl (a : Ts) : gt a a = false := by
  have := gt_iff a a
  cases h : gt a a with
  | false => rfl
  | true => rw [h] at this; have := this.mp rfl; omega

theorem gt_trans {a b c : Ts} (h1 : gt a b = true) (h2 : gt b c = true) : gt a c = true := by
  rw [gt_iff] at *; omega

theorem gt_asymm {a b : Ts} (h : gt a b = true) : gt b a = false := by
  cases h' : gt b a with
  | false => rfl
  | true => rw [gt_iff] at h h'; omega

theorem gt_trichotomy (a b : Ts) : gt a b = true ∨ a = b ∨ gt b a = true := by
  rw [gt_iff, gt_iff]
  by_cases h : a = b
  · exact Or.inr (Or.inl h)
  · have : a.sec ≠ b.sec ∨ a.nsec ≠ b.nsec := by
      cases a; cases b; simp at h ⊢; omega
    omega

/-- on normalised values `gt` is "later than" -/
theorem gt_iff_toNs {a b : Ts} (ha : Norm a) (hb : Norm b) : gt a b = true ↔ toNs a > toNs b := by
  rw [gt_iff]; unfold Norm NS at *; unfold toNs NS; omega

/-- a normalised reading that is `gt` a deadline whose nanosecond field is at most 10^9 (so also the
    "just outside" values 10^9 and every negative value) is not earlier than that deadline -/
theorem gt_not_earlier {a b : Ts} (ha : Norm a) (hb : b.nsec ≤ NS) (h : gt a b = true) : toNs a ≥ toNs b := by
  rw [gt_iff] at h; unfold Norm NS at *; unfold toNs NS; omega

/-- no normalised in-range reading is later than the saturated time -/
theorem not_gt_tsSat {a : Ts} (ha : Norm a) (hs : InT a.sec) : gt a tsSat = false := by
  cases h : gt a tsSat with
  | false => rfl
  | true =>
    rw [gt_iff] at h; unfold Norm NS at ha; unfold InT tMax at hs
    simp only [tsSat, tMax] at h; omega

/-! ### event traces: a yield separates any two clock reads -/

/-- in `tr`, between any two clock reads there is a yield -/
def Sep (tr : List Ev) : Prop :=
  ∀ l1 a l2 b l3, tr = l1 ++ Ev.clock a :: (l2 ++ Ev.clock b :: l3) → Ev.yield ∈ l2

theorem Sep_nil : Sep [] := by
  intro l1 a l2 b l3 h
  have := congrArg List.length h
  simp at this

theorem Sep_single (e : Ev) : Sep [e] := by
  intro l1 a l2 b l3 h
  have := congrArg List.length h
  simp at this
  omega

/-- a non-clock event in front changes nothing -/
theorem Sep_cons_other {e : Ev} {tr : List Ev} (he : ∀ a, e ≠ Ev.clock a) (h : Sep tr) : Sep (e :: tr) := by
  intro l1 a l2 b l3 heq
  cases l1 with
  | nil =>
    simp only [List.nil_append, List.cons.injEq] at heq
    exact absurd heq.1 (he a)
  | cons x l1' =>
    simp only [List.cons_append, List.cons.injEq] at heq
    exact h l1' a l2 b l3 heq.2

/-- a clock read followed by events without clock reads up to and including a yield -/
theorem Sep_clock_yield {c : Ts} {tr : List Ev} (h : Sep tr) : Sep (Ev.clock c :: Ev.yield :: tr) := by
  intro l1 a l2 b l3 heq
  cases l1 with
  | nil =>
    simp only [List.nil_append, List.cons.injEq] at heq
    cases l2 with
    | nil => simp at heq
    | cons y l2' =>
      simp only [List.cons_append, List.cons.injEq] at heq
      rw [← heq.2.1]; simp
  | cons x l1' =>
    simp only [List.cons_append, List.cons.injEq] at heq
    exact Sep_cons_other (by intro a; simp) h l1' a l2 b l3 heq.2

theorem Sep_clock_attempt_yield {c : Ts} {ok : Bool} {tr : List Ev} (h : Sep tr) :
    Sep (Ev.clock c :: Ev.attempt ok :: Ev.yield :: tr) := by
  intro l1 a l2 b l3 heq
  cases l1 with
  | nil =>
    simp only [List.nil_append, List.cons.injEq] at heq
    cases l2 with
    | nil => simp at heq
    | cons y l2' =>
      simp only [List.cons_append, List.cons.injEq] at heq
      cases l2' with
      | nil => simp at heq
      | cons z l2'' =>
        simp only [List.cons_append, List.cons.injEq] at heq
        rw [← heq.2.2.1]; simp
  | cons x l1' =>
    simp only [List.cons_append, List.cons.injEq] at heq
    exact Sep_cons_other (by intro a; simp) (Sep_cons_other (by intro a; simp) h) l1' a l2 b l3 heq.2

theorem Sep_clock_attempt (c : Ts) (ok : Bool) : Sep [Ev.clock c, Ev.attempt ok] := by
  intro l1 a l2 b l3 heq
  cases l1 with
  | nil =>
    simp only [List.nil_append, List.cons.injEq] at heq
    cases l2 with
    | nil => simp at heq
    | cons y l2' =>
      have := congrArg List.length heq.2
      simp at this
  | cons x l1' =>
    simp only [List.cons_append, List.cons.injEq] at heq
    exact Sep_single _ l1' a l2 b l3 heq.2

/-! ### the sleep loop -/

/-- the events of a sleep loop that starts at reading `i` and breaks at reading `i + n` -/
def sleepTrace (clk : Clock) (i : Nat) : Nat → List Ev
  | 0 => [Ev.clock (clk i)]
  | n + 1 => Ev.clock (clk i) :: Ev.yield :: sleepTrace clk (i + 1) n

/-- exact behaviour of the loop: it breaks at the first reading (from `i` on) later than `unt` -/
theorem sleepLoop_some (unt : Ts) (clk : Clock) (f i : Nat) (tr : List Ev) :
    sleepLoop unt clk f i = some tr ↔
      ∃ n, n < f ∧ gt (clk (i + n)) unt = true ∧ (∀ j, j < n → gt (clk (i + j)) unt = false) ∧
        tr = sleepTrace clk i n := by
  induction f generalizing i tr with
  | zero => simp [sleepLoop]
  | succ f ih =>
    simp only [sleepLoop]
    by_cases hg : gt (clk i) unt = true
    · simp only [hg, if_true]
      constructor
      · intro h
        refine ⟨0, by omega, by simpa using hg, by intro j hj; omega, ?_⟩
        simp at h; simp [sleepTrace, h]
      · rintro ⟨n, _, hn, hall, htr⟩
        cases n with
        | zero => simp [htr, sleepTrace]
        | succ n => have := hall 0 (by omega); simp [hg] at this
    · have hg' : gt (clk i) unt = false := by simpa using hg
      simp only [hg', Bool.false_eq_true, if_false, Option.map_eq_some_iff]
      constructor
      · rintro ⟨tr', h', rfl⟩
        obtain ⟨n, hn, hgt, hall, rfl⟩ := (ih (i + 1) tr').mp h'
        refine ⟨n + 1, by omega, ?_, ?_, by simp [sleepTrace]⟩
        · rw [← hgt]; congr 2; omega
        · intro j hj
          cases j with
          | zero => simpa using hg'
          | succ j => rw [← hall j (by omega)]; congr 2; omega
      · rintro ⟨n, hn, hgt, hall, rfl⟩
        cases n with
        | zero => simp [hg'] at hgt
        | succ n =>
          refine ⟨sleepTrace clk (i + 1) n, (ih (i + 1) _).mpr ⟨n, by omega, ?_, ?_, rfl⟩, by simp [sleepTrace]⟩
          · rw [← hgt]; congr 2; omega
          · intro j hj; rw [← hall (j + 1) (by omega)]; congr 2; omega

theorem sleepTrace_Sep (clk : Clock) (i n : Nat) : Sep (sleepTrace clk i n) := by
  induction n generalizing i with
  | zero => exact Sep_single _
  | succ n ih => exact Sep_clock_yield (ih (i + 1))

theorem mem_sleepTrace (clk : Clock) (i n : Nat) : Ev.clock (clk (i + n)) ∈ sleepTrace clk i n := by
  induction n generalizing i with
  | zero => simp [sleepTrace]
  | succ n ih =>
    simp only [sleepTrace, List.mem_cons]
    right; right
    have := ih (i + 1)
    rwa [show i + 1 + n = i + (n + 1) by omega] at this

theorem sleepTrace_yields (clk : Clock) (i n : Nat) : (sleepTrace clk i n).count Ev.yield = n := by
  induction n generalizing i with
  | zero => simp [sleepTrace]
  | succ n ih => simp [sleepTrace, ih]

/-! ### the timed loop -/

/-- events of a timed loop that starts at iteration `i`, fails `n` times and then ends with `last` -/
def timedTrace (clk : Clock) (last : Ts → List Ev) (i : Nat) : Nat → List Ev
  | 0 => last (clk i)
  | n + 1 => Ev.clock (clk i) :: Ev.attempt false :: Ev.yield :: timedTrace clk last (i + 1) n

def lastTimeout (t : Ts) : List Ev := [Ev.clock t]
def lastSuccess (t : Ts) : List Ev := [Ev.clock t, Ev.attempt true]

/-- exact behaviour of the timed loop -/
theorem timedLoop_some (code : Rc) (abs : Ts) (clk : Clock) (out : Nat → Bool) (f i : Nat)
    (r : Rc) (tr : List Ev) :
    timedLoop code abs clk out f i = some (r, tr) ↔
      ∃ n, n < f ∧ (∀ j, j < n → gt (clk (i + j)) abs = false ∧ out (i + j + 1) = false) ∧
        ((gt (clk (i + n)) abs = true ∧ r = code ∧ tr = timedTrace clk lastTimeout i n) ∨
         (gt (clk (i + n)) abs = false ∧ out (i + n + 1) = true ∧ r = Rc.ok ∧
            tr = timedTrace clk lastSuccess i n)) := by
  induction f generalizing i r tr with
  | zero => simp [timedLoop]
  | succ f ih =>
    simp only [timedLoop]
    by_cases hg : gt (clk i) abs = true
    · simp only [hg, if_true]
      constructor
      · intro h
        simp only [Option.some.injEq, Prod.mk.injEq] at h
        exact ⟨0, by omega, by intro j hj; omega, Or.inl ⟨by simpa using hg, h.1.symm, by simp [timedTrace, lastTimeout, h.2]⟩⟩
      · rintro ⟨n, _, hall, hcase⟩
        cases n with
        | zero =>
          rcases hcase with ⟨_, rfl, rfl⟩ | ⟨h1, _⟩
          · simp [timedTrace, lastTimeout]
          · simp [hg] at h1
        | succ n => have := (hall 0 (by omega)).1; simp [hg] at this
    · have hg' : gt (clk i) abs = false := by simpa using hg
      simp only [hg', Bool.false_eq_true, if_false]
      by_cases ho : out (i + 1) = true
      · simp only [ho, if_true]
        constructor
        · intro h
          simp only [Option.some.injEq, Prod.mk.injEq] at h
          exact ⟨0, by omega, by intro j hj; omega, Or.inr ⟨by simpa using hg', by simpa using ho, h.1.symm, by simp [timedTrace, lastSuccess, h.2]⟩⟩
        · rintro ⟨n, _, hall, hcase⟩
          cases n with
          | zero =>
            rcases hcase with ⟨h1, _⟩ | ⟨_, _, rfl, rfl⟩
            · simp [hg'] at h1
            · simp [timedTrace, lastSuccess]
          | succ n => have := (hall 0 (by omega)).2; simp [ho] at this
      · have ho' : out (i + 1) = false := by simpa using ho
        simp only [ho', Bool.false_eq_true, if_false, Option.map_eq_some_iff]
        constructor
        · rintro ⟨⟨r', tr'⟩, h', heq⟩
          simp only [Prod.mk.injEq] at heq
          obtain ⟨rfl, rfl⟩ := heq
          obtain ⟨n, hn, hall, hcase⟩ := (ih (i + 1) r' tr').mp h'
          refine ⟨n + 1, by omega, ?_, ?_⟩
          · intro j hj
            cases j with
            | zero => exact ⟨by simpa using hg', by simpa using ho'⟩
            | succ j =>
              have := hall j (by omega)
              rw [show i + 1 + j = i + (j + 1) by omega] at this
              exact this
          · rw [show i + 1 + n = i + (n + 1) by omega] at hcase
            rcases hcase with ⟨h1, h2, h3⟩ | ⟨h1, h2, h3, h4⟩
            · exact Or.inl ⟨h1, h2, by simp [timedTrace, h3]⟩
            · exact Or.inr ⟨h1, h2, h3, by simp [timedTrace, h4]⟩
        · rintro ⟨n, hn, hall, hcase⟩
          cases n with
          | zero =>
            rcases hcase with ⟨h1, _⟩ | ⟨_, h2, _⟩
            · simp [hg'] at h1
            · simp [ho'] at h2
          | succ n =>
            have hall' : ∀ j, j < n → gt (clk (i + 1 + j)) abs = false ∧ out (i + 1 + j + 1) = false := by
              intro j hj
              have := hall (j + 1) (by omega)
              rw [show i + (j + 1) = i + 1 + j by omega] at this
              exact this
            rw [show i + (n + 1) = i + 1 + n by omega] at hcase
            rcases hcase with ⟨h1, h2, h3⟩ | ⟨h1, h2, h3, h4⟩
            · refine ⟨(r, timedTrace clk lastTimeout (i + 1) n), (ih (i + 1) _ _).mpr ⟨n, by omega, hall', Or.inl ⟨h1, h2, rfl⟩⟩, ?_⟩
              simp [h3, timedTrace]
            · refine ⟨(r, timedTrace clk lastSuccess (i + 1) n), (ih (i + 1) _ _).mpr ⟨n, by omega, hall', Or.inr ⟨h1, h2, h3, rfl⟩⟩, ?_⟩
              simp [h4, timedTrace]

theorem timedTrace_Sep (clk : Clock) (last : Ts → List Ev) (hl : ∀ t, Sep (last t)) (i n : Nat) :
    Sep (timedTrace clk last i n) := by
  induction n generalizing i with
  | zero => exact hl _
  | succ n ih => exact Sep_clock_attempt_yield (ih (i + 1))

theorem lastTimeout_Sep (t : Ts) : Sep (lastTimeout t) := Sep_single _
theorem lastSuccess_Sep (t : Ts) : Sep (lastSuccess t) := Sep_clock_attempt _ _

theorem mem_timedTrace_timeout (clk : Clock) (i n : Nat) :
    Ev.clock (clk (i + n)) ∈ timedTrace clk lastTimeout i n := by
  induction n generalizing i with
  | zero => simp [timedTrace, lastTimeout]
  | succ n ih =>
    simp only [timedTrace, List.mem_cons]
    right; right; right
    have := ih (i + 1)
    rwa [show i + 1 + n = i + (n + 1) by omega] at this

theorem timedTrace_timeout_no_success (clk : Clock) (i n : Nat) :
    Ev.attempt true ∉ timedTrace clk lastTimeout i n := by
  induction n generalizing i with
  | zero => simp [timedTrace, lastTimeout]
  | succ n ih => simp [timedTrace, ih]

theorem timedTrace_success_mem (clk : Clock) (i n : Nat) :
    Ev.attempt true ∈ timedTrace clk lastSuccess i n := by
  induction n generalizing i with
  | zero => simp [timedTrace, lastSuccess]
  | succ n ih => simp [timedTrace, ih]

/-! ### unfoldings of the top-level functions -/

/-- unfolding of a successful nanosleep: valid request, and the loop broke at the first reading
    `1 + n` that is `gt` the computed wake-up time (helper for the theorems below) -/
theorem nanosleep_ok (req : Ts) (clk : Clock) (fuel : Nat) (tr : List Ev) :
    nanosleep req clk fuel = some (Rc.ok, tr) ↔
      (0 ≤ req.sec ∧ Norm req) ∧ ∃ n, n < fuel ∧ gt (clk (1 + n)) (add (clk 0) req) = true ∧
        (∀ j, j < n → gt (clk (1 + j)) (add (clk 0) req) = false) ∧
        tr = Ev.clock (clk 0) :: sleepTrace clk 1 n := by
  unfold nanosleep nanosleepWith Norm NS
  by_cases h1 : req.sec < 0
  · simp [h1]; omega
  · by_cases h2 : req.nsec < 0
    · simp [h1, h2]; omega
    · by_cases h3 : req.nsec > 999999999
      · simp [h1, h2, h3]; omega
      · simp only [h1, h2, h3, if_false, Option.map_eq_some_iff, Prod.mk.injEq, true_and]
        constructor
        · rintro ⟨tr', h, rfl⟩
          obtain ⟨n, hn, hg, hall, rfl⟩ := (sleepLoop_some _ clk fuel 1 tr').mp h
          exact ⟨by omega, n, hn, hg, hall, rfl⟩
        · rintro ⟨_, n, hn, hg, hall, rfl⟩
          exact ⟨_, (sleepLoop_some _ clk fuel 1 _).mpr ⟨n, hn, hg, hall, rfl⟩, rfl⟩

/-- exact unfolding of a finished timed operation (helper) -/
theorem timed_some (code : Rc) (abs : Ts) (clk : Clock) (out : Nat → Bool) (fuel : Nat) (r : Rc) (tr : List Ev) :
    timed code abs clk out fuel = some (r, tr) ↔
      (out 0 = true ∧ r = Rc.ok ∧ tr = [Ev.attempt true]) ∨
      (out 0 = false ∧ ∃ n, n < fuel ∧ (∀ j, j < n → gt (clk j) abs = false ∧ out (j + 1) = false) ∧
        ((gt (clk n) abs = true ∧ r = code ∧ tr = Ev.attempt false :: timedTrace clk lastTimeout 0 n) ∨
         (gt (clk n) abs = false ∧ out (n + 1) = true ∧ r = Rc.ok ∧
            tr = Ev.attempt false :: timedTrace clk lastSuccess 0 n))) := by
  unfold timed
  by_cases h0 : out 0 = true
  · simp only [h0, if_true, Option.some.injEq, Prod.mk.injEq, true_and, Bool.true_eq_false, false_and, or_false]
    constructor
    · rintro ⟨rfl, rfl⟩; exact ⟨rfl, rfl⟩
    · rintro ⟨rfl, rfl⟩; exact ⟨rfl, rfl⟩
  · have h0' : out 0 = false := by simpa using h0
    simp only [h0', Bool.false_eq_true, if_false, false_and, false_or, true_and, Option.map_eq_some_iff]
    constructor
    · rintro ⟨⟨r', tr'⟩, h, heq⟩
      simp only [Prod.mk.injEq] at heq
      obtain ⟨rfl, rfl⟩ := heq
      obtain ⟨n, hn, hall, hcase⟩ := (timedLoop_some code abs clk out fuel 0 r' tr').mp h
      simp only [Nat.zero_add] at hall hcase
      refine ⟨n, hn, hall, ?_⟩
      rcases hcase with ⟨a, b, c⟩ | ⟨a, b, c, d⟩
      · exact Or.inl ⟨a, b, by rw [c]⟩
      · exact Or.inr ⟨a, b, c, by rw [d]⟩
    · rintro ⟨n, hn, hall, hcase⟩
      rcases hcase with ⟨a, b, c⟩ | ⟨a, b, c, d⟩
      · refine ⟨(r, timedTrace clk lastTimeout 0 n), (timedLoop_some code abs clk out fuel 0 _ _).mpr ⟨n, hn, ?_, Or.inl ⟨?_, b, rfl⟩⟩, by simp [c]⟩
        · simpa using hall
        · simpa using a
      · refine ⟨(r, timedTrace clk lastSuccess 0 n), (timedLoop_some code abs clk out fuel 0 _ _).mpr ⟨n, hn, ?_, Or.inr ⟨?_, ?_, c, rfl⟩⟩, by simp [d]⟩
        · simpa using hall
        · simpa using a
        · simpa using b

end MythVerif.Time
