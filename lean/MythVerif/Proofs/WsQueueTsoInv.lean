import MythVerif.Model.WsQueueTso
import MythVerif.Basic.Run
import Lean
/-! Inductive invariant of the x86-TSO machine of `Model/WsQueueTso.lean` with the fences of the
    source (`FenceCfg.code`).  Shape of the proof (DESIGN A.3): every pop and every locked section
    contains a fence and push starts with one (`myth_rbarrier` = `xchg`), so the owner's buffer is
    one of finitely many shapes determined by its program counter – `[]`, `[top lt]`,
    `[ptr (lt-1) e, top lt]` for a finished push, those followed by `[top t]` inside pop, … –
    a thief's buffer is `[]` except for its one pending `base` store, and a base-side insertion
    (put by the owner, trypass by anybody else; both under the lock) has its slot store and its
    inserting `base` store pending, or the latter, or none.  The clauses list the
    shapes together with what memory looks like in each. -/
namespace MythVerif.WsqTso
open MythVerif.Wsq

def ownerLocked : OPc → Bool
  | .po4 _ | .po5 _ _ | .po5b _ _ | .po6 _ | .po7 | .po8 | .po9 => true
  | .po5c _ _ | .po5d _ => true
  | .assertFail | .cl1 | .cl2 | .cl3 => true
  | .stuckL | .pt1 _ | .pt6 _ | .pt7 _ _ | .pt8 _ _ | .pt9 => true
  | .stuck | .pub _ | .pum _ _ | .pus _ _ | .puv _ _ | .pux _ _ | .pt2 _ | .pt3 _ _ | .pt4 _ _ | .pt5 _ _ => true
  | _ => false

def thiefLocked : TPc → Bool
  | .tk1 | .tkf _ | .tk2 _ | .tk3 _ _ | .tk4 _ | .tk5 _ | .tk6 => true
  | .tp1 _ | .tp1b _ | .tp2 _ _ | .tp3 _ | .tp4 _ => true
  | .wk1 | .wkf _ | .wk2 _ | .wk3 _ | .wkd _ _ | .wk4 _ | .wk4u _ | .wk5 _ | .wk6 => true
  | .vc1 | .vk1 | .vkf _ | .vk2 _ | .vk3 _ | .vk4 _ _ | .vk5 _ | .vu => true
  | _ => false

/-- the owner is between operations or at the start of one: its buffer may still hold the
    stores of the last push -/
def carry : OPc → Bool
  | .idle | .pu0 _ | .pu0f _ _ | .pq | .po1 | .ptl _ | .cll => true
  | _ => false

/-- program counters at which a thief / passer may have buffered stores -/
def mayBuf : TPc → Bool
  | .tkf _ | .tk6 | .tp3 _ | .tp4 _ => true
  | .wkf _ | .wk6 | .wk4u _ | .vkf _ | .vk5 _ | .vu => true
  | _ => false

/-- lock-holding program counters of a thief at which no increment of `base` is pending or visible -/
def notTrans : TPc → Bool
  | .tk1 | .tk3 _ _ | .tk4 _ => true
  | .tp1 _ | .tp1b _ | .tp2 _ _ | .tp3 _ | .tp4 _ => true
  | .wk1 | .wk4 _ | .wk4u _ | .vc1 | .vk1 => true
  | _ => false

/-- the reset path and the part of a locked section that follows a re-centring `memmove`: memory
    `top` / `base` lag behind the ghosts until the buffer has drained (at the latest at the unlock
    fence); the memory-side window is complete there (nobody else may look) -/
def resetting : OPc → Bool
  | .po8 | .po9 | .cl2 | .cl3 => true
  | .pus _ _ | .puv _ _ | .pux _ _ | .pt4 _ _ | .pt5 _ _ | .pt6 _ | .pt7 _ _ | .pt8 _ _ | .pt9 => true
  | _ => false

/-- the owner has stored the decremented `top` of a pop and has neither committed the fast path
    nor taken the lock yet -/
def popWin : OPc → Bool
  | .pof _ | .po2 _ | .pol _ => true
  | _ => false

def ownerFlight : OPc → Bool
  | .po3 _ _ | .po5 _ _ | .po5b _ _ | .po6 _ | .po5c _ _ | .po5d _ => true
  | _ => false

def thiefFlight : TPc → Bool
  | .tk3 _ _ | .tk4 _ | .wk4 _ | .wk4u _ => true
  | _ => false

/-! Buffer shapes.  They are functions of the fields they mention (not of the state) and are kept
    folded during the routine part of the proofs, so that the automation does not case-split on
    them where they are irrelevant. -/

/-- owner between operations: nothing pending, or the `top` store of the last push, or both its stores -/
def CarryShape (bufO : List Sto) (top lt : Int) (ptr : Int → Option Elem) (A : List Elem) : Prop :=
  (bufO = [] ∧ top = lt) ∨
  (bufO = [.top lt] ∧ top = lt - 1 ∧ A ≠ [] ∧ ptr (lt - 1) = A.getLast?) ∨
  (∃ e, bufO = [.ptr (lt - 1) (some e), .top lt] ∧ top = lt - 1 ∧ A.getLast? = some e)

def Pu2Shape (bufO : List Sto) (ptr : Int → Option Elem) (e : Elem) (t : Int) : Prop :=
  (bufO = [] ∧ ptr t = some e) ∨ bufO = [.ptr t (some e)]

/-- after pop's store of `top` and before its fence: a carry shape followed by `top t` -/
def PofShape (bufO : List Sto) (top : Int) (ptr : Int → Option Elem) (A : List Elem) (t : Int) : Prop :=
  (bufO = [.top t] ∧ top = t + 1) ∨ (bufO = [] ∧ top = t ∧ (A ≠ [] → ptr t = A.getLast?)) ∨
  (bufO = [.top (t + 1), .top t] ∧ top = t ∧ A ≠ [] ∧ ptr t = A.getLast?) ∨
  (∃ e, bufO = [.ptr t (some e), .top (t + 1), .top t] ∧ top = t ∧ A.getLast? = some e)

def Po5cShape (bufO : List Sto) (lt : Int) : Prop := bufO = [] ∨ bufO = [.ptr lt none]

def Po6Shape (bufO : List Sto) (lt : Int) : Prop :=
  bufO = [] ∨ bufO = [.ptr lt none] ∨ bufO = [.ptr lt none, .cache none] ∨ bufO = [.cache none]

def Po8Shape (bufO : List Sto) (top h : Int) : Prop := bufO = [.top h] ∨ (bufO = [] ∧ top = h)

def Po9Shape (bufO : List Sto) (top base h : Int) : Prop :=
  bufO = [.top h, .base h] ∨ (bufO = [.base h] ∧ top = h) ∨ (bufO = [] ∧ top = h ∧ base = h)

/-- a base-side insertion after its program-order store of `base`: slot store and inserting `base`
    store buffered, or the slot store drained, or both drained (then the element is in `A`) -/
def InsShape (buf : List Sto) (ptr : Int → Option Elem) (lb : Int) : Prop :=
  (∃ e, buf = [.ptr (lb - 1) (some e), .baseI (lb - 1) e]) ∨
  (∃ e, buf = [.baseI (lb - 1) e] ∧ ptr (lb - 1) = some e) ∨ buf = []

/-- after the `memmove` of a re-centring: the shift entry is buffered (`sh` = its offset, memory
    and ghosts still at the old place) or drained (ghosts moved, memory `top` / `base` lag by `off`) -/
def Rc1Shape (buf : List Sto) (top base lb lt sh off : Int) : Prop :=
  (buf = [.shift lb lt off] ∧ sh = off ∧ top = lt ∧ base = lb) ∨
  (buf = [] ∧ sh = 0 ∧ top = lt - off ∧ base = lb - off)

/-- after `q->top += offset` -/
def Rc2Shape (buf : List Sto) (top base lb lt sh off : Int) : Prop :=
  (buf = [.shift lb lt off, .top (lt + off)] ∧ sh = off ∧ base = lb) ∨
  (buf = [.top lt] ∧ sh = 0 ∧ base = lb - off) ∨
  (buf = [] ∧ sh = 0 ∧ top = lt ∧ base = lb - off)

/-- after `q->base += offset`: what is left of the three entries of a re-centring, followed by the
    stores `suf` issued since (`lb + sh`, `lt + sh` are the owner's view of `base`, `top`) -/
def RcPre (buf suf : List Sto) (top lb lt sh : Int) : Prop :=
  buf = .shift lb lt sh :: .top (lt + sh) :: .base (lb + sh) :: suf ∨
  (buf = .top lt :: .base lb :: suf ∧ sh = 0) ∨
  (buf = .base lb :: suf ∧ sh = 0 ∧ top = lt)

/-- a re-centring (if any) in the buffer or completely drained, nothing issued since -/
def RcShape (buf : List Sto) (top base lb lt sh : Int) : Prop :=
  RcPre buf [] top lb lt sh ∨ (buf = [] ∧ sh = 0 ∧ top = lt ∧ base = lb)

/-- clear after its store of `base` -/
def Cl2Shape (bufO : List Sto) (base h : Int) : Prop := bufO = [.base h] ∨ (bufO = [] ∧ base = h)

/-- clear after its store of `top` -/
def Cl3Shape (bufO : List Sto) (top base h : Int) : Prop :=
  bufO = [.base h, .top h] ∨ (bufO = [.top h] ∧ base = h) ∨ (bufO = [] ∧ top = h ∧ base = h)

/-- a thief's increment of `base` is buffered (not visible: `tr = false`) or drained (`tr = true`) -/
def TkfShape (buf : List Sto) (tr : Bool) (b : Int) : Prop :=
  (buf = [.base (b + 1)] ∧ tr = false) ∨ (buf = [] ∧ tr = true)

/-- a thief's roll-back of `base` is buffered (`tr` still true) or drained -/
def Tk6Shape (buf : List Sto) (tr : Bool) (lb : Int) : Prop :=
  (buf = [.base lb] ∧ tr = true) ∨ (buf = [] ∧ tr = false)

/-- wsapi take after its store of the cache word -/
def Wk4uShape (buf : List Sto) : Prop := buf = [.cache none] ∨ buf = []

/-- wsapi peek before the roll-back of `base`: the store of the cache word may be pending -/
def Vk5Shape (buf : List Sto) : Prop := buf = [] ∨ ∃ r, buf = [.cache r]

/-- wsapi peek before its unlock: cache word and roll-back pending, or the roll-back, or nothing -/
def VuShape (buf : List Sto) (tr : Bool) (lb : Int) : Prop :=
  (∃ r, buf = [.cache r, .base lb] ∧ tr = true) ∨ (buf = [.base lb] ∧ tr = true) ∨ (buf = [] ∧ tr = false)

structure Inv (s : St) : Prop where
  cfg   : s.cfg = FenceCfg.code
  lockO : s.lock = .owner ↔ ownerLocked s.opc = true
  lockT : ∀ p, s.lock = .thief p ↔ thiefLocked (s.tpc p) = true
  len   : (s.A.length : Int) = s.lt - s.lb
  /-- memory-side window: what a thief may read (indices below the memory value of `top`) -/
  mwin  : ∀ k : Nat, k < s.A.length → (s.lb + k < s.top ∨ resetting s.opc = true) → s.ptr (s.lb + k) = s.A[k]?
  shz   : resetting s.opc = false → s.sh = 0
  mtop  : resetting s.opc = false → s.top ≤ s.lt
  lbase : resetting s.opc = false → s.base = s.lb + (if s.tr = true then 1 else 0)
  trn   : s.tr = true → ∃ p, s.lock = .thief p
  trF   : ∀ p, s.lock = .thief p → notTrans (s.tpc p) = true → s.tr = false
  flOn  : ownerFlight s.opc = false → s.flO = none
  flTn  : s.flT ≠ none → ∃ p, s.lock = .thief p ∧ thiefFlight (s.tpc p) = true
  -- owner
  carryC : carry s.opc = true → CarryShape s.bufO s.top s.lt s.ptr s.A
  pu0f  : ∀ e t, s.opc = .pu0f e t → t = s.lt
  stuck : s.opc = .stuck → s.bufO = [] ∧ s.top = s.lt ∧ s.lt = s.size ∧ s.lb = 0
  pul   : ∀ e, s.opc = .pul e → s.bufO = [] ∧ s.top = s.lt ∧ s.lt = s.size
  pub   : ∀ e, s.opc = .pub e → s.bufO = [] ∧ s.top = s.lt ∧ s.lt = s.size
  pum   : ∀ e off, s.opc = .pum e off → s.bufO = [] ∧ s.top = s.lt
  pus   : ∀ e off, s.opc = .pus e off → Rc1Shape s.bufO s.top s.base s.lb s.lt s.sh off
  puv   : ∀ e off, s.opc = .puv e off → Rc2Shape s.bufO s.top s.base s.lb s.lt s.sh off
  pux   : ∀ e t, s.opc = .pux e t → t = s.lt + s.sh ∧ RcShape s.bufO s.top s.base s.lb s.lt s.sh
  pu1   : ∀ e t, s.opc = .pu1 e t → s.bufO = [] ∧ s.top = s.lt ∧ t = s.lt
  pu2   : ∀ e t, s.opc = .pu2 e t → t = s.lt ∧ s.top = s.lt ∧ Pu2Shape s.bufO s.ptr e t
  pof   : ∀ t, s.opc = .pof t → s.lt = t + 1 ∧ PofShape s.bufO s.top s.ptr s.A t
  po2   : ∀ t, s.opc = .po2 t → s.bufO = [] ∧ s.top = t ∧ s.lt = t + 1 ∧ (s.A ≠ [] → s.ptr t = s.A.getLast?)
  pol   : ∀ t, s.opc = .pol t → s.bufO = [] ∧ s.top = t ∧ s.lt = t + 1 ∧ (s.A ≠ [] → s.ptr t = s.A.getLast?)
  po4   : ∀ t, s.opc = .po4 t → s.bufO = [] ∧ s.top = t ∧ s.lt = t + 1 ∧ (s.A ≠ [] → s.ptr t = s.A.getLast?)
  po3   : ∀ t x, s.opc = .po3 t x → s.bufO = [] ∧ s.top = t ∧ s.lt = t ∧ s.ptr t = some x ∧ s.lb ≤ t ∧ s.flO = some x
  po5   : ∀ t x, s.opc = .po5 t x → s.bufO = [] ∧ s.top = t ∧ s.lt = t ∧ s.ptr t = some x ∧ s.flO = some x
  po5b  : ∀ t r, s.opc = .po5b t r → s.bufO = [] ∧ s.top = t ∧ s.lt = t ∧ r = s.flO
  po5c  : ∀ t r, s.opc = .po5c t r → r = s.flO ∧ s.top = s.lt ∧ Po5cShape s.bufO s.lt
  po5d  : ∀ r, s.opc = .po5d r → r = s.flO ∧ s.top = s.lt ∧ Po5cShape s.bufO s.lt
  po6   : ∀ r, s.opc = .po6 r → r = s.flO ∧ s.top = s.lt ∧ Po6Shape s.bufO s.lt
  po7   : s.opc = .po7 → s.bufO = [] ∧ s.lt = s.lb ∧ s.top = s.lt - 1
  po8   : s.opc = .po8 → s.lt = s.lb ∧ s.lb = s.size / 2 ∧ s.sh = 0 ∧ Po8Shape s.bufO s.top (s.size / 2)
  po9   : s.opc = .po9 → s.lt = s.lb ∧ s.lb = s.size / 2 ∧ s.sh = 0 ∧ Po9Shape s.bufO s.top s.base (s.size / 2)
  stuckL : s.opc = .stuckL → s.bufO = [] ∧ s.top = s.lt ∧ s.lb = 0 ∧ s.lt = s.size
  pt1   : ∀ e, s.opc = .pt1 e → s.bufO = [] ∧ s.top = s.lt
  pt2   : ∀ e, s.opc = .pt2 e → s.bufO = [] ∧ s.top = s.lt ∧ s.lb = 0
  pt3   : ∀ e off, s.opc = .pt3 e off → s.bufO = [] ∧ s.top = s.lt
  pt4   : ∀ e off, s.opc = .pt4 e off → Rc1Shape s.bufO s.top s.base s.lb s.lt s.sh off
  pt5   : ∀ e off, s.opc = .pt5 e off → Rc2Shape s.bufO s.top s.base s.lb s.lt s.sh off
  pt6   : ∀ e, s.opc = .pt6 e → RcShape s.bufO s.top s.base s.lb s.lt s.sh
  pt7   : ∀ e b, s.opc = .pt7 e b → b = s.lb + s.sh ∧ RcShape s.bufO s.top s.base s.lb s.lt s.sh
  pt8   : ∀ e b, s.opc = .pt8 e b → b = s.lb + s.sh ∧
            (RcPre s.bufO [.ptr (b - 1) (some e)] s.top s.lb s.lt s.sh ∨
             (s.sh = 0 ∧ s.top = s.lt ∧ s.base = s.lb ∧ Pu2Shape s.bufO s.ptr e (b - 1)))
  pt9   : s.opc = .pt9 →
            (∃ e, RcPre s.bufO [.ptr (s.lb + s.sh - 1) (some e), .baseI (s.lb + s.sh - 1) e] s.top s.lb s.lt s.sh) ∨
            (s.sh = 0 ∧ s.top = s.lt ∧ s.base = s.lb ∧ InsShape s.bufO s.ptr s.lb)
  -- clear
  asF   : s.opc = .assertFail → s.bufO = [] ∧ s.top = s.lt
  cl1   : s.opc = .cl1 → s.bufO = [] ∧ s.top = s.lt
  cl2   : s.opc = .cl2 → s.lt = s.lb ∧ s.lb = s.size / 2 ∧ s.sh = 0 ∧ Cl2Shape s.bufO s.base (s.size / 2)
  cl3   : s.opc = .cl3 → s.lt = s.lb ∧ s.lb = s.size / 2 ∧ s.sh = 0 ∧ Cl3Shape s.bufO s.top s.base (s.size / 2)
  -- thieves
  tbufE : ∀ p, mayBuf (s.tpc p) = false → s.bufT p = []
  tkf   : ∀ p b, s.tpc p = .tkf b → s.lb = b ∧ TkfShape (s.bufT p) s.tr b
  tk2   : ∀ p b, s.tpc p = .tk2 b → s.lb = b ∧ s.tr = true
  tk5   : ∀ p b, s.tpc p = .tk5 b → s.lb = b ∧ s.tr = true
  tk3   : ∀ p b x, s.tpc p = .tk3 b x → s.lb = b + 1 ∧ s.ptr b = some x ∧ s.flT = some x
  tk4   : ∀ p r, s.tpc p = .tk4 r → r = s.flT
  tk6   : ∀ p, s.tpc p = .tk6 → Tk6Shape (s.bufT p) s.tr s.lb
  tp2   : ∀ p e b, s.tpc p = .tp2 e b → b = s.lb
  tp3   : ∀ p e, s.tpc p = .tp3 e → Pu2Shape (s.bufT p) s.ptr e (s.lb - 1)
  tp4   : ∀ p ok, s.tpc p = .tp4 ok → InsShape (s.bufT p) s.ptr s.lb
  -- wsapi take
  wkf   : ∀ p b, s.tpc p = .wkf b → s.lb = b ∧ TkfShape (s.bufT p) s.tr b
  wk2   : ∀ p b, s.tpc p = .wk2 b → s.lb = b ∧ s.tr = true
  wk3   : ∀ p b, s.tpc p = .wk3 b → s.lb = b ∧ s.tr = true ∧ s.A ≠ [] ∧ s.ptr b = s.A.head? ∧
            (b < s.top ∨ (popWin s.opc = true ∧ s.bufO = []))
  wkd   : ∀ p b r, s.tpc p = .wkd b r → s.lb = b ∧ s.tr = true ∧ s.A ≠ [] ∧ r = s.A.head? ∧
            (b < s.top ∨ (popWin s.opc = true ∧ s.bufO = []))
  wk4   : ∀ p r, s.tpc p = .wk4 r → r = s.flT
  wk4u  : ∀ p r, s.tpc p = .wk4u r → r = s.flT ∧ Wk4uShape (s.bufT p)
  wk5   : ∀ p b, s.tpc p = .wk5 b → s.lb = b ∧ s.tr = true
  wk6   : ∀ p, s.tpc p = .wk6 → Tk6Shape (s.bufT p) s.tr s.lb
  -- wsapi peek
  vkf   : ∀ p b, s.tpc p = .vkf b → s.lb = b ∧ TkfShape (s.bufT p) s.tr b
  vk2   : ∀ p b, s.tpc p = .vk2 b → s.lb = b ∧ s.tr = true
  vk3   : ∀ p b, s.tpc p = .vk3 b → s.lb = b ∧ s.tr = true
  vk4   : ∀ p b r, s.tpc p = .vk4 b r → s.lb = b ∧ s.tr = true
  vk5   : ∀ p b, s.tpc p = .vk5 b → s.lb = b ∧ s.tr = true ∧ Vk5Shape (s.bufT p)
  vu    : ∀ p, s.tpc p = .vu → VuShape (s.bufT p) s.tr s.lb

section ForceAux
open Lean Meta in
run_meta do
  let env ← getEnv
  for f in [``ownerLocked, ``thiefLocked, ``carry, ``popWin, ``mayBuf, ``notTrans, ``resetting, ``ownerFlight, ``thiefFlight,
            ``stepO, ``stepT, ``stepD, ``step, ``applySto, ``viewTop, ``viewBase, ``viewPtr, ``viewCache,
            ``releaseO, ``releaseT] do
    for i in [1, 2, 3, 4, 5, 6, 7, 8] do
      let n := f ++ (Name.mkSimple s!"match_{i}")
      if env.contains n then
        discard <| Match.genMatchCongrEqns n
end ForceAux

end MythVerif.WsqTso
