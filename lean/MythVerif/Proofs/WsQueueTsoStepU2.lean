import MythVerif.Proofs.WsQueueTsoTac
/-! Preservation lemmas of the TSO invariant (owner: put, store of `base` and unlock). -/
namespace MythVerif.WsqTso
open MythVerif.Wsq

set_option maxHeartbeats 1000000 in
theorem o_pt8 (s s' : St) (e b) : Inv s → s.opc = .pt8 e b → stepO s = some s' → Inv s' := by
  intro h heq hs
  cases h
  simp only [stepO, heq] at hs
  simp at hs; subst hs
  simp only [heq, ownerLocked, carry, resetting, ownerFlight] at *
  tso_finish

set_option maxHeartbeats 1000000 in
theorem o_pt9 (s s' : St) : Inv s → s.opc = .pt9 → stepO s = some s' → Inv s' := by
  intro h heq hs
  have hcfg := h.cfg
  cases h
  simp only [stepO, heq, releaseO, hcfg, code_unlockFence, if_true] at hs
  split at hs
  · rename_i hb
    simp at hb
    simp at hs; subst hs
    simp only [heq, ownerLocked, carry, resetting, ownerFlight] at *
    tso_finish
  · simp at hs

end MythVerif.WsqTso
