import MythVerif.Proofs.WsQueueTsoTac
/-! Preservation lemmas of the TSO invariant (owner: put, store of `base` and unlock). -/
namespace MythVerif.WsqTso
open MythVerif.Wsq

theorem o_pt8 (s s' : St) (e b) : Inv s → s.opc = .pt8 e b → stepO s = some s' → Inv s' := by
  intro h heq hs
  obtain ⟨hbeq, hsh⟩ := h.pt8 e b heq
  simp only [stepO, heq] at hs
  simp at hs; subst hs
  tso_coreO h heq [pt8]
  constructor
  all_goals (try simp only [ownerLocked, carry, resetting, ownerFlight, upd_apply, applySto])
  case pt9 =>
    intro _
    subst hbeq
    rcases hsh with hp | ⟨h2, h3, h4, h5⟩
    · exact Or.inl ⟨e, by simpa using rcpre_append _ _ _ _ _ _ (.baseI (s.lb + s.sh - 1) e) hp⟩
    · refine Or.inr ⟨h2, h3, h4, ?_⟩
      rw [h2] at h5 ⊢
      simp only [Int.add_zero] at h5 ⊢
      rcases h5 with ⟨h6, h7⟩ | h6
      · exact Or.inr (Or.inl ⟨e, by simp [h6], h7⟩)
      · exact Or.inl ⟨e, by simp [h6]⟩
  tso_goalsO h heq

theorem o_pt9 (s s' : St) : Inv s → s.opc = .pt9 → stepO s = some s' → Inv s' := by
  intro h heq hs
  have hcfg := h.cfg
  simp only [stepO, heq, releaseO, hcfg, code_unlockFence, if_true] at hs
  split at hs
  · rename_i hb
    simp at hb
    simp at hs; subst hs
    tso_fastO h heq [pt9]
  · simp at hs

end MythVerif.WsqTso
