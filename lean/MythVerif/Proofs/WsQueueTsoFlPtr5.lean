import MythVerif.Proofs.WsQueueTsoTac
/-! Preservation lemmas of the TSO invariant (generated per program counter of the owner): drain of an owner `ptr` store at pt8, pt9. -/
namespace MythVerif.WsqTso
open MythVerif.Wsq

theorem f_O_ptr_pt8 (s : St) (i0 x0) (rest : List Sto) (e b) : Inv s → s.opc = .pt8 e b →
    s.bufO = .ptr i0 x0 :: rest → Inv (applySto { s with bufO := rest } (.ptr i0 x0)) := by
  intro h hpc hb
  simp only [applySto]
  tso_fastO h hpc [pt8]

theorem f_O_ptr_pt9 (s : St) (i0 x0) (rest : List Sto) : Inv s → s.opc = .pt9 →
    s.bufO = .ptr i0 x0 :: rest → Inv (applySto { s with bufO := rest } (.ptr i0 x0)) := by
  intro h hpc hb
  simp only [applySto]
  tso_fastO h hpc [pt9]

end MythVerif.WsqTso
