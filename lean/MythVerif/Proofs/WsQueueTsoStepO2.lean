import MythVerif.Proofs.WsQueueTsoTac
/-! Preservation lemmas of the TSO invariant (owner: pop, up to the fence). -/
namespace MythVerif.WsqTso
open MythVerif.Wsq

theorem o_pq (s s' : St) : Inv s → s.opc = .pq → stepO s = some s' → Inv s' := by
  intro h heq hs
  have hc := h.carryC (by simp [heq, carry])
  have hv := carry_viewTop _ _ _ _ _ hc
  have hv2 := carry_viewBase _ _ _ _ _ s.base hc
  simp only [stepO, heq, hv, hv2] at hs
  split at hs
  all_goals (simp at hs; subst hs)
  all_goals tso_fastO h heq [carryC]

theorem o_po1 (s s' : St) : Inv s → s.opc = .po1 → stepO s = some s' → Inv s' := by
  intro h heq hs
  have hc := h.carryC (by simp [heq, carry])
  have hv := carry_viewTop _ _ _ _ _ hc
  simp only [stepO, heq, hv] at hs
  simp at hs; subst hs
  tso_fastO h heq [carryC]

theorem o_pof (s s' : St) (t) : Inv s → s.opc = .pof t → stepO s = some s' → Inv s' := by
  intro h heq hs
  have hcfg := h.cfg
  simp only [stepO, heq, fenceOk, hcfg, code_popFence] at hs
  split at hs
  · rename_i hb
    simp at hb
    simp at hs; subst hs
    tso_fastO h heq [pof]
  · simp at hs

end MythVerif.WsqTso
