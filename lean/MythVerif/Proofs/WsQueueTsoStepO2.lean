import MythVerif.Proofs.WsQueueTsoTac
/-! Preservation lemmas of the TSO invariant (owner: pop, up to the fence). -/
namespace MythVerif.WsqTso
open MythVerif.Wsq

set_option maxHeartbeats 4000000 in
theorem o_pq (s s' : St) : Inv s → s.opc = .pq → stepO s = some s' → Inv s' := by
  intro h heq hs
  have hc := h.carryC (by simp [heq, carry])
  have hv := carry_viewTop _ _ _ _ _ hc
  have hv2 := carry_viewBase _ _ _ _ _ s.base hc
  cases h
  simp only [stepO, heq, hv, hv2] at hs
  split at hs
  all_goals (simp at hs; subst hs)
  all_goals simp only [heq, ownerLocked, carry, resetting, ownerFlight] at *
  all_goals tso_finish

set_option maxHeartbeats 4000000 in
theorem o_po1 (s s' : St) : Inv s → s.opc = .po1 → stepO s = some s' → Inv s' := by
  intro h heq hs
  have hc := h.carryC (by simp [heq, carry])
  have hv := carry_viewTop _ _ _ _ _ hc
  cases h
  simp only [stepO, heq, hv] at hs
  simp at hs; subst hs
  simp only [heq, ownerLocked, carry, resetting, ownerFlight] at *
  tso_finish

set_option maxHeartbeats 4000000 in
theorem o_pof (s s' : St) (t) : Inv s → s.opc = .pof t → stepO s = some s' → Inv s' := by
  intro h heq hs
  have hcfg := h.cfg
  cases h
  simp only [stepO, heq, fenceOk, hcfg, code_popFence] at hs
  split at hs
  · rename_i hb
    simp at hb
    simp at hs; subst hs
    simp only [heq, ownerLocked, carry, resetting, ownerFlight] at *
    tso_finish
  · simp at hs

end MythVerif.WsqTso
