import MythVerif.Proofs.WsQueueTsoInv
/-! Tactics and small lemmas shared by the per-program-counter preservation lemmas of the TSO machine. -/
namespace MythVerif.WsqTso
open MythVerif.Wsq

@[simp] theorem code_pushRb : FenceCfg.code.pushRb = true := rfl
@[simp] theorem code_popFence : FenceCfg.code.popFence = true := rfl
@[simp] theorem code_takeFence : FenceCfg.code.takeFence = true := rfl
@[simp] theorem code_unlockFence : FenceCfg.code.unlockFence = true := rfl
@[simp] theorem code_wtakeFence : FenceCfg.code.wtakeFence = true := rfl
@[simp] theorem code_wpeekFence : FenceCfg.code.wpeekFence = true := rfl

theorem getLast?_tail_of_length (x : Elem) (A' : List Elem) (h : A' ≠ []) : (x :: A').getLast? = A'.getLast? := by
  cases A' with
  | nil => exact absurd rfl h
  | cons a t => simp [List.getLast?_cons_cons]

theorem dropLast_keep (A : List Elem) (h : 2 ≤ A.length) : A.dropLast ≠ [] ∧ A.dropLast.head? = A.head? := by
  cases A with
  | nil => simp at h
  | cons a t =>
    cases t with
    | nil => simp at h
    | cons b u => simp [List.dropLast]

theorem head?_append_of_ne (A : List Elem) (e : Elem) (h : A ≠ []) : (A ++ [e]).head? = A.head? := by
  cases A with
  | nil => exact absurd rfl h
  | cons a t => simp

theorem carry_viewTop (bufO : List Sto) (top lt : Int) (ptr : Int → Option Elem) (A : List Elem)
    (h : CarryShape bufO top lt ptr A) : viewTop bufO top = lt := by
  rcases h with ⟨h1, h2⟩ | ⟨h1, _⟩ | ⟨e, h1, _⟩ <;> simp [h1, viewTop, *]

theorem carry_viewBase (bufO : List Sto) (top lt : Int) (ptr : Int → Option Elem) (A : List Elem) (base : Int)
    (h : CarryShape bufO top lt ptr A) : viewBase bufO base = base := by
  rcases h with ⟨h1, _⟩ | ⟨h1, _⟩ | ⟨e, h1, _⟩ <;> simp [h1, viewBase]

@[simp] theorem viewTop_nil (m : Int) : viewTop [] m = m := rfl
@[simp] theorem viewBase_nil (m : Int) : viewBase [] m = m := rfl
@[simp] theorem viewPtr_nil (m : Int → Option Elem) (i : Int) : viewPtr [] m i = m i := rfl

theorem carry_tail (bufO : List Sto) (top lt lb : Int) (ptr : Int → Option Elem) (x : Elem) (A' : List Elem)
    (h : CarryShape bufO top lt ptr (x :: A')) (hlen : (((x :: A').length : Nat) : Int) = lt - lb) (hb : lb < top) :
    CarryShape bufO top lt ptr A' := by
  have hne : top = lt - 1 → A' ≠ [] := by
    intro ht hA; subst hA; simp at hlen; omega
  rcases h with ⟨h1, h2⟩ | ⟨h1, h2, _, h4⟩ | ⟨e, h1, h2, h4⟩
  · exact Or.inl ⟨h1, h2⟩
  · refine Or.inr (Or.inl ⟨h1, h2, hne h2, ?_⟩)
    rw [h4, getLast?_tail_of_length x A' (hne h2)]
  · refine Or.inr (Or.inr ⟨e, h1, h2, ?_⟩)
    rw [← h4, getLast?_tail_of_length x A' (hne h2)]

theorem pof_tail (bufO : List Sto) (top lt lb t : Int) (ptr : Int → Option Elem) (x : Elem) (A' : List Elem)
    (h : PofShape bufO top ptr (x :: A') t) (hlt : lt = t + 1)
    (hlen : (((x :: A').length : Nat) : Int) = lt - lb) (hb : lb < top ∨ bufO = []) :
    PofShape bufO top ptr A' t := by
  have hne : top = t → bufO ≠ [] → A' ≠ [] := by
    intro ht hbn hA
    rcases hb with hb | hb
    · subst hA; simp at hlen; omega
    · exact hbn hb
  rcases h with ⟨h1, h2⟩ | ⟨h1, h2, h3⟩ | ⟨h1, h2, _, h4⟩ | ⟨e, h1, h2, h4⟩
  · exact Or.inl ⟨h1, h2⟩
  · refine Or.inr (Or.inl ⟨h1, h2, ?_⟩)
    intro hA'
    rw [h3 (by simp), getLast?_tail_of_length x A' hA']
  · have hA' := hne h2 (by simp [h1])
    refine Or.inr (Or.inr (Or.inl ⟨h1, h2, hA', ?_⟩))
    rw [h4, getLast?_tail_of_length x A' hA']
  · have hA' := hne h2 (by simp [h1])
    refine Or.inr (Or.inr (Or.inr ⟨e, h1, h2, ?_⟩))
    rw [← h4, getLast?_tail_of_length x A' hA']

theorem cl2_viewBase (buf : List Sto) (base h : Int) (hs : Cl2Shape buf base h) : viewBase buf base = h := by
  rcases hs with rfl | ⟨rfl, rfl⟩ <;> simp [viewBase]

theorem rc1_viewTop (buf : List Sto) (top base lb lt sh off : Int) (h : Rc1Shape buf top base lb lt sh off) :
    viewTop buf top = top := by
  rcases h with ⟨h1, _⟩ | ⟨h1, _⟩ <;> simp [h1, viewTop]

theorem rc1_viewBase (buf : List Sto) (top base lb lt sh off : Int) (h : Rc1Shape buf top base lb lt sh off) :
    viewBase buf base = base := by
  rcases h with ⟨h1, _⟩ | ⟨h1, _⟩ <;> simp [h1, viewBase]

theorem rc2_viewTop (buf : List Sto) (top base lb lt sh off : Int) (h : Rc2Shape buf top base lb lt sh off) :
    viewTop buf top = lt + sh := by
  rcases h with ⟨rfl, rfl, _⟩ | ⟨rfl, rfl, _⟩ | ⟨rfl, rfl, rfl, _⟩ <;> simp [viewTop]

theorem rc2_viewBase (buf : List Sto) (top base lb lt sh off : Int) (h : Rc2Shape buf top base lb lt sh off) :
    viewBase buf base = base := by
  rcases h with ⟨h1, _⟩ | ⟨h1, _⟩ | ⟨h1, _⟩ <;> simp [h1, viewBase]

theorem rcshape_viewBase (buf : List Sto) (top base lb lt sh : Int) (h : RcShape buf top base lb lt sh) :
    viewBase buf base = lb + sh := by
  rcases h with (rfl | ⟨rfl, rfl⟩ | ⟨rfl, rfl, _⟩) | ⟨rfl, rfl, _, rfl⟩ <;> simp [viewBase]

theorem rcpre_append (buf suf : List Sto) (top lb lt sh : Int) (x : Sto) (h : RcPre buf suf top lb lt sh) :
    RcPre (buf ++ [x]) (suf ++ [x]) top lb lt sh := by
  rcases h with h1 | ⟨h1, h2⟩ | ⟨h1, h2, h3⟩
  · exact Or.inl (by simp [h1])
  · exact Or.inr (Or.inl ⟨by simp [h1], h2⟩)
  · exact Or.inr (Or.inr ⟨by simp [h1], h2, h3⟩)

/-- the memory-side window after a base-side insertion (drain of an inserting `base` store) -/
theorem mwin_cons (A : List Elem) (ptr : Int → Option Elem) (lb top : Int) (g : Prop) (e : Elem)
    (hmwin : ∀ k : Nat, k < A.length → (lb + k < top ∨ g) → ptr (lb + k) = A[k]?)
    (hp : ptr (lb - 1) = some e) :
    ∀ k : Nat, k < (e :: A).length → (lb - 1 + k < top ∨ g) → ptr (lb - 1 + k) = (e :: A)[k]? := by
  intro k hk hk2
  cases k with
  | zero => simp [hp]
  | succ j =>
    have h1 := hmwin j (by simp at hk; omega) (hk2.elim (fun h => Or.inl (by omega)) Or.inr)
    simp only [List.getElem?_cons_succ]
    rw [← h1]; congr 1; omega

/-- the complete window after the drain of a shift entry -/
theorem mwin_shift (A : List Elem) (ptr : Int → Option Elem) (lb lt off : Int)
    (hlen : (A.length : Int) = lt - lb)
    (hfull : ∀ k : Nat, k < A.length → ptr (lb + k) = A[k]?) :
    ∀ k : Nat, k < A.length → shiftPtr ptr lb lt off (lb + off + k) = A[k]? := by
  intro k hk
  rw [shiftPtr_apply, if_pos (by omega), ← hfull k hk]
  congr 1; omega

/-- while somebody else holds the lock the owner is not on its reset path -/
theorem thief_not_resetting (s : St) (h : Inv s) (p : Pid) (hl : s.lock = .thief p) : resetting s.opc = false := by
  have h0 : ownerLocked s.opc = false := by
    cases ho : ownerLocked s.opc with
    | false => rfl
    | true => have := h.lockO.2 ho; rw [hl] at this; cases this
  cases hpc : s.opc <;> simp [hpc, ownerLocked, resetting] at h0 ⊢

macro "tso_simp_h" : tactic => `(tactic|
  simp only [ownerLocked, carry, resetting, ownerFlight] at *)

macro "tso_finish" : tactic => `(tactic| (
    constructor
    all_goals (try simp only [ownerLocked, carry, resetting, ownerFlight, upd_apply, applySto])
    all_goals (first | assumption | grind [thiefLocked, mayBuf, notTrans, thiefFlight, popWin, List.length_dropLast] | grind [thiefLocked, mayBuf, notTrans, thiefFlight, popWin, List.length_dropLast, getLast?_tail_of_length, head?_append_of_ne, CarryShape, Pu2Shape, PofShape, Po6Shape, Po8Shape, Po9Shape, InsShape, Rc1Shape, Rc2Shape, RcPre, RcShape, Po5cShape, Cl2Shape, Cl3Shape, Wk4uShape, Vk5Shape, VuShape, TkfShape, Tk6Shape] | skip)))

/-- the closing part of `tso_finish`, for proofs that treat some clauses by hand after `constructor` -/
macro "tso_rest" : tactic => `(tactic| (
    all_goals (first | assumption | grind [thiefLocked, mayBuf, notTrans, thiefFlight, popWin, List.length_dropLast] | grind [thiefLocked, mayBuf, notTrans, thiefFlight, popWin, List.length_dropLast, getLast?_tail_of_length, head?_append_of_ne, upd_apply, CarryShape, Pu2Shape, PofShape, Po6Shape, Po8Shape, Po9Shape, InsShape, Rc1Shape, Rc2Shape, RcPre, RcShape, Po5cShape, Cl2Shape, Cl3Shape, Wk4uShape, Vk5Shape, VuShape, TkfShape, Tk6Shape] | skip)))

/-- a store at the head of the owner's buffer that no buffer-shape clause of this program counter allows -/
macro "tso_absurd" : tactic => `(tactic|
  grind [CarryShape, Pu2Shape, PofShape, Po5cShape, Po6Shape, Po8Shape, Po9Shape, InsShape, Rc1Shape, Rc2Shape, RcPre, RcShape, Cl2Shape, Cl3Shape])

/-- like `tso_finish`, with the shapes unfolded at once (flush steps) -/
macro "tso_finish3" : tactic => `(tactic| (
    constructor
    all_goals (try simp only [ownerLocked, carry, resetting, ownerFlight, upd_apply, applySto])
    all_goals (first | assumption | grind [thiefLocked, mayBuf, notTrans, thiefFlight, popWin, List.length_dropLast, getLast?_tail_of_length, head?_append_of_ne, upd_apply, CarryShape, Pu2Shape, PofShape, Po6Shape, Po8Shape, Po9Shape, InsShape, Rc1Shape, Rc2Shape, RcPre, RcShape, Po5cShape, Cl2Shape, Cl3Shape, Wk4uShape, Vk5Shape, VuShape, TkfShape, Tk6Shape] | skip)))

end MythVerif.WsqTso
