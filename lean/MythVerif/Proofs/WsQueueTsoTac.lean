import MythVerif.Proofs.WsQueueTsoInv
/-! Tactics and small lemmas shared by the per-program-counter preservation lemmas of the TSO machine. -/
namespace MythVerif.WsqTso
open MythVerif.Wsq

@[simp] theorem code_pushRb : FenceCfg.code.pushRb = true := rfl
@[simp] theorem code_popFence : FenceCfg.code.popFence = true := rfl
@[simp] theorem code_takeFence : FenceCfg.code.takeFence = true := rfl
@[simp] theorem code_unlockFence : FenceCfg.code.unlockFence = true := rfl
@[simp] theorem code_wtakeFence : FenceCfg.code.wtakeFence = true := rfl
@[simp] theorem code_wpeekFence : FenceCfg.code.wpeekFence = true := rfl

theorem getLast?_tail_of_length (x : Elem) (A' : List Elem) (h : A' ≠ []) : (x :: A').getLast? = A'.getLast? := by
  cases A' with
  | nil => exact absurd rfl h
  | cons a t => simp [List.getLast?_cons_cons]

theorem dropLast_keep (A : List Elem) (h : 2 ≤ A.length) : A.dropLast ≠ [] ∧ A.dropLast.head? = A.head? := by
  cases A with
  | nil => simp at h
  | cons a t =>
    cases t with
    | nil => simp at h
    | cons b u => simp [List.dropLast]

theorem head?_append_of_ne (A : List Elem) (e : Elem) (h : A ≠ []) : (A ++ [e]).head? = A.head? := by
  cases A with
  | nil => exact absurd rfl h
  | cons a t => simp

theorem carry_viewTop (bufO : List Sto) (top lt : Int) (ptr : Int → Option Elem) (A : List Elem)
    (h : CarryShape bufO top lt ptr A) : viewTop bufO top = lt := by
  rcases h with ⟨h1, h2⟩ | ⟨h1, _⟩ | ⟨e, h1, _⟩ <;> simp [h1, viewTop, *]

theorem carry_viewBase (bufO : List Sto) (top lt : Int) (ptr : Int → Option Elem) (A : List Elem) (base : Int)
    (h : CarryShape bufO top lt ptr A) : viewBase bufO base = base := by
  rcases h with ⟨h1, _⟩ | ⟨h1, _⟩ | ⟨e, h1, _⟩ <;> simp [h1, viewBase]

@[simp] theorem viewTop_nil (m : Int) : viewTop [] m = m := rfl
@[simp] theorem viewBase_nil (m : Int) : viewBase [] m = m := rfl
@[simp] theorem viewPtr_nil (m : Int → Option Elem) (i : Int) : viewPtr [] m i = m i := rfl

theorem carry_tail (bufO : List Sto) (top lt lb : Int) (ptr : Int → Option Elem) (x : Elem) (A' : List Elem)
    (h : CarryShape bufO top lt ptr (x :: A')) (hlen : (((x :: A').length : Nat) : Int) = lt - lb) (hb : lb < top) :
    CarryShape bufO top lt ptr A' := by
  have hne : top = lt - 1 → A' ≠ [] := by
    intro ht hA; subst hA; simp at hlen; omega
  rcases h with ⟨h1, h2⟩ | ⟨h1, h2, _, h4⟩ | ⟨e, h1, h2, h4⟩
  · exact Or.inl ⟨h1, h2⟩
  · refine Or.inr (Or.inl ⟨h1, h2, hne h2, ?_⟩)
    rw [h4, getLast?_tail_of_length x A' (hne h2)]
  · refine Or.inr (Or.inr ⟨e, h1, h2, ?_⟩)
    rw [← h4, getLast?_tail_of_length x A' (hne h2)]

theorem pof_tail (bufO : List Sto) (top lt lb t : Int) (ptr : Int → Option Elem) (x : Elem) (A' : List Elem)
    (h : PofShape bufO top ptr (x :: A') t) (hlt : lt = t + 1)
    (hlen : (((x :: A').length : Nat) : Int) = lt - lb) (hb : lb < top ∨ bufO = []) :
    PofShape bufO top ptr A' t := by
  have hne : top = t → bufO ≠ [] → A' ≠ [] := by
    intro ht hbn hA
    rcases hb with hb | hb
    · subst hA; simp at hlen; omega
    · exact hbn hb
  rcases h with ⟨h1, h2⟩ | ⟨h1, h2, h3⟩ | ⟨h1, h2, _, h4⟩ | ⟨e, h1, h2, h4⟩
  · exact Or.inl ⟨h1, h2⟩
  · refine Or.inr (Or.inl ⟨h1, h2, ?_⟩)
    intro hA'
    rw [h3 (by simp), getLast?_tail_of_length x A' hA']
  · have hA' := hne h2 (by simp [h1])
    refine Or.inr (Or.inr (Or.inl ⟨h1, h2, hA', ?_⟩))
    rw [h4, getLast?_tail_of_length x A' hA']
  · have hA' := hne h2 (by simp [h1])
    refine Or.inr (Or.inr (Or.inr ⟨e, h1, h2, ?_⟩))
    rw [← h4, getLast?_tail_of_length x A' hA']

theorem cl2_viewBase (buf : List Sto) (base h : Int) (hs : Cl2Shape buf base h) : viewBase buf base = h := by
  rcases hs with rfl | ⟨rfl, rfl⟩ <;> simp [viewBase]

theorem rc1_viewTop (buf : List Sto) (top base lb lt sh off : Int) (h : Rc1Shape buf top base lb lt sh off) :
    viewTop buf top = top := by
  rcases h with ⟨h1, _⟩ | ⟨h1, _⟩ <;> simp [h1, viewTop]

theorem rc1_viewBase (buf : List Sto) (top base lb lt sh off : Int) (h : Rc1Shape buf top base lb lt sh off) :
    viewBase buf base = base := by
  rcases h with ⟨h1, _⟩ | ⟨h1, _⟩ <;> simp [h1, viewBase]

theorem rc2_viewTop (buf : List Sto) (top base lb lt sh off : Int) (h : Rc2Shape buf top base lb lt sh off) :
    viewTop buf top = lt + sh := by
  rcases h with ⟨rfl, rfl, _⟩ | ⟨rfl, rfl, _⟩ | ⟨rfl, rfl, rfl, _⟩ <;> simp [viewTop]

theorem rc2_viewBase (buf : List Sto) (top base lb lt sh off : Int) (h : Rc2Shape buf top base lb lt sh off) :
    viewBase buf base = base := by
  rcases h with ⟨h1, _⟩ | ⟨h1, _⟩ | ⟨h1, _⟩ <;> simp [h1, viewBase]

theorem rcshape_viewBase (buf : List Sto) (top base lb lt sh : Int) (h : RcShape buf top base lb lt sh) :
    viewBase buf base = lb + sh := by
  rcases h with (rfl | ⟨rfl, rfl⟩ | ⟨rfl, rfl, _⟩) | ⟨rfl, rfl, _, rfl⟩ <;> simp [viewBase]

theorem rcpre_append (buf suf : List Sto) (top lb lt sh : Int) (x : Sto) (h : RcPre buf suf top lb lt sh) :
    RcPre (buf ++ [x]) (suf ++ [x]) top lb lt sh := by
  rcases h with h1 | ⟨h1, h2⟩ | ⟨h1, h2, h3⟩
  · exact Or.inl (by simp [h1])
  · exact Or.inr (Or.inl ⟨by simp [h1], h2⟩)
  · exact Or.inr (Or.inr ⟨by simp [h1], h2, h3⟩)

/-- the memory-side window after a base-side insertion (drain of an inserting `base` store) -/
theorem mwin_cons (A : List Elem) (ptr : Int → Option Elem) (lb top : Int) (g : Prop) (e : Elem)
    (hmwin : ∀ k : Nat, k < A.length → (lb + k < top ∨ g) → ptr (lb + k) = A[k]?)
    (hp : ptr (lb - 1) = some e) :
    ∀ k : Nat, k < (e :: A).length → (lb - 1 + k < top ∨ g) → ptr (lb - 1 + k) = (e :: A)[k]? := by
  intro k hk hk2
  cases k with
  | zero => simp [hp]
  | succ j =>
    have h1 := hmwin j (by simp at hk; omega) (hk2.elim (fun h => Or.inl (by omega)) Or.inr)
    simp only [List.getElem?_cons_succ]
    rw [← h1]; congr 1; omega

/-- the complete window after the drain of a shift entry -/
theorem mwin_shift (A : List Elem) (ptr : Int → Option Elem) (lb lt off : Int)
    (hlen : (A.length : Int) = lt - lb)
    (hfull : ∀ k : Nat, k < A.length → ptr (lb + k) = A[k]?) :
    ∀ k : Nat, k < A.length → shiftPtr ptr lb lt off (lb + off + k) = A[k]? := by
  intro k hk
  rw [shiftPtr_apply, if_pos (by omega), ← hfull k hk]
  congr 1; omega

/-- while somebody else holds the lock the owner is not on its reset path -/
theorem thief_not_resetting (s : St) (h : Inv s) (p : Pid) (hl : s.lock = .thief p) : resetting s.opc = false := by
  have h0 : ownerLocked s.opc = false := by
    cases ho : ownerLocked s.opc with
    | false => rfl
    | true => have := h.lockO.2 ho; rw [hl] at this; cases this
  cases hpc : s.opc <;> simp [hpc, ownerLocked, resetting] at h0 ⊢

/-! ### Small-context automation
    Destructing the whole invariant (`cases h`) puts ≈130 hypotheses in front of every `grind` call
    and makes every clause of the new state a separate `grind` problem over all of them.  The
    tactics below keep `h : Inv s` folded: `inv_core` adds the handful of global clauses (lock
    discipline, `len`, `lbase`, `mtop`, `shz`, `trn`, `trF`) plus the clauses named by the caller
    (normally the clause of the current program counter); after `constructor`, `inv_pick` adds to
    each goal only the OLD version of the clause being proved.  Unchanged clauses then close by
    `exact`, clauses of other program counters by constructor mismatch, clauses quantified over
    the participants by a case split on the stepping participant, and only the few clauses the step
    really touches go to `grind` – with a context of a dozen hypotheses. -/
section FastTactics
open Lean Elab Tactic Meta

/-- `inv_core h [f1, f2, …]`: add the global clauses of `h : Inv s` and the listed clauses to the context -/
elab "inv_core " h:ident " [" fs:ident,* "]" : tactic => withMainContext do
  let g ← getMainGoal
  let hExpr ← elabTerm h none
  let mut names : Array Name := #[`cfg, `lockO, `lockT, `len, `lbase, `mtop, `shz, `trn, `trF]
  for f in fs.getElems do
    let n := f.getId.eraseMacroScopes
    unless names.contains n do names := names.push n
  let mut g := g
  for f in names do
    let projName := ``Inv ++ f
    if (← getEnv).contains projName then
      let pf ← mkAppM projName #[hExpr]
      let ty ← inferType pf
      let g' ← g.assert (Name.mkSimple ("hc_" ++ f.toString)) ty pf
      let (_, g'') ← g'.intro1P
      g := g''
  replaceMainGoal [g]

/-- on a goal produced by `constructor` on `Inv s'` (its tag ends in the field name `F`): add the old
    clause `h.F` as the newest hypothesis -/
elab "inv_pick " h:ident : tactic => withMainContext do
  let g ← getMainGoal
  let tag ← g.getTag
  let fld := match tag with
    | .str _ s => Name.mkSimple s
    | _ => Name.anonymous
  let hExpr ← elabTerm h none
  let pf ← mkAppM (``Inv ++ fld) #[hExpr]
  let ty ← inferType pf
  let g' ← g.assert `hold ty pf
  let (_, g'') ← g'.intro1
  replaceMainGoal [g'']

end FastTactics

/-- the goals left after `constructor` (owner-side step or drain; `hpc : s.opc = …`) -/
macro "tso_goalsO " h:ident hpc:ident : tactic => `(tactic| (
    all_goals (inv_pick $h; rename_i hold)
    all_goals (first | exact hold | (
      (try simp only [$hpc:ident, ownerLocked, carry, resetting, ownerFlight, upd_apply, applySto] at hold ⊢)
      first | assumption | (intros; contradiction) | grind [thiefLocked, mayBuf, notTrans, thiefFlight, popWin, List.length_dropLast] | grind [thiefLocked, mayBuf, notTrans, thiefFlight, popWin, List.length_dropLast, getLast?_tail_of_length, head?_append_of_ne, upd_apply, CarryShape, Pu2Shape, PofShape, Po6Shape, Po8Shape, Po9Shape, InsShape, Rc1Shape, Rc2Shape, RcPre, RcShape, Po5cShape, Cl2Shape, Cl3Shape, Wk4uShape, Vk5Shape, VuShape, TkfShape, Tk6Shape] | (cases $h:ident; (try simp only [$hpc:ident, ownerLocked, carry, resetting, ownerFlight, upd_apply, applySto] at *); grind [thiefLocked, mayBuf, notTrans, thiefFlight, popWin, List.length_dropLast, getLast?_tail_of_length, head?_append_of_ne, upd_apply, CarryShape, Pu2Shape, PofShape, Po6Shape, Po8Shape, Po9Shape, InsShape, Rc1Shape, Rc2Shape, RcPre, RcShape, Po5cShape, Cl2Shape, Cl3Shape, Wk4uShape, Vk5Shape, VuShape, TkfShape, Tk6Shape]) | skip))))

/-- the goals left after `constructor` (step or drain of participant `p`) -/
macro "tso_goalsT " h:ident p:ident : tactic => `(tactic| (
    all_goals (inv_pick $h; rename_i hold)
    all_goals (first | exact hold | (
      (try simp only [ownerLocked, carry, resetting, ownerFlight, upd_apply, applySto] at hold ⊢)
      first | assumption | (intros; contradiction) | (intro q; if hq : q = $p then (subst hq; simp only [if_true]; intros; contradiction) else (simp only [if_neg hq]; exact hold q)) | grind [thiefLocked, mayBuf, notTrans, thiefFlight, popWin, List.length_dropLast] | grind [thiefLocked, mayBuf, notTrans, thiefFlight, popWin, List.length_dropLast, getLast?_tail_of_length, head?_append_of_ne, upd_apply, CarryShape, Pu2Shape, PofShape, Po6Shape, Po8Shape, Po9Shape, InsShape, Rc1Shape, Rc2Shape, RcPre, RcShape, Po5cShape, Cl2Shape, Cl3Shape, Wk4uShape, Vk5Shape, VuShape, TkfShape, Tk6Shape] | (cases $h:ident; (try simp only [ownerLocked, carry, resetting, ownerFlight, upd_apply, applySto] at *); grind [thiefLocked, mayBuf, notTrans, thiefFlight, popWin, List.length_dropLast, getLast?_tail_of_length, head?_append_of_ne, upd_apply, CarryShape, Pu2Shape, PofShape, Po6Shape, Po8Shape, Po9Shape, InsShape, Rc1Shape, Rc2Shape, RcPre, RcShape, Po5cShape, Cl2Shape, Cl3Shape, Wk4uShape, Vk5Shape, VuShape, TkfShape, Tk6Shape]) | skip))))

/-- the names `inv_core` gives to the clauses it adds -/
def coreIdents (fs : Array Lean.Syntax) : Array Lean.Ident :=
  let base : Array Lean.Name := #[`lockO, `lbase, `mtop, `shz]
  let extra := (fs.map (·.getId)).filter (fun n => !base.contains n && !#[`cfg, `lockT, `len, `trn, `trF].contains n)
  (base ++ extra).map fun n => Lean.mkIdent (Lean.Name.mkSimple ("hc_" ++ n.toString))

/-- complete preservation proof of an owner-side step: `h : Inv s` folded, `hpc : s.opc = …`;
    the listed clauses must be fields of `Inv` -/
macro "tso_fastO " h:ident hpc:ident " [" fs:ident,* "]" : tactic => do
  let ids := coreIdents fs.getElems
  `(tactic| (
    inv_core $h [$fs,*]
    (try simp only [$hpc:ident, ownerLocked, carry, resetting, ownerFlight] at $ids:ident*)
    constructor
    tso_goalsO $h $hpc))

/-- complete preservation proof of a step of participant `p` -/
macro "tso_fastT " h:ident p:ident " [" fs:ident,* "]" : tactic => do
  let ids := coreIdents fs.getElems
  `(tactic| (
    inv_core $h [$fs,*]
    (try simp only [ownerLocked, carry, resetting, ownerFlight] at $ids:ident*)
    constructor
    tso_goalsT $h $p))

/-- `inv_core` followed by the normalisation of the clauses it added (for proofs that treat some clauses by hand) -/
macro "tso_coreO " h:ident hpc:ident " [" fs:ident,* "]" : tactic => do
  let ids := coreIdents fs.getElems
  `(tactic| (
    inv_core $h [$fs,*]
    (try simp only [$hpc:ident, ownerLocked, carry, resetting, ownerFlight] at $ids:ident*)))

macro "tso_coreT " h:ident " [" fs:ident,* "]" : tactic => do
  let ids := coreIdents fs.getElems
  `(tactic| (
    inv_core $h [$fs,*]
    (try simp only [ownerLocked, carry, resetting, ownerFlight] at $ids:ident*)))




/-- a store at the head of the owner's buffer that no buffer-shape clause of this program counter allows -/
macro "tso_absurd" : tactic => `(tactic|
  grind [CarryShape, Pu2Shape, PofShape, Po5cShape, Po6Shape, Po8Shape, Po9Shape, InsShape, Rc1Shape, Rc2Shape, RcPre, RcShape, Cl2Shape, Cl3Shape])

/-- `tso_absurd` with only the owner's buffer-shape clauses in the context (`h : Inv s` folded, `hpc : s.opc = …`) -/
macro "tso_shapes_core " h:ident hpc:ident : tactic => `(tactic| (
  inv_core $h [carryC, stuck, pul, pub, pum, pus, puv, pux, pu1, pu2, pof, po2, pol, po4, po3, po5, po5b, po5c, po5d, po6,
    po7, po8, po9, stuckL, pt1, pt2, pt3, pt4, pt5, pt6, pt7, pt8, pt9, asF, cl1, cl2, cl3]
  simp only [$hpc:ident, ownerLocked, carry, resetting, ownerFlight] at *
  tso_absurd))

macro "tso_absurd_core " h:ident hpc:ident : tactic => `(tactic| (exfalso; tso_shapes_core $h $hpc))


end MythVerif.WsqTso
