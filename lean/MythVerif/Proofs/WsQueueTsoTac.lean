import MythVerif.Proofs.WsQueueTsoInv
/-! Tactics and small lemmas shared by the per-program-counter preservation lemmas of the TSO machine. -/
namespace MythVerif.WsqTso
open MythVerif.Wsq

@[simp] theorem code_pushRb : FenceCfg.code.pushRb = true := rfl
@[simp] theorem code_popFence : FenceCfg.code.popFence = true := rfl
@[simp] theorem code_takeFence : FenceCfg.code.takeFence = true := rfl
@[simp] theorem code_unlockFence : FenceCfg.code.unlockFence = true := rfl

theorem getLast?_tail_of_length (x : Elem) (A' : List Elem) (h : A' ≠ []) : (x :: A').getLast? = A'.getLast? := by
  cases A' with
  | nil => exact absurd rfl h
  | cons a t => simp [List.getLast?_cons_cons]

theorem carry_viewTop (bufO : List Sto) (top lt : Int) (ptr : Int → Option Elem) (A : List Elem)
    (h : CarryShape bufO top lt ptr A) : viewTop bufO top = lt := by
  rcases h with ⟨h1, h2⟩ | ⟨h1, _⟩ | ⟨e, h1, _⟩ <;> simp [h1, viewTop, *]

theorem carry_viewBase (bufO : List Sto) (top lt : Int) (ptr : Int → Option Elem) (A : List Elem) (base : Int)
    (h : CarryShape bufO top lt ptr A) : viewBase bufO base = base := by
  rcases h with ⟨h1, _⟩ | ⟨h1, _⟩ | ⟨e, h1, _⟩ <;> simp [h1, viewBase]

@[simp] theorem viewTop_nil (m : Int) : viewTop [] m = m := rfl
@[simp] theorem viewBase_nil (m : Int) : viewBase [] m = m := rfl
@[simp] theorem viewPtr_nil (m : Int → Option Elem) (i : Int) : viewPtr [] m i = m i := rfl

theorem carry_tail (bufO : List Sto) (top lt lb : Int) (ptr : Int → Option Elem) (x : Elem) (A' : List Elem)
    (h : CarryShape bufO top lt ptr (x :: A')) (hlen : (((x :: A').length : Nat) : Int) = lt - lb) (hb : lb < top) :
    CarryShape bufO top lt ptr A' := by
  have hne : top = lt - 1 → A' ≠ [] := by
    intro ht hA; subst hA; simp at hlen; omega
  rcases h with ⟨h1, h2⟩ | ⟨h1, h2, _, h4⟩ | ⟨e, h1, h2, h4⟩
  · exact Or.inl ⟨h1, h2⟩
  · refine Or.inr (Or.inl ⟨h1, h2, hne h2, ?_⟩)
    rw [h4, getLast?_tail_of_length x A' (hne h2)]
  · refine Or.inr (Or.inr ⟨e, h1, h2, ?_⟩)
    rw [← h4, getLast?_tail_of_length x A' (hne h2)]

theorem pof_tail (bufO : List Sto) (top lt lb t : Int) (ptr : Int → Option Elem) (x : Elem) (A' : List Elem)
    (h : PofShape bufO top ptr (x :: A') t) (hlt : lt = t + 1)
    (hlen : (((x :: A').length : Nat) : Int) = lt - lb) (hb : lb < top) :
    PofShape bufO top ptr A' t := by
  have hne : top = t → A' ≠ [] := by
    intro ht hA; subst hA; simp at hlen; omega
  rcases h with ⟨h1, h2⟩ | ⟨h1, h2, h3⟩ | ⟨h1, h2, _, h4⟩ | ⟨e, h1, h2, h4⟩
  · exact Or.inl ⟨h1, h2⟩
  · refine Or.inr (Or.inl ⟨h1, h2, ?_⟩)
    intro hA'
    rw [h3 (by simp), getLast?_tail_of_length x A' hA']
  · refine Or.inr (Or.inr (Or.inl ⟨h1, h2, hne h2, ?_⟩))
    rw [h4, getLast?_tail_of_length x A' (hne h2)]
  · refine Or.inr (Or.inr (Or.inr ⟨e, h1, h2, ?_⟩))
    rw [← h4, getLast?_tail_of_length x A' (hne h2)]

/-- while somebody else holds the lock the owner is not on its reset path -/
theorem thief_not_resetting (s : St) (h : Inv s) (p : Pid) (hl : s.lock = .thief p) : resetting s.opc = false := by
  have h0 : ownerLocked s.opc = false := by
    cases ho : ownerLocked s.opc with
    | false => rfl
    | true => have := h.lockO.2 ho; rw [hl] at this; cases this
  cases hpc : s.opc <;> simp [hpc, ownerLocked, resetting] at h0 ⊢

macro "tso_simp_h" : tactic => `(tactic|
  simp only [ownerLocked, carry, resetting, ownerFlight] at *)

macro "tso_finish" : tactic => `(tactic| (
    constructor
    all_goals (try simp only [ownerLocked, carry, resetting, ownerFlight, upd_apply, applySto])
    all_goals (first | assumption | grind [thiefLocked, mayBuf, notTrans, thiefFlight, List.length_dropLast] | grind [thiefLocked, mayBuf, notTrans, thiefFlight, List.length_dropLast, getLast?_tail_of_length, CarryShape, Pu2Shape, PofShape, Po6Shape, Po8Shape, Po9Shape, InsShape, TkfShape, Tk6Shape] | skip)))

/-- the closing part of `tso_finish`, for proofs that treat some clauses by hand after `constructor` -/
macro "tso_rest" : tactic => `(tactic| (
    all_goals (first | assumption | grind [thiefLocked, mayBuf, notTrans, thiefFlight, List.length_dropLast] | grind [thiefLocked, mayBuf, notTrans, thiefFlight, List.length_dropLast, getLast?_tail_of_length, upd_apply, CarryShape, Pu2Shape, PofShape, Po6Shape, Po8Shape, Po9Shape, InsShape, TkfShape, Tk6Shape] | skip)))

/-- like `tso_finish`, with the shapes unfolded at once (flush steps) -/
macro "tso_finish3" : tactic => `(tactic| (
    constructor
    all_goals (try simp only [ownerLocked, carry, resetting, ownerFlight, upd_apply, applySto])
    all_goals (first | assumption | grind [thiefLocked, mayBuf, notTrans, thiefFlight, List.length_dropLast, getLast?_tail_of_length, upd_apply, CarryShape, Pu2Shape, PofShape, Po6Shape, Po8Shape, Po9Shape, InsShape, TkfShape, Tk6Shape] | skip)))

end MythVerif.WsqTso
