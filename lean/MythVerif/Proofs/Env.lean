import MythVerif.Model.Env
/-! Lemmas about `atoi` and the configuration readers (C15). -/
namespace MythVerif.Env

theorem wrap32_lo (x : Int) : -(2 ^ 31) ≤ wrap32 x := by unfold wrap32; omega
theorem wrap32_hi (x : Int) : wrap32 x < 2 ^ 31 := by unfold wrap32; omega
theorem wrap32_id (x : Int) (h1 : -(2 ^ 31) ≤ x) (h2 : x < 2 ^ 31) : wrap32 x = x := by
  unfold wrap32; omega

theorem atoi_lo (s : CStr) : -(2 ^ 31) ≤ atoi s := wrap32_lo _
theorem atoi_hi (s : CStr) : atoi s < 2 ^ 31 := wrap32_hi _

theorem toSizeT_pos (x : Int) (h1 : 0 < x) (h2 : x < 2 ^ 31) : toSizeT x = x.toNat ∧ 0 < toSizeT x := by
  unfold toSizeT
  have : x % 2 ^ 64 = x := Int.emod_eq_of_lt (by omega) (by omega)
  rw [this]; omega

theorem digitsVal_ge (l : CStr) : ∀ acc, acc ≤ digitsVal l acc := by
  induction l with
  | nil => intro acc; simp [digitsVal]
  | cons c cs ih =>
    intro acc
    simp only [digitsVal]
    split
    · have := ih (acc * 10 + digitVal c); omega
    · exact Nat.le_refl _

/-- all characters are decimal digits -/
def AllDigits (ds : CStr) : Prop := ∀ c ∈ ds, isDigit c = true
/-- the string does not start with a decimal digit -/
def NoDigitHead (r : CStr) : Prop := ∀ c, r.head? = some c → isDigit c = false

theorem digitsVal_append (ds rest : CStr) (hd : AllDigits ds) (hr : NoDigitHead rest) :
    ∀ acc, digitsVal (ds ++ rest) acc = digitsVal ds acc := by
  induction ds with
  | nil =>
    intro acc
    cases rest with
    | nil => rfl
    | cons c cs => have := hr c rfl; simp [digitsVal, this]
  | cons d ds ih =>
    intro acc
    have hd1 : isDigit d = true := hd d (by simp)
    have hd2 : AllDigits ds := fun c hc => hd c (by simp [hc])
    simp only [List.cons_append, digitsVal, hd1, if_true]
    exact ih hd2 _

theorem digitsVal_noDigit (r : CStr) (hr : NoDigitHead r) (acc : Nat) : digitsVal r acc = acc := by
  have := digitsVal_append [] r (by intro c hc; cases hc) hr acc
  simpa [digitsVal] using this

/-- the first character `strtol` looks at after white space and an optional sign -/
def numberStart (s : CStr) : CStr := (signAndDigits s).2

/-- "non-numeric": after white space and an optional sign there is no decimal digit
    (covers the empty string) -/
def NonNumeric (s : CStr) : Prop := NoDigitHead (numberStart s)

theorem strtol_nonNumeric (s : CStr) (h : NonNumeric s) : strtol s = 0 := by
  unfold NonNumeric numberStart at h
  unfold strtol
  have : digitsVal (signAndDigits s).2 0 = 0 := digitsVal_noDigit _ h 0
  cases hs : signAndDigits s with
  | mk neg ds =>
    rw [hs] at this
    simp only [] at this
    simp [this, longMin, longMax]

theorem atoi_nonNumeric (s : CStr) (h : NonNumeric s) : atoi s = 0 := by
  unfold atoi; rw [strtol_nonNumeric s h]; unfold wrap32; omega

theorem nonNumeric_nil : NonNumeric [] := by
  intro c h; simp [numberStart, signAndDigits, skipSpace] at h

theorem isDigit_not_space (c : Char) (h : isDigit c = true) : isSpace c = false := by
  unfold isDigit at h; unfold isSpace
  simp only [Bool.and_eq_true, decide_eq_true_eq] at h
  simp only [Bool.or_eq_false_iff, Bool.and_eq_false_iff, beq_eq_false_iff_ne, decide_eq_false_iff_not]
  omega

theorem isDigit_not_sign (c : Char) (h : isDigit c = true) : c ≠ '-' ∧ c ≠ '+' := by
  unfold isDigit at h
  simp only [Bool.and_eq_true, decide_eq_true_eq] at h
  constructor <;> (intro hc; subst hc; revert h; decide)

/-- a plain decimal number `ds` (digits only, value below 2^31), whatever follows it:
    `atoi` returns its value -/
theorem atoi_digits (ds rest : CStr) (hne : ds ≠ []) (hd : AllDigits ds) (hr : NoDigitHead rest)
    (hv : digitsVal ds 0 < 2 ^ 31) : atoi (ds ++ rest) = digitsVal ds 0 := by
  cases ds with
  | nil => exact absurd rfl hne
  | cons d ds' =>
    have hd1 : isDigit d = true := hd d (by simp)
    have hsp := isDigit_not_space d hd1
    have hsg := isDigit_not_sign d hd1
    have hsd : signAndDigits ((d :: ds') ++ rest) = (false, (d :: ds') ++ rest) := by
      simp [signAndDigits, skipSpace, hsp, hsg.1, hsg.2]
    unfold atoi strtol
    rw [hsd]
    simp only []
    rw [digitsVal_append _ _ hd hr]
    have : ¬ ((digitsVal (d :: ds') 0 : Nat) : Int) > longMax := by unfold longMax; omega
    simp only [Bool.false_eq_true, if_false, this]
    exact wrap32_id _ (by omega) (by omega)

/-! ### readers -/

theorem defStack_pos : 0 < defStack := by decide
theorem defGuard_pos : 0 < defGuard := by decide

theorem stacksize_pos (env : Option CStr) : 0 < stacksize env := by
  unfold stacksize
  cases env with
  | none => simp [defStack_pos]
  | some s =>
    simp only []
    by_cases hx : atoi s > 0
    · have := toSizeT_pos (atoi s) hx (atoi_hi s)
      simp only [hx, if_true]
      split <;> omega
    · simp [hx, defStack_pos]

theorem stacksize_default (s : CStr) (h : atoi s ≤ 0) : stacksize (some s) = defStack := by
  unfold stacksize
  have : ¬ atoi s > 0 := by omega
  simp [this]

theorem stacksize_unset : stacksize none = defStack := by simp [stacksize]

theorem stacksize_value (s : CStr) (h : atoi s > 0) : (stacksize (some s) : Int) = atoi s := by
  unfold stacksize
  have := toSizeT_pos (atoi s) h (atoi_hi s)
  simp only [h, if_true]
  have h2 : ¬ toSizeT (atoi s) ≤ 0 := by omega
  simp only [h2, if_false]
  omega

theorem numWorkers_pos (nw old : Option CStr) (ncpu : Int) (hc : 0 < ncpu) :
    0 < (numWorkers nw old ncpu).1 := by
  unfold numWorkers
  simp only []
  split <;> omega

theorem numWorkers_set (s : CStr) (old : Option CStr) (ncpu : Int) :
    (numWorkers (some s) old ncpu).1 = if atoi s > 0 then atoi s else ncpu := by
  unfold numWorkers
  simp only []
  split <;> split <;> omega

theorem numWorkers_unset (ncpu : Int) : (numWorkers none none ncpu).1 = ncpu := by
  simp [numWorkers]

theorem numWorkers_old (s : CStr) (ncpu : Int) :
    numWorkers none (some s) ncpu = (if atoi s > 0 then atoi s else ncpu, true) := by
  unfold numWorkers
  simp only []
  split <;> split <;> first | rfl | omega

theorem gattrDefault_nw_pos (e : Environ) (ncpu : Int) (hc : 0 < ncpu) :
    0 < (gattrDefault e ncpu).nWorkers := numWorkers_pos _ _ _ hc

end MythVerif.Env
