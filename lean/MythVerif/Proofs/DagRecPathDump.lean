import MythVerif.Proofs.DagRecPathMain
import MythVerif.Proofs.PiDagTreeOrder
/-!
The dependency graph `depGraph t` IS the edge list of the C19 model: for the uncontracted
recording `d` of an execution `t`, the tree form `PiDag.teN` of what `dr_pi_dag_enum_edges` emits
for a dump of `d` is `edgesT t 0` with every position `j` (in program order) renamed to the array
slot `(leavesN d 0 1)[j]` the `j`-th interval occupies in the dump.
-/
namespace MythVerif.DagRec
open MythVerif.PiDag

/-- `σ` maps the positions `o, o+1, …` to the slots `S` -/
def AgreeS (σ : Nat → Nat) (o : Nat) (S : List Nat) : Prop := ∀ j (h : j < S.length), σ (o + j) = S[j]

theorem AgreeS.append {σ : Nat → Nat} {o : Nat} {A B : List Nat} (h : AgreeS σ o (A ++ B)) :
    AgreeS σ o A ∧ AgreeS σ (o + A.length) B := by
  constructor
  · intro j hj
    have := h j (by simp; omega)
    rwa [List.getElem_append_left hj] at this
  · intro j hj
    have := h (A.length + j) (by simp; omega)
    rw [List.getElem_append_right (by omega)] at this
    simpa [Nat.add_assoc] using this

theorem AgreeS.cons {σ : Nat → Nat} {o a : Nat} {S : List Nat} (h : AgreeS σ o (a :: S)) :
    σ o = a ∧ AgreeS σ (o + 1) S := by
  constructor
  · have := h 0 (by simp)
    simpa only [Nat.add_zero, List.getElem_cons_zero] using this
  · intro j hj
    have := h (j + 1) (by simp; omega)
    simpa [Nat.add_assoc, Nat.add_comm 1 j] using this

/-- a policy that never contracts -/
def NoContract (pol : Policy) : Prop := ∀ i ds, pol i ds = .group i ds

theorem noContract_keepAll : NoContract keepAll := fun _ _ => rfl

/-- with all contraction options off (`dr_options` default) `dr_summarize_section_or_task` keeps everything -/
theorem noContract_default (v : Variant) : NoContract (summarize v {}) := by
  intro i ds
  simp [summarize]


theorem rec_ival (v : Variant) (pol : Policy) (k : NKind) (r : Raw) (c : Cursor) :
    (recTree v pol (.ival k r) c).1 = .ival (endInterval k r c) := by
  simp [recTree]

theorem rec_create (v : Variant) (pol : Policy) (r : Raw) (ch : Tree) (c : Cursor) :
    (recTree v pol (.create r ch) c).1 =
      .create (endInterval .createTask r c) (recTree v pol ch (cursorAfter (endInterval .createTask r c) .create)).1 := by
  simp [recTree]

theorem rec_group (v : Variant) (pol : Policy) (hk : NoContract pol) (k : NKind) (f : Forest) (c : Cursor) :
    (recTree v pol (.group k f) c).1 =
      .group (accumulate v k (recForest v pol f c).1.views) (recForest v pol f c).1 := by
  simp [recTree, hk _ _]

theorem rec_cons (v : Variant) (pol : Policy) (x : Tree) (rest : Forest) (c : Cursor) :
    (recForest v pol (.cons x rest) c).1 =
      .cons (recTree v pol x c).1 (recForest v pol rest (recTree v pol x c).2).1 := by
  simp [recForest]

theorem rec_nil (v : Variant) (pol : Policy) (c : Cursor) : (recForest v pol .nil c).1 = .nil := by
  simp [recForest]

theorem rec_isNil (v : Variant) (pol : Policy) (f : Forest) (c : Cursor) : (recForest v pol f c).1.isNil = f.isNil := by
  cases f with
  | nil => simp [rec_nil, DList.isNil, Forest.isNil]
  | cons x r => simp [rec_cons, DList.isNil, Forest.isNil]

theorem wnForest_isNil {b : Bool} {f : Forest} (h : wnForest b f = true) : f.isNil = false := by
  cases f with
  | nil => simp [wnForest] at h
  | cons _ _ => rfl

/-! ### the leaves of the recording are the intervals, in program order -/

mutual
theorem leavesN_rec_length (v : Variant) (pol : Policy) (hk : NoContract pol) : ∀ (x : Tree) (c : Cursor) (idx base : Nat), WnAny x →
    (leavesN (recTree v pol x c).1 idx base).length = (leavesTree x).length
  | .ival k r, c, idx, base, _ => by simp [rec_ival, leavesN, leavesTree]
  | .create r ch, c, idx, base, h => by
    rw [rec_create]
    simp only [leavesN, leavesTree, List.length_cons]
    rw [leavesN_rec_length v pol hk ch _ base (base + 1) (wnAny_of_task (wnAny_create h))]
  | .group k f, c, idx, base, h => by
    obtain ⟨b, hb⟩ := wnAny_group h
    rw [rec_group v pol hk]
    simp only [leavesN, rec_isNil, wnForest_isNil hb, Bool.false_eq_true, if_false, leavesTree]
    exact leavesL_rec_length v pol hk f c base _ b hb
theorem leavesL_rec_length (v : Variant) (pol : Policy) (hk : NoContract pol) : ∀ (f : Forest) (c : Cursor) (k base : Nat) (b : Bool), wnForest b f = true →
    (leavesL (recForest v pol f c).1 k base).length = (leavesForest f).length
  | .nil, _, _, _, _, h => by simp [wnForest] at h
  | .cons x .nil, c, k, base, b, h => by
    simp only [wnForest] at h
    rw [rec_cons, rec_nil]
    simp only [leavesL, leavesForest, List.append_nil]
    exact leavesN_rec_length v pol hk x c k base (wnAny_of_last h)
  | .cons x (.cons y r), c, k, base, b, h => by
    simp only [wnForest, Bool.and_eq_true] at h
    rw [rec_cons, leavesL, leavesForest_cons, List.length_append, List.length_append,
      leavesN_rec_length v pol hk x c k base (wnAny_of_item h.1),
      leavesL_rec_length v pol hk (.cons y r) _ (k + 1) _ b h.2]
end

/-- splitting the slot list of a section's / task's children at the first child -/
theorem AgreeS.split (v : Variant) (pol : Policy) (hk : NoContract pol) {σ : Nat → Nat} {o : Nat} {x : Tree} {rest : Forest} {c : Cursor} {k base : Nat}
    (h : AgreeS σ o (leavesL (recForest v pol (.cons x rest) c).1 k base)) (hx : WnAny x) :
    AgreeS σ o (leavesN (recTree v pol x c).1 k base) ∧
    AgreeS σ (o + (leavesTree x).length)
      (leavesL (recForest v pol rest (recTree v pol x c).2).1 (k + 1) (base + descT (recTree v pol x c).1)) := by
  rw [rec_cons, leavesL] at h
  have := h.append
  rwa [leavesN_rec_length v pol hk x c k base hx] at this

/-! ### first and last interval -/

mutual
theorem firstLast_rec (v : Variant) (pol : Policy) (hk : NoContract pol) (σ : Nat → Nat) : ∀ (x : Tree) (c : Cursor) (idx base o : Nat), WnAny x →
    AgreeS σ o (leavesN (recTree v pol x c).1 idx base) →
    firstN (recTree v pol x c).1 idx base = σ o ∧ lastN (recTree v pol x c).1 idx base = σ (lastT x o)
  | .ival k r, c, idx, base, o, _, ha => by
    rw [rec_ival] at ha ⊢
    simp only [leavesN] at ha
    simp [firstN, lastN, lastT, ha.cons.1]
  | .create r ch, c, idx, base, o, _, ha => by
    rw [rec_create] at ha ⊢
    simp only [leavesN] at ha
    simp [firstN, lastN, lastT, ha.cons.1]
  | .group k f, c, idx, base, o, h, ha => by
    obtain ⟨b, hb⟩ := wnAny_group h
    rw [rec_group v pol hk] at ha ⊢
    simp only [leavesN, rec_isNil, wnForest_isNil hb, Bool.false_eq_true, if_false] at ha
    have := firstLastL_rec v pol hk σ f c base _ o b hb ha
    simp only [firstN, lastN, lastT]
    exact ⟨this.1 idx, this.2 idx o⟩
theorem firstLastL_rec (v : Variant) (pol : Policy) (hk : NoContract pol) (σ : Nat → Nat) : ∀ (f : Forest) (c : Cursor) (k base o : Nat) (b : Bool),
    wnForest b f = true → AgreeS σ o (leavesL (recForest v pol f c).1 k base) →
    (∀ dflt, firstL (recForest v pol f c).1 k base dflt = σ o) ∧
    (∀ dflt d', lastL (recForest v pol f c).1 k base dflt = σ (lastF f o d'))
  | .nil, _, _, _, _, _, h, _ => by simp [wnForest] at h
  | .cons x .nil, c, k, base, o, b, h, ha => by
    simp only [wnForest] at h
    obtain ⟨a1, _⟩ := AgreeS.split v pol hk ha (wnAny_of_last h)
    have := firstLast_rec v pol hk σ x c k base o (wnAny_of_last h) a1
    rw [rec_cons, rec_nil]
    simp only [firstL, lastL, lastF]
    exact ⟨fun _ => this.1, fun _ _ => this.2⟩
  | .cons x (.cons y r), c, k, base, o, b, h, ha => by
    simp only [wnForest, Bool.and_eq_true] at h
    obtain ⟨a1, a2⟩ := AgreeS.split v pol hk ha (wnAny_of_item h.1)
    have h1 := firstLast_rec v pol hk σ x c k base o (wnAny_of_item h.1) a1
    have h2 := firstLastL_rec v pol hk σ (.cons y r) _ (k + 1) _ _ b h.2 a2
    rw [rec_cons]
    refine ⟨fun _ => by simp only [firstL]; exact h1.1, fun _ d' => ?_⟩
    rw [lastL, h2.2 _ (lastT x o)]
    rfl
end

/-! ### the edges -/

/-- the endpoints of an edge -/
def uv (e : PEdge) : Nat × Nat := (e.u, e.v)

/-- the endpoints of an edge between positions, as slots -/
def ren (σ : Nat → Nat) (e : PEdge) : Nat × Nat := (σ e.u, σ e.v)

theorem createEdges_rec (v : Variant) (pol : Policy) (hk : NoContract pol) (σ : Nat → Nat) (t t' : Nat) (ht : t = σ t') : ∀ (f : Forest) (c : Cursor) (y base o : Nat),
    wnForest false f = true → AgreeS σ o (leavesL (recForest v pol f c).1 y base) →
    (createEdges t (recForest v pol f c).1 y base).map uv = (createEdgesF t' f o).map (ren σ)
  | .nil, _, _, _, _, h, _ => by simp [wnForest] at h
  | .cons x .nil, c, y, base, o, h, _ => by
    simp only [wnForest] at h
    obtain ⟨k, r, rfl⟩ := isLast_ival h
    rw [rec_cons, rec_nil, rec_ival]
    simp [createEdges, createOf, createEdgesF, createOfT]
  | .cons x (.cons z r), c, y, base, o, h, ha => by
    simp only [wnForest, Bool.and_eq_true] at h
    obtain ⟨a1, a2⟩ := AgreeS.split v pol hk ha (wnAny_of_item h.1)
    have ih := createEdges_rec v pol hk σ t t' ht (.cons z r) _ (y + 1) _ _ h.2 a2
    rw [rec_cons, createEdges, createEdgesF, List.map_append, List.map_append, ih]
    congr 1
    cases x with
    | ival k r => rw [rec_ival]; simp [createOf, createOfT]
    | group k f' => rw [rec_group v pol hk]; simp [createOf, createOfT]
    | create rr ch =>
      have hch : wnTask ch = true := by simp only [wnItem, Bool.and_eq_true] at h; exact h.1.2
      rw [rec_create] at a1 ⊢
      simp only [leavesN] at a1
      obtain ⟨e1, a3⟩ := a1.cons
      have := firstLast_rec v pol hk σ ch _ base (base + 1) (o + 1) (wnAny_of_task hch) a3
      simp [createOf, createOfT, uv, ren, this.1, this.2, e1, ht]

mutual
theorem teN_rec (v : Variant) (pol : Policy) (hk : NoContract pol) (kf : Nat → EKind) (σ : Nat → Nat) : ∀ (x : Tree) (c : Cursor) (idx base o : Nat), WnAny x →
    AgreeS σ o (leavesN (recTree v pol x c).1 idx base) →
    (teN kf (recTree v pol x c).1 idx base).map uv = (edgesT x o).map (ren σ)
  | .ival k r, c, idx, base, o, _, _ => by rw [rec_ival]; simp [teN, edgesT]
  | .create r ch, c, idx, base, o, h, ha => by
    rw [rec_create] at ha ⊢
    simp only [leavesN] at ha
    simp only [teN, edgesT]
    exact teN_rec v pol hk kf σ ch _ base (base + 1) (o + 1) (wnAny_of_task (wnAny_create h)) ha.cons.2
  | .group k f, c, idx, base, o, h, ha => by
    obtain ⟨b, hb⟩ := wnAny_group h
    rw [rec_group v pol hk] at ha ⊢
    simp only [leavesN, rec_isNil, wnForest_isNil hb, Bool.false_eq_true, if_false] at ha
    have := teL_rec v pol hk kf σ f c base _ o b hb ha
    simp only [teN, edgesT, List.map_append, this.1, this.2]
theorem teL_rec (v : Variant) (pol : Policy) (hk : NoContract pol) (kf : Nat → EKind) (σ : Nat → Nat) : ∀ (f : Forest) (c : Cursor) (k base o : Nat) (b : Bool),
    wnForest b f = true → AgreeS σ o (leavesL (recForest v pol f c).1 k base) →
    (groupEdges kf (recForest v pol f c).1 k base).map uv = (groupEdgesF f o).map (ren σ) ∧
    (teL kf (recForest v pol f c).1 k base).map uv = (edgesSubF f o).map (ren σ)
  | .nil, _, _, _, _, _, h, _ => by simp [wnForest] at h
  | .cons x .nil, c, k, base, o, b, h, ha => by
    simp only [wnForest] at h
    obtain ⟨a1, _⟩ := AgreeS.split v pol hk ha (wnAny_of_last h)
    have := teN_rec v pol hk kf σ x c k base o (wnAny_of_last h) a1
    rw [rec_cons, rec_nil]
    simp [groupEdges, DList.isNil, teL, groupEdgesF, Forest.isNil, edgesSubF, this]
  | .cons x (.cons y r), c, k, base, o, b, h, ha => by
    simp only [wnForest, Bool.and_eq_true] at h
    have hwx := wnAny_of_item h.1
    obtain ⟨a1, a2⟩ := AgreeS.split v pol hk ha hwx
    have h1 := teN_rec v pol hk kf σ x c k base o hwx a1
    have h2 := teL_rec v pol hk kf σ (.cons y r) _ (k + 1) _ _ b h.2 a2
    have hfl := firstLast_rec v pol hk σ x c k base o hwx a1
    have hfr := (firstLastL_rec v pol hk σ (.cons y r) _ (k + 1) _ _ b h.2 a2).1 0
    have hnil : (recForest v pol (.cons y r) (recTree v pol x c).2).1.isNil = false := by
      rw [rec_isNil]; rfl
    rw [rec_cons]
    constructor
    · rw [groupEdges, groupEdgesF_cons2, hnil]
      simp only [Bool.false_eq_true, if_false, List.map_append, h2.1]
      congr 1
      simp only [itemEdges, itemEdgesT, List.map_cons, hfr, hfl.2]
      congr 1
      cases x with
      | ival k' r' => rw [rec_ival]; simp [sectionEdges, sectionEdgesT]
      | create rr ch => rw [rec_create]; simp [sectionEdges, sectionEdgesT]
      | group k' f' =>
        have hx := h.1
        simp only [wnItem, Bool.and_eq_true, beq_iff_eq] at hx
        obtain ⟨rfl, hf'⟩ := hx
        rw [rec_group v pol hk] at a1 ⊢
        simp only [leavesN, rec_isNil, wnForest_isNil hf', Bool.false_eq_true, if_false] at a1
        simp only [sectionEdges, sectionEdgesT, accumulate_kind, beq_self_eq_true, if_true]
        exact createEdges_rec v pol hk σ _ _ rfl f' c base _ o hf' a1
    · rw [teL, edgesSubF_cons, List.map_append, List.map_append, h1, h2.2]
end

end MythVerif.DagRec
