import MythVerif.Proofs.WsQueueTsoTac
/-! Preservation lemmas of the TSO invariant (generated per program counter of the owner): drain of a passer's store (ptr3) while the owner is at idle, pu0, pu0f. -/
namespace MythVerif.WsqTso
open MythVerif.Wsq

theorem f_T_ptr3_idle (s : St) (p : Pid) (e0 : Elem) : Inv s → s.opc = .idle → s.lock = .thief p →
    s.bufT p = [.ptr (s.lb - 1) (some e0)] → s.tpc p = .tp3 e0 →
    Inv (applySto { s with bufT := upd s.bufT p [] } (.ptr (s.lb - 1) (some e0))) := by
  intro h hopc hl h0 h1
  simp only [applySto]
  tso_fastO h hopc [tp3, tp4, carryC]

theorem f_T_ptr3_pu0 (s : St) (p : Pid) (e0 : Elem) (e) : Inv s → s.opc = .pu0 e → s.lock = .thief p →
    s.bufT p = [.ptr (s.lb - 1) (some e0)] → s.tpc p = .tp3 e0 →
    Inv (applySto { s with bufT := upd s.bufT p [] } (.ptr (s.lb - 1) (some e0))) := by
  intro h hopc hl h0 h1
  simp only [applySto]
  tso_fastO h hopc [tp3, tp4, carryC]

theorem f_T_ptr3_pu0f (s : St) (p : Pid) (e0 : Elem) (e t) : Inv s → s.opc = .pu0f e t → s.lock = .thief p →
    s.bufT p = [.ptr (s.lb - 1) (some e0)] → s.tpc p = .tp3 e0 →
    Inv (applySto { s with bufT := upd s.bufT p [] } (.ptr (s.lb - 1) (some e0))) := by
  intro h hopc hl h0 h1
  simp only [applySto]
  tso_fastO h hopc [tp3, tp4, pu0f, carryC]

end MythVerif.WsqTso
