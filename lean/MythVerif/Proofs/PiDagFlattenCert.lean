import MythVerif.Proofs.PiDagTreeOrder
import MythVerif.Proofs.PiDagKahn
import MythVerif.Proofs.PiDagStrings
/-! The `certificate` conjunct for every dump of a recorded DAG: the hypotheses of the Kahn
soundness theorem hold, the rank function being the position in the preorder of the tree. -/
namespace MythVerif.PiDag
open MythVerif.DagRec

theorem grouped_src (G : PiDag) (h : wfGrouped G = true) :
    ∀ i, i < G.T.size → ∀ k, k < G.T[i]!.ee - G.T[i]!.eb → G.E[G.T[i]!.eb + k]!.u = i := by
  unfold wfGrouped at h
  simp only [Bool.and_eq_true, decide_eq_true_eq, beq_iff_eq, List.all_eq_true, List.mem_range,
    Bool.or_eq_true] at h
  intro i hi k hk
  exact (h.1.2 i hi).2 k hk

/-- the edges the traversal walks at `u` are edges of `E` with source `u` -/
theorem outEdges_mem (G : PiDag) (h : wfGrouped G = true) (u : Nat) (hu : u < G.T.size) (e : PEdge)
    (he : e ∈ outEdges G u) : e ∈ G.E.toList ∧ e.u = u := by
  have hg := groupedFacts_of_wf G h
  rw [outEdges_eq] at he
  refine ⟨List.mem_of_mem_drop (List.mem_of_mem_take he), ?_⟩
  obtain ⟨j, hj, hje⟩ := List.mem_iff_getElem.mp he
  simp only [List.length_take, List.length_drop] at hj
  rw [List.getElem_take, List.getElem_drop] at hje
  have := grouped_src G h u hu j (by omega)
  have hlt : G.T[u]!.eb + j < G.E.size := by
    have := hj; simp only [Array.length_toList] at this; omega
  rw [getElem!_pos G.E _ hlt] at this
  rw [← hje]
  simpa using this

/-- the node array of `finishDag T st nw` has the layout of `T` -/
theorem finishDag_lay (T : Array PNode) (st : List Nat) (nw : Nat) (d : DNode) (hl : LayN T d 0 1)
    (hn : T.size = 1 + descT d) :
    LayN (finishDag T st nw).T d 0 1 ∧ (finishDag T st nw).T.size = 1 + descT d := by
  unfold finishDag
  simp only
  exact ⟨LayN_congr' _ _ d 0 1 (fun j _ => setEdgePtrs_shape _ _ j) hl, by rw [(setEdgePtrs_spec _ _).1]; exact hn⟩

theorem finishDag_wfStrings (T : Array PNode) (st : List Nat) (nw : Nat) (h : StrOK T st) :
    wfStrings (finishDag T st nw) = true := by
  unfold wfStrings finishDag
  simp only [Bool.and_eq_true, decide_eq_true_eq]
  refine ⟨?_, h.1⟩
  rw [Array.all_eq_true]
  intro j hj
  have hs := setEdgePtrs_spec T (sortEdges (enumEdges T))
  have hj' : j < T.size := by rw [← hs.1]; exact hj
  have := h.2 j hj'
  have e := hs.2 j
  rw [getElem!_pos _ j hj] at e
  simp only [Bool.and_eq_true, decide_eq_true_eq]
  rw [e]
  exact this

theorem finishDag_khyp (T : Array PNode) (st : List Nat) (nw : Nat) (d : DNode) (hlT1 : LayN T d 0 1)
    (hlT2 : T.size = 1 + descT d) (h : gTask d = true) :
    KHyp (finishDag T st nw) (fun v => (preN d 0 1).idxOf v) := by
  have hw := gTask_gW d h
  have hlT : LayN T d 0 1 ∧ T.size = 1 + descT d := ⟨hlT1, hlT2⟩
  have hlG := finishDag_lay T st nw d hlT1 hlT2
  have hendsT := enumEdges_ends T d hlT.1 hlT.2 hw
  have hgr : wfGrouped (finishDag T st nw) = true :=
    finishDag_grouped _ _ _ (by rw [hlT2]; omega) (fun e he => (hendsT e he).1.1)
  have hdeg : wfDegrees (finishDag T st nw) = true := wfDegrees_of_grouped _ hgr
  have hsize : (finishDag T st nw).T.size = T.size := by rw [hlG.2, hlT.2]
  have hE : (finishDag T st nw).E.toList = sortEdges (enumEdges T) := by
    simp [finishDag]
  have hshape : ∀ r, isLeaf (finishDag T st nw).T[r]! = isLeaf T[r]! := fun r => by
    simp only [finishDag]
    exact isLeaf_shape (setEdgePtrs_shape _ _ _)
  have hperm : ∀ e, e ∈ (finishDag T st nw).E.toList ↔ e ∈ teN (kfOf T) d 0 1 := by
    intro e
    rw [hE, mem_sortEdges]
    exact (enumEdges_perm _ d hlT.1 hlT.2 hw).mem_iff
  have hmemT : ∀ e, e ∈ (finishDag T st nw).E.toList → e ∈ enumEdges T := by
    intro e he; rw [hE, mem_sortEdges] at he; exact he
  have hfl : firstLeaf (finishDag T st nw) = firstN d 0 1 := by
    unfold firstLeaf
    exact first_eq _ d 0 1 _ hlG.1 hw (by rw [hlG.2]; omega)
  have hindeg : ∀ v, v < (finishDag T st nw).T.size →
      (indegrees (finishDag T st nw))[v]! = cntV (finishDag T st nw).E.toList v := by
    intro v hv
    unfold indegrees
    rw [← Array.foldl_toList, foldl_modify_get _ _ v (by simpa using hv), replicate_get!]
    omega
  have hleafmem : ∀ v, v < T.size → isLeaf T[v]! = true → v ∈ leavesN d 0 1 := by
    intro v hv hl
    exact leaf_memN _ d 0 1 hlT.1 hw v (by simp only [InN]; rw [hlT.2] at hv; omega) hl
  have hflin := firstN_in d 0 1
  refine ⟨?_, ?_, ?_, ?_, ?_, ?_, ?_⟩
  · rw [hfl, hlG.2]; simp only [InN] at hflin; omega
  · rw [hfl]; exact (firstN_leaf _ d 0 1 hlG.1 hw).2
  · intro u hu e he
    obtain ⟨h1, h2⟩ := outEdges_mem _ hgr u hu e he
    obtain ⟨⟨_, q2⟩, ⟨q3, q4⟩⟩ := hendsT e (hmemT e h1)
    rw [h2] at q2
    exact ⟨by rw [hsize]; exact q3, by rw [hshape]; exact q2, by rw [hshape]; exact q4⟩
  · intro u hu e he
    obtain ⟨h1, h2⟩ := outEdges_mem _ hgr u hu e he
    have := ordN (kfOf T) d 0 1 (by omega) e ((hperm e).mp h1)
    rw [h2] at this
    exact this.2.2
  · rw [hindeg _ (by rw [hfl, hlG.2]; simp only [InN] at hflin; omega)]
    apply Classical.byContradiction
    intro h0
    obtain ⟨e, he, hev⟩ := cntV_pos (show 0 < cntV (finishDag T st nw).E.toList (firstLeaf (finishDag T st nw)) by omega)
    have hb := ordN (kfOf T) d 0 1 (by omega) e ((hperm e).mp he)
    obtain ⟨⟨q1, q2⟩, _⟩ := hendsT e (hmemT e he)
    have hmin := minN d 0 1 (by omega) e.u (hleafmem e.u q1 q2)
    have := hb.2.2
    rw [hev, hfl] at this
    omega
  · intro i hi hl hne
    rw [hindeg i hi]
    rw [hshape] at hl
    have hm := hleafmem i (by rw [← hsize]; exact hi) hl
    obtain ⟨e, he, hev⟩ := leaf_has_in (kfOf T) d h i hm (by rw [← hfl]; exact hne)
    have := cntV_pos_of_mem ((hperm e).mpr he)
    rw [hev] at this
    exact this
  · intro v hv
    rw [← arrEqUpTo_get _ _ _ hdeg v hv, sliceDegrees_get _ v hv]

/-- **every DAG built by `finishDag` (edges, sort, edge pointers) from a node array that is the
    layout of a tree of the recorder's shape, with a sound string table, is well formed** -/
theorem finishDag_wellFormed (T : Array PNode) (st : List Nat) (nw : Nat) (d : DNode) (hl : LayN T d 0 1)
    (hn : T.size = 1 + descT d) (h : gTask d = true) (hs : StrOK T st) : wellFormed (finishDag T st nw) = true := by
  have hw := gTask_gW d h
  have hlG := finishDag_lay T st nw d hl hn
  have hends := enumEdges_ends T d hl hn hw
  have hgr : wfGrouped (finishDag T st nw) = true :=
    finishDag_grouped _ _ _ (by rw [hn]; omega) (fun e he => (hends e he).1.1)
  have hcnt : ((finishDag T st nw).E.size == countEdges (finishDag T st nw).T) = true := by
    have := counted_of_lay T (finishDag T st nw).T d hl hn hlG.1 hlG.2 h
    simp only [beq_iff_eq]
    rw [← this]
    simp [finishDag, sortEdges, List.length_mergeSort]
  unfold wellFormed wfReport
  simp only [Bool.and_eq_true]
  exact ⟨⟨⟨⟨⟨⟨wfOffsets_of_lay _ d hlG.1 hlG.2 hw, finishDag_edgeEnds _ _ _ hends⟩, hgr⟩, hcnt⟩,
    finishDag_wfStrings T st nw hs⟩, wfDegrees_of_grouped _ hgr⟩, wfCertificate_of_hyp _ _ (finishDag_khyp T st nw d hl hn h)⟩

theorem flatten_khyp (sc nw : Nat) (d : DNode) (h : gTask d = true) :
    KHyp (flatten sc nw d) (fun v => (preN d 0 1).idxOf v) :=
  finishDag_khyp _ _ nw d (enumNodes_lay sc d).1 (enumNodes_lay sc d).2 h

/-- **certificate**: for every dump of a recorded DAG the in-degree driven elimination from the
    first leaf is a topological order that covers every leaf; every leaf but the first has a
    predecessor, no inner node has one -/
theorem flatten_wfCertificate (sc nw : Nat) (d : DNode) (h : gTask d = true) :
    (wfReport (flatten sc nw d)).certificate = true :=
  wfCertificate_of_hyp _ _ (flatten_khyp sc nw d h)

/-- **every dump of a recorded DAG is well formed** -/
theorem flatten_wellFormed (sc nw : Nat) (d : DNode) (h : gTask d = true) : wellFormed (flatten sc nw d) = true := by
  unfold wellFormed
  simp only [Bool.and_eq_true]
  exact ⟨⟨⟨⟨⟨⟨flatten_wfOffsets sc nw d h, flatten_wfEdgeEnds sc nw d h⟩, flatten_wfGrouped sc nw d h⟩,
    flatten_counted sc nw d h⟩, flatten_wfStrings sc nw d⟩, flatten_wfDegrees sc nw d h⟩, flatten_wfCertificate sc nw d h⟩

end MythVerif.PiDag
