import MythVerif.Proofs.PiDagCert
/-! The in-degree driven elimination of the checker (`eliminate`) produces a valid certificate for
every DAG whose edges respect some rank function, whose edge ends are leaves and in which every
leaf but the first has a predecessor: soundness of Kahn's algorithm with an arbitrary work list. -/
namespace MythVerif.PiDag
open MythVerif.DagRec

/-! ### the loop over the out-edges of an eliminated node -/

def kstep (st : Array Nat × List Nat) (e : PEdge) : Array Nat × List Nat :=
  let rc := st.1.modify e.v (· - 1)
  if rc[e.v]! == 0 then (rc, e.v :: st.2) else (rc, st.2)

theorem go_succ (G : PiDag) (fuel : Nat) (rc : Array Nat) (u : Nat) (work acc : List Nat) :
    eliminate.go G (fuel + 1) rc (u :: work) acc =
      eliminate.go G fuel ((outEdges G u).foldl kstep (rc, work)).1 ((outEdges G u).foldl kstep (rc, work)).2 (u :: acc) := by
  rw [eliminate.go]
  rfl

theorem go_zero (G : PiDag) (rc : Array Nat) (work acc : List Nat) :
    eliminate.go G 0 rc work acc = acc.reverse := by
  rw [eliminate.go]

theorem go_nil (G : PiDag) (fuel : Nat) (rc : Array Nat) (acc : List Nat) :
    eliminate.go G fuel rc [] acc = acc.reverse := by
  cases fuel <;> simp [eliminate.go]

theorem kfold_spec : ∀ (L : List PEdge) (rc : Array Nat) (work : List Nat) (r : Nat → Nat),
    (∀ e ∈ L, e.v < rc.size) → (∀ v < rc.size, rc[v]! = r v) → (∀ v, cntV L v ≤ r v) →
    ∃ rc' new, L.foldl kstep (rc, work) = (rc', new ++ work) ∧ rc'.size = rc.size ∧
      (∀ v < rc.size, rc'[v]! = r v - cntV L v) ∧
      (∀ v, v ∈ new ↔ (0 < cntV L v ∧ r v = cntV L v)) ∧ new.Nodup := by
  intro L
  induction L with
  | nil =>
    intro rc work r _ hr _
    exact ⟨rc, [], rfl, rfl, fun v hv => by simp [cntV, hr v hv], fun v => by simp [cntV], List.nodup_nil⟩
  | cons e es ih =>
    intro rc work r hlt hr hle
    have hev : e.v < rc.size := hlt e (by simp)
    have hre : 1 ≤ r e.v := by
      have := hle e.v; rw [cntV_cons] at this; simp at this; omega
    let r1 : Nat → Nat := fun v => if v = e.v then r v - 1 else r v
    have hrc1 : ∀ v < rc.size, (rc.modify e.v (· - 1))[v]! = r1 v := by
      intro v hv
      simp only [r1, modify_get!]
      by_cases h : e.v = v
      · subst h; rw [if_pos ⟨rfl, hev⟩, if_pos rfl, hr _ hev]
      · have h' : ¬ v = e.v := fun x => h x.symm
        simp [h, h', hr v hv]
    have hle1 : ∀ v, cntV es v ≤ r1 v := by
      intro v
      have := hle v; rw [cntV_cons] at this
      simp only [r1]; split
      · rename_i h; subst h; simp at this; omega
      · rename_i h; have h' : ¬ e.v = v := fun x => h x.symm
        simp [h'] at this; exact this
    have hsub : ∀ v, r1 v - cntV es v = r v - cntV (e :: es) v := by
      intro v
      rw [cntV_cons]
      simp only [r1]; split
      · rename_i h; subst h; simp; omega
      · rename_i h; have h' : ¬ e.v = v := fun x => h x.symm
        simp [h']
    simp only [List.foldl_cons]
    by_cases hone : r e.v = 1
    · have hz : ((rc.modify e.v (· - 1))[e.v]! == 0) = true := by
        rw [hrc1 e.v hev]; simp [r1, hone]
      obtain ⟨rc', new, heq, hsz, hrc, hnew, hnd⟩ := ih (rc.modify e.v (· - 1)) (e.v :: work) r1
        (by intro e' he'; simpa using hlt e' (by simp [he']))
        (by intro v hv; exact hrc1 v (by simpa using hv)) hle1
      refine ⟨rc', new ++ [e.v], ?_, by simpa using hsz, ?_, ?_, ?_⟩
      · have : kstep (rc, work) e = (rc.modify e.v (· - 1), e.v :: work) := by
          simp only [kstep]; rw [if_pos hz]
        rw [this, heq]; simp
      · intro v hv; rw [hrc v (by simpa using hv), hsub]
      · intro v
        rw [List.mem_append, hnew v, cntV_cons]
        have hl := hle v; rw [cntV_cons] at hl
        simp only [r1, List.mem_singleton]
        by_cases h : v = e.v
        · subst h
          rw [if_pos rfl] at hl
          have hc0 : cntV es e.v = 0 := by omega
          simp [hc0, hone]
        · have h' : ¬ e.v = v := fun x => h x.symm
          simp [h, h']
      · rw [List.nodup_append]
        refine ⟨hnd, by simp, ?_⟩
        intro a ha b hb hab
        simp only [List.mem_singleton] at hb
        rw [hb] at hab
        rw [hab] at ha
        have := (hnew e.v).mp ha
        simp only [r1, if_true] at this
        omega
    · have hz : ¬ ((rc.modify e.v (· - 1))[e.v]! == 0) = true := by
        rw [hrc1 e.v hev]; simp [r1]; omega
      obtain ⟨rc', new, heq, hsz, hrc, hnew, hnd⟩ := ih (rc.modify e.v (· - 1)) work r1
        (by intro e' he'; simpa using hlt e' (by simp [he']))
        (by intro v hv; exact hrc1 v (by simpa using hv)) hle1
      refine ⟨rc', new, ?_, by simpa using hsz, ?_, ?_, hnd⟩
      · have : kstep (rc, work) e = (rc.modify e.v (· - 1), work) := by
          simp only [kstep]; rw [if_neg hz]
        rw [this, heq]
      · intro v hv; rw [hrc v (by simpa using hv), hsub]
      · intro v
        rw [hnew v, cntV_cons]
        have hl := hle v; rw [cntV_cons] at hl
        simp only [r1]
        by_cases h : v = e.v
        · subst h
          rw [if_pos rfl] at hl
          simp only [if_true]
          constructor <;> intro hh <;> omega
        · have h' : ¬ e.v = v := fun x => h x.symm
          simp [h, h']

/-! ### hypotheses and invariant -/

structure KHyp (G : PiDag) (ρ : Nat → Nat) : Prop where
  fl_lt : firstLeaf G < G.T.size
  fl_leaf : isLeaf G.T[firstLeaf G]! = true
  ends : ∀ u, u < G.T.size → ∀ e ∈ outEdges G u, e.v < G.T.size ∧ isLeaf G.T[u]! = true ∧ isLeaf G.T[e.v]! = true
  rank : ∀ u, u < G.T.size → ∀ e ∈ outEdges G u, ρ u < ρ e.v
  indeg_fl : (indegrees G)[firstLeaf G]! = 0
  indeg_leaf : ∀ i, i < G.T.size → isLeaf G.T[i]! = true → i ≠ firstLeaf G → 0 < (indegrees G)[i]!
  degrees : ∀ v, v < G.T.size → (indegrees G)[v]! = rsum G.T.size (fun u => cntV (outEdges G u) v)

/-- edges into `v` from nodes not in `l` -/
def rem (G : PiDag) (l : List Nat) (v : Nat) : Nat :=
  rsum G.T.size fun u => if u ∈ l then 0 else cntV (outEdges G u) v

theorem rem_nil (G : PiDag) (v : Nat) : rem G [] v = rsum G.T.size (fun u => cntV (outEdges G u) v) := by
  simp [rem]

theorem rem_add (G : PiDag) (l l' : List Nat) (u v : Nat) (hu : u < G.T.size) (hul : u ∉ l)
    (hl' : ∀ x, x ∈ l' ↔ x = u ∨ x ∈ l) : rem G l' v + cntV (outEdges G u) v = rem G l v := by
  have := rsum_update G.T.size u hu
    (fun w => if w ∈ l then 0 else cntV (outEdges G w) v)
    (fun w => if w ∈ l' then 0 else cntV (outEdges G w) v)
    (by intro x _ hx
        have : x ∈ l' ↔ x ∈ l := by rw [hl']; simp [hx]
        simp only [this])
  have hu' : u ∈ l' := (hl' u).mpr (Or.inl rfl)
  simp only [hul, hu', if_true, if_false] at this
  simp only [rem]
  omega

theorem rem_term_le (G : PiDag) (l : List Nat) (u v : Nat) (hu : u < G.T.size) (hul : u ∉ l) :
    cntV (outEdges G u) v ≤ rem G l v := by
  have := rsum_term_le G.T.size u hu (fun w => if w ∈ l then 0 else cntV (outEdges G w) v)
  simpa [hul, rem] using this

theorem rem_pos (G : PiDag) (l : List Nat) (v : Nat) (h : rem G l v ≠ 0) :
    ∃ u, u < G.T.size ∧ u ∉ l ∧ 0 < cntV (outEdges G u) v := by
  apply Classical.byContradiction
  intro hn
  apply h
  apply rsum_eq_zero
  intro u hu
  split
  · rfl
  · rename_i hul
    apply Classical.byContradiction
    intro h0
    exact hn ⟨u, hu, hul, by omega⟩

theorem cntV_pos_of_mem {L : List PEdge} {e : PEdge} (he : e ∈ L) : 0 < cntV L e.v := by
  unfold cntV
  rw [List.countP_pos_iff]
  exact ⟨e, he, by simp⟩

structure KInv (G : PiDag) (ord work : List Nat) (rc : Array Nat) : Prop where
  sz : rc.size = G.T.size
  rcv : ∀ v, v < G.T.size → rc[v]! = rem G ord v
  nd_ord : ord.Nodup
  nd_work : work.Nodup
  wk : ∀ v, v ∈ work ↔ (v ∉ ord ∧ v < G.T.size ∧ isLeaf G.T[v]! = true ∧ rem G ord v = 0)
  leaf : ∀ v ∈ ord, v < G.T.size ∧ isLeaf G.T[v]! = true
  hd : (ord = [] ∧ work = [firstLeaf G]) ∨ ord.head? = some (firstLeaf G)
  topo : ∀ (b : Nat) (hb : b < ord.length) (u : Nat), u < G.T.size → ∀ e ∈ outEdges G u, e.v = ord[b] →
    ∃ a, a < b ∧ ord[a]? = some u

theorem kinv_init (G : PiDag) (ρ : Nat → Nat) (H : KHyp G ρ) : KInv G [] [firstLeaf G] (indegrees G) := by
  refine ⟨indegrees_size G, fun v hv => by rw [rem_nil, H.degrees v hv], List.nodup_nil, by simp, ?_, by simp,
    Or.inl ⟨rfl, rfl⟩, fun b hb => by simp at hb⟩
  intro v
  simp only [List.mem_singleton, List.not_mem_nil, not_false_eq_true, true_and]
  constructor
  · intro h; subst h
    exact ⟨H.fl_lt, H.fl_leaf, by rw [rem_nil, ← H.degrees _ H.fl_lt]; exact H.indeg_fl⟩
  · intro ⟨h1, h2, h3⟩
    apply Classical.byContradiction
    intro hne
    have := H.indeg_leaf v h1 h2 hne
    rw [H.degrees v h1, ← rem_nil] at this
    omega

theorem kinv_step (G : PiDag) (ρ : Nat → Nat) (H : KHyp G ρ) (ord work : List Nat) (rc : Array Nat) (u : Nat)
    (hi : KInv G ord (u :: work) rc) :
    KInv G (ord ++ [u]) ((outEdges G u).foldl kstep (rc, work)).2 ((outEdges G u).foldl kstep (rc, work)).1 := by
  have hu := (hi.wk u).mp (by simp)
  obtain ⟨hu1, hu2, hu3, hu4⟩ := hu
  have hnd := hi.nd_work
  rw [List.nodup_cons] at hnd
  obtain ⟨rc', new, heq, hsz, hrc, hnew, hndn⟩ := kfold_spec (outEdges G u) rc work (fun v => rem G ord v)
    (by intro e he; rw [hi.sz]; exact (H.ends u hu2 e he).1)
    (by intro v hv; exact hi.rcv v (by rw [← hi.sz]; exact hv))
    (fun v => rem_term_le G ord u v hu2 hu1)
  rw [heq]
  simp only
  have hmem : ∀ x, x ∈ ord ++ [u] ↔ x = u ∨ x ∈ ord := by intro x; simp [or_comm]
  have hrem : ∀ v, rem G (ord ++ [u]) v + cntV (outEdges G u) v = rem G ord v :=
    fun v => rem_add G ord _ u v hu2 hu1 hmem
  -- closure of `ord` under predecessors
  have hclosed : ∀ x ∈ ord, ∀ u', u' < G.T.size → ∀ e ∈ outEdges G u', e.v = x → u' ∈ ord := by
    intro x hx u' hu' e he hev
    obtain ⟨b, hb, hxb⟩ := List.mem_iff_getElem.mp hx
    obtain ⟨a, _, ha⟩ := hi.topo b hb u' hu' e he (by rw [hev, hxb])
    exact List.mem_of_getElem? ha
  refine ⟨by rw [hsz, hi.sz], ?_, ?_, ?_, ?_, ?_, ?_, ?_⟩
  · intro v hv
    rw [hrc v (by rw [hi.sz]; exact hv)]
    have := hrem v
    omega
  · rw [List.nodup_append]
    refine ⟨hi.nd_ord, by simp, ?_⟩
    intro a ha b hb hab
    simp only [List.mem_singleton] at hb
    rw [hb] at hab; rw [hab] at ha; exact hu1 ha
  · rw [List.nodup_append]
    refine ⟨hndn, hnd.2, ?_⟩
    intro a ha b hb hab
    rw [← hab] at hb
    have h1 := (hnew a).mp ha
    have h2 := (hi.wk a).mp (by simp [hb])
    have := hrem a
    omega
  · intro v
    rw [List.mem_append, hnew v]
    constructor
    · rintro (⟨h1, h2⟩ | h)
      · obtain ⟨e, he, hev⟩ := cntV_pos h1
        have hends := H.ends u hu2 e he
        have hrk := H.rank u hu2 e he
        rw [hev] at hends hrk
        refine ⟨?_, hends.1, hends.2.2, by have := hrem v; omega⟩
        rw [hmem]
        rintro (h | h)
        · rw [h] at hrk; omega
        · exact hu1 (hclosed v h u hu2 e he hev)
      · have h2 := (hi.wk v).mp (by simp [h])
        refine ⟨?_, h2.2.1, h2.2.2.1, by have := hrem v; omega⟩
        rw [hmem]
        rintro (h' | h')
        · rw [h'] at h; exact hnd.1 h
        · exact h2.1 h'
    · intro ⟨h1, h2, h3, h4⟩
      rw [hmem] at h1
      by_cases h0 : rem G ord v = 0
      · right
        have := (hi.wk v).mpr ⟨fun h => h1 (Or.inr h), h2, h3, h0⟩
        simp only [List.mem_cons] at this
        rcases this with h | h
        · exact absurd h (fun h => h1 (Or.inl h))
        · exact h
      · left
        have := hrem v
        omega
  · intro v hv
    rw [hmem] at hv
    rcases hv with h | h
    · rw [h]; exact ⟨hu2, hu3⟩
    · exact hi.leaf v h
  · right
    rcases hi.hd with ⟨h1, h2⟩ | h
    · subst h1
      simp only [List.cons.injEq] at h2
      simp [h2.1]
    · rw [List.head?_append, h]; rfl
  · intro b hb u' hu' e he hev
    simp only [List.length_append, List.length_singleton] at hb
    by_cases hbl : b < ord.length
    · rw [List.getElem_append_left hbl] at hev
      obtain ⟨a, ha1, ha2⟩ := hi.topo b hbl u' hu' e he hev
      exact ⟨a, ha1, by rw [List.getElem?_append_left (by omega)]; exact ha2⟩
    · have hbe : b = ord.length := by omega
      subst hbe
      rw [List.getElem_append_right (Nat.le_refl _)] at hev
      simp only [Nat.sub_self, List.getElem_cons_zero] at hev
      have hmemu' : u' ∈ ord := by
        apply Classical.byContradiction
        intro hn
        have h1 := rem_term_le G ord u' u hu' hn
        have h2 := cntV_pos_of_mem he
        rw [hev] at h2
        omega
      obtain ⟨a, ha, hxa⟩ := List.mem_iff_getElem.mp hmemu'
      exact ⟨a, ha, by rw [List.getElem?_append_left ha, List.getElem?_eq_getElem ha, hxa]⟩

/-! ### the loop -/

structure KFinal (G : PiDag) (ord : List Nat) : Prop where
  nd : ord.Nodup
  leaf : ∀ v ∈ ord, v < G.T.size ∧ isLeaf G.T[v]! = true
  hd : ord.head? = some (firstLeaf G)
  topo : ∀ (b : Nat) (hb : b < ord.length) (u : Nat), u < G.T.size → ∀ e ∈ outEdges G u, e.v = ord[b] →
    ∃ a, a < b ∧ ord[a]? = some u
  complete : ∀ v, v < G.T.size → isLeaf G.T[v]! = true → v ∈ ord

theorem kinv_complete (G : PiDag) (ρ : Nat → Nat) (H : KHyp G ρ) (ord : List Nat) (rc : Array Nat)
    (hi : KInv G ord [] rc) : ∀ k v, ρ v < k → v < G.T.size → isLeaf G.T[v]! = true → v ∈ ord := by
  intro k
  induction k with
  | zero => intro v h; omega
  | succ k ih =>
    intro v hk hv hl
    apply Classical.byContradiction
    intro hn
    have hw := hi.wk v
    simp only [List.not_mem_nil, false_iff] at hw
    have hr : rem G ord v ≠ 0 := fun h0 => hw ⟨hn, hv, hl, h0⟩
    obtain ⟨u, hu, hul, hc⟩ := rem_pos G ord v hr
    obtain ⟨e, he, hev⟩ := cntV_pos hc
    have hrk := H.rank u hu e he
    rw [hev] at hrk
    exact hul (ih u (by omega) hu (H.ends u hu e he).2.1)

theorem go_spec (G : PiDag) (ρ : Nat → Nat) (H : KHyp G ρ) : ∀ (fuel : Nat) (ord work : List Nat) (rc : Array Nat),
    KInv G ord work rc → G.T.size + 1 ≤ fuel + ord.length →
    KFinal G (eliminate.go G fuel rc work ord.reverse) := by
  intro fuel
  induction fuel with
  | zero =>
    intro ord work rc hi hf
    exfalso
    have hsub : ord ⊆ List.range G.T.size := fun x hx => List.mem_range.mpr (hi.leaf x hx).1
    have := List.Nodup.length_le_of_subset hi.nd_ord hsub
    simp only [List.length_range] at this
    omega
  | succ fuel ih =>
    intro ord work rc hi hf
    cases work with
    | nil =>
      rw [go_nil, List.reverse_reverse]
      refine ⟨hi.nd_ord, hi.leaf, ?_, hi.topo, fun v hv hl => kinv_complete G ρ H ord rc hi (ρ v + 1) v (by omega) hv hl⟩
      rcases hi.hd with ⟨_, h⟩ | h
      · cases h
      · exact h
    | cons u w =>
      rw [go_succ]
      have := kinv_step G ρ H ord w rc u hi
      have e : u :: ord.reverse = (ord ++ [u]).reverse := by simp
      rw [e]
      exact ih _ _ _ this (by simp only [List.length_append, List.length_singleton]; omega)

theorem eliminate_final (G : PiDag) (ρ : Nat → Nat) (H : KHyp G ρ) : KFinal G (eliminate G) := by
  have := go_spec G ρ H (G.T.size + 1) [] [firstLeaf G] (indegrees G) (kinv_init G ρ H) (by simp)
  exact this

/-! ### the position table -/

theorem positionsFrom_get : ∀ (l : List Nat) (k0 : Nat) (p : Array (Option Nat)), l.Nodup → (∀ x ∈ l, x < p.size) →
    (∀ j (hj : j < l.length), (positionsFrom k0 l p)[l[j]]! = some (k0 + j)) := by
  intro l
  induction l with
  | nil => intro k0 p _ _ j hj; simp at hj
  | cons x r ih =>
    intro k0 p hnd hlt j hj
    rw [List.nodup_cons] at hnd
    simp only [positionsFrom]
    cases j with
    | zero =>
      simp only [List.getElem_cons_zero, Nat.add_zero]
      -- later updates do not touch `x`
      have hkeep : ∀ (l' : List Nat) (k1 : Nat) (q : Array (Option Nat)), x ∉ l' →
          (positionsFrom k1 l' q)[x]! = q[x]! := by
        intro l'
        induction l' with
        | nil => intro k1 q _; rfl
        | cons y r' ih' =>
          intro k1 q hx
          simp only [List.mem_cons, not_or] at hx
          simp only [positionsFrom]
          rw [ih' _ _ hx.2, setIfInBounds_get!]
          have : ¬ y = x := fun e => hx.1 e.symm
          simp [this]
      rw [hkeep r (k0 + 1) _ hnd.1, setIfInBounds_get!]
      simp [hlt x (by simp)]
    | succ j =>
      simp only [List.getElem_cons_succ]
      have := ih (k0 + 1) (p.setIfInBounds x (some k0)) hnd.2
        (by intro y hy; simpa using hlt y (by simp [hy])) j (by simpa using hj)
      rw [this]
      congr 1; omega

theorem positions_get (n : Nat) (ord : List Nat) (hnd : ord.Nodup) (hlt : ∀ x ∈ ord, x < n) (j : Nat) (hj : j < ord.length) :
    (positions n ord)[ord[j]]! = some j := by
  have := positionsFrom_get ord 0 (Array.replicate n none) hnd (by simpa using hlt) j hj
  simpa [positions] using this

/-! ### the certificate check -/

theorem indeg_inner_zero (G : PiDag) (ρ : Nat → Nat) (H : KHyp G ρ) (i : Nat) (hi : i < G.T.size)
    (hl : ¬ isLeaf G.T[i]! = true) : (indegrees G)[i]! = 0 := by
  rw [H.degrees i hi]
  apply rsum_eq_zero
  intro u hu
  apply Classical.byContradiction
  intro h0
  obtain ⟨e, he, hev⟩ := cntV_pos (show 0 < cntV (outEdges G u) i by omega)
  have := (H.ends u hu e he).2.2
  rw [hev] at this
  exact hl this

/-- **the elimination order is a valid certificate** -/
theorem wfCertificate_of_hyp (G : PiDag) (ρ : Nat → Nat) (H : KHyp G ρ) : wfCertificate G = true := by
  have F := eliminate_final G ρ H
  have hpos := positions_get G.T.size (eliminate G) F.nd (fun x hx => (F.leaf x hx).1)
  have hposmem : ∀ v ∈ eliminate G, ∃ j, ∃ hj : j < (eliminate G).length, (eliminate G)[j] = v ∧
      (positions G.T.size (eliminate G))[v]! = some j := by
    intro v hv
    obtain ⟨j, hj, e⟩ := List.mem_iff_getElem.mp hv
    exact ⟨j, hj, e, by rw [← e]; exact hpos j hj⟩
  unfold wfCertificate checkOrder
  simp only
  rw [if_neg (by simp [F.hd])]
  rw [if_neg (by
    simp only [Bool.not_eq_true', Bool.not_eq_false, List.all_eq_true, Bool.and_eq_true, decide_eq_true_eq]
    exact fun u hu => F.leaf u hu)]
  rw [if_neg (by simp [F.nd])]
  rw [if_neg (by
    simp only [Bool.not_eq_true', Bool.not_eq_false, List.all_eq_true, List.mem_range]
    intro i hi
    by_cases hl : isLeaf G.T[i]! = true
    · obtain ⟨j, _, _, hj⟩ := hposmem i (F.complete i hi hl)
      simp only [hl, if_true, hj, Option.isSome_some, Bool.true_and]
      by_cases hfl : i = firstLeaf G
      · subst hfl; simp [H.indeg_fl]
      · have := H.indeg_leaf i hi hl hfl
        simp [hfl, this]
    · have := indeg_inner_zero G ρ H i hi hl
      simp [hl, this])]
  simp only [List.all_eq_true, List.mem_range]
  intro u hu e he
  have hends := H.ends u hu e he
  obtain ⟨b, hb, hbe, hpb⟩ := hposmem e.v (F.complete e.v hends.1 hends.2.2)
  obtain ⟨a, hab, ha⟩ := F.topo b hb u hu e he hbe.symm
  have ha' : a < (eliminate G).length := by omega
  rw [List.getElem?_eq_getElem ha'] at ha
  have hpa := hpos a ha'
  rw [Option.some.inj ha] at hpa
  rw [hpa, hpb]
  simpa using hab

end MythVerif.PiDag
