import MythVerif.Proofs.WsQueueTsoTac
/-! Preservation lemmas of the TSO invariant (trypass: slot store, `base--`, unlock). -/
namespace MythVerif.WsqTso
open MythVerif.Wsq

theorem t_tp2 (s s' : St) (p : Pid) (e b) : Inv s → s.tpc p = .tp2 e b → stepT s p = some s' → Inv s' := by
  intro h heq hs
  have hb := h.tbufE p (by simp [heq, mayBuf])
  simp only [stepT, heq, hb] at hs
  simp at hs; subst hs
  tso_fastT h p [tp2]

theorem pu2_viewBase (buf : List Sto) (ptr : Int → Option Elem) (e : Elem) (t base : Int)
    (h : Pu2Shape buf ptr e t) : viewBase buf base = base := by
  rcases h with ⟨h1, _⟩ | h1 <;> simp [h1, viewBase]

theorem t_tp3 (s s' : St) (p : Pid) (e) : Inv s → s.tpc p = .tp3 e → stepT s p = some s' → Inv s' := by
  intro h heq hs
  have hsh := h.tp3 p e heq
  have hv := pu2_viewBase _ _ _ _ s.base hsh
  have hl := (h.lockT p).2 (by simp [heq, thiefLocked])
  have hnr := thief_not_resetting s h p hl
  have htr := h.trF p hl (by simp [heq, notTrans])
  have hbase : s.base = s.lb := by have := h.lbase hnr; simpa [htr] using this
  have htp4 := h.tp4
  simp only [stepT, heq, hv] at hs
  simp at hs; subst hs
  simp only [ownerLocked, carry, resetting, ownerFlight] at *
  tso_coreT h [tp3]
  constructor
  all_goals (try simp only [ownerLocked, carry, resetting, ownerFlight, upd_apply, applySto])
  case tp4 =>
    intro q ok hq
    by_cases hqp : q = p
    · simp only [hqp, if_true]
      rcases hsh with ⟨h1, h2⟩ | h1
      · exact Or.inr (Or.inl ⟨e, by simp [h1, hbase], h2⟩)
      · exact Or.inl ⟨e, by simp [h1, hbase]⟩
    · simp only [hqp, if_false] at hq ⊢
      exact htp4 q ok hq
  tso_goalsT h p

theorem t_tp4 (s s' : St) (p : Pid) (ok) : Inv s → s.tpc p = .tp4 ok → stepT s p = some s' → Inv s' := by
  intro h heq hs
  have hcfg := h.cfg
  simp only [stepT, heq, releaseT, hcfg, code_unlockFence, if_true] at hs
  split at hs
  · rename_i hb
    simp at hb
    simp at hs; subst hs
    tso_fastT h p [tp4]
  · simp at hs

end MythVerif.WsqTso
