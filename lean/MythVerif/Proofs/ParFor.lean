import MythVerif.Model.ParFor
import MythVerif.Proofs.Bulk
/-! helper lemmas for C17: `parallel_for` recursions, the sequential loop, tilings -/
namespace MythVerif.ParFor
open MythVerif.Bulk

/-! ### truncated division by two -/

theorem tdiv2_nonneg (x : Int) (h : 0 ≤ x) : x.tdiv 2 = x / 2 := Int.tdiv_eq_ediv_of_nonneg h

theorem tdiv2_nonpos (x : Int) (h : x ≤ 0) : x.tdiv 2 ≤ 0 ∧ x ≤ x.tdiv 2 := by
  have : x.tdiv 2 = -((-x) / 2) := by
    rw [← Int.tdiv_eq_ediv_of_nonneg (by omega), Int.neg_tdiv, Int.neg_neg]
  omega

theorem tdiv_nonpos_of_nonpos (x s : Int) (hx : x ≤ 0) (hs : 0 < s) : x.tdiv s ≤ 0 := by
  have : x.tdiv s = -((-x) / s) := by
    rw [← Int.tdiv_eq_ediv_of_nonneg (by omega), Int.neg_tdiv, Int.neg_neg]
  have h2 : 0 ≤ (-x) / s := Int.ediv_nonneg (by omega) (by omega)
  omega

/-! ### index lists -/

/-- `first + (a+k)*step` for `k < n` -/
def idx (first step a : Int) (n : Nat) : List Int :=
  (List.range n).map fun (k : Nat) => first + (a + (k : Int)) * step

theorem idx_append (first step a : Int) (m n : Nat) :
    idx first step a m ++ idx first step (a + m) n = idx first step a (m + n) := by
  unfold idx
  rw [List.range_add, List.map_append, List.map_map]
  congr 1
  apply List.map_congr_left
  intro k _
  simp only [Function.comp]
  rw [Int.natCast_add, Int.add_assoc]

theorem idx_split (first step a c b : Int) (h1 : a ≤ c) (h2 : c ≤ b) :
    idx first step a (c - a).toNat ++ idx first step c (b - c).toNat =
      idx first step a (b - a).toNat := by
  obtain ⟨m, rfl⟩ : ∃ m : Nat, c = a + (m : Int) := ⟨(c - a).toNat, by omega⟩
  obtain ⟨n, rfl⟩ : ∃ n : Nat, b = a + (m : Int) + (n : Int) := ⟨(b - (a + m)).toNat, by omega⟩
  have e1 : (a + (m : Int) - a).toNat = m := by omega
  have e2 : (a + (m : Int) + (n : Int) - (a + (m : Int))).toNat = n := by omega
  have e3 : (a + (m : Int) + (n : Int) - a).toNat = m + n := by omega
  rw [e1, e2, e3, idx_append]

/-! ### the sequential loop -/

/-- if `n` is the trip count (`i + (n-1)*step < last ≤ i + n*step`), the loop visits
    `i, i+step, …` (`n` of them) -/
theorem seqLoopF_eq (last step : Int) (hs : 0 < step) : ∀ (n fuel : Nat) (i : Int),
    n ≤ fuel → last ≤ i + (n : Int) * step → (0 < n → i + ((n : Int) - 1) * step < last) →
    seqLoopF last step fuel i = (List.range n).map fun (k : Nat) => i + (k : Int) * step := by
  intro n
  induction n with
  | zero =>
    intro fuel i _ h1 _
    simp only [Int.natCast_zero, Int.zero_mul, Int.add_zero] at h1
    cases fuel with
    | zero => rfl
    | succ f => simp only [seqLoopF]; rw [if_neg (by omega)]; rfl
  | succ n ih =>
    intro fuel i hf h1 h2
    cases fuel with
    | zero => omega
    | succ f =>
      have hn : 0 ≤ (n : Int) * step := Int.mul_nonneg (by omega) (by omega)
      have h2' := h2 (by omega)
      have e1 : ((n + 1 : Nat) : Int) - 1 = (n : Int) := by omega
      rw [e1] at h2'
      have e2 : ((n + 1 : Nat) : Int) * step = (n : Int) * step + step := by
        rw [Int.natCast_add, Int.add_mul]; simp
      rw [e2] at h1
      simp only [seqLoopF]
      rw [if_pos (by omega)]
      rw [ih f (i + step) (by omega) (by omega) (by
        intro hpos
        have e3 : (n : Int) * step = ((n : Int) - 1) * step + step := by
          rw [Int.sub_mul]; simp
        omega)]
      rw [List.range_succ_eq_map]
      simp only [List.map_cons, List.map_map, Int.natCast_zero, Int.zero_mul, Int.add_zero]
      congr 1
      apply List.map_congr_left
      intro k _
      simp only [Function.comp, Nat.succ_eq_add_one]
      rw [Int.natCast_add, Int.add_mul]; simp
      omega

/-- bounds of the trip count `(last - first + step - 1) / step` -/
theorem count_bounds (first last step : Int) (hs : 0 < step) (h : first < last) :
    0 < count first last step ∧
    last ≤ first + count first last step * step ∧
    first + (count first last step - 1) * step < last := by
  unfold count
  rw [Int.tdiv_eq_ediv_of_nonneg (by omega)]
  have a1 := Int.ediv_mul_le (last - first + step - 1) (b := step) (by omega)
  have a2 := Int.lt_ediv_add_one_mul_self (last - first + step - 1) hs
  rw [Int.add_mul] at a2
  simp only [Int.one_mul] at a2
  have a3 : ((last - first + step - 1) / step - 1) * step
      = (last - first + step - 1) / step * step - step := by rw [Int.sub_mul]; simp
  have a4 : 1 ≤ (last - first + step - 1) / step :=
    Int.le_ediv_of_mul_le hs (by omega)
  refine ⟨by omega, by omega, by omega⟩

/-- the sequential loop over a non-empty range with positive step visits
    `first + k*step`, `k < count` -/
theorem seqLoop_eq_idx (first last step : Int) (hs : 0 < step) (h : first < last) :
    seqLoop first last step = idx first step 0 (count first last step).toNat := by
  obtain ⟨c0, c1, c2⟩ := count_bounds first last step hs h
  have hc : ((count first last step).toNat : Int) = count first last step :=
    Int.toNat_of_nonneg (by omega)
  unfold seqLoop
  rw [seqLoopF_eq last step hs (count first last step).toNat (last - first).toNat first
      ?_ (by rw [hc]; exact c1) (by intro _; rw [hc]; exact c2)]
  · unfold idx; simp
  · -- count ≤ last - first because step ≥ 1
    have : (count first last step - 1) * 1 ≤ (count first last step - 1) * step :=
      Int.mul_le_mul_of_nonneg_left (by omega) (by omega)
    omega

/-- the sequential loop over an empty or reversed range does nothing -/
theorem seqLoop_empty (first last step : Int) (h : ¬ first < last) : seqLoop first last step = [] := by
  unfold seqLoop
  cases hf : (last - first).toNat with
  | zero => rfl
  | succ f => simp only [seqLoopF]; rw [if_neg h]

/-- a chunk loop `[first + x*step, first + y*step)` visits the indices `x … y-1` -/
theorem seqLoop_chunk (first step x y : Int) (hs : 0 < step) (hxy : x < y) :
    seqLoop (first + x * step) (first + y * step) step = idx first step x (y - x).toNat := by
  have hn : ((y - x).toNat : Int) = y - x := Int.toNat_of_nonneg (by omega)
  have e : y * step = x * step + (y - x) * step := by rw [← Int.add_mul]; congr 1; omega
  unfold seqLoop
  rw [seqLoopF_eq (first + y * step) step hs (y - x).toNat _ (first + x * step) ?_
      (by rw [hn, e]; omega)
      (by intro _; rw [hn, e, Int.sub_mul]; simp; omega)]
  · unfold idx
    apply List.map_congr_left
    intro k _
    rw [Int.add_mul]; omega
  · have h1 : (y - x) * 1 ≤ (y - x) * step := Int.mul_le_mul_of_nonneg_left (by omega) (by omega)
    have : first + y * step - (first + x * step) = (y - x) * step := by rw [e]; omega
    rw [this]; omega

/-! ### `parallel_for_aux` -/

theorem auxF_mono (first step : Int) : ∀ (fuel : Nat) (a b : Int) (t : FJ Ev),
    auxF first step fuel a b = some t → auxF first step (fuel + 1) a b = some t := by
  intro fuel
  induction fuel with
  | zero => intro a b t h; simp [auxF] at h
  | succ n ih =>
    intro a b t h
    unfold auxF at h ⊢
    by_cases h1 : b - a = 1
    · rw [if_pos h1] at h ⊢; exact h
    · simp only [h1, if_false] at h ⊢
      cases hl : auxF first step n a (a + (b - a).tdiv 2) with
      | none => simp [hl] at h
      | some l =>
        cases hr : auxF first step n (a + (b - a).tdiv 2) b with
        | none => simp [hl, hr] at h
        | some r =>
          rw [ih _ _ _ hl, ih _ _ _ hr]
          simpa [hl, hr] using h

theorem auxF_mono_le (first step : Int) (fuel fuel' : Nat) (a b : Int) (t : FJ Ev)
    (hle : fuel ≤ fuel') (h : auxF first step fuel a b = some t) :
    auxF first step fuel' a b = some t := by
  induction hle with
  | refl => exact h
  | step _ ih => exact auxF_mono first step _ a b t ih

/-- **termination and result**: on `a < b` the recursion finishes within fuel `b - a` and its
    one-worker order calls the body on `first + k*step`, `a ≤ k < b`, in increasing order -/
theorem auxF_spec (first step : Int) : ∀ (fuel : Nat) (a b : Int), a < b → (b - a).toNat ≤ fuel →
    ∃ t, auxF first step fuel a b = some t ∧ t.seq = (idx first step a (b - a).toNat).map Ev.call := by
  intro fuel
  induction fuel with
  | zero => intro a b h1 h2; omega
  | succ n ih =>
    intro a b hab hf
    unfold auxF
    by_cases h1 : b - a = 1
    · rw [if_pos h1]
      refine ⟨_, rfl, ?_⟩
      simp [FJ.seq, idx, h1]
    · rw [if_neg h1, tdiv2_nonneg _ (by omega)]
      obtain ⟨l, hl, hls⟩ := ih a (a + (b - a) / 2) (by omega) (by omega)
      obtain ⟨r, hr, hrs⟩ := ih (a + (b - a) / 2) b (by omega) (by omega)
      simp only [hl, hr]
      refine ⟨_, rfl, ?_⟩
      simp only [FJ.seq, hls, hrs, List.nil_append, List.append_nil, ← List.map_append]
      congr 1
      exact idx_split first step a _ b (by omega) (by omega)

/-- **no base case**: on an empty or reversed index range `b ≤ a` the recursion of
    `parallel_for_aux` exhausts every fuel -/
theorem auxF_diverges (first step : Int) : ∀ (fuel : Nat) (a b : Int), b ≤ a →
    auxF first step fuel a b = none := by
  intro fuel
  induction fuel with
  | zero => intro a b _; rfl
  | succ n ih =>
    intro a b hba
    unfold auxF
    rw [if_neg (by omega)]
    have := tdiv2_nonpos (b - a) (by omega)
    simp only
    rw [ih a (a + (b - a).tdiv 2) (by omega)]

/-! ### tilings and the grain-size form -/

/-- `cs` tiles `[a,b)` from left to right with non-empty pieces of width ≤ `g` -/
def Tiles (g : Int) : Int → Int → List (Int × Int) → Prop
  | a, b, [] => a = b
  | a, b, c :: cs => c.1 = a ∧ a < c.2 ∧ c.2 - a ≤ g ∧ Tiles g c.2 b cs

theorem Tiles.append (g : Int) : ∀ (l : List (Int × Int)) (a c b : Int) (r : List (Int × Int)),
    Tiles g a c l → Tiles g c b r → Tiles g a b (l ++ r) := by
  intro l
  induction l with
  | nil => intro a c b r h1 h2; simp only [Tiles] at h1; subst h1; exact h2
  | cons x l ih =>
    intro a c b r h1 h2
    simp only [Tiles, List.cons_append] at h1 ⊢
    exact ⟨h1.1, h1.2.1, h1.2.2.1, ih _ _ _ _ h1.2.2.2 h2⟩

theorem Tiles.le (g : Int) : ∀ (l : List (Int × Int)) (a b : Int), Tiles g a b l → a ≤ b := by
  intro l
  induction l with
  | nil => intro a b h; simp only [Tiles] at h; omega
  | cons x l ih => intro a b h; simp only [Tiles] at h; have := ih _ _ h.2.2.2; omega

/-- every piece of a tiling is non-empty, at most `g` wide and inside `[a,b)` -/
theorem Tiles.mem (g : Int) : ∀ (l : List (Int × Int)) (a b : Int), Tiles g a b l →
    ∀ c ∈ l, a ≤ c.1 ∧ c.1 < c.2 ∧ c.2 - c.1 ≤ g ∧ c.2 ≤ b := by
  intro l
  induction l with
  | nil => intro a b _ c hc; simp at hc
  | cons x l ih =>
    intro a b h c hc
    simp only [Tiles] at h
    have hle := Tiles.le g l _ _ h.2.2.2
    rcases List.mem_cons.mp hc with rfl | hc
    · omega
    · have := ih _ _ h.2.2.2 c hc; omega

/-- the chunk loops of a tiling of `[a,b)` (index space) visit `a … b-1` once each, in order -/
theorem Tiles.covered_eq (first step g : Int) (hs : 0 < step) : ∀ (l : List (Int × Int)) (a b : Int),
    Tiles g a b l →
    covered step (l.map fun c => (first + c.1 * step, first + c.2 * step)) =
      idx first step a (b - a).toNat := by
  intro l
  induction l with
  | nil => intro a b h; simp only [Tiles] at h; subst h; simp [covered, idx]
  | cons x l ih =>
    intro a b h
    simp only [Tiles] at h
    obtain ⟨h1, h2, _, h4⟩ := h
    have hle := Tiles.le g l _ _ h4
    have ih' := ih _ _ h4
    simp only [covered, List.map_cons, List.flatMap_cons] at ih' ⊢
    rw [ih', h1, seqLoop_chunk first step a x.2 hs h2]
    exact idx_split first step a _ b (by omega) hle

theorem grainAuxF_mono (first step g : Int) : ∀ (fuel : Nat) (a b : Int) (t : FJ Ev),
    grainAuxF first step g fuel a b = some t → grainAuxF first step g (fuel + 1) a b = some t := by
  intro fuel
  induction fuel with
  | zero => intro a b t h; simp [grainAuxF] at h
  | succ n ih =>
    intro a b t h
    unfold grainAuxF at h ⊢
    by_cases h1 : b - a ≤ g
    · rw [if_pos h1] at h ⊢; exact h
    · simp only [h1, if_false] at h ⊢
      cases hl : grainAuxF first step g n a (a + (b - a).tdiv 2) with
      | none => simp [hl] at h
      | some l =>
        cases hr : grainAuxF first step g n (a + (b - a).tdiv 2) b with
        | none => simp [hl, hr] at h
        | some r =>
          rw [ih _ _ _ hl, ih _ _ _ hr]
          simpa [hl, hr] using h

theorem grainAuxF_mono_le (first step g : Int) (fuel fuel' : Nat) (a b : Int) (t : FJ Ev)
    (hle : fuel ≤ fuel') (h : grainAuxF first step g fuel a b = some t) :
    grainAuxF first step g fuel' a b = some t := by
  induction hle with
  | refl => exact h
  | step _ ih => exact grainAuxF_mono first step g _ a b t ih

/-- **termination and result of the grain-size recursion** (`1 ≤ grain`, `a < b`): it finishes
    within fuel `b - a`; the body is called on chunks only, and the chunks are the image of a
    left-to-right tiling of `[a,b)` with pieces of width ≤ `grain` -/
theorem grainAuxF_spec (first step g : Int) (hg : 1 ≤ g) : ∀ (fuel : Nat) (a b : Int), a < b →
    (b - a).toNat ≤ fuel →
    ∃ t cs, grainAuxF first step g fuel a b = some t ∧ Tiles g a b cs ∧
      t.seq = cs.map fun c => Ev.chunk (first + c.1 * step) (first + c.2 * step) := by
  intro fuel
  induction fuel with
  | zero => intro a b h1 h2; omega
  | succ n ih =>
    intro a b hab hf
    unfold grainAuxF
    by_cases h1 : b - a ≤ g
    · rw [if_pos h1]
      refine ⟨_, [(a, b)], rfl, ?_, by simp [FJ.seq]⟩
      simp only [Tiles, and_true, true_and]; exact ⟨hab, h1⟩
    · rw [if_neg h1, tdiv2_nonneg (b - a) (by omega)]
      obtain ⟨l, cl, hl, tl, hls⟩ := ih a (a + (b - a) / 2) (by omega) (by omega)
      obtain ⟨r, cr, hr, tr, hrs⟩ := ih (a + (b - a) / 2) b (by omega) (by omega)
      simp only [hl, hr]
      refine ⟨_, cl ++ cr, rfl, Tiles.append g _ _ _ _ _ tl tr, ?_⟩
      simp [FJ.seq, hls, hrs]

/-- with `grain ≤ 0` a non-empty range is split for ever (outside the property's domain:
    no chunk of width ≤ 0 can cover an index) -/
theorem grainAuxF_diverges_nonpos_grain (first step g : Int) (hg : g ≤ 0) :
    ∀ (fuel : Nat) (a b : Int), a < b → grainAuxF first step g fuel a b = none := by
  intro fuel
  induction fuel with
  | zero => intro a b _; rfl
  | succ n ih =>
    intro a b hab
    unfold grainAuxF
    rw [if_neg (by omega), tdiv2_nonneg (b - a) (by omega)]
    simp only
    rw [ih (a + (b - a) / 2) b (by omega)]
    cases grainAuxF first step g n a (a + (b - a) / 2) <;> rfl

/-! ### the range-class form -/

theorem rangeF_mono (g : Int) : ∀ (fuel : Nat) (b e : Int) (t : FJ Ev),
    rangeF g fuel b e = some t → rangeF g (fuel + 1) b e = some t := by
  intro fuel
  induction fuel with
  | zero => intro b e t h; simp [rangeF] at h
  | succ n ih =>
    intro b e t h
    unfold rangeF at h ⊢
    by_cases h0 : b < e
    · rw [if_neg (by omega)] at h ⊢
      by_cases h1 : g < e - b
      · rw [if_neg (by omega)] at h ⊢
        simp only [] at h ⊢
        cases hl : rangeF g n b (b + (e - b).tdiv 2) with
        | none => simp [hl] at h
        | some l =>
          cases hr : rangeF g n (b + (e - b).tdiv 2) e with
          | none => simp [hl, hr] at h
          | some r =>
            rw [ih _ _ _ hl, ih _ _ _ hr]
            simpa [hl, hr] using h
      · rw [if_pos h1] at h ⊢; exact h
    · rw [if_pos h0] at h ⊢; exact h

/-- **range-class form** (`1 ≤ grain`): terminates; an empty range makes no call; otherwise the
    chunks tile `[b,e)` left to right with pieces of width ≤ grain -/
theorem rangeF_spec (g : Int) (hg : 1 ≤ g) : ∀ (fuel : Nat) (b e : Int), (e - b).toNat < fuel →
    ∃ t cs, rangeF g fuel b e = some t ∧ t.seq = cs.map (fun c => Ev.chunk c.1 c.2) ∧
      (if b < e then Tiles g b e cs else cs = []) := by
  intro fuel
  induction fuel with
  | zero => intro b e h; omega
  | succ n ih =>
    intro b e hf
    unfold rangeF
    by_cases h0 : b < e
    · rw [if_neg (by omega)]
      by_cases h1 : g < e - b
      · rw [if_neg (by omega), tdiv2_nonneg (e - b) (by omega)]
        obtain ⟨l, cl, hl, hls, tl⟩ := ih b (b + (e - b) / 2) (by omega)
        obtain ⟨r, cr, hr, hrs, tr⟩ := ih (b + (e - b) / 2) e (by omega)
        rw [if_pos (by omega)] at tl tr
        simp only [hl, hr]
        refine ⟨_, cl ++ cr, rfl, by simp [FJ.seq, hls, hrs], ?_⟩
        rw [if_pos h0]
        exact Tiles.append g _ _ _ _ _ tl tr
      · rw [if_pos h1]
        refine ⟨_, [(b, e)], rfl, by simp [FJ.seq], ?_⟩
        rw [if_pos h0]; simp only [Tiles, and_true, true_and]; exact ⟨h0, by omega⟩
    · rw [if_pos h0]
      exact ⟨_, [], rfl, by simp [FJ.seq], by rw [if_neg h0]⟩

/-! ### observations -/

theorem calls_map_call (l : List Int) : calls (l.map Ev.call) = l := by
  induction l with
  | nil => rfl
  | cons x l ih => simp only [calls, List.map_cons, List.filterMap_cons] at ih ⊢; rw [ih]

theorem chunks_map_call (l : List Int) : chunks (l.map Ev.call) = [] := by
  induction l with
  | nil => rfl
  | cons x l ih => simp only [chunks, List.map_cons, List.filterMap_cons] at ih ⊢; rw [ih]

theorem calls_map_chunk {α : Type} (f g : α → Int) (l : List α) :
    calls (l.map fun c => Ev.chunk (f c) (g c)) = [] := by
  induction l with
  | nil => rfl
  | cons x l ih => simp only [calls, List.map_cons, List.filterMap_cons] at ih ⊢; rw [ih]

theorem chunks_map_chunk {α : Type} (f g : α → Int) (l : List α) :
    chunks (l.map fun c => Ev.chunk (f c) (g c)) = l.map fun c => (f c, g c) := by
  induction l with
  | nil => rfl
  | cons x l ih => simp only [chunks, List.map_cons, List.filterMap_cons] at ih ⊢; rw [ih]

theorem calls_perm {s s' : List Ev} (h : s.Perm s') : (calls s).Perm (calls s') := h.filterMap _
theorem chunks_perm {s s' : List Ev} (h : s.Perm s') : (chunks s).Perm (chunks s') := h.filterMap _

end MythVerif.ParFor
