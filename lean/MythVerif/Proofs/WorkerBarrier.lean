import MythVerif.Model.WorkerBarrier
/-! Invariant of the workers' start/stop barrier (`Model/WorkerBarrier.lean`). -/
namespace MythVerif.WBarrier
open MythVerif

/-! ### two counting lemmas (pigeonhole) -/

theorem length_le_of_nodup_subset : ∀ (l1 l2 : List Nat), l1.Nodup → (∀ x ∈ l1, x ∈ l2) → l1.length ≤ l2.length := by
  intro l1
  induction l1 with
  | nil => intro l2 _ _; simp
  | cons a l1 ih =>
    intro l2 hnd hsub
    have ha : a ∈ l2 := hsub a (by simp)
    have hnd' := List.nodup_cons.mp hnd
    have hsub' : ∀ x ∈ l1, x ∈ l2.erase a := by
      intro x hx
      have hxa : x ≠ a := fun e => hnd'.1 (e ▸ hx)
      exact (List.mem_erase_of_ne hxa).mpr (hsub x (by simp [hx]))
    have := ih (l2.erase a) hnd'.2 hsub'
    rw [List.length_erase_of_mem ha] at this
    have : 0 < l2.length := List.length_pos_of_mem ha
    simp only [List.length_cons]
    omega

theorem subset_of_nodup_of_length_le : ∀ (l1 l2 : List Nat), l1.Nodup → l2.Nodup → (∀ x ∈ l1, x ∈ l2) →
    l2.length ≤ l1.length → ∀ x ∈ l2, x ∈ l1 := by
  intro l1
  induction l1 with
  | nil =>
    intro l2 _ _ _ hlen x hx
    have : l2 = [] := List.eq_nil_of_length_eq_zero (by simpa using hlen)
    simp [this] at hx
  | cons a l1 ih =>
    intro l2 hnd hnd2 hsub hlen x hx
    have ha : a ∈ l2 := hsub a (by simp)
    have hnd' := List.nodup_cons.mp hnd
    by_cases hxa : x = a
    · simp [hxa]
    · have hsub' : ∀ y ∈ l1, y ∈ l2.erase a := by
        intro y hy
        have hya : y ≠ a := fun e => hnd'.1 (e ▸ hy)
        exact (List.mem_erase_of_ne hya).mpr (hsub y (by simp [hy]))
      have hl : (l2.erase a).length ≤ l1.length := by
        rw [List.length_erase_of_mem ha]
        simp only [List.length_cons] at hlen
        omega
      have := ih (l2.erase a) hnd'.2 (hnd2.erase a) hsub' hl x ((List.mem_erase_of_ne hxa).mpr hx)
      simp [this]

/-! ### the invariant -/

structure Inv (s : St) : Prop where
  hn : s.n = s.parts.length
  nd : s.parts.Nodup
  ph : s.phase ≤ 1
  lt : s.cur s.phase < s.n
  prev : 0 < s.gen → s.cur (1 - s.phase) = s.n
  idle : ∀ t, t ∈ s.parts → s.pc t = .idle → s.rnd t = s.gen
  wcur : ∀ t ph, s.pc t = .wait ph → t ∈ s.parts ∧
    ((ph = s.phase ∧ s.rnd t = s.gen ∧ t ∈ s.arrivedBy s.gen) ∨ (ph = 1 - s.phase ∧ s.rnd t + 1 = s.gen))
  arrN : (s.arrivedBy s.gen).Nodup
  arrL : (s.arrivedBy s.gen).length = s.cur s.phase
  arrM : ∀ t, t ∈ s.arrivedBy s.gen → t ∈ s.parts ∧ s.pc t = .wait s.phase
  past : ∀ k, k < s.gen → (s.arrivedBy k).length = s.n ∧ (s.arrivedBy k).Nodup ∧ ∀ t, t ∈ s.arrivedBy k → t ∈ s.parts
  fut : ∀ k, s.gen < k → s.arrivedBy k = []

theorem inv_init (parts : List Tid) (hnd : parts.Nodup) (hne : parts ≠ []) : Inv (init parts) := by
  have hpos : 0 < parts.length := List.length_pos_iff.mpr hne
  constructor <;> simp_all [init]

theorem inv_step (s s' : St) (l : Lbl) (hi : Inv s) (hs : step s l = some s') : Inv s' := by
  obtain ⟨hn, nd, ph, lt, prev, idle, wcur, arrN, arrL, arrM, past, fut⟩ := hi
  cases l with
  | arrive t =>
    simp only [step] at hs
    split at hs
    · rename_i hc
      obtain ⟨hpc, hmem⟩ := hc
      have htn : t ∉ s.arrivedBy s.gen := fun h => by
        have := (arrM t h).2; rw [hpc] at this; cases this
      split at hs
      · -- not the last arriver: goes to sleep
        rename_i hlt
        simp only [Option.some.injEq] at hs; subst hs
        refine ⟨hn, nd, ph, ?_, ?_, ?_, ?_, ?_, ?_, ?_, ?_, ?_⟩
        · simpa using hlt
        · intro hg
          have hne : 1 - s.phase ≠ s.phase := by omega
          simp only [upd_other _ _ _ _ hne]
          exact prev hg
        · intro u hu hpu
          by_cases hut : u = t
          · subst hut; simp at hpu
          · simp only [upd_other _ _ _ _ hut] at hpu; exact idle u hu hpu
        · intro u ph' hpu
          by_cases hut : u = t
          · subst hut
            simp only [upd_same, PC.wait.injEq] at hpu
            subst hpu
            exact ⟨hmem, Or.inl ⟨rfl, idle u hmem hpc, by simp⟩⟩
          · simp only [upd_other _ _ _ _ hut] at hpu
            obtain ⟨h1, h2⟩ := wcur u ph' hpu
            refine ⟨h1, ?_⟩
            rcases h2 with ⟨a, b, c⟩ | h2
            · exact Or.inl ⟨a, b, by simp only [upd_same]; simp [c]⟩
            · exact Or.inr h2
        · simp only [upd_same]
          exact List.nodup_append.mpr ⟨arrN, by simp, by intro a ha b hb; simp at hb; subst hb; exact fun e => htn (e ▸ ha)⟩
        · simp [arrL]
        · intro u hu
          simp only [upd_same, List.mem_append, List.mem_singleton] at hu
          rcases hu with hu | hu
          · have hut : u ≠ t := fun e => htn (e ▸ hu)
            simp only [upd_other _ _ _ _ hut]
            exact arrM u hu
          · subst hu; simp [hmem]
        · intro k hk
          dsimp only at hk ⊢
          have : k ≠ s.gen := by omega
          simp only [upd_other _ _ _ _ this]
          exact past k hk
        · intro k hk
          dsimp only at hk ⊢
          have : k ≠ s.gen := by omega
          simp only [upd_other _ _ _ _ this]
          exact fut k hk
      · -- the last arriver: flips the phase and returns
        rename_i hge
        simp only [Option.some.injEq] at hs; subst hs
        have hc : s.cur s.phase + 1 = s.n := by omega
        have hnew : (s.arrivedBy s.gen ++ [t]).Nodup :=
          List.nodup_append.mpr ⟨arrN, by simp, by intro a ha b hb; simp at hb; subst hb; exact fun e => htn (e ▸ ha)⟩
        have hsubp : ∀ x ∈ s.arrivedBy s.gen ++ [t], x ∈ s.parts := by
          intro x hx
          simp only [List.mem_append, List.mem_singleton] at hx
          rcases hx with hx | hx
          · exact (arrM x hx).1
          · subst hx; exact hmem
        have hall : ∀ u ∈ s.parts, u ∈ s.arrivedBy s.gen ++ [t] :=
          subset_of_nodup_of_length_le _ _ hnew nd hsubp (by simp [arrL]; omega)
        have hothers : ∀ u, u ∈ s.parts → u ≠ t → s.pc u = .wait s.phase := by
          intro u hu hut
          have := hall u hu
          simp only [List.mem_append, List.mem_singleton] at this
          rcases this with h | h
          · exact (arrM u h).2
          · exact absurd h hut
        have hflip : 1 - (1 - s.phase) = s.phase := by omega
        have hne : 1 - s.phase ≠ s.phase := by omega
        refine ⟨hn, nd, by simp, ?_, ?_, ?_, ?_, ?_, ?_, ?_, ?_, ?_⟩
        · simp; omega
        · intro _
          simp only [hflip]
          simp only [upd_other _ _ _ _ (Ne.symm hne), upd_same]
          exact hc
        · intro u hu hpu
          by_cases hut : u = t
          · subst hut; simp [idle u hmem hpc]
          · have := hothers u hu hut
            simp only at hpu
            rw [this] at hpu; cases hpu
        · intro u ph' hpu
          simp only at hpu
          obtain ⟨h1, _⟩ := wcur u ph' hpu
          have hut : u ≠ t := fun e => by subst e; rw [hpc] at hpu; cases hpu
          have := hothers u h1 hut
          rw [this] at hpu
          simp only [PC.wait.injEq] at hpu
          refine ⟨h1, Or.inr ⟨?_, ?_⟩⟩
          · simp only [hflip]; exact hpu.symm
          · simp only [upd_other _ _ _ _ hut]
            have h2 := (wcur u s.phase this).2
            rcases h2 with ⟨_, b, _⟩ | ⟨a, _⟩
            · omega
            · exact absurd a.symm hne
        · have : s.gen + 1 ≠ s.gen := by omega
          dsimp only
          simp only [upd_other _ _ _ _ this]
          rw [fut (s.gen + 1) (by omega)]; simp
        · have : s.gen + 1 ≠ s.gen := by omega
          dsimp only
          simp only [upd_other _ _ _ _ this]
          rw [fut (s.gen + 1) (by omega)]; simp
        · have : s.gen + 1 ≠ s.gen := by omega
          dsimp only
          simp only [upd_other _ _ _ _ this]
          rw [fut (s.gen + 1) (by omega)]; simp
        · intro k hk
          dsimp only at hk ⊢
          by_cases hkg : k = s.gen
          · subst hkg
            simp only [upd_same]
            refine ⟨by simp [arrL]; omega, hnew, ?_⟩
            intro u hu; exact hsubp u hu
          · simp only [upd_other _ _ _ _ hkg]
            exact past k (by omega)
        · intro k hk
          dsimp only at hk ⊢
          have : k ≠ s.gen := by omega
          simp only [upd_other _ _ _ _ this]
          exact fut k (by omega)
    · simp at hs
  | wake t =>
    simp only [step] at hs
    split at hs
    · rename_i ph' hpc
      split at hs
      · rename_i hcur
        simp only [Option.some.injEq] at hs; subst hs
        obtain ⟨hmem, hcase⟩ := wcur t ph' hpc
        have hB : ph' = 1 - s.phase ∧ s.rnd t + 1 = s.gen := by
          rcases hcase with ⟨a, _, _⟩ | h
          · subst a; omega
          · exact h
        have htn : t ∉ s.arrivedBy s.gen := fun h => by
          have := (arrM t h).2; rw [hpc] at this
          simp only [PC.wait.injEq] at this; omega
        refine ⟨hn, nd, ph, lt, prev, ?_, ?_, arrN, arrL, ?_, past, fut⟩
        · intro u hu hpu
          by_cases hut : u = t
          · subst hut; simp [hB.2]
          · simp only [upd_other _ _ _ _ hut] at hpu ⊢; exact idle u hu hpu
        · intro u ph'' hpu
          by_cases hut : u = t
          · subst hut; simp at hpu
          · simp only [upd_other _ _ _ _ hut] at hpu ⊢; exact wcur u ph'' hpu
        · intro u hu
          have hut : u ≠ t := fun e => htn (e ▸ hu)
          simp only [upd_other _ _ _ _ hut]
          exact arrM u hu
      · simp at hs
    · simp at hs

theorem reachable_inv (parts : List Tid) (hnd : parts.Nodup) (hne : parts ≠ []) (s : St)
    (h : Reachable step (init parts) s) : Inv s :=
  inv_reachable step (init parts) Inv (inv_init parts hnd hne) (fun s l s' hi hs => inv_step s s' l hi hs) s h

/-- the participant set and the thread count never change -/
theorem parts_const (s s' : St) (l : Lbl) (hs : step s l = some s') : s'.parts = s.parts ∧ s'.n = s.n := by
  cases l <;> simp only [step] at hs
  · split at hs
    · split at hs <;> (simp only [Option.some.injEq] at hs; subst hs; exact ⟨rfl, rfl⟩)
    · simp at hs
  · split at hs
    · split at hs
      · simp only [Option.some.injEq] at hs; subst hs; exact ⟨rfl, rfl⟩
      · simp at hs
    · simp at hs

end MythVerif.WBarrier
