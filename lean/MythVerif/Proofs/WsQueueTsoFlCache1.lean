import MythVerif.Proofs.WsQueueTsoTac
/-! Preservation lemmas of the TSO invariant (generated per program counter of the owner): drain of an owner `cache` store at po6. -/
namespace MythVerif.WsqTso
open MythVerif.Wsq

theorem f_O_cache_po6 (s : St) (x0) (rest : List Sto) (r) : Inv s → s.opc = .po6 r →
    s.bufO = .cache x0 :: rest → Inv (applySto { s with bufO := rest } (.cache x0)) := by
  intro h hpc hb
  simp only [applySto]
  tso_fastO h hpc [po6]

end MythVerif.WsqTso
