import MythVerif.Proofs.WsQueueTsoTac
/-! Preservation lemmas of the TSO invariant (drain of an owner `base` store; no buffered unlock). -/
namespace MythVerif.WsqTso
open MythVerif.Wsq


set_option maxHeartbeats 4000000 in
theorem f_O_base (s s' : St) (v : Int) (rest : List Sto) : Inv s → s.bufO = .base v :: rest →
    s' = applySto { s with bufO := rest } (.base v) → Inv s' := by
  intro h hb hs
  subst hs
  simp only [applySto]
  cases hpc : s.opc
  all_goals (cases h; simp only [hpc, ownerLocked, carry, resetting, ownerFlight] at *)
  all_goals tso_finish3

set_option maxHeartbeats 4000000 in
theorem f_O_unlock (s s' : St) (rest : List Sto) : Inv s → s.bufO = .unlock :: rest →
    s' = applySto { s with bufO := rest } .unlock → Inv s' := by
  intro h hb hs
  exfalso
  cases hpc : s.opc
  all_goals (cases h; simp only [hpc, ownerLocked, carry, resetting, ownerFlight] at *)
  all_goals grind [CarryShape, Pu2Shape, PofShape, Po6Shape, Po8Shape, Po9Shape, InsShape, Rc1Shape, Rc2Shape, RcPre, RcShape]

end MythVerif.WsqTso
