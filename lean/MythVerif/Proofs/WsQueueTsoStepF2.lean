import MythVerif.Proofs.WsQueueTsoTac
/-! Preservation lemmas of the TSO invariant (the owner never has a buffered unlock with the code's fences). -/
namespace MythVerif.WsqTso
open MythVerif.Wsq


theorem f_O_unlock (s s' : St) (rest : List Sto) : Inv s → s.bufO = .unlock :: rest →
    s' = applySto { s with bufO := rest } .unlock → Inv s' := by
  intro h hb hs
  exfalso
  cases hpc : s.opc
  all_goals tso_absurd_core h hpc

end MythVerif.WsqTso
