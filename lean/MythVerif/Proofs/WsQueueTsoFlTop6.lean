import MythVerif.Proofs.WsQueueTsoTac
/-! Preservation lemmas of the TSO invariant (generated per program counter of the owner): drain of an owner `top` store at pt8, pt9, cl3. -/
namespace MythVerif.WsqTso
open MythVerif.Wsq

theorem f_O_top_pt8 (s : St) (v0) (rest : List Sto) (e b) : Inv s → s.opc = .pt8 e b →
    s.bufO = .top v0 :: rest → Inv (applySto { s with bufO := rest } (.top v0)) := by
  intro h hpc hb
  simp only [applySto]
  tso_fastO h hpc [pt8]

theorem f_O_top_pt9 (s : St) (v0) (rest : List Sto) : Inv s → s.opc = .pt9 →
    s.bufO = .top v0 :: rest → Inv (applySto { s with bufO := rest } (.top v0)) := by
  intro h hpc hb
  simp only [applySto]
  tso_fastO h hpc [pt9]

theorem f_O_top_cl3 (s : St) (v0) (rest : List Sto) : Inv s → s.opc = .cl3 →
    s.bufO = .top v0 :: rest → Inv (applySto { s with bufO := rest } (.top v0)) := by
  intro h hpc hb
  simp only [applySto]
  tso_fastO h hpc [cl3]

end MythVerif.WsqTso
