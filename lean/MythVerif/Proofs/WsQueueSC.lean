import MythVerif.Proofs.WsQueueStepO1
import MythVerif.Proofs.WsQueueStepO2
import MythVerif.Proofs.WsQueueStepO3
import MythVerif.Proofs.WsQueueStepO4
import MythVerif.Proofs.WsQueueStepO5
import MythVerif.Proofs.WsQueueStepO6
import MythVerif.Proofs.WsQueueStepT1
import MythVerif.Proofs.WsQueueStepT2
import MythVerif.Proofs.WsQueueStepT3
import MythVerif.Proofs.WsQueueStepT4
import MythVerif.Proofs.WsQueueStepT5
import MythVerif.Proofs.WsQueueStepT6
import MythVerif.Proofs.WsQueueStepT7
import MythVerif.Proofs.WsQueueStepT8
import MythVerif.Proofs.WsQueueStepM1
import MythVerif.Proofs.WsQueueStepM2
import MythVerif.Proofs.WsQueueStepM3
/-! The invariant is inductive: every step of the SC machine preserves it; hence it holds in every
    reachable state, for every number of participants and every capacity. -/
namespace MythVerif.Wsq

theorem stepO_inv (s s' : St) : Inv s → stepO s = some s' → Inv s' := by
  intro h hs
  cases hpc : s.opc with
  | idle => simp [stepO, hpc] at hs
  | aborted => simp [stepO, hpc] at hs
  | assertFail => simp [stepO, hpc] at hs
  | pu0 e => exact o_pu0 s s' e  h hpc hs
  | pul e => exact o_pul s s' e  h hpc hs
  | pub e => exact o_pub s s' e  h hpc hs
  | pum e off => exact o_pum s s' e off  h hpc hs
  | pus e off => exact o_pus s s' e off  h hpc hs
  | puv e off => exact o_puv s s' e off  h hpc hs
  | pux e t => exact o_pux s s' e t  h hpc hs
  | pu1 e t => exact o_pu1 s s' e t  h hpc hs
  | pu2 e t => exact o_pu2 s s' e t  h hpc hs
  | pq => exact o_pq s s'  h hpc hs
  | po1 => exact o_po1 s s'  h hpc hs
  | po2 t => exact o_po2 s s' t  h hpc hs
  | po3 t x => exact o_po3 s s' t x  h hpc hs
  | pol t => exact o_pol s s' t  h hpc hs
  | po4 t => exact o_po4 s s' t  h hpc hs
  | po5 t x => exact o_po5 s s' t x  h hpc hs
  | po5b t r => exact o_po5b s s' t r  h hpc hs
  | po5c t r => exact o_po5c s s' t r  h hpc hs
  | po5d r => exact o_po5d s s' r  h hpc hs
  | po6 r => exact o_po6 s s' r  h hpc hs
  | po7 => exact o_po7 s s'  h hpc hs
  | po8 => exact o_po8 s s'  h hpc hs
  | po9 => exact o_po9 s s'  h hpc hs
  | ptl e => exact o_ptl s s' e  h hpc hs
  | pt1 e => exact o_pt1 s s' e  h hpc hs
  | pt2 e => exact o_pt2 s s' e  h hpc hs
  | pt3 e off => exact o_pt3 s s' e off  h hpc hs
  | pt4 e off => exact o_pt4 s s' e off  h hpc hs
  | pt5 e off => exact o_pt5 s s' e off  h hpc hs
  | pt7 e b => exact o_pt7 s s' e b  h hpc hs
  | pt8 e b => exact o_pt8 s s' e b  h hpc hs
  | pt9 => exact o_pt9 s s'  h hpc hs
  | cll => exact o_cll s s'  h hpc hs
  | cl1 => exact o_cl1 s s'  h hpc hs
  | cl2 => exact o_cl2 s s'  h hpc hs
  | cl3 => exact o_cl3 s s'  h hpc hs

theorem stepT_inv (s s' : St) (p : Pid) : Inv s → stepT s p = some s' → Inv s' := by
  intro h hs
  cases hpc : s.tpc p with
  | idle => simp [stepT, hpc] at hs
  | wkd b r => simp [stepT, hpc] at hs
  | tq0 => exact t_tq0 s s' p  h hpc hs
  | tq1 t => exact t_tq1 s s' p t  h hpc hs
  | tkl => exact t_tkl s s' p  h hpc hs
  | tk1 => exact t_tk1 s s' p  h hpc hs
  | tk2 b => exact t_tk2 s s' p b  h hpc hs
  | tk3 b x => exact t_tk3 s s' p b x  h hpc hs
  | tk4 r => exact t_tk4 s s' p r  h hpc hs
  | tk5 b => exact t_tk5 s s' p b  h hpc hs
  | tk6 => exact t_tk6 s s' p  h hpc hs
  | wq0 => exact t_wq0 s s' p  h hpc hs
  | wq1 t => exact t_wq1 s s' p t  h hpc hs
  | wtl => exact t_wtl s s' p  h hpc hs
  | wk1 => exact t_wk1 s s' p  h hpc hs
  | wk2 b => exact t_wk2 s s' p b  h hpc hs
  | wk3 b => exact t_wk3 s s' p b  h hpc hs
  | wk4 r => exact t_wk4 s s' p r  h hpc hs
  | wk4u r => exact t_wk4u s s' p r  h hpc hs
  | wk5 b => exact t_wk5 s s' p b  h hpc hs
  | wk6 => exact t_wk6 s s' p  h hpc hs
  | tpl e => exact t_tpl s s' p e  h hpc hs
  | tp1 e => exact t_tp1 s s' p e  h hpc hs
  | tp2 e b => exact t_tp2 s s' p e b  h hpc hs
  | tp3 e b => exact t_tp3 s s' p e b  h hpc hs
  | tp4 ok => exact t_tp4 s s' p ok  h hpc hs
  | kq0 => exact t_kq0 s s' p  h hpc hs
  | kq1 t => exact t_kq1 s s' p t  h hpc hs
  | pk1 => exact t_pk1 s s' p  h hpc hs
  | pk2 b => exact t_pk2 s s' p b  h hpc hs
  | pk3 b => exact t_pk3 s s' p b  h hpc hs
  | vq0 => exact t_vq0 s s' p  h hpc hs
  | vq1 t => exact t_vq1 s s' p t  h hpc hs
  | vc0 => exact t_vc0 s s' p  h hpc hs
  | vl => exact t_vl s s' p  h hpc hs
  | vc1 => exact t_vc1 s s' p  h hpc hs
  | vk1 => exact t_vk1 s s' p  h hpc hs
  | vk2 b => exact t_vk2 s s' p b  h hpc hs
  | vk3 b => exact t_vk3 s s' p b  h hpc hs
  | vk4 b r => exact t_vk4 s s' p b r  h hpc hs
  | vk5 b => exact t_vk5 s s' p b  h hpc hs
  | vu => exact t_vu s s' p  h hpc hs
  | vr => exact t_vr s s' p  h hpc hs

theorem step_inv (s : St) (l : Lbl) (s' : St) : Inv s → step s l = some s' → Inv s' := by
  intro h hs
  cases l with
  | oPush e => exact callO_inv s s' _ (by simp [ownerLocked, midPop, topSync, baseSync, ownerFlight]) (by simp) h hs
  | oPop => exact callO_inv s s' _ (by simp [ownerLocked, midPop, topSync, baseSync, ownerFlight]) (by simp) h hs
  | oPut e => exact callO_inv s s' _ (by simp [ownerLocked, midPop, topSync, baseSync, ownerFlight]) (by simp) h hs
  | oClear => exact callO_inv s s' _ (by simp [ownerLocked, midPop, topSync, baseSync, ownerFlight]) (by simp) h hs
  | o => exact stepO_inv s s' h hs
  | tTake p => exact callT_inv s s' p _ (by simp) h hs
  | tWTake p => exact callT_inv s s' p _ (by simp) h hs
  | tPass p e => exact callT_inv s s' p _ (by simp) h hs
  | tPeek p => exact callT_inv s s' p _ (by simp) h hs
  | tWPeek p => exact callT_inv s s' p _ (by simp) h hs
  | t p => exact stepT_inv s s' p h hs
  | tDecide p a => exact d_wkd s s' p a h hs

theorem init_inv (n : Int) (hn : 0 ≤ n) : Inv (init n) := by
  constructor
  all_goals simp [init, ownerLocked, thiefLocked, transient, midPop, topSync, baseSync, ownerFlight, thiefFlight]
  all_goals omega

/-- the invariant holds in every reachable state of the SC machine -/
theorem reachable_inv (n : Int) (hn : 0 ≤ n) (s : St) (h : Reachable step (init n) s) : Inv s :=
  inv_reachable step (init n) Inv (init_inv n hn) step_inv s h

end MythVerif.Wsq
