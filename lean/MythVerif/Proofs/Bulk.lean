import MythVerif.Model.Bulk
/-! helper lemmas for C17: fork-join schedules, the recursion of the bulk helpers -/
namespace MythVerif.Bulk

/-! ### schedules -/

theorem Interleave.perm {ε : Type} {l r m : List ε} (h : Interleave l r m) : m.Perm (l ++ r) := by
  induction h with
  | nil => exact List.Perm.refl _
  | left _ ih => exact List.Perm.cons _ ih
  | right _ ih =>
    rename_i x l r m _
    exact (List.Perm.cons x ih).trans (List.perm_middle.symm)

theorem Interleave.append {ε : Type} (l r : List ε) : Interleave l r (l ++ r) := by
  induction l with
  | nil =>
    induction r with
    | nil => exact .nil
    | cons x r ih => exact .right ih
  | cons x l ih => exact .left ih

/-- every schedule executes exactly the effects of the one-worker order (as a multiset) -/
theorem Sched.perm {ε : Type} {t : FJ ε} {s : List ε} (h : Sched t s) : s.Perm t.seq := by
  induction h with
  | leaf es => exact List.Perm.refl _
  | fork _ _ hi ihl ihr =>
    simp only [FJ.seq]
    refine List.Perm.append ?_ (List.Perm.refl _)
    rw [List.append_assoc]
    exact List.Perm.append (List.Perm.refl _) (hi.perm.trans (List.Perm.append ihl ihr))

/-- the one-worker order is a schedule -/
theorem Sched.of_seq {ε : Type} (t : FJ ε) : Sched t t.seq := by
  induction t with
  | leaf es => exact .leaf es
  | fork pre l r post ihl ihr =>
    simp only [FJ.seq]
    have := Sched.fork (pre := pre) (post := post) ihl ihr (Interleave.append _ _)
    simpa [List.append_assoc] using this

/-- what follows the join follows everything of both sides, what precedes the creation
    precedes it -/
theorem Sched.fork_inv {ε : Type} {pre post : List ε} {l r : FJ ε} {s : List ε}
    (h : Sched (.fork pre l r post) s) :
    ∃ m, s = pre ++ m ++ post ∧ m.Perm (l.seq ++ r.seq) := by
  cases h with
  | fork hl hr hi => exact ⟨_, rfl, hi.perm.trans (List.Perm.append hl.perm hr.perm)⟩

/-! ### the recursion -/

theorem item_all_isItem (p : Params) (a : Nat) : (item p a).filter Eff.isItem = item p a := by
  unfold item
  cases p.ids <;> cases p.results <;> simp [Eff.isItem]

theorem auxF_mono (p : Params) : ∀ (fuel a b : Nat) (t : FJ Eff),
    auxF p fuel a b = some t → auxF p (fuel + 1) a b = some t := by
  intro fuel
  induction fuel with
  | zero => intro a b t h; simp [auxF] at h
  | succ n ih =>
    intro a b t h
    unfold auxF at h ⊢
    split at h
    · rename_i h1; simp only [h1, if_true] at h ⊢; exact h
    · rename_i h1
      simp only [h1, if_false] at h ⊢
      cases hl : auxF p n a ((a + b) / 2) with
      | none => simp [hl] at h
      | some l =>
        cases hr : auxF p n ((a + b) / 2) b with
        | none => simp [hl, hr] at h
        | some r =>
          rw [ih _ _ _ hl, ih _ _ _ hr]
          simpa [hl, hr] using h

theorem auxF_mono_le (p : Params) (fuel fuel' a b : Nat) (t : FJ Eff) (hle : fuel ≤ fuel')
    (h : auxF p fuel a b = some t) : auxF p fuel' a b = some t := by
  induction hle with
  | refl => exact h
  | step _ ih => exact auxF_mono p _ a b t ih

/-- the result does not depend on the fuel -/
theorem auxF_unique (p : Params) (f1 f2 a b : Nat) (t1 t2 : FJ Eff)
    (h1 : auxF p f1 a b = some t1) (h2 : auxF p f2 a b = some t2) : t1 = t2 := by
  have a1 := auxF_mono_le p f1 (max f1 f2) a b t1 (Nat.le_max_left _ _) h1
  have a2 := auxF_mono_le p f2 (max f1 f2) a b t2 (Nat.le_max_right _ _) h2
  rw [a1] at a2; exact Option.some.inj a2

/-- items of `[a,b)` in loop order -/
def items (p : Params) (a b : Nat) : List Eff := (List.range' a (b - a)).flatMap (item p)

theorem items_split (p : Params) (a c b : Nat) (h1 : a ≤ c) (h2 : c ≤ b) :
    items p a c ++ items p c b = items p a b := by
  unfold items
  rw [← List.flatMap_append]
  congr 1
  have := @List.range'_append a (c - a) (b - c) 1
  simp only [Nat.one_mul] at this
  rw [show a + (c - a) = c by omega, show c - a + (b - c) = b - a by omega] at this
  exact this

/-- **termination and result of the divide-and-conquer**: on a non-empty `[a,b)` the recursion
    finishes within fuel `b - a`, creates `b - a - 1` threads and its one-worker order performs
    exactly the item effects of the sequential loop over `[a,b)`, in loop order -/
theorem auxF_spec (p : Params) : ∀ (fuel a b : Nat), a < b → b - a ≤ fuel →
    ∃ t, auxF p fuel a b = some t ∧ t.seq.filter Eff.isItem = items p a b ∧
      t.forks = b - a - 1 := by
  intro fuel
  induction fuel with
  | zero => intro a b h1 h2; omega
  | succ n ih =>
    intro a b hab hf
    unfold auxF
    by_cases h1 : b - a = 1
    · rw [if_pos h1]
      refine ⟨_, rfl, ?_, by simp [FJ.forks, h1]⟩
      simp only [FJ.seq, item_all_isItem, items, h1]
      simp [List.range']
    · rw [if_neg h1]
      have hc1 : a < (a + b) / 2 := by omega
      have hc2 : (a + b) / 2 < b := by omega
      obtain ⟨l, hl, hls, hlf⟩ := ih a ((a + b) / 2) hc1 (by omega)
      obtain ⟨r, hr, hrs, hrf⟩ := ih ((a + b) / 2) b hc2 (by omega)
      simp only [hl, hr]
      refine ⟨_, rfl, ?_, ?_⟩
      · simp only [FJ.seq, List.filter_append, hls, hrs]
        simp only [List.filter, Eff.isItem, List.nil_append, List.append_nil]
        exact items_split p a _ b (by omega) (by omega)
      · simp only [FJ.forks, hlf, hrf]; omega

/-- the pinned shape of the recursion has no base case for an empty range: `[a,a)` exhausts
    every fuel (not reachable from `myth_create_join_various_ex_body`, which tests `n == 0`) -/
theorem auxF_empty_diverges (p : Params) : ∀ (fuel a : Nat), auxF p fuel a a = none := by
  intro fuel
  induction fuel with
  | zero => intro a; rfl
  | succ n ih =>
    intro a
    unfold auxF
    have : (a + a) / 2 = a := by omega
    simp [this, ih]

/-! ### writes -/

theorem written_item (p : Params) (a : Nat) :
    (item p a).filterMap Eff.written =
      (match p.ids with | some ids => [ids + a * p.idStride] | none => []) ++
      (match p.results with | some res => [res + a * p.resStride] | none => []) := by
  unfold item
  cases p.ids <;> cases p.results <;> simp [Eff.written, List.filterMap]

theorem written_nonitem (es : List Eff) :
    es.filterMap Eff.written = (es.filter Eff.isItem).filterMap Eff.written := by
  induction es with
  | nil => rfl
  | cons e es ih =>
    cases e <;> simp [Eff.written, Eff.isItem, List.filter, List.filterMap, ih]

/-- an observation that ignores the structural events sees only the item effects -/
theorem filterMap_items {β : Type} (g : Eff → Option β) (hg : ∀ e, e.isItem = false → g e = none)
    (es : List Eff) : es.filterMap g = (es.filter Eff.isItem).filterMap g := by
  induction es with
  | nil => rfl
  | cons e es ih =>
    cases he : e.isItem with
    | true => simp [List.filter, List.filterMap, he, ih]
    | false => simp [List.filter, List.filterMap, he, hg e he, ih]

/-- in every schedule of a structure whose one-worker order has the item effects `L`, an
    item-only observation sees a permutation of what it sees on `L` -/
theorem Sched.observe {β : Type} (g : Eff → Option β) (hg : ∀ e, e.isItem = false → g e = none)
    {t : FJ Eff} {s L : List Eff} (hs : Sched t s) (hL : t.seq.filter Eff.isItem = L) :
    (s.filterMap g).Perm (L.filterMap g) := by
  rw [filterMap_items g hg s, ← hL]
  exact (hs.perm.filter _).filterMap _

theorem resAddr_nonitem : ∀ e : Eff, e.isItem = false → e.resAddr = none := by
  intro e; cases e <;> simp [Eff.isItem, Eff.resAddr]
theorem idAddr_nonitem : ∀ e : Eff, e.isItem = false → e.idAddr = none := by
  intro e; cases e <;> simp [Eff.isItem, Eff.idAddr]
theorem callOf_nonitem : ∀ e : Eff, e.isItem = false → e.callOf = none := by
  intro e; cases e <;> simp [Eff.isItem, Eff.callOf]
theorem written_nonitem' : ∀ e : Eff, e.isItem = false → e.written = none := by
  intro e; cases e <;> simp [Eff.isItem, Eff.written]

theorem loop_resAddr (p : Params) (n : Nat) :
    (loop p n).filterMap Eff.resAddr =
      match p.results with
      | some r => (List.range n).map fun i => r + i * p.resStride
      | none => [] := by
  unfold loop
  rw [List.filterMap_flatMap]
  cases hr : p.results with
  | none =>
    have : ∀ i, (item p i).filterMap Eff.resAddr = [] := by
      intro i; unfold item; cases p.ids <;> simp [hr, Eff.resAddr, List.filterMap]
    simp [this]
  | some r =>
    have : ∀ i, (item p i).filterMap Eff.resAddr = [r + i * p.resStride] := by
      intro i; unfold item; cases p.ids <;> simp [hr, Eff.resAddr, List.filterMap]
    simp only [this]
    induction (List.range n) with
    | nil => rfl
    | cons x xs ih => simp [List.flatMap_cons, ih]

theorem loop_idAddr (p : Params) (n : Nat) :
    (loop p n).filterMap Eff.idAddr =
      match p.ids with
      | some r => (List.range n).map fun i => r + i * p.idStride
      | none => [] := by
  unfold loop
  rw [List.filterMap_flatMap]
  cases hr : p.ids with
  | none =>
    have : ∀ i, (item p i).filterMap Eff.idAddr = [] := by
      intro i; unfold item; cases p.results <;> simp [hr, Eff.idAddr, List.filterMap]
    simp [this]
  | some r =>
    have : ∀ i, (item p i).filterMap Eff.idAddr = [r + i * p.idStride] := by
      intro i; unfold item; cases p.results <;> simp [hr, Eff.idAddr, List.filterMap]
    simp only [this]
    induction (List.range n) with
    | nil => rfl
    | cons x xs ih => simp [List.flatMap_cons, ih]

theorem loop_callOf (p : Params) (n : Nat) :
    (loop p n).filterMap Eff.callOf =
      (List.range n).map fun i => (p.funcs + i * p.funcStride, p.args + i * p.argStride) := by
  unfold loop
  rw [List.filterMap_flatMap]
  have : ∀ i, (item p i).filterMap Eff.callOf =
      [(p.funcs + i * p.funcStride, p.args + i * p.argStride)] := by
    intro i; unfold item; cases p.ids <;> cases p.results <;> simp [Eff.callOf, List.filterMap]
  simp only [this]
  induction (List.range n) with
  | nil => rfl
  | cons x xs ih => simp [List.flatMap_cons, ih]

/-- strided slots with a positive stride are pairwise distinct: each is hit exactly once -/
theorem count_strided (r stride n i : Nat) (hs : 0 < stride) (hi : i < n) :
    ((List.range n).map fun j => r + j * stride).count (r + i * stride) = 1 := by
  have hnd : ((List.range n).map fun j => r + j * stride).Nodup := by
    apply List.Pairwise.map _ _ List.nodup_range
    intro a b hab h
    apply hab
    have : a * stride = b * stride := by omega
    exact Nat.eq_of_mul_eq_mul_right hs this
  rw [hnd.count, if_pos]
  exact List.mem_map.mpr ⟨i, List.mem_range.mpr hi, rfl⟩

/-- `variousF` in terms of `auxF` -/
theorem variousF_spec (p : Params) (n fuel : Nat) (t : FJ Eff) (h : variousF p fuel n = some t) :
    t.seq.filter Eff.isItem = loop p n ∧ t.forks = n - 1 := by
  unfold variousF at h
  by_cases hn : n = 0
  · rw [if_pos hn] at h
    cases h
    subst hn
    simp [FJ.seq, loop, FJ.forks]
  · rw [if_neg hn] at h
    obtain ⟨t', ht', hs, hf⟩ := auxF_spec p n 0 n (by omega) (by omega)
    have := auxF_unique p fuel n 0 n t t' h ht'
    subst this
    refine ⟨?_, by simpa using hf⟩
    rw [hs, items, loop, Nat.sub_zero, List.range_eq_range']

end MythVerif.Bulk
