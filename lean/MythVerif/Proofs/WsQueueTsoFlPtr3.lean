import MythVerif.Proofs.WsQueueTsoTac
/-! Preservation lemmas of the TSO invariant (generated per program counter of the owner): drain of an owner `ptr` store at cll, pu2, pof. -/
namespace MythVerif.WsqTso
open MythVerif.Wsq

theorem f_O_ptr_cll (s : St) (i0 x0) (rest : List Sto) : Inv s → s.opc = .cll →
    s.bufO = .ptr i0 x0 :: rest → Inv (applySto { s with bufO := rest } (.ptr i0 x0)) := by
  intro h hpc hb
  simp only [applySto]
  tso_fastO h hpc [carryC]

theorem f_O_ptr_pu2 (s : St) (i0 x0) (rest : List Sto) (e t) : Inv s → s.opc = .pu2 e t →
    s.bufO = .ptr i0 x0 :: rest → Inv (applySto { s with bufO := rest } (.ptr i0 x0)) := by
  intro h hpc hb
  simp only [applySto]
  tso_fastO h hpc [pu2]

theorem f_O_ptr_pof (s : St) (i0 x0) (rest : List Sto) (t) : Inv s → s.opc = .pof t →
    s.bufO = .ptr i0 x0 :: rest → Inv (applySto { s with bufO := rest } (.ptr i0 x0)) := by
  intro h hpc hb
  simp only [applySto]
  tso_fastO h hpc [pof]

end MythVerif.WsqTso
