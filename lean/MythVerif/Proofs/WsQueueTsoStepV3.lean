import MythVerif.Proofs.WsQueueTsoTac
/-! Preservation lemmas of the TSO invariant (wsapi peek: cache word, roll-back, unlock, return). -/
namespace MythVerif.WsqTso
open MythVerif.Wsq

theorem t_vk4 (s s' : St) (p : Pid) (b r) : Inv s → s.tpc p = .vk4 b r → stepT s p = some s' → Inv s' := by
  intro h heq hs
  have hb := h.tbufE p (by simp [heq, mayBuf])
  simp only [stepT, heq, hb] at hs
  simp at hs; subst hs
  tso_fastT h p [vk4]

theorem t_vk5 (s s' : St) (p : Pid) (b) : Inv s → s.tpc p = .vk5 b → stepT s p = some s' → Inv s' := by
  intro h heq hs
  obtain ⟨hlb, htr, hsh⟩ := h.vk5 p b heq
  have hvu := h.vu
  simp only [stepT, heq] at hs
  simp at hs; subst hs
  tso_coreT h [vk5]
  constructor
  all_goals (try simp only [ownerLocked, carry, resetting, ownerFlight, upd_apply, applySto])
  case vu =>
    intro q hq
    by_cases hqp : q = p
    · simp only [hqp, if_true]
      rcases hsh with h1 | ⟨r, h1⟩
      · exact Or.inr (Or.inl ⟨by simp [h1, hlb], htr⟩)
      · exact Or.inl ⟨r, by simp [h1, hlb], htr⟩
    · simp only [hqp, if_false] at hq ⊢
      exact hvu q hq
  tso_goalsT h p

theorem t_vu (s s' : St) (p : Pid) : Inv s → s.tpc p = .vu → stepT s p = some s' → Inv s' := by
  intro h heq hs
  have hcfg := h.cfg
  have hvu := h.vu p heq
  simp only [stepT, heq, releaseT, hcfg, code_unlockFence, if_true] at hs
  split at hs
  · rename_i hb
    simp at hb
    have htr : s.tr = false := by
      rw [hb] at hvu
      rcases hvu with ⟨r, h1, _⟩ | ⟨h1, _⟩ | ⟨_, h1⟩
      · simp at h1
      · simp at h1
      · exact h1
    simp at hs; subst hs
    tso_fastT h p [vu]
  · simp at hs

theorem t_vr (s s' : St) (p : Pid) : Inv s → s.tpc p = .vr → stepT s p = some s' → Inv s' := by
  intro h heq hs
  have hb := h.tbufE p (by simp [heq, mayBuf])
  simp only [stepT, heq, hb] at hs
  simp at hs; subst hs
  tso_fastT h p []

end MythVerif.WsqTso
