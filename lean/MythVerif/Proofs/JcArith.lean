import MythVerif.Model.JcArith
/-!
Arithmetic facts about the join counter's packed word, for ALL `n` (sub-part of C07; the protocol
theorems live elsewhere).  `b = calcBits n`.

* `calcBits_spec`      : `n < 2^b`, and minimality as the code has it (`b = 0 ∨ 2^(b-1) ≤ n`)
* `mask_identity`      : `n &&& mask n = n` (the `assert` of init), `s &&& mask n = s % 2^b`, `s >>> b = s / 2^b`
* `unpack_pack`        : the two fields of `waiters * 2^b + decs` (`decs < 2^b`)
* `wait_step_fields`   : adding `2^b` leaves the decrement field unchanged, waiters + 1
* `dec_step_fields`    : adding 1 while `decs < n` leaves the waiter field unchanged, decs + 1 (the `assert` of dec)
* `n0_case`            : `n = 0`: `b = 0`, mask 0, every state reads "all decrements seen", `dec` is always "excess"
* `representable_iff`  : for `n < 2^62`, `Representable n w` ⇔ every word `pack b d w`, `d ≤ n`, is `< 2^63`
* `bv64_*`             : on representable words the `BitVec 64` (machine) operations compute the same fields
-/
namespace MythVerif.JcArith

theorem two_pow_succ (b : Nat) : 2 ^ (b + 1) = 2 * 2 ^ b := by rw [Nat.pow_succ]; omega

theorem calcBitsFrom_spec (x b : Nat) (hb : b = 0 ∨ 2 ^ (b - 1) ≤ x) :
    x < 2 ^ calcBitsFrom x b ∧ (calcBitsFrom x b = 0 ∨ 2 ^ (calcBitsFrom x b - 1) ≤ x) ∧ b ≤ calcBitsFrom x b := by
  fun_induction calcBitsFrom x b with
  | case1 b h ih =>
    have := ih (Or.inr (by simpa using h))
    omega
  | case2 b h => exact ⟨by omega, hb, Nat.le_refl _⟩

/-- **`calc_bits`**: `n < 2^b`, and `b` is minimal: `b = 0` or already `2^(b-1) ≤ n` -/
theorem calcBits_spec (n : Nat) :
    n < 2 ^ calcBits n ∧ (calcBits n = 0 ∨ 2 ^ (calcBits n - 1) ≤ n) := by
  have := calcBitsFrom_spec n 0 (Or.inl rfl)
  exact ⟨this.1, this.2.1⟩

/-- minimality, in the usual form: no smaller width is enough -/
theorem calcBits_minimal (n b' : Nat) (h : n < 2 ^ b') : calcBits n ≤ b' := by
  rcases (calcBits_spec n).2 with h0 | h1
  · omega
  · apply Classical.byContradiction
    intro hc
    have : 2 ^ b' ≤ 2 ^ (calcBits n - 1) := Nat.pow_le_pow_right (by omega) (by omega)
    omega

/-- the comment in the source: 1 → 1, 2 → 2, 3 → 2, 4 → 3; and 0 → 0 -/
theorem calcBits_examples : calcBits 0 = 0 ∧ calcBits 1 = 1 ∧ calcBits 2 = 2 ∧ calcBits 3 = 2 ∧ calcBits 4 = 3 := by
  refine ⟨?_, ?_, ?_, ?_, ?_⟩ <;> simp [calcBits, calcBitsFrom]

theorem calcBits_eq_zero_iff (n : Nat) : calcBits n = 0 ↔ n = 0 := by
  have h := calcBits_spec n
  constructor
  · intro h0; rw [h0] at h; omega
  · rintro rfl; exact calcBits_examples.1

theorem and_mask (n s : Nat) : s &&& mask n = s % 2 ^ calcBits n := by
  unfold mask; exact Nat.and_two_pow_sub_one_eq_mod s _

theorem decsOf_eq (n s : Nat) : decsOf n s = s % 2 ^ calcBits n := and_mask n s
theorem waitersOf_eq (n s : Nat) : waitersOf n s = s / 2 ^ calcBits n := Nat.shiftRight_eq_div_pow s _

/-- **mask identity** (the `assert` of `myth_join_counter_init_body`), with the arithmetic reading
    of the two field extractions -/
theorem mask_identity (n : Nat) :
    n &&& mask n = n ∧ (∀ s, s &&& mask n = s % 2 ^ calcBits n) ∧ (∀ s, s >>> calcBits n = s / 2 ^ calcBits n) :=
  ⟨by rw [and_mask]; exact Nat.mod_eq_of_lt (calcBits_spec n).1, and_mask n, fun s => Nat.shiftRight_eq_div_pow s _⟩

theorem pow_pos' (b : Nat) : 0 < 2 ^ b := Nat.pos_of_ne_zero (by simp)

/-- the two fields of a packed word -/
theorem unpack_pack (n d w : Nat) (hd : d < 2 ^ calcBits n) :
    decsOf n (pack (calcBits n) d w) = d ∧ waitersOf n (pack (calcBits n) d w) = w := by
  rw [decsOf_eq, waitersOf_eq]; unfold pack
  constructor
  · rw [Nat.add_comm, Nat.add_mul_mod_self_right]; exact Nat.mod_eq_of_lt hd
  · rw [Nat.add_comm, Nat.add_mul_div_right _ _ (pow_pos' _), Nat.div_eq_of_lt hd]; omega

/-- every word is the packing of its two fields -/
theorem pack_unpack (n s : Nat) : pack (calcBits n) (decsOf n s) (waitersOf n s) = s := by
  rw [decsOf_eq, waitersOf_eq]; unfold pack
  have := Nat.div_add_mod s (2 ^ calcBits n)
  rw [Nat.mul_comm] at this; exact this

/-- **field independence, wait**: adding `2^b` (a waiter announces itself) leaves the decrement
    field unchanged and adds one waiter -/
theorem wait_step_fields (n s : Nat) :
    decsOf n (s + 2 ^ calcBits n) = decsOf n s ∧ waitersOf n (s + 2 ^ calcBits n) = waitersOf n s + 1 := by
  simp only [decsOf_eq, waitersOf_eq]
  constructor
  · exact Nat.add_mod_right s _
  · exact Nat.add_div_right s (pow_pos' _)

/-- **field independence, dec**: adding 1 while fewer than `n` decrements have been seen leaves the
    waiter field unchanged and adds one decrement (the `assert` of `myth_join_counter_dec_body`) -/
theorem dec_step_fields (n s : Nat) (h : decsOf n s < n) :
    waitersOf n (s + 1) = waitersOf n s ∧ decsOf n (s + 1) = decsOf n s + 1 := by
  simp only [decsOf_eq, waitersOf_eq] at *
  have hn := (calcBits_spec n).1
  have hp := pow_pos' (calcBits n)
  generalize 2 ^ calcBits n = P at *
  have hdm := Nat.div_add_mod s P
  have hlt : s % P + 1 < P := by omega
  constructor
  · have h1 : s + 1 = (s % P + 1) + (s / P) * P := by rw [Nat.mul_comm]; omega
    rw [h1, Nat.add_mul_div_right _ _ hp, Nat.div_eq_of_lt hlt]; omega
  · have h1 : s + 1 = (s % P + 1) + (s / P) * P := by rw [Nat.mul_comm]; omega
    rw [h1, Nat.add_mul_mod_self_right, Nat.mod_eq_of_lt hlt]

/-- `dec` in terms of the fields -/
theorem dec_spec (n s : Nat) :
    (decsOf n s ≥ n → dec n s = none) ∧
    (decsOf n s < n → ∃ wake, dec n s = some (s + 1, wake) ∧
        decsOf n (s + 1) = decsOf n s + 1 ∧ waitersOf n (s + 1) = waitersOf n s ∧
        (decsOf n s + 1 = n → wake = waitersOf n s) ∧ (decsOf n s + 1 < n → wake = 0)) := by
  constructor
  · intro h; simp [dec, h]
  · intro h
    have hf := dec_step_fields n s h
    refine ⟨_, by simp only [dec]; rw [if_neg (by omega)], hf.2, hf.1, ?_, ?_⟩
    · intro h1; rw [if_pos (by omega)]
    · intro h1; rw [if_neg (by omega)]

/-- **`n = 0`**: width 0, mask 0, every state reads "all 0 decrements seen" (a wait returns at once),
    and a decrement is always "excess" -/
theorem n0_case : calcBits 0 = 0 ∧ mask 0 = 0 ∧ (∀ s, decsOf 0 s = 0) ∧ (∀ s, waitAnnounce 0 s = none) ∧
    (∀ s, dec 0 s = none) := by
  have hb : calcBits 0 = 0 := calcBits_examples.1
  have hm : mask 0 = 0 := by simp [mask, hb]
  have hd : ∀ s, decsOf 0 s = 0 := by intro s; simp [decsOf, hm]
  exact ⟨hb, hm, hd, by intro s; simp [waitAnnounce, hd], by intro s; simp [dec, hd]⟩

/-! ### which (n, waiters) fit the 64-bit word -/

theorem calcBits_le_62 (n : Nat) (h : n < 2 ^ 62) : calcBits n ≤ 62 := calcBits_minimal n 62 h

/-- **representability is exactly "no word of the counter's life reaches 2^63"** (for `n < 2^62`,
    the range in which `calc_bits` itself does not shift into the sign bit) -/
theorem representable_iff (n w : Nat) (hn : n < 2 ^ 62) :
    Representable n w ↔ ∀ d, d ≤ n → pack (calcBits n) d w < 2 ^ 63 := by
  have hb := calcBits_le_62 n hn
  have hs := (calcBits_spec n).1
  have hsplit : 2 ^ 63 = 2 ^ (63 - calcBits n) * 2 ^ calcBits n := by
    rw [← Nat.pow_add]; congr 1; omega
  unfold Representable pack
  constructor
  · rintro ⟨_, hw⟩ d hd
    have : (w + 1) * 2 ^ calcBits n ≤ 2 ^ (63 - calcBits n) * 2 ^ calcBits n := Nat.mul_le_mul_right _ hw
    rw [Nat.add_mul] at this
    omega
  · intro h
    refine ⟨hn, ?_⟩
    have h0 := h 0 (Nat.zero_le _)
    apply Classical.byContradiction
    intro hc
    have : 2 ^ (63 - calcBits n) * 2 ^ calcBits n ≤ w * 2 ^ calcBits n := Nat.mul_le_mul_right _ (by omega)
    omega

/-- a representable word and everything the code derives from it fit 63 bits -/
theorem representable_bounds (n w d : Nat) (h : Representable n w) (hd : d ≤ n) :
    calcBits n ≤ 62 ∧ 2 ^ calcBits n ≤ 2 ^ 62 ∧ mask n < 2 ^ 62 ∧ pack (calcBits n) d w < 2 ^ 63 := by
  have hb := calcBits_le_62 n h.1
  have hp : 2 ^ calcBits n ≤ 2 ^ 62 := Nat.pow_le_pow_right (by omega) hb
  have hpos := pow_pos' (calcBits n)
  exact ⟨hb, hp, by unfold mask; omega, (representable_iff n w h.1).mp h d hd⟩

/-! ### BitVec 64: the machine computes the same -/

/-- `1L << b` -/
theorem bv64_one_shl (b : Nat) (hb : b ≤ 62) : ((1#64) <<< b).toNat = 2 ^ b := by
  rw [BitVec.toNat_shiftLeft]
  simp only [BitVec.toNat_ofNat, Nat.shiftLeft_eq]
  have : 2 ^ b ≤ 2 ^ 62 := Nat.pow_le_pow_right (by omega) hb
  omega

/-- **BitVec 64 corollary**: for a representable `(n, w)` and `d ≤ n`, with
    `s = BitVec.ofNat 64 (pack b d w)` and `m = (1 <<< b) - 1`:
    `s &&& m` is `d`, `s >>> b` is `w`, the word is non-negative as a signed `long`,
    `s + (1 <<< b)` has fields `(d, w + 1)` when `(n, w + 1)` is still representable,
    `s + 1` has fields `(d + 1, w)` when `d < n`; `n &&& m = n`. -/
theorem bv64_fields (n w d : Nat) (h : Representable n w) (hd : d ≤ n) :
    let b := calcBits n
    let s : BitVec 64 := BitVec.ofNat 64 (pack b d w)
    let m : BitVec 64 := ((1#64) <<< b) - 1#64
    m.toNat = mask n ∧
    (s &&& m).toNat = d ∧ (s >>> b).toNat = w ∧ s.msb = false ∧
    (BitVec.ofNat 64 n &&& m).toNat = n ∧
    (Representable n (w + 1) → ((s + ((1#64) <<< b)) &&& m).toNat = d ∧ ((s + ((1#64) <<< b)) >>> b).toNat = w + 1) ∧
    (d < n → ((s + 1#64) &&& m).toNat = d + 1 ∧ ((s + 1#64) >>> b).toNat = w) := by
  intro b s m
  obtain ⟨hb, hp, hmk, hpk⟩ := representable_bounds n w d h hd
  have hspec := (calcBits_spec n).1
  have hdlt : d < 2 ^ calcBits n := by omega
  have hpos := pow_pos' (calcBits n)
  have hs : s.toNat = pack (calcBits n) d w := by
    simp only [s, b, BitVec.toNat_ofNat]; omega
  have hm : m.toNat = mask n := by
    simp only [m, b, BitVec.toNat_sub, bv64_one_shl _ hb, BitVec.toNat_ofNat, mask]; omega
  have hup := unpack_pack n d w hdlt
  rw [decsOf, waitersOf] at hup
  refine ⟨hm, ?_, ?_, ?_, ?_, ?_, ?_⟩
  · rw [BitVec.toNat_and, hs, hm]; exact hup.1
  · rw [BitVec.toNat_ushiftRight, hs]; exact hup.2
  · rw [BitVec.msb_eq_decide]; simp only [hs]; simp; omega
  · rw [BitVec.toNat_and, hm, BitVec.toNat_ofNat, Nat.mod_eq_of_lt (by omega)]; exact (mask_identity n).1
  · intro h'
    have hpk' := (representable_bounds n (w + 1) d h' hd).2.2.2
    have hadd : (s + ((1#64) <<< b)).toNat = pack (calcBits n) d (w + 1) := by
      rw [BitVec.toNat_add, hs, bv64_one_shl _ hb]
      have : pack (calcBits n) d w + 2 ^ calcBits n = pack (calcBits n) d (w + 1) := by
        unfold pack; rw [Nat.add_mul]; omega
      rw [this]; omega
    have hup' := unpack_pack n d (w + 1) hdlt
    rw [decsOf, waitersOf] at hup'
    constructor
    · rw [BitVec.toNat_and, hadd, hm]; exact hup'.1
    · rw [BitVec.toNat_ushiftRight, hadd]; exact hup'.2
  · intro hdn
    have hdlt' : d + 1 < 2 ^ calcBits n := by omega
    have hadd : (s + 1#64).toNat = pack (calcBits n) (d + 1) w := by
      rw [BitVec.toNat_add, hs]
      simp only [BitVec.toNat_ofNat]
      have : pack (calcBits n) d w + 1 = pack (calcBits n) (d + 1) w := by unfold pack; omega
      have h2 := (representable_bounds n w (d + 1) h (by omega)).2.2.2
      omega
    have hup' := unpack_pack n (d + 1) w hdlt'
    rw [decsOf, waitersOf] at hup'
    constructor
    · rw [BitVec.toNat_and, hadd, hm]; exact hup'.1
    · rw [BitVec.toNat_ushiftRight, hadd]; exact hup'.2

/-- the guard is sharp: one waiter more than representable makes the word reach the sign bit -/
theorem not_representable_overflows (n : Nat) (hn : n < 2 ^ 62) :
    2 ^ 63 ≤ pack (calcBits n) 0 (2 ^ (63 - calcBits n)) := by
  have hb := calcBits_le_62 n hn
  unfold pack
  rw [← Nat.pow_add, show 63 - calcBits n + calcBits n = 63 by omega]; omega

/-- non-vacuity of the guard on both sides -/
example : Representable 5 1000 ∧ ¬ Representable (2 ^ 62) 0 ∧ Representable 0 (2 ^ 63 - 1) ∧
    ¬ Representable 0 (2 ^ 63) := by
  simp [Representable, calcBits, calcBitsFrom]

end MythVerif.JcArith
