import MythVerif.Model.MutexStaticInit
/-!
Inductive invariant of the static-initialiser conversion model and its consequences
(`MythVerif.SInit`).  One preservation lemma per label; lifted with `inv_reachable`.
-/
namespace MythVerif.SInit
open MythVerif

/-- the memory's first word is not one of the two magic numbers -/
def Raw (z : Nat) : Prop := z ≠ mNo ∧ z ≠ mIni

structure Inv (z : Nat) (s : St) : Prop where
  magic3 : s.magic = z ∨ s.magic = mIni ∨ s.magic = mNo
  c0 : s.convs = 0 ↔ s.magic = z
  c1 : s.convs ≤ 1
  cv0 : s.converter = none ↔ s.convs = 0
  own : ∀ t, converting (s.pc t) = true → s.converter = some t
  ini : ∀ w, s.converter = some w → (converting (s.pc w) = true ↔ s.magic = mIni)
  body : ∀ t, s.pc t = .body → s.magic = mNo
  chk : ∀ t, s.pc t = .chk → s.magic = mNo
  spin : ∀ t, s.pc t = .spin → s.convs = 1
  rd : ∀ t v, s.pc t = .rd v → v ≠ mNo ∧ (v = z ∨ (v = mIni ∧ s.convs = 1))
  won : ∀ t a q st m, s.pc t = .won a q st m →
          (a = true → s.atype = dfltType) ∧ (q = true → s.qEmpty = true) ∧ (st = true → s.mstate = 0)
  fen : ∀ t, s.pc t = .fenced → s.atype = dfltType ∧ s.qEmpty = true ∧ s.mstate = 0
  pub : s.magic = mNo → s.pubFresh = true
  fresh0 : s.magic = mNo → s.bodySteps = 0 → s.atype = dfltType ∧ s.qEmpty = true ∧ s.mstate = 0
  bs : s.magic ≠ mNo → s.bodySteps = 0

theorem inv_init (z a : Nat) (q : Bool) (st : Nat) (hz : Raw z) : Inv z (init z a q st) := by
  obtain ⟨h1, h2⟩ := hz
  constructor <;> simp [init, converting] <;> grind

theorem fresh_iff (s : St) : s.fresh = true ↔ s.atype = dfltType ∧ s.qEmpty = true ∧ s.mstate = 0 := by
  simp [St.fresh, and_assoc]

section steps
variable {z : Nat} {s s' : St}

theorem inv_read (hz : Raw z) (t : Tid) (v : Nat) (hi : Inv z s) (hs : step s (.read t v) = some s') : Inv z s' := by
  obtain ⟨h1, h2⟩ := hz
  have hne := mNo_ne_mIni
  obtain ⟨magic3, c0, c1, cv0, own, ini, body, chk, spin, rd, won, fen, pub, fresh0, bs⟩ := hi
  simp only [step] at hs
  split at hs
  · rename_i hc
    obtain ⟨hv, hp⟩ := hc
    split at hs <;> (simp at hs; subst hs; constructor <;> simp only [upd_apply, converting] at * <;> grind [converting])
  · simp at hs

theorem inv_skipCas (hz : Raw z) (t : Tid) (hi : Inv z s) (hs : step s (.skipCas t) = some s') : Inv z s' := by
  obtain ⟨h1, h2⟩ := hz
  have hne := mNo_ne_mIni
  obtain ⟨magic3, c0, c1, cv0, own, ini, body, chk, spin, rd, won, fen, pub, fresh0, bs⟩ := hi
  simp only [step] at hs
  split at hs
  · rename_i v hp
    split at hs
    · simp at hs; subst hs
      constructor <;> simp only [upd_apply, converting] at * <;> grind [converting]
    · simp at hs
  · simp at hs

theorem inv_cas (hz : Raw z) (t : Tid) (ok : Bool) (hi : Inv z s) (hs : step s (.cas t ok) = some s') : Inv z s' := by
  obtain ⟨h1, h2⟩ := hz
  have hne := mNo_ne_mIni
  obtain ⟨magic3, c0, c1, cv0, own, ini, body, chk, spin, rd, won, fen, pub, fresh0, bs⟩ := hi
  simp only [step] at hs
  split at hs
  · rename_i v hp
    split at hs
    · rename_i hc
      obtain ⟨hv, hok⟩ := hc
      have hrd := rd t v hp
      split at hs
      · simp at hs; subst hs
        rename_i hok1
        have hm : s.magic = v := by simp [hok1] at hok; exact hok
        have hvz : v = z := by grind
        have hc0 : s.convs = 0 := by grind
        have hnone : s.converter = none := cv0.mpr hc0
        constructor <;> simp only [upd_apply, converting] at * <;> grind [converting]
      · simp at hs; subst hs
        rename_i hok1
        have hm : s.magic ≠ v := by simp [hok1] at hok; exact hok
        have hc1 : s.convs = 1 := by grind
        constructor <;> simp only [upd_apply, converting] at * <;> grind [converting]
    · simp at hs
  · simp at hs

theorem inv_copyWord (hz : Raw z) (t : Tid) (w : Word) (hi : Inv z s) (hs : step s (.copyWord t w) = some s') : Inv z s' := by
  obtain ⟨h1, h2⟩ := hz
  have hne := mNo_ne_mIni
  obtain ⟨magic3, c0, c1, cv0, own, ini, body, chk, spin, rd, won, fen, pub, fresh0, bs⟩ := hi
  simp only [step] at hs
  split at hs
  all_goals first
    | (simp at hs; done)
    | (rename_i hp
       simp at hs; subst hs
       have hcv : converting (s.pc t) = true := by rw [hp]; rfl
       have hown := own t hcv
       have hmi := (ini t hown).mp hcv
       constructor <;> simp only [upd_apply, converting] at * <;> grind [converting])

theorem inv_fence (hz : Raw z) (t : Tid) (hi : Inv z s) (hs : step s (.fence t) = some s') : Inv z s' := by
  obtain ⟨h1, h2⟩ := hz
  have hne := mNo_ne_mIni
  obtain ⟨magic3, c0, c1, cv0, own, ini, body, chk, spin, rd, won, fen, pub, fresh0, bs⟩ := hi
  simp only [step] at hs
  split at hs
  · rename_i hp
    simp at hs; subst hs
    have hcv : converting (s.pc t) = true := by rw [hp]; rfl
    have hown := own t hcv
    have hmi := (ini t hown).mp hcv
    have hw := won t true true true true hp
    constructor <;> simp only [upd_apply, converting] at * <;> grind [converting]
  · simp at hs

theorem inv_publish (hz : Raw z) (t : Tid) (hi : Inv z s) (hs : step s (.publish t) = some s') : Inv z s' := by
  obtain ⟨h1, h2⟩ := hz
  have hne := mNo_ne_mIni
  obtain ⟨magic3, c0, c1, cv0, own, ini, body, chk, spin, rd, won, fen, pub, fresh0, bs⟩ := hi
  simp only [step] at hs
  split at hs
  · rename_i hp
    simp at hs; subst hs
    have hcv : converting (s.pc t) = true := by rw [hp]; rfl
    have hown := own t hcv
    have hmi := (ini t hown).mp hcv
    have hf := fen t hp
    have hfr : s.fresh = true := (fresh_iff s).mpr hf
    have hb0 : s.bodySteps = 0 := bs (by rw [hmi]; exact fun h => hne h.symm)
    have hothers : ∀ u, u ≠ t → converting (s.pc u) = false := by
      intro u hu
      cases hcu : converting (s.pc u) with
      | false => rfl
      | true => have := own u hcu; rw [hown] at this; exact absurd (Option.some.inj this).symm hu
    constructor <;> simp only [upd_apply, converting] at * <;> grind [converting]
  · simp at hs

theorem inv_spinRead (hz : Raw z) (t : Tid) (v : Nat) (hi : Inv z s) (hs : step s (.spinRead t v) = some s') : Inv z s' := by
  obtain ⟨h1, h2⟩ := hz
  have hne := mNo_ne_mIni
  obtain ⟨magic3, c0, c1, cv0, own, ini, body, chk, spin, rd, won, fen, pub, fresh0, bs⟩ := hi
  simp only [step] at hs
  split at hs
  · rename_i hc
    obtain ⟨hv, hp⟩ := hc
    have hsp := spin t hp
    split at hs
    · simp at hs; subst hs
      exact ⟨magic3, c0, c1, cv0, own, ini, body, chk, spin, rd, won, fen, pub, fresh0, bs⟩
    · simp at hs; subst hs
      constructor <;> simp only [upd_apply, converting] at * <;> grind [converting]
  · simp at hs

theorem inv_assertRead (hz : Raw z) (t : Tid) (v : Nat) (hi : Inv z s) (hs : step s (.assertRead t v) = some s') : Inv z s' := by
  obtain ⟨h1, h2⟩ := hz
  have hne := mNo_ne_mIni
  obtain ⟨magic3, c0, c1, cv0, own, ini, body, chk, spin, rd, won, fen, pub, fresh0, bs⟩ := hi
  simp only [step] at hs
  split at hs
  · rename_i hc
    obtain ⟨hv, hp⟩ := hc
    have hck := chk t hp
    simp at hs; subst hs
    constructor <;> simp only [upd_apply, converting] at * <;> grind [converting]
  · simp at hs

theorem inv_bodyStep (hz : Raw z) (t : Tid) (st' : Nat) (q' : Bool) (hi : Inv z s)
    (hs : step s (.bodyStep t st' q') = some s') : Inv z s' := by
  obtain ⟨h1, h2⟩ := hz
  have hne := mNo_ne_mIni
  obtain ⟨magic3, c0, c1, cv0, own, ini, body, chk, spin, rd, won, fen, pub, fresh0, bs⟩ := hi
  simp only [step] at hs
  split at hs
  · rename_i hp
    have hb := body t hp
    simp at hs; subst hs
    have hnoconv : ∀ u, converting (s.pc u) = false := by
      intro u
      cases hcu : converting (s.pc u) with
      | false => rfl
      | true =>
        have := (ini u (own u hcu)).mp hcu
        rw [hb] at this; exact absurd this hne
    constructor <;> simp only [converting] at * <;> grind [converting]
  · simp at hs

theorem inv_leave (hz : Raw z) (t : Tid) (hi : Inv z s) (hs : step s (.leave t) = some s') : Inv z s' := by
  obtain ⟨h1, h2⟩ := hz
  have hne := mNo_ne_mIni
  obtain ⟨magic3, c0, c1, cv0, own, ini, body, chk, spin, rd, won, fen, pub, fresh0, bs⟩ := hi
  simp only [step] at hs
  split at hs
  · rename_i hp
    have hb := body t hp
    simp at hs; subst hs
    constructor <;> simp only [upd_apply, converting] at * <;> grind [converting]
  · simp at hs

end steps

theorem inv_step {z : Nat} (hz : Raw z) (s : St) (l : Lbl) (s' : St) (hi : Inv z s) (hs : step s l = some s') : Inv z s' := by
  cases l with
  | read t v => exact inv_read hz t v hi hs
  | skipCas t => exact inv_skipCas hz t hi hs
  | cas t ok => exact inv_cas hz t ok hi hs
  | copyWord t w => exact inv_copyWord hz t w hi hs
  | fence t => exact inv_fence hz t hi hs
  | publish t => exact inv_publish hz t hi hs
  | spinRead t v => exact inv_spinRead hz t v hi hs
  | assertRead t v => exact inv_assertRead hz t v hi hs
  | bodyStep t a b => exact inv_bodyStep hz t a b hi hs
  | leave t => exact inv_leave hz t hi hs

theorem reachable_inv {z a : Nat} {q : Bool} {st : Nat} (hz : Raw z) (s : St)
    (h : Reachable step (init z a q st) s) : Inv z s :=
  inv_reachable step (init z a q st) (Inv z) (inv_init z a q st hz) (inv_step hz) s h

/-! ### consequences used by the property theorems -/

theorem convs_step (s s' : St) (l : Lbl) (hs : step s l = some s') :
    s'.convs = s.convs + (if isWin l = true then 1 else 0) := by
  cases l <;> simp only [step] at hs <;> (repeat' split at hs) <;> simp at hs <;> (try subst hs) <;> simp_all [isWin]

theorem convs_runs (ls : List Lbl) (s0 s : St) (h : runs step s0 ls = some s) :
    s.convs = s0.convs + ls.countP isWin := by
  induction ls generalizing s0 with
  | nil => simp [runs] at h; subst h; simp
  | cons l ls ih =>
    simp only [runs] at h
    split at h
    · rename_i s1 h1
      have := ih s1 h
      have h2 := convs_step s0 s1 l h1
      rw [List.countP_cons]
      split at h2 <;> simp_all <;> omega
    · simp at h

/-- the magic word becomes `magic_no` exactly by a `publish` label and never changes afterwards -/
theorem magic_step {z : Nat} (hz : Raw z) (s s' : St) (l : Lbl) (hi : Inv z s) (hs : step s l = some s') :
    (isPublish l = true ∧ s.magic ≠ mNo ∧ s'.magic = mNo) ∨
    (isPublish l = false ∧ (s'.magic = mNo ↔ s.magic = mNo)) := by
  obtain ⟨h1, h2⟩ := hz
  have hne := mNo_ne_mIni
  cases l with
  | publish t =>
    left
    simp only [step] at hs
    split at hs
    · rename_i hp
      simp at hs; subst hs
      have hcv : converting (s.pc t) = true := by rw [hp]; rfl
      have hmi := (hi.ini t (hi.own t hcv)).mp hcv
      refine ⟨rfl, ?_, rfl⟩
      rw [hmi]; exact fun h => hne h.symm
    · simp at hs
  | cas t ok =>
    right
    refine ⟨rfl, ?_⟩
    simp only [step] at hs
    split at hs
    · rename_i v hp
      split at hs
      · rename_i hc
        split at hs
        · simp at hs; subst hs
          rename_i hok1
          have hm : s.magic = v := by have := hc.2; simp [hok1] at this; exact this
          have := (hi.rd t v hp).1
          simp; constructor
          · intro h; exact absurd h.symm hne
          · intro h; rw [hm] at h; exact absurd h this
        · simp at hs; subst hs; rfl
      · simp at hs
    · simp at hs
  | copyWord t w =>
    right
    refine ⟨rfl, ?_⟩
    simp only [step] at hs
    split at hs
    all_goals first
      | (simp at hs; done)
      | (rename_i hp
         simp at hs; subst hs
         have hcv : converting (s.pc t) = true := by rw [hp]; rfl
         have hmi := (hi.ini t (hi.own t hcv)).mp hcv
         simp [hmi])
  | read t v => right; refine ⟨rfl, ?_⟩; simp only [step] at hs; (repeat' split at hs) <;> simp at hs <;> subst hs <;> rfl
  | skipCas t => right; refine ⟨rfl, ?_⟩; simp only [step] at hs; (repeat' split at hs) <;> simp at hs <;> subst hs <;> rfl
  | fence t => right; refine ⟨rfl, ?_⟩; simp only [step] at hs; (repeat' split at hs) <;> simp at hs <;> subst hs <;> rfl
  | spinRead t v => right; refine ⟨rfl, ?_⟩; simp only [step] at hs; (repeat' split at hs) <;> simp at hs <;> subst hs <;> rfl
  | assertRead t v => right; refine ⟨rfl, ?_⟩; simp only [step] at hs; (repeat' split at hs) <;> simp at hs <;> subst hs <;> rfl
  | bodyStep t a b => right; refine ⟨rfl, ?_⟩; simp only [step] at hs; (repeat' split at hs) <;> simp at hs <;> subst hs <;> rfl
  | leave t => right; refine ⟨rfl, ?_⟩; simp only [step] at hs; (repeat' split at hs) <;> simp at hs <;> subst hs <;> rfl

theorem publishes_runs {z : Nat} (hz : Raw z) (ls : List Lbl) (s0 s : St) (hi : Inv z s0)
    (h : runs step s0 ls = some s) :
    ls.countP isPublish + (if s0.magic = mNo then 1 else 0) = (if s.magic = mNo then 1 else 0) := by
  induction ls generalizing s0 with
  | nil => simp [runs] at h; subst h; simp
  | cons l ls ih =>
    simp only [runs] at h
    split at h
    · rename_i s1 h1
      have := ih s1 (inv_step hz s0 l s1 hi h1) h
      rw [List.countP_cons]
      rcases magic_step hz s0 s1 l hi h1 with ⟨a, b, c⟩ | ⟨a, b⟩
      · simp [a, b, c] at this ⊢; omega
      · by_cases hm : s0.magic = mNo
        · have := b.mpr hm; simp_all
        · have : s1.magic ≠ mNo := fun h => hm (b.mp h)
          simp_all
    · simp at h

/-- a label on which the handler returns leaves its actor inside the mutex body -/
theorem entersBody_pc (s s' : St) (l : Lbl) (hs : step s l = some s') (he : entersBody l = true) :
    s'.pc l.actor = .body := by
  cases l <;> simp [entersBody] at he <;> simp only [step] at hs <;> (repeat' split at hs) <;> simp at hs <;>
    (try subst hs) <;> simp_all [Lbl.actor]

theorem runs_split {S L : Type} (st : S → L → Option S) (s0 s : S) (pre : List L) (l : L) (post : List L)
    (h : runs st s0 (pre ++ l :: post) = some s) :
    ∃ s1 s2, runs st s0 pre = some s1 ∧ st s1 l = some s2 ∧ runs st s2 post = some s := by
  rw [runs_append] at h
  cases h1 : runs st s0 pre with
  | none => simp [h1] at h
  | some s1 =>
    simp [h1, runs] at h
    split at h
    · rename_i s2 h2; exact ⟨s1, s2, rfl, h2, h⟩
    · simp at h

end MythVerif.SInit
