import MythVerif.Proofs.WsQueueTsoTac
/-! Preservation lemmas of the TSO invariant (owner: put, up to the slot store). -/
namespace MythVerif.WsqTso
open MythVerif.Wsq

theorem o_ptl (s s' : St) (e) : Inv s → s.opc = .ptl e → stepO s = some s' → Inv s' := by
  intro h heq hs
  simp only [stepO, heq] at hs
  split at hs
  · rename_i hb
    simp at hb
    split at hs
    · simp at hs; subst hs
      tso_fastO h heq [carryC]
    · simp at hs; subst hs; exact h
  · simp at hs

theorem o_pt1 (s s' : St) (e) : Inv s → s.opc = .pt1 e → stepO s = some s' → Inv s' := by
  intro h heq hs
  have hb := (h.pt1 e heq).1
  simp only [stepO, heq, hb, viewBase_nil] at hs
  split at hs
  all_goals (simp at hs; subst hs)
  all_goals tso_fastO h heq [pt1]

theorem o_pt6 (s s' : St) (e) : Inv s → s.opc = .pt6 e → stepO s = some s' → Inv s' := by
  intro h heq hs
  have hv := rcshape_viewBase _ _ _ _ _ _ (h.pt6 e heq)
  simp only [stepO, heq, hv] at hs
  simp at hs; subst hs
  tso_fastO h heq [pt6]

theorem o_pt7 (s s' : St) (e b) : Inv s → s.opc = .pt7 e b → stepO s = some s' → Inv s' := by
  intro h heq hs
  obtain ⟨hbeq, hsh⟩ := h.pt7 e b heq
  simp only [stepO, heq] at hs
  simp at hs; subst hs
  tso_coreO h heq [pt7]
  constructor
  all_goals (try simp only [ownerLocked, carry, resetting, ownerFlight, upd_apply, applySto])
  case pt8 =>
    intro e1 b1 h1
    simp at h1
    obtain ⟨rfl, rfl⟩ := h1
    refine ⟨hbeq, ?_⟩
    rcases hsh with hp | ⟨h1, h2, h3, h4⟩
    · exact Or.inl (by simpa using rcpre_append _ _ _ _ _ _ (.ptr (b - 1) (some e)) hp)
    · exact Or.inr ⟨h2, h3, h4, Or.inr (by simp [h1])⟩
  tso_goalsO h heq

end MythVerif.WsqTso
