import MythVerif.Proofs.WsQueueTsoTac
/-! Preservation lemmas of the TSO invariant (owner: clear). -/
namespace MythVerif.WsqTso
open MythVerif.Wsq

theorem o_cll (s s' : St) : Inv s → s.opc = .cll → stepO s = some s' → Inv s' := by
  intro h heq hs
  simp only [stepO, heq] at hs
  split at hs
  · rename_i hb
    simp at hb
    split at hs
    · simp at hs; subst hs
      tso_fastO h heq [carryC]
    · simp at hs; subst hs; exact h
  · simp at hs

theorem o_cl1 (s s' : St) : Inv s → s.opc = .cl1 → stepO s = some s' → Inv s' := by
  intro h heq hs
  have hb := (h.cl1 heq).1
  simp only [stepO, heq, hb, viewBase_nil, viewTop_nil] at hs
  split at hs
  all_goals (simp at hs; subst hs)
  all_goals tso_fastO h heq [cl1]

theorem o_cl2 (s s' : St) : Inv s → s.opc = .cl2 → stepO s = some s' → Inv s' := by
  intro h heq hs
  have hv := cl2_viewBase _ _ _ (h.cl2 heq).2.2.2
  simp only [stepO, heq, hv] at hs
  simp at hs; subst hs
  tso_fastO h heq [cl2]

theorem o_cl3 (s s' : St) : Inv s → s.opc = .cl3 → stepO s = some s' → Inv s' := by
  intro h heq hs
  have hcfg := h.cfg
  simp only [stepO, heq, releaseO, hcfg, code_unlockFence, if_true] at hs
  split at hs
  · rename_i hb
    simp at hb
    simp at hs; subst hs
    tso_fastO h heq [cl3]
  · simp at hs

end MythVerif.WsqTso
