import MythVerif.Proofs.Barrier
/-! Barrier invariant: preservation by the two CAS labels that need counting arguments
(`popCas`: the last pop empties the set of sleepers; `cas`: the N-th arrival). -/
namespace MythVerif.Barrier

set_option maxHeartbeats 2000000 in
theorem p_popCas (P : List Tid) (s s' : St) (t ok) :
    Inv P s → t ∈ P → step P.length s (.popCas t ok) = some s' → Inv P s' := by
  intro h hP hs
  obtain ⟨hnP, hndP, hnp, harrP, harrR, harrB, harrN, holdP, holdR, holdN, holdPc, hpreC, hwokO, hldrI, hldrO,
    hcnt, harrL, hrstL, hrstN, hrdC, hnoEx, hstN, hstA, hstW, hwkA, hwkO, hwkN, hasl, hwkL, hpopA, hpopC,
    hlrsA, hlpoA, hlpcA, hlpuA, hlreA, hpshC, holdW, harrLt, harrEq, harrGt, hretLt, hretEq, hretGe⟩ := h
  simp only [step] at hs
  split at hs
  · rename_i x nx acc hpc
    split at hs
    · rename_i hc
      split at hs
      · rename_i hok
        subst hok
        simp at hc
        simp at hs; subst hs
        obtain ⟨hwk, hacc, hsuf⟩ := hlpcA t x nx acc hpc
        have hst : s.stack = x :: nx := suffix_head_eq hstN hsuf hc
        have hxs : x ∈ s.stack := by rw [hst]; simp
        have hxa : s.pc x = .asleep := hstA x hxs
        have hxw : x ∉ s.wk := hstW x hxs
        have hlen := (hpopA t (by simp [hpc, popPc])).2.1
        have hxP : x ∈ P := by
          apply Classical.byContradiction; intro hn; have := hnp x hn; rw [hxa] at this; cases this
        have hxo : x ∈ s.old := all_old_of_len holdP holdN hlen x hxP
        have hxt : x ≠ t := by intro e; subst e; rw [hpc] at hxa; cases hxa
        have hto : t ∈ s.old := hldrO t ((hldrI t).mp (by simp [hpc, ldrPc]))
        have htw : t ∉ s.wk := by intro hm; have := hwkA t hm; rw [hpc] at this; cases this
        have hnx : nx.Nodup ∧ x ∉ nx := by rw [hst] at hstN; simp [List.nodup_cons] at hstN; exact ⟨hstN.2, hstN.1⟩
        have hnxs : ∀ y, y ∈ nx → y ∈ s.stack := by intro y hy; rw [hst]; simp [hy]
        by_cases hN : acc.length + 2 = P.length
        · -- the last pop: every other member of `old` has now been popped
          have hall : ∀ p, p ∈ s.old → p = t ∨ p ∈ s.wk ∨ p = x := by
            have hnd : (t :: (s.wk ++ [x])).Nodup := by
              refine List.nodup_cons.mpr ⟨?_, List.nodup_append.mpr ⟨hwkN, by simp, ?_⟩⟩
              · simp only [List.mem_append, List.mem_singleton, not_or]
                exact ⟨htw, fun e => hxt e.symm⟩
              · intro a ha b hb; simp at hb; subst hb; intro e; subst e; exact hxw ha
            have hsub : ∀ y, y ∈ t :: (s.wk ++ [x]) → y ∈ s.old := by
              intro y hy; simp at hy
              rcases hy with e | e | e
              · subst e; exact hto
              · exact hwkO y e
              · subst e; exact hxo
            have := pigeon hnd hsub (by simp; rw [hwk]; omega)
            intro p hp; have := this p hp; simpa using this
          simp only [hN, if_true]
          constructor <;> bfin
        · simp only [hN, if_false]
          constructor <;> bfin
      · rename_i hok
        simp at hok; subst hok
        simp at hs; subst hs
        constructor <;> bfin
    · simp at hs
  · simp at hs

set_option maxHeartbeats 2000000 in
theorem p_cas (P : List Tid) (s s' : St) (t ok) :
    Inv P s → t ∈ P → step P.length s (.cas t ok) = some s' → Inv P s' := by
  intro h hP hs
  obtain ⟨hnP, hndP, hnp, harrP, harrR, harrB, harrN, holdP, holdR, holdN, holdPc, hpreC, hwokO, hldrI, hldrO,
    hcnt, harrL, hrstL, hrstN, hrdC, hnoEx, hstN, hstA, hstW, hwkA, hwkO, hwkN, hasl, hwkL, hpopA, hpopC,
    hlrsA, hlpoA, hlpcA, hlpuA, hlreA, hpshC, holdW, harrLt, harrEq, harrGt, hretLt, hretEq, hretGe⟩ := h
  simp only [step] at hs
  split at hs
  · rename_i v hpc
    split at hs
    · rename_i hc
      split at hs
      · rename_i hok
        subst hok
        simp at hc
        have hvN := hrdC t v hpc
        have hr : s.rst = false := by
          cases hr : s.rst with
          | false => rfl
          | true => rw [hr] at hcnt; simp at hcnt; omega
        have hal : s.arrd.length = v := by rw [hr] at hcnt; simp at hcnt; omega
        have hta : t ∉ s.arrd := by intro hm; have := harrB t hm; simp [hpc, blkPc] at this
        have hto : t ∉ s.old := by
          intro hm
          rcases holdPc t hm with hb | hb | hb
          · simp [hpc, blkPc] at hb
          · simp [hpc] at hb
          · have := (hldrI t).mpr hb; simp [hpc, ldrPc] at this
        split at hs
        · -- the N-th arrival
          rename_i hlast
          simp at hs; subst hs
          have hcov : ∀ p, p ∈ P → p = t ∨ p ∈ s.arrd := by
            have hnd : (t :: s.arrd).Nodup := List.nodup_cons.mpr ⟨hta, harrN⟩
            have hsub : ∀ y, y ∈ t :: s.arrd → y ∈ P := by
              intro y hy; simp at hy
              rcases hy with e | e
              · subst e; exact hP
              · exact harrP y e
            have := pigeon hnd hsub (by simp; omega)
            intro p hp; simpa using this p hp
          have hold0 : s.old = [] := by
            cases ho : s.old with
            | nil => rfl
            | cons o r =>
              have hoo : o ∈ s.old := by rw [ho]; simp
              rcases hcov o (holdP o hoo) with e | e
              · subst e; exact absurd hoo hto
              · have := harrR o e; have := holdR o hoo; omega
          have hldr0 : s.ldr = none := by
            cases hl : s.ldr with
            | none => rfl
            | some l => have := hldrO l hl; rw [hold0] at this; cases this
          have hwk0 : s.wk = [] := hwkL hldr0
          constructor <;> bfin
        · simp at hs; subst hs
          -- nobody is releasing: otherwise every participant, also `t`, would be in `old`
          have hnopop : ∀ l, popPc (s.pc l) = true → False := by
            intro l hl
            exact hto (all_old_of_len holdP holdN (hpopA l hl).2.1 t hP)
          constructor <;> bfin
      · rename_i hok
        simp at hok; subst hok
        simp at hs; subst hs
        constructor <;> bfin
    · simp at hs
  · simp at hs

end MythVerif.Barrier
