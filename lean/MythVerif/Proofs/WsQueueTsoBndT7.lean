import MythVerif.Proofs.WsQueueTsoBnd
/-! Preservation of the bounds invariant `Bnd` (generated per program counter): participant at vc1, vk1, vkf, vk2, vk3, vk4. -/
namespace MythVerif.WsqTso
open MythVerif.Wsq

theorem bT_vc1 (s s' : St) (p : Pid) : Inv s → Inv s' → Bnd s → s.tpc p = .vc1 → stepT s p = some s' → Bnd s' := by
  intro h h' hb hpc hs
  have hcfg := h.cfg
  have hview := thief_views s h p
  have a6 := h'.tp2; have a7 := h'.tk3; have a8 := h'.vk3
  have b1 := h.tk2 p; have b2 := h.vk2 p; have b3 := hb.pk2 p; have b4 := hb.pk3 p
  have hbufE := h.tbufE p
  have hvb : s.bufT p = [] → viewBase (s.bufT p) s.base = s.base ∧ viewTop (s.bufT p) s.top = s.top := by
    intro h0; rw [h0]; exact ⟨rfl, rfl⟩
  simp only [stepT, hpc, releaseT, fenceOk, hcfg, code_unlockFence, code_takeFence, code_wtakeFence, code_wpeekFence, if_true] at hs
  all_goals (try split at hs)
  all_goals (try split at hs)
  all_goals (try simp at hs)
  all_goals (try (first | (subst hs; exact hb) | subst hs))
  all_goals (
    tso_coreT h []
    bnd_core hb
    constructor
    all_goals (bnd_pick hb; rename_i hold)
    all_goals (first | exact hold | (
      (try simp only [upd_apply, applySto] at hold ⊢)
      first | assumption | (intros; contradiction) | (intro q; if hq : q = p then (subst hq; simp only [if_true]; intros; contradiction) else (simp only [if_neg hq]; exact hold q)) | grind [thiefLocked, mayBuf, notTrans, thiefFlight, popWin, rcOff_bnd, Rc1Shape, Rc2Shape, RcPre, RcShape, InsShape, Pu2Shape, CarryShape] | (intro q; by_cases hqp : q = p <;> simp [hqp] <;> grind [thiefLocked, mayBuf, notTrans, thiefFlight, popWin, rcOff_bnd, Rc1Shape, Rc2Shape, RcPre, RcShape, InsShape, Pu2Shape, CarryShape]) | skip)))

theorem bT_vk1 (s s' : St) (p : Pid) : Inv s → Inv s' → Bnd s → s.tpc p = .vk1 → stepT s p = some s' → Bnd s' := by
  intro h h' hb hpc hs
  have hcfg := h.cfg
  have hview := thief_views s h p
  have a6 := h'.tp2; have a7 := h'.tk3; have a8 := h'.vk3
  have b1 := h.tk2 p; have b2 := h.vk2 p; have b3 := hb.pk2 p; have b4 := hb.pk3 p
  have hbufE := h.tbufE p
  have hvb : s.bufT p = [] → viewBase (s.bufT p) s.base = s.base ∧ viewTop (s.bufT p) s.top = s.top := by
    intro h0; rw [h0]; exact ⟨rfl, rfl⟩
  simp only [stepT, hpc, releaseT, fenceOk, hcfg, code_unlockFence, code_takeFence, code_wtakeFence, code_wpeekFence, if_true] at hs
  all_goals (try split at hs)
  all_goals (try split at hs)
  all_goals (try simp at hs)
  all_goals (try (first | (subst hs; exact hb) | subst hs))
  all_goals (
    tso_coreT h []
    bnd_core hb
    constructor
    all_goals (bnd_pick hb; rename_i hold)
    all_goals (first | exact hold | (
      (try simp only [upd_apply, applySto] at hold ⊢)
      first | assumption | (intros; contradiction) | (intro q; if hq : q = p then (subst hq; simp only [if_true]; intros; contradiction) else (simp only [if_neg hq]; exact hold q)) | grind [thiefLocked, mayBuf, notTrans, thiefFlight, popWin, rcOff_bnd, Rc1Shape, Rc2Shape, RcPre, RcShape, InsShape, Pu2Shape, CarryShape] | (intro q; by_cases hqp : q = p <;> simp [hqp] <;> grind [thiefLocked, mayBuf, notTrans, thiefFlight, popWin, rcOff_bnd, Rc1Shape, Rc2Shape, RcPre, RcShape, InsShape, Pu2Shape, CarryShape]) | skip)))

theorem bT_vkf (s s' : St) (p : Pid) (b) : Inv s → Inv s' → Bnd s → s.tpc p = .vkf b → stepT s p = some s' → Bnd s' := by
  intro h h' hb hpc hs
  have hcfg := h.cfg
  have hview := thief_views s h p
  have a6 := h'.tp2; have a7 := h'.tk3; have a8 := h'.vk3
  have b1 := h.tk2 p; have b2 := h.vk2 p; have b3 := hb.pk2 p; have b4 := hb.pk3 p
  have hbufE := h.tbufE p
  have hvb : s.bufT p = [] → viewBase (s.bufT p) s.base = s.base ∧ viewTop (s.bufT p) s.top = s.top := by
    intro h0; rw [h0]; exact ⟨rfl, rfl⟩
  simp only [stepT, hpc, releaseT, fenceOk, hcfg, code_unlockFence, code_takeFence, code_wtakeFence, code_wpeekFence, if_true] at hs
  all_goals (try split at hs)
  all_goals (try split at hs)
  all_goals (try simp at hs)
  all_goals (try (first | (subst hs; exact hb) | subst hs))
  all_goals (
    tso_coreT h [vkf]
    bnd_core hb
    constructor
    all_goals (bnd_pick hb; rename_i hold)
    all_goals (first | exact hold | (
      (try simp only [upd_apply, applySto] at hold ⊢)
      first | assumption | (intros; contradiction) | (intro q; if hq : q = p then (subst hq; simp only [if_true]; intros; contradiction) else (simp only [if_neg hq]; exact hold q)) | grind [thiefLocked, mayBuf, notTrans, thiefFlight, popWin, rcOff_bnd, Rc1Shape, Rc2Shape, RcPre, RcShape, InsShape, Pu2Shape, CarryShape] | (intro q; by_cases hqp : q = p <;> simp [hqp] <;> grind [thiefLocked, mayBuf, notTrans, thiefFlight, popWin, rcOff_bnd, Rc1Shape, Rc2Shape, RcPre, RcShape, InsShape, Pu2Shape, CarryShape]) | skip)))

theorem bT_vk2 (s s' : St) (p : Pid) (b) : Inv s → Inv s' → Bnd s → s.tpc p = .vk2 b → stepT s p = some s' → Bnd s' := by
  intro h h' hb hpc hs
  have hcfg := h.cfg
  have hview := thief_views s h p
  have a6 := h'.tp2; have a7 := h'.tk3; have a8 := h'.vk3
  have b1 := h.tk2 p; have b2 := h.vk2 p; have b3 := hb.pk2 p; have b4 := hb.pk3 p
  have hbufE := h.tbufE p
  have hvb : s.bufT p = [] → viewBase (s.bufT p) s.base = s.base ∧ viewTop (s.bufT p) s.top = s.top := by
    intro h0; rw [h0]; exact ⟨rfl, rfl⟩
  simp only [stepT, hpc, releaseT, fenceOk, hcfg, code_unlockFence, code_takeFence, code_wtakeFence, code_wpeekFence, if_true] at hs
  all_goals (try split at hs)
  all_goals (try split at hs)
  all_goals (try simp at hs)
  all_goals (try (first | (subst hs; exact hb) | subst hs))
  all_goals (
    tso_coreT h [vk2]
    bnd_core hb
    constructor
    all_goals (bnd_pick hb; rename_i hold)
    all_goals (first | exact hold | (
      (try simp only [upd_apply, applySto] at hold ⊢)
      first | assumption | (intros; contradiction) | (intro q; if hq : q = p then (subst hq; simp only [if_true]; intros; contradiction) else (simp only [if_neg hq]; exact hold q)) | grind [thiefLocked, mayBuf, notTrans, thiefFlight, popWin, rcOff_bnd, Rc1Shape, Rc2Shape, RcPre, RcShape, InsShape, Pu2Shape, CarryShape] | (intro q; by_cases hqp : q = p <;> simp [hqp] <;> grind [thiefLocked, mayBuf, notTrans, thiefFlight, popWin, rcOff_bnd, Rc1Shape, Rc2Shape, RcPre, RcShape, InsShape, Pu2Shape, CarryShape]) | skip)))

theorem bT_vk3 (s s' : St) (p : Pid) (b) : Inv s → Inv s' → Bnd s → s.tpc p = .vk3 b → stepT s p = some s' → Bnd s' := by
  intro h h' hb hpc hs
  have hcfg := h.cfg
  have hview := thief_views s h p
  have hbc := hb.vk3 p
  have a6 := h'.tp2; have a7 := h'.tk3; have a8 := h'.vk3
  have b1 := h.tk2 p; have b2 := h.vk2 p; have b3 := hb.pk2 p; have b4 := hb.pk3 p
  have hbufE := h.tbufE p
  have hvb : s.bufT p = [] → viewBase (s.bufT p) s.base = s.base ∧ viewTop (s.bufT p) s.top = s.top := by
    intro h0; rw [h0]; exact ⟨rfl, rfl⟩
  simp only [stepT, hpc, releaseT, fenceOk, hcfg, code_unlockFence, code_takeFence, code_wtakeFence, code_wpeekFence, if_true] at hs
  all_goals (try split at hs)
  all_goals (try split at hs)
  all_goals (try simp at hs)
  all_goals (try (first | (subst hs; exact hb) | subst hs))
  all_goals (
    tso_coreT h [vk3]
    bnd_core hb
    constructor
    all_goals (bnd_pick hb; rename_i hold)
    all_goals (first | exact hold | (
      (try simp only [upd_apply, applySto] at hold ⊢)
      first | assumption | (intros; contradiction) | (intro q; if hq : q = p then (subst hq; simp only [if_true]; intros; contradiction) else (simp only [if_neg hq]; exact hold q)) | grind [thiefLocked, mayBuf, notTrans, thiefFlight, popWin, rcOff_bnd, Rc1Shape, Rc2Shape, RcPre, RcShape, InsShape, Pu2Shape, CarryShape] | (intro q; by_cases hqp : q = p <;> simp [hqp] <;> grind [thiefLocked, mayBuf, notTrans, thiefFlight, popWin, rcOff_bnd, Rc1Shape, Rc2Shape, RcPre, RcShape, InsShape, Pu2Shape, CarryShape]) | skip)))

theorem bT_vk4 (s s' : St) (p : Pid) (b r) : Inv s → Inv s' → Bnd s → s.tpc p = .vk4 b r → stepT s p = some s' → Bnd s' := by
  intro h h' hb hpc hs
  have hcfg := h.cfg
  have hview := thief_views s h p
  have a6 := h'.tp2; have a7 := h'.tk3; have a8 := h'.vk3
  have b1 := h.tk2 p; have b2 := h.vk2 p; have b3 := hb.pk2 p; have b4 := hb.pk3 p
  have hbufE := h.tbufE p
  have hvb : s.bufT p = [] → viewBase (s.bufT p) s.base = s.base ∧ viewTop (s.bufT p) s.top = s.top := by
    intro h0; rw [h0]; exact ⟨rfl, rfl⟩
  simp only [stepT, hpc, releaseT, fenceOk, hcfg, code_unlockFence, code_takeFence, code_wtakeFence, code_wpeekFence, if_true] at hs
  all_goals (try split at hs)
  all_goals (try split at hs)
  all_goals (try simp at hs)
  all_goals (try (first | (subst hs; exact hb) | subst hs))
  all_goals (
    tso_coreT h [vk4]
    bnd_core hb
    constructor
    all_goals (bnd_pick hb; rename_i hold)
    all_goals (first | exact hold | (
      (try simp only [upd_apply, applySto] at hold ⊢)
      first | assumption | (intros; contradiction) | (intro q; if hq : q = p then (subst hq; simp only [if_true]; intros; contradiction) else (simp only [if_neg hq]; exact hold q)) | grind [thiefLocked, mayBuf, notTrans, thiefFlight, popWin, rcOff_bnd, Rc1Shape, Rc2Shape, RcPre, RcShape, InsShape, Pu2Shape, CarryShape] | (intro q; by_cases hqp : q = p <;> simp [hqp] <;> grind [thiefLocked, mayBuf, notTrans, thiefFlight, popWin, rcOff_bnd, Rc1Shape, Rc2Shape, RcPre, RcShape, InsShape, Pu2Shape, CarryShape]) | skip)))

end MythVerif.WsqTso
