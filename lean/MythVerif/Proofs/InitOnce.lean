import MythVerif.Model.InitOnce
import MythVerif.Proofs.Env
/-! Inductive invariant of the init-once transition system (C15), any number of callers. -/
namespace MythVerif.InitOnce
open MythVerif MythVerif.Env

theorem st_ne1 : sUninit ≠ sInitializing := by decide
theorem st_ne2 : sUninit ≠ sInitialized := by decide
theorem st_ne3 : sInitializing ≠ sInitialized := by decide

structure Inv (s : St) : Prop where
  st3 : s.state = sUninit ∨ s.state = sInitializing ∨ s.state = sInitialized
  elSt : ∀ t, (s.pc t = .i3 ∨ s.pc t = .i4) → s.state = sInitializing
  elUniq : ∀ t u, (s.pc t = .i3 ∨ s.pc t = .i4) → (s.pc u = .i3 ∨ s.pc u = .i4) → t = u
  elEx : s.state = sInitializing → ∃ t, s.pc t = .i3 ∨ s.pc t = .i4
  i3c : ∀ t, s.pc t = .i3 → s.inits s.epoch = 0 ∧ s.workers = []
  i4c : ∀ t, s.pc t = .i4 → s.inits s.epoch = 1 ∧ 0 < s.gattr.nWorkers ∧
          s.workers = List.range s.gattr.nWorkers.toNat ∧ s.mainOn = 0
  unin : s.state = sUninit → s.inits s.epoch = 0 ∧ s.workers = []
  ined : s.state = sInitialized → s.inits s.epoch = 1 ∧ 0 < s.gattr.nWorkers ∧
          (s.fin ≠ .f4 → s.workers = List.range s.gattr.nWorkers.toNat ∧ s.mainOn < s.gattr.nWorkers.toNat) ∧
          (s.fin = .f4 → s.workers = [])
  finSt : (s.fin = .f2 ∨ s.fin = .f3 ∨ s.fin = .f4) → s.state = sInitialized
  f3main : (s.fin = .f3 ∨ s.fin = .f4) → s.mainOn = 0
  past : ∀ e, e < s.epoch → s.inits e = 1
  future : ∀ e, s.epoch < e → s.inits e = 0
  nwpos : s.gattr.initialized = true → 0 < s.gattr.nWorkers
  argOk : ∀ t, s.pc t ≠ .idle → attrOk (s.arg t) = true

theorem inv_init : Inv init := by
  constructor <;> simp [init, gattrZero] <;> decide

theorem resolve_pos (ncpu : Int) (hc : 0 < ncpu) (s : St) (a : Option GAttr) (h : Inv s)
    (ha : attrOk a = true) : 0 < (resolve ncpu s a).nWorkers := by
  unfold resolve
  cases a with
  | some x => simpa [attrOk] using ha
  | none =>
    simp only []
    split
    · rename_i hi; exact h.nwpos hi
    · exact gattrDefault_nw_pos _ _ hc

theorem resolve_none_init (ncpu : Int) (s : St) : (resolve ncpu s none).initialized = true := by
  unfold resolve
  simp only []
  split
  · assumption
  · rfl

theorem inv_callInit (ncpu : Int) (s s' : St) (t : Tid) (a : Option GAttr) (h : Inv s)
    (hs : step ncpu s (.callInit t a) = some s') : Inv s' := by
  simp only [step] at hs
  split at hs
  · rename_i hc
    simp at hs; subst hs
    obtain ⟨h1, h2, h3, h4, h5, h6, h7, h8, h9, h10, h11, h12, h13, h14⟩ := h
    have d1 := st_ne1; have d2 := st_ne2; have d3 := st_ne3
    constructor
    case elEx =>
      intro hst; obtain ⟨w, hw⟩ := h4 hst
      exact ⟨w, by simp only [upd]; grind⟩
    all_goals ((try simp only []); grind [upd])
  · simp at hs

theorem inv_callEnsure (ncpu : Int) (s s' : St) (t : Tid) (h : Inv s)
    (hs : step ncpu s (.callEnsure t) = some s') : Inv s' := by
  simp only [step] at hs
  split at hs
  · rename_i hc
    simp at hs; subst hs
    obtain ⟨h1, h2, h3, h4, h5, h6, h7, h8, h9, h10, h11, h12, h13, h14⟩ := h
    have d1 := st_ne1; have d2 := st_ne2; have d3 := st_ne3
    constructor
    case elEx =>
      intro hst; obtain ⟨w, hw⟩ := h4 hst
      exact ⟨w, by simp only [upd]; grind⟩
    all_goals (simp only []; grind [upd, attrOk])
  · simp at hs

theorem inv_step_e0 (ncpu : Int) (_hc : 0 < ncpu) (s s' : St) (t : Tid) (h : Inv s) (hp : s.pc t = .e0)
    (hs : step ncpu s (.step t) = some s') : Inv s' := by
  simp only [step, hp] at hs
  split at hs
  all_goals (
    simp at hs; subst hs
    obtain ⟨h1, h2, h3, h4, h5, h6, h7, h8, h9, h10, h11, h12, h13, h14⟩ := h
    have d1 := st_ne1; have d2 := st_ne2; have d3 := st_ne3
    constructor
    case elEx =>
      intro hst
      first
        | (refine ⟨t, ?_⟩; simp [upd]; done)
        | (have hq : s.state = sInitializing := by grind); (obtain ⟨w, hw⟩ := h4 hq); refine ⟨w, ?_⟩; (try simp only [upd]); grind
        | (exfalso; grind)
    all_goals ((try simp only []); grind [upd]))

theorem inv_step_i0 (ncpu : Int) (_hc : 0 < ncpu) (s s' : St) (t : Tid) (h : Inv s) (hp : s.pc t = .i0)
    (hs : step ncpu s (.step t) = some s') : Inv s' := by
  simp only [step, hp] at hs
  split at hs
  all_goals (
    simp at hs; subst hs
    obtain ⟨h1, h2, h3, h4, h5, h6, h7, h8, h9, h10, h11, h12, h13, h14⟩ := h
    have d1 := st_ne1; have d2 := st_ne2; have d3 := st_ne3
    constructor
    case elEx =>
      intro hst
      first
        | (refine ⟨t, ?_⟩; simp [upd]; done)
        | (have hq : s.state = sInitializing := by grind); (obtain ⟨w, hw⟩ := h4 hq); refine ⟨w, ?_⟩; (try simp only [upd]); grind
        | (exfalso; grind)
    all_goals ((try simp only []); grind [upd]))

theorem inv_step_i1 (ncpu : Int) (_hc : 0 < ncpu) (s s' : St) (t : Tid) (h : Inv s) (hp : s.pc t = .i1)
    (hs : step ncpu s (.step t) = some s') : Inv s' := by
  simp only [step, hp] at hs
  split at hs
  all_goals (
    simp at hs; subst hs
    obtain ⟨h1, h2, h3, h4, h5, h6, h7, h8, h9, h10, h11, h12, h13, h14⟩ := h
    have d1 := st_ne1; have d2 := st_ne2; have d3 := st_ne3
    constructor
    case elEx =>
      intro hst
      first
        | (refine ⟨t, ?_⟩; simp [upd]; done)
        | (have hq : s.state = sInitializing := by grind); (obtain ⟨w, hw⟩ := h4 hq); refine ⟨w, ?_⟩; (try simp only [upd]); grind
        | (exfalso; grind)
    all_goals ((try simp only []); grind [upd]))

theorem inv_step_i2 (ncpu : Int) (_hc : 0 < ncpu) (s s' : St) (t : Tid) (h : Inv s) (hp : s.pc t = .i2)
    (hs : step ncpu s (.step t) = some s') : Inv s' := by
  simp only [step, hp] at hs
  split at hs
  all_goals (
    simp at hs; subst hs
    obtain ⟨h1, h2, h3, h4, h5, h6, h7, h8, h9, h10, h11, h12, h13, h14⟩ := h
    have d1 := st_ne1; have d2 := st_ne2; have d3 := st_ne3
    constructor
    case elEx =>
      intro hst
      first
        | (refine ⟨t, ?_⟩; simp [upd]; done)
        | (have hq : s.state = sInitializing := by grind); (obtain ⟨w, hw⟩ := h4 hq); refine ⟨w, ?_⟩; (try simp only [upd]); grind
        | (exfalso; grind)
    all_goals ((try simp only []); grind [upd]))

theorem inv_step_i3 (ncpu : Int) (hc : 0 < ncpu) (s s' : St) (t : Tid) (h : Inv s) (hp : s.pc t = .i3)
    (hs : step ncpu s (.step t) = some s') : Inv s' := by
  simp only [step, hp] at hs
  have hres := resolve_pos ncpu hc s (s.arg t) h (h.argOk t (by rw [hp]; simp))
  have hri : s.arg t = none → (resolve ncpu s none).initialized = true := fun _ => resolve_none_init ncpu s
  simp at hs; subst hs
  obtain ⟨h1, h2, h3, h4, h5, h6, h7, h8, h9, h10, h11, h12, h13, h14⟩ := h
  have d1 := st_ne1; have d2 := st_ne2; have d3 := st_ne3
  constructor
  case elEx =>
    intro hst
    first
      | (refine ⟨t, ?_⟩; simp [upd]; done)
      | (have hq : s.state = sInitializing := by grind); (obtain ⟨w, hw⟩ := h4 hq); refine ⟨w, ?_⟩; (try simp only [upd]); grind
      | (exfalso; grind)
  all_goals ((try simp only []); grind [upd, resolve, attrOk])

theorem inv_step_i4 (ncpu : Int) (_hc : 0 < ncpu) (s s' : St) (t : Tid) (h : Inv s) (hp : s.pc t = .i4)
    (hs : step ncpu s (.step t) = some s') : Inv s' := by
  simp only [step, hp] at hs
  simp at hs; subst hs
  obtain ⟨h1, h2, h3, h4, h5, h6, h7, h8, h9, h10, h11, h12, h13, h14⟩ := h
  have d1 := st_ne1; have d2 := st_ne2; have d3 := st_ne3
  constructor
  case elEx =>
    intro hst
    first
      | (refine ⟨t, ?_⟩; simp [upd]; done)
      | (have hq : s.state = sInitializing := by grind); (obtain ⟨w, hw⟩ := h4 hq); refine ⟨w, ?_⟩; (try simp only [upd]); grind
      | (exfalso; grind)
  all_goals ((try simp only []); grind [upd])

theorem inv_step (ncpu : Int) (hc : 0 < ncpu) (s s' : St) (t : Tid) (h : Inv s)
    (hs : step ncpu s (.step t) = some s') : Inv s' := by
  cases hp : s.pc t with
  | idle => simp [step, hp] at hs
  | e0 => exact inv_step_e0 ncpu hc s s' t h hp hs
  | i0 => exact inv_step_i0 ncpu hc s s' t h hp hs
  | i1 => exact inv_step_i1 ncpu hc s s' t h hp hs
  | i2 => exact inv_step_i2 ncpu hc s s' t h hp hs
  | i3 => exact inv_step_i3 ncpu hc s s' t h hp hs
  | i4 => exact inv_step_i4 ncpu hc s s' t h hp hs

theorem inv_fin_f0 (ncpu : Int) (s s' : St) (h : Inv s) (hp : s.fin = .f0)
    (hs : step ncpu s .finStep = some s') : Inv s' := by
  simp only [step, hp] at hs
  split at hs
  all_goals (
    simp at hs; subst hs
    obtain ⟨h1, h2, h3, h4, h5, h6, h7, h8, h9, h10, h11, h12, h13, h14⟩ := h
    have d1 := st_ne1; have d2 := st_ne2; have d3 := st_ne3
    constructor
    case elEx =>
      intro hst
      first
        | (have hq : s.state = sInitializing := by grind); (obtain ⟨w, hw⟩ := h4 hq); refine ⟨w, ?_⟩; grind
        | (exfalso; grind)
    all_goals ((try simp only []); grind))

theorem inv_fin_f1 (ncpu : Int) (s s' : St) (h : Inv s) (hp : s.fin = .f1)
    (hs : step ncpu s .finStep = some s') : Inv s' := by
  simp only [step, hp] at hs
  split at hs
  all_goals (
    simp at hs; subst hs
    obtain ⟨h1, h2, h3, h4, h5, h6, h7, h8, h9, h10, h11, h12, h13, h14⟩ := h
    have d1 := st_ne1; have d2 := st_ne2; have d3 := st_ne3
    constructor
    case elEx =>
      intro hst
      first
        | (have hq : s.state = sInitializing := by grind); (obtain ⟨w, hw⟩ := h4 hq); refine ⟨w, ?_⟩; grind
        | (exfalso; grind)
    all_goals ((try simp only []); grind))

theorem inv_fin_f2 (ncpu : Int) (s s' : St) (h : Inv s) (hp : s.fin = .f2)
    (hs : step ncpu s .finStep = some s') : Inv s' := by
  simp only [step, hp] at hs
  simp at hs; subst hs
  obtain ⟨h1, h2, h3, h4, h5, h6, h7, h8, h9, h10, h11, h12, h13, h14⟩ := h
  have d1 := st_ne1; have d2 := st_ne2; have d3 := st_ne3
  constructor
  case elEx =>
    intro hst
    first
      | (have hq : s.state = sInitializing := by grind); (obtain ⟨w, hw⟩ := h4 hq); refine ⟨w, ?_⟩; grind
      | (exfalso; grind)
  all_goals ((try simp only []); grind)

theorem inv_fin_f3 (ncpu : Int) (s s' : St) (h : Inv s) (hp : s.fin = .f3)
    (hs : step ncpu s .finStep = some s') : Inv s' := by
  simp only [step, hp] at hs
  simp at hs; subst hs
  obtain ⟨h1, h2, h3, h4, h5, h6, h7, h8, h9, h10, h11, h12, h13, h14⟩ := h
  have d1 := st_ne1; have d2 := st_ne2; have d3 := st_ne3
  constructor
  case elEx =>
    intro hst
    first
      | (have hq : s.state = sInitializing := by grind); (obtain ⟨w, hw⟩ := h4 hq); refine ⟨w, ?_⟩; grind
      | (exfalso; grind)
  all_goals ((try simp only []); grind)

theorem inv_fin_f4 (ncpu : Int) (s s' : St) (h : Inv s) (hp : s.fin = .f4)
    (hs : step ncpu s .finStep = some s') : Inv s' := by
  simp only [step, hp] at hs
  simp at hs; subst hs
  obtain ⟨h1, h2, h3, h4, h5, h6, h7, h8, h9, h10, h11, h12, h13, h14⟩ := h
  have d1 := st_ne1; have d2 := st_ne2; have d3 := st_ne3
  constructor
  case elEx =>
    intro hst
    first
      | (have hq : s.state = sInitializing := by grind); (obtain ⟨w, hw⟩ := h4 hq); refine ⟨w, ?_⟩; grind
      | (exfalso; grind)
  all_goals ((try simp only []); grind)

theorem inv_finStep (ncpu : Int) (s s' : St) (h : Inv s)
    (hs : step ncpu s .finStep = some s') : Inv s' := by
  cases hp : s.fin with
  | idle => simp [step, hp] at hs
  | f0 => exact inv_fin_f0 ncpu s s' h hp hs
  | f1 => exact inv_fin_f1 ncpu s s' h hp hs
  | f2 => exact inv_fin_f2 ncpu s s' h hp hs
  | f3 => exact inv_fin_f3 ncpu s s' h hp hs
  | f4 => exact inv_fin_f4 ncpu s s' h hp hs

theorem inv_callFini (ncpu : Int) (s s' : St) (h : Inv s)
    (hs : step ncpu s .callFini = some s') : Inv s' := by
  simp only [step] at hs
  split at hs
  · simp at hs; subst hs
    obtain ⟨h1, h2, h3, h4, h5, h6, h7, h8, h9, h10, h11, h12, h13, h14⟩ := h
    have d1 := st_ne1; have d2 := st_ne2; have d3 := st_ne3
    constructor
    case elEx =>
      intro hst
      first
        | (have hq : s.state = sInitializing := by grind); (obtain ⟨w, hw⟩ := h4 hq); refine ⟨w, ?_⟩; grind
        | (exfalso; grind)
    all_goals ((try simp only []); grind)
  · simp at hs

theorem inv_setenv (ncpu : Int) (s s' : St) (e : Environ) (h : Inv s)
    (hs : step ncpu s (.setenv e) = some s') : Inv s' := by
  simp only [step] at hs
  simp at hs; subst hs
  obtain ⟨h1, h2, h3, h4, h5, h6, h7, h8, h9, h10, h11, h12, h13, h14⟩ := h
  constructor <;> assumption

theorem inv_setGlobal (ncpu : Int) (s s' : St) (n : Int) (h : Inv s)
    (hs : step ncpu s (.setGlobal n) = some s') : Inv s' := by
  simp only [step] at hs
  split at hs
  · rename_i hc
    simp at hs; subst hs
    obtain ⟨h1, h2, h3, h4, h5, h6, h7, h8, h9, h10, h11, h12, h13, h14⟩ := h
    have d1 := st_ne1; have d2 := st_ne2; have d3 := st_ne3
    constructor
    case elEx =>
      intro hst
      first
        | (have hq : s.state = sInitializing := by grind); (obtain ⟨w, hw⟩ := h4 hq); refine ⟨w, ?_⟩; grind
        | (exfalso; grind)
    all_goals ((try simp only []); grind)
  · simp at hs

theorem inv_migrate (ncpu : Int) (s s' : St) (r : Nat) (h : Inv s)
    (hs : step ncpu s (.migrate r) = some s') : Inv s' := by
  simp only [step] at hs
  split at hs
  · rename_i hc
    simp at hs; subst hs
    obtain ⟨h1, h2, h3, h4, h5, h6, h7, h8, h9, h10, h11, h12, h13, h14⟩ := h
    have d1 := st_ne1; have d2 := st_ne2; have d3 := st_ne3
    have hr : r < s.gattr.nWorkers.toNat := by
      have := (h8 hc.1).2.2.1 (by grind)
      have hm := hc.2.2
      rw [this.1] at hm
      simpa using hm
    constructor
    case elEx =>
      intro hst
      first
        | (have hq : s.state = sInitializing := by grind); (obtain ⟨w, hw⟩ := h4 hq); refine ⟨w, ?_⟩; grind
        | (exfalso; grind)
    all_goals ((try simp only []); grind)
  · simp at hs

/-- every step preserves the invariant (any label, any thread) -/
theorem inv_step_all (ncpu : Int) (hc : 0 < ncpu) (s : St) (l : Label) (s' : St) (h : Inv s)
    (hs : step ncpu s l = some s') : Inv s' := by
  cases l with
  | callInit t a => exact inv_callInit ncpu s s' t a h hs
  | callEnsure t => exact inv_callEnsure ncpu s s' t h hs
  | step t => exact inv_step ncpu hc s s' t h hs
  | callFini => exact inv_callFini ncpu s s' h hs
  | finStep => exact inv_finStep ncpu s s' h hs
  | setenv e => exact inv_setenv ncpu s s' e h hs
  | setGlobal n => exact inv_setGlobal ncpu s s' n h hs
  | migrate r => exact inv_migrate ncpu s s' r h hs

/-- the invariant holds in every reachable state -/
theorem inv_of_reachable (ncpu : Int) (hc : 0 < ncpu) (s : St)
    (h : Reachable (step ncpu) init s) : Inv s :=
  inv_reachable (step ncpu) init Inv inv_init (inv_step_all ncpu hc) s h

end MythVerif.InitOnce
