import MythVerif.Proofs.WsQueueTsoTac
/-! Preservation lemmas of the TSO invariant (generated per program counter of the owner): drain of an owner `top` store at pq, po1, ptl. -/
namespace MythVerif.WsqTso
open MythVerif.Wsq

theorem f_O_top_pq (s : St) (v0) (rest : List Sto) : Inv s → s.opc = .pq →
    s.bufO = .top v0 :: rest → Inv (applySto { s with bufO := rest } (.top v0)) := by
  intro h hpc hb
  simp only [applySto]
  tso_fastO h hpc [carryC]

theorem f_O_top_po1 (s : St) (v0) (rest : List Sto) : Inv s → s.opc = .po1 →
    s.bufO = .top v0 :: rest → Inv (applySto { s with bufO := rest } (.top v0)) := by
  intro h hpc hb
  simp only [applySto]
  tso_fastO h hpc [carryC]

theorem f_O_top_ptl (s : St) (v0) (rest : List Sto) (e) : Inv s → s.opc = .ptl e →
    s.bufO = .top v0 :: rest → Inv (applySto { s with bufO := rest } (.top v0)) := by
  intro h hpc hb
  simp only [applySto]
  tso_fastO h hpc [carryC]

end MythVerif.WsqTso
