import MythVerif.Model.CpuList
import MythVerif.Proofs.Env
/-! Lemmas about the `MYTH_CPU_LIST` parser model (C15): no abort / no overrun / bounded output for
    every input, exact result on the grammar, error outside it. -/
namespace MythVerif.CpuList
open MythVerif.Env

/-! ### `next_char` -/

theorem nul_ne_newline : nul ≠ '\n' := by decide

/-- `next_char` on a character that is neither NUL nor (under the assertion) a newline -/
theorem next_ok (chk : Bool) (s : Stream) (c : Char) (cs : CStr) (hr : s.rest = c :: cs)
    (h0 : c ≠ nul) (hn : chk = false ∨ c ≠ '\n') :
    next chk s = .ok { rest := cs, i := s.i + 1, ok := s.ok } := by
  unfold next
  rw [hr]
  simp only [h0, if_false]
  cases hn with
  | inl h => simp [h]
  | inr h => simp [h]

theorem cur_cons (s : Stream) (c : Char) (h : cur s = c) (h0 : c ≠ nul) :
    ∃ cs, s.rest = c :: cs := by
  unfold cur at h
  cases hr : s.rest with
  | nil => rw [hr] at h; simp at h; exact absurd h.symm h0
  | cons d ds => rw [hr] at h; simp at h; exact ⟨ds, by rw [h]⟩

theorem next_false_ne_abort (s : Stream) : next false s ≠ .abort := by
  unfold next
  split
  · simp
  · split
    · simp
    · simp

/-! ### safety: never `.abort` without the assertion, never `.overrun`, bounded output -/

theorem digitsLoop_false (ok : Nat) : ∀ (l : CStr) (i : Nat) (x : Int) (nd : Nat),
    digitsLoop false ok l i x nd ≠ none := by
  intro l
  induction l with
  | nil => intro i x nd; simp [digitsLoop]
  | cons c cs ih =>
    intro i x nd
    simp only [digitsLoop]
    split
    · simp only [Bool.false_and, Bool.false_eq_true, if_false]; exact ih _ _ _
    · simp

theorem parseInt_false_ne_abort (s : Stream) : parseInt false s ≠ .abort := by
  unfold parseInt
  split
  · rename_i h; exact absurd h (digitsLoop_false _ _ _ _ _)
  · split
    · simp
    · split <;> simp

theorem parseInt_ne_overrun (chk : Bool) (s : Stream) : parseInt chk s ≠ .overrun := by
  unfold parseInt
  split
  · simp
  · split
    · simp
    · split <;> simp

theorem minus_ne_nul : '-' ≠ nul := by decide
theorem colon_ne_nul : ':' ≠ nul := by decide
theorem comma_ne_nul : ',' ≠ nul := by decide
theorem minus_ne_nl : '-' ≠ '\n' := by decide
theorem colon_ne_nl : ':' ≠ '\n' := by decide
theorem comma_ne_nl : ',' ≠ '\n' := by decide

/-- `next_char` right after seeing one of the separators `-` `:` `,` always succeeds -/
theorem next_sep (chk : Bool) (s : Stream) (c : Char) (h : cur s = c) (h0 : c ≠ nul) (hn : c ≠ '\n') :
    ∃ cs, s.rest = c :: cs ∧ next chk s = .ok { rest := cs, i := s.i + 1, ok := s.ok } := by
  obtain ⟨cs, hr⟩ := cur_cons s c h h0
  exact ⟨cs, hr, next_ok chk s c cs hr h0 (Or.inr hn)⟩

inductive TailR.Safe : TailR → Prop
  | ok (s b c) : TailR.Safe (.ok s b c)
  | ng (d) : TailR.Safe (.ng d)

theorem parseTail_safe (s : Stream) (a : Int) : TailR.Safe (parseTail false s a) := by
  unfold parseTail
  split
  · rename_i h1
    obtain ⟨cs, _, hn⟩ := next_sep false s '-' h1 minus_ne_nul minus_ne_nl
    rw [hn]
    simp only []
    split
    · rename_i h; exact absurd h (parseInt_false_ne_abort _)
    · rename_i h; exact absurd h (parseInt_ne_overrun _ _)
    · exact .ng _
    · rename_i s3 b h3
      split
      · rename_i h4
        obtain ⟨cs', _, hn'⟩ := next_sep false s3 ':' h4 colon_ne_nul colon_ne_nl
        rw [hn']
        simp only []
        split
        · rename_i h; exact absurd h (parseInt_false_ne_abort _)
        · rename_i h; exact absurd h (parseInt_ne_overrun _ _)
        · exact .ng _
        · exact .ok _ _ _
      · exact .ok _ _ _
  · exact .ok _ _ _

theorem fill_len (b c : Int) : ∀ (room : Nat) (x : Int) (out : List Int),
    (fill b c room x out).2.length ≤ out.length + room := by
  intro room
  induction room with
  | zero => intro x out; simp only [fill]; split <;> simp
  | succ r ih =>
    intro x out
    simp only [fill]
    split
    · have := ih (wrap32 (x + c)) (out ++ [x]); simp at this; omega
    · simp

/-- the entries already written are never touched again: `int_list_add` only appends -/
theorem fill_prefix (b c : Int) : ∀ (room : Nat) (x : Int) (out : List Int),
    out <+: (fill b c room x out).2 := by
  intro room
  induction room with
  | zero => intro x out; simp only [fill]; split <;> exact List.prefix_refl _
  | succ r ih =>
    intro x out
    simp only [fill]
    split
    · exact List.IsPrefix.trans (List.prefix_append out [x]) (ih _ _)
    · exact List.prefix_refl _

/-- result of a parse step that is neither an assertion failure nor a read past the NUL, and
    whose output list stays within the capacity and extends the previous one -/
inductive R.Safe (cap : Nat) (out0 : List Int) : R → Prop
  | ok (s out) (hl : out.length ≤ cap) (hp : out0 <+: out) : R.Safe cap out0 (.ok s out)
  | ng (d out) (hl : out.length ≤ cap) (hp : out0 <+: out) : R.Safe cap out0 (.ng d out)

theorem R.Safe.weaken {cap : Nat} {o0 o1 : List Int} {r : R} (h : R.Safe cap o1 r) (hp : o0 <+: o1) :
    R.Safe cap o0 r := by
  cases h with
  | ok s out hl hp' => exact .ok s out hl (List.IsPrefix.trans hp hp')
  | ng d out hl hp' => exact .ng d out hl (List.IsPrefix.trans hp hp')

theorem parseRange_safe (cap : Nat) (s : Stream) (out : List Int) (ho : out.length ≤ cap) :
    R.Safe cap out (parseRange false cap s out) := by
  unfold parseRange
  split
  · rename_i h; exact absurd h (parseInt_false_ne_abort _)
  · rename_i h; exact absurd h (parseInt_ne_overrun _ _)
  · exact .ng _ _ ho (List.prefix_refl _)
  · rename_i s1 a h1
    have ht := parseTail_safe s1 a
    split
    · rename_i h; rw [h] at ht; cases ht
    · rename_i h; rw [h] at ht; cases ht
    · exact .ng _ _ ho (List.prefix_refl _)
    · rename_i s' b c h2
      have hl := fill_len b c (cap - out.length) a out
      have hp := fill_prefix b c (cap - out.length) a out
      split
      · rename_i out' hf; rw [hf] at hl hp; exact .ok _ _ (by simp at hl; omega) hp
      · rename_i out' hf; rw [hf] at hl hp; exact .ng _ _ (by simp at hl; omega) hp

theorem rangeLoop_safe (cap : Nat) : ∀ (n : Nat) (s : Stream) (out : List Int),
    s.rest.length ≤ n → out.length ≤ cap → R.Safe cap out (rangeLoop false cap s out) := by
  intro n
  induction n with
  | zero =>
    intro s out hn ho
    have hr : s.rest = [] := List.length_eq_zero_iff.mp (Nat.le_zero.mp hn)
    have hc : cur s = nul := by simp [cur, hr]
    rw [rangeLoop]
    have h1 : ¬ cur s = ',' := by rw [hc]; exact fun h => comma_ne_nul h.symm
    simp only [if_false, hc, ne_eq, not_true_eq_false]
    exact .ok _ _ ho (List.prefix_refl _)
  | succ n ih =>
    intro s out hn ho
    rw [rangeLoop]
    split
    · rename_i h1
      obtain ⟨cs, hr, hnx⟩ := next_sep false s ',' h1 comma_ne_nul comma_ne_nl
      split
      · rename_i h; rw [hnx] at h; cases h
      · rename_i h; rw [hnx] at h; cases h
      · rename_i s1 h
        rw [hnx] at h; cases h
        have hs := parseRange_safe cap { rest := cs, i := s.i + 1, ok := s.ok } out ho
        split
        · rename_i s2 out2 hr2
          rw [hr2] at hs
          cases hs with
          | ok _ _ hl hp =>
            have hlen := parseRange_len false cap _ _ _ _ hr2
            have : (setOk s2).rest.length ≤ n := by
              simp only [setOk]; simp at hlen; rw [hr] at hn; simp at hn; omega
            exact (ih (setOk s2) out2 this hl).weaken hp
        · exact hs
    · split
      · rename_i h1 h2
        obtain ⟨cs, hr⟩ := cur_cons s (cur s) rfl h2
        rw [next_ok false s (cur s) cs hr h2 (Or.inl rfl)]
        exact .ng _ _ ho (List.prefix_refl _)
      · exact .ok _ _ ho (List.prefix_refl _)

theorem parseRangeList_safe (cap : Nat) (s : Stream) :
    R.Safe cap [] (parseRangeList false cap s []) := by
  unfold parseRangeList
  have hs := parseRange_safe cap s [] (Nat.zero_le _)
  split
  · rename_i s1 out1 h1
    rw [h1] at hs
    cases hs with
    | ok _ _ hl hp => exact (rangeLoop_safe cap _ (setOk s1) out1 (Nat.le_refl _) hl).weaken hp
  · exact hs

/-! ### the grammar `range (',' range)*`, `range ::= a | a-b | a-b:c`, numbers as digit strings -/

/-- a number token: a non-empty string of decimal digits -/
def Tok (ds : CStr) : Prop := ds ≠ [] ∧ AllDigits ds
/-- value of a number token -/
def numVal (ds : CStr) : Nat := digitsVal ds 0

inductive RangeS where
  | single (a : CStr)
  | span (a b : CStr)
  | stride (a b c : CStr)

def RangeS.render : RangeS → CStr
  | .single a => a
  | .span a b => a ++ '-' :: b
  | .stride a b c => a ++ '-' :: (b ++ ':' :: c)

/-- `,r1,r2,…` -/
def renderTail : List RangeS → CStr
  | [] => []
  | r :: rs => ',' :: (r.render ++ renderTail rs)

/-- `r0,r1,…` -/
def renderList (r0 : RangeS) (rs : List RangeS) : CStr := r0.render ++ renderTail rs

/-- syntactic well-formedness: every number is a non-empty digit string -/
def RangeS.Syn : RangeS → Prop
  | .single a => Tok a
  | .span a b => Tok a ∧ Tok b
  | .stride a b c => Tok a ∧ Tok b ∧ Tok c

/-- `x, x+c, x+2c, …` below `b` (`fuel ≥ b - x` is enough when `c ≥ 1`) -/
def steps (c : Nat) : Nat → Nat → Nat → List Int
  | 0, _, _ => []
  | f + 1, x, b => if x < b then (x : Int) :: steps c f (x + c) b else []

/-- the CPUs a range denotes -/
def RangeS.cpus : RangeS → List Int
  | .single a => [(numVal a : Int)]
  | .span a b => steps 1 (numVal b - numVal a) (numVal a) (numVal b)
  | .stride a b c => steps (numVal c) (numVal b - numVal a) (numVal a) (numVal b)

/-- well-formed and within `int` arithmetic: no number reaches 2^31, the stride is positive and
    the last increment does not overflow -/
def RangeS.Valid : RangeS → Prop
  | .single a => Tok a ∧ numVal a + 1 < 2 ^ 31
  | .span a b => Tok a ∧ Tok b ∧ numVal a < 2 ^ 31 ∧ numVal b + 1 < 2 ^ 31
  | .stride a b c => Tok a ∧ Tok b ∧ Tok c ∧ numVal a < 2 ^ 31 ∧ 1 ≤ numVal c ∧ numVal b + numVal c < 2 ^ 31

def cpusOf (rs : List RangeS) : List Int := rs.flatMap RangeS.cpus

/-- membership in `steps`: exactly the `x + k*c` below `b` -/
theorem mem_steps (c : Nat) (hc : 1 ≤ c) : ∀ (f x b : Nat), b - x ≤ f → ∀ v : Int,
    v ∈ steps c f x b ↔ ∃ k : Nat, v = ((x + k * c : Nat) : Int) ∧ x + k * c < b := by
  intro f
  induction f with
  | zero =>
    intro x b hf v
    simp only [steps, List.not_mem_nil, false_iff]
    rintro ⟨k, _, hk⟩
    have : x ≤ x + k * c := Nat.le_add_right _ _
    omega
  | succ f ih =>
    intro x b hf v
    simp only [steps]
    split
    · rename_i hx
      simp only [List.mem_cons]
      rw [ih (x + c) b (by omega) v]
      constructor
      · rintro (h | ⟨k, hv, hk⟩)
        · exact ⟨0, by simp [h], by simpa using hx⟩
        · refine ⟨k + 1, ?_, ?_⟩
          · rw [hv]; congr 1; rw [Nat.add_mul]; omega
          · rw [Nat.add_mul]; omega
      · rintro ⟨k, hv, hk⟩
        cases k with
        | zero => left; simpa using hv
        | succ k =>
          right
          refine ⟨k, ?_, ?_⟩
          · rw [hv]; congr 1; rw [Nat.add_mul]; omega
          · rw [Nat.add_mul] at hk; omega
    · rename_i hx
      simp only [List.not_mem_nil, false_iff]
      rintro ⟨k, _, hk⟩
      have : x ≤ x + k * c := Nat.le_add_right _ _
      omega

theorem isDigit_ne_nl (c : Char) (h : isDigit c = true) : c ≠ '\n' := by
  intro hc; subst hc; revert h; decide

/-- the digit loop on a token followed by a non-digit, below 2^31: no wrap -/
theorem digitsLoop_tok (chk : Bool) (ok : Nat) (rest : CStr) (hr : NoDigitHead rest) :
    ∀ (ds : CStr) (i acc nd : Nat), AllDigits ds → digitsVal ds acc < 2 ^ 31 →
      digitsLoop chk ok (ds ++ rest) i (acc : Int) nd =
        some ({ rest := rest, i := i + ds.length, ok := ok }, (digitsVal ds acc : Int), nd + ds.length) := by
  intro ds
  induction ds with
  | nil =>
    intro i acc nd _ _
    cases rest with
    | nil => simp [digitsLoop, digitsVal]
    | cons c cs => have := hr c rfl; simp [digitsLoop, digitsVal, this]
  | cons d ds ih =>
    intro i acc nd hd hv
    have hd1 : isDigit d = true := hd d (by simp)
    have hd2 : AllDigits ds := fun c hc => hd c (by simp [hc])
    have hnl := isDigit_ne_nl d hd1
    simp only [digitsVal, hd1, if_true] at hv
    have hge := digitsVal_ge ds (acc * 10 + digitVal d)
    have hw : wrap32 ((acc : Int) * 10 + (digitVal d : Int)) = ((acc * 10 + digitVal d : Nat) : Int) := by
      rw [wrap32_id] <;> omega
    simp only [List.cons_append, digitsLoop, hd1, if_true, hnl, decide_false, Bool.and_false,
      Bool.false_eq_true, if_false, hw, digitsVal, List.length_cons]
    rw [ih (i + 1) (acc * 10 + digitVal d) (nd + 1) hd2 hv]
    simp only [Option.some.injEq, Prod.mk.injEq, Stream.mk.injEq, true_and, and_true]
    omega

theorem parseInt_tok (chk : Bool) (s : Stream) (ds rest : CStr) (hs : s.rest = ds ++ rest)
    (ht : Tok ds) (hr : NoDigitHead rest) (hv : numVal ds < 2 ^ 31) :
    parseInt chk s = .val { rest := rest, i := s.i + ds.length, ok := s.ok } (numVal ds) := by
  unfold parseInt
  rw [hs]
  have := digitsLoop_tok chk s.ok rest hr ds s.i 0 0 ht.2 hv
  simp only [Int.natCast_zero] at this
  rw [this]
  have hl : ds.length ≠ 0 := by
    intro h; exact ht.1 (List.length_eq_zero_iff.mp h)
  have h1 : ¬ (0 + ds.length = 0) := by omega
  have h2 : ¬ ((digitsVal ds 0 : Nat) : Int) = -1 := by omega
  simp only [h1, if_false, h2, numVal]

theorem fill_steps (c : Nat) (hc : 1 ≤ c) : ∀ (f x b room : Nat) (out : List Int),
    b - x ≤ f → b + c ≤ 2 ^ 31 → (steps c f x b).length ≤ room →
      fill (b : Int) (c : Int) room (x : Int) out = (true, out ++ steps c f x b) := by
  intro f
  induction f with
  | zero =>
    intro x b room out hf _ _
    have : ¬ ((x : Int) < (b : Int)) := by omega
    cases room <;> simp [fill, steps, this]
  | succ f ih =>
    intro x b room out hf hb hl
    simp only [steps] at hl ⊢
    by_cases hx : x < b
    · simp only [hx, if_true, List.length_cons] at hl ⊢
      cases room with
      | zero => omega
      | succ r =>
        have hx' : (x : Int) < (b : Int) := by omega
        have hw : wrap32 ((x : Int) + (c : Int)) = ((x + c : Nat) : Int) := by
          rw [wrap32_id] <;> omega
        simp only [fill, hx', if_true, hw]
        rw [ih (x + c) b r (out ++ [(x : Int)]) (by omega) hb (by omega)]
        simp
    · have hx' : ¬ ((x : Int) < (b : Int)) := by omega
      cases room <;> simp [fill, hx, hx']

/-- what may follow a range without being taken for a part of it: the end of the string, or
    any character that is not a digit, `-` or `:` (a comma in a well-formed list) -/
def SepHead (rest : CStr) : Prop :=
  ∀ c, rest.head? = some c → isDigit c = false ∧ c ≠ '-' ∧ c ≠ ':'

theorem SepHead.noDigit {rest : CStr} (h : SepHead rest) : NoDigitHead rest :=
  fun c hc => (h c hc).1

theorem SepHead.cur_ne {rest : CStr} (h : SepHead rest) (i ok : Nat) (c : Char) (hc : c ≠ nul)
    (hc2 : c = '-' ∨ c = ':') : cur { rest := rest, i := i, ok := ok } ≠ c := by
  cases rest with
  | nil => simp [cur]; exact fun h => hc h.symm
  | cons d t =>
    have := h d rfl
    simp [cur]
    rcases hc2 with h2 | h2 <;> subst h2
    · exact this.2.1
    · exact this.2.2

theorem sepHead_nil : SepHead [] := by intro c hc; simp at hc
theorem sepHead_comma (t : CStr) : SepHead (',' :: t) := by
  intro c hc; simp at hc; subst hc; decide

theorem noDigit_cons (c : Char) (t : CStr) (h : isDigit c = false) : NoDigitHead (c :: t) := by
  intro d hd; simp at hd; subst hd; exact h

theorem parseTail_none (chk : Bool) (s : Stream) (a : Int) (h : cur s ≠ '-') :
    parseTail chk s a = .ok s (wrap32 (a + 1)) 1 := by
  unfold parseTail; simp [h]

theorem parseTail_span (chk : Bool) (s : Stream) (a : Int) (b rest : CStr)
    (hs : s.rest = '-' :: (b ++ rest)) (hb : Tok b) (hvb : numVal b < 2 ^ 31) (hr : SepHead rest) :
    parseTail chk s a = .ok { rest := rest, i := s.i + 1 + b.length, ok := s.ok } (numVal b) 1 := by
  unfold parseTail
  have hc : cur s = '-' := by simp [cur, hs]
  rw [next_ok chk s '-' (b ++ rest) hs minus_ne_nul (Or.inr minus_ne_nl)]
  simp only [hc, if_true]
  rw [parseInt_tok chk _ b rest rfl hb hr.noDigit hvb]
  simp only []
  have := hr.cur_ne (s.i + 1 + b.length) s.ok ':' colon_ne_nul (Or.inr rfl)
  simp [this]

theorem parseTail_stride (chk : Bool) (s : Stream) (a : Int) (b c rest : CStr)
    (hs : s.rest = '-' :: (b ++ ':' :: (c ++ rest))) (hb : Tok b) (hvb : numVal b < 2 ^ 31)
    (hc : Tok c) (hvc : numVal c < 2 ^ 31) (hr : SepHead rest) :
    parseTail chk s a =
      .ok { rest := rest, i := s.i + 1 + b.length + 1 + c.length, ok := s.ok } (numVal b) (numVal c) := by
  unfold parseTail
  have hcur : cur s = '-' := by simp [cur, hs]
  rw [next_ok chk s '-' (b ++ ':' :: (c ++ rest)) hs minus_ne_nul (Or.inr minus_ne_nl)]
  simp only [hcur, if_true]
  rw [parseInt_tok chk _ b (':' :: (c ++ rest)) rfl hb (noDigit_cons _ _ (by decide)) hvb]
  simp only []
  have hcur3 : cur { rest := ':' :: (c ++ rest), i := s.i + 1 + b.length, ok := s.ok } = ':' := by simp [cur]
  simp only [hcur3, if_true]
  rw [next_ok chk _ ':' (c ++ rest) rfl colon_ne_nul (Or.inr colon_ne_nl)]
  simp only []
  rw [parseInt_tok chk _ c rest rfl hc hr.noDigit hvc]

theorem steps_single (a : Nat) : steps 1 1 a (a + 1) = [(a : Int)] := by
  simp [steps]

/-- `parse_range` on a valid range of the grammar appends exactly the CPUs it denotes -/
theorem parseRange_valid (chk : Bool) (cap : Nat) (s : Stream) (out : List Int) (r : RangeS)
    (rest : CStr) (hs : s.rest = r.render ++ rest) (hv : r.Valid) (hr : SepHead rest)
    (hl : (out ++ r.cpus).length ≤ cap) :
    parseRange chk cap s out =
      .ok { rest := rest, i := s.i + r.render.length, ok := s.ok } (out ++ r.cpus) := by
  have hroom : ∀ l : List Int, (out ++ l).length ≤ cap → l.length ≤ cap - out.length := by
    intro l h; simp at h; omega
  cases r with
  | single a =>
    obtain ⟨ha, hva⟩ := hv
    simp only [RangeS.render] at hs
    unfold parseRange
    rw [parseInt_tok chk s a rest hs ha hr.noDigit (by omega)]
    simp only []
    rw [parseTail_none chk _ _ (hr.cur_ne _ _ '-' minus_ne_nul (Or.inl rfl))]
    simp only []
    have hw : wrap32 ((numVal a : Int) + 1) = ((numVal a + 1 : Nat) : Int) := by
      rw [wrap32_id] <;> omega
    have hf := fill_steps 1 (Nat.le_refl 1) 1 (numVal a) (numVal a + 1) (cap - out.length) out
      (by omega) (by omega) (by rw [steps_single]; exact hroom _ hl)
    rw [hw]
    simp only [Int.natCast_one] at hf
    rw [hf, steps_single]
    simp [RangeS.render, RangeS.cpus]
  | span a b =>
    obtain ⟨ha, hb, hva, hvb⟩ := hv
    simp only [RangeS.render, List.append_assoc, List.cons_append] at hs
    unfold parseRange
    rw [parseInt_tok chk s a ('-' :: (b ++ rest)) hs ha (noDigit_cons _ _ (by decide)) hva]
    simp only []
    rw [parseTail_span chk _ _ b rest rfl hb (by omega) hr]
    simp only []
    have hf := fill_steps 1 (Nat.le_refl 1) (numVal b - numVal a) (numVal a) (numVal b) (cap - out.length) out
      (Nat.le_refl _) (by omega) (hroom _ hl)
    simp only [Int.natCast_one] at hf
    rw [hf]
    simp [RangeS.render, RangeS.cpus]; omega
  | stride a b c =>
    obtain ⟨ha, hb, hc, hva, hc1, hvb⟩ := hv
    simp only [RangeS.render, List.append_assoc, List.cons_append] at hs
    unfold parseRange
    rw [parseInt_tok chk s a ('-' :: (b ++ ':' :: (c ++ rest))) hs ha (noDigit_cons _ _ (by decide)) hva]
    simp only []
    rw [parseTail_stride chk _ _ b c rest rfl hb (by omega) hc (by omega) hr]
    simp only []
    have hf := fill_steps (numVal c) hc1 (numVal b - numVal a) (numVal a) (numVal b) (cap - out.length) out
      (Nat.le_refl _) (by omega) (hroom _ hl)
    rw [hf]
    simp [RangeS.render, RangeS.cpus]; omega

theorem sepHead_renderTail (rs : List RangeS) (tail : CStr) (ht : SepHead tail) :
    SepHead (renderTail rs ++ tail) := by
  cases rs with
  | nil => simpa [renderTail] using ht
  | cons r rs => simp only [renderTail, List.cons_append]; exact sepHead_comma _

/-- the comma loop on `,r1,r2,…` followed by `tail` (which does not continue the list): the
    ranges are consumed and the loop goes on at `tail` -/
theorem rangeLoop_prefix (chk : Bool) (cap : Nat) (tail : CStr) (ht : SepHead tail) :
    ∀ (rs : List RangeS) (s : Stream) (out : List Int),
    s.rest = renderTail rs ++ tail → (∀ r ∈ rs, r.Valid) → (out ++ cpusOf rs).length ≤ cap →
      ∃ sT, sT.rest = tail ∧ rangeLoop chk cap s out = rangeLoop chk cap sT (out ++ cpusOf rs) := by
  intro rs
  induction rs with
  | nil =>
    intro s out hs _ _
    exact ⟨s, by simpa [renderTail] using hs, by simp [cpusOf]⟩
  | cons r rs ih =>
    intro s out hs hv hl
    simp only [renderTail, List.cons_append, List.append_assoc] at hs
    have hc : cur s = ',' := by simp [cur, hs]
    have hnx := next_ok chk s ',' (r.render ++ (renderTail rs ++ tail)) hs comma_ne_nul (Or.inr comma_ne_nl)
    have hl1 : (out ++ r.cpus).length ≤ cap := by
      simp [cpusOf] at hl ⊢; omega
    have hpr := parseRange_valid chk cap { rest := r.render ++ (renderTail rs ++ tail), i := s.i + 1, ok := s.ok } out r
      (renderTail rs ++ tail) rfl (hv r (by simp)) (sepHead_renderTail rs tail ht) hl1
    obtain ⟨sT, hT, hrun⟩ := ih (setOk { rest := renderTail rs ++ tail, i := s.i + 1 + r.render.length, ok := s.ok }) (out ++ r.cpus)
      rfl (fun r' hr' => hv r' (by simp [hr'])) (by simp [cpusOf] at hl ⊢; omega)
    refine ⟨sT, hT, ?_⟩
    rw [rangeLoop]
    simp only [hc, if_true]
    split
    · rename_i h; rw [hnx] at h; cases h
    · rename_i h; rw [hnx] at h; cases h
    · rename_i s1 h
      rw [hnx] at h; cases h
      split
      · rename_i s2 out2 h2
        rw [hpr] at h2
        cases h2
        rw [hrun]; simp [cpusOf]
      · rename_i hne
        rw [hpr] at hne
        exact absurd rfl (hne _ _)

/-- `parse_range_list` on a list of the grammar followed by `tail` -/
theorem parseRangeList_prefix (chk : Bool) (cap : Nat) (tail : CStr) (ht : SepHead tail)
    (r0 : RangeS) (rs : List RangeS)
    (hv : ∀ r ∈ r0 :: rs, r.Valid) (hl : (cpusOf (r0 :: rs)).length ≤ cap) :
    ∃ sT, sT.rest = tail ∧
      parseRangeList chk cap { rest := renderList r0 rs ++ tail, i := 0, ok := 0 } [] =
        rangeLoop chk cap sT (cpusOf (r0 :: rs)) := by
  unfold parseRangeList
  have hl1 : (([] : List Int) ++ r0.cpus).length ≤ cap := by simp [cpusOf] at hl ⊢; omega
  have hpr := parseRange_valid chk cap { rest := renderList r0 rs ++ tail, i := 0, ok := 0 } [] r0
    (renderTail rs ++ tail) (by simp [renderList])
    (hv r0 (by simp)) (sepHead_renderTail rs tail ht) hl1
  rw [hpr]
  simp only []
  obtain ⟨sT, hT, hrun⟩ := rangeLoop_prefix chk cap tail ht rs
    (setOk { rest := renderTail rs ++ tail, i := 0 + r0.render.length, ok := 0 }) ([] ++ r0.cpus) rfl
    (fun r hr => hv r (by simp [hr])) (by simp [cpusOf] at hl ⊢; omega)
  exact ⟨sT, hT, by rw [hrun]; simp [cpusOf]⟩

/-- the comma loop at the end of the string -/
theorem rangeLoop_end (chk : Bool) (cap : Nat) (s : Stream) (out : List Int) (h : s.rest = []) :
    rangeLoop chk cap s out = .ok s out := by
  have hc : cur s = nul := by simp [cur, h]
  rw [rangeLoop]
  have h1 : ¬ nul = ',' := fun h => comma_ne_nul h.symm
  simp only [hc, h1, if_false, ne_eq, not_true_eq_false]

/-- the comma loop at a character that is neither a comma nor NUL: junk (the pinned assertion
    fires if it is a newline) -/
theorem rangeLoop_junk (chk : Bool) (cap : Nat) (s : Stream) (out : List Int) (c : Char) (t : CStr)
    (h : s.rest = c :: t) (h1 : c ≠ ',') (h0 : c ≠ nul) :
    rangeLoop chk cap s out =
      if chk && c = '\n' then .abort
      else .ng (some { kind := .junk, okPos := s.ok, pos := s.i + 1 }) out := by
  have hc : cur s = c := by simp [cur, h]
  rw [rangeLoop]
  simp only [hc, h1, if_false, ne_eq, h0, not_false_eq_true, if_true]
  unfold next
  rw [h]
  simp only [h0, if_false]
  by_cases hq : (chk && decide (c = '\n')) = true
  · simp [hq]
  · simp [hq]

/-- `parse_range_list` on a list of the grammar -/
theorem parseRangeList_valid (chk : Bool) (cap : Nat) (r0 : RangeS) (rs : List RangeS)
    (hv : ∀ r ∈ r0 :: rs, r.Valid) (hl : (cpusOf (r0 :: rs)).length ≤ cap) :
    ∃ s', parseRangeList chk cap { rest := renderList r0 rs, i := 0, ok := 0 } [] = .ok s' (cpusOf (r0 :: rs)) := by
  obtain ⟨sT, hT, hrun⟩ := parseRangeList_prefix chk cap [] sepHead_nil r0 rs hv hl
  simp only [List.append_nil] at hrun
  exact ⟨sT, by rw [hrun, rangeLoop_end chk cap sT _ hT]⟩

/-! ### converse: whatever the parser accepts is a string of the grammar -/

theorem digitsLoop_split (chk : Bool) (ok : Nat) : ∀ (l : CStr) (i : Nat) (x : Int) (nd : Nat)
    (s' : Stream) (x' : Int) (nd' : Nat), digitsLoop chk ok l i x nd = some (s', x', nd') →
      ∃ ds, l = ds ++ s'.rest ∧ AllDigits ds ∧ NoDigitHead s'.rest ∧ nd' = nd + ds.length := by
  intro l
  induction l with
  | nil =>
    intro i x nd s' x' nd' h
    simp [digitsLoop] at h
    refine ⟨[], ?_, ?_, ?_, ?_⟩
    · rw [← h.1]; rfl
    · intro c hc; cases hc
    · rw [← h.1]; intro c hc; simp at hc
    · simp [h.2.2]
  | cons c cs ih =>
    intro i x nd s' x' nd' h
    simp only [digitsLoop] at h
    split at h
    · rename_i hd
      split at h
      · simp at h
      · obtain ⟨ds, h1, h2, h3, h4⟩ := ih _ _ _ _ _ _ h
        refine ⟨c :: ds, by simp [h1], ?_, h3, by simp [h4]; omega⟩
        intro d hd'; simp at hd'; cases hd' with
        | inl h => subst h; exact hd
        | inr h => exact h2 d h
    · rename_i hd
      simp at h
      refine ⟨[], ?_, ?_, ?_, ?_⟩
      · rw [← h.1]; rfl
      · intro d hd'; cases hd'
      · rw [← h.1]; exact noDigit_cons c cs (by simpa using hd)
      · simp [h.2.2]

theorem parseInt_split (chk : Bool) (s s' : Stream) (x : Int) (h : parseInt chk s = .val s' x) :
    ∃ ds, s.rest = ds ++ s'.rest ∧ Tok ds ∧ NoDigitHead s'.rest := by
  unfold parseInt at h
  split at h
  · simp at h
  · rename_i s1 x1 nd heq
    split at h
    · simp at h
    · rename_i hnd
      split at h
      · simp at h
      · simp at h
        obtain ⟨ds, h1, h2, h3, h4⟩ := digitsLoop_split chk _ _ _ _ _ _ _ _ heq
        rw [h.1] at h1 h3
        refine ⟨ds, h1, ⟨?_, h2⟩, h3⟩
        intro hds; subst hds; simp at h4; exact hnd h4

theorem next_split (chk : Bool) (s s' : Stream) (h : next chk s = .ok s') :
    s.rest = cur s :: s'.rest ∧ cur s ≠ nul := by
  unfold next at h
  split at h
  · simp at h
  · rename_i c cs heq
    split at h
    · simp at h
    · rename_i hc
      split at h
      · simp at h
      · simp at h; rw [← h]; simp [cur, heq, hc]

theorem parseTail_split (chk : Bool) (s s' : Stream) (a b c : Int) (h : parseTail chk s a = .ok s' b c) :
    (s' = s ∧ cur s ≠ '-') ∨
    (∃ bs, Tok bs ∧ s.rest = '-' :: (bs ++ s'.rest) ∧ cur s' ≠ ':' ∧ NoDigitHead s'.rest) ∨
    (∃ bs cs, Tok bs ∧ Tok cs ∧ s.rest = '-' :: (bs ++ ':' :: (cs ++ s'.rest)) ∧ NoDigitHead s'.rest) := by
  unfold parseTail at h
  split at h
  · rename_i hc1
    split at h <;> try (simp at h; done)
    rename_i s2 h2
    split at h <;> try (simp at h; done)
    rename_i s3 b3 h3
    obtain ⟨hr2, _⟩ := next_split chk _ _ h2
    rw [hc1] at hr2
    obtain ⟨bs, hb1, hb2, hb3⟩ := parseInt_split chk _ _ _ h3
    split at h
    · rename_i hc3
      split at h <;> try (simp at h; done)
      rename_i s4 h4
      split at h <;> try (simp at h; done)
      rename_i s5 c5 h5
      obtain ⟨hr4, _⟩ := next_split chk _ _ h4
      rw [hc3] at hr4
      obtain ⟨cs, hc1', hc2', hc3'⟩ := parseInt_split chk _ _ _ h5
      simp at h
      right; right
      refine ⟨bs, cs, hb2, hc2', ?_, ?_⟩
      · rw [← h.1, hr2, hb1, hr4, hc1']
      · rw [← h.1]; exact hc3'
    · rename_i hc3
      simp at h
      right; left
      refine ⟨bs, hb2, ?_, ?_, ?_⟩
      · rw [← h.1, hr2, hb1]
      · rw [← h.1]; exact hc3
      · rw [← h.1]; exact hb3
  · rename_i hc1
    simp at h
    left; exact ⟨h.1.symm, hc1⟩

theorem parseRange_split (chk : Bool) (cap : Nat) (s s' : Stream) (out out' : List Int)
    (h : parseRange chk cap s out = .ok s' out') :
    ∃ r : RangeS, r.Syn ∧ s.rest = r.render ++ s'.rest := by
  unfold parseRange at h
  split at h <;> try (simp at h; done)
  rename_i s1 a h1
  split at h <;> try (simp at h; done)
  rename_i s2 b c h2
  obtain ⟨as, ha1, ha2, _⟩ := parseInt_split chk _ _ _ h1
  have hs2 : s' = s2 := by
    split at h
    · simp at h; exact h.1.symm
    · simp at h
  subst hs2
  rcases parseTail_split chk _ _ _ _ _ h2 with ⟨he, _⟩ | ⟨bs, hb, hr, _, _⟩ | ⟨bs, cs, hb, hc, hr, _⟩
  · exact ⟨.single as, ha2, by rw [he]; exact ha1⟩
  · exact ⟨.span as bs, ⟨ha2, hb⟩, by rw [ha1, hr]; simp [RangeS.render]⟩
  · exact ⟨.stride as bs cs, ⟨ha2, hb, hc⟩, by rw [ha1, hr]; simp [RangeS.render]⟩

theorem rangeLoop_split (chk : Bool) (cap : Nat) : ∀ (n : Nat) (s : Stream) (out : List Int)
    (s' : Stream) (out' : List Int), s.rest.length ≤ n → rangeLoop chk cap s out = .ok s' out' →
      ∃ rs : List RangeS, (∀ r ∈ rs, r.Syn) ∧ s.rest = renderTail rs ++ s'.rest ∧ cur s' = nul := by
  intro n
  induction n with
  | zero =>
    intro s out s' out' hn h
    have hr : s.rest = [] := List.length_eq_zero_iff.mp (Nat.le_zero.mp hn)
    have hc : cur s = nul := by simp [cur, hr]
    rw [rangeLoop] at h
    have h1 : ¬ nul = ',' := fun h => comma_ne_nul h.symm
    simp only [hc, h1, if_false, ne_eq, not_true_eq_false] at h
    simp at h
    exact ⟨[], by simp, by rw [← h.1]; simp [renderTail], by rw [← h.1]; exact hc⟩
  | succ n ih =>
    intro s out s' out' hn h
    rw [rangeLoop] at h
    split at h
    · rename_i hc
      split at h
      · simp at h
      · simp at h
      · rename_i s1 hnx
        obtain ⟨hr1, _⟩ := next_split chk _ _ hnx
        rw [hc] at hr1
        split at h
        · rename_i s2 out2 hpr
          obtain ⟨r, hsyn, hr2⟩ := parseRange_split chk cap _ _ _ _ hpr
          have hlen := parseRange_len chk cap _ _ _ _ hpr
          have hl1 := next_len chk _ _ hnx
          obtain ⟨rs, hrs, hr3, hcur⟩ := ih (setOk s2) out2 s' out' (by simp [setOk]; omega) h
          refine ⟨r :: rs, ?_, ?_, hcur⟩
          · intro r' hr'; simp at hr'; cases hr' with
            | inl h => subst h; exact hsyn
            | inr h => exact hrs r' h
          · simp only [setOk] at hr3
            rw [hr1, hr2, hr3]; simp [renderTail]
        · rename_i hne
          exact absurd h (hne _ _)
    · split at h
      · split at h <;> simp at h
      · rename_i hc1 hc2
        simp at h
        simp only [ne_eq, Decidable.not_not] at hc2
        exact ⟨[], by simp, by rw [← h.1]; simp [renderTail], by rw [← h.1]; exact hc2⟩

theorem parseRangeList_split (chk : Bool) (cap : Nat) (s s' : Stream) (out' : List Int)
    (h : parseRangeList chk cap s [] = .ok s' out') :
    ∃ (r0 : RangeS) (rs : List RangeS), (∀ r ∈ r0 :: rs, r.Syn) ∧
      s.rest = renderList r0 rs ++ s'.rest ∧ cur s' = nul := by
  unfold parseRangeList at h
  split at h
  · rename_i s1 out1 hpr
    obtain ⟨r0, hsyn, hr0⟩ := parseRange_split chk cap _ _ _ _ hpr
    obtain ⟨rs, hrs, hr1, hcur⟩ := rangeLoop_split chk cap _ (setOk s1) out1 s' out' (Nat.le_refl _) h
    refine ⟨r0, rs, ?_, ?_, hcur⟩
    · intro r hr; simp at hr; cases hr with
      | inl h => subst h; exact hsyn
      | inr h => exact hrs r h
    · simp only [setOk] at hr1
      rw [hr0, hr1]; simp [renderList]
  · rename_i hne
    exact absurd h (hne _ _)

end MythVerif.CpuList
