import MythVerif.Proofs.WsQueueTsoAcct
/-! Index bounds on the TSO machine (for capacities `0 ≤ size`): the logical window – and the
    owner's view of it while a shift entry is buffered – stays inside `[0, size]`, the `myth_assert`s
    of the re-centring and insertion code hold (`offset < 0`, `t < size`, `offset > 0`, `b > 0`), and
    therefore `abort()` is reached exactly on a full deque.  A second invariant on top of `Inv`. -/
namespace MythVerif.WsqTso
open MythVerif.Wsq

theorem rcOff_bnd (b : Int) (h : 0 < b) : rcOff b < 0 ∧ 0 ≤ b + rcOff b := by
  have e : rcOff b = -((b + 1) / 2) := by
    unfold rcOff
    rw [Int.tdiv_eq_ediv]
    have : Int.sign 2 = 1 := by decide
    rw [this]
    split
    · rename_i h1
      rcases h1 with h1 | h1 <;> omega
    · rename_i h1
      have : ¬ (2:Int) ∣ (-b - 1) := fun h2 => h1 (Or.inr h2)
      omega
  rw [e]; omega

structure Bnd (s : St) : Prop where
  sz   : 0 ≤ s.size
  lb0  : 0 ≤ s.lb
  lts  : s.lt ≤ s.size
  lbv  : 0 ≤ s.lb + s.sh
  ltv  : s.lt + s.sh ≤ s.size
  pu1  : ∀ e t, s.opc = .pu1 e t → t < s.size
  pu2  : ∀ e t, s.opc = .pu2 e t → t < s.size
  pum  : ∀ e off, s.opc = .pum e off → off < 0 ∧ 0 ≤ s.lb + off
  pus  : ∀ e off, s.opc = .pus e off → off < 0 ∧ s.lt + s.sh < s.size
  puv  : ∀ e off, s.opc = .puv e off → s.lt + s.sh < s.size
  pux  : ∀ e t, s.opc = .pux e t → t < s.size
  pt3  : ∀ e off, s.opc = .pt3 e off → 0 < off ∧ s.lt + off ≤ s.size ∧ s.lb = 0
  pt4  : ∀ e off, s.opc = .pt4 e off → 0 < off ∧ 0 < s.lb + s.sh
  pt5  : ∀ e off, s.opc = .pt5 e off → 0 < s.lb + s.sh
  pt6  : ∀ e, s.opc = .pt6 e → 0 < s.lb + s.sh
  pt7  : ∀ e b, s.opc = .pt7 e b → 0 < b
  pt8  : ∀ e b, s.opc = .pt8 e b → 0 < b
  pt9  : s.opc = .pt9 → s.bufO ≠ [] → 0 < s.lb + s.sh
  tp1b : ∀ p e, s.tpc p = .tp1b e → 0 < s.lb
  tp2  : ∀ p e b, s.tpc p = .tp2 e b → 0 < b
  tp3  : ∀ p e, s.tpc p = .tp3 e → 0 < s.lb
  tp4  : ∀ p ok, s.tpc p = .tp4 ok → s.bufT p ≠ [] → 0 < s.lb
  -- memory values (what a lock-free load may return, also in the middle of a re-centring) and slot loads
  base0 : 0 ≤ s.base
  tops : s.top ≤ s.size
  pk2  : ∀ p b, s.tpc p = .pk2 b → 0 ≤ b
  pk3  : ∀ p b, s.tpc p = .pk3 b → 0 ≤ b ∧ b < s.size
  tk3  : ∀ p b x, s.tpc p = .tk3 b x → 0 ≤ b
  vk3  : ∀ p b, s.tpc p = .vk3 b → b < s.size
  po3  : ∀ t x, s.opc = .po3 t x → t < s.size
  po5  : ∀ t x, s.opc = .po5 t x → 0 ≤ t ∧ t < s.size
  po5b : ∀ t r, s.opc = .po5b t r → 0 ≤ t ∧ t < s.size

section FastTactics
open Lean Elab Tactic Meta

/-- add the global clauses of `hb : Bnd s` to the context -/
elab "bnd_core " h:ident : tactic => withMainContext do
  let hExpr ← elabTerm h none
  let mut g ← getMainGoal
  for f in [`sz, `lb0, `lts, `lbv, `ltv, `base0, `tops] do
    let pf ← mkAppM (``Bnd ++ f) #[hExpr]
    let ty ← inferType pf
    let g' ← g.assert (Name.mkSimple ("hb_" ++ f.toString)) ty pf
    let (_, g'') ← g'.intro1P
    g := g''
  replaceMainGoal [g]

/-- on a goal produced by `constructor` on `Bnd s'`: add the old clause `hb.F` as the newest hypothesis -/
elab "bnd_pick " h:ident : tactic => withMainContext do
  let g ← getMainGoal
  let tag ← g.getTag
  let fld := match tag with
    | .str _ s => Name.mkSimple s
    | _ => Name.anonymous
  let hExpr ← elabTerm h none
  let pf ← mkAppM (``Bnd ++ fld) #[hExpr]
  let ty ← inferType pf
  let g' ← g.assert `hold ty pf
  let (_, g'') ← g'.intro1
  replaceMainGoal [g'']

end FastTactics

theorem init_bnd (n : Int) (hn : 0 ≤ n) : Bnd (init FenceCfg.code n) := by
  constructor
  all_goals simp [init]
  all_goals omega

/-- what the owner's loads of `top` / `base` return where the bounds need it -/
theorem owner_views (s : St) (h : Inv s) :
    (∀ e, s.opc = .pub e → viewBase s.bufO s.base = s.lb ∧ s.lt = s.size) ∧
    (∀ e, s.opc = .pt1 e → viewBase s.bufO s.base = s.lb) ∧
    (∀ e, s.opc = .pt2 e → viewTop s.bufO s.top = s.lt ∧ s.lb = 0) ∧
    (∀ e off, s.opc = .pum e off → viewBase s.bufO s.base = s.lb ∧ viewTop s.bufO s.top = s.lt) ∧
    (∀ e off, s.opc = .pt3 e off → viewBase s.bufO s.base = s.lb ∧ viewTop s.bufO s.top = s.lt) := by
  have htr : s.lock = .owner → s.tr = false := by
    intro hl
    cases ht : s.tr with
    | false => rfl
    | true => obtain ⟨q, hq⟩ := h.trn ht; rw [hl] at hq; cases hq
  refine ⟨(overflow_tests_logical s h).1, (base_tests_logical s h).1, (overflow_tests_logical s h).2, ?_, ?_⟩
  · intro e off hpc
    have hl := h.lockO.2 (by simp [hpc, ownerLocked])
    have hb := h.lbase (by simp [hpc, resetting])
    obtain ⟨h1, h2⟩ := h.pum e off hpc
    simp [htr hl] at hb
    rw [h1, viewBase_nil, viewTop_nil]; exact ⟨hb, h2⟩
  · intro e off hpc
    have hl := h.lockO.2 (by simp [hpc, ownerLocked])
    have hb := h.lbase (by simp [hpc, resetting])
    obtain ⟨h1, h2⟩ := h.pt3 e off hpc
    simp [htr hl] at hb
    rw [h1, viewBase_nil, viewTop_nil]; exact ⟨hb, h2⟩

theorem thief_views (s : St) (h : Inv s) (p : Pid) :
    (∀ e, s.tpc p = .tp1 e → viewBase (s.bufT p) s.base = s.lb) ∧
    (∀ e, s.tpc p = .tp1b e → viewBase (s.bufT p) s.base = s.lb) := by
  refine ⟨fun e => (base_tests_logical s h).2 p e, ?_⟩
  intro e hpc
  have hl := (h.lockT p).2 (by simp [hpc, thiefLocked])
  have htr := h.trF p hl (by simp [hpc, notTrans])
  have := h.lbase (thief_not_resetting s h p hl)
  rw [h.tbufE p (by simp [hpc, mayBuf]), viewBase_nil, this]; simp [htr]

end MythVerif.WsqTso
