import MythVerif.Model.TaskGroup
import MythVerif.Proofs.Bulk
/-! helper lemmas for C17: the chunked task list and the bump allocator of `mtbb::task_group` -/
namespace MythVerif.TaskGroup

/-! ### task list -/

theorem add_flatten (cfg : Cfg) (tl : TaskList) (t : Task) :
    (tl.add cfg t).nodes.flatten = tl.nodes.flatten ++ [t] := by
  unfold TaskList.add TaskList.nodes
  split <;> simp

/-- every node before `tail` is full, `tail` is within its capacity and (unless it is the
    head) not empty -/
def Shape (cfg : Cfg) (tl : TaskList) : Prop :=
  (∀ n ∈ tl.full, n.length = cfg.cap) ∧ tl.tail.length ≤ cfg.cap ∧ (tl.full ≠ [] → tl.tail ≠ [])

theorem shape_init (cfg : Cfg) : Shape cfg TaskList.init := by
  simp [Shape, TaskList.init]

theorem add_shape (cfg : Cfg) (hc : 0 < cfg.cap) (tl : TaskList) (t : Task) (h : Shape cfg tl) :
    Shape cfg (tl.add cfg t) := by
  obtain ⟨h1, h2, h3⟩ := h
  unfold TaskList.add
  split
  · rename_i heq
    refine ⟨?_, by simp; omega, by simp⟩
    intro n hn
    simp only [List.mem_append, List.mem_singleton] at hn
    rcases hn with hn | rfl
    · exact h1 n hn
    · exact heq
  · rename_i hne
    refine ⟨h1, by simp; omega, by simp⟩

/-! ### allocator -/

/-- invariant of the allocator together with the blocks handed out since the last reset -/
def MemInv (m : Mem) (bs : List Block) : Prop :=
  m.tail.2 ≤ m.tail.1 ∧
  (∀ b ∈ bs, ∃ sz used, m.chunks[b.chunk]? = some (sz, used) ∧ b.off + b.size ≤ used ∧ used ≤ sz) ∧
  bs.Pairwise Block.disjoint

theorem memInv_init (cfg : Cfg) : MemInv (Mem.init cfg) [] := by
  simp [MemInv, Mem.init]

theorem chunks_length (m : Mem) : m.chunks.length = m.done.length + 1 := by
  simp [Mem.chunks]

theorem alloc_size (cfg : Cfg) (m : Mem) (s : Nat) : (m.alloc cfg s).2.size = s := by
  unfold Mem.alloc; split <;> rfl

theorem alloc_inv (cfg : Cfg) (m : Mem) (bs : List Block) (s : Nat) (h : MemInv m bs) :
    MemInv (m.alloc cfg s).1 (bs ++ [(m.alloc cfg s).2]) ∧ (m.alloc cfg s).2.size = s := by
  obtain ⟨h1, h2, h3⟩ := h
  have hlt : ∀ b ∈ bs, b.chunk < m.done.length + 1 := by
    intro b hb
    obtain ⟨sz, u, hg, _, _⟩ := h2 b hb
    have := (List.getElem?_eq_some_iff.mp hg).1
    rw [chunks_length] at this; exact this
  have htail : ∀ b ∈ bs, b.chunk = m.done.length → b.off + b.size ≤ m.tail.2 := by
    intro b hb hc
    obtain ⟨sz, u, hg, h5, _⟩ := h2 b hb
    rw [hc] at hg
    simp [Mem.chunks] at hg
    rw [hg]; exact h5
  unfold Mem.alloc
  by_cases hnew : m.tail.2 + s > m.tail.1
  · rw [if_pos hnew]
    refine ⟨⟨?_, ?_, ?_⟩, rfl⟩
    · simp only; split <;> omega
    · intro b hb
      simp only [List.mem_append, List.mem_singleton] at hb
      rcases hb with hb | rfl
      · obtain ⟨sz, u, hg, h5, h6⟩ := h2 b hb
        refine ⟨sz, u, ?_, h5, h6⟩
        have hl := hlt b hb
        simp only [Mem.chunks] at hg ⊢
        rw [List.getElem?_append_left (by simp; omega)]
        exact hg
      · refine ⟨(if s ≤ cfg.chunk then cfg.chunk else s), s, ?_, by simp, ?_⟩
        · simp [Mem.chunks]
        · split <;> omega
    · rw [List.pairwise_append]
      refine ⟨h3, by simp, ?_⟩
      intro x hx y hy
      simp only [List.mem_singleton] at hy
      subst hy
      left
      have := hlt x hx
      simp only; omega
  · rw [if_neg hnew]
    refine ⟨⟨?_, ?_, ?_⟩, rfl⟩
    · simp only; omega
    · intro b hb
      simp only [List.mem_append, List.mem_singleton] at hb
      rcases hb with hb | rfl
      · obtain ⟨sz, u, hg, h5, h6⟩ := h2 b hb
        have hl := hlt b hb
        by_cases hc : b.chunk = m.done.length
        · refine ⟨m.tail.1, m.tail.2 + s, ?_, ?_, by omega⟩
          · simp [Mem.chunks, hc]
          · have := htail b hb hc; omega
        · refine ⟨sz, u, ?_, h5, h6⟩
          simp only [Mem.chunks] at hg ⊢
          rw [List.getElem?_append_left (by omega)] at hg ⊢
          exact hg
      · refine ⟨m.tail.1, m.tail.2 + s, ?_, by simp, by omega⟩
        simp [Mem.chunks]
    · rw [List.pairwise_append]
      refine ⟨h3, by simp, ?_⟩
      intro x hx y hy
      simp only [List.mem_singleton] at hy
      subst hy
      by_cases hc : x.chunk = m.done.length
      · right; left
        have := htail x hx hc
        simpa using this
      · left; simpa using hc

/-! ### task group -/

/-- what holds of a task group at any time: list shape, allocator invariant, the tasks in the
    list are exactly the ones run since the last `wait`, in order, one block each -/
structure Inv (cfg : Cfg) (g : TG) : Prop where
  shape : Shape cfg g.tasks
  mem : MemInv g.mem g.blocks
  count : g.blocks.length = g.tasks.nodes.flatten.length
  ids : g.tasks.nodes.flatten = List.range' (g.next - g.blocks.length) g.blocks.length
  le : g.blocks.length ≤ g.next

theorem inv_init (cfg : Cfg) : Inv cfg (TG.init cfg) :=
  ⟨shape_init cfg, memInv_init cfg, by simp [TG.init, TaskList.init, TaskList.nodes],
   by simp [TG.init, TaskList.init, TaskList.nodes], by simp [TG.init]⟩

theorem run_inv (cfg : Cfg) (hc : 0 < cfg.cap) (g : TG) (size : Nat) (h : Inv cfg g) :
    Inv cfg (g.run cfg size) := by
  obtain ⟨h1, h2, h3, h4, h5⟩ := h
  have ha := alloc_inv cfg g.mem g.blocks size h2
  unfold TG.run
  refine ⟨add_shape cfg hc _ _ h1, ha.1, ?_, ?_, ?_⟩
  · simp only [add_flatten, List.length_append, List.length_singleton, h3]
  · rw [add_flatten, h4]
    simp only [List.length_append, List.length_singleton]
    rw [show g.next + 1 - (g.blocks.length + 1) = g.next - g.blocks.length by omega,
        List.range'_1_concat, show g.next - g.blocks.length + g.blocks.length = g.next by omega]
  · simp only [List.length_append, List.length_singleton]; omega

theorem wait_inv (cfg : Cfg) (g : TG) (_h : Inv cfg g) : Inv cfg (g.wait cfg).2 := by
  unfold TG.wait
  exact ⟨shape_init cfg, memInv_init cfg, by simp [TaskList.init, TaskList.nodes],
    by simp [TaskList.init, TaskList.nodes], by simp⟩

theorem runs_inv (cfg : Cfg) (hc : 0 < cfg.cap) (sizes : List Nat) : ∀ (g : TG), Inv cfg g →
    Inv cfg (g.runs cfg sizes) := by
  induction sizes with
  | nil => intro g h; exact h
  | cons s ss ih => intro g h; exact ih _ (run_inv cfg hc g s h)

theorem runs_blocks (cfg : Cfg) (sizes : List Nat) : ∀ (g : TG),
    (g.runs cfg sizes).blocks.map Block.size = g.blocks.map Block.size ++ sizes ∧
    (g.runs cfg sizes).next = g.next + sizes.length := by
  induction sizes with
  | nil => intro g; simp [TG.runs]
  | cons s ss ih =>
    intro g
    have := ih (g.run cfg s)
    simp only [TG.runs, List.foldl_cons] at this ⊢
    rw [this.1, this.2]
    constructor
    · simp only [TG.run, List.map_append, List.map_cons, List.map_nil, List.append_assoc,
        List.singleton_append]
      rw [alloc_size]
    · simp only [TG.run, List.length_cons]; omega

/-- the states a task group can be in: after the constructor, after `run`, after `wait` -/
inductive Reach (cfg : Cfg) : TG → Prop where
  | init : Reach cfg (TG.init cfg)
  | run {g} (size : Nat) : Reach cfg g → Reach cfg (g.run cfg size)
  | wait {g} : Reach cfg g → Reach cfg (g.wait cfg).2

theorem reach_inv (cfg : Cfg) (hc : 0 < cfg.cap) (g : TG) (h : Reach cfg g) : Inv cfg g := by
  induction h with
  | init => exact inv_init cfg
  | run size _ ih => exact run_inv cfg hc _ size ih
  | wait _ ih => exact wait_inv cfg _ ih

end MythVerif.TaskGroup
