import MythVerif.Proofs.WsQueueTsoStepO1
import MythVerif.Proofs.WsQueueTsoStepO2
import MythVerif.Proofs.WsQueueTsoStepO3
import MythVerif.Proofs.WsQueueTsoStepO4
import MythVerif.Proofs.WsQueueTsoStepR1
import MythVerif.Proofs.WsQueueTsoStepR2
import MythVerif.Proofs.WsQueueTsoStepR3
import MythVerif.Proofs.WsQueueTsoStepF8
import MythVerif.Proofs.WsQueueTsoStepC1
import MythVerif.Proofs.WsQueueTsoStepU1
import MythVerif.Proofs.WsQueueTsoStepU2
import MythVerif.Proofs.WsQueueTsoStepT1
import MythVerif.Proofs.WsQueueTsoStepT2
import MythVerif.Proofs.WsQueueTsoStepT3
import MythVerif.Proofs.WsQueueTsoStepF2
import MythVerif.Proofs.WsQueueTsoStepF4
import MythVerif.Proofs.WsQueueTsoStepF5
import MythVerif.Proofs.WsQueueTsoStepP1
import MythVerif.Proofs.WsQueueTsoStepP2
import MythVerif.Proofs.WsQueueTsoStepK1
import MythVerif.Proofs.WsQueueTsoStepW1
import MythVerif.Proofs.WsQueueTsoStepW2
import MythVerif.Proofs.WsQueueTsoStepW3
import MythVerif.Proofs.WsQueueTsoStepV1
import MythVerif.Proofs.WsQueueTsoStepV2
import MythVerif.Proofs.WsQueueTsoStepV3
import MythVerif.Proofs.WsQueueTsoStepF9
import MythVerif.Proofs.WsQueueTsoFlush
/-! The TSO invariant is inductive; it holds in every reachable state of the store-buffer machine
    with the fences of the source. -/
namespace MythVerif.WsqTso
open MythVerif.Wsq

theorem stepO_inv (s s' : St) : Inv s → stepO s = some s' → Inv s' := by
  intro h hs
  cases hpc : s.opc with
  | idle => simp [stepO, hpc] at hs
  | stuck => simp [stepO, hpc] at hs
  | pu0 e => exact o_pu0 s s' e h hpc hs
  | pu0f e t => exact o_pu0f s s' e t h hpc hs
  | pul e => exact o_pul s s' e h hpc hs
  | pub e => exact o_pub s s' e h hpc hs
  | pum e off => exact o_pum s s' e off h hpc hs
  | pus e off => exact o_pus s s' e off h hpc hs
  | puv e off => exact o_puv s s' e off h hpc hs
  | pux e t => exact o_pux s s' e t h hpc hs
  | pu1 e t => exact o_pu1 s s' e t h hpc hs
  | pu2 e t => exact o_pu2 s s' e t h hpc hs
  | pq => exact o_pq s s' h hpc hs
  | po1 => exact o_po1 s s' h hpc hs
  | pof t => exact o_pof s s' t h hpc hs
  | po2 t => exact o_po2 s s' t h hpc hs
  | po3 t x => exact o_po3 s s' t x h hpc hs
  | pol t => exact o_pol s s' t h hpc hs
  | po4 t => exact o_po4 s s' t h hpc hs
  | po5 t x => exact o_po5 s s' t x h hpc hs
  | po5b t r => exact o_po5b s s' t r h hpc hs
  | po5c t r => exact o_po5c s s' t r h hpc hs
  | po5d r => exact o_po5d s s' r h hpc hs
  | po6 r => exact o_po6 s s' r h hpc hs
  | po7 => exact o_po7 s s' h hpc hs
  | po8 => exact o_po8 s s' h hpc hs
  | po9 => exact o_po9 s s' h hpc hs
  | stuckL => simp [stepO, hpc] at hs
  | ptl e => exact o_ptl s s' e h hpc hs
  | pt1 e => exact o_pt1 s s' e h hpc hs
  | pt2 e => exact o_pt2 s s' e h hpc hs
  | pt3 e off => exact o_pt3 s s' e off h hpc hs
  | pt4 e off => exact o_pt4 s s' e off h hpc hs
  | pt5 e off => exact o_pt5 s s' e off h hpc hs
  | pt6 e => exact o_pt6 s s' e h hpc hs
  | pt7 e b => exact o_pt7 s s' e b h hpc hs
  | pt8 e b => exact o_pt8 s s' e b h hpc hs
  | pt9 => exact o_pt9 s s' h hpc hs
  | assertFail => simp [stepO, hpc] at hs
  | cll => exact o_cll s s' h hpc hs
  | cl1 => exact o_cl1 s s' h hpc hs
  | cl2 => exact o_cl2 s s' h hpc hs
  | cl3 => exact o_cl3 s s' h hpc hs

theorem stepT_inv (s s' : St) (p : Pid) : Inv s → stepT s p = some s' → Inv s' := by
  intro h hs
  cases hpc : s.tpc p with
  | idle => simp [stepT, hpc] at hs
  | tq0 => exact t_tq0 s s' p h hpc hs
  | tq1 t => exact t_tq1 s s' p t h hpc hs
  | tkl => exact t_tkl s s' p h hpc hs
  | tk1 => exact t_tk1 s s' p h hpc hs
  | tkf b => exact t_tkf s s' p b h hpc hs
  | tk2 b => exact t_tk2 s s' p b h hpc hs
  | tk3 b x => exact t_tk3 s s' p b x h hpc hs
  | tk4 r => exact t_tk4 s s' p r h hpc hs
  | tk5 b => exact t_tk5 s s' p b h hpc hs
  | tk6 => exact t_tk6 s s' p h hpc hs
  | tpl e => exact t_tpl s s' p e h hpc hs
  | tp1 e => exact t_tp1 s s' p e h hpc hs
  | tp1b e => exact t_tp1b s s' p e h hpc hs
  | tp2 e b => exact t_tp2 s s' p e b h hpc hs
  | tp3 e => exact t_tp3 s s' p e h hpc hs
  | tp4 ok => exact t_tp4 s s' p ok h hpc hs
  | kq0 => exact t_kq0 s s' p h hpc hs
  | kq1 t => exact t_kq1 s s' p t h hpc hs
  | pk1 => exact t_pk1 s s' p h hpc hs
  | pk2 b => exact t_pk2 s s' p b h hpc hs
  | pk3 b => exact t_pk3 s s' p b h hpc hs
  | wq0 => exact t_wq0 s s' p h hpc hs
  | wq1 t => exact t_wq1 s s' p t h hpc hs
  | wtl => exact t_wtl s s' p h hpc hs
  | wk1 => exact t_wk1 s s' p h hpc hs
  | wkf b => exact t_wkf s s' p b h hpc hs
  | wk2 b => exact t_wk2 s s' p b h hpc hs
  | wk3 b => exact t_wk3 s s' p b h hpc hs
  | wkd b r => simp [stepT, hpc] at hs
  | wk4 r => exact t_wk4 s s' p r h hpc hs
  | wk4u r => exact t_wk4u s s' p r h hpc hs
  | wk5 b => exact t_wk5 s s' p b h hpc hs
  | wk6 => exact t_wk6 s s' p h hpc hs
  | vq0 => exact t_vq0 s s' p h hpc hs
  | vq1 t => exact t_vq1 s s' p t h hpc hs
  | vc0 => exact t_vc0 s s' p h hpc hs
  | vl => exact t_vl s s' p h hpc hs
  | vc1 => exact t_vc1 s s' p h hpc hs
  | vk1 => exact t_vk1 s s' p h hpc hs
  | vkf b => exact t_vkf s s' p b h hpc hs
  | vk2 b => exact t_vk2 s s' p b h hpc hs
  | vk3 b => exact t_vk3 s s' p b h hpc hs
  | vk4 b r => exact t_vk4 s s' p b r h hpc hs
  | vk5 b => exact t_vk5 s s' p b h hpc hs
  | vu => exact t_vu s s' p h hpc hs
  | vr => exact t_vr s s' p h hpc hs

theorem callO_inv (s s' : St) (pc : OPc) (hpc : (∃ e, pc = .pu0 e) ∨ pc = .pq ∨ pc = .cll ∨ (∃ e, pc = .ptl e)) :
    Inv s → (match s.opc with | .idle => some { s with opc := pc } | _ => none) = some s' → Inv s' := by
  intro h hs
  split at hs
  · rename_i heq
    simp at hs; subst hs
    rcases hpc with ⟨e, rfl⟩ | rfl | rfl | ⟨e, rfl⟩
    all_goals tso_fastO h heq [carryC]
  · simp at hs

theorem callT_inv (s s' : St) (p : Pid) (pc : TPc) (hpc : pc = .tq0 ∨ pc = .kq0 ∨ pc = .wq0 ∨ pc = .vq0 ∨ ∃ e, pc = .tpl e) :
    Inv s → (match s.tpc p with | .idle => some { s with tpc := upd s.tpc p pc } | _ => none) = some s' → Inv s' := by
  intro h hs
  split at hs
  · rename_i heq
    simp at hs; subst hs
    rcases hpc with rfl | rfl | rfl | rfl | ⟨e, rfl⟩
    all_goals tso_fastT h p []
  · simp at hs

/-- a drain from the buffer of a thief / passer -/
theorem f_T (s s' : St) (p : Pid) : Inv s → step s (.flushT p) = some s' → Inv s' := by
  intro h hs
  simp only [step] at hs
  split at hs
  · rename_i st rest hb
    obtain ⟨hl, hcase⟩ := thief_buf_shape s h p st rest hb
    simp at hs; subst hs
    rcases hcase with ⟨b, hpc, rfl, rfl, hlb, htr⟩ | ⟨hpc, rfl, rfl, htr⟩ | ⟨e, hpc, rfl, rfl⟩ |
      ⟨e, ok, hpc, rfl, rfl⟩ | ⟨e, ok, hpc, rfl, rfl, hp⟩ | ⟨x, rfl, hc⟩
    · exact f_T_inc s p b h hl hb hpc hlb htr
    · exact f_T_rb s p h hl hb hpc htr
    · exact f_T_ptr3 s p e h hl hb hpc
    · exact f_T_ptr4 s p e ok h hl hb hpc
    · exact f_T_baseI s p e ok h hl hb hpc hp
    · exact f_T_cache s p x rest h hl hb hc
  · simp at hs

theorem flushO_inv (s s' : St) : Inv s → step s .flushO = some s' → Inv s' := by
  intro h hs
  simp only [step] at hs
  split at hs
  · rename_i st rest hb
    simp at hs
    cases st with
    | top v => exact f_O_top s s' v rest h hb hs.symm
    | base v => exact f_O_base s s' v rest h hb hs.symm
    | ptr i x => exact f_O_ptr s s' i x rest h hb hs.symm
    | unlock => exact f_O_unlock s s' rest h hb hs.symm
    | baseI v e => exact f_O_baseI s s' v e rest h hb hs.symm
    | shift lo hi off => exact f_O_shift s s' lo hi off rest h hb hs.symm
    | cache x => exact f_O_cache s s' x rest h hb hs.symm
  · simp at hs

theorem step_inv (s : St) (l : Lbl) (s' : St) : Inv s → step s l = some s' → Inv s' := by
  intro h hs
  cases l with
  | oPush e => exact callO_inv s s' _ (Or.inl ⟨e, rfl⟩) h hs
  | oPop => exact callO_inv s s' _ (Or.inr (Or.inl rfl)) h hs
  | oPut e => exact callO_inv s s' _ (Or.inr (Or.inr (Or.inr ⟨e, rfl⟩))) h hs
  | oClear => exact callO_inv s s' _ (Or.inr (Or.inr (Or.inl rfl))) h hs
  | o => exact stepO_inv s s' h hs
  | flushO => exact flushO_inv s s' h hs
  | tTake p => exact callT_inv s s' p _ (Or.inl rfl) h hs
  | tPass p e => exact callT_inv s s' p _ (Or.inr (Or.inr (Or.inr (Or.inr ⟨e, rfl⟩)))) h hs
  | tPeek p => exact callT_inv s s' p _ (Or.inr (Or.inl rfl)) h hs
  | tWTake p => exact callT_inv s s' p _ (Or.inr (Or.inr (Or.inl rfl))) h hs
  | tWPeek p => exact callT_inv s s' p _ (Or.inr (Or.inr (Or.inr (Or.inl rfl)))) h hs
  | tDecide p a => exact d_wkd s s' p a h hs
  | t p => exact stepT_inv s s' p h hs
  | flushT p => exact f_T s s' p h hs

theorem init_inv (n : Int) : Inv (init FenceCfg.code n) := by
  constructor
  all_goals simp [init, ownerLocked, thiefLocked, carry, mayBuf, notTrans, resetting, ownerFlight, thiefFlight, CarryShape]

/-- the invariant holds in every reachable state of the TSO machine with the code's fences -/
theorem reachable_inv (n : Int) (s : St) (h : Reachable step (init FenceCfg.code n) s) : Inv s :=
  inv_reachable step (init FenceCfg.code n) Inv (init_inv n) step_inv s h

end MythVerif.WsqTso
