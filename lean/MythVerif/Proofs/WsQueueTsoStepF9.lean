import MythVerif.Proofs.WsQueueTsoTac
/-! Preservation lemmas of the TSO invariant (drain of a store of the steal cache's pointer word:
    no clause mentions the memory value of that word, only the buffer shapes change). -/
namespace MythVerif.WsqTso
open MythVerif.Wsq

theorem f_T_cache (s : St) (p : Pid) (x : Option Elem) (rest : List Sto) : Inv s → s.lock = .thief p →
    s.bufT p = .cache x :: rest →
    ((∃ r, s.tpc p = .wk4u r ∧ rest = []) ∨ (∃ b, s.tpc p = .vk5 b ∧ rest = []) ∨
     (s.tpc p = .vu ∧ rest = [.base s.lb] ∧ s.tr = true)) →
    Inv (applySto { s with bufT := upd s.bufT p rest } (.cache x)) := by
  intro h hl hb hpc
  simp only [applySto]
  rcases hpc with ⟨r, hpc, rfl⟩ | ⟨b, hpc, rfl⟩ | ⟨hpc, rfl, htr⟩
  all_goals tso_fastT h p [wk4u, vk5, vu]

end MythVerif.WsqTso
