import MythVerif.Proofs.WsQueueTsoTac
/-! Preservation lemmas of the TSO invariant (wsapi take: cache word, unlock, roll-back). -/
namespace MythVerif.WsqTso
open MythVerif.Wsq

theorem t_wk4 (s s' : St) (p : Pid) (r) : Inv s → s.tpc p = .wk4 r → stepT s p = some s' → Inv s' := by
  intro h heq hs
  have hb := h.tbufE p (by simp [heq, mayBuf])
  simp only [stepT, heq, hb] at hs
  simp at hs; subst hs
  tso_fastT h p [wk4]

theorem t_wk4u (s s' : St) (p : Pid) (r) : Inv s → s.tpc p = .wk4u r → stepT s p = some s' → Inv s' := by
  intro h heq hs
  have hcfg := h.cfg
  simp only [stepT, heq, releaseT, hcfg, code_unlockFence, if_true] at hs
  split at hs
  · rename_i hb
    simp at hb
    simp at hs; subst hs
    tso_fastT h p [wk4u]
  · simp at hs

theorem t_wk5 (s s' : St) (p : Pid) (b) : Inv s → s.tpc p = .wk5 b → stepT s p = some s' → Inv s' := by
  intro h heq hs
  have hb := h.tbufE p (by simp [heq, mayBuf])
  simp only [stepT, heq, hb] at hs
  simp at hs; subst hs
  tso_fastT h p [wk5]

theorem t_wk6 (s s' : St) (p : Pid) : Inv s → s.tpc p = .wk6 → stepT s p = some s' → Inv s' := by
  intro h heq hs
  have hcfg := h.cfg
  simp only [stepT, heq, releaseT, hcfg, code_unlockFence, if_true] at hs
  split at hs
  · rename_i hb
    simp at hb
    simp at hs; subst hs
    tso_fastT h p [wk6]
  · simp at hs

end MythVerif.WsqTso
