import MythVerif.Proofs.WsQueueTsoTac
/-! Preservation lemmas of the TSO invariant (thief: quick check, lock, base increment, fence). -/
namespace MythVerif.WsqTso
open MythVerif.Wsq

theorem t_tq0 (s s' : St) (p : Pid) : Inv s → s.tpc p = .tq0 → stepT s p = some s' → Inv s' := by
  intro h heq hs
  have hb := h.tbufE p (by simp [heq, mayBuf])
  simp only [stepT, heq, hb, viewTop_nil] at hs
  simp at hs; subst hs
  tso_fastT h p []

theorem t_tq1 (s s' : St) (p : Pid) (t) : Inv s → s.tpc p = .tq1 t → stepT s p = some s' → Inv s' := by
  intro h heq hs
  have hb := h.tbufE p (by simp [heq, mayBuf])
  simp only [stepT, heq, hb, viewBase_nil] at hs
  split at hs
  all_goals (simp at hs; subst hs)
  all_goals tso_fastT h p []

theorem t_tkl (s s' : St) (p : Pid) : Inv s → s.tpc p = .tkl → stepT s p = some s' → Inv s' := by
  intro h heq hs
  have hb := h.tbufE p (by simp [heq, mayBuf])
  simp only [stepT, heq, hb] at hs
  simp at hs
  split at hs
  · simp at hs; subst hs
    tso_fastT h p []
  · simp at hs; subst hs; exact h

theorem t_tk1 (s s' : St) (p : Pid) : Inv s → s.tpc p = .tk1 → stepT s p = some s' → Inv s' := by
  intro h heq hs
  have hb := h.tbufE p (by simp [heq, mayBuf])
  simp only [stepT, heq, hb, viewBase_nil] at hs
  simp at hs; subst hs
  tso_fastT h p []

theorem t_tkf (s s' : St) (p : Pid) (b) : Inv s → s.tpc p = .tkf b → stepT s p = some s' → Inv s' := by
  intro h heq hs
  have hcfg := h.cfg
  simp only [stepT, heq, fenceOk, hcfg, code_takeFence] at hs
  split at hs
  · rename_i hb
    simp at hb
    simp at hs; subst hs
    tso_fastT h p [tkf]
  · simp at hs

end MythVerif.WsqTso
