import MythVerif.Proofs.WsQueueTsoTac
/-! Preservation lemmas of the TSO invariant (thief: slot read, roll-back, unlock). -/
namespace MythVerif.WsqTso
open MythVerif.Wsq

theorem t_tk3 (s s' : St) (p : Pid) (b x) : Inv s → s.tpc p = .tk3 b x → stepT s p = some s' → Inv s' := by
  intro h heq hs
  have hb := h.tbufE p (by simp [heq, mayBuf])
  simp only [stepT, heq, hb, viewPtr_nil] at hs
  simp at hs; subst hs
  tso_fastT h p [tk3]

theorem t_tk4 (s s' : St) (p : Pid) (r) : Inv s → s.tpc p = .tk4 r → stepT s p = some s' → Inv s' := by
  intro h heq hs
  have hcfg := h.cfg
  have hb := h.tbufE p (by simp [heq, mayBuf])
  simp only [stepT, heq, releaseT, hcfg, code_unlockFence, if_true, hb] at hs
  simp at hs; subst hs
  tso_fastT h p [tk4]

theorem t_tk5 (s s' : St) (p : Pid) (b) : Inv s → s.tpc p = .tk5 b → stepT s p = some s' → Inv s' := by
  intro h heq hs
  have hb := h.tbufE p (by simp [heq, mayBuf])
  simp only [stepT, heq, hb] at hs
  simp at hs; subst hs
  tso_fastT h p [tk5]

theorem t_tk6 (s s' : St) (p : Pid) : Inv s → s.tpc p = .tk6 → stepT s p = some s' → Inv s' := by
  intro h heq hs
  have hcfg := h.cfg
  simp only [stepT, heq, releaseT, hcfg, code_unlockFence, if_true] at hs
  split at hs
  · rename_i hb
    simp at hb
    simp at hs; subst hs
    tso_fastT h p [tk6]
  · simp at hs

end MythVerif.WsqTso
