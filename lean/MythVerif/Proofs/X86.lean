import MythVerif.Model.X86
import MythVerif.Generated.CtxAsm
/-!
Helper lemmas for C03: symbolic execution of the generated instruction lists.
Everything here is about the lists in `Generated/CtxAsm.lean`, i.e. about what
`src/myth_context_func.h` says at the time of the run.
-/
namespace MythVerif.X86
open MythVerif.Gen.Ctx

@[simp] theorem reg_setReg (m : M) (r q : Reg) (v : Int) :
    (setReg m r v).reg q = if q = r then v else m.reg q := rfl
@[simp] theorem mem_setReg (m : M) (r : Reg) (v : Int) : (setReg m r v).mem = m.mem := rfl
@[simp] theorem pc_setReg (m : M) (r : Reg) (v : Int) : (setReg m r v).pc = m.pc := rfl
@[simp] theorem reg_setMem (m : M) (a v : Int) : (setMem m a v).reg = m.reg := rfl
@[simp] theorem mem_setMem (m : M) (a v b : Int) :
    (setMem m a v).mem b = if b = a then v else m.mem b := rfl
@[simp] theorem pc_setMem (m : M) (a v : Int) : (setMem m a v).pc = m.pc := rfl
@[simp] theorem reg_setPc (m : M) (v : Int) : (setPc m v).reg = m.reg := rfl
@[simp] theorem mem_setPc (m : M) (v : Int) : (setPc m v).mem = m.mem := rfl
@[simp] theorem pc_setPc (m : M) (v : Int) : (setPc m v).pc = v := rfl

theorem exec_append (env : Env) (m : M) (a b : List Instr) :
    exec env m (a ++ b) = exec env (exec env m a) b := by
  simp [exec, List.foldl_append]

/-- the two ways a thread gets suspended with its registers saved -/
structure Suspend where
  save : List Instr
  restore : List Instr
  label : Nat
  ctx : Reg          -- register holding the address of the context word to save into

/-- the four ways control is handed to a saved / fresh context -/
structure Resume where
  switch : List Instr
  to : Reg           -- register holding the address of the target context word

def suspendKinds : List Suspend :=
  [⟨swapSave, swapRestore, swapLabel, swapFrom⟩, ⟨swapWcSave, swapWcRestore, swapWcLabel, swapWcFrom⟩]

def resumeKinds : List Resume :=
  [⟨swapSwitch, swapTo⟩, ⟨swapWcSwitch, swapWcTo⟩, ⟨setSwitch, setTo⟩, ⟨setWcSwitch, setWcTo⟩]

/-- the resumers that run a callback on the target stack -/
def callbackKinds : List Resume := [⟨swapWcSwitch, swapWcTo⟩, ⟨setWcSwitch, setWcTo⟩]

/-- what a save half does to an arbitrary machine state `m` (`s` = the state after it):
    192 bytes taken, resume label and the six callee-saved registers at fixed offsets, new rsp
    stored into the context word, nothing else touched -/
structure SaveSpec (S : Suspend) (env : Env) (m s : M) : Prop where
  frame : frameBytes S.save = 192
  rsp : s.reg .rsp = m.reg .rsp - 192
  pc : s.pc = m.pc
  regs : ∀ r, r ≠ .rsp → r ≠ .rbp → s.reg r = m.reg r
  ctx : s.mem (m.reg S.ctx) = m.reg .rsp - 192
  mem : ∀ a, a ≠ m.reg S.ctx → (a < m.reg .rsp - 192 ∨ m.reg .rsp - 128 ≤ a) → s.mem a = m.mem a
  saved : m.reg S.ctx + 8 ≤ m.reg .rsp - 192 ∨ m.reg .rsp ≤ m.reg S.ctx →
      s.mem (m.reg .rsp - 192) = env.label S.label ∧
      s.mem (m.reg .rsp - 176) = m.reg .r15 ∧ s.mem (m.reg .rsp - 168) = m.reg .r14 ∧
      s.mem (m.reg .rsp - 160) = m.reg .r13 ∧ s.mem (m.reg .rsp - 152) = m.reg .r12 ∧
      s.mem (m.reg .rsp - 144) = m.reg .rbx ∧ s.mem (m.reg .rsp - 136) = m.reg .rbp

local macro "save_tac" : tactic => `(tactic|
  (constructor
   · simp [frameBytes, rspDelta, swapSave, swapWcSave]
   · simp [exec, exec1, swapSave, swapWcSave]; omega
   · simp [exec, exec1, swapSave, swapWcSave]
   · simp [exec, exec1, swapSave, swapWcSave]; intro r h1 h2; simp [h1, h2]
   · simp [exec, exec1, swapSave, swapWcSave, swapFrom, swapWcFrom]; omega
   · simp [exec, exec1, swapSave, swapWcSave, swapFrom, swapWcFrom]
     intro a h1 h2; simp [h1]; (repeat' split) <;> omega
   · simp [exec, exec1, swapSave, swapWcSave, swapFrom, swapWcFrom, swapLabel, swapWcLabel]
     intro h
     refine ⟨?_, ?_, ?_, ?_, ?_, ?_, ?_⟩ <;> (repeat' split) <;> omega))

theorem save_effect_swap (env : Env) (m : M) :
    SaveSpec ⟨swapSave, swapRestore, swapLabel, swapFrom⟩ env m (exec env m swapSave) := by
  save_tac

theorem save_effect_swapWc (env : Env) (m : M) :
    SaveSpec ⟨swapWcSave, swapWcRestore, swapWcLabel, swapWcFrom⟩ env m (exec env m swapWcSave) := by
  save_tac

theorem save_effect (S : Suspend) (hS : S ∈ suspendKinds) (env : Env) (m : M) :
    SaveSpec S env m (exec env m S.save) := by
  simp only [suspendKinds, List.mem_cons, List.not_mem_nil, or_false] at hS
  rcases hS with rfl | rfl
  · exact save_effect_swap env m
  · exact save_effect_swapWc env m

/-- what a restore half does when entered with `rsp = T + 8` (the resumer has popped the label) -/
structure RestoreSpec (m s : M) : Prop where
  rsp : s.reg .rsp = m.reg .rsp - 8 + 192
  mem : s.mem = m.mem
  pc : s.pc = m.pc
  r15 : s.reg .r15 = m.mem (m.reg .rsp + 8)
  r14 : s.reg .r14 = m.mem (m.reg .rsp + 16)
  r13 : s.reg .r13 = m.mem (m.reg .rsp + 24)
  r12 : s.reg .r12 = m.mem (m.reg .rsp + 32)
  rbx : s.reg .rbx = m.mem (m.reg .rsp + 40)
  rbp : s.reg .rbp = m.mem (m.reg .rsp + 48)
  others : ∀ r, r ∉ calleeSaved → r ≠ .rsp → s.reg r = m.reg r

local macro "restore_tac" : tactic => `(tactic|
  (constructor
   case others =>
     simp [exec, exec1, swapRestore, swapWcRestore, calleeSaved]
     intro r h1 h2 h3 h4 h5 h6 h7; simp [h1, h2, h3, h4, h5, h6, h7]
   case rsp => simp [exec, exec1, swapRestore, swapWcRestore]; omega
   all_goals (simp [exec, exec1, swapRestore, swapWcRestore] <;> try (congr 1; omega))))

theorem restore_effect_swap (env : Env) (m : M) : RestoreSpec m (exec env m swapRestore) := by
  restore_tac

theorem restore_effect_swapWc (env : Env) (m : M) : RestoreSpec m (exec env m swapWcRestore) := by
  restore_tac

theorem restore_effect (S : Suspend) (hS : S ∈ suspendKinds) (env : Env) (m : M) :
    RestoreSpec m (exec env m S.restore) := by
  simp only [suspendKinds, List.mem_cons, List.not_mem_nil, or_false] at hS
  rcases hS with rfl | rfl
  · exact restore_effect_swap env m
  · exact restore_effect_swapWc env m

@[simp] theorem callEntry_rsp (env : Env) (m : M) : (callEntry env m).reg .rsp = m.reg .rsp - 8 := by
  simp [callEntry]
theorem callEntry_reg (env : Env) (m : M) (r : Reg) (h : r ≠ .rsp) : (callEntry env m).reg r = m.reg r := by
  simp [callEntry, h]
@[simp] theorem callEntry_mem (env : Env) (m : M) (a : Int) :
    (callEntry env m).mem a = if a = m.reg .rsp - 8 then env.retAddr else m.mem a := by
  simp [callEntry]
@[simp] theorem callEntry_pc (env : Env) (m : M) : (callEntry env m).pc = m.pc := by
  simp [callEntry]

/-- `call; pop %rax; jmp *%rax` executed with `rsp = T` by a SysV callee on the stack `[lo, T)` -/
theorem call_tail (env : Env) (m : M) (lo : Int) (W : Int → Prop)
    (hsys : ObeysSysV env.callee lo W) (T : Int) (hT : m.reg .rsp = T) (hlo : lo + 8 ≤ T) :
    let s := exec1 env (exec1 env (env.callee (callEntry env m)) (.pop .rax)) (.jmpReg .rax)
    s.reg .rsp = T + 8 ∧ s.pc = s.mem T ∧
    (∀ a, s.mem a ≠ m.mem a → (lo ≤ a ∧ a < T) ∨ W a) := by
  subst hT
  have hr := hsys.ret (callEntry env m)
  have hf := hsys.frame (callEntry env m)
  simp only [callEntry_rsp, callEntry_mem] at hr hf
  have hr' : (env.callee (callEntry env m)).reg .rsp = m.reg .rsp := by omega
  simp [exec1, hr']
  intro a ha
  by_cases h8 : a = m.reg .rsp - 8
  · left; omega
  · have := hf a (by simpa [h8] using ha)
    rcases this with h | h
    · left; omega
    · right; exact h

/-- effect of a switch half: rsp comes from the target context word, the callback (if any) runs
    with rsp 8 below the target rsp, then the target's resume address is popped and jumped to -/
theorem switch_effect (K : Resume) (hK : K ∈ resumeKinds) (env : Env) (m : M) (lo : Int)
    (W : Int → Prop) (hsys : ObeysSysV env.callee lo W) :
    let T := m.mem (m.reg K.to)
    let s := exec env m K.switch
    (lo + 8 ≤ T →
      s.reg .rsp = T + 8 ∧ s.pc = s.mem T ∧
      (∀ a, s.mem a ≠ m.mem a → (lo ≤ a ∧ a < T) ∨ W a)) := by
  simp only [resumeKinds, List.mem_cons, List.not_mem_nil, or_false] at hK
  rcases hK with rfl | rfl | rfl | rfl
  · simp [exec, exec1, swapSwitch, swapTo]
  · intro T s hlo
    have e : s = exec1 env (exec1 env (env.callee (callEntry env (setReg m .rsp T))) (.pop .rax)) (.jmpReg .rax) := by
      simp [s, T, exec, exec1, swapWcSwitch, swapWcTo]
    rw [e]
    exact call_tail env (setReg m .rsp T) lo W hsys T (by simp) hlo
  · simp [exec, exec1, setSwitch, setTo]
  · intro T s hlo
    have e : s = exec1 env (exec1 env (env.callee (callEntry env (setReg m .rsp T))) (.pop .rax)) (.jmpReg .rax) := by
      simp [s, T, exec, exec1, setWcSwitch, setWcTo]
    rw [e]
    exact call_tail env (setReg m .rsp T) lo W hsys T (by simp) hlo

/-- registers an instruction list writes (besides rsp) -/
def written : List Instr → List Reg
  | [] => []
  | .pop r :: is => r :: written is
  | .leaLabel r _ :: is => r :: written is
  | _ :: is => written is

/-- registers a SysV callee may destroy -/
def callerSaved : List Reg := [.rax, .rcx, .rdx, .rsi, .rdi, .r8, .r9, .r10, .r11]

/-! ## a concrete callee / environment for the non-vacuity examples -/

/-- a callee that uses its frame, destroys caller-saved registers and returns -/
def exCallee (m : M) : M :=
  let sp := m.reg .rsp
  if 1000 ≤ sp then
    setReg (setReg (setReg (setMem (setMem m (sp - 8) 777) (sp - 64) 888) .rax 999) .rcx 998) .rsp (sp + 8)
  else setReg m .rsp (sp + 8)

theorem exCallee_sysv : ObeysSysV exCallee 0 (fun _ => False) := by
  constructor
  · intro m r hr
    simp only [calleeSaved, List.mem_cons, List.not_mem_nil, or_false] at hr
    unfold exCallee
    rcases hr with rfl | rfl | rfl | rfl | rfl | rfl <;> (simp only []; split <;> simp)
  · intro m
    unfold exCallee
    simp only []; split <;> simp
  · intro m a
    unfold exCallee
    simp only []
    split
    · simp; intro h
      by_cases h1 : a = m.reg .rsp - 64
      · omega
      · by_cases h2 : a = m.reg .rsp - 8
        · omega
        · simp [h1, h2] at h
    · simp

def exEnv : Env := { label := fun n => 4000000 + n, retAddr := 4100000, callee := exCallee }

end MythVerif.X86
