import MythVerif.Proofs.WsQueueTac
/-! Per-program-counter preservation lemmas of the work-stealing queue invariant (generated list, uniform script). -/
namespace MythVerif.Wsq

set_option maxHeartbeats 1000000 in
theorem t_tk4 (s s' : St) (p : Pid) (r) : Inv s → s.tpc p = .tk4 r → stepT s p = some s' → Inv s' := by wsq_tstep

set_option maxHeartbeats 1000000 in
theorem t_tk5 (s s' : St) (p : Pid) (b) : Inv s → s.tpc p = .tk5 b → stepT s p = some s' → Inv s' := by wsq_tstep

set_option maxHeartbeats 1000000 in
theorem t_tk6 (s s' : St) (p : Pid) : Inv s → s.tpc p = .tk6 → stepT s p = some s' → Inv s' := by wsq_tstep

set_option maxHeartbeats 1000000 in
theorem t_wq0 (s s' : St) (p : Pid) : Inv s → s.tpc p = .wq0 → stepT s p = some s' → Inv s' := by wsq_tstep

set_option maxHeartbeats 1000000 in
theorem t_wq1 (s s' : St) (p : Pid) (t) : Inv s → s.tpc p = .wq1 t → stepT s p = some s' → Inv s' := by wsq_tstep

end MythVerif.Wsq
