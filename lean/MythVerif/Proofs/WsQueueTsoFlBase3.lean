import MythVerif.Proofs.WsQueueTsoTac
/-! Preservation lemmas of the TSO invariant (generated per program counter of the owner): drain of an owner `base` store at cl2, cl3. -/
namespace MythVerif.WsqTso
open MythVerif.Wsq

theorem f_O_base_cl2 (s : St) (v0) (rest : List Sto) : Inv s → s.opc = .cl2 →
    s.bufO = .base v0 :: rest → Inv (applySto { s with bufO := rest } (.base v0)) := by
  intro h hpc hb
  simp only [applySto]
  tso_fastO h hpc [cl2]

theorem f_O_base_cl3 (s : St) (v0) (rest : List Sto) : Inv s → s.opc = .cl3 →
    s.bufO = .base v0 :: rest → Inv (applySto { s with bufO := rest } (.base v0)) := by
  intro h hpc hb
  simp only [applySto]
  tso_fastO h hpc [cl3]

end MythVerif.WsqTso
