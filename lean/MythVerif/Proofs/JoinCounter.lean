import MythVerif.Model.JoinCounter
import MythVerif.Proofs.JcArith
/-! Inductive invariant of the join-counter model (any `N ≥ 0`, any number of threads) and its
preservation, one lemma per label.  `D = decsOf N state`, `W = waitersOf N state`. -/
namespace MythVerif.JoinCounter
open MythVerif.JcArith

structure Inv (N : Nat) (s : St) : Prop where
  dN    : decsOf N s.state ≤ N
  annM  : ∀ t, t ∈ s.anns ↔ annPc (s.pc t) = true
  annN  : s.anns.Nodup
  qA    : ∀ t, t ∈ s.q → s.pc t = .asleep
  qN    : s.q.Nodup
  wkA   : ∀ t, t ∈ s.wk → s.pc t = .asleep
  wkN   : s.wk.Nodup
  qw    : ∀ t, t ∈ s.q → t ∉ s.wk
  asl   : ∀ t, s.pc t = .asleep → t ∈ s.q ∨ t ∈ s.wk
  ldrI  : ∀ t, ldrPc (s.pc t) = true ↔ s.ldr = some t
  pre   : decsOf N s.state < N → waitersOf N s.state = s.anns.length + s.q.length ∧ s.wk = [] ∧ s.ldr = none ∧
            s.pushes = 0 ∧ s.rets = 0
  wok   : ∀ t, s.pc t = .woken → decsOf N s.state = N
  fin   : decsOf N s.state = N → s.ldr = none → s.anns = [] ∧ s.q = [] ∧ s.wk = []
  ddq   : ∀ t k acc, s.pc t = .ddeq k acc → s.wk = acc ∧ k = s.anns.length + s.q.length ∧ 1 ≤ k
  dpu   : ∀ t rem, s.pc t = .dpush rem → s.wk = rem ∧ rem ≠ [] ∧ s.anns = [] ∧ s.q = []
  wrC   : ∀ t v, s.pc t = .wr v → decsOf N v ≠ N
  drC   : ∀ t v, s.pc t = .dr v → decsOf N v < N
  noAf  : ∀ t, s.pc t ≠ .afail
  acct  : decsOf N s.state = N → s.pushes + s.wk.length + s.anns.length + s.q.length = waitersOf N s.state
  ndE   : s.ndec = decsOf N s.state

theorem d0 (N : Nat) : decsOf N 0 = 0 ∧ waitersOf N 0 = 0 := by
  rw [decsOf_eq, waitersOf_eq]; simp

theorem inv_init (N : Nat) : Inv N init := by
  have := d0 N
  constructor <;> simp [init, annPc, ldrPc, this.1, this.2]

macro "jfin" : tactic => `(tactic| (
    all_goals (try assumption)
    all_goals (try simp only [upd_apply])
    all_goals (first | assumption | grind [annPc, ldrPc, List.Nodup.mem_erase_iff, List.Nodup.erase,
                              List.length_erase_of_mem, List.nodup_cons, List.nodup_append] | skip)))

macro "jstep" : tactic => `(tactic| (
  intro h hs
  obtain ⟨hdN, hannM, hannN, hqA, hqN, hwkA, hwkN, hqw, hasl, hldrI, hpre, hwok, hfin, hddq, hdpu, hwrC, hdrC,
    hnoAf, hacct, hndE⟩ := h
  simp only [step] at hs
  (first | (split at hs) | skip)
  all_goals (first | (split at hs) | skip)
  all_goals (first | (split at hs) | skip)
  all_goals (first | (split at hs) | skip)
  all_goals (try simp at hs)
  all_goals (try subst hs)
  all_goals (constructor <;> jfin)))

theorem p_blockBegin (N : Nat) (s s' : St) (t) : Inv N s → step N s (.blockBegin t) = some s' → Inv N s' := by jstep
theorem p_cbEnq (N : Nat) (s s' : St) (t) : Inv N s → step N s (.cbEnq t) = some s' → Inv N s' := by jstep
theorem p_waitRead (N : Nat) (s s' : St) (t v) : Inv N s → step N s (.waitRead t v) = some s' → Inv N s' := by jstep
theorem p_decRead (N : Nat) (s s' : St) (t v) : Inv N s → step N s (.decRead t v) = some s' → Inv N s' := by jstep
theorem p_wakeSpin (N : Nat) (s s' : St) (t) : Inv N s → step N s (.wakeSpin t) = some s' → Inv N s' := by jstep
theorem p_wakePush (N : Nat) (s s' : St) (t x) : Inv N s → step N s (.wakePush t x) = some s' → Inv N s' := by jstep

theorem p_waitCas (N : Nat) (s s' : St) (t ok) : Inv N s → step N s (.waitCas t ok) = some s' → Inv N s' := by
  intro h hs
  obtain ⟨hdN, hannM, hannN, hqA, hqN, hwkA, hwkN, hqw, hasl, hldrI, hpre, hwok, hfin, hddq, hdpu, hwrC, hdrC,
    hnoAf, hacct, hndE⟩ := h
  simp only [step] at hs
  split at hs
  · rename_i v hpc
    split at hs
    · rename_i hc
      split at hs
      · rename_i hok
        subst hok
        simp at hc
        simp at hs; subst hs
        -- the CAS succeeded: `v` is the current word, whose decrement field is not N
        have hne := hwrC t v hpc
        rw [← hc] at hne
        obtain ⟨hf1, hf2⟩ := wait_step_fields N s.state
        rw [← hc]
        constructor <;> jfin
      · rename_i hok
        simp at hok; subst hok
        simp at hs; subst hs
        constructor <;> jfin
    · simp at hs
  · simp at hs

theorem p_wakeDeq (N : Nat) (s s' : St) (t x) : Inv N s → step N s (.wakeDeq t x) = some s' → Inv N s' := by
  intro h hs
  obtain ⟨hdN, hannM, hannN, hqA, hqN, hwkA, hwkN, hqw, hasl, hldrI, hpre, hwok, hfin, hddq, hdpu, hwrC, hdrC,
    hnoAf, hacct, hndE⟩ := h
  simp only [step] at hs
  split at hs
  · rename_i k acc hpc
    split at hs
    · rename_i y rest hq
      split at hs
      · rename_i hxy
        subst hxy
        simp at hs; subst hs
        obtain ⟨hwk, hk, _⟩ := hddq t (k + 1) acc hpc
        have hxq : x ∈ s.q := by rw [hq]; simp
        have hrn : rest.Nodup ∧ x ∉ rest := by rw [hq] at hqN; simp [List.nodup_cons] at hqN; exact ⟨hqN.2, hqN.1⟩
        have hrs : ∀ y, y ∈ rest → y ∈ s.q := by intro y hy; rw [hq]; simp [hy]
        have hql : s.q.length = rest.length + 1 := by rw [hq]; simp
        by_cases hk0 : k = 0
        · have ha0 : s.anns = [] := List.eq_nil_of_length_eq_zero (by omega)
          have hr0 : rest = [] := List.eq_nil_of_length_eq_zero (by omega)
          simp only [hk0, if_true]
          constructor <;> jfin
        · simp only [hk0, if_false]
          constructor <;> jfin
      · simp at hs
    · simp at hs
  · simp at hs

theorem p_decCas (N : Nat) (s s' : St) (t ok) : Inv N s → step N s (.decCas t ok) = some s' → Inv N s' := by
  intro h hs
  obtain ⟨hdN, hannM, hannN, hqA, hqN, hwkA, hwkN, hqw, hasl, hldrI, hpre, hwok, hfin, hddq, hdpu, hwrC, hdrC,
    hnoAf, hacct, hndE⟩ := h
  simp only [step] at hs
  split at hs
  · rename_i v hpc
    split at hs
    · rename_i hc
      split at hs
      · rename_i hok
        subst hok
        simp at hc
        have hlt := hdrC t v hpc
        rw [← hc] at hlt hs
        obtain ⟨hf1, hf2⟩ := dec_step_fields N s.state hlt
        obtain ⟨hW, hwk0, hl0, hp0, hr0⟩ := hpre hlt
        split at hs
        · rename_i hlast
          split at hs
          · rename_i hw0
            simp at hs; subst hs
            have ha0 : s.anns = [] := List.eq_nil_of_length_eq_zero (by omega)
            have hq0 : s.q = [] := List.eq_nil_of_length_eq_zero (by omega)
            constructor <;> jfin
          · simp at hs; subst hs
            constructor <;> jfin
        · simp at hs; subst hs
          constructor <;> jfin
      · rename_i hok
        simp at hok; subst hok
        simp at hs; subst hs
        constructor <;> jfin
    · simp at hs
  · simp at hs

end MythVerif.JoinCounter
