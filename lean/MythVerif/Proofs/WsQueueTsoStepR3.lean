import MythVerif.Proofs.WsQueueTsoTac
/-! Preservation lemmas of the TSO invariant (owner: put at `base == 0`, overflow test, memmove,
    stores of `top` and `base`). -/
namespace MythVerif.WsqTso
open MythVerif.Wsq

theorem o_pt2 (s s' : St) (e) : Inv s → s.opc = .pt2 e → stepO s = some s' → Inv s' := by
  intro h heq hs
  have hb := (h.pt2 e heq).1
  simp only [stepO, heq, hb, viewTop_nil] at hs
  split at hs
  all_goals (simp at hs; subst hs)
  all_goals tso_fastO h heq [pt2]

theorem o_pt3 (s s' : St) (e off) : Inv s → s.opc = .pt3 e off → stepO s = some s' → Inv s' := by
  intro h heq hs
  have hb := (h.pt3 e off heq).1
  simp only [stepO, heq, hb, viewBase_nil, viewTop_nil] at hs
  simp at hs; subst hs
  tso_fastO h heq [pt3]

theorem o_pt4 (s s' : St) (e off) : Inv s → s.opc = .pt4 e off → stepO s = some s' → Inv s' := by
  intro h heq hs
  have hv := rc1_viewTop _ _ _ _ _ _ _ (h.pt4 e off heq)
  simp only [stepO, heq, hv] at hs
  simp at hs; subst hs
  tso_fastO h heq [pt4]

theorem o_pt5 (s s' : St) (e off) : Inv s → s.opc = .pt5 e off → stepO s = some s' → Inv s' := by
  intro h heq hs
  have hv2 := rc2_viewBase _ _ _ _ _ _ _ (h.pt5 e off heq)
  simp only [stepO, heq, hv2] at hs
  simp at hs; subst hs
  tso_fastO h heq [pt5]

end MythVerif.WsqTso
