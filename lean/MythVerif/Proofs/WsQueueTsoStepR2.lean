import MythVerif.Proofs.WsQueueTsoTac
/-! Preservation lemmas of the TSO invariant (owner: push re-centring, stores of `top` and `base`, unlock). -/
namespace MythVerif.WsqTso
open MythVerif.Wsq

theorem o_pus (s s' : St) (e off) : Inv s → s.opc = .pus e off → stepO s = some s' → Inv s' := by
  intro h heq hs
  have hv := rc1_viewTop _ _ _ _ _ _ _ (h.pus e off heq)
  simp only [stepO, heq, hv] at hs
  simp at hs; subst hs
  tso_fastO h heq [pus]

theorem o_puv (s s' : St) (e off) : Inv s → s.opc = .puv e off → stepO s = some s' → Inv s' := by
  intro h heq hs
  have hv := rc2_viewTop _ _ _ _ _ _ _ (h.puv e off heq)
  have hv2 := rc2_viewBase _ _ _ _ _ _ _ (h.puv e off heq)
  simp only [stepO, heq, hv, hv2] at hs
  simp at hs; subst hs
  tso_fastO h heq [puv]

theorem o_pux (s s' : St) (e t) : Inv s → s.opc = .pux e t → stepO s = some s' → Inv s' := by
  intro h heq hs
  have hcfg := h.cfg
  simp only [stepO, heq, releaseO, hcfg, code_unlockFence, if_true] at hs
  split at hs
  · rename_i hb
    simp at hb
    simp at hs; subst hs
    tso_fastO h heq [pux]
  · simp at hs

end MythVerif.WsqTso
